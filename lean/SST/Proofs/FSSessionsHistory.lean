/-
L6-fs, sessions: what the invariants give at the end of a session (any cut, inside `Close` or not), what a completed
`Close` leaves behind, killed `Open`s, and the composition over a whole history.
-/
import SST.Proofs.FSSessions
namespace SST.Proofs.FSS
open SST SST.DBM SST.FS SST.FSI SST.FSS SST.Proofs.DB SST.Proofs.FS SST.Proofs.FSI

/-- the reference: session by session, the first `p` mutations of the session's history -/
def refAfter (E : Key → Option Bytes) : List (Ghost × Nat) → Key → Option Bytes
  | [] => E
  | x :: rest => refAfter (applySpec E (x.1.hist.take x.2)) rest

/-- the same as ONE list of mutations applied to the initial content -/
def chosenMuts : List (Ghost × Nat) → List Mutation
  | [] => []
  | x :: rest => x.1.hist.take x.2 ++ chosenMuts rest

theorem refAfter_eq (E : Key → Option Bytes) (xs : List (Ghost × Nat)) : refAfter E xs = applySpec E (chosenMuts xs) := by
  induction xs generalizing E with
  | nil => rfl
  | cons x rest ih => simp only [refAfter, chosenMuts, applySpec_append]; exact ih _

/-! ## the end of a session -/

theorem kIdle_kj {c : Cfg} (h : kIdle c = true) : c.kj = .idle := by
  unfold kIdle at h
  split at h
  · assumption
  · cases h

/-- at ANY moment of a session — before, inside or after `Close` — the disk is well-formed and serves the reference
after a prefix `hist.take p` of the mutations begun so far; the prefix contains everything up to the last completed
rotation, with the synchronous WAL every acknowledged mutation, and EVERYTHING once `Close` has released the lock -/
theorem Inv_good {async : Bool} {E : Key → Option Bytes} {sc : SCfg} (h : Inv async E sc) :
    DiskOk sc.c.d ∧ sc.c.acked ≤ sc.c.hist.length ∧ sc.c.hist.length ≤ sc.c.acked + 1 ∧
      ∃ p, sc.c.mark ≤ p ∧ p ≤ sc.c.hist.length ∧ (async = false → sc.c.acked ≤ p) ∧
        (sc.ph.rejecting = true → p = sc.c.hist.length ∧ sc.c.acked = sc.c.hist.length) ∧
        logical sc.c.d = applySpec E (sc.c.hist.take p) := by
  obtain ⟨Hd, e1, e2, e3, e4⟩ := h.g.ex
  refine ⟨h.s.diskOk, h.g.a1, h.g.a2, Hd.length, e3, ?_, e4, ?_, ?_⟩
  · rw [e1]; simp
  · intro hp
    obtain ⟨_, ⟨hq, _, _, _⟩, ha⟩ := h.w.rej hp
    rw [hq, List.append_nil] at e1
    exact ⟨by rw [e1], ha⟩
  · rw [h.s.serves, e2]
    congr 1
    rw [e1, List.take_left]

/-- a completed `Close` is quiescent -/
theorem closed_is_quiescent {async : Bool} {E : Key → Option Bytes} {sc : SCfg} (h : Inv async E sc)
    (hph : sc.ph = .closed) : quiescent sc = true := by
  have hp : sc.ph.rejecting = true := by rw [hph]; rfl
  obtain ⟨hfl, ⟨hq, _, _, htn⟩, _⟩ := h.w.rej hp
  have hpc := h.w.pcU (Or.inr hph)
  have hk := h.w.kst (h.w.wk (Or.inr hph))
  unfold quiescent
  rw [hph, hpc, hfl, hk, hq, htn]
  rfl

/-- what a completed `Close` leaves on the disk: exactly the live tables, all complete; no compaction directory; WAL
files that hold a header and nothing else (the files of rotations with an empty store — `Close`'s own rotation
included — and the file `Close`'s rotation created) -/
theorem closed_disk {async : Bool} {E : Key → Option Bytes} {sc : SCfg} (h : Inv async E sc) (hph : sc.ph = .closed) :
    sc.c.d.tables = encT sc.c.tables ∧ sc.c.d.comps = [] ∧ sc.c.d.walDir = true ∧
      sc.c.d.wal = sc.c.junk ++ [{ num := sc.c.cur }] ∧ Junk sc.c.d.wal ∧ walMuts sc.c.d.wal = [] := by
  have hp : sc.ph.rejecting = true := by rw [hph]; rfl
  obtain ⟨hfl, ⟨_, hrc, _, htn⟩, _⟩ := h.w.rej hp
  have hpc := h.w.pcU (Or.inr hph)
  have hk := kIdle_kj (h.w.kst (h.w.wk (Or.inr hph)))
  have ht : sc.c.d.tables = encT sc.c.tables := by
    rw [h.s.tbl]
    unfold kTables fTables
    rw [hk, hfl]
    simp
  have hc : sc.c.d.comps = [] := by
    rw [h.s.comps]
    unfold kComps
    rw [hk]
  have hw : sc.c.d.wal = sc.c.junk ++ [{ num := sc.c.cur }] := by
    rw [h.s.wal]
    unfold fFile nextFile curFile
    rw [hfl, hpc, hrc, htn]
    simp
  have hj : Junk sc.c.d.wal := by
    rw [hw]
    intro f hf
    rcases List.mem_append.1 hf with (hf | hf)
    · exact h.s.jk f hf
    · simp only [List.mem_singleton] at hf
      subst hf
      exact ⟨rfl, rfl, rfl⟩
  exact ⟨ht, hc, h.s.walDir, hw, hj, junk_muts hj⟩

/-! ## the beginning of a session -/

theorem killedOpens_ok : ∀ (ms : List KilledOpen) (d : Disk), DiskOk d →
    DiskOk (killedOpens d ms) ∧ logical (killedOpens d ms) = logical d := by
  intro ms
  induction ms with
  | nil => intro d h; exact ⟨h, rfl⟩
  | cons m ms ih =>
    intro d h
    obtain ⟨h1, h2⟩ := recover_prefix d h m.1 m.2
    obtain ⟨h3, h4⟩ := ih _ h1
    exact ⟨h3, h4.trans h2⟩

theorem killedOpens_events : ∀ (ms : List KilledOpen) (d : Disk),
    killedOpens d ms = applyEvs d (killedOpensEvents d ms) := by
  intro ms
  induction ms with
  | nil => intro d; rfl
  | cons m ms ih =>
    intro d
    simp only [killedOpens, killedOpensEvents]
    rw [applyEvs_append]
    exact ih _

/-- `Open` on a well-formed disk, after any number of killed attempts: it succeeds, its calls leave the disk
`recover` computes, and the session starts in a state satisfying the invariants with the reference = what the disk
served before -/
theorem sessionStart_inv (d : Disk) (h : DiskOk d) (s : Session) :
    ∃ sc, sessionStart d s = some sc ∧ Inv s.async (logical d) sc ∧ sc.ph = .running ∧ sc.c.prog = s.prog ∧
      sc.c.hist = [] ∧ DiskOk sc.c.d ∧ logical sc.c.d = logical d := by
  obtain ⟨h0, hl0⟩ := killedOpens_ok s.opens d h
  obtain ⟨d1, s1, hr⟩ := recover_ok (killedOpens d s.opens) h0 s.opts
  have hev : openDisk d s = d1 := recover_events _ h0 s.opts d1 s1 hr s.junk
  obtain ⟨hS, hG⟩ := start_SG (killedOpens d s.opens) h0 s.opts d1 s1 hr s.prog s.async
  obtain ⟨hd1, hl1⟩ := recover_diskOk _ h0 s.opts d1 s1 hr
  refine ⟨{ c := start d1 (openedVol s1) s.prog, comp := s.comp }, ?_, ⟨hS, ?_, ?_⟩, rfl, rfl, rfl, hd1, ?_⟩
  · unfold sessionStart
    rw [hr, hev]
    rfl
  · rw [← hl0]; exact hG
  · refine ⟨fun _ => rfl, ?_, ?_, ?_, ?_, ?_⟩
    · intro hx; rcases hx with (hx | hx) <;> cases hx
    · intro hx; cases hx
    · intro hx; cases hx
    · intro hx; rcases hx with (hx | hx) <;> cases hx
    · intro hx; cases hx
  · exact hl1.trans hl0

theorem sessionEnd_inv (d : Disk) (h : DiskOk d) (s : Session) :
    ∃ sc, sessionEnd d s = some sc ∧ Inv s.async (logical d) sc := by
  obtain ⟨sc0, h0, hi, _⟩ := sessionStart_inv d h s
  refine ⟨runS s.async sc0 s.sched, ?_, Inv_run s.async (logical d) s.sched sc0 hi⟩
  unfold sessionEnd
  rw [h0]

/-! ## the program and the history -/

theorem nonbegin_prog (async : Bool) (c c' : Cfg) (e : Option Ev) (mv : Mv) (hm : move async c mv = some (e, c'))
    (hb : mv ≠ .begin) : c'.prog = c.prog ∧ c'.hist = c.hist := by
  cases mv <;> (first | exact absurd rfl hb | skip) <;> simp only [move] at hm <;> (repeat' split at hm) <;>
    first
    | (cases hm; done)
    | (simp only [Option.some.injEq, Prod.mk.injEq] at hm; obtain ⟨_, rfl⟩ := hm; exact ⟨rfl, rfl⟩)

theorem smove_sys_pass {async : Bool} {sc sc' : SCfg} {e : Option Ev} {m : Mv} (hb : m ≠ .begin)
    (hm : smove async sc (.sys m) = some (e, sc')) : pass async sc m = some (e, sc') := by
  cases m <;> (first | exact absurd rfl hb | skip) <;> simp only [smove] at hm <;>
    first
    | exact hm
    | (split at hm <;> first | (cases hm; done) | exact hm)

/-- the calls begun before `Close` (`pre`), the calls rejected after it (`rej`), the calls not yet made -/
def ProgInv (prog0 : List Op) (sc : SCfg) : Prop :=
  ∃ pre rej, prog0 = pre ++ rej ++ sc.c.prog ∧ sc.c.hist = pre.filterMap Op.accepted ∧ (sc.ph = .running → rej = [])

theorem ProgInv_step (async : Bool) (prog0 : List Op) (sc sc' : SCfg) (e : Option Ev) (mv : SMv)
    (h : ProgInv prog0 sc) (hm : smove async sc mv = some (e, sc')) : ProgInv prog0 sc' := by
  obtain ⟨pre, rej, h1, h2, h3⟩ := h
  have hother : ∀ (ph' : Ph) (pc' : Pc), ph' ≠ .running →
      ProgInv prog0 { sc with ph := ph', c := { sc.c with pc := pc' } } := by
    intro ph' pc' hne
    exact ⟨pre, rej, h1, h2, fun hx => absurd hx hne⟩
  cases mv with
  | sys m =>
    by_cases hb : m = .begin
    · subst hb
      simp only [smove] at hm
      split at hm
      · rename_i hph
        obtain ⟨c', hmv, rfl⟩ := pass_some hm
        have hr := h3 hph
        subst hr
        rcases move_prog async sc.c c' e .begin hmv with (⟨hp, hh⟩ | ⟨op, hp, hh⟩)
        · exact ⟨pre, [], by show prog0 = pre ++ [] ++ c'.prog; rw [hp]; exact h1, by show c'.hist = _; rw [hh]; exact h2,
            fun _ => rfl⟩
        · refine ⟨pre ++ [op], [], ?_, ?_, fun _ => rfl⟩
          · show prog0 = pre ++ [op] ++ [] ++ c'.prog
            rw [h1, hp]; simp
          · show c'.hist = _
            rw [hh, h2, List.filterMap_append]
            cases ha : Op.accepted op <;> simp [ha]
      · cases hm
      · rename_i hn1 hn2
        split at hm
        · rename_i x rest hprog
          split at hm
          · cases hm
          · simp only [Option.some.injEq, Prod.mk.injEq] at hm
            obtain ⟨_, rfl⟩ := hm
            refine ⟨pre, rej ++ [x], ?_, h2, fun hx => absurd hx hn1⟩
            show prog0 = pre ++ (rej ++ [x]) ++ rest
            rw [h1, hprog]; simp
        · cases hm
    · obtain ⟨c', hmv, rfl⟩ := pass_some (smove_sys_pass hb hm)
      obtain ⟨hp, hh⟩ := nonbegin_prog async sc.c c' e m hmv hb
      exact ⟨pre, rej, by show prog0 = pre ++ rej ++ c'.prog; rw [hp]; exact h1, by show c'.hist = _; rw [hh]; exact h2, h3⟩
  | cbegin =>
    simp only [smove] at hm
    split at hm
    · simp only [Option.some.injEq, Prod.mk.injEq] at hm
      obtain ⟨_, rfl⟩ := hm
      exact hother _ _ (by intro hx; cases hx)
    · cases hm
  | cunlock =>
    simp only [smove] at hm
    split at hm
    · simp only [Option.some.injEq, Prod.mk.injEq] at hm
      obtain ⟨_, rfl⟩ := hm
      exact ⟨pre, rej, h1, h2, fun hx => by cases hx⟩
    · cases hm
  | kexit =>
    simp only [smove] at hm
    split at hm
    · simp only [Option.some.injEq, Prod.mk.injEq] at hm
      obtain ⟨_, rfl⟩ := hm
      exact ⟨pre, rej, h1, h2, h3⟩
    · cases hm
  | cwal =>
    simp only [smove] at hm
    split at hm
    · simp only [Option.some.injEq, Prod.mk.injEq] at hm
      obtain ⟨_, rfl⟩ := hm
      exact hother _ _ (by intro hx; cases hx)
    · cases hm
  | cfinish =>
    simp only [smove] at hm
    split at hm
    · simp only [Option.some.injEq, Prod.mk.injEq] at hm
      obtain ⟨_, rfl⟩ := hm
      exact hother _ _ (by intro hx; cases hx)
    · cases hm

theorem ProgInv_run (async : Bool) (prog0 : List Op) (sched : List SMv) :
    ∀ sc, ProgInv prog0 sc → ProgInv prog0 (runS async sc sched) := by
  induction sched with
  | nil => intro sc h; exact h
  | cons mv rest ih =>
    intro sc h
    simp only [runS]
    cases hm : smove async sc mv with
    | none => exact ih sc h
    | some r =>
      obtain ⟨e, sc'⟩ := r
      exact ih sc' (ProgInv_step async prog0 sc sc' e mv h hm)

/-! ## the disk is the result of the calls -/

/-- the effect of at most one call -/
def applyOpt (d : Disk) : Option Ev → Disk
  | some ev => applyEv d ev
  | none => d

theorem move_disk (async : Bool) (c c' : Cfg) (e : Option Ev) (mv : Mv) (hm : move async c mv = some (e, c')) :
    c'.d = applyOpt c.d e := by
  cases mv <;> simp only [move] at hm <;> (repeat' split at hm) <;>
    first
    | (cases hm; done)
    | (simp only [Option.some.injEq, Prod.mk.injEq] at hm; obtain ⟨rfl, rfl⟩ := hm; rfl)

theorem smove_disk (async : Bool) (sc sc' : SCfg) (e : Option Ev) (mv : SMv) (hm : smove async sc mv = some (e, sc')) :
    sc'.c.d = applyOpt sc.c.d e := by
  cases mv with
  | sys m =>
    by_cases hb : m = .begin
    · subst hb
      simp only [smove] at hm
      split at hm
      · obtain ⟨c', hmv, rfl⟩ := pass_some hm
        exact move_disk async _ _ _ _ hmv
      · cases hm
      · split at hm
        · split at hm
          · cases hm
          · simp only [Option.some.injEq, Prod.mk.injEq] at hm
            obtain ⟨rfl, rfl⟩ := hm
            rfl
        · cases hm
    · obtain ⟨c', hmv, rfl⟩ := pass_some (smove_sys_pass hb hm)
      exact move_disk async _ _ _ _ hmv
  | cbegin | cunlock | kexit | cwal | cfinish =>
    simp only [smove] at hm
    split at hm
    · simp only [Option.some.injEq, Prod.mk.injEq] at hm
      obtain ⟨rfl, rfl⟩ := hm
      rfl
    · cases hm

theorem runS_disk (async : Bool) (sched : List SMv) :
    ∀ sc, (runS async sc sched).c.d = applyEvs sc.c.d (traceS async sc sched) := by
  induction sched with
  | nil => intro sc; rfl
  | cons mv rest ih =>
    intro sc
    simp only [runS, traceS]
    cases hm : smove async sc mv with
    | none => exact ih sc
    | some r =>
      obtain ⟨e, sc'⟩ := r
      have hd := smove_disk async sc sc' e mv hm
      cases e with
      | none => simp only [applyOpt] at hd ⊢; rw [ih sc', hd]
      | some ev => simp only [applyOpt] at hd ⊢; rw [ih sc', hd, applyEvs_cons]

theorem runS_append (async : Bool) (s1 s2 : List SMv) :
    ∀ sc, runS async sc (s1 ++ s2) = runS async (runS async sc s1) s2 := by
  induction s1 with
  | nil => intro sc; rfl
  | cons mv rest ih =>
    intro sc
    simp only [List.cons_append, runS]
    cases smove async sc mv with
    | none => exact ih sc
    | some r => exact ih r.2


/-! ## one session, then all of them -/

/-- what holds for a session `s`, its ghost data `g` and the number `p` of its mutations that are durable when it ends -/
structure SessOk (s : Session) (g : Ghost) (p : Nat) : Prop where
  opened : g.opened = true                        -- `Open` succeeded
  a1 : g.acked ≤ g.hist.length
  a2 : g.hist.length ≤ g.acked + 1                -- at most one call in flight
  mark : g.mark ≤ p                               -- everything up to the last completed rotation
  le : p ≤ g.hist.length                          -- a prefix: no holes, no reordering
  sync : s.async = false → g.acked ≤ p            -- synchronous WAL: every acknowledged mutation
  all : g.ph.rejecting = true → p = g.hist.length ∧ g.acked = g.hist.length   -- `Close` got past the flusher: everything
  prog : ∃ pre rej post, s.prog = pre ++ rej ++ post ∧ g.hist = pre.filterMap Op.accepted ∧ (g.ph = .running → rej = [])

/-- the disk a completed `Close` leaves: every table directory loads, no compaction directory, the WAL directory
holds header-only files -/
def CleanlyClosed (d : Disk) : Prop :=
  (∀ p ∈ d.tables, isComplete p.2 = true) ∧ d.comps = [] ∧ d.walDir = true ∧ Junk d.wal

theorem session_good (d : Disk) (h : DiskOk d) (s : Session) :
    DiskOk (runSession d s).1 ∧ ∃ p, SessOk s (runSession d s).2 p ∧
      logical (runSession d s).1 = applySpec (logical d) ((runSession d s).2.hist.take p) ∧
      ((runSession d s).2.ph = .closed → CleanlyClosed (runSession d s).1 ∧
        (∃ sc, sessionEnd d s = some sc ∧ quiescent sc = true)) := by
  obtain ⟨sc0, h0, hi0, hph0, hprog0, hhist0, _, _⟩ := sessionStart_inv d h s
  have hend : sessionEnd d s = some (runS s.async sc0 s.sched) := by unfold sessionEnd; rw [h0]
  have hi := Inv_run s.async (logical d) s.sched sc0 hi0
  have hpi : ProgInv s.prog (runS s.async sc0 s.sched) := by
    apply ProgInv_run
    exact ⟨[], [], by rw [hprog0]; rfl, by rw [hhist0]; rfl, fun _ => rfl⟩
  have hrun : runSession d s = ((runS s.async sc0 s.sched).c.d, ghostOf (runS s.async sc0 s.sched)) := by
    unfold runSession; rw [hend]
  rw [hrun]
  obtain ⟨hok, ha1, ha2, p, hm, hle, hsy, hall, hlog⟩ := Inv_good hi
  obtain ⟨pre, rej, hp1, hp2, hp3⟩ := hpi
  refine ⟨hok, p, ⟨rfl, ha1, ha2, hm, hle, hsy, hall, ⟨pre, rej, _, hp1, hp2, hp3⟩⟩, hlog, ?_⟩
  intro hc
  have hc' : (runS s.async sc0 s.sched).ph = .closed := hc
  obtain ⟨ht, hcm, hwd, _, hj, _⟩ := closed_disk hi hc'
  refine ⟨⟨?_, hcm, hwd, hj⟩, _, hend, closed_is_quiescent hi hc'⟩
  intro q hq
  show isComplete q.2 = true
  have hq' : q ∈ (runS s.async sc0 s.sched).c.d.tables := hq
  rw [ht] at hq'
  unfold encT at hq'
  obtain ⟨t, _, rfl⟩ := List.mem_map.1 hq'
  rfl

theorem runSessions_length : ∀ (ss : List Session) (d : Disk), (runSessions d ss).2.length = ss.length := by
  intro ss
  induction ss with
  | nil => intro d; rfl
  | cons s rest ih => intro d; simp only [runSessions, List.length_cons]; rw [ih]

/-- every session of a history, with its ghost data and the chosen number of durable mutations -/
def triples (ss : List Session) (gs : List Ghost) (ps : List Nat) : List (Session × Ghost × Nat) := ss.zip (gs.zip ps)

theorem sessions_good : ∀ (ss : List Session) (d : Disk), DiskOk d →
    DiskOk (runSessions d ss).1 ∧ ∃ ps : List Nat, ps.length = ss.length ∧
      (∀ x ∈ triples ss (runSessions d ss).2 ps, SessOk x.1 x.2.1 x.2.2) ∧
      logical (runSessions d ss).1 = refAfter (logical d) ((runSessions d ss).2.zip ps) := by
  intro ss
  induction ss with
  | nil =>
    intro d h
    exact ⟨h, [], rfl, fun x hx => (by cases hx), rfl⟩
  | cons s rest ih =>
    intro d h
    obtain ⟨h1, p, hso, hl, _⟩ := session_good d h s
    obtain ⟨h2, ps, hlen, hall, hl2⟩ := ih (runSession d s).1 h1
    refine ⟨h2, p :: ps, by simp [hlen], ?_, ?_⟩
    · intro x hx
      simp only [runSessions, triples, List.zip_cons_cons, List.mem_cons] at hx
      rcases hx with (rfl | hx)
      · exact hso
      · exact hall x hx
    · simp only [runSessions, List.zip_cons_cons, refAfter]
      rw [hl2, hl]

/-- the general form of the history theorems (sessions may differ in their WAL flavour) -/
theorem history_good (d0 : Disk) (h0 : DiskOk d0) (H : History) (o : Opts) :
    DiskOk (runHistory d0 H).1 ∧ (runHistory d0 H).2.length = H.sessions.length ∧
      ∃ ps : List Nat, ps.length = H.sessions.length ∧
        (∀ x ∈ triples H.sessions (runHistory d0 H).2 ps, SessOk x.1 x.2.1 x.2.2) ∧
        ∃ d' s, recover (runHistory d0 H).1 o = .ok (d', s) ∧
          abs s = refAfter (logical d0) ((runHistory d0 H).2.zip ps) := by
  obtain ⟨h1, ps, hlen, hall, hl⟩ := sessions_good H.sessions d0 h0
  obtain ⟨h2, hl2⟩ := killedOpens_ok H.lastOpens _ h1
  obtain ⟨d', s, hr⟩ := recover_ok _ h2 o
  refine ⟨h2, runSessions_length _ _, ps, hlen, hall, d', s, hr, ?_⟩
  rw [recover_abs _ o d' s hr]
  exact hl2.trans hl

/-! ## the disk of a history is the result of its calls -/

theorem sessionStart_disk (d : Disk) (s : Session) (sc : SCfg) (h : sessionStart d s = some sc) :
    sc.c.d = openDisk d s := by
  unfold sessionStart at h
  split at h
  · simp only [Option.some.injEq] at h
    subst h
    rfl
  · cases h

theorem runSession_events (d : Disk) (s : Session) : (runSession d s).1 = applyEvs d (sessionEvents d s) := by
  have hopen : openDisk d s = applyEvs d (killedOpensEvents d s.opens ++ recoverEvents (killedOpens d s.opens) s.junk) := by
    unfold openDisk
    rw [applyEvs_append, ← killedOpens_events]
  unfold runSession sessionEnd sessionEvents
  cases hs : sessionStart d s with
  | none => simp only [List.append_nil]; exact hopen
  | some sc =>
    simp only
    rw [runS_disk, sessionStart_disk d s sc hs, hopen, ← applyEvs_append]

theorem runSessions_events : ∀ (ss : List Session) (d : Disk),
    (runSessions d ss).1 = applyEvs d (sessionsEvents d ss) := by
  intro ss
  induction ss with
  | nil => intro d; rfl
  | cons s rest ih =>
    intro d
    simp only [runSessions, sessionsEvents]
    rw [applyEvs_append, ← runSession_events, ih]

theorem runHistory_events (d : Disk) (H : History) : (runHistory d H).1 = applyEvs d (historyEvents d H) := by
  unfold runHistory historyEvents
  simp only
  rw [applyEvs_append, ← runSessions_events, ← killedOpens_events]


/-! ## a session without `Close` moves is a run of the interleaved model -/

theorem smove_running (async : Bool) (sc : SCfg) (mv : Mv) (hph : sc.ph = .running) (hc : sc.comp = true)
    (hk : sc.kstop = false) : smove async sc (.sys mv) = pass async sc mv := by
  cases mv <;> simp [smove, hph, hc, hk]

theorem runS_sys (async : Bool) (sched : List Mv) : ∀ (sc : SCfg), sc.ph = .running → sc.comp = true → sc.kstop = false →
    runS async sc (sched.map .sys) = { sc with c := FSI.run async sc.c sched } := by
  induction sched with
  | nil => intro sc _ _ _; rfl
  | cons mv rest ih =>
    intro sc hph hc hk
    simp only [List.map_cons, runS, FSI.run]
    rw [smove_running async sc mv hph hc hk]
    unfold pass
    cases hm : move async sc.c mv with
    | none => exact ih sc hph hc hk
    | some r =>
      obtain ⟨e, c'⟩ := r
      simp only
      rw [ih { sc with c := c' } hph hc hk]

end SST.Proofs.FSS
