/-
Zero-padded cuts of the flag file, payload level: a cut marshalled `CompactionMetadata`, padded with zeros to its
length, does not unmarshal, or unmarshals to the message with the tail of its last written string zeroed.
(Helper file of SST/Proofs/CompDirBytesPad.lean.)
-/
import SST.Proofs.CompDirBytesDefs
import SST.Proofs.RecordIODamage
import SST.Proofs.Proto
namespace SST.Proofs.CompDir.Pad
open SST SST.CompDir Generated SST.Proofs SST.Proofs.Pb

/-! ## zeros and padded cuts -/

theorem zeros_succ (n : Nat) : zeros (n + 1) = 0 :: zeros n := rfl

theorem zeros_add (a b : Nat) : zeros a ++ zeros b = zeros (a + b) := by
  simp [zeros, List.replicate_append_replicate]

@[simp] theorem zeros_length (n : Nat) : (zeros n).length = n := by simp [zeros]

theorem zeros_take (n k : Nat) : (zeros n).take k = zeros (min k n) := by simp [zeros, List.take_replicate]

theorem zeros_drop (n k : Nat) : (zeros n).drop k = zeros (n - k) := by simp [zeros, List.drop_replicate]

theorem zeros_zero : zeros 0 = [] := rfl

theorem zeros_pos (n : Nat) (h : 0 < n) : zeros n = 0 :: zeros (n - 1) := by
  obtain ⟨k, rfl⟩ : ∃ k, n = k + 1 := ⟨n - 1, by omega⟩
  rfl

/-- the first `j` bytes of `E`, then zeros up to the length of `E` and `r` more -/
def padCut (E : Bytes) (j r : Nat) : Bytes := E.take j ++ zeros (E.length - j + r)

theorem padCut_append_lt (A B : Bytes) (j r : Nat) (h : j ≤ A.length) :
    padCut (A ++ B) j r = padCut A j (B.length + r) := by
  unfold padCut
  rw [List.take_append_of_le_length h, List.length_append]
  congr 2; omega

theorem padCut_append_ge (A B : Bytes) (j r : Nat) (h : A.length ≤ j) :
    padCut (A ++ B) j r = A ++ padCut B (j - A.length) r := by
  unfold padCut
  rw [List.take_append, List.take_of_length_le h, List.length_append, List.append_assoc]
  congr 3; omega

theorem padCut_zero (E : Bytes) (r : Nat) : padCut E 0 r = zeros (E.length + r) := by
  simp [padCut]

theorem padCut_nil (r : Nat) : padCut [] 0 r = zeros r := by
  simp [padCut]

/-! ## varints cut and continued by a zero byte -/

theorem isVar_take_zero : ∀ (E : Bytes), IsVar E → ∀ t, t < E.length →
    IsVar (E.take t ++ [0]) ∧ vval (E.take t ++ [0]) = vval (E.take t) := by
  intro E
  induction E with
  | nil => intro h; cases h
  | cons b bs ih =>
    intro h t ht
    cases t with
    | zero =>
      refine ⟨Or.inl ⟨rfl, by decide⟩, ?_⟩
      simp [vval]
    | succ t =>
      simp only [List.length_cons] at ht
      rcases h with ⟨hnil, _⟩ | ⟨hb, hbs⟩
      · subst hnil; simp at ht
      · obtain ⟨i1, i2⟩ := ih hbs t (by omega)
        simp only [List.take_succ_cons, List.cons_append, vval, i2]
        exact ⟨Or.inr ⟨hb, i1⟩, trivial⟩

theorem isVar_take_err : ∀ (E : Bytes), IsVar E → ∀ t, t < E.length → ∀ (i x s : Nat),
    ∃ e, uvarintDecAux (E.take t) i x s = .error e := by
  intro E
  induction E with
  | nil => intro h; cases h
  | cons b bs ih =>
    intro h t ht i x s
    cases t with
    | zero =>
      simp only [List.take_zero, uvarintDecAux]
      split
      · exact ⟨_, rfl⟩
      · split <;> exact ⟨_, rfl⟩
    | succ t =>
      simp only [List.length_cons] at ht
      rcases h with ⟨hnil, _⟩ | ⟨hb, hbs⟩
      · subst hnil; simp at ht
      · simp only [List.take_succ_cons, uvarintDecAux]
        by_cases h10 : i ≥ 10
        · rw [if_pos h10]; exact ⟨_, rfl⟩
        · rw [if_neg h10, if_neg (by omega)]
          exact ih hbs t (by omega) _ _ _

theorem vval_take_enc_lt (n : Nat) : ∀ t, 1 ≤ t → t < (uvarintEnc n).length →
    vval ((uvarintEnc n).take t) < n := by
  induction n using Nat.strongRecOn with
  | _ n ih =>
    intro t h1 ht
    by_cases h : n < 128
    · rw [uvarintEnc_lt n h] at ht; simp at ht; omega
    · rw [uvarintEnc_ge n h] at ht ⊢
      have hb := toNat_ofNat_lt (n % 128 + 128) (by omega)
      obtain ⟨t', rfl⟩ : ∃ t', t = t' + 1 := ⟨t - 1, by omega⟩
      simp only [List.length_cons] at ht
      simp only [List.take_succ_cons, vval, hb]
      by_cases h0 : t' = 0
      · subst h0
        simp only [List.take_zero, vval]
        omega
      · have := ih (n / 128) (Nat.div_lt_self (by omega) (by omega)) t' (by omega) (by omega)
        have e2 : n % 128 + 128 * (n / 128) = n := Nat.mod_add_div n 128
        omega

/-! ## decoder steps -/

/-- the decoder stopped with an error -/
def IsErr (r : PbFields × Option Err) : Prop := ∃ e, r.2 = some e

theorem pbVarint_zero (l : Bytes) : pbVarint (0 :: l) = .ok (0, 1) := by
  simp [pbVarint, uvarintDec_zero]

theorem aux_fuel0 (sch : Nat → Option PbKind) (b : Bytes) (acc : PbFields) : IsErr (pbDecodeAux sch 0 b acc) :=
  ⟨.other, by simp [pbDecodeAux]⟩

/-- a zero byte where a tag is expected: field number 0 -/
theorem aux_zero (sch : Nat → Option PbKind) (fuel : Nat) (l : Bytes) (acc : PbFields) :
    IsErr (pbDecodeAux sch fuel (0 :: l) acc) := by
  cases fuel with
  | zero => exact aux_fuel0 _ _ _
  | succ f =>
    rw [pbDecodeAux]
    simp [pbVarint_zero, IsErr]

theorem aux_zeros (sch : Nat → Option PbKind) (fuel n : Nat) (acc : PbFields) (h : 0 < n) :
    IsErr (pbDecodeAux sch fuel (zeros n) acc) := by
  rw [zeros_pos n h]; exact aux_zero _ _ _ _

theorem pbTag_small (num : Nat) (hn : num = 1 ∨ num = 2 ∨ num = 3) : pbTag num 2 = [UInt8.ofNat (num * 8 + 2)] := by
  unfold pbTag; rw [uvarintEnc_lt _ (by omega)]

theorem schema_small (num : Nat) (hn : num = 1 ∨ num = 2 ∨ num = 3) : compMetaSchema num = some .bytes := by
  rcases hn with rfl | rfl | rfl <;> rfl

/-- one iteration on a `string` field whose length prefix may be anything -/
theorem aux_tag (num : Nat) (hn : num = 1 ∨ num = 2 ∨ num = 3) (rest : Bytes) (acc : PbFields) (fuel : Nat) :
    pbDecodeAux compMetaSchema (fuel + 1) (pbTag num 2 ++ rest) acc =
      match pbVarint rest with
      | .error e => (acc, some e)
      | .ok (len, m) =>
        if len > rest.length - m then (acc, some .other)
        else pbDecodeAux compMetaSchema fuel (rest.drop (m + len))
          (acc ++ [(num, .bytes ((rest.drop m).take len))]) := by
  have ht : (num * 8 + 2) / 8 = num := by omega
  have hw : (num * 8 + 2) % 8 = 2 := by omega
  have htag : num * 8 + 2 < 2 ^ 64 := by omega
  have hs := schema_small num hn
  have hne : ¬ ((pbTag num 2 ++ rest).length = 0) := by
    rw [pbTag_small num hn]; simp
  rw [pbDecodeAux]
  simp only [hne, if_false]
  simp only [pbTag]
  rw [pbVarint_enc _ _ htag]
  simp only [ht, hw, hs, List.drop_left]
  have h3' : ¬ (num < 1 ∨ num > 536870911) := by omega
  rw [if_neg h3']
  cases hp : pbVarint rest with
  | error e => simp
  | ok p =>
    obtain ⟨len, m⟩ := p
    simp

/-! ## one cut field -/

theorem zeroTailStr_length (s : Bytes) (i : Nat) : (zeroTailStr s i).length = s.length := by
  simp only [zeroTailStr, List.length_append, List.length_take, zeros_length]; omega

theorem pbRepField_length (num : Nat) (hn : num = 1 ∨ num = 2 ∨ num = 3) (c : Bytes) :
    (pbRepField num c).length = 1 + (uvarintEnc c.length).length + c.length := by
  simp [pbRepField, pbTag_small num hn]; omega

theorem field_pad (num : Nat) (hn : num = 1 ∨ num = 2 ∨ num = 3) (c : Bytes) (hc : c.length < 2 ^ 64)
    (j : Nat) (hj : j < (pbRepField num c).length) (r : Nat) (acc : PbFields) (fuel : Nat) :
    IsErr (pbDecodeAux compMetaSchema fuel (padCut (pbRepField num c) j r) acc) ∨
    (r = 0 ∧ ∃ i, pbDecodeAux compMetaSchema fuel (padCut (pbRepField num c) j r) acc =
      (acc ++ [(num, .bytes (zeroTailStr c i))], none)) := by
  have hlen := pbRepField_length num hn c
  have hlpos := encLen_pos c.length
  have htl : (pbTag num 2).length = 1 := by rw [pbTag_small num hn]; rfl
  cases fuel with
  | zero => exact Or.inl (aux_fuel0 _ _ _)
  | succ fuel =>
  cases j with
  | zero =>
    left
    rw [padCut_zero]
    exact aux_zeros _ _ _ _ (by omega)
  | succ j =>
    have hE : pbRepField num c = pbTag num 2 ++ (uvarintEnc c.length ++ c) := by
      simp [pbRepField]
    by_cases hcut : (uvarintEnc c.length).length ≤ j
    · -- the length prefix is intact
      have hi : j - (uvarintEnc c.length).length < c.length := by omega
      generalize hidef : j - (uvarintEnc c.length).length = i at hi
      have hpad : padCut (pbRepField num c) (j + 1) r =
          pbTag num 2 ++ uvarintEnc (zeroTailStr c i).length ++ zeroTailStr c i ++ zeros r := by
        rw [hE, padCut_append_ge _ _ _ _ (by omega), htl, Nat.add_sub_cancel,
          padCut_append_ge _ _ _ _ hcut, hidef, zeroTailStr_length]
        unfold padCut zeroTailStr
        rw [← zeros_add]
        simp
      rw [hpad, aux_bytes compMetaSchema num (zeroTailStr c i) (zeros r) acc fuel (schema_small num hn)
        (by omega) (by omega) (by rw [zeroTailStr_length]; exact hc)]
      by_cases hr : r = 0
      · subst hr
        cases fuel with
        | zero => exact Or.inl (aux_fuel0 _ _ _)
        | succ f =>
          right
          exact ⟨rfl, i, aux_nil _ _ _ (by omega)⟩
      · left; exact aux_zeros _ _ _ _ (by omega)
    · -- cut inside (or right before) the length prefix
      have hjl : j < (uvarintEnc c.length).length := by omega
      obtain ⟨vE, eE⟩ := isVar_enc c.length
      obtain ⟨v0, e0⟩ := isVar_take_zero _ vE j hjl
      generalize hN : (uvarintEnc c.length).length - j - 1 + c.length + r = N
      have hpad : padCut (pbRepField num c) (j + 1) r =
          pbTag num 2 ++ (((uvarintEnc c.length).take j ++ [0]) ++ zeros N) := by
        rw [hE, padCut_append_ge _ _ _ _ (by omega), htl, Nat.add_sub_cancel,
          padCut_append_lt _ _ _ _ (by omega)]
        unfold padCut
        rw [zeros_pos ((uvarintEnc c.length).length - j + (c.length + r)) (by omega)]
        have : (uvarintEnc c.length).length - j + (c.length + r) - 1 = N := by omega
        rw [this]
        simp
      have htk : ((uvarintEnc c.length).take j).length = j := by
        rw [List.length_take]; omega
      rw [hpad, aux_tag num hn]
      rcases uvarintDecAux_isVar _ v0 (zeros N) 0 0 0 with ⟨e, he⟩ | hok
      · have : pbVarint (((uvarintEnc c.length).take j ++ [0]) ++ zeros N) = .error .other := by
          unfold pbVarint uvarintDec; rw [he]
        rw [this]
        exact Or.inl ⟨_, rfl⟩
      · generalize hlv : vval ((uvarintEnc c.length).take j) = len at e0
        have hfacts : (j = 0 → len = 0) ∧ (1 ≤ j → len < c.length) := by
          constructor
          · intro h0; subst h0; rw [← hlv]; rfl
          · intro h1
            have := vval_take_enc_lt c.length j h1 hjl
            omega
        have : pbVarint (((uvarintEnc c.length).take j ++ [0]) ++ zeros N) = .ok (len, j + 1) := by
          unfold pbVarint uvarintDec; rw [hok]
          simp [e0, htk]
        rw [this]
        simp only []
        have hrl : (((uvarintEnc c.length).take j ++ [0]) ++ zeros N).length = j + 1 + N := by
          simp [htk]; omega
        by_cases hshort : len > (((uvarintEnc c.length).take j ++ [0]) ++ zeros N).length - (j + 1)
        · rw [if_pos hshort]; exact Or.inl ⟨_, rfl⟩
        · rw [if_neg hshort]
          rw [hrl] at hshort
          have hd1 : (((uvarintEnc c.length).take j ++ [0]) ++ zeros N).drop (j + 1 + len) = zeros (N - len) := by
            rw [← List.drop_drop, List.drop_left' (by simp [htk]), zeros_drop]
          have hd2 : ((((uvarintEnc c.length).take j ++ [0]) ++ zeros N).drop (j + 1)).take len = zeros len := by
            rw [List.drop_left' (by simp [htk]), zeros_take]
            congr 1; omega
          rw [hd1, hd2]
          by_cases hrem : 0 < N - len
          · exact Or.inl (aux_zeros _ _ _ _ hrem)
          · -- nothing is left: the field was `tag 00`, and it was the last one
            have hj0 : j = 0 := by
              rcases Nat.eq_zero_or_pos j with h | h
              · exact h
              · have := hfacts.2 h; omega
            have hl0 : len = 0 := hfacts.1 hj0
            have hc0 : c.length = 0 := by omega
            have hr0 : r = 0 := by omega
            have hcn : c = [] := List.eq_nil_of_length_eq_zero hc0
            have hNl : N - len = 0 := by omega
            rw [hNl, hl0]
            cases fuel with
            | zero => exact Or.inl (aux_fuel0 _ _ _)
            | succ f =>
              right
              refine ⟨hr0, 0, ?_⟩
              rw [zeros_zero, aux_nil _ _ _ (by omega), hcn]
              rfl

/-! ## a cut list of fields -/

/-- the wire form of a list of `string` fields -/
def encF (L : List (Nat × Bytes)) : Bytes := (L.map fun p => pbRepField p.1 p.2).flatten

def fieldsOf (L : List (Nat × Bytes)) : PbFields := L.map fun p => (p.1, PbVal.bytes p.2)

theorem encF_cons (p : Nat × Bytes) (L : List (Nat × Bytes)) : encF (p :: L) = pbRepField p.1 p.2 ++ encF L := rfl

theorem encF_pad : ∀ (L : List (Nat × Bytes)), (∀ p ∈ L, p.1 = 1 ∨ p.1 = 2 ∨ p.1 = 3) →
    (encF L).length < 2 ^ 64 → ∀ (j : Nat), j < (encF L).length → ∀ (acc : PbFields) (fuel : Nat),
    IsErr (pbDecodeAux compMetaSchema fuel (padCut (encF L) j 0) acc) ∨
    ∃ L' p i, L = L' ++ [p] ∧ pbDecodeAux compMetaSchema fuel (padCut (encF L) j 0) acc =
      (acc ++ fieldsOf (L' ++ [(p.1, zeroTailStr p.2 i)]), none) := by
  intro L
  induction L with
  | nil => intro _ _ j hj; simp [encF] at hj
  | cons p L ih =>
    intro hn hlen j hj acc fuel
    have hnp := hn p (by simp)
    have hfl := pbRepField_length p.1 hnp p.2
    rw [encF_cons] at hlen hj ⊢
    rw [List.length_append] at hlen hj
    by_cases hcut : j < (pbRepField p.1 p.2).length
    · rw [padCut_append_lt _ _ _ _ (by omega)]
      rcases field_pad p.1 hnp p.2 (by omega) j hcut ((encF L).length + 0) acc fuel with h | ⟨h0, i, h⟩
      · exact Or.inl h
      · right
        have hL : L = [] := by
          cases L with
          | nil => rfl
          | cons q L =>
            have := pbRepField_length q.1 (hn q (by simp)) q.2
            rw [encF_cons, List.length_append] at h0; omega
        subst hL
        exact ⟨[], p, i, rfl, h⟩
    · rw [padCut_append_ge _ _ _ _ (by omega)]
      cases fuel with
      | zero => exact Or.inl (aux_fuel0 _ _ _)
      | succ fuel =>
        have hpr : pbRepField p.1 p.2 ++ padCut (encF L) (j - (pbRepField p.1 p.2).length) 0 =
            pbTag p.1 2 ++ uvarintEnc p.2.length ++ p.2 ++ padCut (encF L) (j - (pbRepField p.1 p.2).length) 0 := rfl
        rw [hpr, aux_bytes compMetaSchema p.1 p.2 _ acc fuel (schema_small p.1 hnp) (by omega) (by omega) (by omega)]
        rcases ih (fun q hq => hn q (by simp [hq])) (by omega) (j - (pbRepField p.1 p.2).length) (by omega)
          (acc ++ [(p.1, .bytes p.2)]) fuel with h | ⟨L', q, i, hL, h⟩
        · exact Or.inl h
        · right
          refine ⟨p :: L', q, i, by rw [hL]; rfl, ?_⟩
          rw [h]
          simp [fieldsOf]

/-! ## the message -/

/-- the fields `proto.Marshal` writes for the message -/
def metaFields (m : RawMeta) : List (Nat × Bytes) :=
  (if m.writePath.length = 0 then [] else [(1, m.writePath)]) ++
  ((if m.replacementPath.length = 0 then [] else [(2, m.replacementPath)]) ++
    m.sstablePaths.map (fun b => (3, b)))

theorem encCompMeta_eq (m : RawMeta) : encCompMeta m = encF (metaFields m) := by
  obtain ⟨wp, rp, ps⟩ := m
  have hps : (List.map (pbRepField 3) ps).flatten = encF (ps.map fun b => (3, b)) := by
    simp [encF, List.map_map, Function.comp_def]
  unfold encCompMeta metaFields
  simp only [hps]
  by_cases h1 : wp.length = 0 <;> by_cases h2 : rp.length = 0 <;>
    simp [h1, h2, pbBytesField, encF, pbRepField]

theorem metaFields_num (m : RawMeta) : ∀ p ∈ metaFields m, p.1 = 1 ∨ p.1 = 2 ∨ p.1 = 3 := by
  intro p hp
  unfold metaFields at hp
  rcases List.mem_append.mp hp with h | h
  · split at h
    · cases h
    · simp at h; subst h; exact Or.inl rfl
  · rcases List.mem_append.mp h with h | h
    · split at h
      · cases h
      · simp at h; subst h; exact Or.inr (Or.inl rfl)
    · obtain ⟨b, _, rfl⟩ := List.mem_map.mp h
      exact Or.inr (Or.inr rfl)

/-- the message a list of decoded fields stands for -/
def rawOfFields (fs : PbFields) : RawMeta :=
  { writePath := strOf fs 1, replacementPath := strOf fs 2, sstablePaths := repOf fs 3 }

theorem decCompMeta_err (b : Bytes) (h : IsErr (pbDecode compMetaSchema b)) : decCompMeta b = none := by
  obtain ⟨e, he⟩ := h
  unfold decCompMeta
  split
  · rename_i fs heq; rw [heq] at he; cases he
  · rfl

theorem decCompMeta_ok (b : Bytes) (fs : PbFields) (h : pbDecode compMetaSchema b = (fs, none)) :
    decCompMeta b = if fieldsUtf8 fs then some (rawOfFields fs) else none := by
  unfold decCompMeta
  rw [h]
  rfl

theorem find3 (ps : List Bytes) (k : Nat) (hk : k ≠ 3) :
    (ps.map fun b => ((3 : Nat), PbVal.bytes b)).reverse.find? (fun p => p.1 == k) = none := by
  rw [List.find?_eq_none]
  intro x hx
  rw [List.mem_reverse] at hx
  obtain ⟨b, _, rfl⟩ := List.mem_map.mp hx
  simp; omega

theorem rep3 (ps : List Bytes) :
    repOf (ps.map fun b => ((3 : Nat), PbVal.bytes b)) 3 = ps := by
  induction ps with
  | nil => rfl
  | cons b ps ih =>
    unfold repOf at ih ⊢
    simp only [List.map_cons, List.filterMap_cons]
    simp only [if_true]
    rw [ih]

theorem raw_metaFields (m : RawMeta) : rawOfFields (fieldsOf (metaFields m)) = m := by
  obtain ⟨wp, rp, ps⟩ := m
  have hf : fieldsOf (metaFields ⟨wp, rp, ps⟩) =
      optB 1 wp ++ (optB 2 rp ++ ps.map fun b => ((3 : Nat), PbVal.bytes b)) := by
    unfold fieldsOf metaFields optB
    by_cases h1 : wp.length = 0 <;> by_cases h2 : rp.length = 0 <;>
      simp [h1, h2, List.map_map, Function.comp_def]
  have g1 : strOf (fieldsOf (metaFields ⟨wp, rp, ps⟩)) 1 = wp := by
    rw [hf]
    simp only [strOf, pbGetBytes, List.reverse_append, List.find?_append, find3 ps 1 (by omega), find_optB]
    by_cases h : wp.length = 0
    · have : wp = [] := List.eq_nil_of_length_eq_zero h
      subst this; simp
    · simp [h]
  have g2 : strOf (fieldsOf (metaFields ⟨wp, rp, ps⟩)) 2 = rp := by
    rw [hf]
    simp only [strOf, pbGetBytes, List.reverse_append, List.find?_append, find3 ps 2 (by omega), find_optB]
    by_cases h : rp.length = 0
    · have : rp = [] := List.eq_nil_of_length_eq_zero h
      subst this; simp
    · simp [h]
  have g3 : repOf (fieldsOf (metaFields ⟨wp, rp, ps⟩)) 3 = ps := by
    rw [hf]
    have a1 : repOf (optB 1 wp) 3 = [] := by
      unfold repOf optB; split <;> simp
    have a2 : repOf (optB 2 rp) 3 = [] := by
      unfold repOf optB; split <;> simp
    have happ : ∀ (a b : PbFields), repOf (a ++ b) 3 = repOf a 3 ++ repOf b 3 := by
      intro a b; unfold repOf; rw [List.filterMap_append]
    rw [happ, happ, a1, a2, rep3]; rfl
  unfold rawOfFields
  rw [g1, g2, g3]

theorem metaFields_zeroTail (m : RawMeta) (L' : List (Nat × Bytes)) (p : Nat × Bytes) (i : Nat)
    (h : metaFields m = L' ++ [p]) : L' ++ [(p.1, zeroTailStr p.2 i)] = metaFields (zeroTail m i) := by
  obtain ⟨wp, rp, ps⟩ := m
  rcases List.eq_nil_or_concat ps with hps | ⟨qs, l, hps⟩
  · subst hps
    by_cases h2 : rp.length = 0
    · by_cases h1 : wp.length = 0
      · simp [metaFields, h1, h2] at h
      · have hm : metaFields ⟨wp, rp, []⟩ = [] ++ [(1, wp)] := by simp [metaFields, h1, h2]
        rw [hm] at h
        obtain ⟨e1, e2⟩ := List.append_inj' h rfl
        have e3 : p = (1, wp) := by simpa using e2.symm
        subst e1 e3
        have hz : zeroTail ⟨wp, rp, []⟩ i = ⟨zeroTailStr wp i, rp, []⟩ := by
          simp [zeroTail, h2]
        rw [hz]
        simp [metaFields, h1, h2, zeroTailStr_length]
    · have hm : metaFields ⟨wp, rp, []⟩ = (if wp.length = 0 then [] else [(1, wp)]) ++ [(2, rp)] := by
        simp [metaFields, h2]
      rw [hm] at h
      obtain ⟨e1, e2⟩ := List.append_inj' h rfl
      have e3 : p = (2, rp) := by simpa using e2.symm
      subst e1 e3
      have hz : zeroTail ⟨wp, rp, []⟩ i = ⟨wp, zeroTailStr rp i, []⟩ := by
        simp [zeroTail, h2]
      rw [hz]
      simp [metaFields, h2, zeroTailStr_length]
  · rw [List.concat_eq_append] at hps
    subst hps
    have hm : metaFields ⟨wp, rp, qs ++ [l]⟩ =
        ((if wp.length = 0 then [] else [(1, wp)]) ++
          ((if rp.length = 0 then [] else [(2, rp)]) ++ qs.map (fun b => (3, b)))) ++ [(3, l)] := by
      simp [metaFields]
    rw [hm] at h
    obtain ⟨e1, e2⟩ := List.append_inj' h rfl
    have e3 : p = (3, l) := by simpa using e2.symm
    subst e1 e3
    have hz : zeroTail ⟨wp, rp, qs ++ [l]⟩ i = ⟨wp, rp, qs ++ [zeroTailStr l i]⟩ := by
      simp [zeroTail]
    rw [hz]
    simp [metaFields]

/-- the payload level, for any message whose encoding fits -/
theorem decCompMeta_padCut (m : RawMeta) (hfits : (encCompMeta m).length < 2 ^ 64) (j : Nat)
    (hj : j < (encCompMeta m).length) :
    decCompMeta (padCut (encCompMeta m) j 0) = none ∨
    ∃ i, decCompMeta (padCut (encCompMeta m) j 0) = some (zeroTail m i) := by
  rw [encCompMeta_eq] at hfits hj ⊢
  rcases encF_pad (metaFields m) (metaFields_num m) hfits j hj [] ((padCut (encF (metaFields m)) j 0).length + 1)
    with h | ⟨L', p, i, hL, h⟩
  · exact Or.inl (decCompMeta_err _ h)
  · have hd : pbDecode compMetaSchema (padCut (encF (metaFields m)) j 0) =
        (fieldsOf (L' ++ [(p.1, zeroTailStr p.2 i)]), none) := by
      unfold pbDecode; rw [h]; rfl
    rw [decCompMeta_ok _ _ hd, metaFields_zeroTail m L' p i hL, raw_metaFields]
    split
    · exact Or.inr ⟨i, rfl⟩
    · exact Or.inl rfl

end SST.Proofs.CompDir.Pad
