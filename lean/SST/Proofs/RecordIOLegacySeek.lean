/-
Legacy recordio layer, whole files and `SeekNext`:
* whole-file round trips of the sequential and the random-access readers for every file version 1–4;
* what comes back for nil / empty records; the zero-tail rule (versions 2, 3) and its absence (version 1);
* `SeekNext` over an arbitrary trial reader (`seekNextG`): the generic specification, its instances for file
  versions 2, 3, 4, the refusal on version 1, "first record at or after the offset" under `NoPhantomL`, and a
  concrete phantom record (legacy headers have no checksum).
-/
import SST.Proofs.RecordIOLegacy
import SST.Proofs.RecordIOSeek
namespace SST.Proofs.Legacy
open SST Generated SST.Legacy SST.Buf

/-! ## whole files -/

@[simp] theorem encAllL_nil (v : Nat) (c : Compression) : encAllL v c [] = [] := rfl

@[simp] theorem encAllL_cons (v : Nat) (c : Compression) (r : GoBytes) (rs : List GoBytes) :
    encAllL v c (r :: rs) = encRecordL v c r ++ encAllL v c rs := rfl

theorem encAllL_append (v : Nat) (c : Compression) (xs ys : List GoBytes) :
    encAllL v c (xs ++ ys) = encAllL v c xs ++ encAllL v c ys := by
  simp [encAllL]

theorem length_le_encAllL (v : Nat) (c : Compression) (rs : List GoBytes) :
    rs.length ≤ (encAllL v c rs).length := by
  induction rs with
  | nil => simp
  | cons r rs ih =>
    have := encRecordL_pos v c r
    simp only [encAllL_cons, List.length_cons, List.length_append]; omega

theorem readAllSL_enc (en : Bool) (v : Nat) (hv : IsVersion v) (c : Compression) (hl : LawfulC c)
    (rs : List GoBytes) :
    ∀ fuel, (∀ r ∈ rs, FitsL c r) → rs.length < fuel →
      readAllSL en v c fuel (encAllL v c rs) = (rs.map (backL en v c), .eof) := by
  induction rs with
  | nil =>
    intro fuel _ hfu
    cases fuel with
    | zero => omega
    | succ f => simp [readAllSL, readNextL_nil en v hv c]
  | cons r rs ih =>
    intro fuel hf hfu
    cases fuel with
    | zero => omega
    | succ f =>
      have h1 := readNextL_enc en v hv c r (encAllL v c rs) hl (hf r (by simp))
      have h2 := ih f (fun x hx => hf x (by simp [hx])) (by simpa using hfu)
      simp [readAllSL, h1, h2]

theorem openReadAllL_of_parse (en : Bool) (comps : Nat → Compression) (file : Bytes) (v ct : Nat)
    (h : parseFileHeader file = .ok (v, ct)) :
    openReadAllL en comps file =
      readAllSL en v (comps ct) (file.length + 1) (file.drop fileHeaderSize) := by
  unfold openReadAllL; rw [h]

theorem encFileL_drop (v : Nat) (c : Compression) (ct : Nat) (rs : List GoBytes) :
    (encFileL v c ct rs).drop fileHeaderSize = encAllL v c rs :=
  List.drop_left' (fileHeader_length _ _)

theorem encFileL_length (v : Nat) (c : Compression) (ct : Nat) (rs : List GoBytes) :
    (encFileL v c ct rs).length = fileHeaderSize + (encAllL v c rs).length := by
  simp [encFileL, fileHeader_length, fileHeaderSize]

/-- a. `Open` + `ReadNext` until the first error on a written file of version 1–4: the records (as the version
can express them), then end-of-file -/
theorem legacy_seq_roundtrip (en : Bool) (comps : Nat → Compression) (v ct : Nat) (c : Compression)
    (rs : List GoBytes) (hv : IsVersion v) (hct : ct ≤ maxCompression) (hc : comps ct = c)
    (hl : LawfulC c) (hf : ∀ r ∈ rs, FitsL c r) :
    openReadAllL en comps (encFileL v c ct rs) = (rs.map (backL en v c), .eof) := by
  have hp : parseFileHeader (encFileL v c ct rs) = .ok (v, ct) :=
    parse_fileHeaderL v ct (encAllL v c rs) hv hct
  rw [openReadAllL_of_parse en comps _ v ct hp, hc, encFileL_drop, encFileL_length]
  apply readAllSL_enc en v hv c hl rs _ hf
  have := length_le_encAllL v c rs
  omega

theorem encFileL_split (v : Nat) (c : Compression) (ct : Nat) (rs : List GoBytes) (k : Nat)
    (hk : k < rs.length) :
    encFileL v c ct rs = (fileHeader v ct ++ encAllL v c (rs.take k)) ++
      (encRecordL v c rs[k] ++ encAllL v c (rs.drop (k + 1))) := by
  have hsplit : rs = rs.take k ++ rs[k] :: rs.drop (k + 1) := by simp
  have := congrArg (encAllL v c) hsplit
  rw [encAllL_append, encAllL_cons] at this
  unfold encFileL
  rw [this, List.append_assoc]

theorem offsetOfL_eq (v : Nat) (c : Compression) (ct : Nat) (rs : List GoBytes) (k : Nat) :
    offsetOfL v c rs k = (fileHeader v ct ++ encAllL v c (rs.take k)).length := by
  simp [offsetOfL, fileHeader_length, fileHeaderSize]

/-- b. random access at the offset of record `k` -/
theorem legacy_readAt_offset (en : Bool) (v ct : Nat) (c : Compression) (rs : List GoBytes) (k : Nat)
    (hk : k < rs.length) (hv : IsVersion v) (hl : LawfulC c) (hf : ∀ r ∈ rs, FitsL c r) :
    readAtL en v c (encFileL v c ct rs) (offsetOfL v c rs k) = .ok (backL en v c rs[k]) := by
  rw [encFileL_split v c ct rs k hk, offsetOfL_eq v c ct rs k]
  exact readAtL_enc en v hv c _ _ _ hl (hf _ (by simp))

/-- c. `SkipNext` moves exactly as far as `ReadNext` -/
theorem legacy_skip_eq_read_discard (en : Bool) (v : Nat) (hv : IsVersion v) (c : Compression) (r : GoBytes)
    (rest : Bytes) (hl : LawfulC c) (hf : FitsL c r) :
    skipNextL v c (encRecordL v c r ++ rest) = .ok (encRecordL v c r).length ∧
    readNextL en v c (encRecordL v c r ++ rest) = .ok (backL en v c r, (encRecordL v c r).length) :=
  ⟨skipNextL_enc v hv c r rest hf, readNextL_enc en v hv c r rest hl hf⟩

/-! ## d. nil and empty records -/

theorem legacy_nil_empty_v3 (en : Bool) (c : Compression) :
    backL en 3 c none = none ∧ backL en 3 c (some []) = some [] := by
  simp [backL]

theorem legacy_nil_empty_enc (v : Nat) (hv : v = 1 ∨ v = 2) (c : Compression) :
    encRecordL v c none = encRecordL v c (some []) := by
  rcases hv with rfl | rfl <;> simp [encRecordL]

theorem legacy_nil_empty_v2 (en : Bool) (c : Compression) :
    backL en 2 c none = some [] ∧ backL en 2 c (some []) = some [] := by
  simp [backL]

theorem legacy_nil_empty_v1 (c : Compression) :
    backL false 1 c none = some [] ∧ backL false 1 c (some []) = some [] := by
  cases c <;> simp [backL, v1Result]

theorem legacy_nil_empty_v1_plain (en : Bool) :
    backL en 1 none none = some [] ∧ backL en 1 none (some []) = some [] := by
  simp [backL, v1Result]

theorem legacy_nil_empty_v1_emptyNil (cc : Comp) :
    backL true 1 (some cc) (some []) = none ∧ backL true 1 (some cc) none = none := by
  simp [backL, v1Result]

/-! ## e. the zero tail -/

theorem readHeaderS2_zero (l : Bytes) : readHeaderS2 (0 :: l) = .error .magic := by
  unfold readHeaderS2
  rw [uvarintDec_zero]
  simp [magicNumber]

theorem readHeaderS3_zero (l : Bytes) : readHeaderS3 (0 :: l) = .error .magic := by
  unfold readHeaderS3
  rw [uvarintDec_zero]
  simp [magicNumber]

theorem readBodyS_zero (c : Compression) (n : Nat) :
    readBodyS c (List.replicate (n + 1) 0) (.error .magic) = .error .eof := by
  unfold readBodyS
  simp only [List.replicate_succ]
  rw [uvarintDec_zero]
  simp

theorem uvarintDec_nil : uvarintDec [] = .error .eof := by
  simp [uvarintDec, uvarintDecAux]

theorem legacy_zero_tail (en : Bool) (v : Nat) (hv : v = 2 ∨ v = 3) (c : Compression) (n : Nat) :
    readNextL en v c (List.replicate n 0) = .error .eof := by
  cases n with
  | zero =>
    exact readNextL_nil en v (by unfold IsVersion; omega) c
  | succ n =>
    rcases hv with rfl | rfl
    · have h : readNextS2 c (List.replicate (n + 1) 0) = .error .eof := by
        unfold readNextS2
        rw [show List.replicate (n + 1) (0 : UInt8) = 0 :: List.replicate n 0 from List.replicate_succ,
          readHeaderS2_zero, ← List.replicate_succ]
        exact readBodyS_zero c n
      simpa [readNextL, readNextSV] using h
    · have h : readNextS3 c (List.replicate (n + 1) 0) = .error .eof := by
        unfold readNextS3
        rw [show List.replicate (n + 1) (0 : UInt8) = 0 :: List.replicate n 0 from List.replicate_succ,
          readHeaderS3_zero, ← List.replicate_succ]
        exact readBodyS_zero c n
      simpa [readNextL, readNextSV] using h

theorem readRecordHeaderV1_zero : readRecordHeaderV1 (List.replicate 20 0) = .error .magic := by
  decide +kernel

/-- version 1 has no zero-tail rule: 20 or more zero bytes are a magic-number mismatch -/
theorem legacy_zero_tail_v1 (en : Bool) (c : Compression) (n : Nat) :
    readNextL en 1 c (List.replicate (n + 20) 0) = .error .magic := by
  have hs : specFull (List.replicate (n + 20) (0 : UInt8)) headerSizeV1 =
      (List.replicate 20 0, none, List.replicate n 0) := by
    rw [specFull_ge _ _ (by simp [headerSizeV1])]
    simp [headerSizeV1, List.take_replicate, List.drop_replicate]
  have h : readNextS1 en c (List.replicate (n + 20) 0) = .error .magic := by
    unfold readNextS1
    rw [hs]; simp only []
    rw [readRecordHeaderV1_zero]
  simpa [readNextL] using h

/-- … and fewer than 20 (but at least one) are a truncated header -/
theorem legacy_zero_tail_v1_short (en : Bool) (c : Compression) (n : Nat) (h0 : 0 < n) (h20 : n < 20) :
    readNextL en 1 c (List.replicate n 0) = .error .unexpectedEof := by
  have hs : specFull (List.replicate n (0 : UInt8)) headerSizeV1 =
      (List.replicate n 0, some (.e .unexpectedEof), []) := by
    unfold specFull
    rw [if_neg (by simp [headerSizeV1]; omega), if_neg (by simp; omega)]
  have h : readNextS1 en c (List.replicate n 0) = .error .unexpectedEof := by
    unfold readNextS1
    rw [hs]
  simpa [readNextL] using h

/-! ## f. `SeekNext` over an arbitrary trial reader -/

theorem markerAtL_iff (file : Bytes) (p : Nat) :
    MarkerAtL file p ↔ file[p]? = some 0x91 ∧ file[p + 1]? = some 0x8d ∧ file[p + 2]? = some 0x4c :=
  markerAt_iff file p

theorem markerAtL_len (file : Bytes) (p : Nat) (h : MarkerAtL file p) : p + 3 ≤ file.length :=
  markerAt_len file p h

/-- the one thing the scan needs from the trial reader: it does not accept a "record" that consists of nothing
but the three marker bytes at the very end of the file.  (The scan never tries that position: its match loop
runs into the end of the window and gives up.) -/
def TailSafe (rd : Nat → Except Err GoBytes) (file : Bytes) : Prop :=
  ∀ q r, q + 3 = file.length → MarkerAtL file q → rd q ≠ .ok r

theorem tailSafe_of_len (rd : Nat → Except Err GoBytes) (file : Bytes)
    (h : ∀ q r, rd q = .ok r → q + 3 < file.length) : TailSafe rd file := by
  intro q r hq _ hr
  have := h q r hr
  omega

def ScanPostG (rd : Nat → Except Err GoBytes) (file : Bytes) (lo next n : Nat) : ScanOut → Prop
  | .found p r => lo ≤ p ∧ MarkerAtL file p ∧ rd p = .ok r ∧
      ∀ q, lo ≤ q → q < p → ¬ ValidAtG rd file q
  | .fail _ => False
  | .advance i => i ≤ n ∧ n ≤ i + 3 ∧ ∀ q, lo ≤ q → q < next + i → ¬ ValidAtG rd file q

theorem scanWindowG_spec (rd : Nat → Except Err GoBytes) (file : Bytes) (lo next : Nat) (hlo : lo ≤ next) :
    ∀ (fuel i : Nat), i ≤ ((file.drop next).take seekLen).length →
      ((file.drop next).take seekLen).length + 1 ≤ fuel + i →
      (∀ q, lo ≤ q → q < next + i → ¬ ValidAtG rd file q) →
      ScanPostG rd file lo next ((file.drop next).take seekLen).length
        (scanWindowG rd next ((file.drop next).take seekLen)
          ((file.drop next).take seekLen).length fuel i) := by
  generalize hwin : (file.drop next).take seekLen = win
  have hget : ∀ j, j < win.length → win.getD j 0 = file[next + j]?.getD 0 := by
    intro j hj; rw [← hwin] at hj ⊢; exact win_getD file next j hj
  intro fuel
  induction fuel with
  | zero => intro i hi hf _; omega
  | succ f ih =>
    intro i hi hf hinv
    unfold scanWindowG
    by_cases hge : i ≥ win.length
    · rw [if_pos hge]; exact ⟨hi, by omega, hinv⟩
    rw [if_neg hge]
    have hnot : ∀ (j : Nat) (b : UInt8), j < win.length → win.getD j 0 = b → b ≠ 0x91 →
        ¬ ValidAtG rd file (next + j) := by
      intro j b hj hb hne hv
      have := ((markerAtL_iff file (next + j)).mp hv.1).1
      rw [hget j hj, this] at hb
      exact hne hb.symm
    rcases matchMarker_cases win win.length i with ⟨ix, hm, hn⟩ | ⟨hm, hb⟩ | ⟨hm, hl, hb⟩ | ⟨hm, hl, hb⟩ |
        ⟨hm, hl, b0, b1, b2⟩
    · rw [hm]; simp only [if_true]
      exact ⟨hi, hn, hinv⟩
    · -- first byte differs
      rw [hm]
      simp only [Bool.false_eq_true, if_false, Nat.sub_self]
      rw [if_pos (by decide)]
      apply ih (i + 1) (by omega) (by omega)
      intro q h1 h2
      by_cases hq : q = next + i
      · subst hq
        intro hv
        have := ((markerAtL_iff file (next + i)).mp hv.1).1
        rw [hget i (by omega), this] at hb
        exact hb rfl
      · exact hinv q h1 (by omega)
    · -- second byte differs
      rw [hm]
      simp only [Bool.false_eq_true, if_false]
      rw [if_pos (by rw [show magicBytes.length = 3 from rfl]; omega)]
      apply ih (i + 1) (by omega) (by omega)
      intro q h1 h2
      by_cases hq : q = next + i
      · subst hq
        intro hv
        have := ((markerAtL_iff file (next + i)).mp hv.1).2.1
        rw [hget (i + 1) hl, ← Nat.add_assoc, this] at hb
        exact hb rfl
      · exact hinv q h1 (by omega)
    · -- third byte differs
      rw [hm]
      simp only [Bool.false_eq_true, if_false]
      rw [if_pos (by rw [show magicBytes.length = 3 from rfl]; omega)]
      apply ih (i + 1) (by omega) (by omega)
      intro q h1 h2
      by_cases hq : q = next + i
      · subst hq
        intro hv
        have := ((markerAtL_iff file (next + i)).mp hv.1).2.2
        rw [hget (i + 2) hl, ← Nat.add_assoc, this] at hb
        exact hb rfl
      · exact hinv q h1 (by omega)
    · -- marker found: trial read
      rw [hm]
      simp only [Bool.false_eq_true, if_false]
      rw [if_neg (by rw [show magicBytes.length = 3 from rfl]; omega)]
      have hmark : MarkerAtL file (next + i) := by
        rw [markerAtL_iff]
        rw [hget i (by omega)] at b0
        rw [hget (i + 1) (by omega), ← Nat.add_assoc] at b1
        rw [hget (i + 2) (by omega), ← Nat.add_assoc] at b2
        have key : ∀ (o : Option UInt8) (v : UInt8), v ≠ 0 → o.getD 0 = v → o = some v := by
          intro o v hv h; cases o with
          | none => exact absurd h.symm hv
          | some x => exact congrArg some h
        exact ⟨key _ _ (by decide) b0, key _ _ (by decide) b1, key _ _ (by decide) b2⟩
      cases hr : rd (next + i) with
      | ok r =>
        simp only []
        exact ⟨by omega, hmark, hr, hinv⟩
      | error e =>
        simp only []
        apply ih (i + 3) (by omega) (by omega)
        intro q h1 h2
        by_cases hq0 : q = next + i
        · subst hq0; intro hv; obtain ⟨r, hr'⟩ := hv.2; rw [hr] at hr'; cases hr'
        by_cases hq1 : q = next + (i + 1)
        · subst hq1; exact hnot (i + 1) _ (by omega) b1 (by decide)
        by_cases hq2 : q = next + (i + 2)
        · subst hq2; exact hnot (i + 2) _ (by omega) b2 (by decide)
        exact hinv q h1 (by omega)

def SeekPostG (rd : Nat → Except Err GoBytes) (file : Bytes) (off : Nat) : Except Err (Nat × GoBytes) → Prop
  | .ok (p, r) => off ≤ p ∧ MarkerAtL file p ∧ rd p = .ok r ∧
      ∀ q, off ≤ q → q < p → ¬ ValidAtG rd file q
  | .error e => e = .eof ∧ ∀ q, off ≤ q → ¬ ValidAtG rd file q

/-- at most 3 bytes left: nothing the trial reader accepts starts from here on -/
theorem no_valid_tailG (rd : Nat → Except Err GoBytes) (file : Bytes) (ht : TailSafe rd file) (next : Nat)
    (h : file.length ≤ next + 3) : ∀ q, next ≤ q → ¬ ValidAtG rd file q := by
  intro q hq hv
  have hm := markerAtL_len file q hv.1
  obtain ⟨r, hr⟩ := hv.2
  exact ht q r (by omega) hv.1 hr

theorem seekNextAuxG_spec (rd : Nat → Except Err GoBytes) (file : Bytes) (ht : TailSafe rd file) (off : Nat) :
    ∀ (fuel next : Nat), next ≤ file.length → file.length + 2 ≤ fuel + next → off ≤ next →
      (∀ q, off ≤ q → q < next → ¬ ValidAtG rd file q) →
      SeekPostG rd file off (seekNextAuxG rd file fuel next) := by
  intro fuel
  induction fuel with
  | zero => intro next h1 h2; omega
  | succ f ih =>
    intro next hn hf hoff hinv
    unfold seekNextAuxG
    rw [if_neg (by omega)]
    simp only []
    have hlen : ((file.drop next).take seekLen).length = min seekLen (file.length - next) := by
      rw [List.length_take, List.length_drop]
    by_cases h0 : ((file.drop next).take seekLen).length = 0
    · rw [if_pos h0]
      refine ⟨rfl, ?_⟩
      have h4 : seekLen = 4096 := rfl
      intro q hq
      by_cases hq' : q < next
      · exact hinv q hq hq'
      · exact no_valid_tailG rd file ht next (by omega) q (by omega)
    rw [if_neg h0]
    have hs := scanWindowG_spec rd file off next hoff
      (((file.drop next).take seekLen).length + 1) 0 (Nat.zero_le _) (by omega)
      (fun q a b => hinv q a (by omega))
    generalize scanWindowG rd next ((file.drop next).take seekLen)
      ((file.drop next).take seekLen).length (((file.drop next).take seekLen).length + 1) 0 = out at hs
    cases out with
    | found p r => exact hs
    | fail e => exact hs.elim
    | advance i =>
      obtain ⟨a1, a2, a3⟩ := hs
      simp only []
      by_cases hi0 : i = 0
      · rw [if_pos hi0]
        refine ⟨rfl, ?_⟩
        have h4 : seekLen = 4096 := rfl
        intro q hq
        by_cases hq' : q < next
        · exact hinv q hq hq'
        · exact no_valid_tailG rd file ht next (by omega) q (by omega)
      · rw [if_neg hi0]
        exact ih (next + i) (by omega) (by omega) (by omega) a3

theorem seekNextG_spec' (rd : Nat → Except Err GoBytes) (file : Bytes) (ht : TailSafe rd file) (off : Nat)
    (hoff : off ≤ file.length) : SeekPostG rd file off (seekNextG rd file off) :=
  seekNextAuxG_spec rd file ht off (file.length + 2) off hoff (by omega) (Nat.le_refl _)
    (fun q a b => by omega)

/-- the scan over ANY trial reader that is `TailSafe`: the FIRST position at or after `off` where the marker
stands and the trial read succeeds, end-of-file if there is none -/
theorem seekNextG_spec (rd : Nat → Except Err GoBytes) (file : Bytes) (ht : TailSafe rd file) (off : Nat)
    (hoff : off ≤ file.length) :
    match seekNextG rd file off with
    | .ok (p, r) => off ≤ p ∧ MarkerAtL file p ∧ rd p = .ok r ∧ ∀ q, off ≤ q → q < p → ¬ ValidAtG rd file q
    | .error e => e = .eof ∧ ∀ q, off ≤ q → ¬ ValidAtG rd file q := by
  have h := seekNextG_spec' rd file ht off hoff
  cases hr : seekNextG rd file off with
  | error e => rw [hr] at h; exact h
  | ok pr => obtain ⟨p, r⟩ := pr; rw [hr] at h; exact h

/-! ### the generic scan is the version 4 model -/

theorem scanWindowG_v4 (c : Compression) (file : Bytes) (next : Nat) (win : Bytes) (n : Nat) :
    ∀ fuel i, scanWindowG (readAt c file) next win n fuel i = scanWindow c file next win n fuel i := by
  intro fuel
  induction fuel with
  | zero => intro i; rfl
  | succ f ih =>
    intro i
    unfold scanWindowG scanWindow
    simp only [ih]
    cases readAt c file (next + i) <;> rfl

theorem seekNextAuxG_v4 (c : Compression) (file : Bytes) :
    ∀ fuel next, seekNextAuxG (readAt c file) file fuel next = seekNextAux c file fuel next := by
  intro fuel
  induction fuel with
  | zero => intro next; rfl
  | succ f ih =>
    intro next
    unfold seekNextAuxG seekNextAux
    simp only [ih, scanWindowG_v4]
    generalize scanWindow c file next _ _ _ _ = out
    cases out <;> rfl

theorem seekNextG_v4 (c : Compression) (file : Bytes) (off : Nat) :
    seekNextG (readAt c file) file off = seekNext c file off :=
  seekNextAuxG_v4 c file _ _

/-! ### the random-access readers of every version are `TailSafe` -/

theorem drop_eq_magic (file : Bytes) (q : Nat) (hq : q + 3 = file.length) (hm : MarkerAtL file q) :
    file.drop q = magicBytes := by
  unfold MarkerAtL at hm
  rw [List.take_of_length_le (by rw [List.length_drop, show magicBytes.length = 3 from rfl]; omega)] at hm
  exact hm

theorem readHeaderS2_magic : readHeaderS2 (List.take headerWinV3 magicBytes) = .error .eof := by
  decide +kernel

theorem readHeaderS3_magic : readHeaderS3 (List.take headerWinV3 magicBytes) = .error .eof := by
  decide +kernel

theorem readHeader_magic : readHeader (mmapWin magicBytes) = .error .eof := by
  decide +kernel

theorem tailSafe_readAtL (en : Bool) (v : Nat) (c : Compression) (file : Bytes) :
    TailSafe (readAtL en v c file) file := by
  intro q r hq hm hr
  have hd := drop_eq_magic file q hq hm
  have h1 : ¬ q > file.length := by omega
  have h2 : ¬ q = file.length := by omega
  unfold readAtL at hr
  split at hr
  · unfold readAtV1 at hr
    rw [if_neg h1] at hr
    simp only [hd] at hr
    rw [if_pos (by decide)] at hr
    cases hr
  split at hr
  · unfold readAtV2 at hr
    rw [if_neg h1, if_neg h2] at hr
    simp only [hd, Legacy.readRecordHeaderV2] at hr
    rw [readHeaderS2_magic] at hr
    cases hr
  split at hr
  · unfold readAtV3 at hr
    rw [if_neg h1, if_neg h2] at hr
    simp only [hd, Legacy.readRecordHeaderV3] at hr
    rw [readHeaderS3_magic] at hr
    cases hr
  split at hr
  · unfold readAt at hr
    rw [if_neg h1, if_neg h2] at hr
    simp only [hd] at hr
    rw [readHeader_magic] at hr
    cases hr
  · cases hr

theorem seekNextL_ge2 (en : Bool) (v : Nat) (hv : 2 ≤ v) (c : Compression) (file : Bytes) (off : Nat) :
    seekNextL en v c file off = seekNextG (readAtL en v c file) file off := by
  unfold seekNextL
  rw [if_neg (by omega)]

/-- `SeekNext` on a file of version 2 or 3 (in fact any version from 2 on): the first position at or after
`off` where the marker stands and `ReadNextAt` succeeds — for every file content and every offset -/
theorem legacy_seekNext_spec (en : Bool) (v : Nat) (hv : 2 ≤ v) (c : Compression) (file : Bytes) (off : Nat)
    (hoff : off ≤ file.length) :
    match seekNextL en v c file off with
    | .ok (p, r) => off ≤ p ∧ MarkerAtL file p ∧ readAtL en v c file p = .ok r ∧
        ∀ q, off ≤ q → q < p → ¬ ValidAtG (readAtL en v c file) file q
    | .error e => e = .eof ∧ ∀ q, off ≤ q → ¬ ValidAtG (readAtL en v c file) file q := by
  rw [seekNextL_ge2 en v hv]
  exact seekNextG_spec _ file (tailSafe_readAtL en v c file) off hoff

theorem legacy_seekNext_spec' (en : Bool) (v : Nat) (hv : 2 ≤ v) (c : Compression) (file : Bytes) (off : Nat)
    (hoff : off ≤ file.length) :
    SeekPostG (readAtL en v c file) file off (seekNextL en v c file off) := by
  rw [seekNextL_ge2 en v hv]
  exact seekNextG_spec' _ file (tailSafe_readAtL en v c file) off hoff

/-- `SeekNext` is refused on a file of version 1 -/
theorem legacy_seekNext_v1_unsupported (en : Bool) (c : Compression) (file : Bytes) (off : Nat) :
    seekNextL en 1 c file off = .error .other := by
  simp [seekNextL]

/-- `readAtL 4` is `readAt`, so the version 4 instance of the generic scan is `SST.seekNext` -/
theorem seekNextL_four (en : Bool) (c : Compression) (file : Bytes) (off : Nat) :
    seekNextL en 4 c file off = seekNext c file off := by
  rw [seekNextL_ge2 en 4 (by omega), ← seekNextG_v4]
  have : readAtL en 4 c file = readAt c file := by
    funext o; simp [readAtL]
  rw [this]

/-! ### `TailSafe` is exactly what the scan needs -/

/-- when the file ends with the three marker bytes the scan started at them gives up without a trial read -/
theorem seekNextG_tail (rd : Nat → Except Err GoBytes) (file : Bytes) (q : Nat) (hq : q + 3 = file.length)
    (hm : MarkerAtL file q) : seekNextG rd file q = .error .eof := by
  have hd := drop_eq_magic file q hq hm
  have ht : List.take seekLen magicBytes = magicBytes := by decide
  have hs : scanWindowG rd q magicBytes magicBytes.length (magicBytes.length + 1) 0 = .advance 0 := rfl
  unfold seekNextG
  rw [show file.length + 2 = (file.length + 1) + 1 from rfl]
  unfold seekNextAuxG
  rw [if_neg (by omega)]
  simp only [hd, ht]
  rw [if_neg (by decide), hs]
  simp

/-- the specification of the scan holds for every start offset IF AND ONLY IF the trial reader is `TailSafe` -/
theorem tailSafe_iff_spec (rd : Nat → Except Err GoBytes) (file : Bytes) :
    TailSafe rd file ↔ ∀ off, off ≤ file.length → SeekPostG rd file off (seekNextG rd file off) := by
  constructor
  · intro ht off hoff; exact seekNextG_spec' rd file ht off hoff
  · intro h q r hq hm hr
    have := h q (by omega)
    rw [seekNextG_tail rd file q hq hm] at this
    exact this.2 q (Nat.le_refl _) ⟨hm, r, hr⟩

/-! ### written files -/

theorem offsetOfL_succ (v : Nat) (c : Compression) (rs : List GoBytes) (k : Nat) (hk : k < rs.length) :
    offsetOfL v c rs (k + 1) = offsetOfL v c rs k + (encRecordL v c rs[k]).length := by
  have h1 : rs.take (k + 1) = rs.take k ++ [rs[k]] := by simp
  simp only [offsetOfL, h1, encAllL_append, List.length_append, encAllL_cons, encAllL_nil]
  simp; omega

theorem offsetOfL_lt (v : Nat) (c : Compression) (rs : List GoBytes) (j : Nat) :
    ∀ k, j < k → k ≤ rs.length → offsetOfL v c rs j < offsetOfL v c rs k := by
  intro k
  induction k with
  | zero => intro h; omega
  | succ k ih =>
    intro hjk hk
    have hs := offsetOfL_succ v c rs k (by omega)
    have hp := encRecordL_pos v c rs[k]
    by_cases h : j = k
    · subst h; omega
    · have := ih (by omega) (by omega); omega

/-- records of versions 2, 3 and 4 start with the three marker bytes (version 1: the fixed-width magic number
`91 06 13 00`) -/
theorem encRecordL_marker (v : Nat) (hv : 2 ≤ v) (c : Compression) (r : GoBytes) :
    ∃ X, encRecordL v c r = magicBytes ++ X := by
  unfold encRecordL
  rw [if_neg (by omega)]
  split
  · simp only [encRecordV2, encHeaderV2, List.append_assoc]; exact ⟨_, rfl⟩
  split
  · cases r with
    | none => simp only [encRecordV3, encHeaderV3, headerBody, List.append_assoc]; exact ⟨_, rfl⟩
    | some r => simp only [encRecordV3, encHeaderV3, headerBody, List.append_assoc]; exact ⟨_, rfl⟩
  · exact encRecord_marker c r

theorem validAtL_offset (en : Bool) (v ct : Nat) (hv : IsVersion v) (hv2 : 2 ≤ v) (c : Compression)
    (rs : List GoBytes) (k : Nat) (hk : k < rs.length) (hl : LawfulC c) (hf : ∀ r ∈ rs, FitsL c r) :
    ValidAtG (readAtL en v c (encFileL v c ct rs)) (encFileL v c ct rs) (offsetOfL v c rs k) := by
  refine ⟨?_, _, legacy_readAt_offset en v ct c rs k hk hv hl hf⟩
  obtain ⟨X, hX⟩ := encRecordL_marker v hv2 c rs[k]
  unfold MarkerAtL
  rw [encFileL_split v c ct rs k hk, offsetOfL_eq v c ct rs k, List.drop_left, hX, List.append_assoc,
    List.take_left]

/-- on a written file of version 2, 3 (or 4) in which no trial read succeeds anywhere but at a record start,
`SeekNext` from any offset returns the first record that starts at or after it, or end-of-file -/
theorem legacy_seekNext_first_record (en : Bool) (v ct : Nat) (hv : IsVersion v) (hv2 : 2 ≤ v)
    (c : Compression) (rs : List GoBytes) (hl : LawfulC c) (hf : ∀ r ∈ rs, FitsL c r)
    (hnp : NoPhantomL en v c ct rs) (off : Nat) (hoff : off ≤ (encFileL v c ct rs).length) :
    match seekNextL en v c (encFileL v c ct rs) off with
    | .ok (p, r) => ∃ k, ∃ hk : k < rs.length, p = offsetOfL v c rs k ∧ r = backL en v c rs[k] ∧ off ≤ p ∧
        ∀ j, j < k → offsetOfL v c rs j < off
    | .error e => e = .eof ∧ ∀ k, k < rs.length → offsetOfL v c rs k < off := by
  have h := legacy_seekNext_spec' en v hv2 c _ off hoff
  cases hr : seekNextL en v c (encFileL v c ct rs) off with
  | error e =>
    rw [hr] at h
    obtain ⟨he, hno⟩ := h
    refine ⟨he, ?_⟩
    intro k hk
    rcases Nat.lt_or_ge (offsetOfL v c rs k) off with h' | h'
    · exact h'
    · exact absurd (validAtL_offset en v ct hv hv2 c rs k hk hl hf) (hno _ h')
  | ok pr =>
    obtain ⟨p, r⟩ := pr
    rw [hr] at h
    obtain ⟨h1, h2, h3, h4⟩ := h
    obtain ⟨k, hk, rfl⟩ := hnp p ⟨h2, r, h3⟩
    refine ⟨k, hk, rfl, ?_, h1, ?_⟩
    · have := legacy_readAt_offset en v ct c rs k hk hv hl hf
      rw [h3] at this
      exact Except.ok.inj this
    · intro j hj
      rcases Nat.lt_or_ge (offsetOfL v c rs j) off with h' | h'
      · exact h'
      · exact absurd (validAtL_offset en v ct hv hv2 c rs j (by omega) hl hf)
          (h4 _ h' (offsetOfL_lt v c rs j k hj (by omega)))

/-! ### a phantom record

Legacy record headers carry no checksum: a payload that contains the marker followed by bytes that parse as a
header whose announced payload fits into the file is taken for a record. -/

/-- version 3: one record whose payload is `91 8d 4c 00 01 00 7a` (marker, not nil, length 1, not compressed,
payload `7a`) -/
def phantomV3 : Bytes := encFileV3 none 0 [some [0x91, 0x8d, 0x4c, 0, 1, 0, 0x7a]]

/-- version 2: payload `91 8d 4c 01 00 7a` -/
def phantomV2 : Bytes := encFileV2 none 0 [some [0x91, 0x8d, 0x4c, 1, 0, 0x7a]]

/-- the analogous version 4 file -/
def phantomV4 : Bytes := fileHeader 4 0 ++ encAll none [some [0x91, 0x8d, 0x4c, 0, 1, 0, 0x7a]]

theorem phantomV3_bytes :
    phantomV3 = [3, 0, 0, 0, 0, 0, 0, 0, 0x91, 0x8d, 0x4c, 0, 7, 0, 0x91, 0x8d, 0x4c, 0, 1, 0, 0x7a] := by
  decide +kernel

/-- `SeekNext` from offset 9 (inside the only record, which starts at 8) of the version 3 file returns the
"record" `[7a]` at offset 14 — the middle of the payload; no such record was written -/
theorem legacy_seekNext_phantom :
    seekNextL false 3 none phantomV3 9 = .ok (14, some [0x7a]) ∧
    offsetOfL 3 none [some [0x91, 0x8d, 0x4c, 0, 1, 0, 0x7a]] 0 = 8 ∧
    (phantomV3.length = 21) ∧
    ¬ NoPhantomL false 3 none 0 [some [0x91, 0x8d, 0x4c, 0, 1, 0, 0x7a]] := by
  have h1 : seekNextL false 3 none phantomV3 9 = .ok (14, some [0x7a]) := by decide +kernel
  have h2 : offsetOfL 3 none [some [0x91, 0x8d, 0x4c, 0, 1, 0, 0x7a]] 0 = 8 := by decide +kernel
  refine ⟨h1, h2, by decide +kernel, ?_⟩
  intro hnp
  have hv : ValidAtG (readAtL false 3 none phantomV3) phantomV3 14 :=
    ⟨by unfold MarkerAtL; decide +kernel, some [0x7a], by decide +kernel⟩
  obtain ⟨k, hk, he⟩ := hnp 14 hv
  have hk0 : k = 0 := by simpa using hk
  subst hk0
  rw [h2] at he
  omega

theorem legacy_seekNext_phantom_v2 :
    seekNextL false 2 none phantomV2 9 = .ok (13, some [0x7a]) := by decide +kernel

/-- the version 4 reader is immune on the analogous file: the embedded header has no valid checksum -/
theorem seekNext_v4_no_phantom :
    seekNext none phantomV4 9 = .error .eof := by decide +kernel

end SST.Proofs.Legacy
