/-
Layer C of the buffered-reader proofs: the record header readers and `Open` / `ReadNext` / `SkipNext` of the
file reader over the buffered stack return what the pure-stream model returns.
-/
import SST.Proofs.BufReaderHdr
namespace SST.Buf
open SST Generated

theorem liftE_ok {α : Type} (a : α) : liftE (.ok a : Except Err α) = .ok a := rfl
theorem liftE_error {α : Type} (e : Err) : liftE (.error e : Except Err α) = .error (.e e) := rfl

theorem fileWin_end0_ne_magic (s : Bytes) : (fileWin s).end0 ≠ .magic := by
  rw [fileWin_end0]; split <;> simp

/-- `readRecordHeaderV4` through checksum reader, counting reader and buffered reader = `readHeader` on the
36-byte window of the raw stream; afterwards the stack stands at the end of the header (after the magic varint
on a magic-number mismatch) -/
theorem readRecordHeaderV4_spec (cap : Nat) (ed : Bool) (c : CRd) (s0 : Bytes) (k0 : Nat)
    (hrep : c.Rep cap ed s0 k0) :
    ∃ h', readRecordHeaderV4 { rd := c, cache := [] } = (liftE (readHeader (fileWin s0)), h') ∧
      (∀ hd, readHeader (fileWin s0) = .ok hd →
        h'.rd.Rep cap ed (s0.drop hd.hlen) (k0 + hd.hlen) ∧ hd.hlen ≤ s0.length) ∧
      (readHeader (fileWin s0) = .error .magic → ∃ v c1, uvarintDec (fileWin s0).bytes = .ok (v, c1) ∧
        h'.rd.Rep cap ed (s0.drop c1) (k0 + c1)) := by
  have hR0 : RK cap ed s0 k0 { rd := c, cache := [] } (s0.take recordHeaderMax) 0 :=
    ⟨by simp, by simp, by simp, by simpa using hrep⟩
  have hRH := Proofs.readHeader_eq (fileWin s0)
  simp only [fileWin_bytes_eq] at hRH
  rw [fileWin_bytes_eq]
  have hs1 := readCanonical_spec cap ed s0 k0 _ _ _ hR0
  cases hc1 : canonDec (fileWin s0) (s0.take recordHeaderMax) with
  | error e =>
    obtain ⟨h1, g1, gne⟩ := hs1.2 e hc1
    simp only [hc1] at hRH
    refine ⟨h1, by rw [hRH, liftE_error]; simp only [readRecordHeaderV4, g1], fun hd hh => ?_, fun hh => ?_⟩
    · rw [hRH] at hh; cases hh
    · rw [hRH] at hh; cases hh; exact absurd rfl gne
  | ok p1 =>
    obtain ⟨m, c1⟩ := p1
    obtain ⟨h1, g1, R1, _, _, hu1⟩ := hs1.1 m c1 hc1
    simp only [hc1] at hRH
    simp only [Nat.zero_add] at R1
    by_cases hm : m ≠ magicNumber
    · rw [if_pos hm] at hRH
      refine ⟨h1, by rw [hRH, liftE_error]; simp only [readRecordHeaderV4, g1, if_pos hm], fun hd hh => ?_,
        fun _ => ⟨m, c1, hu1, R1.2.2.2⟩⟩
      rw [hRH] at hh; cases hh
    · rw [if_neg hm] at hRH
      cases hd1 : (s0.take recordHeaderMax).drop c1 with
      | nil =>
        rw [hd1] at R1
        obtain ⟨h2, g2⟩ := (src_ckrd cap ed s0 k0).nil h1 c1 R1
        simp only [hd1] at hRH
        refine ⟨h2, by rw [hRH, liftE_error]; simp only [readRecordHeaderV4, g1, if_neg hm, g2],
          fun hd hh => ?_, fun hh => ?_⟩
        · rw [hRH] at hh; cases hh
        · rw [hRH] at hh
          simp only [Except.error.injEq] at hh
          exact absurd hh (fileWin_end0_ne_magic s0)
      | cons nb rest =>
        rw [hd1] at R1
        obtain ⟨h2, g2, R2⟩ := (src_ckrd cap ed s0 k0).cons h1 nb rest c1 R1
        simp only [hd1] at hRH
        have hs2 := readCanonical_spec cap ed s0 k0 _ _ _ R2
        cases hc2 : canonDec (fileWin s0) rest with
        | error e =>
          obtain ⟨h3, g3, gne⟩ := hs2.2 e hc2
          simp only [hc2] at hRH
          refine ⟨h3, by rw [hRH, liftE_error]; simp only [readRecordHeaderV4, g1, if_neg hm, g2, g3],
            fun hd hh => ?_, fun hh => ?_⟩
          · rw [hRH] at hh; cases hh
          · rw [hRH] at hh; cases hh; exact absurd rfl gne
        | ok p2 =>
          obtain ⟨u, c2⟩ := p2
          obtain ⟨h3, g3, R3, _, _, _⟩ := hs2.1 u c2 hc2
          simp only [hc2] at hRH
          have hs3 := readCanonical_spec cap ed s0 k0 _ _ _ R3
          cases hc3 : canonDec (fileWin s0) (rest.drop c2) with
          | error e =>
            obtain ⟨h4, g4, gne⟩ := hs3.2 e hc3
            simp only [hc3] at hRH
            refine ⟨h4, by rw [hRH, liftE_error]; simp only [readRecordHeaderV4, g1, if_neg hm, g2, g3, g4],
              fun hd hh => ?_, fun hh => ?_⟩
            · rw [hRH] at hh; cases hh
            · rw [hRH] at hh; cases hh; exact absurd rfl gne
          | ok p3 =>
            obtain ⟨cl, c3⟩ := p3
            obtain ⟨h4, g4, R4, _, _, _⟩ := hs3.1 cl c3 hc3
            simp only [hc3] at hRH
            -- the checksum is computed over the same bytes
            have hcache : h4.cache = (s0.take recordHeaderMax).take (c1 + 1 + c2 + c3) := by
              have hj := R4.2.2.1
              rw [R4.2.1, List.take_take]
              congr 1
              simp at hj; omega
            have hs4 := readCanonical_spec cap ed s0 k0 _ _ _ R4
            cases hc4 : canonDec (fileWin s0) ((rest.drop c2).drop c3) with
            | error e =>
              obtain ⟨h5, g5, gne⟩ := hs4.2 e hc4
              simp only [hc4] at hRH
              refine ⟨h5, by rw [hRH, liftE_error]; simp only [readRecordHeaderV4, g1, if_neg hm, g2, g3, g4, g5],
                fun hd hh => ?_, fun hh => ?_⟩
              · rw [hRH] at hh; cases hh
              · rw [hRH] at hh; cases hh; exact absurd rfl gne
            | ok p4 =>
              obtain ⟨ex, c4⟩ := p4
              obtain ⟨h5, g5, R5, _, _, _⟩ := hs4.1 ex c4 hc4
              simp only [hc4] at hRH
              have hj5 := R5.2.2.1
              have hlen5 : h5.cache.length = c1 + 1 + c2 + c3 + c4 := by
                rw [R5.2.1, List.length_take]; simp at hj5; omega
              by_cases hcrc : (crc32c ((s0.take recordHeaderMax).take (c1 + 1 + c2 + c3))).toNat ≠ ex
              · rw [if_pos hcrc] at hRH
                refine ⟨h5, ?_, fun hd hh => ?_, fun hh => ?_⟩
                · rw [hRH, liftE_error]
                  simp only [readRecordHeaderV4, g1, if_neg hm, g2, g3, g4, g5, hcache, if_pos hcrc]
                · rw [hRH] at hh; cases hh
                · rw [hRH] at hh; cases hh
              · rw [if_neg hcrc] at hRH
                refine ⟨h5, ?_, fun hd hh => ?_, fun hh => ?_⟩
                · rw [hRH, liftE_ok]
                  simp only [readRecordHeaderV4, g1, if_neg hm, g2, g3, g4, g5, hcache, if_neg hcrc, hlen5]
                · rw [hRH] at hh
                  simp only [Except.ok.injEq] at hh
                  subst hh
                  refine ⟨R5.2.2.2, ?_⟩
                  simp at hj5 ⊢; omega
                · rw [hRH] at hh; cases hh

end SST.Buf

namespace SST.Buf
open SST Generated

/-! ## the legacy header readers (no checksum reader: straight over the counting reader) -/

theorem RC_zero {cap : Nat} {ed : Bool} {c : CRd} {s : Bytes} {k : Nat} (h : c.Rep cap ed s k) :
    RC cap ed k c s 0 := by simpa [RC] using h

/-- the header with the `hlen` field the Go code does not compute blanked out -/
def noLen (h : RecHeader) : RecHeader := { h with hlen := 0 }

theorem readRecordHeaderV3_spec (cap : Nat) (ed : Bool) (c : CRd) (s0 : Bytes) (k0 : Nat)
    (hrep : c.Rep cap ed s0 k0) :
    ∃ c', readRecordHeaderV3 c = (liftE ((readHeaderS3 s0).map noLen), c') ∧
      (∀ hd, readHeaderS3 s0 = .ok hd → c'.Rep cap ed (s0.drop hd.hlen) (k0 + hd.hlen) ∧ hd.hlen ≤ s0.length) ∧
      (readHeaderS3 s0 = .error .magic → ∃ v c1, uvarintDec s0 = .ok (v, c1) ∧
        c'.Rep cap ed (s0.drop c1) (k0 + c1)) := by
  have hsrc := src_crd cap ed k0
  have hs1 := readUvarint_spec hsrc c s0 0 (RC_zero hrep)
  unfold readHeaderS3
  cases hc1 : uvarintDec s0 with
  | error e =>
    obtain ⟨c1', g1⟩ := hs1.2 e hc1
    rw [endMap_eof] at g1
    have hne : e ≠ .magic := by
      rcases uvarintDecAux_err s0 0 0 0 e hc1 with rfl | rfl | rfl <;> simp
    refine ⟨c1', by simp only [readRecordHeaderV3, g1, Except.map, liftE], fun hd hh => (by cases hh),
      fun hh => ?_⟩
    simp only [Except.error.injEq] at hh
    exact absurd hh hne
  | ok p1 =>
    obtain ⟨m, c1⟩ := p1
    obtain ⟨c1', g1, R1, _, hle1⟩ := hs1.1 m c1 hc1
    simp only [Nat.zero_add] at R1
    simp only []
    by_cases hm : m ≠ magicNumber
    · rw [if_pos hm]
      refine ⟨c1', by simp only [readRecordHeaderV3, g1, if_pos hm, Except.map, liftE],
        fun hd hh => (by cases hh), fun _ => ⟨m, c1, rfl, R1⟩⟩
    · rw [if_neg hm]
      cases hd1 : s0.drop c1 with
      | nil =>
        rw [hd1] at R1
        obtain ⟨c2', g2⟩ := hsrc.nil c1' c1 R1
        refine ⟨c2', by simp only [readRecordHeaderV3, g1, if_neg hm, g2, Except.map, liftE],
          fun hd hh => (by cases hh), fun hh => (by cases hh)⟩
      | cons nb rest =>
        rw [hd1] at R1
        obtain ⟨c2', g2, R2⟩ := hsrc.cons c1' nb rest c1 R1
        simp only []
        have hs2 := readUvarint_spec hsrc c2' rest (c1 + 1) R2
        cases hc2 : uvarintDec rest with
        | error e =>
          obtain ⟨c3', g3⟩ := hs2.2 e hc2
          rw [endMap_eof] at g3
          have hne : e ≠ .magic := by
            rcases uvarintDecAux_err rest 0 0 0 e hc2 with rfl | rfl | rfl <;> simp
          refine ⟨c3', by simp only [readRecordHeaderV3, g1, if_neg hm, g2, g3, Except.map, liftE],
            fun hd hh => (by cases hh), fun hh => ?_⟩
          simp only [Except.error.injEq] at hh
          exact absurd hh hne
        | ok p2 =>
          obtain ⟨u, c2⟩ := p2
          obtain ⟨c3', g3, R3, _, hle2⟩ := hs2.1 u c2 hc2
          simp only []
          have hs3 := readUvarint_spec hsrc c3' (rest.drop c2) (c1 + 1 + c2) R3
          cases hc3 : uvarintDec (rest.drop c2) with
          | error e =>
            obtain ⟨c4', g4⟩ := hs3.2 e hc3
            rw [endMap_eof] at g4
            have hne : e ≠ .magic := by
              rcases uvarintDecAux_err _ 0 0 0 e hc3 with rfl | rfl | rfl <;> simp
            refine ⟨c4', by simp only [readRecordHeaderV3, g1, if_neg hm, g2, g3, g4, Except.map, liftE],
              fun hd hh => (by cases hh), fun hh => ?_⟩
            simp only [Except.error.injEq] at hh
            exact absurd hh hne
          | ok p3 =>
            obtain ⟨cl, c3⟩ := p3
            obtain ⟨c4', g4, R4, _, hle3⟩ := hs3.1 cl c3 hc3
            simp only []
            have hdd : (rest.drop c2).drop c3 = s0.drop (c1 + 1 + c2 + c3) := by
              have : rest = s0.drop (c1 + 1) := by
                have := (drop_cons_take s0 c1 nb rest hd1).2; exact this.symm
              rw [this, List.drop_drop, List.drop_drop, Nat.add_assoc (c1 + 1) c2 c3]
            have hlen : c1 + 1 + c2 + c3 ≤ s0.length := by
              have h1 := congrArg List.length hd1
              simp at h1 hle2 hle3
              omega
            refine ⟨c4', by simp only [readRecordHeaderV3, g1, if_neg hm, g2, g3, g4, Except.map, liftE, noLen],
              fun hd hh => ?_, fun hh => (by cases hh)⟩
            simp only [Except.ok.injEq] at hh
            subst hh
            refine ⟨?_, hlen⟩
            have := R4
            simp only [RC, hdd] at this
            simpa [Nat.add_assoc] using this

theorem readRecordHeaderV2_spec (cap : Nat) (ed : Bool) (c : CRd) (s0 : Bytes) (k0 : Nat)
    (hrep : c.Rep cap ed s0 k0) :
    ∃ c', readRecordHeaderV2 c = (liftE ((readHeaderS2 s0).map noLen), c') ∧
      (∀ hd, readHeaderS2 s0 = .ok hd → c'.Rep cap ed (s0.drop hd.hlen) (k0 + hd.hlen) ∧ hd.hlen ≤ s0.length) ∧
      (readHeaderS2 s0 = .error .magic → ∃ v c1, uvarintDec s0 = .ok (v, c1) ∧
        c'.Rep cap ed (s0.drop c1) (k0 + c1)) := by
  have hsrc := src_crd cap ed k0
  have hs1 := readUvarint_spec hsrc c s0 0 (RC_zero hrep)
  unfold readHeaderS2
  cases hc1 : uvarintDec s0 with
  | error e =>
    obtain ⟨c1', g1⟩ := hs1.2 e hc1
    rw [endMap_eof] at g1
    have hne : e ≠ .magic := by
      rcases uvarintDecAux_err s0 0 0 0 e hc1 with rfl | rfl | rfl <;> simp
    refine ⟨c1', by simp only [readRecordHeaderV2, g1, Except.map, liftE], fun hd hh => (by cases hh),
      fun hh => ?_⟩
    simp only [Except.error.injEq] at hh
    exact absurd hh hne
  | ok p1 =>
    obtain ⟨m, c1⟩ := p1
    obtain ⟨c1', g1, R1, _, hle1⟩ := hs1.1 m c1 hc1
    simp only [Nat.zero_add] at R1
    simp only []
    by_cases hm : m ≠ magicNumber
    · rw [if_pos hm]
      refine ⟨c1', by simp only [readRecordHeaderV2, g1, if_pos hm, Except.map, liftE],
        fun hd hh => (by cases hh), fun _ => ⟨m, c1, rfl, R1⟩⟩
    · rw [if_neg hm]
      have hs2 := readUvarint_spec hsrc c1' (s0.drop c1) c1 R1
      cases hc2 : uvarintDec (s0.drop c1) with
      | error e =>
        obtain ⟨c3', g3⟩ := hs2.2 e hc2
        rw [endMap_eof] at g3
        have hne : e ≠ .magic := by
          rcases uvarintDecAux_err _ 0 0 0 e hc2 with rfl | rfl | rfl <;> simp
        refine ⟨c3', by simp only [readRecordHeaderV2, g1, if_neg hm, g3, Except.map, liftE],
          fun hd hh => (by cases hh), fun hh => ?_⟩
        simp only [Except.error.injEq] at hh
        exact absurd hh hne
      | ok p2 =>
        obtain ⟨u, c2⟩ := p2
        obtain ⟨c3', g3, R3, _, hle2⟩ := hs2.1 u c2 hc2
        simp only []
        have hs3 := readUvarint_spec hsrc c3' ((s0.drop c1).drop c2) (c1 + c2) R3
        cases hc3 : uvarintDec ((s0.drop c1).drop c2) with
        | error e =>
          obtain ⟨c4', g4⟩ := hs3.2 e hc3
          rw [endMap_eof] at g4
          have hne : e ≠ .magic := by
            rcases uvarintDecAux_err _ 0 0 0 e hc3 with rfl | rfl | rfl <;> simp
          refine ⟨c4', by simp only [readRecordHeaderV2, g1, if_neg hm, g3, g4, Except.map, liftE],
            fun hd hh => (by cases hh), fun hh => ?_⟩
          simp only [Except.error.injEq] at hh
          exact absurd hh hne
        | ok p3 =>
          obtain ⟨cl, c3⟩ := p3
          obtain ⟨c4', g4, R4, _, hle3⟩ := hs3.1 cl c3 hc3
          simp only []
          have hlen : c1 + c2 + c3 ≤ s0.length := by
            simp at hle2 hle3; omega
          refine ⟨c4', by simp only [readRecordHeaderV2, g1, if_neg hm, g3, g4, Except.map, liftE, noLen],
            fun hd hh => ?_, fun hh => (by cases hh)⟩
          simp only [Except.ok.injEq] at hh
          subst hh
          refine ⟨?_, hlen⟩
          have := R4
          simp only [RC, List.drop_drop] at this
          simpa [Nat.add_assoc] using this

end SST.Buf
