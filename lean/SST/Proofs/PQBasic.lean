/-
Helper lemmas for `SST/Proofs/PQ.lean`: comparator order facts, 1-based heap access, the heap-order
invariant, and correctness of the two sift loops (`upLoop`, `downLoop`) seen as repeated swaps.
-/
import SST.Model.PQ
import SST.Spec.Sorted
namespace SST.Proofs.PQB
open SST PQ

variable {K V : Type}

/-! ### comparator facts -/

theorem cmp_le_trans {cmp : K → K → Ordering} (hl : LawfulCmp cmp) {a b c : K}
    (h1 : cmp a b ≠ .gt) (h2 : cmp b c ≠ .gt) : cmp a c ≠ .gt := by
  cases hab : cmp a b with
  | gt => exact absurd hab h1
  | eq => rw [hl.eq_left a b c hab]; exact h2
  | lt =>
    cases hbc : cmp b c with
    | gt => exact absurd hbc h2
    | lt => rw [hl.trans_lt a b c hab hbc]; simp
    | eq =>
      have h3 : cmp c b = .eq := by rw [hl.swap c b, hbc]; rfl
      have h4 : cmp c a = .gt := by rw [hl.eq_left c b a h3, hl.swap b a, hab]; rfl
      rw [hl.swap a c, h4]; simp [Ordering.swap]

theorem cmp_le_of_not_lt {cmp : K → K → Ordering} (hl : LawfulCmp cmp) {a b : K}
    (h : cmp a b ≠ .lt) : cmp b a ≠ .gt := by
  rw [hl.swap b a]
  cases hab : cmp a b <;> simp_all [Ordering.swap]

theorem cmp_le_of_lt {cmp : K → K → Ordering} {a b : K} (h : cmp a b = .lt) : cmp a b ≠ .gt := by
  rw [h]; simp

theorem cmp_le_refl {cmp : K → K → Ordering} (hl : LawfulCmp cmp) (a : K) : cmp a a ≠ .gt := by
  rw [hl.refl]; simp

/-- `a ≤ b` on heap elements (by key) -/
def ele (cmp : K → K → Ordering) (a b : PElem K V) : Prop := cmp a.key b.key ≠ .gt

theorem ele_refl {cmp : K → K → Ordering} (hl : LawfulCmp cmp) (a : PElem K V) : ele cmp a a :=
  cmp_le_refl hl _

theorem ele_trans {cmp : K → K → Ordering} (hl : LawfulCmp cmp) {a b c : PElem K V}
    (h1 : ele cmp a b) (h2 : ele cmp b c) : ele cmp a c := cmp_le_trans hl h1 h2

theorem ele_of_less {cmp : K → K → Ordering} {a b : PElem K V} (h : less cmp a b = true) :
    ele cmp a b := by
  simp [less] at h; exact cmp_le_of_lt h

theorem ele_of_not_less {cmp : K → K → Ordering} (hl : LawfulCmp cmp) {a b : PElem K V}
    (h : ¬ less cmp a b = true) : ele cmp b a := by
  simp [less] at h; exact cmp_le_of_not_lt hl h

/-! ### 1-based access -/

theorem hget_zero (h : Heap K V) : hget h 0 = none := by simp [hget]

theorem hget_isSome {h : Heap K V} {i : Nat} {a : PElem K V} (hh : hget h i = some a) :
    1 ≤ i ∧ i ≤ h.length := by
  unfold hget at hh
  split at hh
  · cases hh
  · have := (List.getElem?_eq_some_iff.mp hh).1
    omega

theorem hget_of_valid (h : Heap K V) {i : Nat} (h1 : 1 ≤ i) (h2 : i ≤ h.length) :
    ∃ a, hget h i = some a := by
  unfold hget
  rw [if_neg (by omega)]
  exact ⟨h[i-1]'(by omega), List.getElem?_eq_getElem (by omega)⟩

theorem hget_none_of_gt (h : Heap K V) {i : Nat} (h2 : h.length < i) : hget h i = none := by
  unfold hget
  split
  · rfl
  · exact List.getElem?_eq_none (by omega)

@[simp] theorem hset_length (h : Heap K V) (i : Nat) (e : PElem K V) :
    (hset h i e).length = h.length := by simp [hset]

theorem hget_hset (h : Heap K V) {i k : Nat} (e : PElem K V) (hi1 : 1 ≤ i) (hi2 : i ≤ h.length) :
    hget (hset h i e) k = if k = i then some e else hget h k := by
  unfold hget hset
  by_cases hk0 : k = 0
  · subst hk0
    have : ¬ (0 = i) := by omega
    simp [this]
  · rw [if_neg hk0, if_neg hk0, List.getElem?_set]
    by_cases hki : k = i
    · subst hki
      have : k - 1 < h.length := by omega
      simp [this]
    · have : ¬ (i - 1 = k - 1) := by omega
      simp [this, hki]

theorem hset_hset (h : Heap K V) (i : Nat) (a b : PElem K V) :
    hset (hset h i a) i b = hset h i b := by simp [hset]

theorem hset_self {h : Heap K V} {i : Nat} {e : PElem K V} (hh : hget h i = some e) :
    hset h i e = h := by
  have hv := hget_isSome hh
  unfold hget at hh
  rw [if_neg (by omega)] at hh
  unfold hset
  obtain ⟨hlt, he⟩ := List.getElem?_eq_some_iff.mp hh
  rw [← he]; exact List.set_getElem_self hlt

/-- swapping the contents of two positions permutes the heap -/
theorem swap_perm {h : Heap K V} {i j : Nat} {e p : PElem K V}
    (hi : hget h i = some e) (hj : hget h j = some p) :
    (hset (hset h i p) j e).Perm h := by
  have vi := hget_isSome hi
  have vj := hget_isSome hj
  unfold hget at hi hj
  rw [if_neg (by omega)] at hi hj
  have ei := (List.getElem?_eq_some_iff.mp hi)
  have ej := (List.getElem?_eq_some_iff.mp hj)
  obtain ⟨hi', ei⟩ := ei
  obtain ⟨hj', ej⟩ := ej
  have := List.set_set_perm (as := h) hi' hj'
  rw [ei, ej] at this
  exact this

/-! ### heap order -/

/-- parent ≤ child everywhere -/
def HeapOrd (cmp : K → K → Ordering) (h : Heap K V) : Prop :=
  ∀ k a p, 2 ≤ k → hget h k = some a → hget h (k / 2) = some p → ele cmp p a

/-- heap order except on the edge from `i` to its parent; the parent of `i` is ≤ the children of `i` -/
def UpInv (cmp : K → K → Ordering) (h : Heap K V) (i : Nat) : Prop :=
  (∀ k a p, 2 ≤ k → k ≠ i → hget h k = some a → hget h (k / 2) = some p → ele cmp p a) ∧
  (∀ k a g, k / 2 = i → hget h k = some a → hget h (i / 2) = some g → ele cmp g a)

theorem upLoop_junk (cmp : K → K → Ordering) (e x : PElem K V) (fuel : Nat) (h : Heap K V) (i : Nat)
    (hi1 : 1 ≤ i) (hi2 : i ≤ h.length) :
    upLoop cmp e fuel (hset h i x) i = upLoop cmp e fuel h i := by
  cases fuel with
  | zero => simp [upLoop, hset_hset]
  | succ n =>
    simp only [upLoop, hset_hset]
    by_cases hj : i / 2 > 0
    · have : hget (hset h i x) (i / 2) = hget h (i / 2) := by
        rw [hget_hset _ _ hi1 hi2, if_neg (by omega)]
      rw [this]
    · simp [hj]

theorem hget_swap {h : Heap K V} {i j : Nat} (e p : PElem K V) (hi1 : 1 ≤ i) (hi2 : i ≤ h.length)
    (hj1 : 1 ≤ j) (hj2 : j ≤ h.length) (k : Nat) :
    hget (hset (hset h i p) j e) k = if k = j then some e else if k = i then some p else hget h k := by
  rw [hget_hset _ _ hj1 (by simpa using hj2), hget_hset _ _ hi1 hi2]

theorem up_ok (cmp : K → K → Ordering) (hl : LawfulCmp cmp) (e : PElem K V) :
    ∀ (fuel : Nat) (h : Heap K V) (i : Nat), UpInv cmp h i → hget h i = some e → i < fuel →
      HeapOrd cmp (upLoop cmp e fuel h i) ∧ (upLoop cmp e fuel h i).Perm h := by
  intro fuel
  induction fuel with
  | zero => intro h i _ _ hf; omega
  | succ n ih =>
    intro h i hinv hi hf
    have vi := hget_isSome hi
    unfold upLoop
    simp only []
    by_cases hj : i / 2 > 0
    · rw [if_pos hj]
      obtain ⟨p, hp⟩ := hget_of_valid h (i := i / 2) (by omega) (by omega)
      rw [hp]
      simp only []
      by_cases hlt : less cmp e p = true
      · rw [if_pos hlt]
        have vj : 1 ≤ i / 2 ∧ i / 2 ≤ h.length := ⟨by omega, by omega⟩
        rw [← upLoop_junk cmp e e n (hset h i p) (i / 2) vj.1 (by simpa using vj.2)]
        have hsw := hget_swap (h := h) e p vi.1 vi.2 vj.1 vj.2
        have hep : ele cmp e p := ele_of_less hlt
        have := ih (hset (hset h i p) (i / 2) e) (i / 2) ?_ (by rw [hsw]; simp) (by omega)
        · exact ⟨this.1, this.2.trans (swap_perm hi hp)⟩
        · constructor
          · intro k a q hk2 hkj ha hq
            rw [hsw] at ha hq
            rw [if_neg hkj] at ha
            by_cases hki : k = i
            · subst hki
              simp at ha hq
              subst ha; subst hq; exact hep
            · rw [if_neg hki] at ha
              by_cases hk2j : k / 2 = i / 2
              · rw [if_pos hk2j] at hq
                cases hq
                exact ele_trans hl hep (hinv.1 k a p hk2 hki ha (hk2j ▸ hp))
              · rw [if_neg hk2j] at hq
                by_cases hk2i : k / 2 = i
                · rw [if_pos hk2i] at hq
                  cases hq
                  exact hinv.2 k a p hk2i ha hp
                · rw [if_neg hk2i] at hq
                  exact hinv.1 k a q hk2 hki ha hq
          · intro k a g hkj ha hg
            rw [hsw] at ha hg
            have h1 : ¬ (k = i / 2) := by omega
            have h2 : ¬ (i / 2 / 2 = i / 2) := by omega
            have h3 : ¬ (i / 2 / 2 = i) := by omega
            rw [if_neg h1] at ha
            rw [if_neg h2, if_neg h3] at hg
            have hgp : ele cmp g p := hinv.1 (i / 2) p g (by
              have := hget_isSome hg; omega) (by omega) hp hg
            by_cases hki : k = i
            · rw [if_pos hki] at ha
              cases ha; exact hgp
            · rw [if_neg hki] at ha
              exact ele_trans hl hgp (hinv.1 k a p (by omega) hki ha (hkj ▸ hp))
      · rw [if_neg hlt, hset_self hi]
        refine ⟨?_, List.Perm.refl _⟩
        intro k a q hk2 ha hq
        by_cases hki : k = i
        · subst hki
          rw [hi] at ha; rw [hp] at hq
          cases ha; cases hq
          exact ele_of_not_less hl hlt
        · exact hinv.1 k a q hk2 hki ha hq
    · rw [if_neg hj, hset_self hi]
      refine ⟨?_, List.Perm.refl _⟩
      intro k a q hk2 ha hq
      exact hinv.1 k a q hk2 (by omega) ha hq

/-! ### sifting down -/

/-- heap order except on the edges from `i` to its children; the parent of `i` is ≤ the children of `i` -/
def DownInv (cmp : K → K → Ordering) (h : Heap K V) (i : Nat) : Prop :=
  (∀ k a p, 2 ≤ k → k / 2 ≠ i → hget h k = some a → hget h (k / 2) = some p → ele cmp p a) ∧
  (∀ k a g, k / 2 = i → hget h k = some a → hget h (i / 2) = some g → ele cmp g a)

theorem pickChild_cases (cmp : K → K → Ordering) (h : Heap K V) (i : Nat) :
    pickChild cmp h i = 2 * i ∨ pickChild cmp h i = 2 * i + 1 := by
  unfold pickChild
  simp only []
  split
  · split
    · exact Or.inr rfl
    · exact Or.inl rfl
  · exact Or.inl rfl

theorem pickChild_none {cmp : K → K → Ordering} {h : Heap K V} {i : Nat}
    (hn : hget h (pickChild cmp h i) = none) (k : Nat) (hk : k / 2 = i) (hi : 1 ≤ i) :
    hget h k = none := by
  have hk' : k = 2 * i ∨ k = 2 * i + 1 := by omega
  cases h1 : hget h (2 * i + 1) with
  | none =>
    have : pickChild cmp h i = 2 * i := by
      unfold pickChild; simp only [h1]
    rw [this] at hn
    rcases hk' with rfl | rfl <;> assumption
  | some ek =>
    have v1 := hget_isSome h1
    obtain ⟨ej, h2⟩ := hget_of_valid h (i := 2 * i) (by omega) (by omega)
    rcases pickChild_cases cmp h i with hc | hc <;> rw [hc] at hn <;> simp_all

theorem pickChild_min {cmp : K → K → Ordering} (hl : LawfulCmp cmp) {h : Heap K V} {i : Nat}
    {ej : PElem K V} (hs : hget h (pickChild cmp h i) = some ej) (k : Nat) (a : PElem K V)
    (hk : k / 2 = i) (hi : 1 ≤ i) (ha : hget h k = some a) : ele cmp ej a := by
  have hk' : k = 2 * i ∨ k = 2 * i + 1 := by omega
  cases h1 : hget h (2 * i + 1) with
  | none =>
    have : pickChild cmp h i = 2 * i := by
      unfold pickChild; simp only [h1]
    rw [this] at hs
    rcases hk' with rfl | rfl
    · rw [hs] at ha; cases ha; exact ele_refl hl _
    · rw [h1] at ha; cases ha
  | some ek =>
    have v1 := hget_isSome h1
    obtain ⟨e2, h2⟩ := hget_of_valid h (i := 2 * i) (by omega) (by omega)
    by_cases hlt : less cmp ek e2 = true
    · have : pickChild cmp h i = 2 * i + 1 := by
        unfold pickChild; simp only [h1, h2]; rw [if_pos ⟨v1.2, hlt⟩]
      rw [this, h1] at hs; cases hs
      rcases hk' with rfl | rfl
      · rw [h2] at ha; cases ha; exact ele_of_less hlt
      · rw [h1] at ha; cases ha; exact ele_refl hl _
    · have : pickChild cmp h i = 2 * i := by
        unfold pickChild; simp only [h1, h2]; rw [if_neg (fun hc => hlt hc.2)]
      rw [this, h2] at hs; cases hs
      rcases hk' with rfl | rfl
      · rw [h2] at ha; cases ha; exact ele_refl hl _
      · rw [h1] at ha; cases ha; exact ele_of_not_less hl hlt

theorem pickChild_congr (cmp : K → K → Ordering) {h h2 : Heap K V} {j : Nat}
    (hlen : h2.length = h.length) (hag : ∀ k, k / 2 = j → hget h2 k = hget h k) :
    pickChild cmp h2 j = pickChild cmp h j := by
  unfold pickChild
  simp only [hlen, hag (2 * j) (by omega), hag (2 * j + 1) (by omega)]

theorem downLoop_junk (cmp : K → K → Ordering) (e x : PElem K V) (fuel : Nat) (h : Heap K V)
    (i j : Nat) (hi1 : 1 ≤ i) (hi2 : i ≤ h.length) (hji : j ≠ i) :
    downLoop cmp e fuel (hset h i x) i j = downLoop cmp e fuel h i j := by
  cases fuel with
  | zero => simp [downLoop, hset_hset]
  | succ n =>
    simp only [downLoop, hset_hset, hset_length]
    rw [hget_hset _ _ hi1 hi2, if_neg hji]

theorem down_ok (cmp : K → K → Ordering) (hl : LawfulCmp cmp) (e : PElem K V) :
    ∀ (fuel : Nat) (h : Heap K V) (i : Nat), DownInv cmp h i → hget h i = some e →
      h.length < fuel + i →
      HeapOrd cmp (downLoop cmp e fuel h i (pickChild cmp h i)) ∧
        (downLoop cmp e fuel h i (pickChild cmp h i)).Perm h := by
  intro fuel
  induction fuel with
  | zero => intro h i _ hi hf; have := hget_isSome hi; omega
  | succ n ih =>
    intro h i hinv hi hf
    have vi := hget_isSome hi
    have hcases := pickChild_cases cmp h i
    have hnone := @pickChild_none K V cmp h i
    have hmin := @pickChild_min K V cmp hl h i
    generalize pickChild cmp h i = j at hcases hnone hmin
    have hj2 : j / 2 = i := by omega
    unfold downLoop
    cases hj : hget h j with
    | none =>
      simp only []
      rw [hset_self hi]
      refine ⟨?_, List.Perm.refl _⟩
      intro k a q hk2 ha hq
      by_cases hk2i : k / 2 = i
      · rw [hnone hj k hk2i vi.1] at ha; cases ha
      · exact hinv.1 k a q hk2 hk2i ha hq
    | some ej =>
      simp only []
      have vj := hget_isSome hj
      by_cases hlt : less cmp ej e = true
      · rw [if_pos ⟨vj.2, hlt⟩]
        have hsw := hget_swap (h := h) e ej vi.1 vi.2 vj.1 vj.2
        have hpc : pickChild cmp (hset h i ej) j = pickChild cmp (hset (hset h i ej) j e) j := by
          apply Eq.symm
          apply pickChild_congr
          · simp
          · intro k hk
            rw [hget_hset _ _ vj.1 (by simpa using vj.2), if_neg (by omega)]
        have hpc1 := pickChild_cases cmp (hset (hset h i ej) j e) j
        rw [hpc]
        rw [← downLoop_junk cmp e e n (hset h i ej) j _ vj.1 (by simpa using vj.2) (by omega)]
        have heje : ele cmp ej e := ele_of_less hlt
        have := ih (hset (hset h i ej) j e) j ?_ (by rw [hsw]; simp) (by simp; omega)
        · exact ⟨this.1, this.2.trans (swap_perm hi hj)⟩
        · constructor
          · intro k a q hk2 hk2j ha hq
            rw [hsw] at ha hq
            rw [if_neg hk2j] at hq
            by_cases hkj : k = j
            · subst hkj
              rw [if_pos rfl] at ha; cases ha
              rw [if_pos hj2] at hq; cases hq
              exact heje
            · rw [if_neg hkj] at ha
              by_cases hki : k = i
              · rw [if_pos hki] at ha; cases ha
                subst hki
                have h1 : ¬ (k / 2 = k) := by omega
                rw [if_neg h1] at hq
                exact hinv.2 j _ q hj2 hj hq
              · rw [if_neg hki] at ha
                by_cases hk2i : k / 2 = i
                · rw [if_pos hk2i] at hq; cases hq
                  exact hmin hj k a hk2i vi.1 ha
                · rw [if_neg hk2i] at hq
                  exact hinv.1 k a q hk2 hk2i ha hq
          · intro k a g hk2j ha hg
            rw [hsw] at ha hg
            have h1 : ¬ (k = j) := by omega
            have h2 : ¬ (k = i) := by omega
            have h3 : ¬ (j / 2 = j) := by omega
            rw [if_neg h1, if_neg h2] at ha
            rw [if_neg h3, if_pos hj2] at hg
            cases hg
            exact hinv.1 k a _ (by omega) (by omega) ha (hk2j ▸ hj)
      · rw [if_neg (fun hc => hlt hc.2), hset_self hi]
        refine ⟨?_, List.Perm.refl _⟩
        intro k a q hk2 ha hq
        by_cases hk2i : k / 2 = i
        · rw [hk2i, hi] at hq; cases hq
          exact ele_trans hl (ele_of_not_less hl hlt) (hmin hj k a hk2i vi.1 ha)
        · exact hinv.1 k a q hk2 hk2i ha hq

/-! ### the root is the minimum -/

theorem root_min {cmp : K → K → Ordering} (hl : LawfulCmp cmp) {h : Heap K V} (ho : HeapOrd cmp h)
    {r : PElem K V} (hr : hget h 1 = some r) : ∀ (k : Nat) (a : PElem K V), hget h k = some a → ele cmp r a := by
  intro k
  induction k using Nat.strongRecOn with
  | ind k ih =>
    intro a ha
    have vk := hget_isSome ha
    by_cases hk1 : k = 1
    · subst hk1; rw [hr] at ha; cases ha; exact ele_refl hl _
    · obtain ⟨p, hp⟩ := hget_of_valid h (i := k / 2) (by omega) (by omega)
      exact ele_trans hl (ih (k / 2) (by omega) p hp) (ho k a p (by omega) ha hp)

theorem root_min_mem {cmp : K → K → Ordering} (hl : LawfulCmp cmp) {top : PElem K V} {tl : Heap K V}
    (ho : HeapOrd cmp (top :: tl)) : ∀ a ∈ top :: tl, ele cmp top a := by
  intro a ha
  obtain ⟨n, hn, rfl⟩ := List.mem_iff_getElem.mp ha
  apply root_min hl ho (r := top) (by simp [hget]) (n + 1)
  simp [hget]

theorem heapOrd_nil (cmp : K → K → Ordering) : HeapOrd cmp ([] : Heap K V) := by
  intro k a p _ ha; simp [hget] at ha

/-! ### wrappers: `upHeap` after an append, `downHeap` after replacing the root -/

theorem hget_append_left (h l : Heap K V) {k : Nat} (hk : k ≤ h.length) : hget (h ++ l) k = hget h k := by
  unfold hget
  split
  · rfl
  · exact List.getElem?_append_left (by omega)

theorem upHeap_append {cmp : K → K → Ordering} (hl : LawfulCmp cmp) (h : Heap K V) (x : PElem K V)
    (ho : HeapOrd cmp h) :
    HeapOrd cmp (upHeap cmp (h ++ [x]) (h ++ [x]).length) ∧
      (upHeap cmp (h ++ [x]) (h ++ [x]).length).Perm (h ++ [x]) := by
  have hx : hget (h ++ [x]) (h ++ [x]).length = some x := by
    simp [hget]
  unfold upHeap
  rw [hx]
  simp only []
  apply up_ok cmp hl x _ _ _ _ hx (by omega)
  constructor
  · intro k a p hk2 hkn ha hp
    have vk := hget_isSome ha
    simp at vk hkn
    rw [hget_append_left _ _ (by omega)] at ha hp
    exact ho k a p hk2 ha hp
  · intro k a g hk ha _
    have vk := hget_isSome ha
    simp at vk hk
    omega

theorem downHeap_ok {cmp : K → K → Ordering} (hl : LawfulCmp cmp) (h : Heap K V)
    (hinv : DownInv cmp h 1) : HeapOrd cmp (downHeap cmp h) ∧ (downHeap cmp h).Perm h := by
  unfold downHeap
  cases h1 : hget h 1 with
  | none =>
    simp only []
    refine ⟨?_, List.Perm.refl _⟩
    intro k a p hk2 ha hp
    have vk := hget_isSome ha
    obtain ⟨r, hr⟩ := hget_of_valid h (i := 1) (by omega) (by omega)
    rw [h1] at hr; cases hr
  | some e =>
    simp only []
    exact down_ok cmp hl e _ h 1 hinv h1 (by omega)

theorem downInv_one_of {cmp : K → K → Ordering} {h h' : Heap K V} (ho : HeapOrd cmp h)
    (hag : ∀ k a, 2 ≤ k → hget h' k = some a → hget h k = some a) : DownInv cmp h' 1 := by
  constructor
  · intro k a p hk2 hk21 ha hp
    have vp := hget_isSome hp
    exact ho k a p hk2 (hag k a hk2 ha) (hag (k / 2) p (by omega) hp)
  · intro k a g _ _ hg
    simp [hget] at hg

/-! ### `next` -/

theorem next_none {cmp : K → K → Ordering} {h : Heap K V} (hn : next cmp h = none) : h = [] := by
  cases h with
  | nil => rfl
  | cons top tl =>
    unfold next at hn
    simp only [] at hn
    split at hn
    · cases hn
    · rw [List.getLast?_cons] at hn
      simp at hn

theorem next_spec {cmp : K → K → Ordering} (hl : LawfulCmp cmp) {h h' : Heap K V} {out : K × V × Nat}
    (ho : HeapOrd cmp h) (hn : next cmp h = some (out, h')) :
    ∃ top tl, h = top :: tl ∧ out = (top.key, top.val, top.ctx) ∧ HeapOrd cmp h' ∧
      ((∃ k' v' rest', top.rest = (k', v') :: rest' ∧
          h'.Perm ({ top with key := k', val := v', rest := rest' } :: tl)) ∨
       (top.rest = [] ∧ h'.Perm tl)) := by
  cases h with
  | nil => simp [next] at hn
  | cons top tl =>
    refine ⟨top, tl, rfl, ?_⟩
    unfold next at hn
    simp only [] at hn
    split at hn
    · rename_i k' v' rest' hrest
      simp only [Option.some.injEq, Prod.mk.injEq] at hn
      obtain ⟨ho', hh'⟩ := hn
      have hs : hset (top :: tl) 1 { top with key := k', val := v', rest := rest' } =
          { top with key := k', val := v', rest := rest' } :: tl := by simp [hset]
      rw [hs] at hh'
      have := downHeap_ok hl ({ top with key := k', val := v', rest := rest' } :: tl)
        (downInv_one_of ho (by
          intro k a hk2 ha
          obtain ⟨k, rfl⟩ : ∃ k0, k = k0 + 2 := ⟨k - 2, by omega⟩
          simpa [hget] using ha))
      rw [hh'] at this
      exact ⟨ho'.symm, this.1, Or.inl ⟨k', v', rest', hrest, this.2⟩⟩
    · rename_i hrest
      cases hlast : (top :: tl).getLast? with
      | none => rw [hlast] at hn; cases hn
      | some last =>
        rw [hlast] at hn
        simp only [Option.some.injEq, Prod.mk.injEq] at hn
        obtain ⟨ho', hh'⟩ := hn
        obtain ⟨ys, hys⟩ := List.getLast?_eq_some_iff.mp hlast
        cases ys with
        | nil =>
          simp at hys
          obtain ⟨rfl, rfl⟩ := hys
          have : downHeap cmp ((hset [top] 1 top).dropLast) = [] := by
            simp [hset, downHeap, hget]
          rw [this] at hh'
          subst hh'
          exact ⟨ho'.symm, heapOrd_nil cmp, Or.inr ⟨hrest, List.Perm.refl _⟩⟩
        | cons y ys' =>
          simp at hys
          obtain ⟨rfl, rfl⟩ := hys
          have hs : (hset (top :: (ys' ++ [last])) 1 last).dropLast = last :: ys' := by
            have : hset (top :: (ys' ++ [last])) 1 last = (last :: ys') ++ [last] := by simp [hset]
            rw [this, List.dropLast_concat]
          rw [hs] at hh'
          have := downHeap_ok hl (last :: ys')
            (downInv_one_of ho (by
              intro k a hk2 ha
              obtain ⟨k, rfl⟩ : ∃ k0, k = k0 + 2 := ⟨k - 2, by omega⟩
              simp [hget] at ha ⊢
              obtain ⟨hlt, _⟩ := List.getElem?_eq_some_iff.mp ha
              rw [List.getElem?_append_left hlt]; exact ha))
          rw [hh'] at this
          refine ⟨ho'.symm, this.1, Or.inr ⟨hrest, this.2.trans ?_⟩⟩
          exact (List.perm_append_singleton last ys').symm

end SST.Proofs.PQB
