/-
C07 proofs, part 2: file-system events, crash images (`Img`) and admissible event sequences.
-/
import SST.Spec.Wal
import SST.Proofs.RecordIODamage
namespace SST.Proofs
open SST Generated

/-- An event the appender may issue in directory `d` of a log whose files will finally hold `F 0 .. F (m-1)`:
create the next file only when the current one is complete, write to the current file only bytes that extend
it towards its final content. -/
def AdmEv (F : Nat → Bytes) (m : Nat) (d : DirN) : FsEvent → Prop
  | .create f => (d = [] ∧ f = 0 ∧ 0 < m) ∨ (∃ j, d = completeDir F j ++ [(j, F j)] ∧ f = j + 1 ∧ j + 1 < m)
  | .write f bs => ∃ b, f < m ∧ d = completeDir F f ++ [(f, b)] ∧ b ++ bs <+: F f
  | .fsync _ => True
  | .close _ => True

def Adm (F : Nat → Bytes) (m : Nat) : DirN → List FsEvent → Prop
  | _, [] => True
  | d, e :: es => AdmEv F m d e ∧ Adm F m (applyEvent d e) es

theorem completeDir_succ (F : Nat → Bytes) (j : Nat) :
    completeDir F (j + 1) = completeDir F j ++ [(j, F j)] := by
  simp [completeDir, List.range_succ]

theorem completeDir_congr (F F' : Nat → Bytes) (j : Nat) (h : ∀ i, i < j → F' i = F i) :
    completeDir F' j = completeDir F j := by
  unfold completeDir
  apply List.map_congr_left
  intro i hi
  rw [h i (List.mem_range.mp hi)]

theorem apply_create_zero : applyEvent [] (.create 0) = [(0, [])] := rfl

theorem apply_create_next (F : Nat → Bytes) (j : Nat) (b : Bytes) :
    applyEvent (completeDir F j ++ [(j, b)]) (.create (j + 1)) =
      completeDir F j ++ [(j, b)] ++ [(j + 1, [])] := by
  have : (completeDir F j ++ [(j, b)]).any (fun e => e.1 == j + 1) = false := by
    rw [List.any_eq_false]
    intro x hx
    simp only [List.mem_append, completeDir, List.mem_map, List.mem_range, List.mem_singleton] at hx
    rcases hx with ⟨i, hi, rfl⟩ | rfl
    · simp; omega
    · simp
  simp only [applyEvent, this]
  rfl

theorem apply_write (F : Nat → Bytes) (f : Nat) (b bs : Bytes) :
    applyEvent (completeDir F f ++ [(f, b)]) (.write f bs) = completeDir F f ++ [(f, b ++ bs)] := by
  simp only [applyEvent, List.map_append, List.map_cons, List.map_nil, beq_self_eq_true, if_true]
  congr 1
  unfold completeDir
  rw [List.map_map]
  apply List.map_congr_left
  intro i hi
  have : i < f := List.mem_range.mp hi
  have hne : ¬ i = f := by omega
  simp [hne]

/-- an admissible event leads from a crash image to a crash image -/
theorem img_step (F : Nat → Bytes) (m : Nat) (d : DirN) (e : FsEvent)
    (hd : Img F m d) (ha : AdmEv F m d e) : Img F m (applyEvent d e) := by
  cases e with
  | create f =>
    rcases ha with ⟨rfl, rfl, hm⟩ | ⟨j, rfl, rfl, hj⟩
    · right; exact ⟨0, [], hm, List.nil_prefix, by simp [apply_create_zero, completeDir]⟩
    · right
      refine ⟨j + 1, [], hj, List.nil_prefix, ?_⟩
      rw [apply_create_next, completeDir_succ]
  | write f bs =>
    obtain ⟨b, hf, rfl, hp⟩ := ha
    right
    exact ⟨f, b ++ bs, hf, hp, apply_write F f b bs⟩
  | fsync f => exact hd
  | close f => exact hd

theorem adm_append (F : Nat → Bytes) (m : Nat) (d : DirN) (xs ys : List FsEvent) :
    Adm F m d (xs ++ ys) ↔ Adm F m d xs ∧ Adm F m (xs.foldl applyEvent d) ys := by
  induction xs generalizing d with
  | nil => simp [Adm]
  | cons x xs ih => simp only [List.cons_append, Adm, List.foldl_cons, ih, and_assoc]

theorem adm_take (F : Nat → Bytes) (m : Nat) (d : DirN) (evs : List FsEvent) (n : Nat)
    (h : Adm F m d evs) : Adm F m d (evs.take n) := by
  rw [← List.take_append_drop n evs] at h
  exact ((adm_append F m d _ _).mp h).1

theorem img_foldl (F : Nat → Bytes) (m : Nat) (d : DirN) (evs : List FsEvent)
    (hd : Img F m d) (ha : Adm F m d evs) : Img F m (evs.foldl applyEvent d) := by
  induction evs generalizing d with
  | nil => exact hd
  | cons e es ih => exact ih _ (img_step F m d e hd ha.1) ha.2

/-- every prefix of an admissible event sequence leaves a crash image -/
theorem img_take (F : Nat → Bytes) (m : Nat) (evs : List FsEvent) (n : Nat) (ha : Adm F m [] evs) :
    Img F m (dirAfterN (evs.take n)) :=
  img_foldl F m [] _ (Or.inl rfl) (adm_take F m [] evs n ha)

/-- admissibility survives when the final contents grow: the last file gets more bytes, files are added -/
theorem adm_mono (F F' : Nat → Bytes) (m m' : Nat) (hm : m ≤ m')
    (hp : ∀ j, j < m → F j <+: F' j) (he : ∀ j, j + 1 < m → F' j = F j)
    (d : DirN) (evs : List FsEvent) (h : Adm F m d evs) : Adm F' m' d evs := by
  induction evs generalizing d with
  | nil => trivial
  | cons e es ih =>
    refine ⟨?_, ih _ h.2⟩
    have h1 := h.1
    cases e with
    | create f =>
      rcases h1 with ⟨rfl, rfl, h0⟩ | ⟨j, rfl, rfl, hj⟩
      · left; exact ⟨rfl, rfl, by omega⟩
      · right
        refine ⟨j, ?_, rfl, by omega⟩
        rw [completeDir_congr F F' j (fun i hi => he i (by omega)), he j hj]
    | write f bs =>
      obtain ⟨b, hf, rfl, hb⟩ := h1
      refine ⟨b, by omega, ?_, List.IsPrefix.trans hb (hp f hf)⟩
      rw [completeDir_congr F F' f (fun i hi => he i (by omega))]
    | fsync f => trivial
    | close f => trivial

/-- a run of writes to the current file whose bytes extend it towards its final content -/
theorem adm_writes (F : Nat → Bytes) (m f : Nat) (hf : f < m) (b : Bytes) (chs : List Bytes)
    (hp : b ++ chs.flatten <+: F f) :
    Adm F m (completeDir F f ++ [(f, b)]) (chs.map (.write f)) ∧
    (chs.map (FsEvent.write f)).foldl applyEvent (completeDir F f ++ [(f, b)]) =
      completeDir F f ++ [(f, b ++ chs.flatten)] := by
  induction chs generalizing b with
  | nil => simp [Adm]
  | cons ch chs ih =>
    have hp' : (b ++ ch) ++ chs.flatten <+: F f := by simpa [List.append_assoc] using hp
    have h1 : b ++ ch <+: F f :=
      List.IsPrefix.trans (List.prefix_append _ _) hp'
    obtain ⟨ih1, ih2⟩ := ih (b ++ ch) hp'
    simp only [List.map_cons, Adm, List.foldl_cons, apply_write]
    refine ⟨⟨⟨b, hf, rfl, h1⟩, ih1⟩, ?_⟩
    rw [ih2]; simp [List.append_assoc]

theorem dirAfterN_append (xs ys : List FsEvent) :
    dirAfterN (xs ++ ys) = ys.foldl applyEvent (dirAfterN xs) := by
  simp [dirAfterN, List.foldl_append]

/-! ## the records a crash image holds -/

theorem wholeInAux_mono (c : Compression) (rs : List GoBytes) (b b' : Nat) (h : b ≤ b') :
    wholeInAux c rs b ≤ wholeInAux c rs b' := by
  induction rs generalizing b b' with
  | nil => simp [wholeInAux]
  | cons r rs ih =>
    simp only [wholeInAux]
    by_cases h1 : (encRecord c r).length ≤ b
    · have h2 : (encRecord c r).length ≤ b' := by omega
      rw [if_pos h1, if_pos h2]
      have := ih (b - (encRecord c r).length) (b' - (encRecord c r).length) (by omega)
      omega
    · rw [if_neg h1]; omega

theorem wholeInAux_all (c : Compression) (rs : List GoBytes) (b : Nat) (h : (encAll c rs).length ≤ b) :
    wholeInAux c rs b = rs.length := by
  induction rs generalizing b with
  | nil => simp [wholeInAux]
  | cons r rs ih =>
    simp only [encAll_cons, List.length_append] at h
    simp only [wholeInAux]
    rw [if_pos (by omega), ih (b - (encRecord c r).length) (by omega)]
    simp only [List.length_cons]; omega

theorem wholeInAux_zero (c : Compression) (rs : List GoBytes) : wholeInAux c rs 0 = 0 := by
  cases rs with
  | nil => rfl
  | cons r rs =>
    have := encRecord_pos c r
    simp only [wholeInAux]; rw [if_neg (by omega)]

theorem wholeIn_le_length (c : Compression) (rs : List GoBytes) (n : Nat) : wholeIn c rs n ≤ rs.length :=
  wholeInAux_le_length c rs _

theorem wholeIn_mono (c : Compression) (rs : List GoBytes) (n n' : Nat) (h : n ≤ n') :
    wholeIn c rs n ≤ wholeIn c rs n' :=
  wholeInAux_mono c rs _ _ (by omega)

theorem wholeIn_all (c : Compression) (ct : Nat) (rs : List GoBytes) (n : Nat)
    (h : (fileBytes c ct rs).length ≤ n) : wholeIn c rs n = rs.length := by
  have h8 : (fileHeader currentVersion ct).length = 8 := rfl
  have hfs : fileHeaderSize = 8 := rfl
  simp only [fileBytes, List.length_append] at h
  exact wholeInAux_all c rs _ (by omega)

theorem wholeIn_zero (c : Compression) (rs : List GoBytes) : wholeIn c rs 0 = 0 := by
  unfold wholeIn; simp [wholeInAux_zero]

theorem imgRecords_nil (c : Compression) (full : List (List GoBytes)) : imgRecords c full [] = [] := rfl

theorem imgRecords_snoc (c : Compression) (full : List (List GoBytes)) (pre : DirN) (j : Nat) (b : Bytes) :
    imgRecords c full (pre ++ [(j, b)]) =
      (full.take j).flatten ++ (full.getD j []).take (wholeIn c (full.getD j []) b.length) := by
  simp [imgRecords]

theorem take_succ_flatten (full : List (List GoBytes)) (j : Nat) (hj : j < full.length) :
    (full.take (j + 1)).flatten = (full.take j).flatten ++ full.getD j [] := by
  rw [List.take_add_one, List.getD_eq_getElem?_getD, List.getElem?_eq_getElem hj]
  simp only [Option.toList, List.flatten_append, List.flatten_cons, List.flatten_nil, List.append_nil,
    Option.getD_some]

/-- what an image holds is a prefix of everything appended -/
theorem imgRecords_prefix (c : Compression) (ct : Nat) (full : List (List GoBytes)) (d : DirN)
    (hd : Img (fileOf c ct full) full.length d) : imgRecords c full d <+: full.flatten := by
  rcases hd with rfl | ⟨j, b, hj, _, rfl⟩
  · exact List.nil_prefix
  · rw [imgRecords_snoc]
    have h1 : (full.take (j + 1)).flatten <+: full.flatten := by
      conv => rhs; rw [← List.take_append_drop (j + 1) full]
      rw [List.flatten_append]; exact List.prefix_append _ _
    refine List.IsPrefix.trans ?_ h1
    rw [take_succ_flatten full j hj]
    exact (List.prefix_append_right_inj _).mpr (List.take_prefix _ _)

/-- an admissible event never makes an image hold fewer records -/
theorem imgRecords_mono (c : Compression) (ct : Nat) (full : List (List GoBytes)) (d : DirN) (e : FsEvent)
    (ha : AdmEv (fileOf c ct full) full.length d e) :
    (imgRecords c full d).length ≤ (imgRecords c full (applyEvent d e)).length := by
  cases e with
  | create f =>
    rcases ha with ⟨rfl, rfl, _⟩ | ⟨j, rfl, rfl, hj⟩
    · simp [imgRecords_nil]
    · rw [apply_create_next, imgRecords_snoc, imgRecords_snoc, List.length_nil, wholeIn_zero, List.take_zero,
        List.append_nil, take_succ_flatten full j (by omega)]
      have : wholeIn c (full.getD j []) (fileOf c ct full j).length = (full.getD j []).length :=
        wholeIn_all c ct _ _ (Nat.le_refl _)
      rw [this, List.take_length]
      exact Nat.le_refl _
  | write f bs =>
    obtain ⟨b, hf, rfl, hp⟩ := ha
    rw [apply_write, imgRecords_snoc, imgRecords_snoc]
    have := wholeIn_mono c (full.getD f []) b.length (b ++ bs).length (by simp)
    simp only [List.length_append, List.length_take]
    have h1 := wholeIn_le_length c (full.getD f []) b.length
    have h2 := wholeIn_le_length c (full.getD f []) (b ++ bs).length
    simp only [List.length_append] at this h2
    omega
  | fsync f => exact Nat.le_refl _
  | close f => exact Nat.le_refl _

/-- ... hence along any admissible event sequence -/
theorem imgRecords_mono_foldl (c : Compression) (ct : Nat) (full : List (List GoBytes)) (d : DirN)
    (evs : List FsEvent) (ha : Adm (fileOf c ct full) full.length d evs) :
    (imgRecords c full d).length ≤ (imgRecords c full (evs.foldl applyEvent d)).length := by
  induction evs generalizing d with
  | nil => exact Nat.le_refl _
  | cons e es ih =>
    exact Nat.le_trans (imgRecords_mono c ct full d e ha.1) (ih _ ha.2)

theorem imgRecords_mono_take (c : Compression) (ct : Nat) (full : List (List GoBytes))
    (evs : List FsEvent) (ha : Adm (fileOf c ct full) full.length [] evs) (n1 n2 : Nat) (h : n1 ≤ n2) :
    (imgRecords c full (dirAfterN (evs.take n1))).length ≤
      (imgRecords c full (dirAfterN (evs.take n2))).length := by
  have e1 : evs.take n1 = (evs.take n2).take n1 := by rw [List.take_take, Nat.min_eq_left h]
  have h2 := adm_take _ _ [] evs n2 ha
  have e2 : evs.take n2 = (evs.take n2).take n1 ++ (evs.take n2).drop n1 := (List.take_append_drop _ _).symm
  rw [e2] at h2
  have h3 := (adm_append _ _ [] _ _).mp h2
  have := imgRecords_mono_foldl c ct full _ _ h3.2
  rw [e1]
  conv => rhs; rw [e2, dirAfterN_append]
  exact this

end SST.Proofs
