/-
Layer B of the buffered-reader proofs: `binary.ReadUvarint` over a byte reader, the checksum byte reader, and
the record header readers, related to `uvarintDec` / `canonDec` / `readHeader` on the raw stream.
-/
import SST.Proofs.BufReaderFull
import SST.Proofs.RecordIO
namespace SST.Buf
open SST Generated

/-! ## a byte reader that hands out a window of bytes -/

/-- `step` hands out the bytes of a window one at a time (`R st w j`: the state `st` has `w` left to hand out
after `j` bytes) and fails with `e0` at its end -/
structure Src {σ : Type} (step : σ → Except XErr UInt8 × σ) (R : σ → Bytes → Nat → Prop) (e0 : XErr) : Prop where
  cons : ∀ st x t j, R st (x :: t) j → ∃ st', step st = (.ok x, st') ∧ R st' t (j + 1)
  nil : ∀ st j, R st [] j → ∃ st', step st = (.error e0, st')

/-- how `ReadUvarint` reports the end of the window -/
def endMap (e0 : XErr) : Err → XErr
  | .eof => e0
  | .unexpectedEof => if e0 = .e .eof then .e .unexpectedEof else e0
  | e => .e e

theorem readUvarintLoop_spec {σ : Type} {step : σ → Except XErr UInt8 × σ} {R : σ → Bytes → Nat → Prop}
    {e0 : XErr} (hsrc : Src step R e0) : ∀ (f i x sh : Nat) (st : σ) (w : Bytes) (j : Nat), i + f = 10 →
    R st w j →
    (∀ v i', uvarintDecAux w i x sh = .ok (v, i') → ∃ st', readUvarintLoop step f i x sh st = (.ok v, st') ∧
      R st' (w.drop (i' - i)) (j + (i' - i)) ∧ i < i' ∧ i' - i ≤ w.length) ∧
    (∀ e, uvarintDecAux w i x sh = .error e →
      ∃ st', readUvarintLoop step f i x sh st = (.error (endMap e0 e), st')) := by
  intro f
  induction f with
  | zero =>
    intro i x sh st w j hi _
    have h10 : i ≥ 10 := by omega
    have : uvarintDecAux w i x sh = .error .overflow := by
      cases w <;> simp [uvarintDecAux, h10]
    rw [this]
    refine ⟨fun v i' h => (by cases h), fun e h => ?_⟩
    cases h
    exact ⟨st, rfl⟩
  | succ f ih =>
    intro i x sh st w j hi hR
    have h10 : ¬ i ≥ 10 := by omega
    cases w with
    | nil =>
      obtain ⟨st', hst⟩ := hsrc.nil st j hR
      refine ⟨fun v i' h => ?_, fun e h => ?_⟩
      · simp only [uvarintDecAux, if_neg h10] at h
        split at h <;> cases h
      · refine ⟨st', ?_⟩
        simp only [uvarintDecAux, if_neg h10] at h
        simp only [readUvarintLoop, hst]
        by_cases h0 : i = 0
        · rw [if_pos h0] at h; cases h
          simp [h0, endMap]
        · rw [if_neg h0] at h; cases h
          have hpos : i > 0 := by omega
          by_cases he : e0 = .e .eof
          · simp [endMap, he, hpos]
          · simp [endMap, he]
    | cons b bs =>
      obtain ⟨st', hst, hR'⟩ := hsrc.cons st b bs j hR
      by_cases hb : b.toNat < 128
      · refine ⟨fun v i' h => ?_, fun e h => ?_⟩
        · simp only [uvarintDecAux, if_neg h10, if_pos hb] at h
          split at h
          · cases h
          · rename_i hov
            simp only [Except.ok.injEq, Prod.mk.injEq] at h
            obtain ⟨rfl, rfl⟩ := h
            refine ⟨st', ?_, ?_, by omega, by simp⟩
            · simp only [readUvarintLoop, hst, if_pos hb, if_neg hov]
            · have : i + 1 - i = 1 := by omega
              rw [this]; simpa using hR'
        · simp only [uvarintDecAux, if_neg h10, if_pos hb] at h
          split at h
          · rename_i hov
            cases h
            exact ⟨st', by simp only [readUvarintLoop, hst, if_pos hb, if_pos hov, endMap]⟩
          · cases h
      · have := ih (i + 1) (x + (b.toNat - 128) * 2 ^ sh) (sh + 7) st' bs (j + 1) (by omega) hR'
        refine ⟨fun v i' h => ?_, fun e h => ?_⟩
        · simp only [uvarintDecAux, if_neg h10, if_neg hb] at h
          obtain ⟨st'', h1, h2, h3, h4⟩ := this.1 v i' h
          refine ⟨st'', ?_, ?_, by omega, by simp; omega⟩
          · simp only [readUvarintLoop, hst, if_neg hb]; exact h1
          · have e1 : i' - i = (i' - (i + 1)) + 1 := by omega
            have e2 : j + (i' - (i + 1) + 1) = j + 1 + (i' - (i + 1)) := by omega
            rw [e1, e2, List.drop_succ_cons]; exact h2
        · simp only [uvarintDecAux, if_neg h10, if_neg hb] at h
          obtain ⟨st'', h1⟩ := this.2 e h
          exact ⟨st'', by simp only [readUvarintLoop, hst, if_neg hb]; exact h1⟩

/-- `binary.ReadUvarint` over a window = `uvarintDec` of the window -/
theorem readUvarint_spec {σ : Type} {step : σ → Except XErr UInt8 × σ} {R : σ → Bytes → Nat → Prop}
    {e0 : XErr} (hsrc : Src step R e0) (st : σ) (w : Bytes) (j : Nat) (hR : R st w j) :
    (∀ v n, uvarintDec w = .ok (v, n) → ∃ st', readUvarint step st = (.ok v, st') ∧
      R st' (w.drop n) (j + n) ∧ 0 < n ∧ n ≤ w.length) ∧
    (∀ e, uvarintDec w = .error e → ∃ st', readUvarint step st = (.error (endMap e0 e), st')) := by
  have := readUvarintLoop_spec hsrc 10 0 0 0 st w j (by omega) hR
  exact ⟨fun v n h => by simpa [readUvarint] using this.1 v n h, this.2⟩

/-- the errors `uvarintDec` can produce -/
theorem uvarintDecAux_err : ∀ (w : Bytes) (i x sh : Nat) (e : Err), uvarintDecAux w i x sh = .error e →
    e = .eof ∨ e = .unexpectedEof ∨ e = .overflow := by
  intro w
  induction w with
  | nil =>
    intro i x sh e h
    simp only [uvarintDecAux] at h
    split at h
    · cases h; simp
    · split at h <;> cases h <;> simp
  | cons b bs ih =>
    intro i x sh e h
    simp only [uvarintDecAux] at h
    split at h
    · cases h; simp
    · split at h
      · split at h
        · cases h; simp
        · cases h
      · exact ih _ _ _ _ h

/-! ## the counting reader as a byte source -/

/-- reading the stream `s0` (with `k0` bytes consumed before it) through the counting reader -/
def RC (cap : Nat) (ed : Bool) (k0 : Nat) (c : CRd) (w : Bytes) (j : Nat) : Prop := c.Rep cap ed w (k0 + j)

theorem src_crd (cap : Nat) (ed : Bool) (k0 : Nat) : Src CRd.readByte (RC cap ed k0) (.e .eof) where
  cons := fun st x t j h => by
    obtain ⟨c', h1, h2, _⟩ := crd_readByte_cons h
    exact ⟨c', h1, h2⟩
  nil := fun st j h => by
    obtain ⟨c', h1, _, _⟩ := crd_readByte_nil h
    exact ⟨c', h1⟩

theorem endMap_eof (e : Err) : endMap (.e .eof) e = .e e := by
  cases e <;> simp [endMap]

/-! ## the checksum byte reader as a byte source over the 36-byte window -/

theorem fileWin_bytes_eq (s : Bytes) : (fileWin s).bytes = s.take recordHeaderMax := by
  unfold fileWin
  split
  · rfl
  · rename_i h; simp only; rw [List.take_of_length_le (by omega)]

theorem fileWin_end0 (s : Bytes) :
    (fileWin s).end0 = if s.length > recordHeaderMax then .headerTooLong else .eof := by
  unfold fileWin; split <;> rfl

theorem fileWin_endN (s : Bytes) :
    (fileWin s).endN = if s.length > recordHeaderMax then .headerTooLong else .unexpectedEof := by
  unfold fileWin; split <;> rfl

theorem fileWin_map_err (s : Bytes) (e : Err) {α : Type} :
    (fileWin s).map (.error e : Except Err α) = .error (match endMap (.e (fileWin s).end0) e with
      | .e e' => e' | _ => .other) ∧ ∃ e', endMap (.e (fileWin s).end0) e = .e e' := by
  rw [fileWin_end0]
  by_cases h : s.length > recordHeaderMax
  · cases e <;> simp [Win.map, endMap, fileWin_end0, fileWin_endN, h]
  · cases e <;> simp [Win.map, endMap, fileWin_end0, fileWin_endN, h]

theorem drop_cons_take {α : Type} : ∀ (l : List α) (j : Nat) (x : α) (t : List α), l.drop j = x :: t →
    l.take (j + 1) = l.take j ++ [x] ∧ l.drop (j + 1) = t := by
  intro l
  induction l with
  | nil => intro j x t h; simp at h
  | cons a l ih =>
    intro j x t h
    cases j with
    | zero => simp at h; simp [h.1, h.2]
    | succ j =>
      simp only [List.drop_succ_cons] at h
      have := ih j x t h
      simp only [List.take_succ_cons, List.drop_succ_cons, List.cons_append, this.1, this.2, and_self]

/-- reading the header window of the stream `s0` through the checksum byte reader: `j` bytes cached -/
def RK (cap : Nat) (ed : Bool) (s0 : Bytes) (k0 : Nat) (h : CkRd) (w : Bytes) (j : Nat) : Prop :=
  w = (s0.take recordHeaderMax).drop j ∧ h.cache = s0.take j ∧ j ≤ (s0.take recordHeaderMax).length ∧
  h.rd.Rep cap ed (s0.drop j) (k0 + j)

theorem src_ckrd (cap : Nat) (ed : Bool) (s0 : Bytes) (k0 : Nat) :
    Src CkRd.readByte (RK cap ed s0 k0) (.e (fileWin s0).end0) where
  cons := fun h x t j ⟨hw, hc, hj, hrep⟩ => by
    have hjlt : j < (s0.take recordHeaderMax).length := by
      have := congrArg List.length hw; simp at this ⊢; omega
    have hj36 : j < recordHeaderMax := by simp at hjlt; omega
    have hjs : j < s0.length := by simp at hjlt; omega
    -- the byte at position j of the stream is x
    have hdrop : s0.drop j = x :: s0.drop (j + 1) := by
      have h1 : (s0.take recordHeaderMax).drop j = ((s0.drop j).take (recordHeaderMax - j)) := by
        rw [List.drop_take]
      rw [h1] at hw
      cases hd : s0.drop j with
      | nil => simp [hd] at hw
      | cons y ys =>
        rw [hd] at hw
        obtain ⟨m, hm⟩ : ∃ m, recordHeaderMax - j = m + 1 := ⟨recordHeaderMax - j - 1, by omega⟩
        rw [hm, List.take_succ_cons] at hw
        have hxy : x = y := by injection hw
        rw [(drop_cons_take s0 j y ys hd).2, hxy]
    rw [hdrop] at hrep
    obtain ⟨c', h1, h2, _⟩ := crd_readByte_cons hrep
    have hclen : h.cache.length = j := by rw [hc, List.length_take]; omega
    refine ⟨{ rd := c', cache := h.cache ++ [x] }, ?_, ?_, ?_, ?_, ?_⟩
    · simp only [CkRd.readByte, h1, hclen]
      rw [if_neg (by omega)]
    · exact (drop_cons_take _ j x t hw.symm).2.symm
    · simp only; rw [hc, (drop_cons_take s0 j x _ hdrop).1]
    · omega
    · simpa [Nat.add_assoc] using h2
  nil := fun h j ⟨hw, hc, hj, hrep⟩ => by
    have hjeq : j = (s0.take recordHeaderMax).length := by
      have := congrArg List.length hw; simp at this hj ⊢; omega
    rw [fileWin_end0]
    by_cases hlong : s0.length > recordHeaderMax
    · -- more than 36 bytes left: the 37th is consumed, then the range check fails
      have hj36 : j = recordHeaderMax := by simp at hjeq; omega
      cases hd : s0.drop j with
      | nil => have := congrArg List.length hd; simp at this; omega
      | cons y ys =>
        rw [hd] at hrep
        obtain ⟨c', h1, _, _⟩ := crd_readByte_cons hrep
        have hclen : h.cache.length = j := by rw [hc, List.length_take]; omega
        refine ⟨{ h with rd := c' }, ?_⟩
        simp only [CkRd.readByte, h1, hclen, if_pos hlong]
        rw [if_pos (by omega)]
    · have hjs : j = s0.length := by simp at hjeq; omega
      have hd : s0.drop j = [] := by rw [hjs]; simp
      rw [hd] at hrep
      obtain ⟨c', h1, _, _⟩ := crd_readByte_nil hrep
      exact ⟨{ h with rd := c' }, by simp only [CkRd.readByte, h1, if_neg hlong]⟩

/-- `readCanonicalUvarint` through the checksum reader = `canonDec` on the window -/
theorem readCanonical_spec (cap : Nat) (ed : Bool) (s0 : Bytes) (k0 : Nat) (h : CkRd) (w : Bytes) (j : Nat)
    (hR : RK cap ed s0 k0 h w j) :
    (∀ v n, canonDec (fileWin s0) w = .ok (v, n) → ∃ h', readCanonical h = (.ok v, h') ∧
      RK cap ed s0 k0 h' (w.drop n) (j + n) ∧ 0 < n ∧ n ≤ w.length ∧ uvarintDec w = .ok (v, n)) ∧
    (∀ e, canonDec (fileWin s0) w = .error e → ∃ h', readCanonical h = (.error (.e e), h') ∧ e ≠ .magic) := by
  have hu := readUvarint_spec (src_ckrd cap ed s0 k0) h w j hR
  rw [Proofs.canonDec_eq]
  cases hdec : uvarintDec w with
  | error e =>
    obtain ⟨h', h1⟩ := hu.2 e hdec
    obtain ⟨hm1, e', hm2⟩ := fileWin_map_err s0 e (α := Nat × Nat)
    rw [hm1, hm2]
    refine ⟨fun v n hh => (by cases hh), fun e2 hh => ?_⟩
    simp only [Except.error.injEq] at hh
    subst hh
    refine ⟨h', by simp only [readCanonical, h1, hm2], ?_⟩
    -- the window errors are never the magic-number error
    rcases uvarintDecAux_err w 0 0 0 e hdec with rfl | rfl | rfl <;>
      · rw [fileWin_end0] at hm2
        by_cases hl : s0.length > recordHeaderMax <;> simp [endMap, hl] at hm2 <;> subst hm2 <;> simp
  | ok p =>
    obtain ⟨v, n⟩ := p
    obtain ⟨h', h1, h2, h3, h4⟩ := hu.1 v n hdec
    obtain ⟨hw', hc', hj', hrep'⟩ := h2
    obtain ⟨hw, hc, hj, hrep⟩ := hR
    -- lengths of the caches
    have hjn : j + n ≤ (s0.take recordHeaderMax).length := hj'
    have hlen' : h'.cache.length = j + n := by
      rw [hc', List.length_take]; simp at hjn; omega
    have hlen : h.cache.length = j := by
      rw [hc, List.length_take]; simp at hj; omega
    -- the last cached byte is byte n-1 of the window
    have hlast : h'.cache.getD (j + n - 1) 0 = w.getD (n - 1) 0 := by
      rw [hc', hw]
      simp only [List.getD_eq_getElem?_getD, List.getElem?_drop, List.getElem?_take]
      have e1 : j + n - 1 < j + n := by omega
      have e2 : j + (n - 1) < recordHeaderMax := by simp at hjn; omega
      have e3 : j + n - 1 = j + (n - 1) := by omega
      have e4 : n - 1 < n := by omega
      simp [e2, e3, e4]
    simp only [Win.map]
    refine ⟨fun v2 n2 hh => ?_, fun e2 hh => ?_⟩
    · split at hh
      · cases hh
      · rename_i hcanon
        simp only [Except.ok.injEq, Prod.mk.injEq] at hh
        obtain ⟨rfl, rfl⟩ := hh
        refine ⟨h', ?_, ⟨hw', hc', hj', hrep'⟩, h3, h4, rfl⟩
        simp only [readCanonical, h1, hlen', hlen, hlast]
        have : j + n - j = n := by omega
        rw [this, if_neg hcanon]
    · split at hh
      · rename_i hcanon
        cases hh
        refine ⟨h', ?_, by simp⟩
        simp only [readCanonical, h1, hlen', hlen, hlast]
        have : j + n - j = n := by omega
        rw [this, if_pos hcanon]
      · cases hh

end SST.Buf
