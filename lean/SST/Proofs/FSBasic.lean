/-
Helper lemmas for L6-fs: directory listings as sorted association lists, replayed mutations, table stacks.
-/
import SST.Spec.FS
import SST.Proofs.DBInv
namespace SST.Proofs.FS
open SST SST.DBM SST.FS SST.Proofs.DB

/-! ## table listings -/

theorem keys_updT (g : Nat) (f : TableDir → TableDir) (ts : List (Nat × TableDir)) :
    (updT g f ts).map (·.1) = ts.map (·.1) := by
  induction ts with
  | nil => rfl
  | cons p r ih =>
    simp only [updT, List.map_cons] at ih ⊢
    rw [ih]
    by_cases h : (p.1 == g) = true <;> simp [h]

theorem mem_insertT {g : Nat} {t : TableDir} {ts : List (Nat × TableDir)} {p : Nat × TableDir}
    (h : p ∈ insertT g t ts) : p ∈ ts ∨ p = (g, t) := by
  induction ts with
  | nil => simp [insertT] at h; exact Or.inr h
  | cons q r ih =>
    simp only [insertT] at h
    split at h
    · rcases List.mem_cons.1 h with (h | h)
      · exact Or.inr h
      · exact Or.inl h
    · split at h
      · exact Or.inl h
      · rcases List.mem_cons.1 h with (h | h)
        · exact Or.inl (h ▸ List.mem_cons_self)
        · rcases ih h with (h | h)
          · exact Or.inl (List.mem_cons_of_mem _ h)
          · exact Or.inr h

theorem mem_insertT_of_mem {g : Nat} {t : TableDir} {ts : List (Nat × TableDir)} {p : Nat × TableDir}
    (h : p ∈ ts) : p ∈ insertT g t ts := by
  induction ts with
  | nil => cases h
  | cons q r ih =>
    simp only [insertT]
    split
    · exact List.mem_cons_of_mem _ h
    · split
      · exact h
      · rcases List.mem_cons.1 h with (h | h)
        · exact h ▸ List.mem_cons_self
        · exact List.mem_cons_of_mem _ (ih h)

theorem insertT_sorted (g : Nat) (t : TableDir) (ts : List (Nat × TableDir))
    (h : (ts.map (·.1)).Pairwise (· < ·)) : ((insertT g t ts).map (·.1)).Pairwise (· < ·) := by
  induction ts with
  | nil => simp [insertT]
  | cons q r ih =>
    simp only [insertT]
    rw [List.map_cons, List.pairwise_cons] at h
    split
    · rename_i hlt
      rw [List.map_cons, List.pairwise_cons]
      refine ⟨?_, by rw [List.map_cons, List.pairwise_cons]; exact h⟩
      intro x hx
      rcases List.mem_cons.1 hx with (hx | hx)
      · exact hx ▸ hlt
      · exact Nat.lt_trans hlt (h.1 x hx)
    · split
      · rw [List.map_cons, List.pairwise_cons]; exact h
      · rename_i h1 h2
        rw [List.map_cons, List.pairwise_cons]
        refine ⟨?_, ih h.2⟩
        intro x hx
        obtain ⟨p, hp, rfl⟩ := List.mem_map.1 hx
        rcases mem_insertT hp with (hp | hp)
        · exact h.1 _ (List.mem_map.2 ⟨p, hp, rfl⟩)
        · subst hp
          show q.1 < g
          omega

/-- a name beyond all existing ones goes to the end of the listing -/
theorem insertT_last (g : Nat) (t : TableDir) (ts : List (Nat × TableDir)) (h : ∀ p ∈ ts, p.1 < g) :
    insertT g t ts = ts ++ [(g, t)] := by
  induction ts with
  | nil => rfl
  | cons q r ih =>
    have hq := h q List.mem_cons_self
    simp only [insertT]
    rw [if_neg (by omega), if_neg (by omega), ih (fun p hp => h p (List.mem_cons_of_mem _ hp))]
    rfl

theorem lookupT_none {g : Nat} {ts : List (Nat × TableDir)} :
    lookupT g ts = none ↔ ∀ p ∈ ts, p.1 ≠ g := by
  unfold lookupT
  rw [Option.map_eq_none_iff, List.find?_eq_none]
  constructor
  · intro h p hp; simpa using h p hp
  · intro h p hp; simpa using h p hp

theorem lookupT_some {g : Nat} {ts : List (Nat × TableDir)} {t : TableDir} (h : lookupT g ts = some t) :
    (g, t) ∈ ts := by
  unfold lookupT at h
  obtain ⟨p, hp, rfl⟩ := Option.map_eq_some_iff.1 h
  have h1 := List.mem_of_find?_eq_some hp
  have h2 := List.find?_some hp
  have : p.1 = g := by simpa using h2
  rw [← this]; exact h1

/-- in a listing without repeated names, membership determines the lookup -/
theorem lookupT_of_mem {g : Nat} {t : TableDir} {ts : List (Nat × TableDir)}
    (hs : (ts.map (·.1)).Pairwise (· < ·)) (h : (g, t) ∈ ts) : lookupT g ts = some t := by
  induction ts with
  | nil => cases h
  | cons q r ih =>
    rw [List.map_cons, List.pairwise_cons] at hs
    rcases List.mem_cons.1 h with (h | h)
    · subst h; simp [lookupT]
    · have : q.1 < g := hs.1 g (List.mem_map.2 ⟨(g, t), h, rfl⟩)
      have hne : (q.1 == g) = false := by simp; omega
      have := ih hs.2 h
      unfold lookupT at this ⊢
      rw [List.find?_cons, hne]; exact this

theorem updT_id_of_absent (g : Nat) (f : TableDir → TableDir) (ts : List (Nat × TableDir))
    (h : ∀ p ∈ ts, p.1 ≠ g) : updT g f ts = ts := by
  induction ts with
  | nil => rfl
  | cons q r ih =>
    have hq := h q List.mem_cons_self
    have : (q.1 == g) = false := by simpa using hq
    simp only [updT, List.map_cons, this] at ih ⊢
    rw [ih (fun p hp => h p (List.mem_cons_of_mem _ hp))]
    rfl

theorem updT_append (g : Nat) (f : TableDir → TableDir) (a b : List (Nat × TableDir)) :
    updT g f (a ++ b) = updT g f a ++ updT g f b := by simp [updT]

theorem eraseT_id_of_absent (g : Nat) (ts : List (Nat × TableDir)) (h : ∀ p ∈ ts, p.1 ≠ g) : eraseT g ts = ts := by
  unfold eraseT
  rw [List.filter_eq_self]
  intro p hp; simpa using h p hp

theorem eraseT_append (g : Nat) (a b : List (Nat × TableDir)) : eraseT g (a ++ b) = eraseT g a ++ eraseT g b := by
  simp [eraseT]

theorem eraseT_sorted (g : Nat) (ts : List (Nat × TableDir)) (h : (ts.map (·.1)).Pairwise (· < ·)) :
    ((eraseT g ts).map (·.1)).Pairwise (· < ·) :=
  List.Pairwise.sublist (List.Sublist.map _ List.filter_sublist) h

theorem filter_sorted (q : Nat × TableDir → Bool) (ts : List (Nat × TableDir))
    (h : (ts.map (·.1)).Pairwise (· < ·)) : ((ts.filter q).map (·.1)).Pairwise (· < ·) :=
  List.Pairwise.sublist (List.Sublist.map _ List.filter_sublist) h

/-- a filter on names that rejects `g` does not see what happens to `g` -/
theorem filter_updT (q : Nat → Bool) (g : Nat) (f : TableDir → TableDir) (ts : List (Nat × TableDir))
    (hq : q g = false) : (updT g f ts).filter (fun p => q p.1) = ts.filter (fun p => q p.1) := by
  induction ts with
  | nil => rfl
  | cons p r ih =>
    have hc : updT g f (p :: r) = (if p.1 == g then (p.1, f p.2) else p) :: updT g f r := rfl
    rw [hc]
    by_cases hp : p.1 = g
    · have h1 : (p.1 == g) = true := by simpa using hp
      rw [h1, if_pos rfl, List.filter_cons_of_neg (by simp [hp, hq]), List.filter_cons_of_neg (by simp [hp, hq])]
      exact ih
    · have h1 : (p.1 == g) = false := by simpa using hp
      rw [h1, if_neg (by simp), List.filter_cons, List.filter_cons, ih]

theorem filter_eraseT (q : Nat → Bool) (g : Nat) (ts : List (Nat × TableDir))
    (hq : q g = false) : (eraseT g ts).filter (fun p => q p.1) = ts.filter (fun p => q p.1) := by
  induction ts with
  | nil => rfl
  | cons p r ih =>
    simp only [eraseT] at ih ⊢
    by_cases hp : p.1 = g
    · simp only [List.filter_cons, hp, bne_self_eq_false, Bool.false_eq_true, if_false, hq]
      exact ih
    · have : (p.1 != g) = true := by simpa using hp
      simp only [List.filter_cons, this, if_true]
      rw [ih]

/-! ## loaded tables -/

theorem tblsOf_nil : tblsOf [] = [] := rfl

theorem tblsOf_cons_complete (g : Nat) (c : Layer) (ts : List (Nat × TableDir)) :
    tblsOf ((g, .complete c) :: ts) = { gen := g, cells := c } :: tblsOf ts := by
  simp [tblsOf]

theorem tblsOf_cons_part (g : Nat) (b : Bool) (ts : List (Nat × TableDir)) :
    tblsOf ((g, .part b) :: ts) = tblsOf ts := by
  simp [tblsOf]

theorem tblsOf_append (a b : List (Nat × TableDir)) : tblsOf (a ++ b) = tblsOf a ++ tblsOf b := by
  simp [tblsOf]

theorem tblsOf_filter_complete (ts : List (Nat × TableDir)) :
    tblsOf (ts.filter (fun p => isComplete p.2)) = tblsOf ts := by
  induction ts with
  | nil => rfl
  | cons p r ih =>
    obtain ⟨g, t⟩ := p
    cases t with
    | part b =>
      rw [List.filter_cons_of_neg (by simp [isComplete]), tblsOf_cons_part, ih]
    | complete c =>
      rw [List.filter_cons_of_pos (by simp [isComplete]), tblsOf_cons_complete, tblsOf_cons_complete, ih]

/-- the directory listing of a list of live tables -/
def encT (ts : List Tbl) : List (Nat × TableDir) := ts.map fun t => (t.gen, .complete t.cells)

theorem tblsOf_encT (ts : List Tbl) : tblsOf (encT ts) = ts := by
  induction ts with
  | nil => rfl
  | cons t r ih => simp only [encT, List.map_cons] at ih ⊢; rw [tblsOf_cons_complete, ih]

theorem keys_encT (ts : List Tbl) : (encT ts).map (·.1) = ts.map (·.gen) := by
  simp [encT]

theorem encT_append (a b : List Tbl) : encT (a ++ b) = encT a ++ encT b := by simp [encT]

theorem tblsOf_insertT_part (g : Nat) (b : Bool) (ts : List (Nat × TableDir)) :
    tblsOf (insertT g (.part b) ts) = tblsOf ts := by
  induction ts with
  | nil => rfl
  | cons q r ih =>
    simp only [insertT]
    split
    · rw [tblsOf_cons_part]
    · split
      · rfl
      · obtain ⟨g', t⟩ := q
        cases t with
        | part b' => rw [tblsOf_cons_part, tblsOf_cons_part, ih]
        | complete c => rw [tblsOf_cons_complete, tblsOf_cons_complete, ih]

theorem keys_tblsOf_sub (ts : List (Nat × TableDir)) : ((tblsOf ts).map (·.gen)).Sublist (ts.map (·.1)) := by
  induction ts with
  | nil => exact List.Sublist.slnil
  | cons p r ih =>
    obtain ⟨g, t⟩ := p
    cases t with
    | part b => rw [tblsOf_cons_part]; exact List.Sublist.cons _ ih
    | complete c => rw [tblsOf_cons_complete]; exact List.Sublist.cons_cons _ ih

theorem mem_tblsOf {ts : List (Nat × TableDir)} {t : Tbl} (h : t ∈ tblsOf ts) : (t.gen, .complete t.cells) ∈ ts := by
  induction ts with
  | nil => cases h
  | cons p r ih =>
    obtain ⟨g, x⟩ := p
    cases x with
    | part b => rw [tblsOf_cons_part] at h; exact List.mem_cons_of_mem _ (ih h)
    | complete c =>
      rw [tblsOf_cons_complete] at h
      rcases List.mem_cons.1 h with (h | h)
      · subst h; exact List.mem_cons_self
      · exact List.mem_cons_of_mem _ (ih h)

/-! ## generations -/

theorem le_maxGen (ts : List Tbl) (t : Tbl) (h : t ∈ ts) : t.gen ≤ maxGen ts :=
  foldl_max_le _ 0 _ (Or.inr (List.mem_map.2 ⟨t, h, rfl⟩))

/-! ## replayed mutations -/

theorem applyMuts_nil (l : Layer) : applyMuts l [] = l := rfl

theorem applyMuts_cons (l : Layer) (m : Mutation) (ms : List Mutation) :
    applyMuts l (m :: ms) = applyMuts (m.apply l) ms := rfl

theorem applyMuts_append (l : Layer) (a b : List Mutation) :
    applyMuts l (a ++ b) = applyMuts (applyMuts l a) b := by
  simp [applyMuts, List.foldl_append]

def Mutation.key : Mutation → Key
  | .put k _ => k
  | .del k => k

def Mutation.val : Mutation → GoBytes
  | .put _ v => some v
  | .del _ => none

theorem apply_eq_set (l : Layer) (m : Mutation) : m.apply l = l.set (Mutation.key m) (Mutation.val m) := by
  cases m <;> rfl

theorem get_apply (l : Layer) (m : Mutation) (k : Key) :
    Layer.get (m.apply l) k = if k = Mutation.key m then some (Mutation.val m) else Layer.get l k := by
  rw [apply_eq_set, layerGet_set]

/-- replaying on top of a memstore: what the records bind wins, the rest is the memstore's -/
theorem get_applyMuts (l : Layer) (ms : List Mutation) (k : Key) :
    Layer.get (applyMuts l ms) k = (Layer.get (applyMuts [] ms) k).or (Layer.get l k) := by
  induction ms generalizing l with
  | nil => simp [applyMuts_nil, layerGet_nil]
  | cons m ms ih =>
    rw [applyMuts_cons, ih, applyMuts_cons, ih (m.apply [])]
    rw [get_apply, get_apply]
    by_cases h : k = Mutation.key m
    · simp [h]
    · simp [h, layerGet_nil]

theorem get_applyMuts_append (a b : List Mutation) (k : Key) :
    Layer.get (applyMuts [] (a ++ b)) k = (Layer.get (applyMuts [] b) k).or (Layer.get (applyMuts [] a) k) := by
  rw [applyMuts_append, get_applyMuts]

theorem applyMuts_ne_nil (l : Layer) (m : Mutation) (ms : List Mutation) : applyMuts l (m :: ms) ≠ [] := by
  induction ms generalizing l m with
  | nil => cases m <;> simp [applyMuts, Mutation.apply, Layer.set]
  | cons m' ms ih => rw [applyMuts_cons]; exact ih _ _

theorem applyMuts_eq_nil {ms : List Mutation} (h : applyMuts [] ms = []) : ms = [] := by
  cases ms with
  | nil => rfl
  | cons m ms => exact absurd h (applyMuts_ne_nil _ _ _)

/-- replayed upserts carry the logged value: validated records never produce an empty value -/
theorem applyMuts_val_ok' (ms : List Mutation) (hok : ∀ m ∈ ms, m.ok = true) :
    ∀ l : Layer, (∀ k v, Layer.get l k = some (some v) → v ≠ []) →
      ∀ k v, Layer.get (applyMuts l ms) k = some (some v) → v ≠ [] := by
  induction ms with
  | nil => intro l hl; exact hl
  | cons m ms ih =>
    intro l hl
    rw [applyMuts_cons]
    apply ih (fun m' hm' => hok m' (List.mem_cons_of_mem _ hm'))
    intro k v hk
    rw [get_apply] at hk
    by_cases hkm : k = Mutation.key m
    · rw [if_pos hkm] at hk
      have hm := hok m List.mem_cons_self
      cases m with
      | put k' v' =>
        simp only [Mutation.val, Option.some.injEq] at hk
        subst hk
        intro he; subst he
        simp [Mutation.ok] at hm
      | del k' => simp [Mutation.val] at hk
    · rw [if_neg hkm] at hk
      exact hl k v hk

theorem applyMuts_val_ok (ms : List Mutation) (hok : ∀ m ∈ ms, m.ok = true) (k : Key) (v : Bytes)
    (h : Layer.get (applyMuts [] ms) k = some (some v)) : v ≠ [] :=
  applyMuts_val_ok' ms hok [] (by intro k v h; simp [layerGet_nil] at h) k v h

theorem walMuts_nil : walMuts [] = [] := rfl
theorem walMuts_cons (f : WalFile) (fs : List WalFile) : walMuts (f :: fs) = fileMuts f ++ walMuts fs := by
  simp [walMuts]
theorem walMuts_append (a b : List WalFile) : walMuts (a ++ b) = walMuts a ++ walMuts b := by
  simp [walMuts]

end SST.Proofs.FS
