/-
The vendored buffered writer (`recordio.Writer`): closed form of `Write`, transparency, flush boundaries,
aligned mode.
-/
import SST.Model.Wal
namespace SST.Proofs
open SST

/-- the chunk a flush of a non-empty buffer hands down -/
def chunkOf (b : BufW) : Bytes :=
  if b.aligned then b.buf ++ List.replicate (b.size - b.buf.length) 0 else b.buf

theorem flush_empty (b : BufW) (h : b.buf = []) : b.flush = (b, []) := by
  simp [BufW.flush, h]

theorem flush_ne (b : BufW) (h : b.buf ≠ []) : b.flush = ({ b with buf := [] }, [chunkOf b]) := by
  have : b.buf.length ≠ 0 := by
    intro h0; exact h (List.eq_nil_of_length_eq_zero h0)
  simp [BufW.flush, this, chunkOf]

theorem flush_buf (b : BufW) : b.flush.1.buf = [] := by
  by_cases h : b.buf = []
  · rw [flush_empty b h]; exact h
  · rw [flush_ne b h]

theorem flush_size (b : BufW) : b.flush.1.size = b.size := by
  by_cases h : b.buf = []
  · rw [flush_empty b h]
  · rw [flush_ne b h]

theorem flush_aligned (b : BufW) : b.flush.1.aligned = b.aligned := by
  by_cases h : b.buf = []
  · rw [flush_empty b h]
  · rw [flush_ne b h]

theorem flush_out (b : BufW) (ha : b.aligned = false) : b.flush.2.flatten = b.buf := by
  by_cases h : b.buf = []
  · rw [flush_empty b h]; simp [h]
  · rw [flush_ne b h]; simp [chunkOf, ha]

theorem writeLoop_exit (fuel : Nat) (b : BufW) (p : Bytes) (out : List Bytes) (h : p.length ≤ b.avail) :
    BufW.writeLoop (fuel + 1) b p out = (b, p, out) := by
  have : ¬ p.length > b.avail := by omega
  simp only [BufW.writeLoop, this, if_false]

theorem writeLoop_direct (fuel : Nat) (b : BufW) (p : Bytes) (out : List Bytes) (h : p.length > b.avail)
    (hb : b.buf = []) : BufW.writeLoop (fuel + 1) b p out = BufW.writeLoop fuel b [] (out ++ [p]) := by
  simp only [BufW.writeLoop, h, if_true, hb, List.length_nil]

theorem writeLoop_fill (fuel : Nat) (b : BufW) (p : Bytes) (out : List Bytes) (h : p.length > b.avail)
    (hb : b.buf ≠ []) :
    BufW.writeLoop (fuel + 1) b p out =
      BufW.writeLoop fuel { b with buf := [] } (p.drop b.avail)
        (out ++ [chunkOf { b with buf := b.buf ++ p.take b.avail }]) := by
  have hl : b.buf.length ≠ 0 := fun h0 => hb (List.eq_nil_of_length_eq_zero h0)
  have hne : b.buf ++ p.take b.avail ≠ [] := by simp [hb]
  simp only [BufW.writeLoop, h, if_true, hl, if_false]
  rw [flush_ne _ hne]

/-- closed form of `Write` -/
theorem write_eq (b : BufW) (p : Bytes) :
    b.write p =
      if p.length ≤ b.avail then ({ b with buf := b.buf ++ p }, [])
      else if b.buf = [] then (b, [p])
      else
        let chunk := chunkOf { b with buf := b.buf ++ p.take b.avail }
        let rest := p.drop b.avail
        if rest.length > b.size then ({ b with buf := [] }, [chunk, rest])
        else ({ b with buf := rest }, [chunk]) := by
  obtain ⟨size, al, buf⟩ := b
  have e0 : ∀ (b : BufW), ([] : Bytes).length ≤ b.avail := by intro b; simp
  unfold BufW.write BufW.loopFuel
  by_cases h1 : p.length ≤ BufW.avail ⟨size, al, buf⟩
  · rw [writeLoop_exit _ _ _ _ h1, if_pos h1]
  · have h1' : p.length > BufW.avail ⟨size, al, buf⟩ := by omega
    rw [if_neg h1]
    by_cases h2 : buf = []
    · subst h2
      rw [writeLoop_direct _ _ _ _ h1' rfl, writeLoop_exit _ _ _ _ (e0 _), if_pos rfl]
      rfl
    · rw [if_neg h2, writeLoop_fill _ _ _ _ h1' h2]
      by_cases h3 : (p.drop (BufW.avail ⟨size, al, buf⟩)).length > size
      · have h3' : (p.drop (BufW.avail ⟨size, al, buf⟩)).length > BufW.avail ⟨size, al, []⟩ := by
          simpa [BufW.avail] using h3
        rw [writeLoop_direct _ _ _ _ h3' rfl, writeLoop_exit _ _ _ _ (e0 _)]
        simp only [h3, if_true, List.nil_append, List.append_nil, List.cons_append]
      · have h3' : (p.drop (BufW.avail ⟨size, al, buf⟩)).length ≤ BufW.avail ⟨size, al, []⟩ := by
          have : BufW.avail ⟨size, al, []⟩ = size := by simp [BufW.avail]
          rw [this]; omega
        rw [writeLoop_exit _ _ _ _ h3']
        simp only [h3, if_false, List.nil_append]

/-- the loop has left when the fuel of the model runs out: three iterations always suffice -/
theorem writeLoop_done (b : BufW) (p : Bytes) :
    (BufW.writeLoop BufW.loopFuel b p []).2.1.length ≤ (BufW.writeLoop BufW.loopFuel b p []).1.avail := by
  obtain ⟨size, al, buf⟩ := b
  have e0 : ∀ (b : BufW), ([] : Bytes).length ≤ b.avail := by intro b; simp
  unfold BufW.loopFuel
  by_cases h1 : p.length ≤ BufW.avail ⟨size, al, buf⟩
  · rw [writeLoop_exit _ _ _ _ h1]; exact h1
  · have h1' : p.length > BufW.avail ⟨size, al, buf⟩ := by omega
    by_cases h2 : buf = []
    · subst h2
      rw [writeLoop_direct _ _ _ _ h1' rfl, writeLoop_exit _ _ _ _ (e0 _)]; exact e0 _
    · rw [writeLoop_fill _ _ _ _ h1' h2]
      by_cases h3 : (p.drop (BufW.avail ⟨size, al, buf⟩)).length > BufW.avail ⟨size, al, []⟩
      · rw [writeLoop_direct _ _ _ _ h3 rfl, writeLoop_exit _ _ _ _ (e0 _)]; exact e0 _
      · have h3' : (p.drop (BufW.avail ⟨size, al, buf⟩)).length ≤ BufW.avail ⟨size, al, []⟩ := by omega
        rw [writeLoop_exit _ _ _ _ h3']; exact h3'

theorem write_size (b : BufW) (p : Bytes) : (b.write p).1.size = b.size := by
  rw [write_eq]; split
  · rfl
  · split
    · rfl
    · simp only []; split <;> rfl

theorem write_aligned (b : BufW) (p : Bytes) : (b.write p).1.aligned = b.aligned := by
  rw [write_eq]; split
  · rfl
  · split
    · rfl
    · simp only []; split <;> rfl

/-- the buffer never holds more than its size -/
theorem write_buf_le (b : BufW) (p : Bytes) (h : b.buf.length ≤ b.size) :
    (b.write p).1.buf.length ≤ b.size := by
  rw [write_eq]; split
  · rename_i h1; simp only [List.length_append, BufW.avail] at *; omega
  · split
    · exact h
    · simp only []; split
      · simp
      · rename_i h3; simp only []; omega

/-- one `Write`, normal mode: what was handed down plus what is buffered is what was buffered plus `p` -/
theorem write_transp (b : BufW) (p : Bytes) (ha : b.aligned = false) :
    (b.write p).2.flatten ++ (b.write p).1.buf = b.buf ++ p := by
  rw [write_eq]; split
  · simp
  · split
    · rename_i h2; simp [h2]
    · simp only []; split
      · simp [chunkOf, ha]
      · simp [chunkOf, ha]

theorem run_size (b : BufW) (ops : List BufOp) : (b.run ops).1.size = b.size := by
  induction ops generalizing b with
  | nil => rfl
  | cons op ops ih =>
    cases op with
    | write p => simp only [BufW.run]; rw [ih, write_size]
    | flush => simp only [BufW.run]; rw [ih, flush_size]

theorem run_aligned (b : BufW) (ops : List BufOp) : (b.run ops).1.aligned = b.aligned := by
  induction ops generalizing b with
  | nil => rfl
  | cons op ops ih =>
    cases op with
    | write p => simp only [BufW.run]; rw [ih, write_aligned]
    | flush => simp only [BufW.run]; rw [ih, flush_aligned]

/-- transparency from any state -/
theorem run_transp (b : BufW) (ops : List BufOp) (ha : b.aligned = false) :
    (b.run ops).2.flatten ++ (b.run ops).1.buf = b.buf ++ BufOp.logical ops := by
  induction ops generalizing b with
  | nil => simp [BufW.run, BufOp.logical]
  | cons op ops ih =>
    cases op with
    | write p =>
      have h1 := write_transp b p ha
      have h2 := ih (b.write p).1 (by rw [write_aligned]; exact ha)
      simp only [BufW.run, BufOp.logical, List.flatten_append, List.append_assoc]
      rw [h2, ← List.append_assoc, h1, List.append_assoc]
    | flush =>
      have h1 := flush_out b ha
      have h2 := ih b.flush.1 (by rw [flush_aligned]; exact ha)
      simp only [BufW.run, BufOp.logical, List.flatten_append, List.append_assoc]
      rw [h2, flush_buf, List.nil_append, h1]

theorem run_append (b : BufW) (xs ys : List BufOp) :
    b.run (xs ++ ys) = (((b.run xs).1.run ys).1, (b.run xs).2 ++ ((b.run xs).1.run ys).2) := by
  induction xs generalizing b with
  | nil => simp [BufW.run]
  | cons op xs ih =>
    cases op with
    | write p => simp only [BufW.run, List.cons_append]; rw [ih]; simp
    | flush => simp only [BufW.run, List.cons_append]; rw [ih]; simp

/-! ## aligned mode -/

theorem chunkOf_length (b : BufW) (ha : b.aligned = true) (h : b.buf.length ≤ b.size) :
    (chunkOf b).length = b.size := by
  simp only [chunkOf, ha, if_true, List.length_append, List.length_replicate]; omega

theorem flush_aligned_len (b : BufW) (ha : b.aligned = true) (h : b.buf.length ≤ b.size) :
    ∀ ch ∈ b.flush.2, ch.length = b.size := by
  by_cases hb : b.buf = []
  · rw [flush_empty b hb]; simp
  · rw [flush_ne b hb]; intro ch hch
    simp only [List.mem_singleton] at hch; subst hch; exact chunkOf_length b ha h

theorem write_aligned_len (b : BufW) (p : Bytes) (ha : b.aligned = true) (h : b.buf.length ≤ b.size)
    (hp : p.length ≤ b.size) : ∀ ch ∈ (b.write p).2, ch.length = b.size := by
  rw [write_eq]; split
  · simp
  · rename_i h1
    split
    · rename_i h2; simp only [BufW.avail, h2, List.length_nil, Nat.sub_zero] at h1; omega
    · simp only []; split
      · rename_i h3; simp only [List.length_drop] at h3; omega
      · intro ch hch
        simp only [List.mem_singleton] at hch; subst hch
        have := chunkOf_length { b with buf := b.buf ++ p.take b.avail } ha
          (by simp only [List.length_append, List.length_take, BufW.avail]; omega)
        exact this

theorem run_buf_le (b : BufW) (ops : List BufOp) (h : b.buf.length ≤ b.size) :
    (b.run ops).1.buf.length ≤ b.size := by
  induction ops generalizing b with
  | nil => exact h
  | cons op ops ih =>
    cases op with
    | write p =>
      simp only [BufW.run]
      have := ih (b.write p).1 (by rw [write_size]; exact write_buf_le b p h)
      rw [write_size] at this; exact this
    | flush =>
      simp only [BufW.run]
      have := ih b.flush.1 (by rw [flush_buf]; simp)
      rw [flush_size] at this; exact this

/-- aligned mode, every write at most one buffer long: every chunk handed down is exactly one buffer -/
theorem run_aligned_len (b : BufW) (ops : List BufOp) (ha : b.aligned = true) (h : b.buf.length ≤ b.size)
    (hp : ∀ p, BufOp.write p ∈ ops → p.length ≤ b.size) : ∀ ch ∈ (b.run ops).2, ch.length = b.size := by
  induction ops generalizing b with
  | nil => simp [BufW.run]
  | cons op ops ih =>
    cases op with
    | write p =>
      simp only [BufW.run]
      intro ch hch
      rw [List.mem_append] at hch
      rcases hch with hch | hch
      · exact write_aligned_len b p ha h (hp p (by simp)) ch hch
      · have := ih (b.write p).1 (by rw [write_aligned]; exact ha)
          (by rw [write_size]; exact write_buf_le b p h)
          (by intro q hq; rw [write_size]; exact hp q (by simp [hq])) ch hch
        rw [write_size] at this; exact this
    | flush =>
      simp only [BufW.run]
      intro ch hch
      rw [List.mem_append] at hch
      rcases hch with hch | hch
      · exact flush_aligned_len b ha h ch hch
      · have := ih b.flush.1 (by rw [flush_aligned]; exact ha) (by rw [flush_buf]; simp)
          (by intro q hq; rw [flush_size]; exact hp q (by simp [hq])) ch hch
        rw [flush_size] at this; exact this

/-- every boundary between chunks lies at a prefix of the logical stream -/
theorem run_prefix (b : BufW) (ops : List BufOp) (ha : b.aligned = false) (k : Nat) :
    ((b.run ops).2.take k).flatten <+: b.buf ++ BufOp.logical ops := by
  rw [← run_transp b ops ha]
  refine List.IsPrefix.trans ?_ (List.prefix_append _ _)
  conv => rhs; rw [← List.take_append_drop k (b.run ops).2]
  rw [List.flatten_append]; exact List.prefix_append _ _

theorem logical_append (xs ys : List BufOp) :
    BufOp.logical (xs ++ ys) = BufOp.logical xs ++ BufOp.logical ys := by
  induction xs with
  | nil => rfl
  | cons op xs ih => cases op <;> simp [BufOp.logical, ih]

/-- after a `Flush` nothing is buffered and the underlying writer has received the whole logical stream -/
theorem run_then_flush (b : BufW) (ops : List BufOp) (ha : b.aligned = false) :
    (b.run (ops ++ [.flush])).1.buf = [] ∧
    (b.run (ops ++ [.flush])).2.flatten = b.buf ++ BufOp.logical ops := by
  have h1 := run_transp b (ops ++ [.flush]) ha
  have h2 : (b.run (ops ++ [.flush])).1.buf = [] := by
    rw [run_append]; simp only [BufW.run]; exact flush_buf _
  rw [h2, List.append_nil, logical_append] at h1
  exact ⟨h2, by rw [h1]; simp [BufOp.logical]⟩

end SST.Proofs
