/-
The abstract-disk WAL (L6-fs) is a sound abstraction of the byte-level log: abstraction of cut files,
recovery on bytes = recovery on the abstraction, and byte-level events as abstract events.
-/
import SST.Spec.WalAbs
import SST.Proofs.Wal
import SST.Proofs.WalMutation
namespace SST.Proofs.WalAbs
open SST SST.FS SST.WalMut SST.WalAbs Generated

/-! ## scanning a cut record stream -/

theorem scanS_trunc (c : Compression) (hl : LawfulC c) (rs : List GoBytes) :
    ∀ (b fuel : Nat), (∀ r ∈ rs, FitsRec c r) → wholeInAux c rs b < fuel →
      scanS c fuel ((encAll c rs).take b) =
        (rs.take (wholeInAux c rs b), (encAll c (rs.take (wholeInAux c rs b))).length) := by
  induction rs with
  | nil =>
    intro b fuel _ hfu
    cases fuel with
    | zero => omega
    | succ f => simp [scanS, readNextS_nil, wholeInAux]
  | cons r rs ih =>
    intro b fuel hf hfu
    cases fuel with
    | zero => omega
    | succ f =>
      simp only [wholeInAux] at hfu ⊢
      by_cases hb : (encRecord c r).length ≤ b
      · rw [if_pos hb] at hfu ⊢
        have h2 := ih (b - (encRecord c r).length) f (fun x hx => hf x (by simp [hx])) (by omega)
        have h1 := readNextS_enc c r ((encAll c rs).take (b - (encRecord c r).length)) hl (hf r (by simp))
        rw [encAll_cons, List.take_append, List.take_of_length_le hb]
        simp only [scanS, h1, List.drop_left, h2]
        rw [Nat.add_comm 1, List.take_succ_cons]
        simp [encAll_cons]
      · rw [if_neg hb]
        have he : ∃ e, readNextS c ((encRecord c r).take b) = .error e := by
          rcases readNextS_trunc_err c r (hf r (by simp)) b (by omega) with h | h
          · exact ⟨_, h⟩
          · exact ⟨_, h⟩
        obtain ⟨e, he⟩ := he
        rw [encAll_cons, List.take_append_of_le_length (by omega)]
        simp [scanS, he]

/-! ## the callback over record lists -/

theorem rr_append (utf8 : Bytes → Bool) (a b : List GoBytes) :
    replayRecords utf8 (a ++ b) =
      (replayRecords utf8 a).bind fun x => (replayRecords utf8 b).map fun y => x ++ y := by
  induction a with
  | nil => simp [replayRecords]
  | cons r a ih =>
    simp only [List.cons_append, replayRecords]
    cases replayRecord utf8 r with
    | error e => rfl
    | ok x =>
      cases x with
      | skip => exact ih
      | «mut» m =>
        simp only [ih]
        cases replayRecords utf8 a with
        | none => rfl
        | some xa =>
          cases replayRecords utf8 b with
          | none => rfl
          | some xb => rfl

theorem rr_of_decodes (utf8 : Bytes → Bool) (l : List GoBytes) (h : ∀ r ∈ l, Decodes utf8 r) :
    ∃ ms, replayRecords utf8 l = some ms := by
  induction l with
  | nil => exact ⟨[], rfl⟩
  | cons r l ih =>
    obtain ⟨ms, hms⟩ := ih (fun x hx => h x (by simp [hx]))
    obtain ⟨x, hx⟩ := h r (by simp)
    cases x with
    | skip => exact ⟨ms, by simp [replayRecords, hx, hms]⟩
    | «mut» m => exact ⟨m :: ms, by simp [replayRecords, hx, hms]⟩

/-- decoding a longer prefix of a record list extends the decoding of a shorter one -/
theorem rr_take_mono (utf8 : Bytes → Bool) (l : List GoBytes) (k k' : Nat) (hk : k ≤ k') (x y : List Mutation)
    (hx : replayRecords utf8 (l.take k) = some x) (hy : replayRecords utf8 (l.take k') = some y) :
    ∃ z, y = x ++ z := by
  have e : l.take k' = l.take k ++ (l.take k').drop k := by
    have := List.take_append_drop k (l.take k')
    rw [List.take_take, Nat.min_eq_left hk] at this
    exact this.symm
  rw [e, rr_append, hx] at hy
  simp only [Option.bind_some] at hy
  cases hz : replayRecords utf8 ((l.take k').drop k) with
  | none => rw [hz] at hy; simp at hy
  | some z => rw [hz] at hy; simp at hy; exact ⟨z, hy.symm⟩

/-! ## the abstraction of a cut file -/

/-- the abstract state of file `j` holding the first `n` bytes of the complete file with records `rs` -/
def absCut (c : Compression) (utf8 : Bytes → Bool) (j : Nat) (rs : List GoBytes) (n : Nat) : Option WalFile :=
  if n < fileHeaderSize then some { num := j, header := false }
  else (replayRecords utf8 (rs.take (wholeIn c rs n))).map fun ms =>
    { num := j, header := true, recs := ms,
      torn := decide (fileHeaderSize + (encAll c (rs.take (wholeIn c rs n))).length < n) }

theorem absFile_cut (cOf : Nat → Compression) (utf8 : Bytes → Bool) (c : Compression) (ct : Nat)
    (hc : cOf ct = c) (hl : LawfulC c) (hct : ct ≤ maxCompression) (rs : List GoBytes)
    (hf : ∀ r ∈ rs, FitsRec c r) (j n : Nat) (hn : n ≤ (fileBytes c ct rs).length) :
    absFile cOf utf8 (j, (fileBytes c ct rs).take n) = absCut c utf8 j rs n := by
  have h8 : fileHeaderSize = 8 := rfl
  have hlen : ((fileBytes c ct rs).take n).length = n := by rw [List.length_take]; omega
  unfold absFile absCut
  by_cases hn8 : n < fileHeaderSize
  · rw [if_pos hn8]
    have : parseFileHeader ((fileBytes c ct rs).take n) =
        if n = 0 then .error .eof else .error .unexpectedEof := by
      unfold parseFileHeader
      rw [hlen, if_pos hn8]
    rw [this]
    by_cases h0 : n = 0
    · rw [if_pos h0]; rfl
    · rw [if_neg h0]; rfl
  · rw [if_neg hn8]
    simp only [parseFileHeader_fileBytes_take c ct rs n hct (by omega), hc]
    have htake : (fileBytes c ct rs).take n =
        fileHeader currentVersion ct ++ (encAll c rs).take (n - fileHeaderSize) := by
      unfold fileBytes
      rw [List.take_append, List.take_of_length_le (by rw [fileHeader_length]; omega), fileHeader_length, h8]
    have hd : ((fileBytes c ct rs).take n).drop fileHeaderSize = (encAll c rs).take (n - fileHeaderSize) := by
      rw [htake]; exact List.drop_left' (fileHeader_length _ _)
    have hscan : scan c ((fileBytes c ct rs).take n) =
        (rs.take (wholeIn c rs n), (encAll c (rs.take (wholeIn c rs n))).length) := by
      unfold scan wholeIn
      rw [hd, hlen]
      apply scanS_trunc c hl rs _ _ hf
      have h1 := wholeInAux_le_budget c rs (n - fileHeaderSize)
      omega
    rw [hscan, hlen]

theorem absFile_complete (cOf : Nat → Compression) (utf8 : Bytes → Bool) (c : Compression) (ct : Nat)
    (hc : cOf ct = c) (hl : LawfulC c) (hct : ct ≤ maxCompression) (rs : List GoBytes)
    (hf : ∀ r ∈ rs, FitsRec c r) (j : Nat) :
    absFile cOf utf8 (j, fileBytes c ct rs) =
      (replayRecords utf8 rs).map fun ms => { num := j, header := true, recs := ms, torn := false } := by
  have h8 : fileHeaderSize = 8 := rfl
  have hl8 : (fileBytes c ct rs).length = 8 + (encAll c rs).length := by
    simp [fileBytes, fileHeader_length]
  have := absFile_cut cOf utf8 c ct hc hl hct rs hf j (fileBytes c ct rs).length (Nat.le_refl _)
  rw [List.take_length] at this
  rw [this]
  unfold absCut
  rw [if_neg (by omega), wholeIn_all c ct rs _ (Nat.le_refl _), List.take_length]
  have : decide (fileHeaderSize + (encAll c rs).length < (fileBytes c ct rs).length) = false := by
    simp; omega
  rw [this]

/-! ## recovery on the bytes = recovery on the abstraction -/

theorem absWal_length (cOf : Nat → Compression) (utf8 : Bytes → Bool) (d : DirN) (W : List WalFile)
    (h : absWal cOf utf8 d = some W) : W.length = d.length := by
  induction d generalizing W with
  | nil => simp [absWal] at h; subst h; rfl
  | cons e es ih =>
    simp only [absWal] at h
    cases h1 : absFile cOf utf8 e with
    | none => simp [h1] at h
    | some f =>
      cases h2 : absWal cOf utf8 es with
      | none => simp [h1, h2] at h
      | some fs =>
        simp [h1, h2] at h; subst h
        simp [ih fs h2]

theorem absRecovery_cons_complete (f g : WalFile) (rest : List WalFile) (hh : f.header = true)
    (ht : f.torn = false) :
    absRecovery (f :: g :: rest) = (absRecovery (g :: rest)).map (f.recs ++ ·) := by
  unfold absRecovery
  have e1 : walReadable (f :: g :: rest) = walReadable (g :: rest) := by
    simp [walReadable, hh, ht]
  have e2 : walMuts (f :: g :: rest) = f.recs ++ walMuts (g :: rest) := by
    simp [walMuts, fileMuts, hh]
  rw [e1, e2]
  split <;> rfl

theorem absRecovery_single (f : WalFile) : absRecovery [f] = some (fileMuts f) := by
  simp [absRecovery, walReadable, walMuts]

theorem wholeIn_small (c : Compression) (rs : List GoBytes) (n : Nat) (h : n < fileHeaderSize) :
    wholeIn c rs n = 0 := by
  have := wholeInAux_le_budget c rs (n - fileHeaderSize)
  unfold wholeIn; omega

theorem refine_ks (cOf : Nat → Compression) (utf8 : Bytes → Bool) (c : Compression) (ct : Nat)
    (hc : cOf ct = c) (hl : LawfulC c) (hct : ct ≤ maxCompression) (full : List (List GoBytes))
    (hf : FitsAll c full) (ks : List Nat) (j : Nat) (b : Bytes) (hb : b <+: fileOf c ct full j) :
    (absWal cOf utf8 (ks.map (fun i => (i, fileOf c ct full i)) ++ [(j, b)])).bind absRecovery =
      replayRecords utf8 ((ks.map (fun i => full.getD i [])).flatten ++
        (full.getD j []).take (wholeIn c (full.getD j []) b.length)) := by
  induction ks with
  | nil =>
    have hb' : b = (fileBytes c ct (full.getD j [])).take b.length := List.prefix_iff_eq_take.mp hb
    have hle : b.length ≤ (fileBytes c ct (full.getD j [])).length := hb.length_le
    have hcut := absFile_cut cOf utf8 c ct hc hl hct (full.getD j []) (fits_getD c full hf j) j b.length hle
    rw [← hb'] at hcut
    simp only [List.map_nil, List.nil_append, List.flatten_nil, absWal, hcut]
    unfold absCut
    by_cases h8 : b.length < fileHeaderSize
    · rw [if_pos h8, wholeIn_small c _ _ h8]
      simp [absRecovery_single, fileMuts, replayRecords]
    · rw [if_neg h8]
      cases replayRecords utf8 ((full.getD j []).take (wholeIn c (full.getD j []) b.length)) with
      | none => rfl
      | some ms => simp [absRecovery_single, fileMuts]
  | cons k ks ih =>
    have hk := absFile_complete cOf utf8 c ct hc hl hct (full.getD k []) (fits_getD c full hf k) k
    simp only [List.map_cons, List.cons_append, absWal, List.flatten_cons, List.append_assoc]
    rw [show fileOf c ct full k = fileBytes c ct (full.getD k []) from rfl, hk, rr_append]
    cases hr : replayRecords utf8 (full.getD k []) with
    | none => rfl
    | some ms =>
      simp only [Option.map_some, Option.bind_some]
      rw [← ih]
      cases hw : absWal cOf utf8 (ks.map (fun i => (i, fileOf c ct full i)) ++ [(j, b)]) with
      | none => rfl
      | some W =>
        have hlen := absWal_length cOf utf8 _ W hw
        cases W with
        | nil => simp at hlen
        | cons g rest =>
          simp only [Option.bind_some]
          rw [absRecovery_cons_complete _ g rest rfl rfl]

/-- For every directory the appender can leave behind at a kill (`Img`: only the last file incomplete), recovery
on the bytes (replayer + unmarshal + dispatch) and recovery on the abstract files (`walReadable`, `walMuts`)
agree: both fail or both replay the same mutations in the same order. -/
theorem replay_refines_abstract (cOf : Nat → Compression) (utf8 : Bytes → Bool) (c : Compression) (ct : Nat)
    (hc : cOf ct = c) (hl : LawfulC c) (hct : ct ≤ maxCompression) (full : List (List GoBytes))
    (hf : FitsAll c full) (hm : full.length ≤ maxWalFiles) (d : DirN)
    (hd : Img (fileOf c ct full) full.length d) :
    byteRecovery cOf utf8 d = (absWal cOf utf8 d).bind absRecovery := by
  unfold byteRecovery
  rw [replay_img cOf c ct hc hl hct full hf hm d hd]
  rcases hd with rfl | ⟨j, b, hj, hb, rfl⟩
  · simp [imgRecords, absWal, absRecovery, walReadable, walMuts, replayRecords]
  · simp only [imgRecords_snoc]
    unfold completeDir
    rw [refine_ks cOf utf8 c ct hc hl hct full hf _ j b hb, range_map_getD full j (by omega)]

/-! ## byte-level events as abstract events -/

/-- the callback turns the record into a mutation (what `PutBytes`/`DeleteBytes` log always does) -/
def DecodesMut (utf8 : Bytes → Bool) (r : GoBytes) : Prop := ∃ m, replayRecord utf8 r = .ok (.mut m)

theorem rr_of_decodesMut (utf8 : Bytes → Bool) (l : List GoBytes) (h : ∀ r ∈ l, DecodesMut utf8 r) :
    ∃ ms, replayRecords utf8 l = some ms ∧ ms.length = l.length := by
  induction l with
  | nil => exact ⟨[], rfl, rfl⟩
  | cons r l ih =>
    obtain ⟨ms, hms, hlen⟩ := ih (fun x hx => h x (by simp [hx]))
    obtain ⟨m, hm⟩ := h r (by simp)
    exact ⟨m :: ms, by simp [replayRecords, hm, hms], by simp [hlen]⟩

theorem absFile_num (cOf : Nat → Compression) (utf8 : Bytes → Bool) (e : Nat × Bytes) (f : WalFile)
    (h : absFile cOf utf8 e = some f) : f.num = e.1 := by
  unfold absFile at h
  split at h
  · split at h
    · simp at h; subst h; rfl
    · simp at h
  · simp only [Option.map_eq_some_iff] at h
    obtain ⟨ms, _, rfl⟩ := h
    rfl

theorem absWal_append (cOf : Nat → Compression) (utf8 : Bytes → Bool) (x y : DirN) :
    absWal cOf utf8 (x ++ y) =
      (absWal cOf utf8 x).bind fun X => (absWal cOf utf8 y).map fun Y => X ++ Y := by
  induction x with
  | nil => cases h : absWal cOf utf8 y <;> simp [absWal, h]
  | cons e es ih =>
    simp only [List.cons_append, absWal, ih]
    cases absFile cOf utf8 e with
    | none => rfl
    | some f =>
      cases absWal cOf utf8 es with
      | none => rfl
      | some X =>
        cases absWal cOf utf8 y with
        | none => rfl
        | some Y => rfl

theorem absWal_single (cOf : Nat → Compression) (utf8 : Bytes → Bool) (e : Nat × Bytes) :
    absWal cOf utf8 [e] = (absFile cOf utf8 e).map fun f => [f] := by
  simp only [absWal]
  cases absFile cOf utf8 e <;> rfl

theorem absWal_nums (cOf : Nat → Compression) (utf8 : Bytes → Bool) (d : DirN) (W : List WalFile)
    (h : absWal cOf utf8 d = some W) : W.map (·.num) = d.map (·.1) := by
  induction d generalizing W with
  | nil => simp [absWal] at h; subst h; rfl
  | cons e es ih =>
    simp only [absWal] at h
    cases h1 : absFile cOf utf8 e with
    | none => simp [h1] at h
    | some f =>
      cases h2 : absWal cOf utf8 es with
      | none => simp [h1, h2] at h
      | some fs =>
        simp [h1, h2] at h; subst h
        simp [ih fs h2, absFile_num cOf utf8 e f h1]

theorem insertW_end (x : WalFile) (W : List WalFile) (h : ∀ y ∈ W, y.num < x.num) :
    insertW x W = W ++ [x] := by
  induction W with
  | nil => rfl
  | cons y r ih =>
    have hy := h y (by simp)
    simp only [insertW]
    rw [if_neg (by omega), if_neg (by omega), ih (fun z hz => h z (by simp [hz]))]
    rfl

/-- the three events that change one file's abstract state -/
def fileEv (x : WalFile) : Ev → WalFile
  | .walHeader _ => { x with header := true }
  | .walAppend _ m => if x.header then { x with recs := x.recs ++ [m], torn := false } else x
  | .walTorn _ => { x with torn := true }
  | _ => x

def IsFileEv (f : Nat) : Ev → Prop
  | .walHeader n => n = f
  | .walAppend n _ => n = f
  | .walTorn n => n = f
  | _ => False

theorem updW_last (f : Nat) (g : WalFile → WalFile) (Wpre : List WalFile) (a : WalFile)
    (hpre : ∀ y ∈ Wpre, y.num ≠ f) (ha : a.num = f) : updW f g (Wpre ++ [a]) = Wpre ++ [g a] := by
  unfold updW
  rw [List.map_append]
  congr 1
  · conv => rhs; rw [← List.map_id Wpre]
    apply List.map_congr_left
    intro y hy
    have := hpre y hy
    simp [this]
  · simp [ha]

theorem fileEv_num (x : WalFile) (e : Ev) : (fileEv x e).num = x.num := by
  cases e <;> simp [fileEv]
  split <;> rfl

theorem applyEvs_file (f : Nat) (Wpre : List WalFile) (L : List Ev) (hL : ∀ e ∈ L, IsFileEv f e) :
    ∀ (D : Disk) (a : WalFile), D.wal = Wpre ++ [a] → (∀ y ∈ Wpre, y.num ≠ f) → a.num = f →
      (applyEvs D L).wal = Wpre ++ [L.foldl fileEv a] ∧ (applyEvs D L).walDir = D.walDir := by
  induction L with
  | nil => intro D a h _ _; exact ⟨h, rfl⟩
  | cons e L ih =>
    intro D a hD hpre ha
    have he := hL e (by simp)
    have hstep : (applyEv D e).wal = Wpre ++ [fileEv a e] ∧ (applyEv D e).walDir = D.walDir := by
      cases e with
      | walHeader n =>
        simp only [IsFileEv] at he; subst he
        refine ⟨?_, rfl⟩
        show updW _ _ D.wal = _
        rw [hD]
        exact updW_last _ _ _ _ hpre ha
      | walAppend n m =>
        simp only [IsFileEv] at he; subst he
        refine ⟨?_, rfl⟩
        show updW _ _ D.wal = _
        rw [hD]
        exact updW_last _ _ _ _ hpre ha
      | walTorn n =>
        simp only [IsFileEv] at he; subst he
        refine ⟨?_, rfl⟩
        show updW _ _ D.wal = _
        rw [hD]
        exact updW_last _ _ _ _ hpre ha
      | _ => simp [IsFileEv] at he
    have := ih (fun x hx => hL x (by simp [hx])) (applyEv D e) (fileEv a e) hstep.1 hpre
      (by rw [fileEv_num]; exact ha)
    simp only [applyEvs, List.foldl_cons] at this ⊢
    exact ⟨this.1, by rw [this.2, hstep.2]⟩

theorem foldl_appends (x : WalFile) (hh : x.header = true) (f : Nat) (z : List Mutation) :
    (z.map (Ev.walAppend f)).foldl fileEv x =
      { x with recs := x.recs ++ z, torn := if z = [] then x.torn else false } := by
  induction z generalizing x with
  | nil => simp
  | cons m z ih =>
    simp only [List.map_cons, List.foldl_cons, fileEv, hh, if_true]
    rw [ih _ rfl]
    simp

theorem fileIn_img (F : Nat → Bytes) (f : Nat) (b : Bytes) : fileIn (completeDir F f ++ [(f, b)]) f = b := by
  unfold fileIn
  have : (completeDir F f).find? (fun e => e.1 == f) = none := by
    rw [List.find?_eq_none]
    intro x hx
    simp only [completeDir, List.mem_map, List.mem_range] at hx
    obtain ⟨i, hi, rfl⟩ := hx
    simp; omega
  rw [List.find?_append, this]
  simp

theorem absCut_small (c : Compression) (utf8 : Bytes → Bool) (f : Nat) (rs : List GoBytes) (n : Nat)
    (h : n < fileHeaderSize) : absCut c utf8 f rs n = some { num := f, header := false } := by
  unfold absCut; rw [if_pos h]

/-- the abstract state of a cut file whose header is complete -/
def cutFile (c : Compression) (f : Nat) (rs : List GoBytes) (n : Nat) (x : List Mutation) : WalFile :=
  { num := f, header := true, recs := x,
    torn := decide (fileHeaderSize + (encAll c (rs.take (wholeIn c rs n))).length < n) }

theorem absCut_big (c : Compression) (utf8 : Bytes → Bool) (f : Nat) (rs : List GoBytes) (n : Nat)
    (h : ¬ n < fileHeaderSize) (hdec : ∀ r ∈ rs, DecodesMut utf8 r) :
    ∃ x, replayRecords utf8 (rs.take (wholeIn c rs n)) = some x ∧ x.length = wholeIn c rs n ∧
      absCut c utf8 f rs n = some (cutFile c f rs n x) := by
  obtain ⟨x, hx, hlen⟩ := rr_of_decodesMut utf8 (rs.take (wholeIn c rs n))
    (fun r hr => hdec r (List.mem_of_mem_take hr))
  refine ⟨x, hx, ?_, ?_⟩
  · rw [hlen, List.length_take]
    have := wholeIn_le_length c rs n
    omega
  · unfold absCut; rw [if_neg h, hx]; rfl

theorem fold_from_headerless (f : Nat) (y : List Mutation) (t' : Bool) :
    ([Ev.walHeader f] ++ y.map (Ev.walAppend f) ++ (if t' then [Ev.walTorn f] else [])).foldl fileEv
      { num := f, header := false } = { num := f, header := true, recs := y, torn := t' } := by
  rw [List.append_assoc, List.foldl_append, List.foldl_append]
  simp only [List.foldl_cons, List.foldl_nil, fileEv]
  rw [foldl_appends _ rfl]
  cases t' <;> cases y <;> simp [fileEv]

theorem fold_from_header (f : Nat) (x z : List Mutation) (t t' : Bool)
    (h : z = [] → t' = false → t = false) :
    (z.map (Ev.walAppend f) ++ (if t' then [Ev.walTorn f] else [])).foldl fileEv
      { num := f, header := true, recs := x, torn := t } =
      { num := f, header := true, recs := x ++ z, torn := t' } := by
  rw [List.foldl_append, foldl_appends _ rfl]
  cases t' with
  | true => simp [fileEv]
  | false =>
    by_cases hz : z = []
    · have := h hz rfl
      subst hz; subst this
      simp
    · simp [hz]

/-- the abstract events a write amounts to lead from the abstract state before to the abstract state after -/
theorem write_fold (c : Compression) (utf8 : Bytes → Bool) (f : Nat) (rs : List GoBytes)
    (hdec : ∀ r ∈ rs, DecodesMut utf8 r) (n n' : Nat) (hnn : n ≤ n') (a a' : WalFile)
    (ha : absCut c utf8 f rs n = some a) (ha' : absCut c utf8 f rs n' = some a') :
    ((if !a.header && a'.header then [Ev.walHeader f] else []) ++
      (a'.recs.drop a.recs.length).map (Ev.walAppend f) ++
      (if a'.torn then [Ev.walTorn f] else [])).foldl fileEv a = a' := by
  by_cases h' : n' < fileHeaderSize
  · have h : n < fileHeaderSize := by omega
    rw [absCut_small c utf8 f rs n h] at ha
    rw [absCut_small c utf8 f rs n' h'] at ha'
    simp only [Option.some.injEq] at ha ha'
    subst ha; subst ha'
    simp
  · obtain ⟨y, hy, hylen, hy'⟩ := absCut_big c utf8 f rs n' h' hdec
    rw [hy'] at ha'
    simp only [Option.some.injEq] at ha'
    subst ha'
    by_cases h : n < fileHeaderSize
    · rw [absCut_small c utf8 f rs n h] at ha
      simp only [Option.some.injEq] at ha
      subst ha
      exact fold_from_headerless f y _
    · obtain ⟨x, hx, hxlen, hx'⟩ := absCut_big c utf8 f rs n h hdec
      rw [hx'] at ha
      simp only [Option.some.injEq] at ha
      subst ha
      have hk : wholeIn c rs n ≤ wholeIn c rs n' := wholeIn_mono c rs n n' hnn
      obtain ⟨z, hz⟩ := rr_take_mono utf8 rs _ _ hk x y hx hy
      subst hz
      have e : ((if !(cutFile c f rs n x).header && (cutFile c f rs n' (x ++ z)).header then [Ev.walHeader f]
            else []) ++
          ((cutFile c f rs n' (x ++ z)).recs.drop (cutFile c f rs n x).recs.length).map (Ev.walAppend f) ++
          (if (cutFile c f rs n' (x ++ z)).torn then [Ev.walTorn f] else [])) =
          z.map (Ev.walAppend f) ++ (if (cutFile c f rs n' (x ++ z)).torn then [Ev.walTorn f] else []) := by
        simp [cutFile]
      rw [e]
      apply fold_from_header f x z _ _
      intro hz ht'
      subst hz
      have hkk : wholeIn c rs n = wholeIn c rs n' := by
        simp only [List.append_nil] at hylen; omega
      simp only [cutFile, decide_eq_false_iff_not] at ht' ⊢
      rw [← hkk] at ht'
      omega

theorem decodes_getD (utf8 : Bytes → Bool) (full : List (List GoBytes))
    (hdec : ∀ rs ∈ full, ∀ r ∈ rs, DecodesMut utf8 r) (i : Nat) : ∀ r ∈ full.getD i [], DecodesMut utf8 r := by
  intro r hr
  by_cases hi : i < full.length
  · rw [List.getD_eq_getElem?_getD, List.getElem?_eq_getElem hi] at hr
    exact hdec _ (List.getElem_mem hi) r hr
  · rw [List.getD_eq_getElem?_getD, List.getElem?_eq_none (by omega)] at hr; simp at hr

theorem absFile_empty (cOf : Nat → Compression) (utf8 : Bytes → Bool) (f : Nat) :
    absFile cOf utf8 (f, []) = some { num := f, header := false } := by
  simp [absFile, parseFileHeader, fileHeaderSize, isEofKind]

theorem absWal_snoc (cOf : Nat → Compression) (utf8 : Bytes → Bool) (d : DirN) (e : Nat × Bytes)
    (W : List WalFile) (f : WalFile) (hW : absWal cOf utf8 d = some W) (hf : absFile cOf utf8 e = some f) :
    absWal cOf utf8 (d ++ [e]) = some (W ++ [f]) := by
  rw [absWal_append, hW, absWal_single, hf]; rfl

theorem absWal_snoc_inv (cOf : Nat → Compression) (utf8 : Bytes → Bool) (d : DirN) (e : Nat × Bytes)
    (W : List WalFile) (h : absWal cOf utf8 (d ++ [e]) = some W) :
    ∃ Wpre a, absWal cOf utf8 d = some Wpre ∧ absFile cOf utf8 e = some a ∧ W = Wpre ++ [a] := by
  rw [absWal_append, absWal_single] at h
  cases h1 : absWal cOf utf8 d with
  | none => rw [h1] at h; simp at h
  | some Wpre =>
    cases h2 : absFile cOf utf8 e with
    | none => rw [h1, h2] at h; simp at h
    | some a =>
      rw [h1, h2] at h
      simp at h
      exact ⟨Wpre, a, rfl, rfl, h.symm⟩

/-- one admissible byte-level event: the abstraction of the directory afterwards is the abstract disk after the
abstract events the event maps to -/
theorem abs_step (cOf : Nat → Compression) (utf8 : Bytes → Bool) (c : Compression) (ct : Nat)
    (hc : cOf ct = c) (hl : LawfulC c) (hct : ct ≤ maxCompression) (full : List (List GoBytes))
    (hf : FitsAll c full) (hdec : ∀ rs ∈ full, ∀ r ∈ rs, DecodesMut utf8 r)
    (d : DirN) (e : FsEvent) (ha : AdmEv (fileOf c ct full) full.length d e)
    (D : Disk) (hDw : D.walDir = true) (hW : absWal cOf utf8 d = some D.wal) :
    absWal cOf utf8 (applyEvent d e) = some (applyEvs D (mapEv cOf utf8 d e)).wal ∧
    (applyEvs D (mapEv cOf utf8 d e)).walDir = true := by
  cases e with
  | create f =>
    have hap : applyEvs D (mapEv cOf utf8 d (.create f)) =
        { D with wal := insertW { num := f, header := false } D.wal } := by
      simp [mapEv, applyEvs, applyEv, hDw]
    rw [hap]
    refine ⟨?_, hDw⟩
    rcases ha with ⟨rfl, rfl, _⟩ | ⟨j, rfl, rfl, _⟩
    · simp only [absWal, Option.some.injEq] at hW
      rw [← hW, apply_create_zero, absWal_single, absFile_empty]
      rfl
    · rw [apply_create_next, absWal_snoc cOf utf8 _ _ _ _ hW (absFile_empty cOf utf8 (j + 1))]
      have hn := absWal_nums cOf utf8 _ _ hW
      rw [insertW_end]
      intro y hy
      have : y.num ∈ D.wal.map (·.num) := List.mem_map_of_mem hy
      rw [hn] at this
      simp only [completeDir, List.map_append, List.map_map, List.mem_append, List.mem_map, List.mem_range,
        List.map_cons, List.map_nil, List.mem_singleton, Function.comp] at this
      show y.num < j + 1
      rcases this with ⟨i, hi, rfl⟩ | h
      · omega
      · omega
  | write f bs =>
    obtain ⟨b, hfm, rfl, hp⟩ := ha
    have hrs := fits_getD c full hf f
    have hdm := decodes_getD utf8 full hdec f
    have hpb : b <+: fileOf c ct full f := List.IsPrefix.trans (List.prefix_append _ _) hp
    have hb' : b = (fileBytes c ct (full.getD f [])).take b.length := List.prefix_iff_eq_take.mp hpb
    have hbb' : b ++ bs = (fileBytes c ct (full.getD f [])).take (b ++ bs).length :=
      List.prefix_iff_eq_take.mp hp
    have hcut := absFile_cut cOf utf8 c ct hc hl hct _ hrs f b.length hpb.length_le
    have hcut' := absFile_cut cOf utf8 c ct hc hl hct _ hrs f (b ++ bs).length hp.length_le
    rw [← hb'] at hcut
    rw [← hbb'] at hcut'
    obtain ⟨Wpre, a, hWpre, ha, hDwal⟩ := absWal_snoc_inv cOf utf8 _ _ _ hW
    -- the abstract state afterwards exists
    have hex : ∃ a', absFile cOf utf8 (f, b ++ bs) = some a' := by
      rw [hcut']
      by_cases h8 : (b ++ bs).length < fileHeaderSize
      · exact ⟨_, absCut_small c utf8 f _ _ h8⟩
      · obtain ⟨y, _, _, hy⟩ := absCut_big c utf8 f _ _ h8 hdm
        exact ⟨_, hy⟩
    obtain ⟨a', ha'⟩ := hex
    have hfold := write_fold c utf8 f (full.getD f []) hdm b.length (b ++ bs).length (by simp) a a'
      (by rw [← hcut]; exact ha) (by rw [← hcut']; exact ha')
    have hmap : mapEv cOf utf8 (completeDir (fileOf c ct full) f ++ [(f, b)]) (.write f bs) =
        (if !a.header && a'.header then [Ev.walHeader f] else []) ++
          (a'.recs.drop a.recs.length).map (Ev.walAppend f) ++
          (if a'.torn then [Ev.walTorn f] else []) := by
      simp only [mapEv, fileIn_img, ha, ha']
    have hall : ∀ e ∈ mapEv cOf utf8 (completeDir (fileOf c ct full) f ++ [(f, b)]) (.write f bs),
        IsFileEv f e := by
      rw [hmap]
      intro e he
      simp only [List.mem_append, List.mem_map] at he
      rcases he with (he | ⟨m, _, rfl⟩) | he
      · split at he
        · simp at he; subst he; rfl
        · simp at he
      · rfl
      · split at he
        · simp at he; subst he; rfl
        · simp at he
    have hpre : ∀ y ∈ Wpre, y.num ≠ f := by
      intro y hy
      have hn := absWal_nums cOf utf8 _ _ hWpre
      have : y.num ∈ Wpre.map (·.num) := List.mem_map_of_mem hy
      rw [hn] at this
      simp only [completeDir, List.map_map, List.mem_map, List.mem_range, Function.comp] at this
      obtain ⟨i, hi, rfl⟩ := this
      omega
    have hres := applyEvs_file f Wpre _ hall D a hDwal hpre (absFile_num cOf utf8 _ a ha)
    rw [hmap] at hres
    rw [hfold] at hres
    rw [hmap, apply_write]
    exact ⟨by rw [hres.1]; exact absWal_snoc cOf utf8 _ _ _ _ hWpre ha', by rw [hres.2]; exact hDw⟩
  | fsync f => exact ⟨hW, hDw⟩
  | close f => exact ⟨hW, hDw⟩

theorem mapEvs_append (cOf : Nat → Compression) (utf8 : Bytes → Bool) (d : DirN) (xs ys : List FsEvent) :
    mapEvs cOf utf8 d (xs ++ ys) =
      mapEvs cOf utf8 d xs ++ mapEvs cOf utf8 (xs.foldl applyEvent d) ys := by
  induction xs generalizing d with
  | nil => rfl
  | cons x xs ih => simp only [List.cons_append, mapEvs, List.foldl_cons, ih, List.append_assoc]

theorem applyEvs_append (D : Disk) (xs ys : List Ev) : applyEvs D (xs ++ ys) = applyEvs (applyEvs D xs) ys := by
  simp [applyEvs, List.foldl_append]

/-- ... and along any admissible event sequence -/
theorem abs_run (cOf : Nat → Compression) (utf8 : Bytes → Bool) (c : Compression) (ct : Nat)
    (hc : cOf ct = c) (hl : LawfulC c) (hct : ct ≤ maxCompression) (full : List (List GoBytes))
    (hf : FitsAll c full) (hdec : ∀ rs ∈ full, ∀ r ∈ rs, DecodesMut utf8 r)
    (evs : List FsEvent) :
    ∀ (d : DirN) (D : Disk), Adm (fileOf c ct full) full.length d evs → D.walDir = true →
      absWal cOf utf8 d = some D.wal →
      absWal cOf utf8 (evs.foldl applyEvent d) = some (applyEvs D (mapEvs cOf utf8 d evs)).wal := by
  induction evs with
  | nil => intro d D _ _ hW; exact hW
  | cons e es ih =>
    intro d D ha hDw hW
    obtain ⟨h1, h2⟩ := abs_step cOf utf8 c ct hc hl hct full hf hdec d e ha.1 D hDw hW
    have := ih (applyEvent d e) (applyEvs D (mapEv cOf utf8 d e)) ha.2 h2 h1
    simp only [List.foldl_cons, mapEvs, applyEvs_append]
    exact this

/-! ## whole appender programs -/

theorem decodes_of_flatten (utf8 : Bytes → Bool) (full : List (List GoBytes))
    (h : ∀ r ∈ full.flatten, DecodesMut utf8 r) : ∀ rs ∈ full, ∀ r ∈ rs, DecodesMut utf8 r :=
  fun rs hrs r hr => h r (List.mem_flatten.mpr ⟨rs, hrs, hr⟩)

/-- `appender_events_refine`: after ANY number `n` of byte-level events of a run (create / write chunk / fsync /
close, the final `Close` included), the abstraction of the directory is the abstract disk after the abstract
events these `n` events map to. -/
theorem appender_events_refine (o : WalOpts) (c : Compression) (cOf : Nat → Compression) (utf8 : Bytes → Bool)
    (hra : ReaderAgrees cOf o c) (hl : LawfulC c) (prog : List WalOp) (hpf : ProgFits c prog)
    (hdec : ∀ r ∈ walRecords o c prog, DecodesMut utf8 r) (n : Nat) :
    absWal cOf utf8 (dirAfterN ((walEventsClosed o c prog).take n)) =
      some (applyEvs disk0 (mapEvs cOf utf8 [] ((walEventsClosed o c prog).take n))).wal := by
  obtain ⟨cl, cu, g1, g2, g3, _⟩ := run_inv o c cOf hra hl prog hpf
  obtain ⟨w', h1, _⟩ := close_inv o c _ cl cu _ g1
  rw [← walEventsClosed_eq] at h1
  have hadm := h1.adm
  rw [show cl.length + 1 = (cl ++ [cu]).length by simp] at hadm
  have hd := decodes_of_flatten utf8 (cl ++ [cu]) (by rw [g2]; exact hdec)
  exact abs_run cOf utf8 c o.ct hra.1 hl hra.2 (cl ++ [cu]) g3 hd _ [] disk0
    (adm_take _ _ [] _ n hadm) rfl rfl

/-- the abstract events of a prefix are a prefix of the abstract events of the whole run -/
theorem mapEvs_take_prefix (cOf : Nat → Compression) (utf8 : Bytes → Bool) (evs : List FsEvent) (n : Nat) :
    mapEvs cOf utf8 [] (evs.take n) <+: mapEvs cOf utf8 [] evs := by
  conv => rhs; rw [← List.take_append_drop n evs, mapEvs_append]
  exact List.prefix_append _ _

theorem rr_take_eq (utf8 : Bytes → Bool) (l : List GoBytes) (hdec : ∀ r ∈ l, DecodesMut utf8 r)
    (all : List Mutation) (hall : replayRecords utf8 l = some all) (q : Nat) :
    replayRecords utf8 (l.take q) = some (all.take (min q l.length)) := by
  obtain ⟨x, hx, hxlen⟩ := rr_of_decodesMut utf8 (l.take q) (fun r hr => hdec r (List.mem_of_mem_take hr))
  by_cases hq : q ≤ l.length
  · have h2 : replayRecords utf8 (l.take l.length) = some all := by rw [List.take_length]; exact hall
    obtain ⟨z, hz⟩ := rr_take_mono utf8 l q l.length hq x all hx h2
    rw [hx, hz, Nat.min_eq_left hq]
    rw [List.length_take, Nat.min_eq_left hq] at hxlen
    rw [← hxlen, List.take_left']
    rfl
  · rw [List.take_of_length_le (by omega), hall, Nat.min_eq_right (by omega)]
    obtain ⟨_, h1, h2⟩ := rr_of_decodesMut utf8 l hdec
    rw [hall] at h1; simp only [Option.some.injEq] at h1; subst h1
    rw [← h2, List.take_length]

/-- Every crash image of a run, seen through the abstraction: the abstract WAL exists, recovery of it succeeds
(only the last file may lack its header or end in a torn piece), and it replays a PREFIX of the issued mutations
that holds at least everything appended up to the last synchronous append that had returned. -/
theorem crash_image_abstract (o : WalOpts) (c : Compression) (cOf : Nat → Compression) (utf8 : Bytes → Bool)
    (hra : ReaderAgrees cOf o c) (hl : LawfulC c) (prog : List WalOp) (hpf : ProgFits c prog)
    (hdec : ∀ r ∈ walRecords o c prog, DecodesMut utf8 r) (issued : List Mutation)
    (hiss : replayRecords utf8 (walRecords o c prog) = some issued) (n : Nat) :
    ∃ W p, absWal cOf utf8 (dirAfterN ((walEventsClosed o c prog).take n)) = some W ∧
      walReadable W = true ∧ walMuts W = issued.take p ∧
      durableWithin o c prog n ≤ p ∧ p ≤ issued.length := by
  obtain ⟨cl, cu, g1, g2, g3, g4⟩ := run_inv o c cOf hra hl prog hpf
  obtain ⟨w', h1, _⟩ := close_inv o c _ cl cu _ g1
  rw [← walEventsClosed_eq] at h1
  obtain ⟨k1, k2⟩ := crash_core o c cOf hra hl w' cl cu _ h1 g3 n
  rw [g2] at k2
  have hadm := h1.adm
  rw [show cl.length + 1 = (cl ++ [cu]).length by simp] at hadm
  -- every record up to the last returned AppendSync is in the image (as in `replay_after_crash`)
  have hdur : durableWithin o c prog n ≤
      (imgRecords c (cl ++ [cu]) (dirAfterN ((walEventsClosed o c prog).take n))).length := by
    show durableAux (Wal.run o c prog).2.2 (Wal.run o c prog).2.1.length 0 0 n ≤ _
    apply durableAux_le _ _ _ _ _ _ (Nat.zero_le _)
    intro p hp hpn
    obtain ⟨hle, rs', hr', hlen⟩ := g4 p hp
    have htake : (walEventsClosed o c prog).take p.1 = (walEvents o c prog).take p.1 := by
      rw [walEventsClosed_eq, List.take_append_of_le_length hle]
    obtain ⟨q1, _⟩ := crash_core o c cOf hra hl w' cl cu _ h1 g3 p.1
    rw [htake, hr'] at q1
    have hrs' : rs' = imgRecords c (cl ++ [cu]) (dirAfterN ((walEvents o c prog).take p.1)) :=
      (Prod.mk.inj q1).1
    have hmono := imgRecords_mono_take c o.ct (cl ++ [cu]) _ hadm p.1 n hpn
    rw [htake, ← hrs'] at hmono
    omega
  have himg := img_take _ _ (walEventsClosed o c prog) n hadm
  have hnum := h1.num
  have hlim := h1.lim
  have href := replay_refines_abstract cOf utf8 c o.ct hra.1 hl hra.2 (cl ++ [cu]) g3
    (by simp; omega) _ himg
  have hW := appender_events_refine o c cOf utf8 hra hl prog hpf hdec n
  have hbyte : byteRecovery cOf utf8 (dirAfterN ((walEventsClosed o c prog).take n)) =
      replayRecords utf8 (imgRecords c (cl ++ [cu]) (dirAfterN ((walEventsClosed o c prog).take n))) := by
    unfold byteRecovery
    rw [show (dirAfterN ((walEventsClosed o c prog).take n)).named =
      dirAfter ((walEventsClosed o c prog).take n) from rfl, k1]
  have hq := List.prefix_iff_eq_take.mp k2
  obtain ⟨_, hi1, hilen⟩ := rr_of_decodesMut utf8 _ hdec
  rw [hiss] at hi1; simp only [Option.some.injEq] at hi1; subst hi1
  have hrr := rr_take_eq utf8 _ hdec issued hiss
    (imgRecords c (cl ++ [cu]) (dirAfterN ((walEventsClosed o c prog).take n))).length
  rw [← hq] at hrr
  rw [hbyte, hrr, hW, Option.bind_some] at href
  refine ⟨_, min (imgRecords c (cl ++ [cu]) (dirAfterN ((walEventsClosed o c prog).take n))).length
    (walRecords o c prog).length, hW, ?_, ?_, ?_, ?_⟩
  · unfold absRecovery at href
    split at href
    · assumption
    · simp at href
  · unfold absRecovery at href
    split at href
    · simp only [Option.some.injEq] at href; exact href.symm
    · simp at href
  · have := k2.length_le
    omega
  · omega

/-- the log after `Close`: the abstraction exists, is readable and replays ALL issued mutations -/
theorem closed_log_abstract (o : WalOpts) (c : Compression) (cOf : Nat → Compression) (utf8 : Bytes → Bool)
    (hra : ReaderAgrees cOf o c) (hl : LawfulC c) (prog : List WalOp) (hpf : ProgFits c prog)
    (hdec : ∀ r ∈ walRecords o c prog, DecodesMut utf8 r) (issued : List Mutation)
    (hiss : replayRecords utf8 (walRecords o c prog) = some issued) :
    ∃ W, absWal cOf utf8 (dirAfterN (walEventsClosed o c prog)) = some W ∧
      walReadable W = true ∧ walMuts W = issued := by
  obtain ⟨W, p, h1, h2, h3, _, h5⟩ :=
    crash_image_abstract o c cOf utf8 hra hl prog hpf hdec issued hiss (walEventsClosed o c prog).length
  rw [List.take_length] at h1
  refine ⟨W, h1, h2, ?_⟩
  -- after Close the byte-level replay returns everything, hence so does the abstraction
  obtain ⟨cl, cu, g1, g2, g3, _⟩ := run_inv o c cOf hra hl prog hpf
  obtain ⟨w', k1, _⟩ := close_inv o c _ cl cu _ g1
  rw [← walEventsClosed_eq] at k1
  have hadm := k1.adm
  rw [show cl.length + 1 = (cl ++ [cu]).length by simp] at hadm
  have himg := img_take _ _ (walEventsClosed o c prog) (walEventsClosed o c prog).length hadm
  rw [List.take_length] at himg
  have hnum := k1.num
  have hlim := k1.lim
  have href := replay_refines_abstract cOf utf8 c o.ct hra.1 hl hra.2 (cl ++ [cu]) g3
    (by simp; omega) _ himg
  have hrep := replay_eq_appends o c cOf hra hl prog hpf
  have hbyte : byteRecovery cOf utf8 (dirAfterN (walEventsClosed o c prog)) = some issued := by
    unfold byteRecovery
    rw [show (dirAfterN (walEventsClosed o c prog)).named = dirOf o c prog from rfl, hrep]
    exact hiss
  rw [hbyte, h1, Option.bind_some] at href
  unfold absRecovery at href
  rw [h2] at href
  simp only [if_true, Option.some.injEq] at href
  exact href.symm

/-! ## logs of database mutations -/

theorem progRecords_logProg (sync : Bool) (ms : List Mutation) :
    progRecords (logProg sync ms) = ms.map fun m => some (encMutation m) := by
  induction ms with
  | nil => rfl
  | cons m ms ih =>
    cases sync
    · simp only [logProg, List.map_cons, Bool.false_eq_true, if_false, progRecords] at ih ⊢
      rw [ih]
    · simp only [logProg, List.map_cons, if_true, progRecords] at ih ⊢
      rw [ih]

theorem logProg_length (sync : Bool) (ms : List Mutation) : (logProg sync ms).length = ms.length := by
  simp [logProg]

/-- what is needed of a list of mutations the database logs -/
structure LogOk (c : Compression) (ms : List Mutation) : Prop where
  fits : ∀ m ∈ ms, SST.Proofs.WalMut.MutFits m
  loggable : ∀ m ∈ ms, SST.Proofs.WalMut.Loggable m
  frame : ∀ m ∈ ms, FitsRec c (some (encMutation m))
  short : ms.length < maxWalFiles - 1

theorem logProg_facts (o : WalOpts) (c : Compression) (utf8 : Bytes → Bool) (sync : Bool) (ms : List Mutation)
    (h : LogOk c ms) :
    ProgFits c (logProg sync ms) ∧
    walRecords o c (logProg sync ms) = (ms.map fun m => some (encMutation m)) ∧
    (∀ r ∈ walRecords o c (logProg sync ms), DecodesMut utf8 r) ∧
    replayRecords utf8 (walRecords o c (logProg sync ms)) = some ms ∧
    NoGuard o c (logProg sync ms) := by
  obtain ⟨hng, hrec⟩ := noGuard_of_short o c (logProg sync ms) (by rw [logProg_length]; exact h.short)
  rw [progRecords_logProg] at hrec
  refine ⟨?_, hrec, ?_, ?_, hng⟩
  · intro op hop
    simp only [logProg, List.mem_map] at hop
    obtain ⟨m, hm, rfl⟩ := hop
    cases sync
    · exact h.frame m hm
    · exact h.frame m hm
  · intro r hr
    rw [hrec, List.mem_map] at hr
    obtain ⟨m, hm, rfl⟩ := hr
    exact ⟨m, SST.Proofs.WalMut.replay_encMutation utf8 m (h.fits m hm) (h.loggable m hm)⟩
  · rw [hrec]
    exact SST.Proofs.WalMut.replayRecords_enc utf8 ms (fun m hm => ⟨h.fits m hm, h.loggable m hm⟩)

theorem runFrom_ops (o : WalOpts) (c : Compression) (prog : List WalOp) (w : Wal) :
    (Wal.runFrom o c w prog).2.map (·.op) = prog := by
  induction prog generalizing w with
  | nil => rfl
  | cons op ops ih => rw [runFrom_cons]; simp [ih]

theorem durableAux_sync (ts : List OpTrace)
    (hall : ∀ t ∈ ts, (∃ r, t.op = .appendSync r) ∧ t.err = none) (ec rc best n : Nat)
    (hn : ec + (traceEvents ts).length ≤ n) :
    durableAux ts ec rc best n = if ts = [] then best else rc + ts.length := by
  induction ts generalizing ec rc best with
  | nil => rfl
  | cons t ts ih =>
    obtain ⟨⟨r, hop⟩, herr⟩ := hall t (by simp)
    rw [traceEvents_cons, List.length_append] at hn
    have hsome : t.rec?.isSome = true := by simp [OpTrace.rec?, hop, herr]
    simp only [durableAux, hsome, if_true]
    rw [if_pos (by omega), ih (fun x hx => hall x (by simp [hx])) _ _ _ (by omega)]
    simp only [hop, herr]
    by_cases hts : ts = []
    · subst hts; simp
    · simp [hts]; omega

/-- SYNCHRONOUS log: when the last `AppendSync` has returned (no `Close`, buffer state irrelevant), the abstract
WAL on disk is readable and holds EVERY issued mutation — logged before acknowledged, for every call (the
statement is for every list `ms`, hence for every prefix of a session). -/
theorem sync_log_durable (o : WalOpts) (c : Compression) (cOf : Nat → Compression) (utf8 : Bytes → Bool)
    (hra : ReaderAgrees cOf o c) (hl : LawfulC c) (ms : List Mutation) (h : LogOk c ms) :
    ∃ W, absWal cOf utf8 (dirAfterN (walEvents o c (logProg true ms))) = some W ∧
      walReadable W = true ∧ walMuts W = ms := by
  obtain ⟨f1, f2, f3, f4, f5⟩ := logProg_facts o c utf8 true ms h
  obtain ⟨W, p, h1, h2, h3, h4, h5⟩ := crash_image_abstract o c cOf utf8 hra hl (logProg true ms) f1 f3 ms f4
    (walEvents o c (logProg true ms)).length
  rw [walEventsClosed_eq, List.take_left'] at h1
  · refine ⟨W, h1, h2, ?_⟩
    rw [h3]
    -- everything is durable at that point
    have hd : durableWithin o c (logProg true ms) (walEvents o c (logProg true ms)).length =
        if ms = [] then 0 else ms.length := by
      show durableAux (Wal.run o c (logProg true ms)).2.2 (Wal.run o c (logProg true ms)).2.1.length 0 0 _ = _
      have hops := runFrom_ops o c (logProg true ms) (Wal.init o).1
      have hall : ∀ t ∈ (Wal.run o c (logProg true ms)).2.2, (∃ r, t.op = .appendSync r) ∧ t.err = none := by
        intro t ht
        refine ⟨?_, f5 t ht⟩
        have : t.op ∈ (Wal.run o c (logProg true ms)).2.2.map (·.op) := List.mem_map_of_mem ht
        rw [run_eq, hops] at this
        simp only [logProg, if_true, List.mem_map] at this
        obtain ⟨m, _, hm⟩ := this
        exact ⟨_, hm.symm⟩
      rw [durableAux_sync _ hall _ _ _ _ (by
        show _ ≤ ((Wal.run o c (logProg true ms)).2.1 ++ traceEvents (Wal.run o c (logProg true ms)).2.2).length
        simp)]
      have hlen : (Wal.run o c (logProg true ms)).2.2.length = ms.length := by
        have := congrArg List.length hops
        rw [List.length_map, logProg_length] at this
        rw [run_eq]; exact this
      by_cases hm : ms = []
      · subst hm
        have : (Wal.run o c (logProg true [])).2.2 = [] := List.eq_nil_of_length_eq_zero hlen
        simp [this]
      · have : (Wal.run o c (logProg true ms)).2.2 ≠ [] := by
          intro h0; rw [h0] at hlen; simp at hlen; exact hm (List.eq_nil_of_length_eq_zero hlen.symm)
        simp [this, hm, hlen]
    by_cases hm : ms = []
    · subst hm; simp
    · rw [hd, if_neg hm] at h4
      rw [List.take_of_length_le (by omega)]
  · rfl

/-- ASYNCHRONOUS log (and every other log): at EVERY kill point the abstract WAL is readable — complete files
followed by one file that may lack its header or end in ONE torn piece — and holds a PREFIX of the issued
mutations; after `Close` it holds all of them. -/
theorem async_log_prefix (o : WalOpts) (c : Compression) (cOf : Nat → Compression) (utf8 : Bytes → Bool)
    (hra : ReaderAgrees cOf o c) (hl : LawfulC c) (sync : Bool) (ms : List Mutation) (h : LogOk c ms) (n : Nat) :
    (∃ W p, absWal cOf utf8 (dirAfterN ((walEventsClosed o c (logProg sync ms)).take n)) = some W ∧
      walReadable W = true ∧ walMuts W = ms.take p ∧ p ≤ ms.length) ∧
    (∃ W, absWal cOf utf8 (dirAfterN (walEventsClosed o c (logProg sync ms))) = some W ∧
      walReadable W = true ∧ walMuts W = ms) := by
  obtain ⟨f1, f2, f3, f4, f5⟩ := logProg_facts o c utf8 sync ms h
  obtain ⟨W, p, h1, h2, h3, _, h5⟩ := crash_image_abstract o c cOf utf8 hra hl (logProg sync ms) f1 f3 ms f4 n
  exact ⟨⟨W, p, h1, h2, h3, h5⟩, closed_log_abstract o c cOf utf8 hra hl (logProg sync ms) f1 f3 ms f4⟩

/-- what is on disk plus what sits in the appender's write buffer is the whole log: files `0 .. num-1` complete,
and the bytes of the current file followed by the buffered bytes are its complete logical content -/
theorem disk_plus_buffer (o : WalOpts) (c : Compression) (cOf : Nat → Compression)
    (hra : ReaderAgrees cOf o c) (hl : LawfulC c) (prog : List WalOp) (hpf : ProgFits c prog) :
    ∃ (full : List (List GoBytes)) (cur : List GoBytes) (D : Bytes),
      (full ++ [cur]).flatten = walRecords o c prog ∧
      dirAfterN (walEvents o c prog) =
        completeDir (fileOf c o.ct (full ++ [cur])) full.length ++ [(full.length, D)] ∧
      D ++ (Wal.run o c prog).1.fw.w.buf = fileBytes c o.ct cur := by
  obtain ⟨cl, cu, g1, g2, _, _⟩ := run_inv o c cOf hra hl prog hpf
  obtain ⟨D, hD, hDb⟩ := g1.dir
  rw [g1.num] at hD
  exact ⟨cl, cu, D, g2, hD, hDb⟩

end SST.Proofs.WalAbs
