/-
L6-fs, interleaved (client ∥ flusher ∥ compactor): the structural invariant `S` — the disk as a function of the
threads' progress — and what it implies: the disk is well-formed and serves the write store's durable part over the
store being flushed over the live tables.
-/
import SST.Model.FSInterleave
import SST.Proofs.FSAsync
namespace SST.Proofs.FSI
open SST SST.DBM SST.FS SST.FSI SST.Proofs.DB SST.Proofs.FS

/-! ## the disk, thread by thread -/

/-- the flusher's WAL file, until it is unlinked (its last call) -/
def fFile (c : Cfg) : List WalFile :=
  match c.fl with
  | some j => if j.stage ≤ 5 then [{ num := j.on, recs := j.ro }] else []
  | none => []

/-- the file the rotation in progress has created -/
def nextFile (c : Cfg) : List WalFile :=
  match c.pc with
  | .rot2 => [{ num := c.cur + 1, header := false }]
  | .rot3 => [{ num := c.cur + 1 }]
  | _ => []

/-- the table the flusher is writing -/
def fDir (j : FJob) : List (Nat × TableDir) :=
  match j.stage with
  | 0 => []
  | 1 => [(j.g, .part false)]
  | 2 => [(j.g, .complete [])]
  | 3 => [(j.g, .part false)]
  | 4 => [(j.g, .part false)]
  | _ => [(j.g, .complete j.r)]

def fTables (c : Cfg) : List (Nat × TableDir) :=
  match c.fl with
  | some j => fDir j
  | none => []

def selState (sub : Nat) (J : Layer) (t : Tbl) : TableDir :=
  match sub with
  | 0 => .complete t.cells
  | 1 => .complete J
  | 2 => .part true
  | _ => .part false

/-- the inputs of a reflecting compaction that are still (partly) there -/
def selDirs (ins : List Tbl) (j sub : Nat) (J : Layer) : List (Nat × TableDir) :=
  match ins.drop j with
  | [] => []
  | t :: rest => (t.gen, selState sub J t) :: encT rest

/-- the directories of the live tables -/
def kTables (c : Cfg) : List (Nat × TableDir) :=
  match c.kj with
  | .reflecting npre nsel _ j sub J =>
    encT (c.tables.take npre) ++ selDirs (kIns c.tables npre nsel) j sub J ++ encT (c.tables.drop (npre + nsel))
  | _ => encT c.tables

def kComps (c : Cfg) : List CompDir :=
  match c.kj with
  | .idle => []
  | .merging npre nsel cells st =>
    (match st with
     | 0 => []
     | 1 => [{ id := kId }]
     | 2 => [{ id := kId }]
     | 3 => [{ id := kId, out := .complete cells }]
     | 4 => [{ id := kId, out := .complete cells }]
     | _ => [{ id := kId, out := .complete cells, flag := some (kMeta c.tables npre nsel) }])
  | .reflecting npre nsel cells _ _ _ => [{ id := kId, out := .complete cells, flag := some (kMeta c.tables npre nsel) }]

def curFile (c : Cfg) : WalFile := { num := c.cur, recs := c.rc, torn := c.tn }

/-- the store the flusher is writing (it is no longer the write store and not yet a table) -/
def fStore (c : Cfg) : Layer :=
  match c.fl with
  | some j => j.r
  | none => []

/-- the process memory as an L6 state (for `served`) -/
def memState (c : Cfg) : State := { w := c.w, r := fStore c, tables := c.tables, gen := c.gen, isOpen := true }

/-- well-formedness of the running compaction -/
def KWf (c : Cfg) : Prop :=
  match c.kj with
  | .idle => True
  | .merging npre nsel cells st =>
    npre + nsel ≤ c.tables.length ∧ 1 ≤ nsel ∧ st ≤ 5 ∧ cells = mergeRun (kIns c.tables npre nsel) (npre == 0)
  | .reflecting npre nsel cells j sub _ =>
    npre + nsel ≤ c.tables.length ∧ 1 ≤ nsel ∧ cells = mergeRun (kIns c.tables npre nsel) (npre == 0) ∧
      j ≤ nsel ∧ sub ≤ 3 ∧ (j = nsel → sub = 0) ∧ c.pc = .idle

/-- THE INVARIANT: the disk as a function of the three threads' progress, plus bookkeeping -/
structure S (c : Cfg) : Prop where
  tbl : c.d.tables = kTables c ++ fTables c
  comps : c.d.comps = kComps c
  walDir : c.d.walDir = true
  wal : c.d.wal = c.junk ++ fFile c ++ [curFile c] ++ nextFile c
  gensS : (c.tables.map (·.gen)).Pairwise (· < ·)
  gensLe : ∀ t ∈ c.tables, t.gen ≤ c.gen
  fwf : ∀ j, c.fl = some j → j.g = c.gen ∧ (∀ t ∈ c.tables, t.gen < j.g) ∧ applyMuts [] j.ro = j.r ∧ j.stage ≤ 6 ∧
    (∀ m ∈ j.ro, m.ok = true)
  jk : Junk c.junk
  nums : ((c.junk ++ fFile c ++ [curFile c]).map (·.num)).Pairwise (· < ·)
  rcOk : ∀ m ∈ c.rc, m.ok = true
  qOk : ∀ m ∈ c.queue, m.ok = true
  wq : applyMuts [] (c.rc ++ c.queue) = c.w
  tnq : c.tn = true → c.queue ≠ []
  pcq : (c.pc = .rot1 ∨ c.pc = .rot2 ∨ c.pc = .rot3) → c.queue = [] ∧ c.tn = false
  kwf : KWf c

/-! ## list facts -/

theorem split3 (ts : List Tbl) (a n : Nat) :
    ts = ts.take a ++ kIns ts a n ++ ts.drop (a + n) := by
  unfold kIns
  rw [List.append_assoc, ← List.drop_drop, List.take_append_drop, List.take_append_drop]

theorem kIns_length (ts : List Tbl) (a n : Nat) (h : a + n ≤ ts.length) : (kIns ts a n).length = n := by
  unfold kIns; simp; omega

theorem kIns_append (ts x : List Tbl) (a n : Nat) (h : a + n ≤ ts.length) : kIns (ts ++ x) a n = kIns ts a n := by
  unfold kIns
  rw [List.drop_append_of_le_length (by omega), List.take_append_of_le_length (by simp; omega)]

theorem keys_selDirs (ins : List Tbl) (j sub : Nat) (J : Layer) :
    (selDirs ins j sub J).map (·.1) = (ins.drop j).map (·.gen) := by
  unfold selDirs
  cases ins.drop j with
  | nil => rfl
  | cons t rest => simp [keys_encT]

theorem keys_kTables_sub (c : Cfg) : ((kTables c).map (·.1)).Sublist (c.tables.map (·.gen)) := by
  unfold kTables
  cases hk : c.kj with
  | idle => simp only [keys_encT]; exact List.Sublist.refl _
  | merging => simp only [keys_encT]; exact List.Sublist.refl _
  | reflecting npre nsel cells j sub J =>
    simp only [List.map_append, keys_encT, keys_selDirs]
    conv => rhs; rw [split3 c.tables npre nsel]
    simp only [List.map_append]
    exact List.Sublist.append (List.Sublist.append (List.Sublist.refl _) (List.Sublist.map _ (List.drop_sublist _ _)))
      (List.Sublist.refl _)

/-! ## what recovery makes of the table directories -/

/-- finishing the flagged compaction on a listing in which the inputs are in any state of removal -/
theorem finish_flagged (pre post rest : List Tbl) (t0 : Tbl) (X fT : List (Nat × TableDir)) (cells : Layer)
    (hX : ∀ p ∈ X, p.1 ∈ (t0 :: rest).map (·.gen))
    (hs : ((pre ++ (t0 :: rest) ++ post).map (·.gen)).Pairwise (· < ·))
    (hf : ∀ p ∈ fT, ∀ t ∈ pre ++ (t0 :: rest) ++ post, t.gen < p.1) :
    insertT t0.gen (.complete cells)
        (rmInputs { inputs := (t0 :: rest).map (·.gen), replacement := t0.gen } (encT pre ++ X ++ encT post ++ fT)) =
      encT pre ++ (t0.gen, .complete cells) :: (encT post ++ fT) := by
  rw [List.map_append, List.map_append, List.pairwise_append] at hs
  obtain ⟨h1, _, h3⟩ := hs
  rw [List.pairwise_append] at h1
  obtain ⟨_, _, h6⟩ := h1
  have hin0 : t0.gen ∈ (t0 :: rest).map (·.gen) := by simp
  have e1 : (encT pre).filter (fun p => !(((t0 :: rest).map (·.gen)).contains p.1 || p.1 == t0.gen)) = encT pre := by
    rw [List.filter_eq_self]
    intro p hp
    obtain ⟨t, ht, rfl⟩ := List.mem_map.1 hp
    have hlt : ∀ b ∈ (t0 :: rest).map (·.gen), t.gen < b := fun b hb => h6 t.gen (List.mem_map.2 ⟨t, ht, rfl⟩) b hb
    have hn : t.gen ∉ (t0 :: rest).map (·.gen) := fun hin => by have := hlt _ hin; omega
    have hne : t.gen ≠ t0.gen := fun he => hn (he ▸ hin0)
    simp only [Bool.not_eq_true', Bool.or_eq_false_iff, List.contains_eq_mem, decide_eq_false_iff_not, beq_eq_false_iff_ne]
    exact ⟨hn, hne⟩
  have e2 : X.filter (fun p => !(((t0 :: rest).map (·.gen)).contains p.1 || p.1 == t0.gen)) = [] := by
    rw [List.filter_eq_nil_iff]
    intro p hp
    have := hX p hp
    simp only [Bool.not_eq_true, Bool.not_eq_false', Bool.or_eq_true, List.contains_eq_mem, decide_eq_true_eq]
    exact Or.inl this
  have e3 : (encT post).filter (fun p => !(((t0 :: rest).map (·.gen)).contains p.1 || p.1 == t0.gen)) = encT post := by
    rw [List.filter_eq_self]
    intro p hp
    obtain ⟨t, ht, rfl⟩ := List.mem_map.1 hp
    have hgt : ∀ b ∈ (t0 :: rest).map (·.gen), b < t.gen := fun b hb =>
      h3 b (List.mem_append_right _ hb) t.gen (List.mem_map.2 ⟨t, ht, rfl⟩)
    have hn : t.gen ∉ (t0 :: rest).map (·.gen) := fun hin => by have := hgt _ hin; omega
    have hne : t.gen ≠ t0.gen := fun he => hn (he ▸ hin0)
    simp only [Bool.not_eq_true', Bool.or_eq_false_iff, List.contains_eq_mem, decide_eq_false_iff_not, beq_eq_false_iff_ne]
    exact ⟨hn, hne⟩
  have e4 : fT.filter (fun p => !(((t0 :: rest).map (·.gen)).contains p.1 || p.1 == t0.gen)) = fT := by
    rw [List.filter_eq_self]
    intro p hp
    have hgt : ∀ b ∈ (t0 :: rest).map (·.gen), b < p.1 := by
      intro b hb
      obtain ⟨t, ht, rfl⟩ := List.mem_map.1 hb
      exact hf p hp t (List.mem_append_left _ (List.mem_append_right _ ht))
    have hn : p.1 ∉ (t0 :: rest).map (·.gen) := fun hin => by have := hgt _ hin; omega
    have hne : p.1 ≠ t0.gen := fun he => hn (he ▸ hin0)
    simp only [Bool.not_eq_true', Bool.or_eq_false_iff, List.contains_eq_mem, decide_eq_false_iff_not, beq_eq_false_iff_ne]
    exact ⟨hn, hne⟩
  unfold rmInputs
  simp only [List.filter_append, e1, e2, e3, e4, List.append_nil]
  rw [List.append_assoc]
  apply insertT_mid
  · intro p hp
    obtain ⟨t, ht, rfl⟩ := List.mem_map.1 hp
    exact h6 t.gen (List.mem_map.2 ⟨t, ht, rfl⟩) t0.gen hin0
  · intro p hp
    rcases List.mem_append.1 hp with (hp | hp)
    · obtain ⟨t, ht, rfl⟩ := List.mem_map.1 hp
      exact h3 t0.gen (List.mem_append_right _ hin0) t.gen (List.mem_map.2 ⟨t, ht, rfl⟩)
    · exact hf p hp t0 (List.mem_append_left _ (List.mem_append_right _ List.mem_cons_self))

/-- the live tables as recovery would see them: a flagged compaction is finished -/
def effK (c : Cfg) : List Tbl :=
  match c.kj with
  | .merging npre nsel cells 5 =>
    c.tables.take npre ++ [{ gen := (kMeta c.tables npre nsel).replacement, cells := cells }] ++ c.tables.drop (npre + nsel)
  | .reflecting npre nsel cells _ _ _ =>
    c.tables.take npre ++ [{ gen := (kMeta c.tables npre nsel).replacement, cells := cells }] ++ c.tables.drop (npre + nsel)
  | _ => c.tables

theorem kIns_cons {ts : List Tbl} {a n : Nat} (h : a + n ≤ ts.length) (hn : 1 ≤ n) :
    ∃ t0 rest, kIns ts a n = t0 :: rest := by
  have := kIns_length ts a n h
  cases hk : kIns ts a n with
  | nil => rw [hk] at this; simp at this; omega
  | cons t0 rest => exact ⟨t0, rest, rfl⟩

theorem effK_vis (c : Cfg) (h : S c) (k : Key) : vis (tablesGet (effK c) k) = vis (tablesGet c.tables k) := by
  have key : ∀ npre nsel cells, npre + nsel ≤ c.tables.length → 1 ≤ nsel →
      cells = mergeRun (kIns c.tables npre nsel) (npre == 0) →
      vis (tablesGet (c.tables.take npre ++ [{ gen := (kMeta c.tables npre nsel).replacement, cells := cells }] ++
        c.tables.drop (npre + nsel)) k) = vis (tablesGet c.tables k) := by
    intro npre nsel cells h1 h2 h3
    conv => rhs; rw [split3 c.tables npre nsel]
    rw [h3]
    exact vis_tablesGet_merge _ _ _ _ (npre == 0) (by
      intro hd
      have : npre = 0 := by simpa using hd
      rw [this]; rfl) k
  have hk := h.kwf
  unfold KWf at hk
  unfold effK
  cases hkj : c.kj with
  | idle => rfl
  | merging npre nsel cells st =>
    rw [hkj] at hk
    by_cases h5 : st = 5
    · subst h5; exact key npre nsel cells hk.1 hk.2.1 hk.2.2.2
    · have : (match KJob.merging npre nsel cells st with
          | .merging npre nsel cells 5 => c.tables.take npre ++ [{ gen := (kMeta c.tables npre nsel).replacement, cells := cells }] ++ c.tables.drop (npre + nsel)
          | .reflecting npre nsel cells _ _ _ => c.tables.take npre ++ [{ gen := (kMeta c.tables npre nsel).replacement, cells := cells }] ++ c.tables.drop (npre + nsel)
          | _ => c.tables) = c.tables := by
        split
        · rename_i heq; cases heq; exact absurd rfl h5
        · rename_i heq; cases heq
        · rfl
      rw [this]
  | reflecting npre nsel cells j sub J =>
    rw [hkj] at hk
    exact key npre nsel cells hk.1 hk.2.1 hk.2.2.1

theorem fDir_keys (j : FJob) : ∀ q ∈ fDir j, q.1 = j.g := by
  intro q hq
  unfold fDir at hq
  rcases hs : j.stage with _ | _ | _ | _ | _ | n <;> rw [hs] at hq <;> simp at hq <;> rw [hq]

theorem fTables_gt (c : Cfg) (h : S c) : ∀ p ∈ fTables c, ∀ t ∈ c.tables, t.gen < p.1 := by
  intro p hp t ht
  unfold fTables at hp
  cases hfl : c.fl with
  | none => rw [hfl] at hp; cases hp
  | some j =>
    rw [hfl] at hp
    have hj := h.fwf j hfl
    have : p.1 = j.g := fDir_keys j p hp
    rw [this]; exact hj.2.1 t ht

theorem tblsOf_complete_filter (ts : List (Nat × TableDir)) :
    tblsOf (ts.filter (fun p => isComplete p.2)) = tblsOf ts := tblsOf_filter_complete ts

theorem foldl_finish_single (ts : List (Nat × TableDir)) (c : CompDir) :
    [c].foldl finishComp ts = finishComp ts c := rfl

/-- the tables a recovery of this disk loads: the live tables (a flagged compaction finished) and the flusher's
table if it loads -/
theorem normT_S (c : Cfg) (h : S c) : tblsOf (normT c.d) = effK c ++ tblsOf (fTables c) := by
  have hflag : ∀ npre nsel cells X, npre + nsel ≤ c.tables.length → 1 ≤ nsel →
      (∀ p ∈ X, p.1 ∈ (kIns c.tables npre nsel).map (·.gen)) →
      c.d.tables = encT (c.tables.take npre) ++ X ++ encT (c.tables.drop (npre + nsel)) ++ fTables c →
      c.d.comps = [{ id := kId, out := .complete cells, flag := some (kMeta c.tables npre nsel) }] →
      tblsOf (normT c.d) = c.tables.take npre ++ [{ gen := (kMeta c.tables npre nsel).replacement, cells := cells }] ++
        c.tables.drop (npre + nsel) ++ tblsOf (fTables c) := by
    intro npre nsel cells X h1 h2 hX htab hcomps
    obtain ⟨t0, rest, hins⟩ := kIns_cons h1 h2
    have hm : kMeta c.tables npre nsel = { inputs := (t0 :: rest).map (·.gen), replacement := t0.gen } := by
      unfold kMeta; rw [hins]
    have hsplit := split3 c.tables npre nsel
    rw [hins] at hsplit hX
    unfold normT
    rw [hcomps, foldl_finish_single, htab]
    simp only [finishComp, hm]
    rw [finish_flagged (c.tables.take npre) (c.tables.drop (npre + nsel)) rest t0 X (fTables c) cells hX
      (by rw [← hsplit]; exact h.gensS)
      (by intro p hp t ht; rw [← hsplit] at ht; exact fTables_gt c h p hp t ht)]
    rw [tblsOf_complete_filter, tblsOf_append, tblsOf_cons_complete, tblsOf_append, tblsOf_encT, tblsOf_encT]
    simp only [List.append_assoc, List.singleton_append]
    rfl
  have hun : ∀ ts : List (Nat × TableDir), ts = encT c.tables ++ fTables c →
      tblsOf (ts.filter (fun p => isComplete p.2)) = c.tables ++ tblsOf (fTables c) := by
    intro ts hts
    rw [tblsOf_complete_filter, hts, tblsOf_append, tblsOf_encT]
  have hk := h.kwf
  have htbl := h.tbl
  have hcomps := h.comps
  unfold KWf at hk
  unfold kTables at htbl
  unfold kComps at hcomps
  unfold effK
  cases hkj : c.kj with
  | idle =>
    rw [hkj] at htbl hcomps
    unfold normT
    rw [hcomps]
    exact hun _ htbl
  | merging npre nsel cells st =>
    rw [hkj] at htbl hcomps hk
    obtain ⟨h1, h2, h3, h4⟩ := hk
    by_cases h5 : st = 5
    · subst h5
      simp only at hcomps ⊢
      have e : encT c.tables = encT (c.tables.take npre) ++ encT (kIns c.tables npre nsel) ++
          encT (c.tables.drop (npre + nsel)) := by
        rw [← encT_append, ← encT_append, ← split3]
      rw [e] at htbl
      exact hflag npre nsel cells _ h1 h2 (by
        intro p hp
        obtain ⟨t, ht, rfl⟩ := List.mem_map.1 hp
        exact List.mem_map.2 ⟨t, ht, rfl⟩) htbl hcomps
    · have hst : st = 0 ∨ st = 1 ∨ st = 2 ∨ st = 3 ∨ st = 4 := by omega
      have hres : (match KJob.merging npre nsel cells st with
          | .merging npre nsel cells 5 => c.tables.take npre ++ [{ gen := (kMeta c.tables npre nsel).replacement, cells := cells }] ++ c.tables.drop (npre + nsel)
          | .reflecting npre nsel cells _ _ _ => c.tables.take npre ++ [{ gen := (kMeta c.tables npre nsel).replacement, cells := cells }] ++ c.tables.drop (npre + nsel)
          | _ => c.tables) = c.tables := by
        split
        · rename_i heq; cases heq; exact absurd rfl h5
        · rename_i heq; cases heq
        · rfl
      rw [hres]
      unfold normT
      rcases hst with (rfl | rfl | rfl | rfl | rfl) <;> simp only at hcomps <;> rw [hcomps] <;>
        first
        | exact hun _ htbl
        | (rw [foldl_finish_single]; simp only [finishComp]; exact hun _ htbl)
  | reflecting npre nsel cells j sub J =>
    rw [hkj] at htbl hcomps hk
    obtain ⟨h1, h2, h3, _⟩ := hk
    exact hflag npre nsel cells _ h1 h2 (by
      intro p hp
      have : p.1 ∈ (selDirs (kIns c.tables npre nsel) j sub J).map (·.1) := List.mem_map.2 ⟨p, hp, rfl⟩
      rw [keys_selDirs] at this
      obtain ⟨t, ht, he⟩ := List.mem_map.1 this
      exact List.mem_map.2 ⟨t, List.mem_of_mem_drop ht, he⟩) htbl hcomps

/-! ## what the disk serves -/

theorem vis_c1 (a r x y : Option GoBytes) (h : vis x = vis y) : vis ((a.or r).or (none.or x)) = vis (a.or (r.or y)) := by
  cases a <;> cases r <;> simp [h]
theorem vis_c2 (a r x y : Option GoBytes) (h : vis x = vis y) : vis ((a.or r).or (r.or x)) = vis (a.or (r.or y)) := by
  cases a <;> cases r <;> simp [h]
theorem vis_c3 (a r x y : Option GoBytes) (h : vis x = vis y) : vis (a.or (r.or x)) = vis (a.or (r.or y)) := by
  cases a <;> cases r <;> simp [h]
theorem vis_c0 (a x y : Option GoBytes) (h : vis x = vis y) : vis (a.or (none.or x)) = vis (a.or (none.or y)) := by
  cases a <;> simp [h]

theorem walMuts_next (c : Cfg) : walMuts (nextFile c) = [] := by
  unfold nextFile
  cases c.pc <;> simp [walMuts, fileMuts]

theorem walMuts_S (c : Cfg) (h : S c) : walMuts c.d.wal = walMuts (fFile c) ++ c.rc := by
  rw [h.wal, walMuts_append, walMuts_append, walMuts_append, junk_muts h.jk, walMuts_next]
  simp [walMuts, fileMuts, curFile]

theorem fFile_muts_ok (c : Cfg) (h : S c) : ∀ m ∈ walMuts (fFile c), m.ok = true := by
  intro m hm
  unfold fFile at hm
  cases hfl : c.fl with
  | none => rw [hfl] at hm; cases hm
  | some j =>
    rw [hfl] at hm
    simp only at hm
    by_cases hle : j.stage ≤ 5
    · rw [if_pos hle] at hm
      simp only [walMuts, List.flatMap_cons, List.flatMap_nil, fileMuts, if_true, List.append_nil] at hm
      exact (h.fwf j hfl).2.2.2.2 m hm
    · rw [if_neg hle] at hm; cases hm

theorem effTables_S (c : Cfg) (h : S c) : effTables c.d = effK c ++ tblsOf (fTables c) := by
  rw [effTables_eq]
  exact normT_S c h

/-- at every moment the disk serves: the records that reached the current WAL file, over the store the flusher is
writing, over the live tables -/
theorem S.serves {c : Cfg} (h : S c) : logical c.d = served (memState c) c.rc := by
  funext k
  have hok : ∀ m ∈ walMuts c.d.wal, m.ok = true := by
    intro m hm
    rw [walMuts_S c h] at hm
    rcases List.mem_append.1 hm with (hm | hm)
    · exact fFile_muts_ok c h m hm
    · exact h.rcOk m hm
  rw [logical_eq, rd_eq_vis _ _ (fun k v hv => applyMuts_val_ok _ hok k v hv) k, effTables_S c h, walMuts_S c h,
    tablesGet_append, get_applyMuts_append]
  have hv := effK_vis c h k
  unfold served base memState fStore fFile fTables
  cases hfl : c.fl with
  | none =>
    simp only [walMuts_nil, applyMuts_nil, layerGet_nil, Option.or_none, tblsOf_nil, tablesGet]
    exact vis_c0 _ _ _ hv
  | some j =>
    obtain ⟨_, _, hro, hst, _⟩ := h.fwf j hfl
    have hstage : j.stage = 0 ∨ j.stage = 1 ∨ j.stage = 2 ∨ j.stage = 3 ∨ j.stage = 4 ∨ j.stage = 5 ∨ j.stage = 6 := by omega
    simp only
    have hmut : ∀ (hle : j.stage ≤ 5), Layer.get (applyMuts [] (walMuts [({ num := j.on, recs := j.ro } : WalFile)])) k =
        Layer.get j.r k := by
      intro _
      simp only [walMuts, List.flatMap_cons, List.flatMap_nil, fileMuts, if_true, List.append_nil]
      rw [hro]
    unfold fDir
    rcases hstage with (hs | hs | hs | hs | hs | hs | hs) <;> rw [hs]
    · simp only [Nat.zero_le, if_true, tblsOf_nil, tablesGet]
      rw [hmut (by omega)]; exact vis_c1 _ _ _ _ hv
    · simp only [show (1 : Nat) ≤ 5 by omega, if_true, tblsOf_cons_part, tblsOf_nil, tablesGet]
      rw [hmut (by omega)]; exact vis_c1 _ _ _ _ hv
    · simp only [show (2 : Nat) ≤ 5 by omega, if_true, tblsOf_cons_complete, tblsOf_nil, tablesGet_single, layerGet_nil]
      rw [hmut (by omega)]; exact vis_c1 _ _ _ _ hv
    · simp only [show (3 : Nat) ≤ 5 by omega, if_true, tblsOf_cons_part, tblsOf_nil, tablesGet]
      rw [hmut (by omega)]; exact vis_c1 _ _ _ _ hv
    · simp only [show (4 : Nat) ≤ 5 by omega, if_true, tblsOf_cons_part, tblsOf_nil, tablesGet]
      rw [hmut (by omega)]; exact vis_c1 _ _ _ _ hv
    · simp only [show (5 : Nat) ≤ 5 by omega, if_true, tblsOf_cons_complete, tblsOf_nil, tablesGet_single]
      rw [hmut (by omega)]; exact vis_c2 _ _ _ _ hv
    · simp only [show ¬ (6 : Nat) ≤ 5 by omega, if_false, walMuts_nil, applyMuts_nil, layerGet_nil, Option.or_none,
        tblsOf_cons_complete, tblsOf_nil, tablesGet_single]
      exact vis_c3 _ _ _ _ hv

/-! ## the disk is well-formed -/

theorem kComps_length (c : Cfg) : (kComps c).length ≤ 1 := by
  unfold kComps
  cases c.kj with
  | idle => simp
  | merging npre nsel cells st => rcases st with _ | _ | _ | _ | _ | n <;> simp
  | reflecting => simp

theorem kComps_flagged (c : Cfg) : ∀ x ∈ kComps c, isFlagged x = true → isComplete x.out = true := by
  intro x hx _
  unfold kComps at hx
  cases hk : c.kj with
  | idle => rw [hk] at hx; cases hx
  | merging npre nsel cells st =>
    rw [hk] at hx
    rcases st with _ | _ | _ | _ | _ | n <;> simp at hx <;> subst hx <;> first | rfl | (rename_i hf; simp [isFlagged] at hf)
  | reflecting =>
    rw [hk] at hx
    simp at hx; subst hx; rfl

theorem encT_not_partMeta (ts : List Tbl) : ∀ p ∈ encT ts, isPartMeta p.2 = false := by
  intro p hp
  obtain ⟨t, _, rfl⟩ := List.mem_map.1 hp
  rfl

theorem fDir_len (j : FJob) : (fDir j).length ≤ 1 := by
  unfold fDir
  rcases hs : j.stage with _ | _ | _ | _ | _ | n <;> simp

theorem pairwise_short {α : Type} (R : α → α → Prop) (l : List α) (h : l.length ≤ 1) : l.Pairwise R := by
  match l, h with
  | [], _ => exact List.Pairwise.nil
  | [x], _ => simp

theorem fDir_not_partMeta (j : FJob) : ∀ q ∈ fDir j, isPartMeta q.2 = false := by
  intro q hq
  unfold fDir at hq
  rcases hs : j.stage with _ | _ | _ | _ | _ | n <;> rw [hs] at hq <;> simp at hq <;> rw [hq] <;> rfl

theorem fTables_not_partMeta (c : Cfg) : ∀ p ∈ fTables c, isPartMeta p.2 = false := by
  intro p hp
  unfold fTables at hp
  cases hfl : c.fl with
  | none => rw [hfl] at hp; cases hp
  | some j =>
    rw [hfl] at hp
    exact fDir_not_partMeta j p hp

theorem S.diskOk {c : Cfg} (h : S c) : DiskOk c.d := by
  have hgood : ∀ f ∈ c.junk ++ fFile c, f.header = true ∧ f.torn = false := by
    intro f hf
    rcases List.mem_append.1 hf with (hf | hf)
    · exact ⟨(h.jk f hf).1, (h.jk f hf).2.2⟩
    · unfold fFile at hf
      cases hfl : c.fl with
      | none => rw [hfl] at hf; cases hf
      | some j =>
        rw [hfl] at hf
        simp only at hf
        by_cases hle : j.stage ≤ 5
        · rw [if_pos hle] at hf; simp only [List.mem_singleton] at hf; subst hf; exact ⟨rfl, rfl⟩
        · rw [if_neg hle] at hf; cases hf
  refine {
    tblSorted := ?_, walSorted := ?_, compIds := ?_, walDirOk := ?_, walRead := ?_, putsOk := ?_, oneFlag := ?_,
    flagOut := ?_, covered := ?_ }
  · rw [h.tbl, List.map_append, List.pairwise_append]
    refine ⟨List.Pairwise.sublist (keys_kTables_sub c) h.gensS, ?_, ?_⟩
    · apply pairwise_short
      rw [List.length_map]
      unfold fTables
      cases c.fl with
      | none => simp
      | some j => exact fDir_len j
    · intro a ha b hb
      obtain ⟨p, hp, rfl⟩ := List.mem_map.1 hb
      have := (keys_kTables_sub c).subset ha
      obtain ⟨t, ht, rfl⟩ := List.mem_map.1 this
      exact fTables_gt c h p hp t ht
  · rw [h.wal, List.map_append, List.pairwise_append]
    refine ⟨h.nums, ?_, ?_⟩
    · unfold nextFile; cases c.pc <;> simp
    · intro a ha b hb
      have hle : a ≤ c.cur := by
        have hn := h.nums
        rw [List.map_append, List.pairwise_append] at hn
        rcases List.mem_append.1 (by simpa [curFile] using ha : a ∈ (c.junk ++ fFile c).map (·.num) ++ [c.cur]) with (ha' | ha')
        · have := hn.2.2 a ha' c.cur (by simp [curFile]); omega
        · simp at ha'; omega
      have hb' : b = c.cur + 1 := by
        unfold nextFile at hb
        cases hpc : c.pc <;> rw [hpc] at hb <;> simp at hb <;> exact hb
      omega
  · rw [h.comps]
    have := kComps_length c
    match hk : kComps c, this with
    | [], _ => simp
    | [x], _ => simp
  · intro hf; rw [h.walDir] at hf; cases hf
  · rw [h.wal]
    unfold nextFile
    cases hpc : c.pc with
    | rot2 =>
      obtain ⟨_, htn⟩ := h.pcq (Or.inr (Or.inl hpc))
      simp only
      apply walReadable_good
      intro f hf
      rcases List.mem_append.1 hf with (hf | hf)
      · exact hgood f hf
      · simp only [List.mem_singleton] at hf; subst hf; exact ⟨rfl, htn⟩
    | rot3 =>
      obtain ⟨_, htn⟩ := h.pcq (Or.inr (Or.inr hpc))
      simp only
      apply walReadable_good
      intro f hf
      rcases List.mem_append.1 hf with (hf | hf)
      · exact hgood f hf
      · simp only [List.mem_singleton] at hf; subst hf; exact ⟨rfl, htn⟩
    | idle => simp only [List.append_nil]; exact walReadable_good _ hgood _
    | app rot => simp only [List.append_nil]; exact walReadable_good _ hgood _
    | rot0 => simp only [List.append_nil]; exact walReadable_good _ hgood _
    | rot1 => simp only [List.append_nil]; exact walReadable_good _ hgood _
  · intro m hm
    rw [walMuts_S c h] at hm
    rcases List.mem_append.1 hm with (hm | hm)
    · exact fFile_muts_ok c h m hm
    · exact h.rcOk m hm
  · rw [h.comps]
    exact Nat.le_trans (List.length_filter_le _ _) (kComps_length c)
  · rw [h.comps]; exact kComps_flagged c
  · intro p hp hpm
    rw [h.tbl] at hp
    rcases List.mem_append.1 hp with (hp | hp)
    · unfold kTables at hp
      have hk := h.kwf
      unfold KWf at hk
      cases hkj : c.kj with
      | idle => rw [hkj] at hp; rw [encT_not_partMeta _ p hp] at hpm; cases hpm
      | merging => rw [hkj] at hp; rw [encT_not_partMeta _ p hp] at hpm; cases hpm
      | reflecting npre nsel cells j sub J =>
        rw [hkj] at hp hk
        simp only at hp
        rcases List.mem_append.1 hp with (hp | hp)
        · rcases List.mem_append.1 hp with (hp | hp)
          · rw [encT_not_partMeta _ p hp] at hpm; cases hpm
          · -- an input of the flagged compaction
            rw [h.comps]
            unfold kComps
            rw [hkj]
            apply (coveredBy_iff _ _).2
            refine ⟨_, List.mem_singleton.2 rfl, kMeta c.tables npre nsel, rfl, Or.inl ?_⟩
            have : p.1 ∈ (selDirs (kIns c.tables npre nsel) j sub J).map (·.1) := List.mem_map.2 ⟨p, hp, rfl⟩
            rw [keys_selDirs] at this
            obtain ⟨t, ht, he⟩ := List.mem_map.1 this
            exact List.mem_map.2 ⟨t, List.mem_of_mem_drop ht, he⟩
        · rw [encT_not_partMeta _ p hp] at hpm; cases hpm
    · rw [fTables_not_partMeta c p hp] at hpm; cases hpm

end SST.Proofs.FSI
