/-
Round trip of the WAL record encoding: what `PutBytes` / `DeleteBytes` marshal is unmarshalled and dispatched
by the recovery callback to the same mutation.
-/
import SST.Model.WalMutation
import SST.Proofs.Proto
import SST.Proofs.RecordIO
namespace SST.Proofs.WalMut
open SST SST.FS SST.WalMut SST.Proofs.Pb

/-- key and value lengths (and hence the nested message) fit the 64-bit length fields -/
def MutFits : Mutation → Prop
  | .put k v => k.length + v.length + 22 < 2 ^ 64
  | .del k => k.length + 11 < 2 ^ 64

theorem tag_len (num wt : Nat) (h : num * 8 + wt < 128) : (pbTag num wt).length = 1 := by
  simp [pbTag, uvarintEnc_lt _ h]

theorem pbBytesField_len_le (num : Nat) (b : Bytes) (hn : num * 8 + 2 < 128) (hb : b.length < 2 ^ 64) :
    (pbBytesField num b).length ≤ 11 + b.length := by
  unfold pbBytesField
  split
  · simp
  · have := uvarintEnc_len64 b.length hb
    simp only [List.length_append, tag_len num 2 hn]; omega

/-- a oneof member decodes to one top-level field carrying the nested bytes -/
theorem dec_msgField (num : Nat) (inner : Bytes) (hs : walSchema num = some .bytes) (h1 : 1 ≤ num)
    (h2 : num ≤ 536870911) (hl : inner.length < 2 ^ 64) :
    pbDecode walSchema (pbMsgField num inner) = ([(num, .bytes inner)], none) := by
  apply dec_pbDecode
  intro fuel hf
  cases fuel with
  | zero => omega
  | succ f =>
    have := aux_bytes walSchema num inner [] [] f hs h1 h2 hl
    simp only [List.append_nil, List.nil_append] at this
    unfold pbMsgField
    rw [this]
    cases f with
    | zero =>
      have := encLen_pos inner.length
      simp only [pbMsgField, List.length_append] at hf; omega
    | succ g => exact aux_nil _ _ _ (by omega)

def upsertFields (k v : Bytes) : PbFields := [] ++ optB 3 k ++ optB 4 v
def tombstoneFields (k : Bytes) : PbFields := [] ++ optB 2 k

theorem dec_encUpsert (k v : Bytes) (hk : k.length < 2 ^ 64) (hv : v.length < 2 ^ 64) :
    pbDecode upsertSchema (encUpsert k v) = (upsertFields k v, none) := by
  apply dec_pbDecode
  have e : encUpsert k v = pbBytesField 3 k ++ (pbBytesField 4 v ++ []) := by simp [encUpsert]
  rw [e]
  apply dec_bytes rfl (by omega) (by omega) hk
  apply dec_bytes rfl (by omega) (by omega) hv
  exact dec_nil _ _

theorem dec_encTombstone (k : Bytes) (hk : k.length < 2 ^ 64) :
    pbDecode tombstoneSchema (encTombstone k) = (tombstoneFields k, none) := by
  apply dec_pbDecode
  have e : encTombstone k = pbBytesField 2 k ++ [] := by simp [encTombstone]
  rw [e]
  apply dec_bytes rfl (by omega) (by omega) hk
  exact dec_nil _ _

theorem stringsOk_optB (utf8 : Bytes → Bool) (strs : List Nat) (num : Nat) (b : Bytes)
    (h : strs.contains num = false) : stringsOk utf8 strs (optB num b) = true := by
  unfold optB stringsOk
  split
  · rfl
  · have : num ∉ strs := by simpa using h
    simp [this]

theorem stringsOk_append (utf8 : Bytes → Bool) (strs : List Nat) (a b : PbFields) :
    stringsOk utf8 strs (a ++ b) = (stringsOk utf8 strs a && stringsOk utf8 strs b) := by
  simp [stringsOk, List.all_append]

/-- `Unmarshal ∘ Marshal` of an upsert: the oneof holds an `UpsertMutation` with exactly the non-empty bytes fields -/
theorem decode_encode_put (utf8 : Bytes → Bool) (k v : Bytes) (h : MutFits (.put k v)) :
    decWalMutation utf8 (encPut k v) = .ok (.add (upsertFields k v)) := by
  have hk : k.length < 2 ^ 64 := by simp only [MutFits] at h; omega
  have hv : v.length < 2 ^ 64 := by simp only [MutFits] at h; omega
  have hl : (encUpsert k v).length < 2 ^ 64 := by
    have a := pbBytesField_len_le 3 k (by omega) hk
    have b := pbBytesField_len_le 4 v (by omega) hv
    simp only [MutFits] at h
    simp only [encUpsert, List.length_append]; omega
  unfold decWalMutation encPut
  rw [dec_msgField 1 _ rfl (by omega) (by omega) hl]
  have hs : stringsOk utf8 [1, 2] (upsertFields k v) = true := by
    simp only [upsertFields, stringsOk_append, stringsOk_optB utf8 [1, 2] 3 k (by decide),
      stringsOk_optB utf8 [1, 2] 4 v (by decide)]
    rfl
  simp only [List.foldl_cons, List.foldl_nil, oneofStep, dec_encUpsert k v hk hv, hs, if_true]

/-- `Unmarshal ∘ Marshal` of a tombstone (the empty key included: `12 00`) -/
theorem decode_encode_del_oneof (utf8 : Bytes → Bool) (k : Bytes) (h : MutFits (.del k)) :
    decWalMutation utf8 (encDel k) = .ok (.del (tombstoneFields k)) := by
  have hk : k.length < 2 ^ 64 := by simp only [MutFits] at h; omega
  have hl : (encTombstone k).length < 2 ^ 64 := by
    have a := pbBytesField_len_le 2 k (by omega) hk
    simp only [MutFits] at h
    simp only [encTombstone]; omega
  unfold decWalMutation encDel
  rw [dec_msgField 2 _ rfl (by omega) (by omega) hl]
  have hs : stringsOk utf8 [1] (tombstoneFields k) = true := by
    simp only [tombstoneFields, stringsOk_append, stringsOk_optB utf8 [1] 2 k (by decide)]
    rfl
  simp only [List.foldl_cons, List.foldl_nil, oneofStep, dec_encTombstone k hk, hs, if_true]
  simp

theorem get_optB_self (num : Nat) (b : Bytes) : pbGetBytes ([] ++ optB num b) num = normKey b := by
  simp only [pbGetBytes, List.nil_append, find_optB]
  by_cases h : b.length = 0 <;> simp [h, normKey]

/-- a tombstone replays as the deletion of its key — for EVERY key, the empty one included -/
theorem decode_encode_del (utf8 : Bytes → Bool) (k : Bytes) (h : MutFits (.del k)) :
    replayRecord utf8 (some (encDel k)) = .ok (.mut (.del k)) := by
  unfold replayRecord
  simp only [Option.getD_some, decode_encode_del_oneof utf8 k h, dispatch, tombstoneFields]
  rw [get_optB_self]
  by_cases hk : k.length = 0
  · have : k = [] := List.eq_nil_of_length_eq_zero hk
    subst this
    simp [normKey, strField, pbGetBytes, optB]
  · simp [normKey, hk]

/-- an upsert with non-empty key and value (all that `PutBytes` logs) replays as that upsert -/
theorem replay_put (utf8 : Bytes → Bool) (k v : Bytes) (h : MutFits (.put k v)) (hk : k ≠ []) (hv : v ≠ []) :
    replayRecord utf8 (some (encPut k v)) = .ok (.mut (.put k v)) := by
  have hk' : ¬ k.length = 0 := fun h0 => hk (List.eq_nil_of_length_eq_zero h0)
  have hv' : ¬ v.length = 0 := fun h0 => hv (List.eq_nil_of_length_eq_zero h0)
  have g3 : pbGetBytes (upsertFields k v) 3 = some k := by
    simp only [pbGetBytes, upsertFields, List.reverse_append, List.find?_append, find_optB]
    simp [hk', hv']
  have g4 : pbGetBytes (upsertFields k v) 4 = some v := by
    simp only [pbGetBytes, upsertFields, List.reverse_append, List.find?_append, find_optB]
    simp [hk', hv']
  unfold replayRecord
  simp only [Option.getD_some, decode_encode_put utf8 k v h, dispatch, g3, g4]

/-- as coded: an upsert record with a key but an EMPTY value is rejected by the memstore — recovery fails
(`PutBytes` never logs one: it validates first) -/
theorem replay_put_empty_value (utf8 : Bytes → Bool) (k : Bytes) (h : MutFits (.put k [])) (hk : k ≠ []) :
    replayRecord utf8 (some (encPut k [])) = .error .rejected := by
  have hk' : ¬ k.length = 0 := fun h0 => hk (List.eq_nil_of_length_eq_zero h0)
  have g3 : pbGetBytes (upsertFields k []) 3 = some k := by
    simp only [pbGetBytes, upsertFields, List.reverse_append, List.find?_append, find_optB]
    simp [hk']
  have g4 : pbGetBytes (upsertFields k []) 4 = none := by
    simp only [pbGetBytes, upsertFields, List.reverse_append, List.find?_append, find_optB]
    simp [hk']
  unfold replayRecord
  simp only [Option.getD_some, decode_encode_put utf8 k [] h, dispatch, g3, g4]

/-- the mutations `PutBytes`/`DeleteBytes` log: non-empty key and value for upserts, any key for tombstones -/
def Loggable : Mutation → Prop
  | .put k v => k ≠ [] ∧ v ≠ []
  | .del _ => True

theorem replay_encMutation (utf8 : Bytes → Bool) (m : Mutation) (hf : MutFits m) (hl : Loggable m) :
    replayRecord utf8 (some (encMutation m)) = .ok (.mut m) := by
  cases m with
  | put k v => exact replay_put utf8 k v hf hl.1 hl.2
  | del k => exact decode_encode_del utf8 k hf

/-- a log of loggable mutations replays to exactly these mutations, in order -/
theorem replayRecords_enc (utf8 : Bytes → Bool) (ms : List Mutation)
    (h : ∀ m ∈ ms, MutFits m ∧ Loggable m) :
    replayRecords utf8 (ms.map fun m => some (encMutation m)) = some ms := by
  induction ms with
  | nil => rfl
  | cons m ms ih =>
    have h1 := h m (by simp)
    simp only [List.map_cons, replayRecords, replay_encMutation utf8 m h1.1 h1.2,
      ih (fun x hx => h x (by simp [hx]))]
    rfl

end SST.Proofs.WalMut
