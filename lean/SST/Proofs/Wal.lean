/-
C07 proofs, part 3: the appender keeps its invariant; every event prefix of a run is a crash image.
-/
import SST.Proofs.BufW
import SST.Proofs.WalEvents
import SST.Proofs.WalReplay
namespace SST.Proofs
open SST Generated

/-! ## the file writer over the buffered writer -/

theorem fw_write_aligned (c : Compression) (f : FW) (r : GoBytes) :
    (f.write c r).1.w.aligned = f.w.aligned := by
  cases r with
  | none => simp only [FW.write]; rw [write_aligned]
  | some p => simp only [FW.write]; rw [write_aligned, write_aligned]

/-- `Write(record)`: what reaches the file plus what stays buffered is the old buffer plus the record -/
theorem fw_write_transp (c : Compression) (f : FW) (r : GoBytes) (ha : f.w.aligned = false) :
    (f.write c r).2.flatten ++ (f.write c r).1.w.buf = f.w.buf ++ encRecord c r := by
  cases r with
  | none =>
    simp only [FW.write, encRecord]
    exact write_transp f.w _ ha
  | some p =>
    simp only [FW.write, encRecord, List.flatten_append, List.append_assoc]
    have h1 := write_transp f.w (encHeader false p.length (clenOf c p)) ha
    have h2 := write_transp (f.w.write (encHeader false p.length (clenOf c p))).1 (stored c p)
      (by rw [write_aligned]; exact ha)
    rw [h2, ← List.append_assoc, h1, List.append_assoc]

theorem fw_flush_aligned (f : FW) : f.flush.1.w.aligned = f.w.aligned := by
  simp only [FW.flush]; rw [flush_aligned]

theorem fw_flush_buf (f : FW) : f.flush.1.w.buf = [] := by
  simp only [FW.flush]; rw [flush_buf]

theorem fw_flush_out (f : FW) (ha : f.w.aligned = false) : f.flush.2.flatten = f.w.buf := by
  simp only [FW.flush]; exact flush_out f.w ha

theorem fw_open_aligned (bs ct : Nat) : (FW.open bs ct).1.w.aligned = false := by
  simp only [FW.open]; rw [flush_aligned, write_aligned]; rfl

theorem fw_open_buf (bs ct : Nat) : (FW.open bs ct).1.w.buf = [] := by
  simp only [FW.open]; rw [flush_buf]

/-- `Open` puts exactly the file header into the file -/
theorem fw_open_out (bs ct : Nat) : (FW.open bs ct).2.flatten = fileHeader currentVersion ct := by
  simp only [FW.open, List.flatten_append]
  have h1 := write_transp (BufW.init bs) (fileHeader currentVersion ct) rfl
  have h2 := flush_out ((BufW.init bs).write (fileHeader currentVersion ct)).1
    (by rw [write_aligned]; rfl)
  rw [h2, h1]; rfl

/-! ## per-file contents -/

theorem fileOf_last (c : Compression) (ct : Nat) (closed : List (List GoBytes)) (cur : List GoBytes) :
    fileOf c ct (closed ++ [cur]) closed.length = fileBytes c ct cur := by
  simp [fileOf, List.getD_eq_getElem?_getD]

theorem fileOf_closed (c : Compression) (ct : Nat) (closed : List (List GoBytes)) (x : List (List GoBytes))
    (j : Nat) (hj : j < closed.length) :
    fileOf c ct (closed ++ x) j = fileBytes c ct (closed.getD j []) := by
  simp [fileOf, List.getD_eq_getElem?_getD, List.getElem?_append_left hj]

theorem fileBytes_snoc (c : Compression) (ct : Nat) (rs : List GoBytes) (r : GoBytes) :
    fileBytes c ct (rs ++ [r]) = fileBytes c ct rs ++ encRecord c r := by
  simp [fileBytes, encAll]

theorem fileBytes_nil (c : Compression) (ct : Nat) : fileBytes c ct [] = fileHeader currentVersion ct := by
  simp [fileBytes]

/-! ## the invariant -/

/-- `closed` = records of the files already rotated away, `cur` = records written to the current file
(logically: some of their bytes may still sit in the buffer), `evs` = every event so far. -/
structure WalInv (o : WalOpts) (c : Compression) (w : Wal) (closed : List (List GoBytes))
    (cur : List GoBytes) (evs : List FsEvent) : Prop where
  num : w.num = closed.length
  next : w.next = w.num + 1
  lim : w.num < maxWalFiles
  nal : w.fw.w.aligned = false
  dir : ∃ D, dirAfterN evs = completeDir (fileOf c o.ct (closed ++ [cur])) w.num ++ [(w.num, D)] ∧
    D ++ w.fw.w.buf = fileBytes c o.ct cur
  dead : w.dead = true → w.fw.w.buf = []
  adm : Adm (fileOf c o.ct (closed ++ [cur])) (closed.length + 1) [] evs

/-- chunks written to the current file: the directory and admissibility move along -/
theorem chunks_step (o : WalOpts) (c : Compression) (w : Wal) (closed : List (List GoBytes))
    (cur cur' : List GoBytes) (evs : List FsEvent) (hinv : WalInv o c w closed cur evs)
    (buf2 extra : Bytes) (ch : List Bytes)
    (ht : ch.flatten ++ buf2 = w.fw.w.buf ++ extra)
    (hcur : fileBytes c o.ct cur' = fileBytes c o.ct cur ++ extra) :
    (∃ D, dirAfterN (evs ++ ch.map (.write w.num)) =
        completeDir (fileOf c o.ct (closed ++ [cur'])) w.num ++ [(w.num, D)] ∧
        D ++ buf2 = fileBytes c o.ct cur') ∧
    Adm (fileOf c o.ct (closed ++ [cur'])) (closed.length + 1) [] (evs ++ ch.map (.write w.num)) := by
  obtain ⟨D, hD, hDb⟩ := hinv.dir
  have hnum := hinv.num
  -- the final contents under cur' extend those under cur
  have hsame : ∀ j, j < closed.length →
      fileOf c o.ct (closed ++ [cur']) j = fileOf c o.ct (closed ++ [cur]) j := by
    intro j hj; rw [fileOf_closed _ _ _ _ _ hj, fileOf_closed _ _ _ _ _ hj]
  have hcd : completeDir (fileOf c o.ct (closed ++ [cur'])) w.num =
      completeDir (fileOf c o.ct (closed ++ [cur])) w.num :=
    completeDir_congr _ _ _ (fun i hi => hsame i (by omega))
  have hadm : Adm (fileOf c o.ct (closed ++ [cur'])) (closed.length + 1) [] evs := by
    apply adm_mono _ _ _ _ (Nat.le_refl _) _ _ _ _ hinv.adm
    · intro j hj
      by_cases h : j < closed.length
      · rw [hsame j h]; exact List.prefix_refl _
      · have : j = closed.length := by omega
        subst this
        rw [fileOf_last, fileOf_last, hcur]; exact List.prefix_append _ _
    · intro j hj; exact hsame j (by omega)
  have hlast : fileOf c o.ct (closed ++ [cur']) w.num = fileBytes c o.ct cur' := by
    rw [hnum, fileOf_last]
  have hpre : D ++ ch.flatten <+: fileOf c o.ct (closed ++ [cur']) w.num := by
    rw [hlast, hcur, ← hDb]
    refine ⟨buf2, ?_⟩
    rw [List.append_assoc, ht, List.append_assoc]
  have hw := adm_writes (fileOf c o.ct (closed ++ [cur'])) (closed.length + 1) w.num (by omega) D ch hpre
  rw [hcd] at hw
  constructor
  · refine ⟨D ++ ch.flatten, ?_, ?_⟩
    · rw [dirAfterN_append, hD, hw.2, hcd]
    · rw [List.append_assoc, ht, ← List.append_assoc, hDb, hcur]
  · rw [adm_append]
    refine ⟨hadm, ?_⟩
    show Adm _ _ (dirAfterN evs) _
    rw [hD]; exact hw.1

/-- `fsync` and `close` leave the directory as it is -/
theorem inv_event (o : WalOpts) (c : Compression) (w : Wal) (closed : List (List GoBytes))
    (cur : List GoBytes) (evs : List FsEvent) (hinv : WalInv o c w closed cur evs) (e : FsEvent)
    (he : (∃ k, e = .fsync k) ∨ (∃ k, e = .close k)) : WalInv o c w closed cur (evs ++ [e]) := by
  have hd : dirAfterN (evs ++ [e]) = dirAfterN evs := by
    rw [dirAfterN_append]
    rcases he with ⟨k, rfl⟩ | ⟨k, rfl⟩ <;> rfl
  have ha : AdmEv (fileOf c o.ct (closed ++ [cur])) (closed.length + 1) (dirAfterN evs) e := by
    rcases he with ⟨k, rfl⟩ | ⟨k, rfl⟩ <;> trivial
  refine { hinv with dir := ?_, adm := ?_ }
  · rw [hd]; exact hinv.dir
  · rw [adm_append]; exact ⟨hinv.adm, ha, trivial⟩

theorem inv_flush (o : WalOpts) (c : Compression) (w : Wal) (closed : List (List GoBytes))
    (cur : List GoBytes) (evs : List FsEvent) (hinv : WalInv o c w closed cur evs) (dd : Bool) :
    WalInv o c { w with fw := w.fw.flush.1, dead := dd } closed cur
      (evs ++ w.fw.flush.2.map (.write w.num)) := by
  have h := chunks_step o c w closed cur cur evs hinv [] [] w.fw.flush.2
    (by rw [fw_flush_out _ hinv.nal]) (by simp)
  exact { num := hinv.num, next := hinv.next, lim := hinv.lim,
          nal := by show w.fw.flush.1.w.aligned = false; rw [fw_flush_aligned]; exact hinv.nal
          dir := by
            obtain ⟨D, h1, h2⟩ := h.1
            exact ⟨D, h1, by show D ++ w.fw.flush.1.w.buf = _; rw [fw_flush_buf]; exact h2⟩
          dead := fun _ => fw_flush_buf _
          adm := h.2 }

theorem inv_write (o : WalOpts) (c : Compression) (w : Wal) (closed : List (List GoBytes))
    (cur : List GoBytes) (evs : List FsEvent) (hinv : WalInv o c w closed cur evs)
    (hnd : w.dead = false) (r : GoBytes) :
    WalInv o c { w with fw := (w.fw.write c r).1 } closed (cur ++ [r])
      (evs ++ (w.fw.write c r).2.map (.write w.num)) := by
  have h := chunks_step o c w closed cur (cur ++ [r]) evs hinv (w.fw.write c r).1.w.buf (encRecord c r)
    (w.fw.write c r).2 (fw_write_transp c w.fw r hinv.nal) (fileBytes_snoc c o.ct cur r)
  exact { num := hinv.num, next := hinv.next, lim := hinv.lim,
          nal := by show (w.fw.write c r).1.w.aligned = false; rw [fw_write_aligned]; exact hinv.nal
          dir := h.1
          dead := fun hd => by simp [hnd] at hd
          adm := h.2 }

/-- `setupNextWriter` after the current file has been flushed: create the next file, write its header -/
theorem inv_create (o : WalOpts) (c : Compression) (w : Wal) (closed : List (List GoBytes))
    (cur : List GoBytes) (evs : List FsEvent) (hinv : WalInv o c w closed cur evs)
    (hbuf : w.fw.w.buf = []) (hlim : w.next < maxWalFiles) :
    WalInv o c { next := w.next + 1, num := w.next, fw := (FW.open o.bufSize o.ct).1, dead := false }
      (closed ++ [cur]) []
      (evs ++ .create w.next :: (FW.open o.bufSize o.ct).2.map (.write w.next)) := by
  have hnum := hinv.num
  have hnext := hinv.next
  have hF : ∀ j, j < closed.length + 1 →
      fileOf c o.ct ((closed ++ [cur]) ++ [[]]) j = fileOf c o.ct (closed ++ [cur]) j := by
    intro j hj
    rw [fileOf_closed _ _ _ _ _ (by simpa using hj)]; rfl
  have hadm0 : Adm (fileOf c o.ct ((closed ++ [cur]) ++ [[]])) ((closed ++ [cur]).length + 1) [] evs := by
    apply adm_mono _ _ _ _ (by simp) _ _ _ _ hinv.adm
    · intro j hj; rw [hF j hj]; exact List.prefix_refl _
    · intro j hj; exact hF j (by omega)
  obtain ⟨D, hD, hDb⟩ := hinv.dir
  rw [hbuf, List.append_nil] at hDb
  have hlast : fileOf c o.ct ((closed ++ [cur]) ++ [[]]) w.num = D := by
    rw [hF _ (by omega), hnum, fileOf_last, hDb]
  have hcd : completeDir (fileOf c o.ct (closed ++ [cur])) w.num =
      completeDir (fileOf c o.ct ((closed ++ [cur]) ++ [[]])) w.num :=
    (completeDir_congr _ _ _ (fun i hi => hF i (by omega))).symm
  have hD' : dirAfterN evs = completeDir (fileOf c o.ct ((closed ++ [cur]) ++ [[]])) w.num ++
      [(w.num, fileOf c o.ct ((closed ++ [cur]) ++ [[]]) w.num)] := by
    rw [hD, hcd, hlast]
  have hcreate : AdmEv (fileOf c o.ct ((closed ++ [cur]) ++ [[]])) ((closed ++ [cur]).length + 1)
      (dirAfterN evs) (.create w.next) := by
    right; exact ⟨w.num, hD', hnext, by simp; omega⟩
  have hafter : applyEvent (dirAfterN evs) (.create w.next) =
      completeDir (fileOf c o.ct ((closed ++ [cur]) ++ [[]])) w.next ++ [(w.next, [])] := by
    rw [hD', hnext, apply_create_next, completeDir_succ]
  have hnl : w.next = (closed ++ [cur]).length := by simp; omega
  have hhdr : ([] : Bytes) ++ (FW.open o.bufSize o.ct).2.flatten <+:
      fileOf c o.ct ((closed ++ [cur]) ++ [[]]) w.next := by
    rw [hnl, fileOf_last, fileBytes_nil, List.nil_append, fw_open_out]; exact List.prefix_refl _
  have hw := adm_writes (fileOf c o.ct ((closed ++ [cur]) ++ [[]])) ((closed ++ [cur]).length + 1) w.next
    (by omega) [] _ hhdr
  exact {
    num := hnl
    next := rfl
    lim := hlim
    nal := fw_open_aligned _ _
    dir := by
      refine ⟨(FW.open o.bufSize o.ct).2.flatten, ?_, ?_⟩
      · rw [dirAfterN_append, List.foldl_cons, hafter, hw.2, List.nil_append]
      · show _ ++ (FW.open o.bufSize o.ct).1.w.buf = _
        rw [fw_open_buf, List.append_nil, fw_open_out, fileBytes_nil]
    dead := fun h => by simp at h
    adm := by
      rw [adm_append]
      refine ⟨hadm0, hcreate, ?_⟩
      show Adm _ _ (applyEvent (dirAfterN evs) (FsEvent.create w.next)) _
      rw [hafter]; exact hw.1 }

/-- `NewAppender` establishes the invariant -/
theorem inv_init (o : WalOpts) (c : Compression) :
    WalInv o c (Wal.init o).1 [] [] (Wal.init o).2 := by
  have hinit : Wal.init o = ({ next := 1, num := 0, fw := (FW.open o.bufSize o.ct).1, dead := false },
      .create 0 :: (FW.open o.bufSize o.ct).2.map (.write 0)) := rfl
  have ha := fw_open_aligned o.bufSize o.ct
  have hb := fw_open_buf o.bufSize o.ct
  have ho := fw_open_out o.bufSize o.ct
  rw [hinit]
  generalize FW.open o.bufSize o.ct = fo at *
  have hhdr : ([] : Bytes) ++ fo.2.flatten <+: fileOf c o.ct ([] ++ [[]]) 0 := by
    rw [show (0 : Nat) = ([] : List (List GoBytes)).length from rfl, fileOf_last, fileBytes_nil,
      List.nil_append, ho]
    exact List.prefix_refl _
  have hw := adm_writes (fileOf c o.ct ([] ++ [[]])) 1 0 (by omega) [] _ hhdr
  have hcd : completeDir (fileOf c o.ct ([] ++ [[]])) 0 = [] := rfl
  rw [hcd] at hw
  simp only [List.nil_append] at hw
  exact {
    num := rfl
    next := rfl
    lim := by show 0 < maxWalFiles; unfold maxWalFiles; omega
    nal := ha
    dir := by
      refine ⟨fo.2.flatten, ?_, ?_⟩
      · show List.foldl applyEvent [] (FsEvent.create 0 :: _) = _
        rw [List.foldl_cons, apply_create_zero, hw.2]; rfl
      · show _ ++ fo.1.w.buf = _
        rw [hb, List.append_nil, ho, fileBytes_nil]
    dead := fun h => by simp at h
    adm := by
      show Adm _ _ [] (FsEvent.create 0 :: _)
      refine ⟨Or.inl ⟨rfl, rfl, by simp⟩, ?_⟩
      rw [apply_create_zero]; exact hw.1 }

theorem rotate_eq (o : WalOpts) (w : Wal) :
    w.rotate o =
      if w.dead then (w, [], some .other)
      else if w.next ≥ maxWalFiles then
        ({ w with fw := w.fw.flush.1, dead := true },
          w.fw.flush.2.map (.write w.num) ++ [.close w.num], some .other)
      else
        ({ next := w.next + 1, num := w.next, fw := (FW.open o.bufSize o.ct).1, dead := false },
          w.fw.flush.2.map (.write w.num) ++ [.close w.num] ++
            .create w.next :: (FW.open o.bufSize o.ct).2.map (.write w.next), none) := by
  unfold Wal.rotate
  by_cases hd : w.dead = true
  · rw [if_pos hd]
  · rw [if_neg hd]

/-- `Rotate` -/
theorem inv_rotate (o : WalOpts) (c : Compression) (w : Wal) (closed : List (List GoBytes))
    (cur : List GoBytes) (evs : List FsEvent) (hinv : WalInv o c w closed cur evs) :
    ((w.rotate o).2.2 = none →
      WalInv o c (w.rotate o).1 (closed ++ [cur]) [] (evs ++ (w.rotate o).2.1) ∧ (w.rotate o).1.dead = false) ∧
    ((w.rotate o).2.2 ≠ none →
      WalInv o c (w.rotate o).1 closed cur (evs ++ (w.rotate o).2.1) ∧ (w.rotate o).1.dead = true) := by
  rw [rotate_eq]
  by_cases hd : w.dead = true
  · rw [if_pos hd]
    exact ⟨fun h => by simp at h, fun _ => ⟨by rw [List.append_nil]; exact hinv, hd⟩⟩
  · have h1 := inv_flush o c w closed cur evs hinv
    rw [if_neg hd]
    by_cases hg : w.next ≥ maxWalFiles
    · rw [if_pos hg]
      refine ⟨fun h => by simp at h, fun _ => ⟨?_, rfl⟩⟩
      have h2 := inv_event o c _ closed cur _ (h1 true) (.close w.num) (Or.inr ⟨_, rfl⟩)
      rw [List.append_assoc] at h2; exact h2
    · rw [if_neg hg]
      refine ⟨fun _ => ⟨?_, rfl⟩, fun h => by simp at h⟩
      have h2 := inv_event o c _ closed cur _ (h1 false) (.close w.num) (Or.inr ⟨_, rfl⟩)
      have h3 := inv_create o c _ closed cur _ h2 (fw_flush_buf _) (by show w.next < _; omega)
      rw [List.append_assoc, List.append_assoc] at h3
      rw [List.append_assoc]; exact h3

/-- the part of `Append`/`AppendSync` after `checkSizeAndRotate` -/
def writePart (c : Compression) (sync : Bool) (w1 : Wal) (r : GoBytes) : Wal × List FsEvent :=
  if sync then
    ({ w1 with fw := (w1.fw.write c r).1.flush.1 },
      ((w1.fw.write c r).2 ++ (w1.fw.write c r).1.flush.2).map (.write w1.num) ++ [.fsync w1.num])
  else ({ w1 with fw := (w1.fw.write c r).1 }, (w1.fw.write c r).2.map (.write w1.num))

theorem append_eq (o : WalOpts) (c : Compression) (sync : Bool) (w : Wal) (r : GoBytes) :
    w.append o c sync r =
      if w.dead then (w, [], some .other)
      else if w.fw.cur + (r.getD []).length > o.maxSize then
        (match (w.rotate o).2.2 with
         | some e => ((w.rotate o).1, (w.rotate o).2.1, some e)
         | none => ((writePart c sync (w.rotate o).1 r).1,
                    (w.rotate o).2.1 ++ (writePart c sync (w.rotate o).1 r).2, none))
      else ((writePart c sync w r).1, (writePart c sync w r).2, none) := by
  unfold Wal.append writePart
  by_cases hd : w.dead = true
  · simp only [hd, if_true]
  · by_cases hs : w.fw.cur + (r.getD []).length > o.maxSize
    · cases he : (w.rotate o).2.2 with
      | some e => simp only [hd, hs, he, if_true]
      | none => cases sync <;> simp [hd, hs, he]
    · cases sync <;> simp [hd, hs]

theorem inv_writePart (o : WalOpts) (c : Compression) (sync : Bool) (w : Wal) (closed : List (List GoBytes))
    (cur : List GoBytes) (evs : List FsEvent) (hinv : WalInv o c w closed cur evs)
    (hnd : w.dead = false) (r : GoBytes) :
    WalInv o c (writePart c sync w r).1 closed (cur ++ [r]) (evs ++ (writePart c sync w r).2) ∧
    (writePart c sync w r).1.dead = false ∧
    (sync = true → (writePart c sync w r).1.fw.w.buf = []) := by
  have h1 := inv_write o c w closed cur evs hinv hnd r
  cases sync with
  | false =>
    simp only [writePart, Bool.false_eq_true, if_false]
    exact ⟨h1, hnd, fun h => by simp at h⟩
  | true =>
    simp only [writePart, if_true]
    have h2 := inv_flush o c _ closed (cur ++ [r]) _ h1 false
    have h3 := inv_event o c _ closed (cur ++ [r]) _ h2 (.fsync w.num) (Or.inl ⟨_, rfl⟩)
    refine ⟨?_, hnd, fun _ => fw_flush_buf _⟩
    have e : ({ w with fw := (w.fw.write c r).1.flush.1 } : Wal) =
        { next := w.next, num := w.num, fw := (w.fw.write c r).1.flush.1, dead := false } := by
      rw [← hnd]
    rw [e, List.map_append, ← List.append_assoc, ← List.append_assoc]
    exact h3

theorem fitsAll_iff (c : Compression) (full : List (List GoBytes)) :
    FitsAll c full ↔ ∀ r ∈ full.flatten, FitsRec c r := by
  simp only [FitsAll, List.mem_flatten]
  constructor
  · rintro h r ⟨rs, h1, h2⟩; exact h rs h1 r h2
  · intro h rs h1 r h2; exact h r ⟨rs, h1, h2⟩

/-- `Append` / `AppendSync` -/
theorem inv_append (o : WalOpts) (c : Compression) (sync : Bool) (w : Wal) (closed : List (List GoBytes))
    (cur : List GoBytes) (evs : List FsEvent) (hinv : WalInv o c w closed cur evs) (r : GoBytes) :
    ∃ closed' cur', WalInv o c (w.append o c sync r).1 closed' cur' (evs ++ (w.append o c sync r).2.1) ∧
      ((w.append o c sync r).2.2 = none →
        (closed' ++ [cur']).flatten = (closed ++ [cur]).flatten ++ [r] ∧
        (sync = true → (w.append o c sync r).1.fw.w.buf = [])) ∧
      ((w.append o c sync r).2.2 ≠ none → (closed' ++ [cur']).flatten = (closed ++ [cur]).flatten) := by
  rw [append_eq]
  by_cases hd : w.dead = true
  · rw [if_pos hd]
    exact ⟨closed, cur, by rw [List.append_nil]; exact hinv, fun h => by simp at h, fun _ => rfl⟩
  · rw [if_neg hd]
    have hnd : w.dead = false := by simpa using hd
    by_cases hs : w.fw.cur + (r.getD []).length > o.maxSize
    · rw [if_pos hs]
      have hr := inv_rotate o c w closed cur evs hinv
      cases he : (w.rotate o).2.2 with
      | some e =>
        have := (hr.2 (by rw [he]; simp)).1
        exact ⟨closed, cur, this, fun h => by simp at h, fun _ => rfl⟩
      | none =>
        obtain ⟨h1, h1d⟩ := hr.1 he
        obtain ⟨h2, _, h2b⟩ := inv_writePart o c sync _ (closed ++ [cur]) [] _ h1 h1d r
        refine ⟨closed ++ [cur], [] ++ [r], ?_, fun _ => ⟨by simp, h2b⟩, fun h => by simp at h⟩
        simp only [List.append_assoc] at h2 ⊢
        exact h2
    · rw [if_neg hs]
      obtain ⟨h2, _, h2b⟩ := inv_writePart o c sync w closed cur evs hinv hnd r
      exact ⟨closed, cur ++ [r], h2, fun _ => ⟨by simp, h2b⟩, fun h => by simp at h⟩

/-- one operation -/
theorem inv_step (o : WalOpts) (c : Compression) (w : Wal) (closed : List (List GoBytes))
    (cur : List GoBytes) (evs : List FsEvent) (hinv : WalInv o c w closed cur evs) (op : WalOp) :
    ∃ closed' cur', WalInv o c (w.step o c op).1 closed' cur' (evs ++ (w.step o c op).2.1) ∧
      (closed' ++ [cur']).flatten = (closed ++ [cur]).flatten ++
        (OpTrace.rec? ⟨op, (w.step o c op).2.1, (w.step o c op).2.2⟩).toList ∧
      (∀ r, op = .appendSync r → (w.step o c op).2.2 = none → (w.step o c op).1.fw.w.buf = []) := by
  cases op with
  | append r =>
    obtain ⟨cl, cu, h1, h2, h3⟩ := inv_append o c false w closed cur evs hinv r
    refine ⟨cl, cu, h1, ?_, fun r' h => by simp at h⟩
    show _ = _ ++ (OpTrace.rec? ⟨.append r, _, (w.append o c false r).2.2⟩).toList
    cases he : (w.append o c false r).2.2 with
    | none => simpa [OpTrace.rec?] using (h2 he).1
    | some e => simpa [OpTrace.rec?] using h3 (by rw [he]; simp)
  | appendSync r =>
    obtain ⟨cl, cu, h1, h2, h3⟩ := inv_append o c true w closed cur evs hinv r
    refine ⟨cl, cu, h1, ?_, fun r' _ he => (h2 he).2 rfl⟩
    show _ = _ ++ (OpTrace.rec? ⟨.appendSync r, _, (w.append o c true r).2.2⟩).toList
    cases he : (w.append o c true r).2.2 with
    | none => simpa [OpTrace.rec?] using (h2 he).1
    | some e => simpa [OpTrace.rec?] using h3 (by rw [he]; simp)
  | rotate =>
    have hr := inv_rotate o c w closed cur evs hinv
    show ∃ closed' cur', WalInv o c (w.rotate o).1 closed' cur' (evs ++ (w.rotate o).2.1) ∧
      (closed' ++ [cur']).flatten = (closed ++ [cur]).flatten ++
        (OpTrace.rec? ⟨.rotate, (w.rotate o).2.1, (w.rotate o).2.2⟩).toList ∧ _
    cases he : (w.rotate o).2.2 with
    | none => exact ⟨closed ++ [cur], [], (hr.1 he).1, by simp [OpTrace.rec?], fun r' h => by simp at h⟩
    | some e =>
      exact ⟨closed, cur, (hr.2 (by rw [he]; simp)).1, by simp [OpTrace.rec?], fun r' h => by simp at h⟩

/-! ## whole programs -/

/-- a log whose buffer is empty replays to everything appended -/
theorem replay_flushed (o : WalOpts) (c : Compression) (cOf : Nat → Compression) (hra : ReaderAgrees cOf o c)
    (hl : LawfulC c) (w : Wal) (closed : List (List GoBytes)) (cur : List GoBytes) (evs : List FsEvent)
    (hinv : WalInv o c w closed cur evs) (hbuf : w.fw.w.buf = []) (hf : FitsAll c (closed ++ [cur])) :
    replay cOf (dirAfter evs) = ((closed ++ [cur]).flatten, none) := by
  obtain ⟨D, hD, hDb⟩ := hinv.dir
  rw [hbuf, List.append_nil] at hDb
  have hnum := hinv.num
  have hlim := hinv.lim
  have himg : Img (fileOf c o.ct (closed ++ [cur])) (closed ++ [cur]).length (dirAfterN evs) := by
    right
    refine ⟨w.num, D, by simp; omega, ?_, hD⟩
    rw [hnum, fileOf_last, hDb]; exact List.prefix_refl _
  unfold dirAfter
  rw [replay_img cOf c o.ct hra.1 hl hra.2 (closed ++ [cur]) hf (by simp; omega) _ himg, hD,
    imgRecords_snoc, hnum]
  have h1 : (closed ++ [cur]).getD closed.length [] = cur := by
    simp [List.getD_eq_getElem?_getD]
  have h2 : (closed ++ [cur]).take closed.length = closed := by simp
  rw [h1, h2, hDb, wholeIn_all c o.ct cur _ (Nat.le_refl _), List.take_length]
  simp

/-- (events so far, records so far) at the return of every successful `AppendSync` -/
def syncPoints : List OpTrace → (ec rc : Nat) → List (Nat × Nat)
  | [], _, _ => []
  | t :: ts, ec, rc =>
    let ec' := ec + t.evs.length
    let rc' := if t.rec?.isSome then rc + 1 else rc
    (match t.op, t.err with
     | .appendSync _, none => [(ec', rc')]
     | _, _ => []) ++ syncPoints ts ec' rc'

theorem durableAux_le (ts : List OpTrace) (ec rc best n G : Nat) (hb : best ≤ G)
    (hp : ∀ p ∈ syncPoints ts ec rc, p.1 ≤ n → p.2 ≤ G) : durableAux ts ec rc best n ≤ G := by
  induction ts generalizing ec rc best with
  | nil => exact hb
  | cons t ts ih =>
    simp only [durableAux]
    split
    · rename_i hle
      apply ih
      · split
        · rename_i r hop herr
          exact hp (ec + t.evs.length, if t.rec?.isSome then rc + 1 else rc)
            (by simp [syncPoints, hop, herr]) hle
        · exact hb
      · intro p hpm; exact hp p (by simp only [syncPoints, List.mem_append]; exact Or.inr hpm)
    · exact hb

theorem traceEvents_cons (t : OpTrace) (ts : List OpTrace) :
    traceEvents (t :: ts) = t.evs ++ traceEvents ts := by
  simp [traceEvents]

theorem traceRecords_cons (t : OpTrace) (ts : List OpTrace) :
    traceRecords (t :: ts) = t.rec?.toList ++ traceRecords ts := by
  unfold traceRecords
  rw [List.filterMap_cons]
  cases t.rec? <;> simp

theorem runFrom_cons (o : WalOpts) (c : Compression) (w : Wal) (op : WalOp) (ops : List WalOp) :
    Wal.runFrom o c w (op :: ops) =
      ((Wal.runFrom o c (w.step o c op).1 ops).1,
        { op := op, evs := (w.step o c op).2.1, err := (w.step o c op).2.2 } ::
          (Wal.runFrom o c (w.step o c op).1 ops).2) := rfl

/-- the run of a program from a state satisfying the invariant -/
theorem runFrom_inv (o : WalOpts) (c : Compression) (cOf : Nat → Compression) (hra : ReaderAgrees cOf o c)
    (hl : LawfulC c) (prog : List WalOp) (hpf : ProgFits c prog) (w : Wal) (closed : List (List GoBytes))
    (cur : List GoBytes) (evs : List FsEvent) (hinv : WalInv o c w closed cur evs)
    (hf : FitsAll c (closed ++ [cur])) :
    ∃ closed' cur',
      WalInv o c (Wal.runFrom o c w prog).1 closed' cur' (evs ++ traceEvents (Wal.runFrom o c w prog).2) ∧
      (closed' ++ [cur']).flatten = (closed ++ [cur]).flatten ++ traceRecords (Wal.runFrom o c w prog).2 ∧
      FitsAll c (closed' ++ [cur']) ∧
      ∀ p ∈ syncPoints (Wal.runFrom o c w prog).2 evs.length (closed ++ [cur]).flatten.length,
        p.1 ≤ (evs ++ traceEvents (Wal.runFrom o c w prog).2).length ∧
        ∃ rs, replay cOf (dirAfter ((evs ++ traceEvents (Wal.runFrom o c w prog).2).take p.1)) = (rs, none) ∧
          p.2 ≤ rs.length := by
  induction prog generalizing w closed cur evs with
  | nil =>
    refine ⟨closed, cur, ?_, ?_, hf, ?_⟩
    · simpa [Wal.runFrom, traceEvents] using hinv
    · simp [Wal.runFrom, traceRecords]
    · intro p hp; simp [Wal.runFrom, syncPoints] at hp
  | cons op ops ih =>
    obtain ⟨cl, cu, h1, h2, h3⟩ := inv_step o c w closed cur evs hinv op
    have hopf : OpFits c op := hpf op (by simp)
    have hf1 : FitsAll c (cl ++ [cu]) := by
      rw [fitsAll_iff, h2]
      intro r hr
      rw [List.mem_append] at hr
      rcases hr with hr | hr
      · exact (fitsAll_iff c _).mp hf r hr
      · cases op with
        | append r' =>
          cases he : (w.step o c (.append r')).2.2 <;> simp [OpTrace.rec?, he] at hr
          subst hr; exact hopf
        | appendSync r' =>
          cases he : (w.step o c (.appendSync r')).2.2 <;> simp [OpTrace.rec?, he] at hr
          subst hr; exact hopf
        | rotate => simp [OpTrace.rec?] at hr
    obtain ⟨cl2, cu2, g1, g2, g3, g4⟩ := ih (fun x hx => hpf x (by simp [hx])) (w.step o c op).1 cl cu _ h1 hf1
    rw [runFrom_cons]
    refine ⟨cl2, cu2, ?_, ?_, g3, ?_⟩
    · rw [traceEvents_cons, ← List.append_assoc]; exact g1
    · rw [traceRecords_cons, g2, h2, List.append_assoc]
    · intro p hp
      simp only [syncPoints, List.mem_append] at hp
      rw [traceEvents_cons, ← List.append_assoc]
      rcases hp with hp | hp
      · -- the head operation is a successful AppendSync
        cases op with
        | append r' => simp at hp
        | rotate => simp at hp
        | appendSync r' =>
          cases he : (w.step o c (.appendSync r')).2.2 with
          | some e => simp [he] at hp
          | none =>
            simp only [he, List.mem_singleton] at hp
            have hbuf := h3 r' rfl he
            have hrep := replay_flushed o c cOf hra hl _ cl cu _ h1 hbuf hf1
            subst hp
            refine ⟨by simp, (cl ++ [cu]).flatten, ?_, ?_⟩
            · simp only []
              rw [show evs.length + (w.step o c (.appendSync r')).2.1.length =
                (evs ++ (w.step o c (.appendSync r')).2.1).length by simp, List.take_left']
              · exact hrep
              · rfl
            · simp only [OpTrace.rec?, Option.isSome_some, if_true]
              rw [h2]; simp [OpTrace.rec?, he]; omega
      · have := g4 p (by
          have e1 : (evs ++ (w.step o c op).2.1).length = evs.length + (w.step o c op).2.1.length := by simp
          have e2 : (cl ++ [cu]).flatten.length =
              (if (OpTrace.rec? ⟨op, (w.step o c op).2.1, (w.step o c op).2.2⟩).isSome
                then (closed ++ [cur]).flatten.length + 1 else (closed ++ [cur]).flatten.length) := by
            rw [h2, List.length_append]
            cases (OpTrace.rec? ⟨op, (w.step o c op).2.1, (w.step o c op).2.2⟩) <;> simp
          rw [e1, e2]; exact hp)
        exact this

/-! ## the theorems -/

theorem run_eq (o : WalOpts) (c : Compression) (prog : List WalOp) :
    Wal.run o c prog = ((Wal.runFrom o c (Wal.init o).1 prog).1, (Wal.init o).2,
      (Wal.runFrom o c (Wal.init o).1 prog).2) := rfl

/-- the state after a whole program -/
theorem run_inv (o : WalOpts) (c : Compression) (cOf : Nat → Compression) (hra : ReaderAgrees cOf o c)
    (hl : LawfulC c) (prog : List WalOp) (hpf : ProgFits c prog) :
    ∃ closed cur,
      WalInv o c (Wal.run o c prog).1 closed cur (walEvents o c prog) ∧
      (closed ++ [cur]).flatten = walRecords o c prog ∧
      FitsAll c (closed ++ [cur]) ∧
      ∀ p ∈ syncPoints (Wal.run o c prog).2.2 (Wal.run o c prog).2.1.length 0,
        p.1 ≤ (walEvents o c prog).length ∧
        ∃ rs, replay cOf (dirAfter ((walEvents o c prog).take p.1)) = (rs, none) ∧ p.2 ≤ rs.length := by
  have h0 := inv_init o c
  have hf0 : FitsAll c ([] ++ [[]]) := by intro rs hrs r hr; simp at hrs; subst hrs; simp at hr
  obtain ⟨cl, cu, g1, g2, g3, g4⟩ := runFrom_inv o c cOf hra hl prog hpf _ [] [] _ h0 hf0
  refine ⟨cl, cu, g1, ?_, g3, ?_⟩
  · rw [g2]; simp [walRecords, run_eq]
  · exact g4

/-- what the final `Close` leaves -/
theorem close_inv (o : WalOpts) (c : Compression) (w : Wal) (closed : List (List GoBytes))
    (cur : List GoBytes) (evs : List FsEvent) (hinv : WalInv o c w closed cur evs) :
    ∃ w', WalInv o c w' closed cur (evs ++ w.close.1) ∧ w'.fw.w.buf = [] := by
  unfold Wal.close
  by_cases hd : w.dead = true
  · rw [if_pos hd]
    exact ⟨w, by rw [List.append_nil]; exact hinv, hinv.dead hd⟩
  · rw [if_neg hd]
    have h1 := inv_flush o c w closed cur evs hinv w.dead
    have h2 := inv_event o c _ closed cur _ h1 (.close w.num) (Or.inr ⟨_, rfl⟩)
    rw [List.append_assoc] at h2
    exact ⟨_, h2, fw_flush_buf w.fw⟩

/-- C07, first half: after `Close`, replay delivers exactly the appended records, in order -/
theorem replay_eq_appends (o : WalOpts) (c : Compression) (cOf : Nat → Compression)
    (hra : ReaderAgrees cOf o c) (hl : LawfulC c) (prog : List WalOp) (hpf : ProgFits c prog) :
    replay cOf (dirOf o c prog) = (walRecords o c prog, none) := by
  obtain ⟨cl, cu, g1, g2, g3, _⟩ := run_inv o c cOf hra hl prog hpf
  obtain ⟨w', h1, h2⟩ := close_inv o c _ cl cu _ g1
  have := replay_flushed o c cOf hra hl w' cl cu _ h1 h2 g3
  rw [g2] at this
  exact this

/-- every event prefix of a run whose final state satisfies the invariant replays to a prefix of the records -/
theorem crash_core (o : WalOpts) (c : Compression) (cOf : Nat → Compression) (hra : ReaderAgrees cOf o c)
    (hl : LawfulC c) (w : Wal) (closed : List (List GoBytes)) (cur : List GoBytes) (evs : List FsEvent)
    (hinv : WalInv o c w closed cur evs) (hf : FitsAll c (closed ++ [cur])) (n : Nat) :
    replay cOf (dirAfter (evs.take n)) = (imgRecords c (closed ++ [cur]) (dirAfterN (evs.take n)), none) ∧
    imgRecords c (closed ++ [cur]) (dirAfterN (evs.take n)) <+: (closed ++ [cur]).flatten := by
  have hm : (closed ++ [cur]).length = closed.length + 1 := by simp
  have hadm := hinv.adm
  rw [← hm] at hadm
  have himg := img_take _ _ evs n hadm
  have hlim := hinv.lim
  have hnum := hinv.num
  exact ⟨replay_img cOf c o.ct hra.1 hl hra.2 _ hf (by rw [hm]; omega) _ himg,
    imgRecords_prefix c o.ct _ _ himg⟩

theorem walEventsClosed_eq (o : WalOpts) (c : Compression) (prog : List WalOp) :
    walEventsClosed o c prog = walEvents o c prog ++ (Wal.run o c prog).1.close.1 := rfl

/-- C07, second half: kill the appender after ANY number of events (including during the final `Close`):
replay succeeds, delivers a prefix of the appended records, and that prefix holds every record appended up to
the last `AppendSync` that had returned. -/
theorem replay_after_crash (o : WalOpts) (c : Compression) (cOf : Nat → Compression)
    (hra : ReaderAgrees cOf o c) (hl : LawfulC c) (prog : List WalOp) (hpf : ProgFits c prog) (n : Nat) :
    ∃ rs, replay cOf (dirAfter ((walEventsClosed o c prog).take n)) = (rs, none) ∧
      rs <+: walRecords o c prog ∧
      (walRecords o c prog).take (durableWithin o c prog n) <+: rs := by
  obtain ⟨cl, cu, g1, g2, g3, g4⟩ := run_inv o c cOf hra hl prog hpf
  obtain ⟨w', h1, _⟩ := close_inv o c _ cl cu _ g1
  rw [← walEventsClosed_eq] at h1
  obtain ⟨k1, k2⟩ := crash_core o c cOf hra hl w' cl cu _ h1 g3 n
  rw [g2] at k2
  refine ⟨_, k1, k2, ?_⟩
  have hdur : durableWithin o c prog n ≤
      (imgRecords c (cl ++ [cu]) (dirAfterN ((walEventsClosed o c prog).take n))).length := by
    show durableAux (Wal.run o c prog).2.2 (Wal.run o c prog).2.1.length 0 0 n ≤ _
    apply durableAux_le _ _ _ _ _ _ (Nat.zero_le _)
    intro p hp hpn
    obtain ⟨hle, rs', hr', hlen⟩ := g4 p hp
    have htake : (walEventsClosed o c prog).take p.1 = (walEvents o c prog).take p.1 := by
      rw [walEventsClosed_eq, List.take_append_of_le_length hle]
    obtain ⟨q1, _⟩ := crash_core o c cOf hra hl w' cl cu _ h1 g3 p.1
    rw [htake, hr'] at q1
    have hrs' : rs' = imgRecords c (cl ++ [cu]) (dirAfterN ((walEvents o c prog).take p.1)) :=
      (Prod.mk.inj q1).1
    have hadm := h1.adm
    rw [show cl.length + 1 = (cl ++ [cu]).length by simp] at hadm
    have hmono := imgRecords_mono_take c o.ct (cl ++ [cu]) _ hadm p.1 n hpn
    rw [htake, ← hrs'] at hmono
    omega
  apply List.prefix_of_prefix_length_le (List.take_prefix _ _) k2
  rw [List.length_take]
  omega

/-- the same for kills before `Close` is called -/
theorem replay_after_crash_open (o : WalOpts) (c : Compression) (cOf : Nat → Compression)
    (hra : ReaderAgrees cOf o c) (hl : LawfulC c) (prog : List WalOp) (hpf : ProgFits c prog) (n : Nat)
    (hn : n ≤ (walEvents o c prog).length) :
    ∃ rs, replay cOf (dirAfter ((walEvents o c prog).take n)) = (rs, none) ∧
      rs <+: walRecords o c prog ∧
      (walRecords o c prog).take (durableWithin o c prog n) <+: rs := by
  have := replay_after_crash o c cOf hra hl prog hpf n
  rw [walEventsClosed_eq, List.take_append_of_le_length hn] at this
  exact this

/-! ## a synchronous append has written and fsynced its record when it returns -/

theorem bytesWritten_append (f : Nat) (xs ys : List FsEvent) :
    bytesWritten f (xs ++ ys) = bytesWritten f xs ++ bytesWritten f ys := by
  induction xs with
  | nil => simp [bytesWritten]
  | cons e es ih =>
    cases e with
    | write g bs =>
      simp only [List.cons_append, bytesWritten]
      split <;> simp [ih]
    | create g => simp only [List.cons_append, bytesWritten, ih]
    | fsync g => simp only [List.cons_append, bytesWritten, ih]
    | close g => simp only [List.cons_append, bytesWritten, ih]

theorem bytesWritten_writes (f : Nat) (chs : List Bytes) :
    bytesWritten f (chs.map (.write f)) = chs.flatten := by
  induction chs with
  | nil => rfl
  | cons ch chs ih => simp [bytesWritten, ih]

theorem writePart_sync (c : Compression) (w1 : Wal) (r : GoBytes) (hna : w1.fw.w.aligned = false) :
    ∃ evs0, (writePart c true w1 r).2 = evs0 ++ [.fsync (writePart c true w1 r).1.num] ∧
      bytesWritten (writePart c true w1 r).1.num evs0 = w1.fw.w.buf ++ encRecord c r ∧
      (writePart c true w1 r).1.fw.w.buf = [] := by
  simp only [writePart, if_true]
  refine ⟨_, rfl, ?_, fw_flush_buf _⟩
  rw [bytesWritten_writes, List.flatten_append,
    fw_flush_out _ (by rw [fw_write_aligned]; exact hna)]
  exact fw_write_transp c w1.fw r hna

/-- `AppendSync r` that returns without error: its events end with an `fsync` of the file the record went to,
the `write` events to that file before it carry (after whatever was still buffered) all bytes of the encoded
record, and nothing is left in the buffer. -/
theorem sync_is_durable (o : WalOpts) (c : Compression) (w : Wal) (r : GoBytes)
    (hna : w.fw.w.aligned = false) (hok : (w.append o c true r).2.2 = none) :
    ∃ evs0 pre, (w.append o c true r).2.1 = evs0 ++ [.fsync (w.append o c true r).1.num] ∧
      bytesWritten (w.append o c true r).1.num evs0 = pre ++ encRecord c r ∧
      (w.append o c true r).1.fw.w.buf = [] := by
  rw [append_eq] at hok ⊢
  by_cases hd : w.dead = true
  · rw [if_pos hd] at hok; simp at hok
  · rw [if_neg hd] at hok ⊢
    by_cases hs : w.fw.cur + (r.getD []).length > o.maxSize
    · rw [if_pos hs] at hok ⊢
      cases he : (w.rotate o).2.2 with
      | some e => rw [he] at hok; simp at hok
      | none =>
        have hal : (w.rotate o).1.fw.w.aligned = false := by
          rw [rotate_eq] at he ⊢
          rw [if_neg hd] at he ⊢
          by_cases hg : w.next ≥ maxWalFiles
          · rw [if_pos hg] at he; simp at he
          · rw [if_neg hg]; exact fw_open_aligned _ _
        obtain ⟨evs0, h1, h2, h3⟩ := writePart_sync c (w.rotate o).1 r hal
        refine ⟨(w.rotate o).2.1 ++ evs0,
          bytesWritten (writePart c true (w.rotate o).1 r).1.num (w.rotate o).2.1 ++ (w.rotate o).1.fw.w.buf,
          ?_, ?_, h3⟩
        · show (w.rotate o).2.1 ++ (writePart c true (w.rotate o).1 r).2 = _
          rw [h1, List.append_assoc]
        · show bytesWritten (writePart c true (w.rotate o).1 r).1.num _ = _
          rw [bytesWritten_append, h2, List.append_assoc]
    · rw [if_neg hs]
      obtain ⟨evs0, h1, h2, h3⟩ := writePart_sync c w r hna
      exact ⟨evs0, w.fw.w.buf, h1, h2, h3⟩

/-! ## the one-million-files guard -/

theorem writePart_next (c : Compression) (sync : Bool) (w : Wal) (r : GoBytes) :
    (writePart c sync w r).1.next = w.next ∧ (writePart c sync w r).1.dead = w.dead := by
  cases sync <;> simp [writePart]

/-- below the guard an operation succeeds and opens at most one more file -/
theorem step_ok (o : WalOpts) (c : Compression) (w : Wal) (op : WalOp) (hd : w.dead = false)
    (hn : w.next < maxWalFiles) :
    (w.step o c op).2.2 = none ∧ (w.step o c op).1.dead = false ∧ (w.step o c op).1.next ≤ w.next + 1 := by
  have hd' : ¬ w.dead = true := by simp [hd]
  have hg : ¬ w.next ≥ maxWalFiles := by omega
  have hrot : (w.rotate o).2.2 = none ∧ (w.rotate o).1.dead = false ∧ (w.rotate o).1.next = w.next + 1 := by
    rw [rotate_eq, if_neg hd', if_neg hg]; exact ⟨rfl, rfl, rfl⟩
  have happ : ∀ sync r, (w.append o c sync r).2.2 = none ∧ (w.append o c sync r).1.dead = false ∧
      (w.append o c sync r).1.next ≤ w.next + 1 := by
    intro sync r
    rw [append_eq, if_neg hd']
    by_cases hs : w.fw.cur + (r.getD []).length > o.maxSize
    · rw [if_pos hs, hrot.1]
      have := writePart_next c sync (w.rotate o).1 r
      exact ⟨rfl, by show (writePart c sync (w.rotate o).1 r).1.dead = false; rw [this.2, hrot.2.1],
        by show (writePart c sync (w.rotate o).1 r).1.next ≤ _; rw [this.1, hrot.2.2]; omega⟩
    · rw [if_neg hs]
      have := writePart_next c sync w r
      exact ⟨rfl, by show (writePart c sync w r).1.dead = false; rw [this.2, hd],
        by show (writePart c sync w r).1.next ≤ _; rw [this.1]; omega⟩
  cases op with
  | append r => exact happ false r
  | appendSync r => exact happ true r
  | rotate => exact ⟨hrot.1, hrot.2.1, by show (w.rotate o).1.next ≤ _; rw [hrot.2.2]; omega⟩

theorem runFrom_ok (o : WalOpts) (c : Compression) (prog : List WalOp) (w : Wal) (hd : w.dead = false)
    (hn : w.next + prog.length ≤ maxWalFiles) :
    (∀ t ∈ (Wal.runFrom o c w prog).2, t.err = none) ∧
    traceRecords (Wal.runFrom o c w prog).2 = progRecords prog := by
  induction prog generalizing w with
  | nil => simp [Wal.runFrom, traceRecords, progRecords]
  | cons op ops ih =>
    simp only [List.length_cons] at hn
    obtain ⟨h1, h2, h3⟩ := step_ok o c w op hd (by omega)
    obtain ⟨i1, i2⟩ := ih (w.step o c op).1 h2 (by omega)
    rw [runFrom_cons]
    constructor
    · intro t ht
      simp only [List.mem_cons] at ht
      rcases ht with rfl | ht
      · exact h1
      · exact i1 t ht
    · rw [traceRecords_cons, i2]
      cases op <;> simp [OpTrace.rec?, h1, progRecords]

/-- a program of fewer than 999 999 operations never reaches the guard, and all its records are appended -/
theorem noGuard_of_short (o : WalOpts) (c : Compression) (prog : List WalOp)
    (h : prog.length < maxWalFiles - 1) :
    NoGuard o c prog ∧ walRecords o c prog = progRecords prog := by
  have := runFrom_ok o c prog (Wal.init o).1 rfl (by show 1 + prog.length ≤ _; omega)
  exact this

end SST.Proofs
