/-
Proofs for the sstable stream writer (C15): the invariant tying the writer state to the accepted pairs,
for all call programs and all fault masks.
-/
import SST.Spec.SSTable
import SST.Proofs.RecordIO
namespace SST.Proofs.Sst
open SST Generated SST.Proofs

/-! ## entries of a table -/

theorem entriesFrom_append (dc : Compression) (a : List KV) (k : Bytes) (v : GoBytes) :
    ∀ off, entriesFrom dc off (a ++ [(k, v)]) =
      entriesFrom dc off a ++ [(k, ⟨off + (encAll dc (a.map (·.2))).length, valueSum v⟩)] := by
  induction a with
  | nil => intro off; simp [entriesFrom]
  | cons p a ih =>
    intro off
    obtain ⟨k', v'⟩ := p
    simp only [List.cons_append, entriesFrom, ih, List.map_cons, encAll_cons, List.length_append]
    simp [Nat.add_assoc]

theorem entriesFrom_length (dc : Compression) (a : List KV) : ∀ off, (entriesFrom dc off a).length = a.length := by
  induction a with
  | nil => intro off; rfl
  | cons p a ih => intro off; obtain ⟨k, v⟩ := p; simp [entriesFrom, ih]

theorem entriesFrom_keys (dc : Compression) (a : List KV) : ∀ off, (entriesFrom dc off a).map (·.1) = a.map (·.1) := by
  induction a with
  | nil => intro off; rfl
  | cons p a ih => intro off; obtain ⟨k, v⟩ := p; simp [entriesFrom, ih]

/-! ## the writer invariant -/

/-- the accumulated metadata after the accepted pairs `acc` -/
def mdOf (acc : List KV) : Meta :=
  { version := sstVersion, numRecords := acc.length, minKey := acc.head?.map (·.1),
    nullValues := (acc.filter (·.2.isNone)).length }

/-- writer invariant: both recordio writers hold exactly the accepted pairs, the last key is the last
ACCEPTED key, the metadata accumulator counts the accepted pairs -/
structure SInv (cfg : SstCfg) (acc : List KV) (w : SstW) : Prop where
  data : WInv cfg.dc cfg.dct (acc.map (·.2)) w.data
  index : WInv cfg.ic cfg.ict ((entriesOf cfg.dc acc).map indexRecOf) w.index
  lastKey : w.lastKey = acc.getLast?.map (·.1)
  md : w.md = mdOf acc

theorem SInv_open (cfg : SstCfg) : SInv cfg [] (SstW.open cfg) :=
  ⟨WInv_init _ _, WInv_init _ _, rfl, rfl⟩

theorem orderCheck_eq (cfg : SstCfg) (acc : List KV) (w : SstW) (h : SInv cfg acc w) (key : Bytes) :
    w.orderCheck cfg key =
      match acc.getLast? with
      | some l =>
        (match cfg.cmp l.1 key with
         | .eq => some .dup
         | .gt => some .desc
         | .lt => none)
      | none => none := by
  unfold SstW.orderCheck
  rw [h.lastKey]
  cases acc.getLast? <;> rfl

theorem getLast?_none_iff {α : Type} (l : List α) : l.getLast? = none ↔ l = [] := by
  cases l with
  | nil => simp
  | cons a l => simp

theorem seek_back (c : Compression) (ct : Nat) (rs : List GoBytes) (r : GoBytes) (w : WState)
    (h : WInv c ct rs w) :
    ∃ w', ((w.write c r).1).seek w.cur = .ok w' ∧ WInv c ct rs w' := by
  have h1 := WInv_write c ct rs w r h
  obtain ⟨w', hs, hi⟩ := WInv_seek c ct (rs ++ [r]) (w.write c r).1 rs.length h1
  have hoff : offsetOf c (rs ++ [r]) rs.length = w.cur := by
    simp [offsetOf, h.cur]
  rw [hoff] at hs
  refine ⟨w', hs, ?_⟩
  simpa using hi

theorem writeBody_spec (cfg : SstCfg) (acc : List KV) (w : SstW) (key : Bytes) (value : GoBytes) (fault : Fault)
    (h : SInv cfg acc w) :
    SInv cfg (if fault = Fault.none then acc ++ [(key, value)] else acc) (w.writeBody cfg key value fault).1 ∧
    (w.writeBody cfg key value fault).2 = (if fault = Fault.none then WRes.ok else WRes.io) := by
  cases fault with
  | data => exact ⟨⟨h.data, h.index, h.lastKey, h.md⟩, rfl⟩
  | index =>
    obtain ⟨w', hs, hi⟩ := seek_back cfg.dc cfg.dct _ value w.data h.data
    refine ⟨?_, rfl⟩
    simp only [SstW.writeBody, hs, reduceCtorEq, if_false]
    exact ⟨hi, h.index, h.lastKey, h.md⟩
  | none =>
    refine ⟨?_, rfl⟩
    simp only [SstW.writeBody, if_true]
    refine ⟨?_, ?_, ?_, ?_⟩
    · have := WInv_write cfg.dc cfg.dct _ w.data value h.data
      simpa using this
    · have hoff : (w.data.write cfg.dc value).2 = fileHeaderSize + (encAll cfg.dc (acc.map (·.2))).length :=
        h.data.cur
      have hw := WInv_write cfg.ic cfg.ict _ w.index
        (some (encIndexEntry key (w.data.write cfg.dc value).2 (valueSum value))) h.index
      have he : (entriesOf cfg.dc (acc ++ [(key, value)])).map indexRecOf =
          (entriesOf cfg.dc acc).map indexRecOf ++
            [some (encIndexEntry key (w.data.write cfg.dc value).2 (valueSum value))] := by
        rw [hoff]
        simp [entriesOf, entriesFrom_append, indexRecOf]
      rw [he]
      exact hw
    · simp
    · show ({ w.md with
                minKey := if w.lastKey.isNone then some key else w.md.minKey
                numRecords := w.md.numRecords + 1
                nullValues := if value.isNone then w.md.nullValues + 1 else w.md.nullValues } : Meta) = mdOf (acc ++ [(key, value)])
      rw [h.md, h.lastKey]
      unfold mdOf
      simp only [List.filter_append, List.length_append, List.head?_append]
      cases acc with
      | nil => cases value <;> simp
      | cons p rest =>
        have : ((p :: rest).getLast?.map (·.1)).isNone = false := by
          cases hgl : (p :: rest).getLast? with
          | none => exact absurd ((getLast?_none_iff _).mp hgl) (by simp)
          | some x => rfl
        cases value <;> simp [this]

/-- one `WriteNext` call: the invariant moves to the accepted pairs after the call and the answer is the
specified one, whatever the fault -/
theorem writeNext_spec (cfg : SstCfg) (acc : List KV) (w : SstW) (c : Call) (h : SInv cfg acc w) :
    SInv cfg (acceptStep cfg.cmp acc c) (w.writeNext cfg c.key c.value c.fault).1 ∧
    (w.writeNext cfg c.key c.value c.fault).2 = specRes cfg.cmp acc c := by
  obtain ⟨key, value, fault⟩ := c
  have hb := writeBody_spec cfg acc w key value fault h
  simp only
  unfold SstW.writeNext
  rw [orderCheck_eq cfg acc w h key]
  unfold specRes acceptStep mayFollow
  cases hgl : acc.getLast? with
  | none => simpa using hb
  | some l =>
    cases hc : cfg.cmp l.1 key with
    | eq => simp only [hc]; simp; exact h
    | gt => simp only [hc]; simp; exact h
    | lt => simpa [hc] using hb

/-- a whole program -/
theorem run_spec (cfg : SstCfg) : ∀ (cs : List Call) (acc : List KV) (w : SstW), SInv cfg acc w →
    SInv cfg (acceptedFrom cfg.cmp acc cs) (w.run cfg cs).1 ∧
    (w.run cfg cs).2 = specResults cfg.cmp acc cs := by
  intro cs
  induction cs with
  | nil => intro acc w h; exact ⟨h, rfl⟩
  | cons c cs ih =>
    intro acc w h
    obtain ⟨h1, h2⟩ := writeNext_spec cfg acc w c h
    obtain ⟨h3, h4⟩ := ih _ _ h1
    simp only [SstW.run, acceptedFrom, specResults]
    exact ⟨h3, by rw [h2, h4]⟩

/-- `Close`: the files are exactly those of the accepted pairs and the metadata is truthful -/
theorem close_spec (cfg : SstCfg) (acc : List KV) (w : SstW) (h : SInv cfg acc w) :
    w.close = tableOf cfg acc ∧ w.finalMeta = metaOf cfg acc := by
  obtain ⟨hd1, hd2⟩ := WInv_close _ _ _ _ h.data
  obtain ⟨hi1, hi2⟩ := WInv_close _ _ _ _ h.index
  have hm : w.finalMeta = metaOf cfg acc := by
    unfold SstW.finalMeta metaOf dataFileOf indexFileOf
    rw [h.md, h.lastKey, hd2, hi2, hd1, hi1]
    rfl
  refine ⟨?_, hm⟩
  unfold SstW.close tableOf
  rw [hm, hd1, hi1]
  rfl

theorem run_open_spec (cfg : SstCfg) (cs : List Call) :
    let w := ((SstW.open cfg).run cfg cs).1
    SInv cfg (accepted cfg.cmp cs) w ∧ ((SstW.open cfg).run cfg cs).2 = specResults cfg.cmp [] cs :=
  run_spec cfg cs [] _ (SInv_open cfg)

/-! ## the accepted pairs are strictly ascending -/

theorem pairwise_append_last {α : Type} (R : α → α → Prop) (l : List α) (x : α)
    (hl : l.Pairwise R) (hx : ∀ y ∈ l, R y x) : (l ++ [x]).Pairwise R := by
  rw [List.pairwise_append]
  exact ⟨hl, List.pairwise_singleton _ _, by intro a ha b hb; simp at hb; subst hb; exact hx a ha⟩

theorem lt_last_of_strictAsc (cmp : Bytes → Bytes → Ordering)
    (acc : List KV) (hs : StrictAsc cmp acc) (l : KV) (hl : acc.getLast? = some l) :
    ∀ y ∈ acc, y = l ∨ cmp y.1 l.1 = .lt := by
  induction acc with
  | nil => simp at hl
  | cons a rest ih =>
    cases rest with
    | nil =>
      intro y hy
      simp at hl hy
      left; rw [hy, hl]
    | cons b rest' =>
      rw [List.getLast?_cons_cons] at hl
      intro y hy
      rcases List.mem_cons.mp hy with rfl | hy'
      · right
        have hmem : l ∈ b :: rest' := List.mem_of_getLast? hl
        exact (List.pairwise_cons.mp hs).1 l hmem
      · exact ih (List.pairwise_cons.mp hs).2 hl y hy'

theorem acceptStep_strictAsc (cmp : Bytes → Bytes → Ordering)
    (htr : ∀ a b c, cmp a b = .lt → cmp b c = .lt → cmp a c = .lt)
    (acc : List KV) (c : Call) (hs : StrictAsc cmp acc) : StrictAsc cmp (acceptStep cmp acc c) := by
  unfold acceptStep
  split
  · rename_i hc
    obtain ⟨_, hm⟩ := hc
    apply pairwise_append_last _ _ _ hs
    intro y hy
    unfold mayFollow at hm
    cases hgl : acc.getLast? with
    | none => rw [(getLast?_none_iff _).mp hgl] at hy; cases hy
    | some l =>
      rw [hgl] at hm
      have hlt : cmp l.1 c.key = .lt := by simpa using hm
      rcases lt_last_of_strictAsc cmp acc hs l hgl y hy with h | h
      · subst h; exact hlt
      · exact htr _ _ _ h hlt
  · exact hs

theorem acceptedFrom_strictAsc (cmp : Bytes → Bytes → Ordering)
    (htr : ∀ a b c, cmp a b = .lt → cmp b c = .lt → cmp a c = .lt) :
    ∀ (cs : List Call) (acc : List KV), StrictAsc cmp acc → StrictAsc cmp (acceptedFrom cmp acc cs) := by
  intro cs
  induction cs with
  | nil => intro acc h; exact h
  | cons c cs ih => intro acc h; exact ih _ (acceptStep_strictAsc cmp htr acc c h)

theorem accepted_strictAsc (cmp : Bytes → Bytes → Ordering)
    (htr : ∀ a b c, cmp a b = .lt → cmp b c = .lt → cmp a c = .lt) (cs : List Call) :
    StrictAsc cmp (accepted cmp cs) :=
  acceptedFrom_strictAsc cmp htr cs [] List.Pairwise.nil

/-- an ascending fault-free program is accepted entirely -/
theorem acceptedFrom_ascending (cmp : Bytes → Bytes → Ordering) :
    ∀ (kvs acc : List KV), StrictAsc cmp (acc ++ kvs) →
      acceptedFrom cmp acc (kvs.map fun p => { key := p.1, value := p.2, fault := .none }) = acc ++ kvs := by
  intro kvs
  induction kvs with
  | nil => intro acc _; simp [acceptedFrom]
  | cons p kvs ih =>
    intro acc hs
    have hm : mayFollow cmp acc p.1 = true := by
      unfold mayFollow
      cases hgl : acc.getLast? with
      | none => rfl
      | some l =>
        have hmem : l ∈ acc := List.mem_of_getLast? hgl
        have := (List.pairwise_append.mp hs).2.2 l hmem p (by simp)
        simp [this]
    have hstep : acceptStep cmp acc { key := p.1, value := p.2, fault := .none } = acc ++ [p] := by
      unfold acceptStep
      simp [hm]
    simp only [List.map_cons, acceptedFrom, hstep]
    rw [ih (acc ++ [p]) (by simpa using hs)]
    simp

theorem accepted_ascending (cmp : Bytes → Bytes → Ordering) (kvs : List KV) (hs : StrictAsc cmp kvs) :
    accepted cmp (kvs.map fun p => { key := p.1, value := p.2, fault := .none }) = kvs := by
  have := acceptedFrom_ascending cmp kvs [] (by simpa using hs)
  simpa [accepted] using this

/-- `writeTable` of an ascending list is the table of that list -/
theorem writeTable_eq (cfg : SstCfg) (kvs : List KV) (hs : StrictAsc cfg.cmp kvs) :
    writeTable cfg kvs = tableOf cfg kvs := by
  unfold writeTable
  obtain ⟨h1, _⟩ := run_open_spec cfg (kvs.map fun p => { key := p.1, value := p.2, fault := .none })
  rw [accepted_ascending cfg.cmp kvs hs] at h1
  exact (close_spec cfg kvs _ h1).1

/-! ## the property-level statements of C15 -/

theorem writer_accepts_iff_ascending (cfg : SstCfg) (cs : List Call) (key : Bytes) (value : GoBytes) :
    let w := ((SstW.open cfg).run cfg cs).1
    let acc := accepted cfg.cmp cs
    ((w.writeNext cfg key value .none).2 = .ok ↔
      (acc = [] ∨ ∃ l, acc.getLast? = some l ∧ cfg.cmp l.1 key = .lt)) ∧
    ((w.writeNext cfg key value .none).2 ≠ .ok →
      (w.writeNext cfg key value .none).1 = w ∧
      ((w.writeNext cfg key value .none).2 = .dup ∨ (w.writeNext cfg key value .none).2 = .desc)) := by
  intro w acc
  obtain ⟨hinv, _⟩ := run_open_spec cfg cs
  have hres := (writeNext_spec cfg acc w ⟨key, value, .none⟩ hinv).2
  simp only at hres
  have hoc := orderCheck_eq cfg acc w hinv key
  constructor
  · rw [hres]
    unfold specRes
    cases hgl : acc.getLast? with
    | none => simp [(getLast?_none_iff _).mp hgl]
    | some l =>
      have hne : acc ≠ [] := by intro h; rw [h] at hgl; cases hgl
      cases hc : cfg.cmp l.1 key <;> simp [hne, hc]
  · intro hne
    unfold SstW.writeNext at hne ⊢
    rw [hoc] at hne ⊢
    cases hgl : acc.getLast? with
    | none =>
      exfalso; apply hne
      rw [hgl]
      exact (writeBody_spec cfg acc w key value .none hinv).2
    | some l =>
      rw [hgl] at hne
      cases hc : cfg.cmp l.1 key with
      | eq => simp [hc]
      | gt => simp [hc]
      | lt =>
        exfalso; apply hne
        simp only [hc]
        exact (writeBody_spec cfg acc w key value .none hinv).2

/-- two writer states that satisfy the invariant for the same accepted pairs cannot be told apart by any
continuation program, by `Close`, or by the metadata -/
theorem SInv_indistinguishable (cfg : SstCfg) (acc : List KV) (w w' : SstW) (h : SInv cfg acc w) (h' : SInv cfg acc w')
    (cs : List Call) :
    (w'.run cfg cs).2 = (w.run cfg cs).2 ∧ (w'.run cfg cs).1.close = (w.run cfg cs).1.close ∧
    (w'.run cfg cs).1.finalMeta = (w.run cfg cs).1.finalMeta := by
  obtain ⟨i1, r1⟩ := run_spec cfg cs acc w h
  obtain ⟨i2, r2⟩ := run_spec cfg cs acc w' h'
  obtain ⟨c1, m1⟩ := close_spec cfg _ _ i1
  obtain ⟨c2, m2⟩ := close_spec cfg _ _ i2
  exact ⟨by rw [r1, r2], by rw [c1, c2], by rw [m1, m2]⟩

theorem fault_rolled_back (cfg : SstCfg) (cs : List Call) (key : Bytes) (value : GoBytes) (f : Fault)
    (hf : f ≠ .none) (cs' : List Call) :
    let w := ((SstW.open cfg).run cfg cs).1
    let w' := (w.writeNext cfg key value f).1
    (w.writeNext cfg key value f).2 ≠ .ok ∧
    w'.close = w.close ∧ w'.finalMeta = w.finalMeta ∧
    (w'.run cfg cs').2 = (w.run cfg cs').2 ∧
    (w'.run cfg cs').1.close = (w.run cfg cs').1.close ∧
    (w'.run cfg cs').1.finalMeta = (w.run cfg cs').1.finalMeta := by
  intro w w'
  obtain ⟨hinv, _⟩ := run_open_spec cfg cs
  obtain ⟨hinv', hres⟩ := writeNext_spec cfg (accepted cfg.cmp cs) w ⟨key, value, f⟩ hinv
  have hstep : acceptStep cfg.cmp (accepted cfg.cmp cs) ⟨key, value, f⟩ = accepted cfg.cmp cs := by
    unfold acceptStep; simp [hf]
  rw [hstep] at hinv'
  refine ⟨?_, ?_, ?_, SInv_indistinguishable cfg _ w w' hinv hinv' cs'⟩
  · simp only at hres
    rw [hres]
    unfold specRes
    cases (accepted cfg.cmp cs).getLast? with
    | none => simp [hf]
    | some l => cases hc : cfg.cmp l.1 key <;> simp [hf, hc]
  · exact (SInv_indistinguishable cfg _ w w' hinv hinv' []).2.1
  · exact (SInv_indistinguishable cfg _ w w' hinv hinv' []).2.2

end SST.Proofs.Sst
