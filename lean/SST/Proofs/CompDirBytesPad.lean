/-
Proofs for SST/Model/CompDirBytes.lean, part 2: a cut flag file followed by ZERO PADDING (not a kill-9 image: what a
file system that extends a file before its data is durable can leave after a power loss).
The payload level is in CompDirBytesPadPb.lean, the record level in CompDirBytesPadRec.lean; here: the file level.
-/
import SST.Proofs.CompDirBytesDefs
import SST.Proofs.RecordIODamage
import SST.Proofs.Proto
import SST.Proofs.CompDirBytesPadRec
namespace SST.Proofs.CompDir
open SST SST.CompDir Generated SST.Proofs SST.Proofs.CompDir.Pad

/-- the payload level: a cut marshalled message, padded with zeros to its length, fails to unmarshal or unmarshals to
the message with the tail of its last written string zeroed -/
theorem decCompMeta_pad (m : RawMeta) (h : MetaOk m) (j : Nat) (hj : j < (encCompMeta m).length) :
    decCompMeta ((encCompMeta m).take j ++ zeros ((encCompMeta m).length - j)) = none ∨
    ∃ i, decCompMeta ((encCompMeta m).take j ++ zeros ((encCompMeta m).length - j)) = some (zeroTail m i) :=
  decCompMeta_padCut m h.fits j hj

/-! ## `Open` and `ReadNext` of the flag reader, for an abstract file -/

namespace Pad

theorem pad_openSeq_err (comps : Nat → Compression) (file : Bytes) (e : Err) (h : parseFileHeader file = .error e) :
    openSeq comps file = .error e := by
  unfold openSeq; rw [h]

theorem pad_openSeq_ok (comps : Nat → Compression) (file : Bytes) (ct : Nat)
    (h : parseFileHeader file = .ok (currentVersion, ct)) :
    openSeq comps file = .ok (comps ct, file.drop fileHeaderSize) := by
  unfold openSeq; rw [h]; simp

theorem readFlag_open_err (comps : Nat → Compression) (file : Bytes) (e : Err) (h : openSeq comps file = .error e) :
    readFlag comps (some file) = none := by
  simp only [readFlag, h]

theorem readFlag_read_err (comps : Nat → Compression) (file : Bytes) (c : Compression) (s : Bytes) (e : Err)
    (h : openSeq comps file = .ok (c, s)) (hr : readNextS c s = .error e) :
    readFlag comps (some file) = none := by
  simp only [readFlag, h, hr]

theorem readFlag_read_ok (comps : Nat → Compression) (file : Bytes) (c : Compression) (s : Bytes) (r : GoBytes)
    (n : Nat) (h : openSeq comps file = .ok (c, s)) (hr : readNextS c s = .ok (r, n)) :
    readFlag comps (some file) = decCompMeta (r.getD []) := by
  simp only [readFlag, h, hr]

theorem parse_short (file : Bytes) (h : file.length < fileHeaderSize) : ∃ e, parseFileHeader file = .error e := by
  unfold parseFileHeader
  rw [if_pos h]
  split <;> exact ⟨_, rfl⟩

/-- a flag file that starts with the genuine file header -/
theorem openSeq_flag (comps : Nat → Compression) (X : Bytes) :
    openSeq comps (fileHeader currentVersion 0 ++ X) = .ok (comps 0, X) := by
  have hp : parseFileHeader (fileHeader currentVersion 0 ++ X) = .ok (currentVersion, 0) :=
    file_header_accepted currentVersion 0 X ⟨by decide, Nat.le_refl _⟩ (by decide)
  have hd : (fileHeader currentVersion 0 ++ X).drop fileHeaderSize = X := List.drop_left' (fileHeader_length _ _)
  rw [pad_openSeq_ok comps _ 0 hp, hd]

theorem fh_eq : fileHeader currentVersion 0 = 4 :: zeros 7 := by decide

theorem le32_zero : le32 0 = zeros 4 := by decide

end Pad

/-- EXACT characterisation of a zero-padded cut: for EVERY metadata value, EVERY proper prefix of its flag file and
EVERY amount of zero padding the flag does not read, or reads as the metadata with the tail of its last written string
replaced by NUL bytes (`zeroTail m i`; for `i` ≥ that string's length this is `m` itself, which happens when the
padding restores bytes that were zero anyway) -/
theorem flag_pad (comps : Nat → Compression) (hc : comps 0 = none) (m : RawMeta) (h : MetaOk m) (k : Nat)
    (hk : k < (flagBytes m).length) (z : Nat) :
    readFlag comps (some ((flagBytes m).take k ++ zeros z)) = none ∨
    ∃ i, readFlag comps (some ((flagBytes m).take k ++ zeros z)) = some (zeroTail m i) := by
  have hfl : (fileHeader currentVersion 0).length = 8 := fileHeader_length _ _
  have h8 : fileHeaderSize = 8 := rfl
  unfold flagBytes at hk ⊢
  rw [List.length_append, hfl] at hk
  by_cases hk8 : 8 ≤ k
  · -- the file header is there: the record level decides
    have hfile : (fileHeader currentVersion 0 ++ flagRecord m).take k ++ zeros z =
        fileHeader currentVersion 0 ++ ((flagRecord m).take (k - 8) ++ zeros z) := by
      rw [take_append_ge' _ _ k 8 hfl hk8, List.append_assoc]
    rw [hfile]
    have hopen := openSeq_flag comps ((flagRecord m).take (k - 8) ++ zeros z)
    rw [hc] at hopen
    rcases rec_pad (encCompMeta m) h.fits (k - 8) (by unfold flagRecord at hk; omega) z with ⟨e, he⟩ | ⟨j, n', hj, hr⟩
    · exact Or.inl (readFlag_read_err comps _ _ _ e hopen he)
    · rw [readFlag_read_ok comps _ _ _ _ n' hopen hr]
      exact decCompMeta_padCut m h.fits j hj
  · -- cut inside the file header
    left
    rw [List.take_append_of_le_length (by omega)]
    by_cases hshort : k + z < 8
    · obtain ⟨e, he⟩ := parse_short ((fileHeader currentVersion 0).take k ++ zeros z)
        (by rw [List.length_append, List.length_take, zeros_length, hfl, h8]; omega)
      exact readFlag_open_err comps _ e (pad_openSeq_err comps _ e he)
    · by_cases hk0 : k = 0
      · -- all zeros: version 0
        subst hk0
        have hz : (fileHeader currentVersion 0).take 0 ++ zeros z = le32 0 ++ le32 0 ++ zeros (z - 8) := by
          rw [List.take_zero, List.nil_append, le32_zero, zeros_add, zeros_add]
          congr 1; omega
        rw [hz]
        have hp := file_header_rejected 0 0 (zeros (z - 8)) (by decide) (by decide) (Or.inr (Or.inl (by decide)))
        exact readFlag_open_err comps _ _ (pad_openSeq_err comps _ _ hp)
      · -- the version byte is there, the rest of the header is zero anyway: an EMPTY flag file followed by zeros
        have hz : (fileHeader currentVersion 0).take k ++ zeros z =
            fileHeader currentVersion 0 ++ zeros (k + z - 8) := by
          obtain ⟨k', rfl⟩ : ∃ k', k = k' + 1 := ⟨k - 1, by omega⟩
          rw [fh_eq, List.take_succ_cons, zeros_take, List.cons_append, List.cons_append, zeros_add, zeros_add]
          congr 2; omega
        rw [hz]
        have hopen := openSeq_flag comps (zeros (k + z - 8))
        exact readFlag_read_err comps _ _ _ _ hopen (zero_tail_is_eof (comps 0) (k + z - 8))

end SST.Proofs.CompDir
