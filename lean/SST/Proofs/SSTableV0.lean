/-
Proofs for the VERSION-0 table reader (C03, legacy path): a version-0 table laid out from an ascending list
(`V0.filesOf`), both recordio files in any version 1–4, reads back as the sorted map of the list (values nil/empty
normalised) through the slice, skip-list and map loaders; what the reader reports as metadata; what a compaction
receives from it.  Built on SST/Proofs/RecordIOLegacy.lean (per-record round trips of the legacy readers) and on the
index lemmas of SST/Proofs/SSTableIndex.lean / SSTableReader.lean.
-/
import SST.Spec.SSTableV0
import SST.Proofs.RecordIOLegacy
import SST.Proofs.SSTableReader
namespace SST.Proofs.V0
open SST Generated SST.Proofs SST.Legacy SST.V0 SST.Proofs.Legacy SST.Proofs.Sst

/-! ## the `DataEntry` message -/

theorem decDataEntry_enc (v : GoBytes) (hv : (v.getD []).length < 2 ^ 64) :
    TblDir.decDataEntry (encDataEntry v) = (normGo v, none) := by
  have hd : Pb.Dec TblDir.dataEntrySchema (pbBytesField 1 (v.getD []) ++ []) []
      ([] ++ Pb.optB 1 (v.getD []), none) :=
    Pb.dec_bytes rfl (by omega) (by omega) hv (Pb.dec_nil _ _)
  rw [List.append_nil] at hd
  have g : pbGetBytes ([] ++ Pb.optB 1 (v.getD [])) 1 = normKey (v.getD []) := by
    simp only [pbGetBytes, List.nil_append, Pb.find_optB]
    by_cases h : (v.getD []).length = 0 <;> simp [h, normKey]
  unfold TblDir.decDataEntry encDataEntry
  rw [Pb.dec_pbDecode hd]
  simp only [g, normGo]

/-! ## triples of a version-0 table: (key, value as served, (offset, checksum 0)) -/

def tripFromV0 (dv : Nat) (dc : Compression) (off : Nat) : List KV → List Trip
  | [] => []
  | (k, v) :: rest =>
    (k, normVal v, ⟨off, 0⟩) :: tripFromV0 dv dc (off + (encRecordL dv dc (dataRecOf v)).length) rest

def tripsV0 (cfg : Cfg) (kvs : List KV) : List Trip := tripFromV0 cfg.dv cfg.dc fileHeaderSize kvs

/-- the loaded index of the version-0 table of `kvs` -/
def loadedEntriesV0 (cfg : Cfg) (kvs : List KV) : List IEntry := (tripsV0 cfg kvs).map Trip.ie

theorem tripFromV0_kv (dv : Nat) (dc : Compression) (l : List KV) :
    ∀ off, (tripFromV0 dv dc off l).map Trip.kv = normKVs l := by
  induction l with
  | nil => intro _; rfl
  | cons p l ih =>
    intro off; obtain ⟨k, v⟩ := p
    simp only [tripFromV0, List.map_cons, ih, normKVs, Trip.kv]

theorem tripFromV0_entry (dv : Nat) (dc : Compression) (l : List KV) :
    ∀ off, (tripFromV0 dv dc off l).map (fun t => (t.1, t.2.2.off)) = entriesFromV0 dv dc off l := by
  induction l with
  | nil => intro _; rfl
  | cons p l ih =>
    intro off; obtain ⟨k, v⟩ := p
    simp only [tripFromV0, entriesFromV0, List.map_cons, ih]

theorem tripFromV0_sum (dv : Nat) (dc : Compression) (l : List KV) :
    ∀ off, ∀ t ∈ tripFromV0 dv dc off l, t.2.2.sum = 0 := by
  induction l with
  | nil => intro _ t ht; cases ht
  | cons p l ih =>
    intro off t ht; obtain ⟨k, v⟩ := p
    simp only [tripFromV0, List.mem_cons] at ht
    rcases ht with rfl | ht
    · rfl
    · exact ih _ t ht

theorem tripsV0_kv (cfg : Cfg) (kvs : List KV) : (tripsV0 cfg kvs).map Trip.kv = normKVs kvs :=
  tripFromV0_kv _ _ _ _

theorem tripsV0_entry (cfg : Cfg) (kvs : List KV) :
    (tripsV0 cfg kvs).map (fun t => (t.1, t.2.2.off)) = entriesOfV0 cfg kvs := tripFromV0_entry _ _ _ _

theorem entriesFromV0_keys (dv : Nat) (dc : Compression) (l : List KV) :
    ∀ off, (entriesFromV0 dv dc off l).map (·.1) = l.map (·.1) := by
  induction l with
  | nil => intro _; rfl
  | cons p l ih => intro off; obtain ⟨k, v⟩ := p; simp only [entriesFromV0, List.map_cons, ih]

/-! ## recordio plumbing -/

theorem encAllL_cons (v : Nat) (c : Compression) (r : GoBytes) (rs : List GoBytes) :
    encAllL v c (r :: rs) = encRecordL v c r ++ encAllL v c rs := by
  simp [encAllL]

theorem encAllL_nil (v : Nat) (c : Compression) : encAllL v c [] = [] := rfl

theorem length_le_encAllL (v : Nat) (c : Compression) (rs : List GoBytes) : rs.length ≤ (encAllL v c rs).length := by
  induction rs with
  | nil => simp
  | cons r rs ih =>
    have := encRecordL_pos v c r
    rw [encAllL_cons]
    simp only [List.length_cons, List.length_append]; omega

theorem encFileL_eq (v : Nat) (c : Compression) (ct : Nat) (rs : List GoBytes) :
    encFileL v c ct rs = fileHeader v ct ++ encAllL v c rs := rfl

/-- with `emptyNil = false` a non-nil record comes back as it is, in every file version -/
theorem backL_false_some (v : Nat) (c : Compression) (b : Bytes) : backL false v c (some b) = some b := by
  unfold backL
  split
  · cases c <;> simp [v1Result]
  · split <;> simp

theorem openSeqL_of_parse (comps : Nat → Compression) (file : Bytes) (v ct : Nat)
    (h : parseFileHeader file = .ok (v, ct)) :
    openSeqL comps file = .ok (v, comps ct, file.drop fileHeaderSize) := by
  unfold openSeqL
  rw [h]

theorem openMmapL_of_parse (comps : Nat → Compression) (file : Bytes) (v ct : Nat)
    (hlen : ¬ file.length < fileHeaderSize) (h : parseFileHeader file = .ok (v, ct)) :
    openMmapL comps file = .ok (v, comps ct) := by
  unfold openMmapL
  rw [if_neg hlen, h]

theorem drop_fileHeaderL (v ct : Nat) (rest : Bytes) : (fileHeader v ct ++ rest).drop fileHeaderSize = rest :=
  List.drop_left' (fileHeader_length _ _)

theorem openSeqL_file (comps : Nat → Compression) (v ct : Nat) (c : Compression) (rs : List GoBytes)
    (hv : IsVersion v) (hct : ct ≤ maxCompression) :
    openSeqL comps (encFileL v c ct rs) = .ok (v, comps ct, encAllL v c rs) := by
  rw [encFileL_eq, openSeqL_of_parse comps _ v ct (parse_fileHeaderL v ct _ hv hct), drop_fileHeaderL]

theorem openMmapL_file (comps : Nat → Compression) (v ct : Nat) (c : Compression) (rs : List GoBytes)
    (hv : IsVersion v) (hct : ct ≤ maxCompression) :
    openMmapL comps (encFileL v c ct rs) = .ok (v, comps ct) := by
  rw [encFileL_eq]
  have hlen : ¬ (fileHeader v ct ++ encAllL v c rs).length < fileHeaderSize := by
    rw [List.length_append, fileHeader_length]; show ¬ (8 + _ < 8); omega
  exact openMmapL_of_parse comps _ v ct hlen (parse_fileHeaderL v ct _ hv hct)

/-! ## loading the index file -/

theorem loadEntriesSL_enc (v : Nat) (hv : IsVersion v) (c : Compression) (hl : LawfulC c) (es : List (Bytes × Nat)) :
    ∀ fuel, es.length < fuel →
      (∀ e ∈ es, e.1.length < 2 ^ 64 ∧ e.2 < 2 ^ 64 ∧ FitsL c (indexRecOfV0 e)) →
      loadEntriesSL v c fuel (encAllL v c (es.map indexRecOfV0)) =
        .ok (es.map fun e => (normKey e.1, (⟨e.2, 0⟩ : IndexVal))) := by
  induction es with
  | nil =>
    intro fuel hf _
    cases fuel with
    | zero => omega
    | succ f => simp [loadEntriesSL, encAllL_nil, readNextL_nil false v hv c]
  | cons e es ih =>
    intro fuel hf hfit
    cases fuel with
    | zero => omega
    | succ f =>
      obtain ⟨h1, h2, h3⟩ := hfit e (by simp)
      have hr := readNextL_enc false v hv c (indexRecOfV0 e) (encAllL v c (es.map indexRecOfV0)) hl h3
      have hd := Pb.decIndexEntry_enc e.1 e.2 0 h1 h2 (by decide)
      have ih' := ih f (by simpa using hf) (fun x hx => hfit x (by simp [hx]))
      have hb : backL false v c (indexRecOfV0 e) = some (encIndexEntry e.1 e.2 0) := backL_false_some _ _ _
      simp only [List.map_cons, encAllL_cons, loadEntriesSL, hr, hb]
      simp only [Option.getD_some, hd, List.drop_left, ih']
      simp [Except.map, IndexEntry.toI]

theorem loadEntriesL_of_open (comps : Nat → Compression) (file : Bytes) (v : Nat) (c : Compression) (st : Bytes)
    (h : openSeqL comps file = .ok (v, c, st)) : loadEntriesL comps file = loadEntriesSL v c (st.length + 1) st := by
  unfold loadEntriesL; rw [h]

theorem loadedEntriesV0_eq (cfg : Cfg) (kvs : List KV) :
    loadedEntriesV0 cfg kvs = (entriesOfV0 cfg kvs).map fun e => (normKey e.1, (⟨e.2, 0⟩ : IndexVal)) := by
  unfold loadedEntriesV0
  rw [← tripsV0_entry, List.map_map]
  apply List.map_congr_left
  intro t ht
  have := tripFromV0_sum _ _ _ _ t ht
  obtain ⟨k, v, off, sum⟩ := t
  simp only at this
  subst this
  rfl

theorem loadEntriesL_table (comps : Nat → Compression) (cfg : Cfg) (kvs : List KV)
    (hc : CfgOk comps cfg) (hf : FitsV0 cfg kvs) :
    loadEntriesL comps (indexFileOfV0 cfg kvs) = .ok (loadedEntriesV0 cfg kvs) := by
  obtain ⟨_, hci, _, hli, _, hict, hiv, _⟩ := hc
  obtain ⟨h1, h2⟩ := hf
  have hopen : openSeqL comps (indexFileOfV0 cfg kvs) =
      .ok (cfg.iv, cfg.ic, encAllL cfg.iv cfg.ic ((entriesOfV0 cfg kvs).map indexRecOfV0)) := by
    have := openSeqL_file comps cfg.iv cfg.ict cfg.ic ((entriesOfV0 cfg kvs).map indexRecOfV0) hiv hict
    rw [hci] at this; exact this
  rw [loadEntriesL_of_open comps _ _ _ _ hopen]
  have hlen := length_le_encAllL cfg.iv cfg.ic ((entriesOfV0 cfg kvs).map indexRecOfV0)
  rw [loadEntriesSL_enc cfg.iv hiv cfg.ic hli (entriesOfV0 cfg kvs) _
    (by simp only [List.length_map] at hlen; omega)]
  · rw [loadedEntriesV0_eq]
  · intro e he
    have hk : e.1 ∈ kvs.map (·.1) := by
      rw [← entriesFromV0_keys cfg.dv cfg.dc kvs fileHeaderSize]
      exact List.mem_map_of_mem he
    obtain ⟨p, hp, hpe⟩ := List.mem_map.mp hk
    exact ⟨hpe ▸ (h1 p hp).2.1, (h2 e he).1, (h2 e he).2⟩

theorem loadedEntriesV0_strictAsc (cfg : Cfg) (kvs : List KV) (hs : StrictAsc bytesCmp kvs) :
    StrictAsc keyCmp (loadedEntriesV0 cfg kvs) := by
  have hs' : StrictAsc bytesCmp (normKVs kvs) := by
    unfold StrictAsc normKVs at *
    rw [List.pairwise_map]
    exact hs.imp (fun {a b} h => h)
  unfold StrictAsc loadedEntriesV0 at *
  rw [← tripsV0_kv cfg kvs] at hs'
  rw [List.pairwise_map] at hs' ⊢
  exact hs'.imp (fun {a b} h => by simpa [Trip.ie, Trip.kv, keyCmp_norm] using h)

theorem loadedEntriesV0_keys (cfg : Cfg) (kvs : List KV) :
    (loadedEntriesV0 cfg kvs).map (fun e => e.1.getD []) = kvs.map (·.1) := by
  unfold loadedEntriesV0
  rw [List.map_map]
  have : ((fun e : IEntry => e.1.getD []) ∘ Trip.ie) = (fun p : KV => p.1) ∘ Trip.kv := by
    funext t; simp [Trip.ie, Trip.kv, normKey_getD]
  rw [this, ← List.map_map, tripsV0_kv]
  unfold normKVs
  rw [List.map_map]
  rfl

/-! ## values behind the index entries -/

theorem protoValueAt_trip (dv : Nat) (hv : IsVersion dv) (dc : Compression) (hl : LawfulC dc) :
    ∀ (l : List KV) (pre : Bytes),
    (∀ p ∈ l, FitsL dc (dataRecOf p.2) ∧ (p.2.getD []).length < 2 ^ 64) →
    ∀ t ∈ tripFromV0 dv dc pre.length l,
      protoValueAt dv dc (pre ++ encAllL dv dc (l.map fun p => dataRecOf p.2)) t.2.2.off = .ok t.2.1 := by
  intro l
  induction l with
  | nil => intro pre _ t ht; cases ht
  | cons p rest ih =>
    intro pre hf t ht
    obtain ⟨k, v⟩ := p
    simp only [tripFromV0, List.mem_cons] at ht
    rcases ht with rfl | ht
    · obtain ⟨hfit, hlen⟩ := hf (k, v) (by simp)
      have hr := readAtL_enc false dv hv dc pre (dataRecOf v)
        (encAllL dv dc (rest.map fun p => dataRecOf p.2)) hl hfit
      have hb : backL false dv dc (dataRecOf v) = some (encDataEntry v) := backL_false_some _ _ _
      have hne : bareEofAt dv (pre ++ encAllL dv dc (((k, v) :: rest).map fun p => dataRecOf p.2)) pre.length
          = false := by
        have := encRecordL_pos dv dc (dataRecOf v)
        unfold bareEofAt
        simp only [List.map_cons, encAllL_cons, List.length_append, Bool.and_eq_false_imp, decide_eq_true_eq,
          decide_eq_false_iff_not]
        intro _; omega
      unfold protoValueAt
      simp only [hne]
      simp only [List.map_cons, encAllL_cons, hr, hb, Option.getD_some, decDataEntry_enc v hlen]
      rfl
    · have hlen : (pre ++ encRecordL dv dc (dataRecOf v)).length = pre.length + (encRecordL dv dc (dataRecOf v)).length := by
        simp
      rw [← hlen] at ht
      have := ih (pre ++ encRecordL dv dc (dataRecOf v)) (fun q hq => hf q (by simp [hq])) t ht
      simpa [List.append_assoc, encAllL_cons] using this

theorem getValueV0_trip (dv : Nat) (hv : IsVersion dv) (dc : Compression) (hl : LawfulC dc) (l : List KV)
    (pre : Bytes) (hf : ∀ p ∈ l, FitsL dc (dataRecOf p.2) ∧ (p.2.getD []).length < 2 ^ 64) (skip : Bool)
    (t : Trip) (ht : t ∈ tripFromV0 dv dc pre.length l) :
    getValueV0 dv dc (pre ++ encAllL dv dc (l.map fun p => dataRecOf p.2)) t.2.2 skip = .ok t.2.1 := by
  have h1 := protoValueAt_trip dv hv dc hl l pre hf t ht
  have h2 := tripFromV0_sum dv dc l pre.length t ht
  unfold getValueV0
  rw [h1]
  simp only [h2]
  cases skip <;> simp

theorem scanWithV0_good (dv : Nat) (dc : Compression) (data : Bytes) (skip : Bool) (ts : List Trip)
    (h : ∀ t ∈ ts, getValueV0 dv dc data t.2.2 skip = .ok t.2.1) :
    scanWithV0 dv dc data skip (ts.map Trip.ie) .done = (ts.map Trip.out, .done) := by
  induction ts with
  | nil => rfl
  | cons t ts ih =>
    have h1 := h t (by simp)
    have h2 := ih (fun x hx => h x (by simp [hx]))
    simp only [List.map_cons, scanWithV0, Trip.ie, h1]
    rw [h2]
    rfl

theorem fullScanV0S_trip (dv : Nat) (hv : IsVersion dv) (dc : Compression) (hl : LawfulC dc) :
    ∀ (l : List KV) (off : Nat),
    (∀ p ∈ l, FitsL dc (dataRecOf p.2) ∧ (p.2.getD []).length < 2 ^ 64) →
    fullScanV0S dv dc ((tripFromV0 dv dc off l).map Trip.ie) .done (encAllL dv dc (l.map fun p => dataRecOf p.2)) =
      ((normKVs l).map normKV, .done) := by
  intro l
  induction l with
  | nil => intro _ _; rfl
  | cons p rest ih =>
    intro off hf
    obtain ⟨k, v⟩ := p
    obtain ⟨hfit, hlen⟩ := hf (k, v) (by simp)
    have hr := readNextL_enc false dv hv dc (dataRecOf v) (encAllL dv dc (rest.map fun p => dataRecOf p.2)) hl hfit
    have hb : backL false dv dc (dataRecOf v) = some (encDataEntry v) := backL_false_some _ _ _
    have ih' := ih (off + (encRecordL dv dc (dataRecOf v)).length) (fun q hq => hf q (by simp [hq]))
    simp only [tripFromV0, List.map_cons, encAllL_cons, fullScanV0S, hr, hb, Trip.ie, List.drop_left,
      Option.getD_some, decDataEntry_enc v hlen]
    rw [ih']
    simp [normKV, normKVs]

/-! ## the reader on the table of an ascending list -/

/-- the reader `NewSSTableReader` returns on the version-0 table of `kvs` -/
def readerOfV0 (cfg : Cfg) (kvs : List KV) (o : ReadOpts) (bloom : Option (Bytes → Bool)) (md : Meta) : V0.Reader :=
  { data := dataFileOfV0 cfg kvs, dv := cfg.dv, dc := cfg.dc, bloom := bloom, skipHashOnRead := o.skipHashOnRead,
    md := md }

theorem getValueV0_table (cfg : Cfg) (kvs : List KV) (hv : IsVersion cfg.dv) (hl : LawfulC cfg.dc)
    (hf : FitsV0 cfg kvs) (skip : Bool) (t : Trip) (ht : t ∈ tripsV0 cfg kvs) :
    getValueV0 cfg.dv cfg.dc (dataFileOfV0 cfg kvs) t.2.2 skip = .ok t.2.1 := by
  have hlen : (fileHeader cfg.dv cfg.dct).length = fileHeaderSize := fileHeader_length _ _
  unfold tripsV0 at ht
  rw [← hlen] at ht
  have := getValueV0_trip cfg.dv hv cfg.dc hl kvs _ (fun p hp => ⟨(hf.1 p hp).1, (hf.1 p hp).2.2⟩) skip t ht
  unfold dataFileOfV0
  rw [encFileL_eq]
  exact this

theorem openTableV0_of (comps : Nat → Compression) (k : LoaderKind) (o : ReadOpts) (t : Files)
    (bloom : Option (Bytes → Bool)) (md : Meta) (idx : Index) (dv : Nat) (dc : Compression)
    (h1 : TblDir.readMeta t.metaf = .ok md) (h2 : loadIndexL comps k t.index = some (.ok idx)) (h3 : md.version = 0)
    (h4 : openMmapL comps t.data = .ok (dv, dc)) :
    openTableV0 comps k o t bloom =
      some (.ok ({ data := t.data, dv := dv, dc := dc, bloom := bloom, skipHashOnRead := o.skipHashOnRead,
                   md := md }, idx)) := by
  unfold openTableV0
  rw [h1]
  simp only [h2, h3, h4, ne_eq, not_true_eq_false, if_false]

theorem openTableV0_ok (comps : Nat → Compression) (cfg : Cfg) (kvs : List KV) (metaf : Option Bytes) (md : Meta)
    (hc : CfgOk comps cfg) (hm : MetaV0 metaf md) (k : LoaderKind) (o : ReadOpts) (bloom : Option (Bytes → Bool))
    (idx : Index) (hload : loadIndexL comps k (indexFileOfV0 cfg kvs) = some (.ok idx)) :
    openTableV0 comps k o (filesOf cfg kvs metaf) bloom = some (.ok (readerOfV0 cfg kvs o bloom md, idx)) := by
  obtain ⟨hcd, _, _, _, hdct, _, _, hdv⟩ := hc
  have hmm : openMmapL comps (filesOf cfg kvs metaf).data = .ok (cfg.dv, cfg.dc) := by
    have := openMmapL_file comps cfg.dv cfg.dct cfg.dc (kvs.map fun p => dataRecOf p.2) hdv hdct
    rw [hcd] at this; exact this
  exact openTableV0_of comps k o (filesOf cfg kvs metaf) bloom md idx cfg.dv cfg.dc hm.1 hload hm.2 hmm

/-! ## index answers → reader answers -/

theorem getWithV0_spec (r : V0.Reader) (T : List Trip)
    (hv : ∀ t ∈ T, getValueV0 r.dv r.dc r.data t.2.2 r.skipHashOnRead = .ok t.2.1) (k : Bytes) :
    r.getWith (getRes (specGet keyCmp (T.map Trip.ie) (some k))) = specGetRes (T.map Trip.kv) k := by
  unfold specGetRes
  rw [specGet_E, specGet_kvs]
  cases hfd : T.find? (fun t => bytesCmp k t.1 == .eq) with
  | none => rfl
  | some t =>
    have ht : t ∈ T := List.mem_of_find?_eq_some hfd
    simp [getRes, V0.Reader.getWith, hv t ht]

theorem scanIterV0_filter (r : V0.Reader) (T : List Trip)
    (hv : ∀ t ∈ T, getValueV0 r.dv r.dc r.data t.2.2 r.skipHashOnRead = .ok t.2.1) (q : Bytes → Bool) :
    r.scanIter ((T.filter fun t => q t.1).map Trip.ie, .done) = ((T.filter fun t => q t.1).map Trip.out, .done) := by
  unfold V0.Reader.scanIter
  exact scanWithV0_good r.dv r.dc r.data r.skipHashOnRead _ (fun t ht => hv t (List.mem_filter.mp ht).1)

theorem fullScanV0_of (comps : Nat → Compression) (r : V0.Reader) (it : Iter) (v : Nat) (c : Compression) (st : Bytes)
    (h : openSeqL comps r.data = .ok (v, c, st)) :
    r.fullScan comps it = .ok (fullScanV0S v c it.1 it.2 st) := by
  unfold V0.Reader.fullScan; rw [h]

/-- a version-0 reader whose values sit behind the index entries `T`, whose full scan delivers `T`, with an index
that refines the sorted map of the entries, answers like the sorted map of the pairs of `T` -/
theorem reads_as_map_of_trips (comps : Nat → Compression) (r : V0.Reader) (T : List Trip)
    (hv : ∀ t ∈ T, getValueV0 r.dv r.dc r.data t.2.2 r.skipHashOnRead = .ok t.2.1)
    (hscan : r.fullScan comps (T.map Trip.ie, .done) = .ok ((T.map Trip.kv).map normKV, .done))
    (hb : BloomOk r.bloom (T.map Trip.kv)) (P : Bytes → Prop) (idx : Index)
    (hr : IdxRefines P idx (T.map Trip.ie)) :
    ReadsAsMapV0 comps P r idx (T.map Trip.kv) := by
  have hsome := isSome_spec T
  constructor
  · intro k hk
    unfold V0.Reader.get
    rw [hr.get k hk]
    simp only [Option.map_some, getWithV0_spec r T hv k]
  · intro k hk
    unfold V0.Reader.contains
    cases hbl : r.bloom with
    | none => simp only [hr.contains k hk, hsome]
    | some bf =>
      simp only
      by_cases hbf : bf k = true
      · simp only [hbf, if_true, hr.contains k hk, hsome]
      · have hno : (specGet bytesCmp (T.map Trip.kv) k).isSome = false := by
          cases hg : specGet bytesCmp (T.map Trip.kv) k with
          | none => rfl
          | some v =>
            exfalso
            unfold specGet at hg
            cases hfd : (T.map Trip.kv).find? (fun p => bytesCmp k p.1 == .eq) with
            | none => rw [hfd] at hg; cases hg
            | some p =>
              have hp : p ∈ T.map Trip.kv := List.mem_of_find?_eq_some hfd
              have heq : bytesCmp k p.1 = .eq := by
                have := List.find?_some hfd; simpa using this
              have : k = p.1 := (bytesCmp_eq_iff _ _).mp heq
              have hbt := hb bf hbl p hp
              rw [← this] at hbt
              exact hbf hbt
        simp only [hbf, hno]
        rfl
  · unfold V0.Reader.scan
    rw [hr.all]
    exact hscan
  · intro k
    unfold V0.Reader.scanFrom
    rw [hr.from_ k]
    simp only [Except.map]
    unfold specScanFrom SST.specFrom
    rw [filter_E T (fun b => bytesCmp k b != .gt) (fun g => keyCmp (some k) g != .gt)
      (fun b => by simp [keyCmp_some_norm])]
    rw [scanIterV0_filter _ _ hv (fun b => bytesCmp k b != .gt)]
    rw [filter_kvs T (fun b => bytesCmp k b != .gt)]
  · intro lo hi
    unfold V0.Reader.scanRange
    rw [hr.between lo hi]
    unfold specScanRange SST.specBetween
    have hk : keyCmp (some lo) (some hi) = bytesCmp lo hi := rfl
    rw [hk]
    by_cases hgt : (bytesCmp lo hi == .gt) = true
    · simp only [hgt, if_true, betweenRes, Except.map]
    · simp only [hgt, if_false, betweenRes, Except.map, Bool.false_eq_true]
      rw [filter_E T (fun b => bytesCmp lo b != .gt && bytesCmp b hi != .gt)
        (fun g => keyCmp (some lo) g != .gt && keyCmp g (some hi) != .gt)
        (fun b => by simp [keyCmp_some_norm, keyCmp_norm_some])]
      rw [scanIterV0_filter _ _ hv (fun b => bytesCmp lo b != .gt && bytesCmp b hi != .gt)]
      rw [filter_kvs T (fun b => bytesCmp lo b != .gt && bytesCmp b hi != .gt)]

theorem bloomOk_norm (bloom : Option (Bytes → Bool)) (kvs : List KV) (hb : BloomOk bloom kvs) :
    BloomOk bloom (normKVs kvs) := by
  intro bf hbf p hp
  unfold normKVs at hp
  obtain ⟨q, hq, rfl⟩ := List.mem_map.mp hp
  exact hb bf hbf q hq

theorem fullScan_table (comps : Nat → Compression) (cfg : Cfg) (kvs : List KV) (hc : CfgOk comps cfg)
    (hf : FitsV0 cfg kvs) (o : ReadOpts) (bloom : Option (Bytes → Bool)) (md : Meta) :
    (readerOfV0 cfg kvs o bloom md).fullScan comps (loadedEntriesV0 cfg kvs, .done) =
      .ok ((normKVs kvs).map normKV, .done) := by
  obtain ⟨hcd, _, hld, _, hdct, _, _, hdv⟩ := hc
  have hopen : openSeqL comps (readerOfV0 cfg kvs o bloom md).data =
      .ok (cfg.dv, cfg.dc, encAllL cfg.dv cfg.dc (kvs.map fun p => dataRecOf p.2)) := by
    have := openSeqL_file comps cfg.dv cfg.dct cfg.dc (kvs.map fun p => dataRecOf p.2) hdv hdct
    rw [hcd] at this; exact this
  rw [fullScanV0_of comps _ _ _ _ _ hopen]
  have := fullScanV0S_trip cfg.dv hdv cfg.dc hld kvs fileHeaderSize
    (fun p hp => ⟨(hf.1 p hp).1, (hf.1 p hp).2.2⟩)
  simp only [loadedEntriesV0, tripsV0]
  rw [this]

/-- index refinement + the table files ⇒ the version-0 reader answers like the sorted map -/
theorem reads_as_map_v0 (comps : Nat → Compression) (cfg : Cfg) (kvs : List KV)
    (hc : CfgOk comps cfg) (hf : FitsV0 cfg kvs) (o : ReadOpts) (bloom : Option (Bytes → Bool)) (md : Meta)
    (hb : BloomOk bloom kvs) (P : Bytes → Prop) (idx : Index)
    (hr : IdxRefines P idx (loadedEntriesV0 cfg kvs)) :
    ReadsAsMapV0 comps P (readerOfV0 cfg kvs o bloom md) idx (normKVs kvs) := by
  have h := reads_as_map_of_trips comps (readerOfV0 cfg kvs o bloom md) (tripsV0 cfg kvs)
    (fun t ht => getValueV0_table cfg kvs hc.2.2.2.2.2.2.2 hc.2.2.1 hf _ t ht)
    (by rw [tripsV0_kv]; exact fullScan_table comps cfg kvs hc hf o bloom md)
    (by rw [tripsV0_kv]; exact bloomOk_norm bloom kvs hb) P idx hr
  rwa [tripsV0_kv] at h

/-! ## the three in-memory loaders -/

theorem loadIndexL_slice_of (comps : Nat → Compression) (f : Bytes) (es : List IEntry)
    (h : loadEntriesL comps f = .ok es) : loadIndexL comps .slice f = some (.ok (.slice es)) := by
  unfold loadIndexL; rw [h]; rfl

theorem loadIndexL_skip_of (comps : Nat → Compression) (f : Bytes) (es : List IEntry) (hs : List Nat) (sl : SkipIdx)
    (h : loadEntriesL comps f = .ok es) (h2 : skipLoad es hs = .ok sl) :
    loadIndexL comps (.skip hs) f = some (.ok (.skip sl)) := by
  unfold loadIndexL; rw [h]; simp only [h2]; rfl

theorem loadIndexL_map_of (comps : Nat → Compression) (f : Bytes) (es : List IEntry) (n : Nat)
    (h : loadEntriesL comps f = .ok es) (h2 : mapLoadOk n es = true) :
    loadIndexL comps (.map n) f = some (.ok (.map n es)) := by
  unfold loadIndexL; rw [h]; simp only [h2, if_true]

theorem slice_table_v0 (comps : Nat → Compression) (cfg : Cfg) (kvs : List KV)
    (hc : CfgOk comps cfg) (hf : FitsV0 cfg kvs) (hs : StrictAsc bytesCmp kvs) :
    ∃ idx, loadIndexL comps .slice (indexFileOfV0 cfg kvs) = some (.ok idx) ∧
      IdxRefines (fun _ => True) idx (loadedEntriesV0 cfg kvs) := by
  obtain ⟨h1, h2, h3, h4, h5⟩ := slice_refines _ (loadedEntriesV0_strictAsc cfg kvs hs)
  refine ⟨.slice (loadedEntriesV0 cfg kvs), ?_, ?_⟩
  · exact loadIndexL_slice_of comps _ _ (loadEntriesL_table comps cfg kvs hc hf)
  · exact ⟨fun k _ => by simp [Index.get, h1], fun k _ => by simp [Index.contains, h2], by simp [Index.all, h3],
      fun k => by simp [Index.from, h4], fun lo hi => by simp [Index.between, h5]⟩

theorem skip_table_v0 (comps : Nat → Compression) (cfg : Cfg) (kvs : List KV)
    (hc : CfgOk comps cfg) (hf : FitsV0 cfg kvs) (hs : StrictAsc bytesCmp kvs)
    (heights : List Nat) (hh : ∀ h ∈ heights, 1 ≤ h) :
    ∃ idx, loadIndexL comps (.skip heights) (indexFileOfV0 cfg kvs) = some (.ok idx) ∧
      IdxRefines (fun _ => True) idx (loadedEntriesV0 cfg kvs) := by
  obtain ⟨sl, h0, h1, h2, h3, h4, h5⟩ := skip_refines _ (loadedEntriesV0_strictAsc cfg kvs hs) heights hh
  refine ⟨.skip sl, ?_, ?_⟩
  · exact loadIndexL_skip_of comps _ _ _ _ (loadEntriesL_table comps cfg kvs hc hf) h0
  · exact ⟨fun k _ => by simp [Index.get, h1], fun k _ => by simp [Index.contains, h2], by simp [Index.all, h3],
      fun k => by simp [Index.from, h4], fun lo hi => by simp [Index.between, h5]⟩

theorem map_table_v0 (comps : Nat → Compression) (cfg : Cfg) (kvs : List KV)
    (hc : CfgOk comps cfg) (hf : FitsV0 cfg kvs) (hs : StrictAsc bytesCmp kvs)
    (n : Nat) (hn : ∀ p ∈ kvs, p.1.length ≤ n) :
    ∃ idx, loadIndexL comps (.map n) (indexFileOfV0 cfg kvs) = some (.ok idx) ∧
      IdxRefines (fun k => PadInjective n (kvs.map (·.1)) k) idx (loadedEntriesV0 cfg kvs) := by
  have hsE := loadedEntriesV0_strictAsc cfg kvs hs
  obtain ⟨_, _, h3, h4, h5⟩ := slice_refines _ hsE
  have hok : mapLoadOk n (loadedEntriesV0 cfg kvs) = true := by
    unfold mapLoadOk
    rw [List.all_eq_true]
    intro e he
    have : e.1.getD [] ∈ (loadedEntriesV0 cfg kvs).map (fun e => e.1.getD []) := List.mem_map_of_mem he
    rw [loadedEntriesV0_keys] at this
    obtain ⟨p, hp, hpe⟩ := List.mem_map.mp this
    simpa [← hpe] using hn p hp
  refine ⟨.map n (loadedEntriesV0 cfg kvs), ?_, ?_⟩
  · exact loadIndexL_map_of comps _ _ _ (loadEntriesL_table comps cfg kvs hc hf) hok
  · refine ⟨?_, ?_, by simp [Index.all, h3], fun k => by simp [Index.from, h4],
      fun lo hi => by simp [Index.between, h5]⟩
    · intro k hk
      rw [← loadedEntriesV0_keys cfg kvs] at hk
      obtain ⟨_, hg, _⟩ := map_refines n _ hsE k hk
      simp [Index.get, hg]
    · intro k hk
      rw [← loadedEntriesV0_keys cfg kvs] at hk
      obtain ⟨_, _, hcn⟩ := map_refines n _ hsE k hk
      simp [Index.contains, hcn]

/-- a version-0 table laid out from an ascending list, opened with a loader whose index refines the sorted map of
the loaded entries, reads back as the sorted map of the list (values normalised) and reports the metadata of its
metadata file -/
theorem table_reads_v0 (comps : Nat → Compression) (cfg : Cfg) (kvs : List KV) (metaf : Option Bytes) (md : Meta)
    (hc : CfgOk comps cfg) (hf : FitsV0 cfg kvs) (hm : MetaV0 metaf md)
    (k : LoaderKind) (o : ReadOpts) (bloom : Option (Bytes → Bool)) (hb : BloomOk bloom kvs)
    (P : Bytes → Prop)
    (hidx : ∃ idx, loadIndexL comps k (indexFileOfV0 cfg kvs) = some (.ok idx) ∧
      IdxRefines P idx (loadedEntriesV0 cfg kvs)) :
    ∃ r idx, openTableV0 comps k o (filesOf cfg kvs metaf) bloom = some (.ok (r, idx)) ∧ r.md = md ∧
      ReadsAsMapV0 comps P r idx (normKVs kvs) := by
  obtain ⟨idx, hload, href⟩ := hidx
  exact ⟨readerOfV0 cfg kvs o bloom md, idx, openTableV0_ok comps cfg kvs metaf md hc hm k o bloom idx hload, rfl,
    reads_as_map_v0 comps cfg kvs hc hf o bloom md hb P idx href⟩

/-! ## the layout depends on the data compressor only through what it makes of the stored messages

(used to carry the general theorems to the repository's files under ANY lawful snappy implementation that encodes
the seven small messages the way the files show) -/

theorem encRecordL_congr (v : Nat) (c1 c2 : Comp) (b : Bytes) (h : c1.enc b = c2.enc b) :
    encRecordL v (some c1) (some b) = encRecordL v (some c2) (some b) := by
  simp only [encRecordL, encRecordV1, encRecordV2, encRecordV3, encRecord, clenOf, stored, Option.getD_some, h]

theorem entriesFromV0_congr (dv : Nat) (c1 c2 : Comp) : ∀ (l : List KV) (off : Nat),
    (∀ p ∈ l, c1.enc (encDataEntry p.2) = c2.enc (encDataEntry p.2)) →
    entriesFromV0 dv (some c1) off l = entriesFromV0 dv (some c2) off l := by
  intro l
  induction l with
  | nil => intro _ _; rfl
  | cons p l ih =>
    intro off h
    obtain ⟨k, v⟩ := p
    have h1 := encRecordL_congr dv c1 c2 (encDataEntry v) (h (k, v) (by simp))
    simp only [entriesFromV0, dataRecOf, h1, ih _ (fun q hq => h q (by simp [hq]))]

theorem encAllL_data_congr (dv : Nat) (c1 c2 : Comp) : ∀ (l : List KV),
    (∀ p ∈ l, c1.enc (encDataEntry p.2) = c2.enc (encDataEntry p.2)) →
    encAllL dv (some c1) (l.map fun p => dataRecOf p.2) = encAllL dv (some c2) (l.map fun p => dataRecOf p.2) := by
  intro l
  induction l with
  | nil => intro _; rfl
  | cons p l ih =>
    intro h
    have h1 := encRecordL_congr dv c1 c2 (encDataEntry p.2) (h p (by simp))
    have ih' := ih (fun q hq => h q (by simp [hq]))
    simp only [dataRecOf] at ih'
    simp only [List.map_cons, encAllL_cons, dataRecOf, h1, ih']

/-- the same layout with another data compressor that agrees on the stored messages -/
def withDc (cfg : Cfg) (c : Comp) : Cfg := { cfg with dc := some c }

theorem filesOf_congr_dc (cfg : Cfg) (c1 c2 : Comp) (kvs : List KV) (metaf : Option Bytes)
    (h : ∀ p ∈ kvs, c1.enc (encDataEntry p.2) = c2.enc (encDataEntry p.2)) :
    filesOf (withDc cfg c1) kvs metaf = filesOf (withDc cfg c2) kvs metaf := by
  have he : entriesOfV0 (withDc cfg c1) kvs = entriesOfV0 (withDc cfg c2) kvs :=
    entriesFromV0_congr cfg.dv c1 c2 kvs fileHeaderSize h
  have hd : dataFileOfV0 (withDc cfg c1) kvs = dataFileOfV0 (withDc cfg c2) kvs := by
    unfold dataFileOfV0
    rw [encFileL_eq, encFileL_eq]
    exact congrArg _ (encAllL_data_congr cfg.dv c1 c2 kvs h)
  have hi : indexFileOfV0 (withDc cfg c1) kvs = indexFileOfV0 (withDc cfg c2) kvs := by
    unfold indexFileOfV0
    rw [he]
    rfl
  unfold filesOf
  rw [hd, hi]

theorem fitsV0_congr_dc (cfg : Cfg) (c1 c2 : Comp) (kvs : List KV)
    (h : ∀ p ∈ kvs, c1.enc (encDataEntry p.2) = c2.enc (encDataEntry p.2))
    (hf : FitsV0 (withDc cfg c2) kvs) : FitsV0 (withDc cfg c1) kvs := by
  obtain ⟨h1, h2⟩ := hf
  have he : entriesOfV0 (withDc cfg c1) kvs = entriesOfV0 (withDc cfg c2) kvs :=
    entriesFromV0_congr cfg.dv c1 c2 kvs fileHeaderSize h
  refine ⟨fun p hp => ⟨?_, (h1 p hp).2⟩, fun e he' => ?_⟩
  · have := (h1 p hp).1
    show ((dataRecOf p.2).getD []).length < 2 ^ 64 ∧ clenOf (some c1) ((dataRecOf p.2).getD []) < 2 ^ 64
    have h' : ((dataRecOf p.2).getD []).length < 2 ^ 64 ∧ clenOf (some c2) ((dataRecOf p.2).getD []) < 2 ^ 64 := this
    simp only [dataRecOf, Option.getD_some, clenOf, h p hp] at h' ⊢
    exact h'
  · rw [he] at he'
    exact h2 e he'

/-! ## metadata; what a compaction receives -/

theorem metaV0_none : MetaV0 none {} := ⟨rfl, rfl⟩

/-- on an index entry without checksum (every entry of a version-0 index) `EnableHashCheckOnReads` changes nothing:
for ANY data file the value is whatever the record parses as -/
theorem getValueV0_sum_zero (dv : Nat) (dc : Compression) (data : Bytes) (off : Nat) (skip : Bool) :
    getValueV0 dv dc data ⟨off, 0⟩ skip = protoValueAt dv dc data off := by
  unfold getValueV0
  cases protoValueAt dv dc data off with
  | error e => rfl
  | ok v => cases skip <;> simp

/-- whatever the files are: a version-0 reader reports exactly what the metadata file parses as (the all-zero
default when there is none), serves from the data file as it is, and nothing was verified on load -/
theorem openTableV0_md (comps : Nat → Compression) (k : LoaderKind) (o : ReadOpts) (t : Files)
    (bloom : Option (Bytes → Bool)) (r : V0.Reader) (idx : Index)
    (h : openTableV0 comps k o t bloom = some (.ok (r, idx))) :
    TblDir.readMeta t.metaf = .ok r.md ∧ r.md.version = 0 ∧ r.data = t.data ∧
      loadIndexL comps k t.index = some (.ok idx) := by
  unfold openTableV0 at h
  cases hm : TblDir.readMeta t.metaf with
  | error e => rw [hm] at h; cases h
  | ok md =>
    rw [hm] at h
    cases hl : loadIndexL comps k t.index with
    | none => simp only [hl] at h; cases h
    | some x =>
      cases x with
      | error e => simp only [hl] at h; cases h
      | ok idx' =>
        simp only [hl] at h
        by_cases hv : md.version = 0
        · simp only [hv, ne_eq, not_true_eq_false, if_false] at h
          cases hd : openMmapL comps t.data with
          | error e => simp only [hd] at h; cases h
          | ok p =>
            simp only [hd, Option.some.injEq, Except.ok.injEq, Prod.mk.injEq] at h
            obtain ⟨h1, h2⟩ := h
            subst h1 h2
            exact ⟨rfl, hv, rfl, rfl⟩
        · simp only [hv, ne_eq, not_false_eq_true, if_true] at h; cases h

theorem openTableV0_no_meta (comps : Nat → Compression) (k : LoaderKind) (o : ReadOpts) (t : Files)
    (bloom : Option (Bytes → Bool)) (r : V0.Reader) (idx : Index) (hn : t.metaf = none)
    (h : openTableV0 comps k o t bloom = some (.ok (r, idx))) : r.md = {} := by
  have := (openTableV0_md comps k o t bloom r idx h).1
  rw [hn] at this
  exact (Except.ok.inj this).symm

/-- a reader without metadata is a compaction candidate by size alone: its reported total size 0 is below every
positive limit, the tombstone ratio is never looked at (numRecords = 0) -/
theorem candidateV0_no_meta (o : DBM.Opts) (r : V0.Reader) (h : r.md = {}) :
    candidateV0 o r = decide (0 < o.maxSize) := by
  unfold candidateV0 Stack.candidateMd
  rw [h]
  simp

theorem cellsOf_norm (l : List KV) : cellsOf (l.map normKV, .done) = l := by
  unfold cellsOf
  simp only [List.map_map]
  have : ((fun p : GoBytes × GoBytes => (p.1.getD [], p.2)) ∘ normKV) = id := by
    funext p; simp [normKV, normKey_getD]
  rw [this, List.map_id]

theorem mergeInputV0_of (comps : Nat → Compression) (t : Files) (bloom : Option (Bytes → Bool)) (r : V0.Reader)
    (idx : Index) (sr : ScanRes) (h1 : openTableV0 comps .slice {} t bloom = some (.ok (r, idx)))
    (h2 : r.scan comps idx = .ok sr) :
    mergeInputV0 comps t bloom = some (.ok (Stack.scanInput sr)) := by
  unfold mergeInputV0
  rw [h1]
  simp only [h2]

theorem mergeInputV0_table (comps : Nat → Compression) (cfg : Cfg) (kvs : List KV) (metaf : Option Bytes) (md : Meta)
    (hc : CfgOk comps cfg) (hf : FitsV0 cfg kvs) (hs : StrictAsc bytesCmp kvs) (hm : MetaV0 metaf md)
    (bloom : Option (Bytes → Bool)) :
    mergeInputV0 comps (filesOf cfg kvs metaf) bloom = some (.ok (Merge.inputOf ((normKVs kvs).map normKV))) := by
  obtain ⟨idx, hload, href⟩ := slice_table_v0 comps cfg kvs hc hf hs
  have hopen := openTableV0_ok comps cfg kvs metaf md hc hm .slice {} bloom idx hload
  have hscan : (readerOfV0 cfg kvs {} bloom md).scan comps idx = .ok ((normKVs kvs).map normKV, .done) := by
    unfold V0.Reader.scan
    rw [href.all]
    exact fullScan_table comps cfg kvs hc hf {} bloom md
  rw [mergeInputV0_of comps _ bloom _ idx _ hopen hscan]
  rfl

end SST.Proofs.V0
