/-
Helper lemmas for L6: `floodFill` as coded against `fillBetween`.
-/
import SST.Spec.DB
namespace SST.Proofs.DB
open SST SST.DBM

theorem getD_true_lt (a : List Bool) (x : Nat) (h : a.getD x false = true) : x < a.length := by
  rw [List.getD_eq_getElem?_getD] at h
  by_cases hx : x < a.length
  · exact hx
  · simp [List.getElem?_eq_none (Nat.le_of_not_lt hx)] at h

theorem boolList_ext (a b : List Bool) (hl : a.length = b.length)
    (h : ∀ x, a.getD x false = true ↔ b.getD x false = true) : a = b := by
  apply List.ext_getElem hl
  intro i h1 h2
  have := h i
  simp only [List.getD_eq_getElem?_getD, List.getElem?_eq_getElem h1, List.getElem?_eq_getElem h2,
    Option.getD_some] at this
  cases ha : a[i] <;> cases hb : b[i] <;> simp_all

theorem getD_drop (a : List Bool) (i x : Nat) : (a.drop i).getD x false = a.getD (i + x) false := by
  simp [List.getD_eq_getElem?_getD, List.getElem?_drop]

theorem nextTrue_some (l : List Bool) (o j : Nat) (h : nextTrue l o = some j) :
    o ≤ j ∧ l.getD (j - o) false = true ∧ ∀ x, x < j - o → l.getD x false = false := by
  induction l generalizing o with
  | nil => simp [nextTrue] at h
  | cons b bs ih =>
    simp only [nextTrue] at h
    by_cases hb : b = true
    · simp only [hb, if_true, Option.some.injEq] at h
      subst h
      simp [hb]
    · simp only [hb] at h
      obtain ⟨h1, h2, h3⟩ := ih (o + 1) h
      have e : j - o = (j - (o + 1)) + 1 := by omega
      refine ⟨by omega, ?_, ?_⟩
      · rw [e, List.getD_cons_succ]; exact h2
      · intro x hx
        cases x with
        | zero => simpa using hb
        | succ x => rw [List.getD_cons_succ]; exact h3 x (by omega)

theorem nextTrue_none (l : List Bool) (o : Nat) (h : nextTrue l o = none) :
    ∀ x, l.getD x false = false := by
  induction l generalizing o with
  | nil => intro x; simp
  | cons b bs ih =>
    simp only [nextTrue] at h
    by_cases hb : b = true
    · simp [hb] at h
    · simp only [hb] at h
      intro x
      cases x with
      | zero => simpa using hb
      | succ x => rw [List.getD_cons_succ]; exact ih (o + 1) h x

theorem fillRange_length (a : List Bool) (i j : Nat) : (fillRange a i j).length = a.length := by
  simp [fillRange]

theorem fillRange_getD (a : List Bool) (i j x : Nat) :
    (fillRange a i j).getD x false = true ↔ x < a.length ∧ ((i ≤ x ∧ x ≤ j) ∨ a.getD x false = true) := by
  unfold fillRange
  rw [List.getD_eq_getElem?_getD, List.getElem?_map]
  by_cases hx : x < a.length
  · rw [List.getElem?_range hx]
    by_cases hr : i ≤ x ∧ x ≤ j <;> simp [hr, hx]
  · rw [List.getElem?_eq_none (by simpa using hx)]
    simp [hx]

/-- the specification of `floodAux a i`: positions before `i` are left alone -/
def FF (a : List Bool) (i x : Nat) : Prop :=
  a.getD x false = true ∨
    ((∃ j, i ≤ j ∧ j < x ∧ a.getD j false = true) ∧ (∃ j, x < j ∧ a.getD j false = true))

theorem floodAux_spec (fuel : Nat) (a : List Bool) (i : Nat) (h : a.length ≤ fuel + i) :
    (floodAux fuel a i).length = a.length ∧ ∀ x, (floodAux fuel a i).getD x false = true ↔ FF a i x := by
  induction fuel generalizing a i with
  | zero =>
    simp only [floodAux, true_and]
    intro x
    refine ⟨Or.inl, ?_⟩
    rintro (hx | ⟨⟨j, hj1, hj2, _⟩, ⟨j', hj3, hj4⟩⟩)
    · exact hx
    · have := getD_true_lt _ _ hj4; omega
  | succ fuel ih =>
    unfold floodAux
    by_cases hi : i ≥ a.length
    · simp only [hi, if_true, true_and]
      intro x
      refine ⟨Or.inl, ?_⟩
      rintro (hx | ⟨⟨j, hj1, hj2, _⟩, ⟨j', hj3, hj4⟩⟩)
      · exact hx
      · have := getD_true_lt _ _ hj4; omega
    · simp only [hi, if_false]
      by_cases hai : a.getD i false = true
      · simp only [hai, if_true]
        cases hn : nextTrue (a.drop (i + 1)) (i + 1) with
        | none =>
          have hnone := nextTrue_none _ _ hn
          simp only [true_and]
          intro x
          refine ⟨Or.inl, ?_⟩
          rintro (hx | ⟨⟨j, hj1, hj2, _⟩, ⟨j', hj3, hj4⟩⟩)
          · exact hx
          · have := hnone (j' - (i + 1))
            rw [getD_drop] at this
            have e : i + 1 + (j' - (i + 1)) = j' := by omega
            rw [e] at this
            rw [this] at hj4
            exact absurd hj4 (by decide)
        | some j =>
          obtain ⟨h1, h2, h3⟩ := nextTrue_some _ _ _ hn
          rw [getD_drop] at h2
          have e : i + 1 + (j - (i + 1)) = j := by omega
          rw [e] at h2
          have hgap : ∀ y, i < y → y < j → a.getD y false = false := by
            intro y hy1 hy2
            have := h3 (y - (i + 1)) (by omega)
            rw [getD_drop] at this
            have e' : i + 1 + (y - (i + 1)) = y := by omega
            rw [e'] at this
            exact this
          have hjl := getD_true_lt _ _ h2
          obtain ⟨ihl, ihx⟩ := ih (fillRange a i j) j (by rw [fillRange_length]; omega)
          simp only
          refine ⟨by rw [ihl, fillRange_length], ?_⟩
          intro x
          rw [ihx]
          unfold FF
          simp only [fillRange_getD]
          constructor
          · rintro (⟨hx, (hr | hx')⟩ | ⟨⟨y, hy1, hy2, hy3⟩, ⟨z, hz1, hz2, hz3⟩⟩)
            · by_cases hxi : x = i
              · subst hxi; exact Or.inl hai
              · by_cases hxj : x = j
                · subst hxj; exact Or.inl h2
                · exact Or.inr ⟨⟨i, Nat.le_refl _, by omega, hai⟩, ⟨j, by omega, h2⟩⟩
            · exact Or.inl hx'
            · rcases hz3 with (hz3 | hz3)
              · omega
              · exact Or.inr ⟨⟨i, Nat.le_refl _, by omega, hai⟩, ⟨z, hz1, hz3⟩⟩
          · rintro (hx | ⟨⟨y, hy1, hy2, hy3⟩, ⟨z, hz1, hz2⟩⟩)
            · exact Or.inl ⟨getD_true_lt _ _ hx, Or.inr hx⟩
            · have hzl := getD_true_lt _ _ hz2
              by_cases hxj : x ≤ j
              · exact Or.inl ⟨by omega, Or.inl ⟨by omega, hxj⟩⟩
              · exact Or.inr ⟨⟨j, Nat.le_refl _, by omega, by omega, Or.inr h2⟩,
                  ⟨z, hz1, hzl, Or.inr hz2⟩⟩
      · have hai' : a.getD i false = false := by simpa using hai
        simp only [hai', Bool.false_eq_true, if_false]
        obtain ⟨ihl, ihx⟩ := ih a (i + 1) (by omega)
        refine ⟨ihl, ?_⟩
        intro x
        rw [ihx]
        unfold FF
        constructor
        · rintro (hx | ⟨⟨y, hy1, hy2, hy3⟩, hz⟩)
          · exact Or.inl hx
          · exact Or.inr ⟨⟨y, by omega, hy2, hy3⟩, hz⟩
        · rintro (hx | ⟨⟨y, hy1, hy2, hy3⟩, hz⟩)
          · exact Or.inl hx
          · have : y ≠ i := by intro e; subst e; exact hai hy3
            exact Or.inr ⟨⟨y, by omega, hy2, hy3⟩, hz⟩

theorem fillBetween_length (a : List Bool) : (fillBetween a).length = a.length := by
  simp [fillBetween]

theorem fillBetween_getD (a : List Bool) (x : Nat) :
    (fillBetween a).getD x false = true ↔ FF a 0 x := by
  unfold fillBetween FF
  rw [List.getD_eq_getElem?_getD, List.getElem?_map]
  by_cases hx : x < a.length
  · rw [List.getElem?_range hx]
    simp only [Option.map_some, Option.getD_some, Bool.or_eq_true, Bool.and_eq_true, List.any_eq_true,
      List.mem_range]
    constructor
    · rintro (h | ⟨⟨j, hj1, hj2⟩, ⟨d, hd1, hd2⟩⟩)
      · exact Or.inl h
      · exact Or.inr ⟨⟨j, Nat.zero_le _, hj1, hj2⟩, ⟨x + 1 + d, by omega, hd2⟩⟩
    · rintro (h | ⟨⟨j, _, hj1, hj2⟩, ⟨z, hz1, hz2⟩⟩)
      · exact Or.inl h
      · have hzl := getD_true_lt _ _ hz2
        refine Or.inr ⟨⟨j, hj1, hj2⟩, ⟨z - (x + 1), by omega, ?_⟩⟩
        have e : x + 1 + (z - (x + 1)) = z := by omega
        rw [e]; exact hz2
  · rw [List.getElem?_eq_none (by simpa using hx)]
    simp only [Option.map_none, Option.getD_none, Bool.false_eq_true, false_iff]
    rintro (h | ⟨_, ⟨z, hz1, hz2⟩⟩)
    · exact hx (getD_true_lt _ _ h)
    · have := getD_true_lt _ _ hz2; omega

theorem floodFill_getD (a : List Bool) (x : Nat) : (floodFill a).getD x false = true ↔ FF a 0 x :=
  (floodAux_spec (a.length + 1) a 0 (by omega)).2 x

theorem floodFill_length (a : List Bool) : (floodFill a).length = a.length :=
  (floodAux_spec (a.length + 1) a 0 (by omega)).1

theorem floodFill_eq (a : List Bool) : floodFill a = fillBetween a := by
  apply boolList_ext
  · rw [floodFill_length, fillBetween_length]
  · intro x; rw [floodFill_getD, fillBetween_getD]

theorem floodFill_contiguous (a : List Bool) : Contiguous (floodFill a) := by
  intro i j k hij hjk hi hk
  rw [floodFill_getD] at hi hk ⊢
  have h1 : ∃ y, y ≤ i ∧ a.getD y false = true := by
    rcases hi with (h | ⟨⟨y, _, hy, hy'⟩, _⟩)
    · exact ⟨i, Nat.le_refl _, h⟩
    · exact ⟨y, by omega, hy'⟩
  have h2 : ∃ z, k ≤ z ∧ a.getD z false = true := by
    rcases hk with (h | ⟨_, ⟨z, hz, hz'⟩⟩)
    · exact ⟨k, Nat.le_refl _, h⟩
    · exact ⟨z, by omega, hz'⟩
  obtain ⟨y, hy, hy'⟩ := h1
  obtain ⟨z, hz, hz'⟩ := h2
  exact Or.inr ⟨⟨y, Nat.zero_le _, by omega, hy'⟩, ⟨z, by omega, hz'⟩⟩

end SST.Proofs.DB
