/-
L7, the read path: `GetBytes` of the byte-level stack equals `DBM.get` of the related layer state.
Uses C03 (`ReadsAsMap`, through the relation), C08 (`super_get_eq_overlay`, `overlay_spec`) and the memstore
simulation of C14 (`Proofs.MemP.step_sim`) as black boxes.
-/
import SST.Proofs.StackBasic
import SST.Props.C08
import SST.Props.C14
namespace SST.Proofs.Stack
open SST SST.Stack SST.DBM

/-! ## tables -/

theorem specGet_eq_tget (kvs : List KV) (k : Bytes) : specGet bytesCmp kvs k = Merge.tget kvs k := by
  induction kvs with
  | nil => rfl
  | cons p r ih =>
    obtain ⟨k', v⟩ := p
    unfold specGet at ih ⊢
    simp only [List.find?_cons, Merge.tget]
    by_cases h : k = k'
    · subst h; simp [Proofs.MergeOrd.bytesCmp_refl]
    · have : bytesCmp k k' ≠ .eq := fun e => h (Proofs.MergeOrd.bytesCmp_eq_iff.mp e)
      have hb : (bytesCmp k k' == Ordering.eq) = false := by simp [this]
      simp only [hb, h, if_false]
      exact ih

/-- bridging C03 → C08: the byte-level reader's `Get` is the abstract reader's `Get` of the Merge model -/
theorem readerGet_eq {P : Params} {t : LiveTbl} {kvs : List KV} (h : TblDec P t kvs) (k : Bytes) :
    (t.rd.get t.idx k).2 = some (Merge.tableGet kvs k) := by
  rw [h.reads.get k trivial]
  unfold specGetRes Merge.tableGet
  rw [specGet_eq_tget]
  cases Merge.tget kvs k <;> rfl

theorem superGetAux_eq {P : Params} {ts : List LiveTbl} {kvss : List (List KV)}
    (h : Rel2 (TblDec P) ts kvss) (k : Bytes) :
    superGetAux ts k = some (Merge.superGetAux kvss k) := by
  induction h with
  | nil => rfl
  | cons hab _ ih =>
    simp only [superGetAux, Merge.superGetAux, readerGet_eq hab]
    cases hg : Merge.tableGet _ k with
    | ok v => rfl
    | error e =>
      simp only
      by_cases he : e = .notFound
      · simp [he, ih]
      · simp [he]

/-- the newest-first loop over the byte-level readers = `SuperSSTableReader.Get` of the Merge model -/
theorem superGet_eq {P : Params} {ts : List LiveTbl} {kvss : List (List KV)}
    (h : Rel2 (TblDec P) ts kvss) (k : Bytes) :
    superGet ts k = some (Merge.superGet kvss k) :=
  superGetAux_eq h.reverse k

/-- the layer stack reads as the Merge spec's `newestValue` of the decoded tables -/
theorem tablesGet_eq {kvss : List (List KV)} {tbls : List Tbl}
    (h : Rel2 (fun kvs (a : Tbl) => CellsRel a.cells kvs) kvss tbls) (k : Bytes) :
    tablesGet tbls k = Merge.newestValue kvss k := by
  induction h with
  | nil => rfl
  | cons hab _ ih =>
    simp only [tablesGet, Merge.newestValue, ih, hab.get]
    cases Merge.newestValue _ k <;> rfl

/-- split the table relation at the decoded contents -/
theorem tables_mid {P : Params} {ts : List LiveTbl} {tbls : List Tbl} (h : Rel2 (TblRel P) ts tbls) :
    ∃ kvss, Rel2 (TblDec P) ts kvss ∧ Rel2 (fun kvs (a : Tbl) => CellsRel a.cells kvs) kvss tbls ∧
      ∀ kvs ∈ kvss, Merge.Asc kvs := by
  obtain ⟨kvss, h1, h2⟩ := Rel2.exists_mid (R1 := TblDec P) (R2 := fun kvs (a : Tbl) => CellsRel a.cells kvs)
    (h.imp fun _ _ hr => hr.dec)
  exact ⟨kvss, h1, h2, h1.forall_right fun _ _ hd => hd.asc⟩

/-- the byte-level reader stack answers as the layer stack does (C03 ∘ C08) -/
theorem superGet_tables {P : Params} {ts : List LiveTbl} {tbls : List Tbl} (h : Rel2 (TblRel P) ts tbls)
    (k : Bytes) :
    superGet ts k = some (match tablesGet tbls k with | some v => .ok v | none => .error .notFound) := by
  obtain ⟨kvss, h1, h2, hasc⟩ := tables_mid h
  rw [superGet_eq h1, C08.super_get_eq_overlay kvss hasc, (C08.overlay_spec kvss hasc).2, tablesGet_eq h2]
  cases Merge.newestValue kvss k <;> rfl

/-! ## memstores -/

theorem mem_get_eq {m : Mem.MemStore} {l : Layer} (h : MemRel m l) (k : Bytes) :
    Mem.get m (some k) =
      match Layer.get l k with
      | none => .got none (some .keyNotFound)
      | some none => .got none (some .keyTombstoned)
      | some (some v) => .got (some v) none := by
  have hs := (Proofs.MemP.step_sim h.wf (.get (some k)) 1 (Nat.le_refl 1)).1
  simp only [Mem.step, Mem.refStep, Option.getD_some] at hs
  rw [hs, h.get k]
  cases Mem.RefMap.get k (Proofs.MemP.view m) with
  | none => rfl
  | some c => cases c <;> rfl

theorem layerGet_of_view_nil {m : Mem.MemStore} {l : Layer} (h : MemRel m l)
    (hv : Proofs.MemP.view m = []) (k : Bytes) : Layer.get l k = none := by
  rw [h.get k, hv]; rfl

theorem rwGet_eq {P : Params} {c : Stack.State} {s : DBM.State} (h : Rel P c s) (k : Bytes) :
    rwGet c (some k) =
      match memGet s k with
      | none => .got none (some .keyNotFound)
      | some none => .got none (some .keyTombstoned)
      | some (some v) => .got (some v) none := by
  unfold rwGet memGet
  rw [mem_get_eq h.w k]
  cases hw : Layer.get s.w k with
  | some x => cases x <;> rfl
  | none =>
    simp only
    unfold State.readStore
    by_cases ha : c.rAliasesW = true
    · rw [if_pos ha, mem_get_eq h.w k, hw, layerGet_of_view_nil h.r (h.alias ha) k]
    · rw [if_neg ha, mem_get_eq h.r k]

/-! ## `GetBytes` -/

theorem get_sim {P : Params} {c : Stack.State} {s : DBM.State} (h : Rel P c s) (k : Bytes) :
    Stack.get c k = .db (DBM.get s k) := by
  unfold Stack.get DBM.get
  rw [h.isOpen, h.closed]
  by_cases hu : (!s.isOpen || s.closed) = true
  · simp only [hu, if_true]
  · simp only [hu]
    rw [superGet_tables h.tables k]
    cases htv : tablesGet s.tables k with
    | none =>
      simp only [if_true, getMem]
      rw [rwGet_eq h k]
      cases memGet s k with
      | none => rfl
      | some x => cases x <;> rfl
    | some tv =>
      simp only [getMem]
      rw [rwGet_eq h k]
      cases hm : memGet s k with
      | some x => cases x <;> rfl
      | none =>
        cases tv with
        | none => rfl
        | some v =>
          simp only [Option.getD_some]
          by_cases hv : v.isEmpty = true
          · simp [hv]
          · simp [hv]

end SST.Proofs.Stack
