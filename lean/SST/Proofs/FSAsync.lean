/-
L6-fs, asynchronous WAL (C13): a client call is acknowledged when its record sits in the appender's buffer; buffer
flushes write a prefix of the buffered records (possibly cutting one); closing the file (rotation) writes the
whole buffer.  At every call boundary the disk serves the reference map after a PREFIX of the issued mutations,
and that prefix contains everything issued before the last completed rotation.
-/
import SST.Proofs.FSSync
namespace SST.Proofs.FS
open SST SST.DBM SST.FS SST.Proofs.DB

/-! ## served content as a function of the records in the current file -/

/-- what the disk serves when the current WAL file holds the records `rc` (over the handed-over store and the tables) -/
def served (s : State) (rc : List Mutation) (k : Key) : Option Bytes :=
  vis ((Layer.get (applyMuts [] rc) k).or (base s k))

theorem QW.served_eq {d : Disk} {v : Vol} {junk : List WalFile} {ro rc : List Mutation} {tn : Bool}
    (h : QW d v junk ro rc tn) : logical d = served v.s rc := funext h.serves

theorem applySpec_nil (f : Key → Option Bytes) : applySpec f [] = f := rfl
theorem applySpec_cons (f : Key → Option Bytes) (m : Mutation) (ms : List Mutation) :
    applySpec f (m :: ms) = applySpec (Mutation.spec f m) ms := rfl
theorem applySpec_append (f : Key → Option Bytes) (a b : List Mutation) :
    applySpec f (a ++ b) = applySpec (applySpec f a) b := by
  simp [applySpec, List.foldl_append]

theorem served_snoc (s : State) (rc : List Mutation) (m : Mutation) (hm : m.ok = true) :
    served s (rc ++ [m]) = Mutation.spec (served s rc) m := by
  funext k
  unfold served
  rw [applyMuts_append, applyMuts_cons, applyMuts_nil, get_apply]
  by_cases hk : k = Mutation.key m
  · rw [if_pos hk, Option.some_or]
    cases m with
    | put k' v' =>
      have hk' : k = k' := hk
      have hv : v' ≠ [] := by
        intro he; subst he; simp [Mutation.ok] at hm
      show vis (some (some v')) = if k = k' then some v' else _
      rw [if_pos hk']
      exact vis_nonempty v' hv
    | del k' =>
      have hk' : k = k' := hk
      show vis (some none) = if k = k' then none else _
      rw [if_pos hk']; rfl
  · rw [if_neg hk]
    cases m with
    | put k' v' =>
      have hk' : ¬ k = k' := hk
      show _ = if k = k' then some v' else _
      rw [if_neg hk']
    | del k' =>
      have hk' : ¬ k = k' := hk
      show _ = if k = k' then none else _
      rw [if_neg hk']

theorem served_append (s : State) (rc t : List Mutation) (ht : ∀ m ∈ t, m.ok = true) :
    served s (rc ++ t) = applySpec (served s rc) t := by
  induction t generalizing rc with
  | nil => rw [List.append_nil]; rfl
  | cons m t ih =>
    have : rc ++ m :: t = (rc ++ [m]) ++ t := by simp
    rw [this, ih (rc ++ [m]) (fun x hx => ht x (List.mem_cons_of_mem _ hx)), applySpec_cons,
      served_snoc s rc m (ht m List.mem_cons_self)]

/-! ## single appender events keep the boundary relation -/

theorem torn_event {d : Disk} {v : Vol} {junk : List WalFile} {ro rc : List Mutation} {tn : Bool}
    (h : QW d v junk ro rc tn) (hu : usable v.s = true) (hq : v.queue ≠ []) :
    QW (applyEv d (.walTorn v.walCur)) v junk ro rc true := by
  have hwal := wal_front h hu
  have hne : ∀ y ∈ frontFiles v junk ro, y.num ≠ v.walCur := fun y hy => by have := front_ne h hu y hy; omega
  have hd' : applyEv d (.walTorn v.walCur) =
      { d with wal := frontFiles v junk ro ++ [{ num := v.walCur, recs := rc, torn := true }] } := by
    simp only [applyEv]
    rw [hwal, updW_last _ _ _ _ hne rfl]
  rw [hd']
  exact {
    inv := h.inv
    tables := h.tables
    comps := h.comps
    walSorted := by
      have := h.walSorted
      rw [hwal] at this
      show ((frontFiles v junk ro ++ [_]).map WalFile.num).Pairwise (· < ·)
      simpa using this
    qok := h.qok
    jk := h.jk
    wal := by
      show frontFiles v junk ro ++ _ = junk ++ liveFiles v ro rc true
      simp [liveFiles, hu, frontFiles]
    rok := h.rok
    cok := h.cok
    tnq := fun _ => hq
    live := h.live
    idle := by intro hf; rw [hu] at hf; cases hf }

theorem append_event {d : Disk} {v : Vol} {junk : List WalFile} {ro rc : List Mutation} {tn : Bool}
    (h : QW d v junk ro rc tn) (hu : usable v.s = true) (m : Mutation) (q' : List Mutation) (hq : v.queue = m :: q') :
    QW (applyEv d (.walAppend v.walCur m)) { v with queue := q' } junk ro (rc ++ [m]) false := by
  have hwal := wal_front h hu
  have hne : ∀ y ∈ frontFiles v junk ro, y.num ≠ v.walCur := fun y hy => by have := front_ne h hu y hy; omega
  have hd' : applyEv d (.walAppend v.walCur m) =
      { d with wal := frontFiles v junk ro ++ [{ num := v.walCur, recs := rc ++ [m] }] } := by
    simp only [applyEv]
    rw [hwal, updW_last _ _ _ _ hne rfl]
    rfl
  rw [hd']
  obtain ⟨hwd, hw, hpend⟩ := h.live hu
  exact {
    inv := h.inv
    tables := h.tables
    comps := h.comps
    walSorted := by
      have := h.walSorted
      rw [hwal] at this
      show ((frontFiles v junk ro ++ [_]).map WalFile.num).Pairwise (· < ·)
      simpa using this
    qok := fun x hx => h.qok x (by rw [hq]; exact List.mem_cons_of_mem _ hx)
    jk := h.jk
    wal := by
      show frontFiles v junk ro ++ _ = junk ++ liveFiles { v with queue := q' } ro (rc ++ [m]) false
      have : usable ({ v with queue := q' } : Vol).s = true := hu
      simp [liveFiles, this, frontFiles]
    rok := h.rok
    cok := by
      intro x hx
      rcases List.mem_append.1 hx with (hx | hx)
      · exact h.cok x hx
      · simp only [List.mem_singleton] at hx; subst hx
        exact h.qok x (by rw [hq]; exact List.mem_cons_self)
    tnq := by intro hf; cases hf
    live := by
      intro _
      refine ⟨hwd, ?_, hpend⟩
      show applyMuts [] (rc ++ [m] ++ q') = v.s.w
      rw [← hw, hq]; simp
    idle := by
      intro hf
      have : usable v.s = false := hf
      rw [hu] at this; cases this }

/-! ## a buffer flush -/

/-- the good disks during a buffer flush that writes the records `t`: the file holds `rc` plus a prefix of `t` -/
def GoodF (s : State) (rc t : List Mutation) (x : Disk) : Prop :=
  DiskOk x ∧ ∃ i, i ≤ t.length ∧ logical x = served s (rc ++ t.take i)

theorem drain_seg (t : List Mutation) : ∀ (rest rc : List Mutation) (tn : Bool) (d : Disk) (v : Vol) (junk : List WalFile)
    (ro : List Mutation), QW d v junk ro rc tn → usable v.s = true → v.queue = t ++ rest →
    Seg (GoodF v.s rc t) (fun x => x = d) (drainEvs v.walCur t)
      (fun x => ∃ tn', QW x { v with queue := rest } junk ro (rc ++ t) tn') := by
  induction t with
  | nil =>
    intro rest rc tn d v junk ro h hu hq
    apply Seg.nil
    intro x hx; subst hx
    refine ⟨⟨h.diskOk, 0, Nat.le_refl _, by rw [h.served_eq]; simp⟩, tn, ?_⟩
    have : ({ v with queue := rest } : Vol) = v := by
      cases v; simp only [List.nil_append] at hq; simp [hq]
    rw [this, List.append_nil]; exact h
  | cons m t ih =>
    intro rest rc tn d v junk ro h hu hq
    have h1 := torn_event h hu (by rw [hq]; simp)
    have h2 := append_event h1 hu m (t ++ rest) (by rw [hq]; rfl)
    have hih := ih rest (rc ++ [m]) false _ { v with queue := t ++ rest } junk ro h2 hu rfl
    have hev : drainEvs v.walCur (m :: t) = .walTorn v.walCur :: .walAppend v.walCur m :: drainEvs v.walCur t := rfl
    rw [hev]
    refine Seg.cons (Q := fun x => x = applyEv d (.walTorn v.walCur)) ?_
      (Seg.cons (Q := fun x => x = applyEv (applyEv d (.walTorn v.walCur)) (.walAppend v.walCur m)) ?_ ?_)
    · intro x hx; subst hx
      exact ⟨⟨h.diskOk, 0, Nat.zero_le _, by rw [h.served_eq]; simp⟩, rfl⟩
    · intro x hx; subst hx
      exact ⟨⟨h1.diskOk, 0, Nat.zero_le _, by rw [h1.served_eq]; simp⟩, rfl⟩
    · have := hih.good_mono (Good' := GoodF v.s rc (m :: t)) (by
        intro y ⟨hy1, i, hi, hy2⟩
        refine ⟨hy1, i + 1, by simp; omega, ?_⟩
        rw [hy2]
        show served v.s _ = served v.s _
        simp)
      refine this.weaken (fun x hx => hx) ?_
      intro x ⟨tn', hx⟩
      refine ⟨tn', ?_⟩
      have e : rc ++ [m] ++ t = rc ++ m :: t := by simp
      rw [← e]; exact hx

/-! ## the asynchronous boundary relation and its good disks -/

/-- the disk is well-formed and serves the reference after a prefix (of at least `lo` entries) of the history `H` -/
def GoodA (E : Key → Option Bytes) (H : List Mutation) (lo : Nat) (x : Disk) : Prop :=
  DiskOk x ∧ ∃ p, lo ≤ p ∧ p ≤ H.length ∧ logical x = applySpec E (H.take p)

/-- operation boundary: `Hd` = the mutations that are durable (the rest of the history sits in `v.queue`) -/
def QA (E : Key → Option Bytes) (Hd : List Mutation) (x : Disk) (v : Vol) : Prop :=
  (∃ junk ro rc tn, QW x v junk ro rc tn) ∧ logical x = applySpec E Hd

theorem GoodA.mono {E : Key → Option Bytes} {H H' : List Mutation} {lo lo' : Nat} {x : Disk} (h : GoodA E H lo x)
    (hl : lo' ≤ lo) (hH : ∃ suf, H' = H ++ suf) : GoodA E H' lo' x := by
  obtain ⟨h1, p, hp1, hp2, hp3⟩ := h
  obtain ⟨suf, rfl⟩ := hH
  refine ⟨h1, p, by omega, by simp; omega, ?_⟩
  rw [hp3, List.take_append_of_le_length hp2]

theorem take_len_take {α : Type} (n : Nat) (l : List α) : l.take (l.take n).length = l.take n := by
  induction l generalizing n with
  | nil => simp
  | cons a l ih =>
    cases n with
    | zero => simp
    | succ n => simp [ih]

theorem take_append_take {α : Type} (A B : List α) (n : Nat) : (A ++ B).take (A ++ B.take n).length = A ++ B.take n := by
  rw [List.take_append, List.take_of_length_le (by simp)]
  congr 1
  have : (A ++ List.take n B).length - A.length = (List.take n B).length := by simp
  rw [this, take_len_take]

/-- a segment during which the served content does not change -/
theorem constA {v v' : Vol} {es : List Ev}
    (Hc : ∀ d junk ro rc tn, QW d v junk ro rc tn →
      ∃ junk' ro' rc' tn', Seg (Good3 d) (fun x => x = d) es (fun x => QW x v' junk' ro' rc' tn'))
    (E : Key → Option Bytes) (Hd suf : List Mutation) :
    Seg (GoodA E (Hd ++ suf) Hd.length) (fun x => QA E Hd x v) es (fun x => QA E Hd x v') := by
  intro x hx
  obtain ⟨⟨junk, ro, rc, tn, hq⟩, hl⟩ := hx
  obtain ⟨junk', ro', rc', tn', hseg⟩ := Hc x junk ro rc tn hq
  obtain ⟨g, q⟩ := hseg x rfl
  have hgood : ∀ y, Good3 x y → GoodA E (Hd ++ suf) Hd.length y := by
    intro y hy
    refine ⟨hy.1, Hd.length, Nat.le_refl _, by simp, ?_⟩
    rw [hy.2, hl, List.take_left]
  refine ⟨fun n => hgood _ (g n), ⟨junk', ro', rc', tn', q⟩, ?_⟩
  have := g es.length
  rw [List.take_length] at this
  rw [this.2, hl]

/-- a buffer flush of the first records `t` of the buffer -/
theorem drainA (E : Key → Option Bytes) (Hd t rest suf : List Mutation) (v : Vol) (hu : usable v.s = true)
    (hq : v.queue = t ++ rest) :
    Seg (GoodA E (Hd ++ t ++ suf) Hd.length) (fun x => QA E Hd x v) (drainEvs v.walCur t)
      (fun x => QA E (Hd ++ t) x { v with queue := rest }) := by
  intro x hx
  obtain ⟨⟨junk, ro, rc, tn, hqw⟩, hl⟩ := hx
  have htok : ∀ m ∈ t, m.ok = true := fun m hm => hqw.qok m (by rw [hq]; exact List.mem_append_left _ hm)
  obtain ⟨g, tn', q⟩ := drain_seg t rest rc tn x v junk ro hqw hu hq x rfl
  have hsrv : served v.s rc = applySpec E Hd := by rw [← hqw.served_eq]; exact hl
  refine ⟨fun n => ?_, ⟨junk, ro, rc ++ t, tn', q⟩, ?_⟩
  · obtain ⟨g1, i, hi, g2⟩ := g n
    have e : (Hd ++ t ++ suf).take (Hd.length + i) = Hd ++ t.take i := by
      rw [List.append_assoc, List.take_append, List.take_of_length_le (by omega), Nat.add_sub_cancel_left,
        List.take_append_of_le_length hi]
    refine ⟨g1, Hd.length + i, by omega, by rw [List.length_append, List.length_append]; omega, ?_⟩
    rw [g2, served_append _ _ _ (fun m hm => htok m (List.mem_of_mem_take hm)), hsrv, ← applySpec_append, e]
  · rw [q.served_eq, served_append _ _ _ htok, hsrv, applySpec_append]

/-- the same with a side condition on the starting disk (for steps whose events depend on the disk) -/
theorem constA' {v v' : Vol} {es : List Ev} (P : Disk → Prop)
    (Hc : ∀ d, P d → ∀ junk ro rc tn, QW d v junk ro rc tn →
      ∃ junk' ro' rc' tn', Seg (Good3 d) (fun x => x = d) es (fun x => QW x v' junk' ro' rc' tn'))
    (E : Key → Option Bytes) (Hd suf : List Mutation) :
    Seg (GoodA E (Hd ++ suf) Hd.length) (fun x => P x ∧ QA E Hd x v) es (fun x => QA E Hd x v') := by
  intro x hx
  obtain ⟨hP, ⟨junk, ro, rc, tn, hq⟩, hl⟩ := hx
  obtain ⟨junk', ro', rc', tn', hseg⟩ := Hc x hP junk ro rc tn hq
  obtain ⟨g, q⟩ := hseg x rfl
  have hgood : ∀ y, Good3 x y → GoodA E (Hd ++ suf) Hd.length y := by
    intro y hy
    refine ⟨hy.1, Hd.length, Nat.le_refl _, by simp, ?_⟩
    rw [hy.2, hl, List.take_left]
  refine ⟨fun n => hgood _ (g n), ⟨junk', ro', rc', tn', q⟩, ?_⟩
  have := g es.length
  rw [List.take_length] at this
  rw [this.2, hl]

/-! ## building blocks -/

theorem flushA (v : Vol) (E : Key → Option Bytes) (Hd suf : List Mutation) :
    Seg (GoodA E (Hd ++ suf) Hd.length) (fun x => QA E Hd x v) (flushEvs v).1 (fun x => QA E Hd x (flushEvs v).2) :=
  constA (fun d junk ro rc tn hq => by
    obtain ⟨junk', h⟩ := flush_seg d v junk ro rc tn hq
    exact ⟨junk', ro, rc, tn, h⟩) E Hd suf

theorem tornA (v : Vol) (hu : usable v.s = true) (hq : v.queue ≠ []) (E : Key → Option Bytes) (Hd suf : List Mutation) :
    Seg (GoodA E (Hd ++ suf) Hd.length) (fun x => QA E Hd x v) [.walTorn v.walCur] (fun x => QA E Hd x v) :=
  constA (fun d junk ro rc tn hqw => by
    refine ⟨junk, ro, rc, true, ?_⟩
    have h1 := torn_event hqw hu hq
    refine Seg.cons (Q := fun x => x = applyEv d (.walTorn v.walCur)) ?_ (Seg.nil ?_)
    · intro x hx; subst hx
      exact ⟨⟨hqw.diskOk, rfl⟩, rfl⟩
    · intro x hx; subst hx
      exact ⟨⟨h1.diskOk, by rw [h1.served_eq, hqw.served_eq]⟩, h1⟩) E Hd suf

theorem enq_QW {x : Disk} {v : Vol} {junk : List WalFile} {ro rc : List Mutation} {tn : Bool}
    (h : QW x v junk ro rc tn) (hu : usable v.s = true) (m : Mutation) (hm : m.ok = true) :
    QW x { wrote v m with queue := v.queue ++ [m] } junk ro rc tn := by
  obtain ⟨hwd, hw, hpend⟩ := h.live hu
  exact {
    inv := wrote_inv h.inv hu m hm
    tables := h.tables
    comps := h.comps
    walSorted := h.walSorted
    qok := by
      intro y hy
      rcases List.mem_append.1 hy with (hy | hy)
      · exact h.qok y hy
      · simp only [List.mem_singleton] at hy; subst hy; exact hm
    jk := h.jk
    wal := by
      rw [h.wal]
      have : usable ({ v.s with w := Mutation.apply v.s.w m } : State) = true := hu
      simp [liveFiles, hu, this, wrote]
      rfl
    rok := h.rok
    cok := h.cok
    tnq := by intro _; simp
    live := by
      intro _
      refine ⟨hwd, ?_, hpend⟩
      show applyMuts [] (rc ++ (v.queue ++ [m])) = m.apply v.s.w
      rw [← List.append_assoc, applyMuts_append, hw]; rfl
    idle := by
      intro hf
      have : usable v.s = false := hf
      rw [hu] at this; cases this }

/-- a rotation: the flusher finishes, closing the file writes out the whole buffer, the next file is started -/
theorem rotateA (v : Vol) (hu : usable v.s = true) (E : Key → Option Bytes) (Hd suf : List Mutation) :
    Seg (GoodA E (Hd ++ v.queue ++ suf) Hd.length) (fun x => QA E Hd x v) (rotateEvs v).1
      (fun x => QA E (Hd ++ v.queue) x (rotateEvs v).2) := by
  have hv1s : (flushEvs v).2.s = flushStep v.s := flushEvs_s v
  have hu1 : usable (flushEvs v).2.s = true := by rw [hv1s, usable_flush]; exact hu
  have hp1 : (flushEvs v).2.s.flushPending = false := by rw [hv1s]; exact flushStep_pending _
  have hq1 : (flushEvs v).2.queue = v.queue := flushEvs_queue v
  have e0 : (rotateEvs v).1 = (flushEvs v).1 ++ drainEvs (flushEvs v).2.walCur (flushEvs v).2.queue ++ [Ev.walClose (flushEvs v).2.walCur, Ev.walCreate ((flushEvs v).2.walCur + 1), Ev.walHeader ((flushEvs v).2.walCur + 1)] := rfl
  have e1 : (rotateEvs v).2 = { s := rotate (flushEvs v).2.s, walCur := (flushEvs v).2.walCur + 1, walOld := some (flushEvs v).2.walCur, queue := [] } := by
    have e : (rotateEvs v).2 = { s := rotate v.s, walCur := (flushEvs v).2.walCur + 1, walOld := some (flushEvs v).2.walCur, queue := [] } := rfl
    rw [e, hv1s, rotate_flush]
  rw [e0, e1]
  -- the flusher
  have s1 : Seg (GoodA E (Hd ++ v.queue ++ suf) Hd.length) (fun x => QA E Hd x v) (flushEvs v).1
      (fun x => QA E Hd x (flushEvs v).2) := by
    have := flushA v E Hd (v.queue ++ suf)
    rw [← List.append_assoc] at this; exact this
  -- the buffer
  have s2 : Seg (GoodA E (Hd ++ v.queue ++ suf) Hd.length) (fun x => QA E Hd x (flushEvs v).2)
      (drainEvs (flushEvs v).2.walCur (flushEvs v).2.queue)
      (fun x => QA E (Hd ++ v.queue) x { (flushEvs v).2 with queue := [] }) := by
    have := drainA E Hd (flushEvs v).2.queue [] suf (flushEvs v).2 hu1 (by simp)
    rw [hq1] at this ⊢
    exact this
  -- the new file
  have s3 : Seg (GoodA E (Hd ++ v.queue ++ suf) Hd.length) (fun x => QA E (Hd ++ v.queue) x { (flushEvs v).2 with queue := [] })
      [Ev.walClose (flushEvs v).2.walCur, Ev.walCreate ((flushEvs v).2.walCur + 1), Ev.walHeader ((flushEvs v).2.walCur + 1)]
      (fun x => QA E (Hd ++ v.queue) x { s := rotate (flushEvs v).2.s, walCur := (flushEvs v).2.walCur + 1, walOld := some (flushEvs v).2.walCur, queue := [] }) := by
    have := constA (v := { (flushEvs v).2 with queue := [] })
      (v' := { s := rotate (flushEvs v).2.s, walCur := (flushEvs v).2.walCur + 1, walOld := some (flushEvs v).2.walCur, queue := [] })
      (es := [Ev.walClose (flushEvs v).2.walCur, Ev.walCreate ((flushEvs v).2.walCur + 1), Ev.walHeader ((flushEvs v).2.walCur + 1)])
      (fun d junk ro rc tn hq => ⟨junk, rc, [], false, rotTail_seg d { (flushEvs v).2 with queue := [] } junk ro rc tn hq hu1 hp1 rfl⟩) E (Hd ++ v.queue) suf
    exact this.good_mono (fun y hy => hy.mono (by simp) ⟨[], by simp⟩)
  exact Seg.append (Seg.append s1 s2) s3

/-- an accepted write: buffered, then (possibly) part of the buffer is written, then (possibly) a rotation -/
theorem writeA (v : Vol) (hu : usable v.s = true) (m : Mutation) (hm : m.ok = true) (rot : Bool) (dr : Nat) (tn : Bool)
    (E : Key → Option Bytes) (Hd : List Mutation) :
    Seg (GoodA E (Hd ++ v.queue ++ [m]) Hd.length) (fun x => QA E Hd x v) (writeEvs true v m rot dr tn).1
      (fun x => ∃ Hd', QA E Hd' x (writeEvs true v m rot dr tn).2 ∧
        Hd' ++ (writeEvs true v m rot dr tn).2.queue = Hd ++ v.queue ++ [m] ∧ Hd.length ≤ Hd'.length ∧
        (rot = true → (writeEvs true v m rot dr tn).2.queue = [])) := by
  -- names
  let q := v.queue ++ [m]
  let enq : Vol := { wrote v m with queue := q }
  let v1 : Vol := { enq with queue := q.drop dr }
  have hlog : logEvs true (wrote v m) m dr tn =
      (drainEvs v.walCur (q.take dr) ++ (if tn && decide (dr < q.length) then [Ev.walTorn v.walCur] else []), v1) := rfl
  have hHq : Hd ++ v.queue ++ [m] = Hd ++ q := by simp [q]
  rw [hHq]
  -- enqueue (no call)
  have s0 : ∀ x, QA E Hd x v → QA E Hd x enq := by
    intro x ⟨⟨junk, ro, rc, tn', hq⟩, hl⟩
    exact ⟨⟨junk, ro, rc, tn', enq_QW hq hu m hm⟩, hl⟩
  -- part of the buffer is written
  have s1 : Seg (GoodA E (Hd ++ q) Hd.length) (fun x => QA E Hd x enq) (drainEvs v.walCur (q.take dr))
      (fun x => QA E (Hd ++ q.take dr) x v1) := by
    have := drainA E Hd (q.take dr) (q.drop dr) (q.drop dr) enq hu (List.take_append_drop dr q).symm
    rw [List.append_assoc, List.take_append_drop] at this
    exact this
  -- and possibly a piece of the next record
  have s2 : Seg (GoodA E (Hd ++ q) Hd.length) (fun x => QA E (Hd ++ q.take dr) x v1)
      (if tn && decide (dr < q.length) then [Ev.walTorn v.walCur] else []) (fun x => QA E (Hd ++ q.take dr) x v1) := by
    split
    · rename_i hc
      have hlt : dr < q.length := by
        simp only [Bool.and_eq_true, decide_eq_true_eq] at hc; exact hc.2
      have hne : v1.queue ≠ [] := by
        show q.drop dr ≠ []
        intro he
        have := congrArg List.length he
        simp at this; omega
      have := tornA v1 hu hne E (Hd ++ q.take dr) (q.drop dr)
      rw [List.append_assoc, List.take_append_drop] at this
      exact this.good_mono (fun y hy => hy.mono (by simp) ⟨[], by simp⟩)
    · apply Seg.nil
      intro x hx
      refine ⟨⟨?_, (Hd ++ q.take dr).length, by simp, ?_, ?_⟩, hx⟩
      · obtain ⟨⟨junk, ro, rc, tn', hq⟩, _⟩ := hx; exact hq.diskOk
      · simp only [List.length_append, List.length_take]; omega
      · rw [hx.2, take_append_take]
  have s12 := Seg.append s1 s2
  cases rot with
  | false =>
    have he : writeEvs true v m false dr tn = logEvs true (wrote v m) m dr tn := rfl
    rw [he, hlog]
    intro x hx
    obtain ⟨g, qq⟩ := s12 x (s0 x hx)
    refine ⟨g, Hd ++ q.take dr, qq, ?_, by simp, by intro hf; cases hf⟩
    show Hd ++ q.take dr ++ q.drop dr = Hd ++ q
    rw [List.append_assoc, List.take_append_drop]
  | true =>
    have he : writeEvs true v m true dr tn =
        ((logEvs true (wrote v m) m dr tn).1 ++ (rotateEvs (logEvs true (wrote v m) m dr tn).2).1,
          (rotateEvs (logEvs true (wrote v m) m dr tn).2).2) := rfl
    rw [he, hlog]
    have s3 := rotateA v1 hu E (Hd ++ q.take dr) []
    have hv1q : v1.queue = q.drop dr := rfl
    rw [hv1q, List.append_nil, List.append_assoc, List.take_append_drop] at s3
    have s3' := s3.good_mono (Good' := GoodA E (Hd ++ q) Hd.length)
      (fun y hy => hy.mono (by rw [List.length_append]; omega) ⟨[], by simp⟩)
    intro x hx
    obtain ⟨g, qq⟩ := Seg.append s12 s3' x (s0 x hx)
    refine ⟨g, Hd ++ q, qq, ?_, by simp, fun _ => rfl⟩
    show Hd ++ q ++ [] = Hd ++ q
    simp

/-- `Close` after the final rotation and flush: the remaining WAL files are header-only leftovers -/
theorem closeTail_seg (d : Disk) (v : Vol) (junk : List WalFile) (ro rc : List Mutation) (tn : Bool)
    (h : QW d v junk ro rc tn) (hu : usable v.s = true) (hp : v.s.flushPending = false) (hq : v.queue = [])
    (hw0 : v.s.w = []) :
    Seg (Good3 d) (fun x => x = d) [.walClose v.walCur]
      (fun x => QW x { v with s := { v.s with closed := true } } (junk ++ [{ num := v.walCur }]) [] [] false) := by
  refine Seg.cons (Q := fun x => x = d) ?_ (Seg.nil ?_)
  · intro x hx; subst hx
    exact ⟨⟨h.diskOk, rfl⟩, rfl⟩
  · intro x hx; subst hx
    refine ⟨⟨h.diskOk, rfl⟩, ?_⟩
    obtain ⟨hwd, hw, _⟩ := h.live hu
    rw [hq, List.append_nil, hw0] at hw
    have hrc : rc = [] := applyMuts_eq_nil hw
    have htn : tn = false := by
      cases tn with
      | false => rfl
      | true => exact absurd hq (h.tnq rfl)
    have hnu : usable ({ v.s with closed := true } : State) = false := by
      unfold usable; simp
    exact {
      inv := {
        wOk := h.inv.wOk
        rOk := h.inv.rOk
        cov := h.inv.cov
        idle := fun _ => ⟨hw0, hp⟩
        gens := h.inv.gens }
      tables := h.tables
      comps := h.comps
      walSorted := h.walSorted
      qok := h.qok
      jk := junk_append h.jk (by
        intro f hf
        simp only [List.mem_singleton] at hf
        subst hf
        exact ⟨rfl, rfl, rfl⟩)
      wal := by
        have l1 : liveFiles v ro rc tn = [{ num := v.walCur, recs := rc, torn := tn }] := by
          simp [liveFiles, hu, hp]
        have l2 : liveFiles { v with s := { v.s with closed := true } } [] [] false = [] := by
          show (if usable ({ v.s with closed := true } : State) = true then _ else []) = []
          rw [hnu]; rfl
        rw [h.wal, l1, l2, hrc, htn, List.append_nil]
      rok := by intro m hm; cases hm
      cok := by intro m hm; cases hm
      tnq := by intro hf; cases hf
      live := by intro hf; rw [hnu] at hf; cases hf
      idle := by
        intro _
        refine ⟨hq, rfl, ?_⟩
        intro hf
        rw [hwd] at hf; cases hf }

/-! ## one step -/

/-- the postcondition of a step: some more of the history may have become durable, never less -/
def PostA (E : Key → Option Bytes) (Hd H' : List Mutation) (rot : Bool) (v' : Vol) (x : Disk) : Prop :=
  ∃ Hd', QA E Hd' x v' ∧ Hd' ++ v'.queue = H' ∧ Hd.length ≤ Hd'.length ∧ (rot = true → v'.queue = [])

theorem QA.diskOk {E : Key → Option Bytes} {Hd : List Mutation} {x : Disk} {v : Vol} (h : QA E Hd x v) : DiskOk x := by
  obtain ⟨⟨junk, ro, rc, tn, hq⟩, _⟩ := h
  exact hq.diskOk

theorem QA.good {E : Key → Option Bytes} {Hd suf : List Mutation} {x : Disk} {v : Vol} (h : QA E Hd x v) :
    GoodA E (Hd ++ suf) Hd.length x :=
  ⟨h.diskOk, Hd.length, Nat.le_refl _, by simp, by rw [h.2, List.take_left]⟩

theorem asyncStep (E : Key → Option Bytes) (Hd : List Mutation) (d : Disk) (v : Vol) (a : AStep) (h : QA E Hd d v) :
    Seg (GoodA E (Hd ++ v.queue ++ (stepMut v.s a.st).toList) Hd.length) (fun x => x = d) (fsStep true d v a).1
      (PostA E Hd (Hd ++ v.queue ++ (stepMut v.s a.st).toList) (stepRotates v.s a.st) (fsStep true d v a).2) := by
  obtain ⟨st, dr, tn, junks⟩ := a
  -- a step without events that leaves the process alone
  have hnil : ∀ (suf : List Mutation) (rot : Bool), suf = [] → rot = false →
      Seg (GoodA E (Hd ++ v.queue ++ suf) Hd.length) (fun x => x = d) []
        (PostA E Hd (Hd ++ v.queue ++ suf) rot v) := by
    intro suf rot hs hr
    subst hs hr
    apply Seg.nil
    intro x hx; subst hx
    refine ⟨?_, Hd, h, by simp, Nat.le_refl _, by intro hf; cases hf⟩
    have := h.good (suf := v.queue ++ [])
    rw [← List.append_assoc] at this; exact this
  have hstart : ∀ {Good es Post}, Seg Good (fun x => QA E Hd x v) es Post → Seg Good (fun x => x = d) es Post :=
    fun hs => hs.weaken (fun x hx => hx ▸ h) (fun _ hq => hq)
  -- client writes
  have hmut : ∀ (st' : Step) (rot : Bool), (∀ m, stepMut v.s st' = some m → usable v.s = true ∧ m.ok = true) →
      (stepRotates v.s st' = (rot && (stepMut v.s st').isSome)) →
      Seg (GoodA E (Hd ++ v.queue ++ (stepMut v.s st').toList) Hd.length) (fun x => x = d)
        (match stepMut v.s st' with
          | some m => writeEvs true v m rot dr tn
          | none => ([], v)).1
        (PostA E Hd (Hd ++ v.queue ++ (stepMut v.s st').toList) (stepRotates v.s st')
          (match stepMut v.s st' with
          | some m => writeEvs true v m rot dr tn
          | none => ([], v)).2) := by
    intro st' rot hok hrot
    rw [hrot]
    cases hm : stepMut v.s st' with
    | none => exact hnil _ _ rfl (by simp)
    | some m =>
      obtain ⟨hu, hmo⟩ := hok m hm
      have := hstart (writeA v hu m hmo rot dr tn E Hd)
      simp only [Option.toList, Option.isSome_some, Bool.and_true]
      exact this
  cases st with
  | putB k val rot =>
    apply hmut (.putB k val rot) rot
    · intro m hm
      rcases stepMut_putB v.s k val rot with (⟨kb, vb, _, _, hm', hu, hvb, _⟩ | ⟨hm', _⟩)
      · rw [hm'] at hm; cases hm
        refine ⟨hu, ?_⟩
        cases vb with
        | nil => exact absurd rfl hvb
        | cons _ _ => rfl
      · rw [hm'] at hm; cases hm
    · rfl
  | putS k val rot =>
    apply hmut (.putS k val rot) rot
    · intro m hm
      have hsame : stepMut v.s (.putS k val rot) = stepMut v.s (.putB (some k) (some val) rot) := rfl
      rw [hsame] at hm
      rcases stepMut_putB v.s (some k) (some val) rot with (⟨kb, vb, _, _, hm', hu, hvb, _⟩ | ⟨hm', _⟩)
      · rw [hm'] at hm; cases hm
        refine ⟨hu, ?_⟩
        cases vb with
        | nil => exact absurd rfl hvb
        | cons _ _ => rfl
      · rw [hm'] at hm; cases hm
    · rfl
  | delB k =>
    apply hmut (.delB k) false
    · intro m hm
      simp only [stepMut] at hm
      split at hm
      · rename_i hu; cases hm; exact ⟨hu, rfl⟩
      · cases hm
    · rfl
  | delS k =>
    apply hmut (.delS k) false
    · intro m hm
      simp only [stepMut] at hm
      split at hm
      · rename_i hu; cases hm; exact ⟨hu, rfl⟩
      · cases hm
    · rfl
  | get k => exact hnil _ _ rfl rfl
  | rotate =>
    simp only [fsStep, stepMut, stepRotates, Option.toList]
    cases hu : usable v.s with
    | false => exact hnil _ _ rfl rfl
    | true =>
      simp only [if_true]
      refine hstart ?_
      intro x hx
      obtain ⟨g, q⟩ := rotateA v hu E Hd [] x hx
      exact ⟨g, Hd ++ v.queue, q, by simp [rotateEvs], by simp, fun _ => rfl⟩
  | flush =>
    simp only [fsStep, stepMut, stepRotates, Option.toList]
    refine hstart ?_
    intro x hx
    have := flushA v E Hd (v.queue ++ [])
    rw [← List.append_assoc] at this
    obtain ⟨g, q⟩ := this x hx
    exact ⟨g, Hd, q, by rw [flushEvs_queue]; simp, Nat.le_refl _, by intro hf; cases hf⟩
  | compact sizes =>
    simp only [fsStep, stepMut, stepRotates, Option.toList]
    cases hu : usable v.s with
    | false => exact hnil _ _ rfl rfl
    | true =>
      simp only [if_true]
      have := constA' (v := v) (v' := (compactEvs d v sizes junks).2) (es := (compactEvs d v sizes junks).1) (fun x => x = d)
        (fun x hx junk ro rc tn hq => by subst hx; exact ⟨junk, ro, rc, tn, compact_seg x v junk ro rc tn hq sizes junks⟩)
        E Hd (v.queue ++ [])
      rw [← List.append_assoc] at this
      intro x hx
      obtain ⟨g, q⟩ := this x ⟨hx, hx ▸ h⟩
      exact ⟨g, Hd, q, by rw [compactEvs_queue]; simp, Nat.le_refl _, by intro hf; cases hf⟩
  | close =>
    simp only [fsStep, stepMut, stepRotates, Option.toList]
    cases hu : usable v.s with
    | false => exact hnil _ _ rfl rfl
    | true =>
      simp only [if_true]
      refine hstart ?_
      -- rotate, let the flusher finish, close the file
      have s1 := rotateA v hu E Hd []
      have hus2 : usable (rotateEvs v).2.s = true := by
        show usable (rotate v.s) = true
        rw [usable_rotate]; exact hu
      have s2 := flushA (rotateEvs v).2 E (Hd ++ v.queue) []
      have hus3 : usable (flushEvs (rotateEvs v).2).2.s = true := by
        rw [flushEvs_s, usable_flush]; exact hus2
      have hp3 : (flushEvs (rotateEvs v).2).2.s.flushPending = false := by
        rw [flushEvs_s]; exact flushStep_pending _
      have hq3 : (flushEvs (rotateEvs v).2).2.queue = [] := by rw [flushEvs_queue]; rfl
      have hw3 : (flushEvs (rotateEvs v).2).2.s.w = [] := by rw [flushEvs_s, flushStep_w]; rfl
      have s3 := constA (v := (flushEvs (rotateEvs v).2).2)
        (v' := { (flushEvs (rotateEvs v).2).2 with s := { (flushEvs (rotateEvs v).2).2.s with closed := true } })
        (es := [Ev.walClose (flushEvs (rotateEvs v).2).2.walCur])
        (fun x junk ro rc tn hq => ⟨_, _, _, _, closeTail_seg x _ junk ro rc tn hq hus3 hp3 hq3 hw3⟩) E (Hd ++ v.queue) []
      have hmono : ∀ y, GoodA E (Hd ++ v.queue ++ []) (Hd ++ v.queue).length y → GoodA E (Hd ++ v.queue ++ []) Hd.length y :=
        fun y hy => hy.mono (by simp) ⟨[], by simp⟩
      intro x hx
      obtain ⟨g, q⟩ := Seg.append (Seg.append s1 (s2.good_mono hmono)) (s3.good_mono hmono) x hx
      exact ⟨g, Hd ++ v.queue, q, by rw [hq3], by simp, fun _ => hq3⟩
  | reopen o =>
    simp only [fsStep, stepMut, stepRotates, Option.toList]
    cases hn : (v.s.closed || !v.s.isOpen) with
    | false => simp only [Bool.false_eq_true, if_false]; exact hnil _ _ rfl rfl
    | true =>
      simp only [if_true]
      obtain ⟨d', s', hr⟩ := recover_ok d h.diskOk o
      rw [hr]
      have hnu : usable v.s = false := by
        unfold usable
        cases ho : v.s.isOpen <;> cases hc : v.s.closed <;> simp_all
      have hq0 : v.queue = [] := by
        obtain ⟨⟨junk, ro, rc, tn, hq⟩, _⟩ := h
        exact (hq.idle hnu).1
      have := constA' (v := v) (v' := openedVol s') (es := recoverEvents d junks) (fun x => x = d)
        (fun x hx junk ro rc tn hq => by
          subst hx
          exact ⟨[], [], [], false, reopen_seg x hq.diskOk o d' s' hr junks⟩)
        E Hd (v.queue ++ [])
      rw [← List.append_assoc] at this
      intro x hx
      obtain ⟨g, q⟩ := this x ⟨hx, hx ▸ h⟩
      exact ⟨g, Hd, q, by rw [hq0]; simp, Nat.le_refl _, by intro hf; cases hf⟩

/-! ## sessions -/

theorem filterMap_info_single (mo : Option Mutation) (rot : Bool) :
    [(mo, rot)].filterMap (fun (p : Option Mutation × Bool) => p.1) = mo.toList := by
  cases mo <;> rfl

/-- C13, general form: from any operation boundary with durable history `Hd` and buffered `v.queue` -/
theorem async_run (asteps : List AStep) : ∀ (E : Key → Option Bytes) (Hd : List Mutation) (d : Disk) (v : Vol) (mark : Nat),
    QA E Hd d v → mark ≤ Hd.length → ∀ n,
    DiskOk (applyEvs d ((sessionFrom true d v asteps).flatten.take n)) ∧
    ∃ p, rotMarkFrom mark (Hd ++ v.queue).length ((sessionInfo true d v asteps).take (ackedCount (sessionFrom true d v asteps) n)) ≤ p ∧
      p ≤ (Hd ++ v.queue ++ ((sessionInfo true d v asteps).take (ackedCount (sessionFrom true d v asteps) n + 1)).filterMap (·.1)).length ∧
      logical (applyEvs d ((sessionFrom true d v asteps).flatten.take n)) =
        applySpec E ((Hd ++ v.queue ++ ((sessionInfo true d v asteps).take (ackedCount (sessionFrom true d v asteps) n + 1)).filterMap (·.1)).take p) := by
  induction asteps with
  | nil =>
    intro E Hd d v mark h hm n
    simp only [sessionFrom, sessionInfo, List.flatten_nil, List.take_nil, applyEvs_nil, ackedCount_nil, rotMarkFrom,
      List.filterMap_nil, List.append_nil]
    refine ⟨h.diskOk, Hd.length, hm, by simp, ?_⟩
    rw [h.2, List.take_left]
  | cons a rest ih =>
    intro E Hd d v mark h hm n
    have hseg := asyncStep E Hd d v a h d rfl
    simp only [sessionFrom, sessionInfo, List.flatten_cons, ackedCount]
    by_cases hn : (fsStep true d v a).1.length ≤ n
    · -- the step is complete
      rw [if_pos hn, List.take_append, List.take_of_length_le hn, applyEvs_append]
      obtain ⟨Hd', hq', hH, hle, hrot⟩ := hseg.2
      have hmark' : (if stepRotates v.s a.st = true then (Hd ++ v.queue).length + (stepMut v.s a.st).toList.length else mark)
          ≤ Hd'.length := by
        split
        · rename_i hr
          have := hrot hr
          rw [this, List.append_nil] at hH
          rw [hH]; simp; omega
        · omega
      have := ih E Hd' (applyEvs d (fsStep true d v a).1) (fsStep true d v a).2 _ hq' hmark'
        (n - (fsStep true d v a).1.length)
      rw [hH] at this
      obtain ⟨g1, p, hp1, hp2, hp3⟩ := this
      refine ⟨g1, p, ?_, ?_, ?_⟩
      · have e : ∀ k (l : List (Option Mutation × Bool)) x, List.take (1 + k) (x :: l) = x :: List.take k l := by
          intro k l x; rw [Nat.add_comm]; rfl
        rw [e]
        simp only [rotMarkFrom]
        have hl : (Hd ++ v.queue ++ (stepMut v.s a.st).toList).length = (Hd ++ v.queue).length + (stepMut v.s a.st).toList.length := by
          simp only [List.length_append]
        rw [hl] at hp1
        exact hp1
      · have e : ∀ k (l : List (Option Mutation × Bool)) x, List.take (1 + k + 1) (x :: l) = x :: List.take (k + 1) l := by
          intro k l x; rw [Nat.add_comm 1 k]; rfl
        rw [e, List.filterMap_cons]
        cases hmo : stepMut v.s a.st with
        | none => rw [hmo] at hp2; simpa using hp2
        | some m => rw [hmo] at hp2; simpa using hp2
      · have e : ∀ k (l : List (Option Mutation × Bool)) x, List.take (1 + k + 1) (x :: l) = x :: List.take (k + 1) l := by
          intro k l x; rw [Nat.add_comm 1 k]; rfl
        rw [e, List.filterMap_cons, hp3]
        cases hmo : stepMut v.s a.st with
        | none => simp
        | some m => simp
    · -- the crash falls inside the step
      rw [if_neg hn]
      rw [List.take_append_of_le_length (by omega)]
      obtain ⟨g1, p, hp1, hp2, hp3⟩ := hseg.1 n
      simp only [Nat.zero_add, List.take_zero, rotMarkFrom, List.take_succ_cons, List.take_zero]
      rw [filterMap_info_single]
      exact ⟨g1, p, by omega, hp2, hp3⟩

theorem QA_init : QA (fun _ => none) [] {} {} := by
  obtain ⟨⟨junk, ro, rc, tn, hq⟩, _⟩ := QS_init
  refine ⟨⟨junk, ro, rc, tn, hq⟩, ?_⟩
  rw [hq.serves_sync rfl]
  funext k
  rfl

/-! ## the issued mutations are the reference's mutations -/

theorem specStep_m (s : State) (sp : Spec) (h : Rel s sp) (st : Step) :
    (specStep sp st).1.m = match stepMut s st with
      | some m => Mutation.spec sp.m m
      | none => sp.m := by
  have hus : sp.usable = usable s := h.usable
  have hput : ∀ k val rot, (specPut sp k val).1.m = match stepMut s (.putB k val rot) with
      | some m => Mutation.spec sp.m m
      | none => sp.m := by
    intro k val rot
    cases k with
    | none => rfl
    | some kb =>
      cases val with
      | none => rfl
      | some vb =>
        by_cases he : (kb.isEmpty || vb.isEmpty) = true
        · simp [specPut, stepMut, he]
        · cases hu : usable s with
          | false => simp [specPut, stepMut, he, hus, hu]
          | true =>
            have : (kb.isEmpty || vb.isEmpty || !usable s) = false := by rw [hu]; simpa using he
            simp only [specPut, stepMut, he, hus, hu, this, Bool.not_true, Bool.false_eq_true, if_false]
            rfl
  cases st with
  | putB k val rot => exact hput k val rot
  | putS k val rot => exact hput (some k) (some val) rot
  | delB k =>
    simp only [specStep, specDel, stepMut, hus]
    cases hu : usable s <;> simp [Mutation.spec]
  | delS k =>
    simp only [specStep, specDel, stepMut, hus]
    cases hu : usable s <;> simp [Mutation.spec]
  | get k => rfl
  | rotate => rfl
  | flush => rfl
  | compact sizes => rfl
  | close => simp only [specStep, stepMut]; split <;> rfl
  | reopen o => simp only [specStep, stepMut]; split <;> rfl

theorem asyncStep_QW (d : Disk) (v : Vol) (a : AStep) (h : ∃ junk ro rc tn, QW d v junk ro rc tn) :
    ∃ junk ro rc tn, QW (applyEvs d (fsStep true d v a).1) (fsStep true d v a).2 junk ro rc tn := by
  have hq : QA (logical d) [] d v := ⟨h, rfl⟩
  obtain ⟨_, hq', _, _⟩ := (asyncStep (logical d) [] d v a hq d rfl).2
  exact hq'.1

theorem asyncStep_rel (d : Disk) (v : Vol) (sp : Spec) (a : AStep) (h : ∃ junk ro rc tn, QW d v junk ro rc tn)
    (hr : Rel v.s sp) : Rel (fsStep true d v a).2.s (specStep sp a.st).1 := by
  obtain ⟨junk, ro, rc, tn, hq⟩ := h
  by_cases hro : ∃ o, a.st = .reopen o
  · obtain ⟨o, hst⟩ := hro
    obtain ⟨st, dr, tn', jk⟩ := a
    simp only at hst
    subst hst
    simp only [fsStep, specStep]
    rw [← hr.o, ← hr.c]
    cases hn : (v.s.closed || !v.s.isOpen) with
    | false => simp only [Bool.false_eq_true, if_false]; exact hr
    | true =>
      simp only [if_true]
      obtain ⟨d', s', hrec⟩ := recover_ok d hq.diskOk o
      rw [hrec]
      have hq' := recover_QW d hq.diskOk o d' s' hrec
      have hfl : s'.isOpen = true ∧ s'.closed = false := by
        rw [recover_eq d hq.diskOk] at hrec
        unfold phase3 at hrec
        split at hrec
        · cases hrec
        · simp only at hrec
          split at hrec <;> cases hrec <;> exact ⟨rfl, rfl⟩
      have hnu : usable v.s = false := by
        unfold usable
        cases ho : v.s.isOpen <;> cases hc : v.s.closed <;> simp_all
      exact {
        inv := hq'.inv
        o := hfl.1
        c := hfl.2
        m := by
          intro k
          show abs s' k = sp.m k
          rw [recover_abs d o d' s' hrec, hq.serves_sync (hq.idle hnu).1]
          exact hr.m k }
  · have hno : ∀ o, a.st ≠ .reopen o := fun o he => hro ⟨o, he⟩
    rw [fsStep_s true d v a hno]
    exact (step_sim v.s sp hr a.st).1

theorem issued_is_reference (asteps : List AStep) : ∀ (d : Disk) (v : Vol) (sp : Spec),
    (∃ junk ro rc tn, QW d v junk ro rc tn) → Rel v.s sp →
    (specFold sp (asteps.map (·.st))).m = applySpec sp.m ((sessionInfo true d v asteps).filterMap (·.1)) := by
  induction asteps with
  | nil => intro d v sp _ _; rfl
  | cons a rest ih =>
    intro d v sp h hr
    simp only [List.map_cons, specFold, sessionInfo, List.filterMap_cons]
    rw [ih _ _ _ (asyncStep_QW d v a h) (asyncStep_rel d v sp a h hr), specStep_m v.s sp hr a.st]
    cases stepMut v.s a.st with
    | none => rfl
    | some m => rfl

theorem sessionInfo_take (async : Bool) (asteps : List AStep) : ∀ (d : Disk) (v : Vol) (j : Nat),
    (sessionInfo async d v asteps).take j = sessionInfo async d v (asteps.take j) := by
  induction asteps with
  | nil => intro d v j; simp [sessionInfo]
  | cons a rest ih =>
    intro d v j
    cases j with
    | zero => simp [sessionInfo]
    | succ j => simp only [sessionInfo, List.take_succ_cons, ih]

end SST.Proofs.FS
