/-
L6-fs, synchronous WAL (C02): every step of a session as a segment of events during which the disk is
well-formed and serves the reference map before or after the step; the session theorem by induction.
-/
import SST.Proofs.FSCompact
import SST.Proofs.DB
namespace SST.Proofs.FS
open SST SST.DBM SST.FS SST.Proofs.DB

def GoodL (L : Key → Option Bytes) (x : Disk) : Prop := DiskOk x ∧ logical x = L
def GoodS (A B : Key → Option Bytes) (x : Disk) : Prop := DiskOk x ∧ (logical x = A ∨ logical x = B)

/-- operation-boundary relation with an empty WAL buffer (always the case with the synchronous WAL) -/
def QS (x : Disk) (v : Vol) : Prop := (∃ junk ro rc tn, QW x v junk ro rc tn) ∧ v.queue = []

theorem QS.serves {x : Disk} {v : Vol} (h : QS x v) : logical x = abs v.s := by
  obtain ⟨⟨junk, ro, rc, tn, hq⟩, he⟩ := h
  exact hq.serves_sync he

theorem QS.diskOk {x : Disk} {v : Vol} (h : QS x v) : DiskOk x := by
  obtain ⟨⟨junk, ro, rc, tn, hq⟩, _⟩ := h
  exact hq.diskOk

theorem QS.inv {x : Disk} {v : Vol} (h : QS x v) : Inv v.s := by
  obtain ⟨⟨junk, ro, rc, tn, hq⟩, _⟩ := h
  exact hq.inv

/-! ## what the steps do to the process state: exactly `DBM.step` -/

theorem usable_not (s : State) : (!s.isOpen || s.closed) = !usable s := by
  unfold usable; cases s.isOpen <;> cases s.closed <;> rfl

theorem stepMut_putB (s : State) (k val : GoBytes) (rot : Bool) :
    (∃ kb vb, k = some kb ∧ val = some vb ∧ stepMut s (.putB k val rot) = some (.put kb vb) ∧ usable s = true ∧
        vb ≠ [] ∧ putBytes s k val rot = (if rot then rotate { s with w := (Mutation.put kb vb).apply s.w }
          else { s with w := (Mutation.put kb vb).apply s.w }, .ok)) ∨
    (stepMut s (.putB k val rot) = none ∧ (putBytes s k val rot).1 = s) := by
  cases k with
  | none => right; exact ⟨rfl, rfl⟩
  | some kb =>
    cases val with
    | none => right; exact ⟨rfl, rfl⟩
    | some vb =>
      by_cases he : (kb.isEmpty || vb.isEmpty) = true
      · right
        simp [stepMut, putBytes, he]
      · cases hu : usable s with
        | false =>
          right
          have : (!s.isOpen || s.closed) = true := by rw [usable_not, hu]; rfl
          simp [stepMut, putBytes, he, hu, this]
        | true =>
          left
          have hn : (!s.isOpen || s.closed) = false := by rw [usable_not, hu]; rfl
          have hvb : vb ≠ [] := by
            intro h0; subst h0; simp at he
          refine ⟨kb, vb, rfl, rfl, ?_, rfl, hvb, ?_⟩
          · simp only [stepMut]
            have : (kb.isEmpty || vb.isEmpty || !usable s) = false := by
              rw [hu]; simpa using he
            rw [this]; rfl
          · simp only [putBytes, he, hn, Bool.false_eq_true, if_false]
            cases rot <;> rfl

theorem logEvs_s (async : Bool) (v : Vol) (m : Mutation) (dr : Nat) (tn : Bool) :
    (logEvs async v m dr tn).2.s = v.s := by
  unfold logEvs; cases async <;> rfl

theorem writeEvs_s (async : Bool) (v : Vol) (m : Mutation) (rot : Bool) (dr : Nat) (tn : Bool) :
    (writeEvs async v m rot dr tn).2.s =
      if rot then rotate { v.s with w := m.apply v.s.w } else { v.s with w := m.apply v.s.w } := by
  unfold writeEvs
  cases rot with
  | false => simp only [Bool.false_eq_true, if_false]; exact logEvs_s _ _ _ _ _
  | true =>
    simp only [if_true]
    show rotate (logEvs async _ m dr tn).2.s = _
    rw [logEvs_s]

theorem compactEvs_queue (d : Disk) (v : Vol) (sizes : List Nat) {jk : List (Nat × Layer)} :
    (compactEvs d v sizes jk).2.queue = v.queue := by
  rcases compactStep_spec2 v.s sizes with (he | ⟨pre, t0, sel', post, _, he⟩)
  · simp [compactEvs, he]
  · unfold compactEvs
    rw [he]
    rfl

theorem usable_rotate (s : State) : usable (rotate s) = usable s := by
  unfold usable
  rw [rotate_eq]
  show ((flushStep s).isOpen && !(flushStep s).closed) = _
  rw [flushStep_isOpen, flushStep_closed]

theorem compactEvs_s (d : Disk) (v : Vol) (sizes : List Nat) {jk : List (Nat × Layer)} :
    (compactEvs d v sizes jk).2.s = (compactStep v.s sizes).1 := by
  rcases compactStep_spec2 v.s sizes with (he | ⟨pre, t0, sel', post, _, he⟩)
  · simp [compactEvs, he]
  · unfold compactEvs
    rw [he]
    rfl

/-- apart from `reopen` (which reads the disk), a step changes the process state exactly as in the L6 model -/
theorem fsStep_s (async : Bool) (d : Disk) (v : Vol) (a : AStep) (hno : ∀ o, a.st ≠ .reopen o) :
    (fsStep async d v a).2.s = (step v.s a.st).1 := by
  obtain ⟨st, dr, tn, jk⟩ := a
  cases st with
  | putB k val rot =>
    simp only [fsStep, step]
    rcases stepMut_putB v.s k val rot with (⟨kb, vb, rfl, rfl, hm, _, _, hp⟩ | ⟨hm, hp⟩)
    · rw [hm, hp]; exact writeEvs_s _ _ _ _ _ _
    · rw [hm]; exact hp.symm
  | putS k val rot =>
    simp only [fsStep, step]
    rw [(api_flavours_agree v.s k val rot).1]
    have hsame : stepMut v.s (.putS k val rot) = stepMut v.s (.putB (some k) (some val) rot) := rfl
    rw [hsame]
    rcases stepMut_putB v.s (some k) (some val) rot with (⟨kb, vb, hk, hv, hm, _, _, hp⟩ | ⟨hm, hp⟩)
    · rw [hm, hp]; exact writeEvs_s _ _ _ _ _ _
    · rw [hm]; exact hp.symm
  | delB k =>
    simp only [fsStep, step, stepMut, deleteBytes]
    cases hu : usable v.s with
    | true =>
      have hn : (!v.s.isOpen || v.s.closed) = false := by rw [usable_not, hu]; rfl
      simp only [if_true, hn, Bool.false_eq_true, if_false]
      exact writeEvs_s _ _ _ _ _ _
    | false =>
      have hn : (!v.s.isOpen || v.s.closed) = true := by rw [usable_not, hu]; rfl
      simp [hn]
  | delS k =>
    simp only [fsStep, step, stepMut, deleteStr, deleteBytes]
    cases hu : usable v.s with
    | true =>
      have hn : (!v.s.isOpen || v.s.closed) = false := by rw [usable_not, hu]; rfl
      simp only [if_true, hn, Bool.false_eq_true, if_false]
      exact writeEvs_s _ _ _ _ _ _
    | false =>
      have hn : (!v.s.isOpen || v.s.closed) = true := by rw [usable_not, hu]; rfl
      simp [hn]
  | get k => rfl
  | rotate =>
    cases hu : usable v.s with
    | true =>
      have hu' : (v.s.isOpen && !v.s.closed) = true := hu
      simp only [fsStep, step, hu, hu', if_true]
      rfl
    | false =>
      have hu' : (v.s.isOpen && !v.s.closed) = false := hu
      simp only [fsStep, step, hu, hu', Bool.false_eq_true, if_false]
  | flush => exact flushEvs_s v
  | compact sizes =>
    cases hu : usable v.s with
    | true =>
      have hu' : (v.s.isOpen && !v.s.closed) = true := hu
      simp only [fsStep, step, hu, hu', if_true]
      exact compactEvs_s d v sizes
    | false =>
      have hu' : (v.s.isOpen && !v.s.closed) = false := hu
      simp only [fsStep, step, hu, hu', Bool.false_eq_true, if_false]
  | close =>
    simp only [fsStep, step, close]
    cases hu : usable v.s with
    | true =>
      have hn : (!v.s.isOpen || v.s.closed) = false := by rw [usable_not, hu]; rfl
      simp only [if_true, hn, Bool.false_eq_true, if_false]
      show ({ (flushEvs (rotateEvs v).2).2.s with closed := true } : State) = _
      rw [flushEvs_s]
      rfl
    | false =>
      have hn : (!v.s.isOpen || v.s.closed) = true := by rw [usable_not, hu]; rfl
      simp [hn]
  | reopen o => exact absurd rfl (hno o)

/-! ## internal steps do not change what the process serves -/

theorem abs_flush {s : State} (h : Inv s) : abs (flushStep s) = abs s := by
  funext k
  rw [abs_eq_stack _ (flushStep_inv s h), flushStep_stack, ← abs_eq_stack s h]

theorem abs_rotate {s : State} (h : Inv s) (hu : usable s = true) : abs (rotate s) = abs s := by
  funext k
  rw [abs_eq_stack _ (rotate_inv s h (by rw [← usable_eq]; exact hu)), rotate_stack s h, ← abs_eq_stack s h]

theorem rotate_flush (s : State) : rotate (flushStep s) = rotate s := by
  rw [rotate_eq, rotate_eq, flushStep_not_pending (flushStep s) (flushStep_pending s)]

theorem usable_flush (s : State) : usable (flushStep s) = usable s := by
  unfold usable; rw [flushStep_isOpen, flushStep_closed]

/-! ## the building blocks over `QS` -/

theorem good3_L {x y : Disk} {v : Vol} (h : QS x v) (hg : Good3 x y) : GoodL (abs v.s) y :=
  ⟨hg.1, hg.2.trans h.serves⟩

theorem flushS (v : Vol) :
    Seg (GoodL (abs v.s)) (fun x => QS x v) (flushEvs v).1 (fun x => QS x (flushEvs v).2) := by
  intro x hx
  obtain ⟨⟨junk, ro, rc, tn, hq⟩, he⟩ := hx
  obtain ⟨junk', hseg⟩ := flush_seg x v junk ro rc tn hq
  obtain ⟨g, q⟩ := hseg x rfl
  exact ⟨fun n => good3_L ⟨⟨junk, ro, rc, tn, hq⟩, he⟩ (g n), ⟨⟨junk', ro, rc, tn, q⟩, by rw [flushEvs_queue]; exact he⟩⟩

theorem rotateS (v : Vol) (hu : usable v.s = true) :
    Seg (GoodL (abs v.s)) (fun x => QS x v) (rotateEvs v).1 (fun x => QS x (rotateEvs v).2) := by
  intro x hx
  have hinv := hx.inv
  have hqe : v.queue = [] := hx.2
  -- the flusher first
  have h1 := flushS v
  -- then the tail, from the flushed state
  have hv1s : (flushEvs v).2.s = flushStep v.s := flushEvs_s v
  have hu1 : usable (flushEvs v).2.s = true := by rw [hv1s, usable_flush]; exact hu
  have hp1 : (flushEvs v).2.s.flushPending = false := by rw [hv1s]; exact flushStep_pending _
  have hq1 : (flushEvs v).2.queue = [] := by rw [flushEvs_queue]; exact hqe
  have h2 : Seg (GoodL (abs v.s)) (fun y => QS y (flushEvs v).2)
      [.walClose (flushEvs v).2.walCur, .walCreate ((flushEvs v).2.walCur + 1), .walHeader ((flushEvs v).2.walCur + 1)]
      (fun y => QS y (rotateEvs v).2) := by
    intro y hy
    obtain ⟨⟨junk, ro, rc, tn, hq⟩, he⟩ := hy
    obtain ⟨g, q⟩ := rotTail_seg y (flushEvs v).2 junk ro rc tn hq hu1 hp1 hq1 y rfl
    have habs : abs (flushEvs v).2.s = abs v.s := by rw [hv1s]; exact abs_flush hinv
    refine ⟨fun n => ?_, ?_⟩
    · have := good3_L ⟨⟨junk, ro, rc, tn, hq⟩, he⟩ (g n)
      rw [habs] at this; exact this
    · refine ⟨⟨junk, rc, [], false, ?_⟩, rfl⟩
      have : (rotateEvs v).2 = { s := rotate (flushEvs v).2.s, walCur := (flushEvs v).2.walCur + 1, walOld := some (flushEvs v).2.walCur, queue := [] } := by
        have e0 : (rotateEvs v).2 = { s := rotate v.s, walCur := (flushEvs v).2.walCur + 1, walOld := some (flushEvs v).2.walCur, queue := [] } := rfl
        rw [e0, hv1s, rotate_flush]
      rw [this]; exact q
  have hev : (rotateEvs v).1 = (flushEvs v).1 ++ [.walClose (flushEvs v).2.walCur,
      .walCreate ((flushEvs v).2.walCur + 1), .walHeader ((flushEvs v).2.walCur + 1)] := by
    have e0 : (rotateEvs v).1 = (flushEvs v).1 ++ drainEvs (flushEvs v).2.walCur (flushEvs v).2.queue ++ [Ev.walClose (flushEvs v).2.walCur, Ev.walCreate ((flushEvs v).2.walCur + 1), Ev.walHeader ((flushEvs v).2.walCur + 1)] := rfl
    rw [e0, hq1]; simp [drainEvs]
  rw [hev]
  exact Seg.append h1 h2 x hx

theorem writeS (v : Vol) (hu : usable v.s = true) (m : Mutation) (hm : m.ok = true) :
    Seg (GoodS (abs v.s) (abs (wrote v m).s)) (fun x => QS x v) [.walTorn v.walCur, .walAppend v.walCur m]
      (fun x => QS x (wrote v m)) := by
  intro x hx
  obtain ⟨⟨junk, ro, rc, tn, hq⟩, he⟩ := hx
  obtain ⟨g, q⟩ := writeSync_seg x v junk ro rc tn hq hu he m hm x rfl
  exact ⟨g, ⟨⟨junk, ro, rc ++ [m], false, q⟩, he⟩⟩

theorem GoodL.toS {A B : Key → Option Bytes} {x : Disk} (h : GoodL A x) : GoodS A B x := ⟨h.1, Or.inl h.2⟩
theorem GoodL.toS' {A B : Key → Option Bytes} {x : Disk} (h : GoodL B x) : GoodS A B x := ⟨h.1, Or.inr h.2⟩

/-- an accepted write, with or without a size-triggered rotation -/
theorem writeStepS (v : Vol) (hu : usable v.s = true) (m : Mutation) (hm : m.ok = true) (rot : Bool) (dr : Nat) (tn : Bool) :
    Seg (GoodS (abs v.s) (abs (writeEvs false v m rot dr tn).2.s)) (fun x => QS x v)
      (writeEvs false v m rot dr tn).1 (fun x => QS x (writeEvs false v m rot dr tn).2) := by
  have hw := writeS v hu m hm
  cases rot with
  | false => exact hw
  | true =>
    intro x hx
    have hinv1 : Inv (wrote v m).s := wrote_inv hx.inv hu m hm
    have hu1 : usable (wrote v m).s = true := hu
    have hr := rotateS (wrote v m) hu1
    have hB : abs (writeEvs false v m true dr tn).2.s = abs (wrote v m).s := by
      rw [writeEvs_s]
      exact abs_rotate hinv1 hu1
    rw [hB]
    exact Seg.append hw (hr.good_mono (fun y hy => hy.toS')) x hx

/-! ## one step -/

theorem syncStep (d : Disk) (v : Vol) (a : AStep) (h : QS d v) :
    Seg (GoodS (abs v.s) (abs (fsStep false d v a).2.s)) (fun x => x = d)
      (fsStep false d v a).1 (fun x => QS x (fsStep false d v a).2) := by
  obtain ⟨st, dr, tn, junks⟩ := a
  have hnil : ∀ B, Seg (GoodS (abs v.s) B) (fun x => x = d) [] (fun x => QS x v) := by
    intro B
    apply Seg.nil
    intro x hx; subst hx
    exact ⟨⟨h.diskOk, Or.inl h.serves⟩, h⟩
  have hstart : ∀ {Good es Post}, Seg Good (fun x => QS x v) es Post → Seg Good (fun x => x = d) es Post :=
    fun hs => hs.weaken (fun x hx => hx ▸ h) (fun _ hq => hq)
  have hmut : ∀ (st' : Step) (rot : Bool), (∀ m, stepMut v.s st' = some m → usable v.s = true ∧ m.ok = true) →
      Seg (GoodS (abs v.s) (abs (match stepMut v.s st' with
          | some m => writeEvs false v m rot dr tn
          | none => ([], v)).2.s)) (fun x => x = d)
        (match stepMut v.s st' with
          | some m => writeEvs false v m rot dr tn
          | none => ([], v)).1
        (fun x => QS x (match stepMut v.s st' with
          | some m => writeEvs false v m rot dr tn
          | none => ([], v)).2) := by
    intro st' rot hok
    cases hm : stepMut v.s st' with
    | none => exact hnil _
    | some m =>
      obtain ⟨hu, hmo⟩ := hok m hm
      exact hstart (writeStepS v hu m hmo rot dr tn)
  cases st with
  | putB k val rot =>
    apply hmut (.putB k val rot) rot
    intro m hm
    rcases stepMut_putB v.s k val rot with (⟨kb, vb, _, _, hm', hu, hvb, _⟩ | ⟨hm', _⟩)
    · rw [hm'] at hm; cases hm
      refine ⟨hu, ?_⟩
      cases vb with
      | nil => exact absurd rfl hvb
      | cons _ _ => rfl
    · rw [hm'] at hm; cases hm
  | putS k val rot =>
    apply hmut (.putS k val rot) rot
    intro m hm
    have hsame : stepMut v.s (.putS k val rot) = stepMut v.s (.putB (some k) (some val) rot) := rfl
    rw [hsame] at hm
    rcases stepMut_putB v.s (some k) (some val) rot with (⟨kb, vb, _, _, hm', hu, hvb, _⟩ | ⟨hm', _⟩)
    · rw [hm'] at hm; cases hm
      refine ⟨hu, ?_⟩
      cases vb with
      | nil => exact absurd rfl hvb
      | cons _ _ => rfl
    · rw [hm'] at hm; cases hm
  | delB k =>
    apply hmut (.delB k) false
    intro m hm
    simp only [stepMut] at hm
    split at hm
    · rename_i hu; cases hm; exact ⟨hu, rfl⟩
    · cases hm
  | delS k =>
    apply hmut (.delS k) false
    intro m hm
    simp only [stepMut] at hm
    split at hm
    · rename_i hu; cases hm; exact ⟨hu, rfl⟩
    · cases hm
  | get k => exact hnil _
  | rotate =>
    simp only [fsStep]
    cases hu : usable v.s with
    | false => exact hnil _
    | true =>
      simp only [if_true]
      exact hstart ((rotateS v hu).good_mono (fun y hy => hy.toS))
  | flush =>
    exact hstart ((flushS v).good_mono (fun y hy => hy.toS))
  | compact sizes =>
    simp only [fsStep]
    cases hu : usable v.s with
    | false => exact hnil _
    | true =>
      simp only [if_true]
      intro x hx; subst hx
      obtain ⟨⟨junk, ro, rc, tn, hq⟩, he⟩ := h
      obtain ⟨g, q⟩ := compact_seg x v junk ro rc tn hq sizes junks x rfl
      refine ⟨fun n => (good3_L ⟨⟨junk, ro, rc, tn, hq⟩, he⟩ (g n)).toS, ⟨⟨junk, ro, rc, tn, q⟩, ?_⟩⟩
      rw [compactEvs_queue]; exact he
  | close =>
    simp only [fsStep]
    cases hu : usable v.s with
    | false => exact hnil _
    | true =>
      simp only [if_true]
      -- rotate, let the flusher finish, close the file
      have h1 := rotateS v hu
      have hinv := h.inv
      have hA1 : abs (rotateEvs v).2.s = abs v.s := abs_rotate hinv hu
      have h2 : Seg (GoodL (abs v.s)) (fun x => QS x (rotateEvs v).2) (flushEvs (rotateEvs v).2).1
          (fun x => QS x (flushEvs (rotateEvs v).2).2) := by
        have := flushS (rotateEvs v).2
        rw [hA1] at this; exact this
      have h3 : Seg (GoodL (abs v.s)) (fun x => QS x (flushEvs (rotateEvs v).2).2)
          [.walClose (flushEvs (rotateEvs v).2).2.walCur]
          (fun x => QS x { (flushEvs (rotateEvs v).2).2 with s := { (flushEvs (rotateEvs v).2).2.s with closed := true } }) := by
        intro x hx
        have hA2 : abs (flushEvs (rotateEvs v).2).2.s = abs v.s := by
          rw [flushEvs_s]
          have : Inv (rotateEvs v).2.s := rotate_inv _ hinv (by rw [← usable_eq]; exact hu)
          rw [abs_flush this]; exact hA1
        have hgood : GoodL (abs v.s) x := ⟨hx.diskOk, hx.serves.trans hA2⟩
        refine ⟨fun n => ?_, ?_⟩
        · cases n with
          | zero => exact hgood
          | succ n => rw [List.take_succ_cons, List.take_nil]; exact hgood
        · -- closing the database: the remaining files are leftovers
          have hxe : applyEvs x [Ev.walClose (flushEvs (rotateEvs v).2).2.walCur] = x := rfl
          rw [hxe]
          obtain ⟨⟨junk, ro, rc, tn, hq⟩, he⟩ := hx
          have hus : usable (flushEvs (rotateEvs v).2).2.s = true := by
            rw [flushEvs_s, usable_flush]
            show usable (rotate v.s) = true
            rw [usable_rotate]; exact hu
          have hpf : (flushEvs (rotateEvs v).2).2.s.flushPending = false := by
            rw [flushEvs_s]; exact flushStep_pending _
          obtain ⟨hwd, hw, _⟩ := hq.live hus
          have hwz : (flushEvs (rotateEvs v).2).2.s.w = [] := by
            rw [flushEvs_s, flushStep_w]; rfl
          rw [he, List.append_nil, hwz] at hw
          have hrc : rc = [] := applyMuts_eq_nil hw
          have htn : tn = false := by
            cases tn with
            | false => rfl
            | true => exact absurd he (hq.tnq rfl)
          have hnu : usable ({ (flushEvs (rotateEvs v).2).2.s with closed := true } : State) = false := by
            unfold usable; simp
          refine ⟨⟨junk ++ [{ num := (flushEvs (rotateEvs v).2).2.walCur }], [], [], false, ?_⟩, he⟩
          exact {
            inv := by
              have hc := close_inv v.s hinv (by rw [← usable_eq]; exact hu)
              have : ({ (flushEvs (rotateEvs v).2).2.s with closed := true } : State) =
                  { flushStep (rotate v.s) with closed := true } := by
                rw [flushEvs_s]; rfl
              show Inv ({ (flushEvs (rotateEvs v).2).2.s with closed := true } : State)
              rw [this]; exact hc
            tables := hq.tables
            comps := hq.comps
            walSorted := hq.walSorted
            qok := hq.qok
            jk := junk_append hq.jk (by
              intro f hf
              simp only [List.mem_singleton] at hf
              subst hf
              exact ⟨rfl, rfl, rfl⟩)
            wal := by
              have l1 : liveFiles (flushEvs (rotateEvs v).2).2 ro rc tn =
                  [{ num := (flushEvs (rotateEvs v).2).2.walCur, recs := rc, torn := tn }] := by
                simp [liveFiles, hus, hpf]
              have l2 : liveFiles { (flushEvs (rotateEvs v).2).2 with s := { (flushEvs (rotateEvs v).2).2.s with closed := true } } [] [] false = [] := by
                show (if usable ({ (flushEvs (rotateEvs v).2).2.s with closed := true } : State) = true then _ else []) = []
                rw [hnu]; rfl
              show x.wal = _ ++ liveFiles _ [] [] false
              rw [hq.wal, l1, l2, hrc, htn, List.append_nil]
            rok := by intro m hm; cases hm
            cok := by intro m hm; cases hm
            tnq := by intro hf; cases hf
            live := by intro hf; rw [hnu] at hf; cases hf
            idle := by
              intro _
              refine ⟨he, rfl, ?_⟩
              intro hf
              rw [hwd] at hf; cases hf }
      have hfin := Seg.append (Seg.append h1 h2) h3
      have hB : abs ({ (flushEvs (rotateEvs v).2).2.s with closed := true } : State) = abs v.s := by
        show abs (flushEvs (rotateEvs v).2).2.s = abs v.s
        rw [flushEvs_s]
        have : Inv (rotateEvs v).2.s := rotate_inv _ hinv (by rw [← usable_eq]; exact hu)
        rw [abs_flush this]; exact hA1
      show Seg (GoodS (abs v.s) (abs ({ (flushEvs (rotateEvs v).2).2.s with closed := true } : State))) _ _ _
      rw [hB]
      exact hstart (hfin.good_mono (fun y hy => hy.toS))
  | reopen o =>
    simp only [fsStep]
    cases hn : (v.s.closed || !v.s.isOpen) with
    | false => simp only [Bool.false_eq_true, if_false]; exact hnil _
    | true =>
      simp only [if_true]
      obtain ⟨d', s', hr⟩ := recover_ok d h.diskOk o
      rw [hr]
      intro x hx; subst hx
      obtain ⟨g, q⟩ := reopen_seg x h.diskOk o d' s' hr junks x rfl
      exact ⟨fun n => (good3_L h (g n)).toS, ⟨⟨[], [], [], false, q⟩, rfl⟩⟩

/-! ## sessions -/

/-- one step keeps the process state in the simulation relation with the reference -/
theorem syncStep_rel (d : Disk) (v : Vol) (sp : Spec) (a : AStep) (h : QS d v) (hr : Rel v.s sp) :
    Rel (fsStep false d v a).2.s (specStep sp a.st).1 := by
  obtain ⟨st, dr, tn, junks⟩ := a
  by_cases hro : ∃ o, st = .reopen o
  · obtain ⟨o, rfl⟩ := hro
    simp only [fsStep, specStep]
    rw [← hr.o, ← hr.c]
    cases hn : (v.s.closed || !v.s.isOpen) with
    | false => simp only [Bool.false_eq_true, if_false]; exact hr
    | true =>
      simp only [if_true]
      obtain ⟨d', s', hrec⟩ := recover_ok d h.diskOk o
      rw [hrec]
      have hq := recover_QW d h.diskOk o d' s' hrec
      have hfl : s'.isOpen = true ∧ s'.closed = false := by
        rw [recover_eq d h.diskOk] at hrec
        unfold phase3 at hrec
        split at hrec
        · cases hrec
        · simp only at hrec
          split at hrec <;> cases hrec <;> exact ⟨rfl, rfl⟩
      exact {
        inv := hq.inv
        o := hfl.1
        c := hfl.2
        m := by
          intro k
          show abs s' k = sp.m k
          rw [recover_abs d o d' s' hrec, h.serves]
          exact hr.m k }
  · have hno : ∀ o, st ≠ .reopen o := fun o he => hro ⟨o, he⟩
    rw [fsStep_s false d v { st := st, drain := dr, torn := tn, junk := junks } hno]
    exact (step_sim v.s sp hr st).1

theorem ackedCount_nil (n : Nat) : ackedCount [] n = 0 := rfl

/-- C02, general form: from any operation boundary, after any number of events of any continuation -/
theorem sync_run (asteps : List AStep) : ∀ (d : Disk) (v : Vol) (sp : Spec), QS d v → Rel v.s sp → ∀ n,
    DiskOk (applyEvs d ((sessionFrom false d v asteps).flatten.take n)) ∧
    (logical (applyEvs d ((sessionFrom false d v asteps).flatten.take n)) =
        (specFold sp ((asteps.take (ackedCount (sessionFrom false d v asteps) n)).map (·.st))).m ∨
     logical (applyEvs d ((sessionFrom false d v asteps).flatten.take n)) =
        (specFold sp ((asteps.take (ackedCount (sessionFrom false d v asteps) n + 1)).map (·.st))).m) := by
  induction asteps with
  | nil =>
    intro d v sp h hr n
    simp only [sessionFrom, List.flatten_nil, List.take_nil, applyEvs_nil, ackedCount_nil, List.map_nil, specFold]
    refine ⟨h.diskOk, Or.inl ?_⟩
    rw [h.serves]; funext k; exact hr.m k
  | cons a rest ih =>
    intro d v sp h hr n
    have hseg := syncStep d v a h d rfl
    have hrel := syncStep_rel d v sp a h hr
    have hA : abs v.s = sp.m := funext hr.m
    have hB : abs (fsStep false d v a).2.s = (specStep sp a.st).1.m := funext hrel.m
    simp only [sessionFrom, List.flatten_cons, ackedCount]
    by_cases hn : (fsStep false d v a).1.length ≤ n
    · -- the step is complete: continue from the next operation boundary
      rw [if_pos hn, List.take_append, List.take_of_length_le hn, applyEvs_append]
      have := ih (applyEvs d (fsStep false d v a).1) (fsStep false d v a).2 (specStep sp a.st).1
        hseg.2 hrel (n - (fsStep false d v a).1.length)
      refine ⟨this.1, ?_⟩
      have e1 : ∀ k, List.take (1 + k) (a :: rest) = a :: List.take k rest := by
        intro k; rw [Nat.add_comm]; rfl
      have e2 : ∀ k, List.take (1 + k + 1) (a :: rest) = a :: List.take (k + 1) rest := by
        intro k; rw [Nat.add_comm 1 k]; rfl
      rw [e1, e2]
      exact this.2
    · -- the crash falls inside the step
      rw [if_neg hn]
      have hlt : n < (fsStep false d v a).1.length := by omega
      rw [List.take_append_of_le_length (by omega)]
      obtain ⟨g1, g2⟩ := hseg.1 n
      refine ⟨g1, ?_⟩
      simp only [Nat.zero_add, List.take_zero, List.take_succ_cons, List.map_nil, List.map_cons, specFold]
      rw [← hA, ← hB]
      exact g2

theorem QS_init : QS {} {} := by
  refine ⟨⟨[], [], [], false, ?_⟩, rfl⟩
  exact {
    inv := inv_init
    tables := rfl
    comps := rfl
    walSorted := by simp
    qok := by intro m hm; cases hm
    jk := by intro f hf; cases hf
    wal := rfl
    rok := by intro m hm; cases hm
    cok := by intro m hm; cases hm
    tnq := by intro hf; cases hf
    live := by intro hf; cases hf
    idle := by intro _; exact ⟨rfl, rfl, fun _ => rfl⟩ }

/-! ## rejected calls never touch the disk (crash part of C17) -/

theorem rejected_no_events (async : Bool) (d : Disk) (v : Vol) (a : AStep) (r : Res)
    (hr : (step v.s a.st).2.1 = some r) (hbad : r = .rejected ∨ r = .notOpen) : fsStep async d v a = ([], v) := by
  obtain ⟨st, dr, tn, jk⟩ := a
  have hnotok : r ≠ .ok := by rcases hbad with (h | h) <;> rw [h] <;> intro h' <;> cases h'
  cases st with
  | putB k val rot =>
    simp only [step] at hr
    rcases stepMut_putB v.s k val rot with (⟨kb, vb, _, _, _, _, _, hp⟩ | ⟨hm, _⟩)
    · rw [hp] at hr; cases hr; exact absurd rfl hnotok
    · simp only [fsStep, hm]
  | putS k val rot =>
    simp only [step] at hr
    rw [(api_flavours_agree v.s k val rot).1] at hr
    have hsame : stepMut v.s (.putS k val rot) = stepMut v.s (.putB (some k) (some val) rot) := rfl
    rcases stepMut_putB v.s (some k) (some val) rot with (⟨kb, vb, _, _, _, _, _, hp⟩ | ⟨hm, _⟩)
    · rw [hp] at hr; cases hr; exact absurd rfl hnotok
    · simp only [fsStep, hsame, hm]
  | delB k =>
    simp only [step, deleteBytes] at hr
    cases hu : usable v.s with
    | true =>
      have hn : (!v.s.isOpen || v.s.closed) = false := by rw [usable_not, hu]; rfl
      simp only [hn, Bool.false_eq_true, if_false] at hr
      cases hr; exact absurd rfl hnotok
    | false => simp [fsStep, stepMut, hu]
  | delS k =>
    simp only [step, deleteStr, deleteBytes] at hr
    cases hu : usable v.s with
    | true =>
      have hn : (!v.s.isOpen || v.s.closed) = false := by rw [usable_not, hu]; rfl
      simp only [hn, Bool.false_eq_true, if_false] at hr
      cases hr; exact absurd rfl hnotok
    | false => simp [fsStep, stepMut, hu]
  | get k => rfl
  | rotate => simp only [step] at hr; split at hr <;> cases hr
  | flush => cases hr
  | compact sizes => simp only [step] at hr; split at hr <;> cases hr
  | close =>
    simp only [step, close] at hr
    cases hu : usable v.s with
    | true =>
      have hn : (!v.s.isOpen || v.s.closed) = false := by rw [usable_not, hu]; rfl
      simp only [hn, Bool.false_eq_true, if_false] at hr
      cases hr; exact absurd rfl hnotok
    | false => simp [fsStep, hu]
  | reopen o => simp only [step] at hr; split at hr <;> cases hr

end SST.Proofs.FS
