/-
Proofs for the sstable reader (C03): a table written from an ascending list reads back as the sorted map
of that list through the slice, skip-list and map loaders.
-/
import SST.Proofs.SSTableWriter
import SST.Proofs.SSTableIndex
import SST.Proofs.Proto
import SST.Proofs.RecordIODamage
namespace SST.Proofs.Sst
open SST Generated SST.Proofs

/-! ## triples (key, value, index value): the table seen from both sides -/

abbrev Trip := Bytes × GoBytes × IndexVal

def tripFrom (dc : Compression) (off : Nat) : List KV → List Trip
  | [] => []
  | (k, v) :: rest => (k, v, ⟨off, valueSum v⟩) :: tripFrom dc (off + (encRecord dc v).length) rest

def Trip.kv (t : Trip) : KV := (t.1, t.2.1)
def Trip.entry (t : Trip) : Bytes × IndexVal := (t.1, t.2.2)
/-- the index entry as a loader keeps it -/
def Trip.ie (t : Trip) : IEntry := (normKey t.1, t.2.2)
/-- the pair as a scan delivers it -/
def Trip.out (t : Trip) : GoBytes × GoBytes := (normKey t.1, t.2.1)

theorem tripFrom_kv (dc : Compression) (l : List KV) : ∀ off, (tripFrom dc off l).map Trip.kv = l := by
  induction l with
  | nil => intro _; rfl
  | cons p l ih => intro off; obtain ⟨k, v⟩ := p; simp [tripFrom, Trip.kv, ih]

theorem tripFrom_entry (dc : Compression) (l : List KV) :
    ∀ off, (tripFrom dc off l).map Trip.entry = entriesFrom dc off l := by
  induction l with
  | nil => intro _; rfl
  | cons p l ih => intro off; obtain ⟨k, v⟩ := p; simp [tripFrom, entriesFrom, Trip.entry, ih]

def trips (cfg : SstCfg) (kvs : List KV) : List Trip := tripFrom cfg.dc fileHeaderSize kvs

/-- the loaded index of the table of `kvs` -/
def loadedEntries (cfg : SstCfg) (kvs : List KV) : List IEntry := (trips cfg kvs).map Trip.ie

theorem normKey_getD (k : Bytes) : (normKey k).getD [] = k := by
  unfold normKey
  split
  · rename_i h; simp [List.eq_nil_of_length_eq_zero h]
  · rfl

theorem keyCmp_norm (a b : Bytes) : keyCmp (normKey a) (normKey b) = bytesCmp a b := by
  simp [keyCmp, normKey_getD]

theorem keyCmp_some_norm (a b : Bytes) : keyCmp (some a) (normKey b) = bytesCmp a b := by
  simp [keyCmp, normKey_getD]

/-! ## loading the index file -/

theorem readNextS_nil (c : Compression) : readNextS c [] = .error .eof := by
  have := zero_tail_is_eof c 0
  simpa using this

theorem loadEntriesS_enc (c : Compression) (hl : LawfulC c) (es : List (Bytes × IndexVal)) :
    ∀ fuel, es.length < fuel →
      (∀ e ∈ es, e.1.length < 2 ^ 64 ∧ e.2.off < 2 ^ 64 ∧ e.2.sum < 2 ^ 64 ∧ FitsRec c (indexRecOf e)) →
      loadEntriesS c fuel (encAll c (es.map indexRecOf)) = .ok (es.map fun e => (normKey e.1, e.2)) := by
  induction es with
  | nil =>
    intro fuel hf _
    cases fuel with
    | zero => omega
    | succ f => simp [loadEntriesS, readNextS_nil]
  | cons e es ih =>
    intro fuel hf hfit
    cases fuel with
    | zero => omega
    | succ f =>
      obtain ⟨h1, h2, h3, h4⟩ := hfit e (by simp)
      have hr := readNextS_enc c (indexRecOf e) (encAll c (es.map indexRecOf)) hl h4
      have hd := Pb.decIndexEntry_enc e.1 e.2.off e.2.sum h1 h2 h3
      have ih' := ih f (by simpa using hf) (fun x hx => hfit x (by simp [hx]))
      simp only [List.map_cons, encAll_cons, loadEntriesS, hr]
      simp only [indexRecOf, Option.getD_some, hd, List.drop_left, ih']
      simp [Except.map, IndexEntry.toI]

theorem fileHeader_eq (v ct : Nat) : fileHeader v ct = le32 v ++ le32 ct := rfl

theorem parse_fileHeader (ct : Nat) (rest : Bytes) (hct : ct ≤ maxCompression) :
    parseFileHeader (fileHeader currentVersion ct ++ rest) = .ok (currentVersion, ct) := by
  rw [fileHeader_eq]
  exact file_header_accepted currentVersion ct rest (by decide) hct

theorem drop_fileHeader (ct : Nat) (rest : Bytes) :
    (fileHeader currentVersion ct ++ rest).drop fileHeaderSize = rest :=
  List.drop_left' (fileHeader_length _ _)

theorem openSeq_of_parse (comps : Nat → Compression) (file : Bytes) (ct : Nat)
    (h : parseFileHeader file = .ok (currentVersion, ct)) :
    openSeq comps file = .ok (comps ct, file.drop fileHeaderSize) := by
  unfold openSeq
  rw [h]
  simp

theorem openMmap_of_parse (comps : Nat → Compression) (file : Bytes) (ct : Nat)
    (hlen : ¬ file.length < fileHeaderSize)
    (h : parseFileHeader file = .ok (currentVersion, ct)) :
    openMmap comps file = .ok (comps ct) := by
  unfold openMmap
  rw [if_neg hlen, h]
  simp

theorem openSeq_file (comps : Nat → Compression) (ct : Nat) (rest : Bytes) (hct : ct ≤ maxCompression) :
    openSeq comps (fileHeader currentVersion ct ++ rest) = .ok (comps ct, rest) := by
  rw [openSeq_of_parse comps _ ct (parse_fileHeader ct rest hct), drop_fileHeader]

theorem openMmap_file (comps : Nat → Compression) (ct : Nat) (rest : Bytes) (hct : ct ≤ maxCompression) :
    openMmap comps (fileHeader currentVersion ct ++ rest) = .ok (comps ct) := by
  have hlen : ¬ (fileHeader currentVersion ct ++ rest).length < fileHeaderSize := by
    rw [List.length_append, fileHeader_length]; show ¬ (8 + rest.length < 8); omega
  exact openMmap_of_parse comps _ ct hlen (parse_fileHeader ct rest hct)

/-! ## values behind the index entries -/

theorem readAt_trip (dc : Compression) (hl : LawfulC dc) : ∀ (l : List KV) (pre : Bytes),
    (∀ p ∈ l, FitsRec dc p.2) →
    ∀ t ∈ tripFrom dc pre.length l,
      readAt dc (pre ++ encAll dc (l.map (·.2))) t.2.2.off = .ok t.2.1 ∧
      t.2.2.off < (pre ++ encAll dc (l.map (·.2))).length ∧ t.2.2.sum = valueSum t.2.1 := by
  intro l
  induction l with
  | nil => intro pre _ t ht; cases ht
  | cons p rest ih =>
    intro pre hf t ht
    obtain ⟨k, v⟩ := p
    simp only [tripFrom, List.mem_cons] at ht
    rcases ht with rfl | ht
    · refine ⟨?_, ?_, rfl⟩
      · simpa using readAt_enc dc pre v (encAll dc (rest.map (·.2))) hl (hf (k, v) (by simp))
      · have := encRecord_pos dc v
        simp only [List.map_cons, encAll_cons, List.length_append]; omega
    · have hlen : (pre ++ encRecord dc v).length = pre.length + (encRecord dc v).length := by simp
      rw [← hlen] at ht
      have := ih (pre ++ encRecord dc v) (fun q hq => hf q (by simp [hq])) t ht
      simpa [List.append_assoc] using this

theorem getValue_trip (dc : Compression) (hl : LawfulC dc) (l : List KV) (pre : Bytes)
    (hf : ∀ p ∈ l, FitsRec dc p.2) (skip : Bool) (t : Trip) (ht : t ∈ tripFrom dc pre.length l) :
    getValueAtOffset dc (pre ++ encAll dc (l.map (·.2))) t.2.2 skip = .ok t.2.1 := by
  obtain ⟨h1, h2, h3⟩ := readAt_trip dc hl l pre hf t ht
  unfold getValueAtOffset
  rw [if_neg (by omega), h1]
  simp only
  cases skip with
  | true => simp
  | false => simp [h3]

theorem scanWith_good (dc : Compression) (data : Bytes) (skip : Bool) (ts : List Trip)
    (h : ∀ t ∈ ts, getValueAtOffset dc data t.2.2 skip = .ok t.2.1) :
    scanWith dc data skip (ts.map Trip.ie) .done = (ts.map Trip.out, .done) := by
  induction ts with
  | nil => rfl
  | cons t ts ih =>
    have h1 := h t (by simp)
    have h2 := ih (fun x hx => h x (by simp [hx]))
    simp only [List.map_cons, scanWith, Trip.ie, h1]
    rw [h2]
    rfl

theorem fullScanS_trip (dc : Compression) (hl : LawfulC dc) (skip : Bool) : ∀ (l : List KV) (off : Nat),
    (∀ p ∈ l, FitsRec dc p.2) →
    fullScanS dc skip ((tripFrom dc off l).map Trip.ie) .done (encAll dc (l.map (·.2))) = (l.map normKV, .done) := by
  intro l
  induction l with
  | nil => intro _ _; rfl
  | cons p rest ih =>
    intro off hf
    obtain ⟨k, v⟩ := p
    have hr := readNextS_enc dc v (encAll dc (rest.map (·.2))) hl (hf (k, v) (by simp))
    have ih' := ih (off + (encRecord dc v).length) (fun q hq => hf q (by simp [hq]))
    simp only [tripFrom, List.map_cons, encAll_cons, fullScanS, hr, Trip.ie, List.drop_left]
    rw [ih']
    simp [normKV]

/-! ## the metadata file -/

theorem metaFits (cfg : SstCfg) (kvs : List KV) (hf : FitsKV cfg kvs) : Pb.MetaFits (metaOf cfg kvs) := by
  obtain ⟨h1, _, h3⟩ := hf
  have hlen : kvs.length ≤ (dataFileOf cfg kvs).length := by
    have := length_le_encAll cfg.dc (kvs.map (·.2))
    simp only [dataFileOf, List.length_append, List.length_map] at this ⊢; omega
  have hnull : (kvs.filter (·.2.isNone)).length ≤ kvs.length := List.length_filter_le _ _
  have hmin : ((kvs.head?.map (·.1)).getD []).length < 2 ^ 64 := by
    cases kvs with
    | nil => simp
    | cons p rest => simpa using (h1 p (by simp)).2
  have hmax : ((kvs.getLast?.map (·.1)).getD []).length < 2 ^ 64 := by
    cases hgl : kvs.getLast? with
    | none => simp
    | some l => simpa using (h1 l (List.mem_of_getLast? hgl)).2
  refine ⟨?_, hmin, hmax, ?_, ?_, ?_, ?_, ?_, ?_⟩ <;> simp only [metaOf, sstVersion] <;> omega

theorem decMeta_metaOf (cfg : SstCfg) (kvs : List KV) (hf : FitsKV cfg kvs) :
    decMeta (encMeta (metaOf cfg kvs)) = .ok (metaOf cfg kvs).norm :=
  Pb.decMeta_enc _ (metaFits cfg kvs hf)

/-! ## opening the table of an ascending list -/

theorem trips_kv (cfg : SstCfg) (kvs : List KV) : (trips cfg kvs).map Trip.kv = kvs := tripFrom_kv _ _ _

theorem trips_entry (cfg : SstCfg) (kvs : List KV) : (trips cfg kvs).map Trip.entry = entriesOf cfg.dc kvs :=
  tripFrom_entry _ _ _

theorem entriesFrom_sum (dc : Compression) (l : List KV) : ∀ off, ∀ e ∈ entriesFrom dc off l, e.2.sum < 2 ^ 64 := by
  induction l with
  | nil => intro _ e he; cases he
  | cons p l ih =>
    intro off e he
    obtain ⟨k, v⟩ := p
    simp only [entriesFrom, List.mem_cons] at he
    rcases he with rfl | he
    · exact UInt64.toNat_lt _
    · exact ih _ e he

theorem loadEntries_table (comps : Nat → Compression) (cfg : SstCfg) (kvs : List KV)
    (hc : CompsOk comps cfg) (hf : FitsKV cfg kvs) :
    loadEntries comps (indexFileOf cfg kvs) = .ok (loadedEntries cfg kvs) := by
  obtain ⟨_, hci, _, hli, _, hict⟩ := hc
  obtain ⟨h1, h2, _⟩ := hf
  unfold loadEntries indexFileOf
  rw [openSeq_file comps cfg.ict _ hict, hci]
  simp only
  have hlen := length_le_encAll cfg.ic ((entriesOf cfg.dc kvs).map indexRecOf)
  rw [loadEntriesS_enc cfg.ic hli (entriesOf cfg.dc kvs) _ (by simp only [List.length_map] at hlen; omega)]
  · unfold loadedEntries
    rw [← trips_entry, List.map_map]
    rfl
  · intro e he
    have hk : e.1 ∈ kvs.map (·.1) := by
      rw [← entriesFrom_keys cfg.dc kvs fileHeaderSize]
      exact List.mem_map_of_mem he
    obtain ⟨p, hp, hpe⟩ := List.mem_map.mp hk
    exact ⟨hpe ▸ (h1 p hp).2, (h2 e he).1, entriesFrom_sum _ _ _ e he, (h2 e he).2⟩

theorem loadedEntries_strictAsc (cfg : SstCfg) (kvs : List KV) (hs : StrictAsc bytesCmp kvs) :
    StrictAsc keyCmp (loadedEntries cfg kvs) := by
  unfold StrictAsc loadedEntries at *
  rw [← trips_kv cfg kvs] at hs
  rw [List.pairwise_map] at hs ⊢
  exact hs.imp (fun {a b} h => by simpa [Trip.ie, Trip.kv, keyCmp_norm] using h)

/-- the reader `NewSSTableReader` returns on the table of `kvs` -/
def readerOf (cfg : SstCfg) (kvs : List KV) (o : ReadOpts) (bloom : Option (Bytes → Bool)) : Reader :=
  { data := dataFileOf cfg kvs, dc := cfg.dc, bloom := bloom, skipHashOnRead := o.skipHashOnRead,
    md := (metaOf cfg kvs).norm }

theorem getValue_table (cfg : SstCfg) (kvs : List KV) (hl : LawfulC cfg.dc) (hf : FitsKV cfg kvs) (skip : Bool)
    (t : Trip) (ht : t ∈ trips cfg kvs) :
    getValueAtOffset cfg.dc (dataFileOf cfg kvs) t.2.2 skip = .ok t.2.1 := by
  have hlen : (fileHeader currentVersion cfg.dct).length = fileHeaderSize := fileHeader_length _ _
  unfold trips at ht
  rw [← hlen] at ht
  exact getValue_trip cfg.dc hl kvs _ (fun p hp => (hf.1 p hp).1) skip t ht

theorem openTable_ok (comps : Nat → Compression) (cfg : SstCfg) (kvs : List KV)
    (hc : CompsOk comps cfg) (hf : FitsKV cfg kvs) (k : LoaderKind) (o : ReadOpts) (bloom : Option (Bytes → Bool))
    (idx : Index) (hload : loadIndex comps k (indexFileOf cfg kvs) = .ok idx)
    (hall : idx.all = (loadedEntries cfg kvs, .done)) :
    openTable comps k o (tableOf cfg kvs) bloom = .ok (readerOf cfg kvs o bloom, idx) := by
  obtain ⟨hcd, _, hld, _, hdct, _⟩ := hc
  unfold openTable tableOf
  simp only [decMeta_metaOf cfg kvs hf, hload]
  have hv : (metaOf cfg kvs).norm.version = 0 ↔ False := by simp [Meta.norm, metaOf, sstVersion]
  simp only [hv, if_false]
  unfold dataFileOf
  rw [openMmap_file comps cfg.dct _ hdct, hcd]
  simp only
  cases hsk : o.skipHashOnLoad with
  | true => simp [readerOf, dataFileOf]
  | false =>
    have hval : validateData cfg.dc (dataFileOf cfg kvs) idx.all = .ok () := by
      unfold validateData
      rw [hall]
      simp only
      unfold loadedEntries
      rw [scanWith_good cfg.dc _ false (trips cfg kvs) (fun t ht => getValue_table cfg kvs hld hf false t ht)]
    unfold dataFileOf at hval
    simp [hval, readerOf, dataFileOf]

/-! ## index answers → reader answers -/

/-- the loaded index answers like the sorted map of its entries (`P` restricts the point lookups: the map
loader only promises them for probes that zero padding keeps apart) -/
structure IdxRefines (P : Bytes → Prop) (idx : Index) (E : List IEntry) : Prop where
  get : ∀ k, P k → idx.get k = (idx, some (getRes (specGet keyCmp E (some k))))
  contains : ∀ k, P k → idx.contains k = (idx, some (.ok (specGet keyCmp E (some k)).isSome))
  all : idx.all = (E, .done)
  from : ∀ k, idx.from k = (idx, .ok (specFrom keyCmp E (some k), .done))
  between : ∀ lo hi, idx.between lo hi = (idx, betweenRes (specBetween keyCmp E (some lo) (some hi)))

theorem specGet_E (T : List Trip) (k : Bytes) :
    specGet keyCmp (T.map Trip.ie) (some k) = (T.find? fun t => bytesCmp k t.1 == .eq).map (·.2.2) := by
  unfold specGet
  rw [List.find?_map]
  have : ((fun p : IEntry => keyCmp (some k) p.1 == .eq) ∘ Trip.ie) = fun t : Trip => bytesCmp k t.1 == .eq := by
    funext t; simp [Trip.ie, keyCmp_some_norm]
  rw [this, Option.map_map]
  rfl

theorem specGet_kvs (T : List Trip) (k : Bytes) :
    specGet bytesCmp (T.map Trip.kv) k = (T.find? fun t => bytesCmp k t.1 == .eq).map (·.2.1) := by
  unfold specGet
  rw [List.find?_map, Option.map_map]
  rfl

theorem filter_E (T : List Trip) (q : Bytes → Bool) (q' : GoBytes → Bool) (h : ∀ k, q' (normKey k) = q k) :
    (T.map Trip.ie).filter (fun p => q' p.1) = (T.filter fun t => q t.1).map Trip.ie := by
  rw [List.filter_map]
  congr 1
  apply List.filter_congr
  intro t _
  simp [Trip.ie, h]

theorem filter_kvs (T : List Trip) (q : Bytes → Bool) :
    ((T.map Trip.kv).filter (fun p => q p.1)).map normKV = (T.filter fun t => q t.1).map Trip.out := by
  rw [List.filter_map, List.map_map]
  rfl

end SST.Proofs.Sst
