/-
Proofs for the sstable reader (C03): a table written from an ascending list reads back as the sorted map
of that list through the slice, skip-list and map loaders.
-/
import SST.Proofs.SSTableWriter
import SST.Proofs.SSTableIndex
import SST.Proofs.Proto
namespace SST.Proofs.Sst
open SST Generated SST.Proofs

/-! ## triples (key, value, index value): the table seen from both sides -/

abbrev Trip := Bytes × GoBytes × IndexVal

def tripFrom (dc : Compression) (off : Nat) : List KV → List Trip
  | [] => []
  | (k, v) :: rest => (k, v, ⟨off, valueSum v⟩) :: tripFrom dc (off + (encRecord dc v).length) rest

def Trip.kv (t : Trip) : KV := (t.1, t.2.1)
def Trip.entry (t : Trip) : Bytes × IndexVal := (t.1, t.2.2)
/-- the index entry as a loader keeps it -/
def Trip.ie (t : Trip) : IEntry := (normKey t.1, t.2.2)
/-- the pair as a scan delivers it -/
def Trip.out (t : Trip) : GoBytes × GoBytes := (normKey t.1, t.2.1)

theorem tripFrom_kv (dc : Compression) (l : List KV) : ∀ off, (tripFrom dc off l).map Trip.kv = l := by
  induction l with
  | nil => intro _; rfl
  | cons p l ih => intro off; obtain ⟨k, v⟩ := p; simp [tripFrom, Trip.kv, ih]

theorem tripFrom_entry (dc : Compression) (l : List KV) :
    ∀ off, (tripFrom dc off l).map Trip.entry = entriesFrom dc off l := by
  induction l with
  | nil => intro _; rfl
  | cons p l ih => intro off; obtain ⟨k, v⟩ := p; simp [tripFrom, entriesFrom, Trip.entry, ih]

def trips (cfg : SstCfg) (kvs : List KV) : List Trip := tripFrom cfg.dc fileHeaderSize kvs

/-- the loaded index of the table of `kvs` -/
def loadedEntries (cfg : SstCfg) (kvs : List KV) : List IEntry := (trips cfg kvs).map Trip.ie

theorem normKey_getD (k : Bytes) : (normKey k).getD [] = k := by
  unfold normKey
  split
  · rename_i h; simp [List.eq_nil_of_length_eq_zero h]
  · rfl

theorem keyCmp_norm (a b : Bytes) : keyCmp (normKey a) (normKey b) = bytesCmp a b := by
  simp [keyCmp, normKey_getD]

theorem keyCmp_some_norm (a b : Bytes) : keyCmp (some a) (normKey b) = bytesCmp a b := by
  simp [keyCmp, normKey_getD]

/-! ## loading the index file -/

theorem readNextS_nil (c : Compression) : readNextS c [] = .error .eof := by
  have := zero_tail_is_eof c 0
  simpa using this

theorem loadEntriesS_enc (c : Compression) (hl : LawfulC c) (es : List (Bytes × IndexVal)) :
    ∀ fuel, es.length < fuel →
      (∀ e ∈ es, e.1.length < 2 ^ 64 ∧ e.2.off < 2 ^ 64 ∧ e.2.sum < 2 ^ 64 ∧ FitsRec c (indexRecOf e)) →
      loadEntriesS c fuel (encAll c (es.map indexRecOf)) = .ok (es.map fun e => (normKey e.1, e.2)) := by
  induction es with
  | nil =>
    intro fuel hf _
    cases fuel with
    | zero => omega
    | succ f => simp [loadEntriesS, readNextS_nil]
  | cons e es ih =>
    intro fuel hf hfit
    cases fuel with
    | zero => omega
    | succ f =>
      obtain ⟨h1, h2, h3, h4⟩ := hfit e (by simp)
      have hr := readNextS_enc c (indexRecOf e) (encAll c (es.map indexRecOf)) hl h4
      have hd := Pb.decIndexEntry_enc e.1 e.2.off e.2.sum h1 h2 h3
      have ih' := ih f (by simpa using hf) (fun x hx => hfit x (by simp [hx]))
      simp only [List.map_cons, encAll_cons, loadEntriesS, hr]
      simp only [indexRecOf, Option.getD_some, hd, List.drop_left, ih']
      simp [Except.map, IndexEntry.toI]

theorem fileHeader_eq (v ct : Nat) : fileHeader v ct = le32 v ++ le32 ct := rfl

theorem sst_le32_length (n : Nat) : (le32 n).length = 4 := rfl

theorem sst_le32Dec_le32 (n : Nat) (h : n < 2 ^ 32) : le32Dec (le32 n) = some n := by
  simp only [le32, le32Dec]
  rw [toNat_ofNat_lt _ (Nat.mod_lt _ (by decide)), toNat_ofNat_lt _ (Nat.mod_lt _ (by decide)),
    toNat_ofNat_lt _ (Nat.mod_lt _ (by decide)), toNat_ofNat_lt _ (Nat.mod_lt _ (by decide))]
  congr 1; omega

/-- the file header the writer puts in front of a file is accepted by both readers -/
theorem parse_fileHeader (ct : Nat) (rest : Bytes) (hct : ct ≤ maxCompression) :
    parseFileHeader (fileHeader currentVersion ct ++ rest) = .ok (currentVersion, ct) := by
  have hm : maxCompression = 3 := rfl
  have hcv : currentVersion = 4 := rfl
  have hmv : minVersion = 1 := rfl
  rw [fileHeader_eq]
  have h1 : (le32 currentVersion ++ le32 ct ++ rest).take 4 = le32 currentVersion := by
    rw [List.append_assoc, List.take_left' (sst_le32_length _)]
  have h2 : ((le32 currentVersion ++ le32 ct ++ rest).drop 4).take 4 = le32 ct := by
    rw [List.append_assoc, List.drop_left' (sst_le32_length _), List.take_left' (sst_le32_length ct)]
  have h3 : ¬ (le32 currentVersion ++ le32 ct ++ rest).length < fileHeaderSize := by
    simp only [List.length_append, sst_le32_length, fileHeaderSize]; omega
  unfold parseFileHeader
  rw [if_neg h3, h1, h2, sst_le32Dec_le32 currentVersion (by rw [hcv]; decide), sst_le32Dec_le32 ct (by omega)]
  simp only
  rw [if_neg (by omega), if_neg (by omega)]

theorem drop_fileHeader (ct : Nat) (rest : Bytes) :
    (fileHeader currentVersion ct ++ rest).drop fileHeaderSize = rest :=
  List.drop_left' (fileHeader_length _ _)

theorem openSeq_of_parse (comps : Nat → Compression) (file : Bytes) (ct : Nat)
    (h : parseFileHeader file = .ok (currentVersion, ct)) :
    openSeq comps file = .ok (comps ct, file.drop fileHeaderSize) := by
  unfold openSeq
  rw [h]
  simp

theorem openMmap_of_parse (comps : Nat → Compression) (file : Bytes) (ct : Nat)
    (hlen : ¬ file.length < fileHeaderSize)
    (h : parseFileHeader file = .ok (currentVersion, ct)) :
    openMmap comps file = .ok (comps ct) := by
  unfold openMmap
  rw [if_neg hlen, h]
  simp

theorem openSeq_file (comps : Nat → Compression) (ct : Nat) (rest : Bytes) (hct : ct ≤ maxCompression) :
    openSeq comps (fileHeader currentVersion ct ++ rest) = .ok (comps ct, rest) := by
  rw [openSeq_of_parse comps _ ct (parse_fileHeader ct rest hct), drop_fileHeader]

theorem openMmap_file (comps : Nat → Compression) (ct : Nat) (rest : Bytes) (hct : ct ≤ maxCompression) :
    openMmap comps (fileHeader currentVersion ct ++ rest) = .ok (comps ct) := by
  have hlen : ¬ (fileHeader currentVersion ct ++ rest).length < fileHeaderSize := by
    rw [List.length_append, fileHeader_length]; show ¬ (8 + rest.length < 8); omega
  exact openMmap_of_parse comps _ ct hlen (parse_fileHeader ct rest hct)

/-! ## values behind the index entries -/

theorem readAt_trip (dc : Compression) (hl : LawfulC dc) : ∀ (l : List KV) (pre : Bytes),
    (∀ p ∈ l, FitsRec dc p.2) →
    ∀ t ∈ tripFrom dc pre.length l,
      readAt dc (pre ++ encAll dc (l.map (·.2))) t.2.2.off = .ok t.2.1 ∧
      t.2.2.off < (pre ++ encAll dc (l.map (·.2))).length ∧ t.2.2.sum = valueSum t.2.1 := by
  intro l
  induction l with
  | nil => intro pre _ t ht; cases ht
  | cons p rest ih =>
    intro pre hf t ht
    obtain ⟨k, v⟩ := p
    simp only [tripFrom, List.mem_cons] at ht
    rcases ht with rfl | ht
    · refine ⟨?_, ?_, rfl⟩
      · simpa using readAt_enc dc pre v (encAll dc (rest.map (·.2))) hl (hf (k, v) (by simp))
      · have := encRecord_pos dc v
        simp only [List.map_cons, encAll_cons, List.length_append]; omega
    · have hlen : (pre ++ encRecord dc v).length = pre.length + (encRecord dc v).length := by simp
      rw [← hlen] at ht
      have := ih (pre ++ encRecord dc v) (fun q hq => hf q (by simp [hq])) t ht
      simpa [List.append_assoc] using this

theorem getValue_trip (dc : Compression) (hl : LawfulC dc) (l : List KV) (pre : Bytes)
    (hf : ∀ p ∈ l, FitsRec dc p.2) (skip : Bool) (t : Trip) (ht : t ∈ tripFrom dc pre.length l) :
    getValueAtOffset dc (pre ++ encAll dc (l.map (·.2))) t.2.2 skip = .ok t.2.1 := by
  obtain ⟨h1, h2, h3⟩ := readAt_trip dc hl l pre hf t ht
  unfold getValueAtOffset
  rw [if_neg (by omega), h1]
  simp only
  cases skip with
  | true => simp
  | false => simp [h3]

theorem scanWith_good (dc : Compression) (data : Bytes) (skip : Bool) (ts : List Trip)
    (h : ∀ t ∈ ts, getValueAtOffset dc data t.2.2 skip = .ok t.2.1) :
    scanWith dc data skip (ts.map Trip.ie) .done = (ts.map Trip.out, .done) := by
  induction ts with
  | nil => rfl
  | cons t ts ih =>
    have h1 := h t (by simp)
    have h2 := ih (fun x hx => h x (by simp [hx]))
    simp only [List.map_cons, scanWith, Trip.ie, h1]
    rw [h2]
    rfl

theorem fullScanS_trip (dc : Compression) (hl : LawfulC dc) (skip : Bool) : ∀ (l : List KV) (off : Nat),
    (∀ p ∈ l, FitsRec dc p.2) →
    fullScanS dc skip ((tripFrom dc off l).map Trip.ie) .done (encAll dc (l.map (·.2))) = (l.map normKV, .done) := by
  intro l
  induction l with
  | nil => intro _ _; rfl
  | cons p rest ih =>
    intro off hf
    obtain ⟨k, v⟩ := p
    have hr := readNextS_enc dc v (encAll dc (rest.map (·.2))) hl (hf (k, v) (by simp))
    have ih' := ih (off + (encRecord dc v).length) (fun q hq => hf q (by simp [hq]))
    simp only [tripFrom, List.map_cons, encAll_cons, fullScanS, hr, Trip.ie, List.drop_left]
    rw [ih']
    simp [normKV]

/-! ## the metadata file -/

theorem metaFits (cfg : SstCfg) (kvs : List KV) (hf : FitsKV cfg kvs) : Pb.MetaFits (metaOf cfg kvs) := by
  obtain ⟨h1, _, h3⟩ := hf
  have hlen : kvs.length ≤ (dataFileOf cfg kvs).length := by
    have := length_le_encAll cfg.dc (kvs.map (·.2))
    simp only [dataFileOf, List.length_append, List.length_map] at this ⊢; omega
  have hnull : (kvs.filter (·.2.isNone)).length ≤ kvs.length := List.length_filter_le _ _
  have hmin : ((kvs.head?.map (·.1)).getD []).length < 2 ^ 64 := by
    cases kvs with
    | nil => simp
    | cons p rest => simpa using (h1 p (by simp)).2
  have hmax : ((kvs.getLast?.map (·.1)).getD []).length < 2 ^ 64 := by
    cases hgl : kvs.getLast? with
    | none => simp
    | some l => simpa using (h1 l (List.mem_of_getLast? hgl)).2
  refine ⟨?_, hmin, hmax, ?_, ?_, ?_, ?_, ?_, ?_⟩ <;> simp only [metaOf, sstVersion] <;> omega

theorem decMeta_metaOf (cfg : SstCfg) (kvs : List KV) (hf : FitsKV cfg kvs) :
    decMeta (encMeta (metaOf cfg kvs)) = .ok (metaOf cfg kvs).norm :=
  Pb.decMeta_enc _ (metaFits cfg kvs hf)

/-! ## opening the table of an ascending list -/

theorem trips_kv (cfg : SstCfg) (kvs : List KV) : (trips cfg kvs).map Trip.kv = kvs := tripFrom_kv _ _ _

theorem trips_entry (cfg : SstCfg) (kvs : List KV) : (trips cfg kvs).map Trip.entry = entriesOf cfg.dc kvs :=
  tripFrom_entry _ _ _

theorem entriesFrom_sum (dc : Compression) (l : List KV) : ∀ off, ∀ e ∈ entriesFrom dc off l, e.2.sum < 2 ^ 64 := by
  induction l with
  | nil => intro _ e he; cases he
  | cons p l ih =>
    intro off e he
    obtain ⟨k, v⟩ := p
    simp only [entriesFrom, List.mem_cons] at he
    rcases he with rfl | he
    · exact UInt64.toNat_lt _
    · exact ih _ e he

theorem loadEntries_of_open (comps : Nat → Compression) (file : Bytes) (c : Compression) (st : Bytes)
    (h : openSeq comps file = .ok (c, st)) : loadEntries comps file = loadEntriesS c (st.length + 1) st := by
  unfold loadEntries; rw [h]

theorem loadEntries_table (comps : Nat → Compression) (cfg : SstCfg) (kvs : List KV)
    (hc : CompsOk comps cfg) (hf : FitsKV cfg kvs) :
    loadEntries comps (indexFileOf cfg kvs) = .ok (loadedEntries cfg kvs) := by
  obtain ⟨_, hci, _, hli, _, hict⟩ := hc
  obtain ⟨h1, h2, _⟩ := hf
  have hopen : openSeq comps (indexFileOf cfg kvs) =
      .ok (cfg.ic, encAll cfg.ic ((entriesOf cfg.dc kvs).map indexRecOf)) := by
    have := openSeq_file comps cfg.ict (encAll cfg.ic ((entriesOf cfg.dc kvs).map indexRecOf)) hict
    rw [hci] at this; exact this
  rw [loadEntries_of_open comps _ _ _ hopen]
  have hlen := length_le_encAll cfg.ic ((entriesOf cfg.dc kvs).map indexRecOf)
  rw [loadEntriesS_enc cfg.ic hli (entriesOf cfg.dc kvs) _ (by simp only [List.length_map] at hlen; omega)]
  · unfold loadedEntries
    rw [← trips_entry, List.map_map]
    rfl
  · intro e he
    have hk : e.1 ∈ kvs.map (·.1) := by
      rw [← entriesFrom_keys cfg.dc kvs fileHeaderSize]
      exact List.mem_map_of_mem he
    obtain ⟨p, hp, hpe⟩ := List.mem_map.mp hk
    exact ⟨hpe ▸ (h1 p hp).2, (h2 e he).1, entriesFrom_sum _ _ _ e he, (h2 e he).2⟩

theorem loadedEntries_strictAsc (cfg : SstCfg) (kvs : List KV) (hs : StrictAsc bytesCmp kvs) :
    StrictAsc keyCmp (loadedEntries cfg kvs) := by
  unfold StrictAsc loadedEntries at *
  rw [← trips_kv cfg kvs] at hs
  rw [List.pairwise_map] at hs ⊢
  exact hs.imp (fun {a b} h => by simpa [Trip.ie, Trip.kv, keyCmp_norm] using h)

/-- the reader `NewSSTableReader` returns on the table of `kvs` -/
def readerOf (cfg : SstCfg) (kvs : List KV) (o : ReadOpts) (bloom : Option (Bytes → Bool)) : Reader :=
  { data := dataFileOf cfg kvs, dc := cfg.dc, bloom := bloom, skipHashOnRead := o.skipHashOnRead,
    md := (metaOf cfg kvs).norm }

theorem getValue_table (cfg : SstCfg) (kvs : List KV) (hl : LawfulC cfg.dc) (hf : FitsKV cfg kvs) (skip : Bool)
    (t : Trip) (ht : t ∈ trips cfg kvs) :
    getValueAtOffset cfg.dc (dataFileOf cfg kvs) t.2.2 skip = .ok t.2.1 := by
  have hlen : (fileHeader currentVersion cfg.dct).length = fileHeaderSize := fileHeader_length _ _
  unfold trips at ht
  rw [← hlen] at ht
  exact getValue_trip cfg.dc hl kvs _ (fun p hp => (hf.1 p hp).1) skip t ht

theorem openTable_of (comps : Nat → Compression) (k : LoaderKind) (o : ReadOpts) (t : Table)
    (bloom : Option (Bytes → Bool)) (md : Meta) (idx : Index) (dc : Compression)
    (h1 : decMeta t.metaf = .ok md) (h2 : loadIndex comps k t.index = .ok idx) (h3 : md.version ≠ 0)
    (h4 : openMmap comps t.data = .ok dc) (h5 : validateData dc t.data idx.all = .ok ()) :
    openTable comps k o t bloom =
      .ok ({ data := t.data, dc := dc, bloom := bloom, skipHashOnRead := o.skipHashOnRead, md := md }, idx) := by
  unfold openTable
  rw [h1, h2]
  simp only [h3, if_false, h4, h5]
  cases o.skipHashOnLoad <;> rfl

theorem openTable_ok (comps : Nat → Compression) (cfg : SstCfg) (kvs : List KV)
    (hc : CompsOk comps cfg) (hf : FitsKV cfg kvs) (k : LoaderKind) (o : ReadOpts) (bloom : Option (Bytes → Bool))
    (idx : Index) (hload : loadIndex comps k (indexFileOf cfg kvs) = .ok idx)
    (hall : idx.all = (loadedEntries cfg kvs, .done)) :
    openTable comps k o (tableOf cfg kvs) bloom = .ok (readerOf cfg kvs o bloom, idx) := by
  obtain ⟨hcd, _, hld, _, hdct, _⟩ := hc
  have hv : (metaOf cfg kvs).norm.version ≠ 0 := by simp [Meta.norm, metaOf, sstVersion]
  have hmm : openMmap comps (tableOf cfg kvs).data = .ok cfg.dc := by
    have := openMmap_file comps cfg.dct (encAll cfg.dc (kvs.map (·.2))) hdct
    rw [hcd] at this; exact this
  have hval : validateData cfg.dc (tableOf cfg kvs).data idx.all = .ok () := by
    unfold validateData
    rw [hall]
    show (match scanWith cfg.dc (dataFileOf cfg kvs) false (loadedEntries cfg kvs) .done with
          | (_, .done) => Except.ok ()
          | (_, .err e) => .error e) = _
    unfold loadedEntries
    rw [scanWith_good cfg.dc _ false (trips cfg kvs) (fun t ht => getValue_table cfg kvs hld hf false t ht)]
  exact openTable_of comps k o (tableOf cfg kvs) bloom _ idx cfg.dc (decMeta_metaOf cfg kvs hf) hload hv hmm hval

/-! ## index answers → reader answers -/

/-- the loaded index answers like the sorted map of its entries (`P` restricts the point lookups: the map
loader only promises them for probes that zero padding keeps apart) -/
structure IdxRefines (P : Bytes → Prop) (idx : Index) (E : List IEntry) : Prop where
  get : ∀ k, P k → idx.get k = (idx, some (getRes (specGet keyCmp E (some k))))
  contains : ∀ k, P k → idx.contains k = (idx, some (.ok (specGet keyCmp E (some k)).isSome))
  all : idx.all = (E, .done)
  from_ : ∀ k, idx.from k = (idx, .ok (specFrom keyCmp E (some k), .done))
  between : ∀ lo hi, idx.between lo hi = (idx, betweenRes (specBetween keyCmp E (some lo) (some hi)))

theorem specGet_E (T : List Trip) (k : Bytes) :
    specGet keyCmp (T.map Trip.ie) (some k) = (T.find? fun t => bytesCmp k t.1 == .eq).map (·.2.2) := by
  unfold specGet
  rw [List.find?_map]
  have : ((fun p : IEntry => keyCmp (some k) p.1 == .eq) ∘ Trip.ie) = fun t : Trip => bytesCmp k t.1 == .eq := by
    funext t; simp [Trip.ie, keyCmp_some_norm]
  rw [this, Option.map_map]
  rfl

theorem specGet_kvs (T : List Trip) (k : Bytes) :
    specGet bytesCmp (T.map Trip.kv) k = (T.find? fun t => bytesCmp k t.1 == .eq).map (·.2.1) := by
  unfold specGet
  rw [List.find?_map, Option.map_map]
  rfl

theorem filter_E (T : List Trip) (q : Bytes → Bool) (q' : GoBytes → Bool) (h : ∀ k, q' (normKey k) = q k) :
    (T.map Trip.ie).filter (fun p => q' p.1) = (T.filter fun t => q t.1).map Trip.ie := by
  rw [List.filter_map]
  congr 1
  apply List.filter_congr
  intro t _
  simp [Trip.ie, h]

theorem filter_kvs (T : List Trip) (q : Bytes → Bool) :
    ((T.map Trip.kv).filter (fun p => q p.1)).map normKV = (T.filter fun t => q t.1).map Trip.out := by
  rw [List.filter_map, List.map_map]
  rfl

theorem keyCmp_norm_some (a b : Bytes) : keyCmp (normKey a) (some b) = bytesCmp a b := by
  simp [keyCmp, normKey_getD]

theorem getWith_spec (r : Reader) (T : List Trip)
    (hv : ∀ t ∈ T, getValueAtOffset r.dc r.data t.2.2 r.skipHashOnRead = .ok t.2.1) (k : Bytes) :
    r.getWith (getRes (specGet keyCmp (T.map Trip.ie) (some k))) = specGetRes (T.map Trip.kv) k := by
  unfold specGetRes
  rw [specGet_E, specGet_kvs]
  cases hfd : T.find? (fun t => bytesCmp k t.1 == .eq) with
  | none => rfl
  | some t =>
    have ht : t ∈ T := List.mem_of_find?_eq_some hfd
    simp [getRes, Reader.getWith, hv t ht]

theorem isSome_spec (T : List Trip) (k : Bytes) :
    (specGet keyCmp (T.map Trip.ie) (some k)).isSome = (specGet bytesCmp (T.map Trip.kv) k).isSome := by
  rw [specGet_E, specGet_kvs]; simp

theorem scanIter_filter (r : Reader) (T : List Trip)
    (hv : ∀ t ∈ T, getValueAtOffset r.dc r.data t.2.2 r.skipHashOnRead = .ok t.2.1) (q : Bytes → Bool) :
    r.scanIter ((T.filter fun t => q t.1).map Trip.ie, .done) = ((T.filter fun t => q t.1).map Trip.out, .done) := by
  unfold Reader.scanIter
  exact scanWith_good r.dc r.data r.skipHashOnRead _ (fun t ht => hv t (List.mem_filter.mp ht).1)

theorem fullScan_of (comps : Nat → Compression) (r : Reader) (it : Iter) (c : Compression) (st : Bytes)
    (h : openSeq comps r.data = .ok (c, st)) :
    r.fullScan comps it = .ok (fullScanS c r.skipHashOnRead it.1 it.2 st) := by
  unfold Reader.fullScan; rw [h]

/-- index refinement + the table files ⇒ the reader answers like the sorted map -/
theorem reads_as_map (comps : Nat → Compression) (cfg : SstCfg) (kvs : List KV)
    (hc : CompsOk comps cfg) (hf : FitsKV cfg kvs) (o : ReadOpts) (bloom : Option (Bytes → Bool))
    (hb : BloomOk bloom kvs) (P : Bytes → Prop) (idx : Index)
    (hr : IdxRefines P idx (loadedEntries cfg kvs)) :
    ReadsAsMap comps P (readerOf cfg kvs o bloom) idx kvs := by
  obtain ⟨hcd, _, hld, _, hdct, _⟩ := hc
  have hv : ∀ t ∈ trips cfg kvs, getValueAtOffset (readerOf cfg kvs o bloom).dc (readerOf cfg kvs o bloom).data t.2.2
      (readerOf cfg kvs o bloom).skipHashOnRead = .ok t.2.1 :=
    fun t ht => getValue_table cfg kvs hld hf _ t ht
  have hE : loadedEntries cfg kvs = (trips cfg kvs).map Trip.ie := rfl
  have hsome : ∀ k, (specGet keyCmp (loadedEntries cfg kvs) (some k)).isSome = (specGet bytesCmp kvs k).isSome := by
    intro k
    have := isSome_spec (trips cfg kvs) k
    rwa [trips_kv] at this
  constructor
  · intro k hk
    unfold Reader.get
    rw [hr.get k hk]
    have := getWith_spec (readerOf cfg kvs o bloom) (trips cfg kvs) hv k
    rw [trips_kv] at this
    simp only [Option.map_some, hE, this]
  · intro k hk
    unfold Reader.contains
    cases hbl : (readerOf cfg kvs o bloom).bloom with
    | none => simp only [hr.contains k hk, hsome]
    | some bf =>
      simp only
      by_cases hbf : bf k = true
      · simp only [hbf, if_true, hr.contains k hk, hsome]
      · have hno : (specGet bytesCmp kvs k).isSome = false := by
          cases hg : specGet bytesCmp kvs k with
          | none => rfl
          | some v =>
            exfalso
            unfold specGet at hg
            cases hfd : kvs.find? (fun p => bytesCmp k p.1 == .eq) with
            | none => rw [hfd] at hg; cases hg
            | some p =>
              have hp : p ∈ kvs := List.mem_of_find?_eq_some hfd
              have heq : bytesCmp k p.1 = .eq := by
                have := List.find?_some hfd; simpa using this
              have : k = p.1 := (bytesCmp_eq_iff _ _).mp heq
              have hbt := hb bf hbl p hp
              rw [← this] at hbt
              exact hbf hbt
        simp only [hbf, hno]
        rfl
  · unfold Reader.scan
    rw [hr.all]
    have hopen : openSeq comps (readerOf cfg kvs o bloom).data = .ok (cfg.dc, encAll cfg.dc (kvs.map (·.2))) := by
      have := openSeq_file comps cfg.dct (encAll cfg.dc (kvs.map (·.2))) hdct
      rw [hcd] at this; exact this
    rw [fullScan_of comps _ _ _ _ hopen]
    have := fullScanS_trip cfg.dc hld (readerOf cfg kvs o bloom).skipHashOnRead kvs fileHeaderSize
      (fun p hp => (hf.1 p hp).1)
    simp only [hE, trips]
    rw [this]
  · intro k
    unfold Reader.scanFrom
    rw [hr.from_ k]
    simp only [Except.map]
    unfold specScanFrom SST.specFrom
    rw [hE, filter_E (trips cfg kvs) (fun b => bytesCmp k b != .gt) (fun g => keyCmp (some k) g != .gt)
      (fun b => by simp [keyCmp_some_norm])]
    rw [scanIter_filter _ _ hv (fun b => bytesCmp k b != .gt)]
    have := filter_kvs (trips cfg kvs) (fun b => bytesCmp k b != .gt)
    rw [trips_kv] at this
    rw [this]
  · intro lo hi
    unfold Reader.scanRange
    rw [hr.between lo hi]
    unfold specScanRange SST.specBetween
    have hk : keyCmp (some lo) (some hi) = bytesCmp lo hi := rfl
    rw [hk]
    by_cases hgt : (bytesCmp lo hi == .gt) = true
    · simp only [hgt, if_true, betweenRes, Except.map]
    · simp only [hgt, if_false, betweenRes, Except.map, Bool.false_eq_true]
      rw [hE, filter_E (trips cfg kvs) (fun b => bytesCmp lo b != .gt && bytesCmp b hi != .gt)
        (fun g => keyCmp (some lo) g != .gt && keyCmp g (some hi) != .gt)
        (fun b => by simp [keyCmp_some_norm, keyCmp_norm_some])]
      rw [scanIter_filter _ _ hv (fun b => bytesCmp lo b != .gt && bytesCmp b hi != .gt)]
      have := filter_kvs (trips cfg kvs) (fun b => bytesCmp lo b != .gt && bytesCmp b hi != .gt)
      rw [trips_kv] at this
      rw [this]

/-! ## the three in-memory loaders -/

theorem loadIndex_slice_of (comps : Nat → Compression) (f : Bytes) (es : List IEntry)
    (h : loadEntries comps f = .ok es) : loadIndex comps .slice f = .ok (.slice es) := by
  unfold loadIndex; rw [h]; rfl

theorem loadIndex_skip_of (comps : Nat → Compression) (f : Bytes) (es : List IEntry) (hs : List Nat) (sl : SkipIdx)
    (h : loadEntries comps f = .ok es) (h2 : skipLoad es hs = .ok sl) :
    loadIndex comps (.skip hs) f = .ok (.skip sl) := by
  unfold loadIndex; rw [h]; simp only [h2]; rfl

theorem loadIndex_map_of (comps : Nat → Compression) (f : Bytes) (es : List IEntry) (n : Nat)
    (h : loadEntries comps f = .ok es) (h2 : mapLoadOk n es = true) :
    loadIndex comps (.map n) f = .ok (.map n es) := by
  unfold loadIndex; rw [h]; simp only [h2, if_true]

theorem slice_table (comps : Nat → Compression) (cfg : SstCfg) (kvs : List KV)
    (hc : CompsOk comps cfg) (hf : FitsKV cfg kvs) (hs : StrictAsc bytesCmp kvs) :
    ∃ idx, loadIndex comps .slice (indexFileOf cfg kvs) = .ok idx ∧
      IdxRefines (fun _ => True) idx (loadedEntries cfg kvs) := by
  obtain ⟨h1, h2, h3, h4, h5⟩ := slice_refines _ (loadedEntries_strictAsc cfg kvs hs)
  refine ⟨.slice (loadedEntries cfg kvs), ?_, ?_⟩
  · exact loadIndex_slice_of comps _ _ (loadEntries_table comps cfg kvs hc hf)
  · exact ⟨fun k _ => by simp [Index.get, h1], fun k _ => by simp [Index.contains, h2], by simp [Index.all, h3],
      fun k => by simp [Index.from, h4], fun lo hi => by simp [Index.between, h5]⟩

theorem skip_table (comps : Nat → Compression) (cfg : SstCfg) (kvs : List KV)
    (hc : CompsOk comps cfg) (hf : FitsKV cfg kvs) (hs : StrictAsc bytesCmp kvs)
    (heights : List Nat) (hh : ∀ h ∈ heights, 1 ≤ h) :
    ∃ idx, loadIndex comps (.skip heights) (indexFileOf cfg kvs) = .ok idx ∧
      IdxRefines (fun _ => True) idx (loadedEntries cfg kvs) := by
  obtain ⟨sl, h0, h1, h2, h3, h4, h5⟩ := skip_refines _ (loadedEntries_strictAsc cfg kvs hs) heights hh
  refine ⟨.skip sl, ?_, ?_⟩
  · exact loadIndex_skip_of comps _ _ _ _ (loadEntries_table comps cfg kvs hc hf) h0
  · exact ⟨fun k _ => by simp [Index.get, h1], fun k _ => by simp [Index.contains, h2], by simp [Index.all, h3],
      fun k => by simp [Index.from, h4], fun lo hi => by simp [Index.between, h5]⟩

theorem loadedEntries_keys (cfg : SstCfg) (kvs : List KV) :
    (loadedEntries cfg kvs).map (fun e => e.1.getD []) = kvs.map (·.1) := by
  unfold loadedEntries
  rw [List.map_map]
  have : ((fun e : IEntry => e.1.getD []) ∘ Trip.ie) = (fun p : KV => p.1) ∘ Trip.kv := by
    funext t; simp [Trip.ie, Trip.kv, normKey_getD]
  rw [this, ← List.map_map, trips_kv]

theorem map_table (comps : Nat → Compression) (cfg : SstCfg) (kvs : List KV)
    (hc : CompsOk comps cfg) (hf : FitsKV cfg kvs) (hs : StrictAsc bytesCmp kvs)
    (n : Nat) (hn : ∀ p ∈ kvs, p.1.length ≤ n) :
    ∃ idx, loadIndex comps (.map n) (indexFileOf cfg kvs) = .ok idx ∧
      IdxRefines (fun k => PadInjective n (kvs.map (·.1)) k) idx (loadedEntries cfg kvs) := by
  have hsE := loadedEntries_strictAsc cfg kvs hs
  obtain ⟨_, _, h3, h4, h5⟩ := slice_refines _ hsE
  have hok : mapLoadOk n (loadedEntries cfg kvs) = true := by
    unfold mapLoadOk
    rw [List.all_eq_true]
    intro e he
    have : e.1.getD [] ∈ (loadedEntries cfg kvs).map (fun e => e.1.getD []) := List.mem_map_of_mem he
    rw [loadedEntries_keys] at this
    obtain ⟨p, hp, hpe⟩ := List.mem_map.mp this
    simpa [← hpe] using hn p hp
  refine ⟨.map n (loadedEntries cfg kvs), ?_, ?_⟩
  · exact loadIndex_map_of comps _ _ _ (loadEntries_table comps cfg kvs hc hf) hok
  · refine ⟨?_, ?_, by simp [Index.all, h3], fun k => by simp [Index.from, h4],
      fun lo hi => by simp [Index.between, h5]⟩
    · intro k hk
      rw [← loadedEntries_keys cfg kvs] at hk
      obtain ⟨_, hg, _⟩ := map_refines n _ hsE k hk
      simp [Index.get, hg]
    · intro k hk
      rw [← loadedEntries_keys cfg kvs] at hk
      obtain ⟨_, _, hcn⟩ := map_refines n _ hsE k hk
      simp [Index.contains, hcn]

/-- a table written from an ascending list, opened with a loader whose index refines the sorted map of the
loaded entries, reads back as the sorted map of the list -/
theorem table_reads (comps : Nat → Compression) (cfg : SstCfg) (kvs : List KV)
    (hcmp : cfg.cmp = bytesCmp) (hc : CompsOk comps cfg) (hf : FitsKV cfg kvs) (hs : StrictAsc bytesCmp kvs)
    (k : LoaderKind) (o : ReadOpts) (bloom : Option (Bytes → Bool)) (hb : BloomOk bloom kvs)
    (P : Bytes → Prop)
    (hidx : ∃ idx, loadIndex comps k (indexFileOf cfg kvs) = .ok idx ∧ IdxRefines P idx (loadedEntries cfg kvs)) :
    ∃ r idx, openTable comps k o (writeTable cfg kvs) bloom = .ok (r, idx) ∧ ReadsAsMap comps P r idx kvs := by
  obtain ⟨idx, hload, href⟩ := hidx
  refine ⟨readerOf cfg kvs o bloom, idx, ?_, reads_as_map comps cfg kvs hc hf o bloom hb P idx href⟩
  rw [writeTable_eq cfg kvs (by rw [hcmp]; exact hs)]
  exact openTable_ok comps cfg kvs hc hf k o bloom idx hload href.all

/-! ## C15: the closed table decodes to the accepted pairs; metadata -/

theorem loadedEntries_eq (cfg : SstCfg) (kvs : List KV) :
    loadedEntries cfg kvs = (entriesOf cfg.dc kvs).map fun e => (normKey e.1, e.2) := by
  unfold loadedEntries
  rw [← trips_entry, List.map_map]
  rfl

theorem table_decodes (comps : Nat → Compression) (cfg : SstCfg) (acc : List KV)
    (hc : CompsOk comps cfg) (hf : FitsKV cfg acc) :
    readAll cfg.dc (dataFileOf cfg acc) = (acc.map (·.2), .eof) ∧
    loadEntries comps (indexFileOf cfg acc) = .ok ((entriesOf cfg.dc acc).map fun e => (normKey e.1, e.2)) := by
  constructor
  · have hfr : ∀ r ∈ acc.map (·.2), FitsRec cfg.dc r := by
      intro r hr
      obtain ⟨p, hp, rfl⟩ := List.mem_map.mp hr
      exact (hf.1 p hp).1
    have := seq_roundtrip cfg.dc cfg.dct (acc.map (·.2)) hc.2.2.1 hfr
    unfold dataFileOf
    exact this
  · rw [← loadedEntries_eq]
    exact loadEntries_table comps cfg acc hc hf

theorem closed_table_eq_accepted (comps : Nat → Compression) (cfg : SstCfg) (cs : List Call)
    (htr : ∀ a b c, cfg.cmp a b = .lt → cfg.cmp b c = .lt → cfg.cmp a c = .lt)
    (hc : CompsOk comps cfg) (hf : FitsKV cfg (accepted cfg.cmp cs)) :
    StrictAsc cfg.cmp (accepted cfg.cmp cs) ∧
    ((SstW.open cfg).run cfg cs).1.close = tableOf cfg (accepted cfg.cmp cs) ∧
    readAll cfg.dc ((SstW.open cfg).run cfg cs).1.close.data = ((accepted cfg.cmp cs).map (·.2), .eof) ∧
    loadEntries comps ((SstW.open cfg).run cfg cs).1.close.index =
      .ok ((entriesOf cfg.dc (accepted cfg.cmp cs)).map fun e => (normKey e.1, e.2)) := by
  obtain ⟨hinv, _⟩ := run_open_spec cfg cs
  have ht := (close_spec cfg _ _ hinv).1
  obtain ⟨h1, h2⟩ := table_decodes comps cfg _ hc hf
  rw [ht]
  exact ⟨accepted_strictAsc cfg.cmp htr cs, rfl, h1, h2⟩

theorem metadata_truthful (cfg : SstCfg) (cs : List Call) :
    ((SstW.open cfg).run cfg cs).1.close.metaf = encMeta ((SstW.open cfg).run cfg cs).1.finalMeta ∧
    ((SstW.open cfg).run cfg cs).1.finalMeta = metaOf cfg (accepted cfg.cmp cs) ∧
    ((SstW.open cfg).run cfg cs).1.close = tableOf cfg (accepted cfg.cmp cs) ∧
    (FitsKV cfg (accepted cfg.cmp cs) →
      decMeta ((SstW.open cfg).run cfg cs).1.close.metaf = .ok (metaOf cfg (accepted cfg.cmp cs)).norm) := by
  obtain ⟨hinv, _⟩ := run_open_spec cfg cs
  obtain ⟨ht, hm⟩ := close_spec cfg _ _ hinv
  refine ⟨rfl, hm, ht, ?_⟩
  intro hf
  rw [ht]
  exact decMeta_metaOf cfg _ hf

theorem contains_no_false_negative (comps : Nat → Compression) (r : Reader) (idx : Index) (kvs : List KV)
    (h : ReadsAsMap comps (fun _ => True) r idx kvs) :
    ∀ p ∈ kvs, r.contains idx p.1 = (idx, some (.ok true)) := by
  intro p hp
  rw [h.contains p.1 trivial]
  have : (specGet bytesCmp kvs p.1).isSome = true := by
    unfold specGet
    rw [Option.isSome_map, List.find?_isSome]
    exact ⟨p, hp, by simp [bytesCmp_refl]⟩
  rw [this]

/-! ## the zero-padding collision of the map loader (D21) -/

theorem map_index_pad_collision (comps : Nat → Compression) (cfg : SstCfg) (hcmp : cfg.cmp = bytesCmp)
    (hc : CompsOk comps cfg) (v1 v2 : GoBytes) (hf : FitsKV cfg [([97], v1), ([97, 0], v2)])
    (o : ReadOpts) (bloom : Option (Bytes → Bool)) :
    ∃ r idx, openTable comps (.map 4) o (writeTable cfg [([97], v1), ([97, 0], v2)]) bloom = .ok (r, idx) ∧
      (r.get idx [97]).2 = some (.ok v2) ∧ specGetRes [([97], v1), ([97, 0], v2)] [97] = .ok v1 ∧
      (r.get idx [97, 0, 0]).2 = some (.ok v2) ∧
      specGetRes [([97], v1), ([97, 0], v2)] [97, 0, 0] = .error .notFound := by
  have hs : StrictAsc bytesCmp [(([97] : Bytes), v1), ([97, 0], v2)] := by
    unfold StrictAsc
    simp [bytesCmp]
  have hsE := loadedEntries_strictAsc cfg _ hs
  have hE : loadedEntries cfg [([97], v1), ([97, 0], v2)] =
      [(some [97], ⟨fileHeaderSize, valueSum v1⟩),
       (some [97, 0], ⟨fileHeaderSize + (encRecord cfg.dc v1).length, valueSum v2⟩)] := rfl
  have hok : mapLoadOk 4 (loadedEntries cfg [([97], v1), ([97, 0], v2)]) = true := by rw [hE]; rfl
  have hload := loadIndex_map_of comps _ _ 4 (loadEntries_table comps cfg _ hc hf) hok
  have hall : (Index.map 4 (loadedEntries cfg [([97], v1), ([97, 0], v2)])).all =
      (loadedEntries cfg [([97], v1), ([97, 0], v2)], .done) := (slice_refines _ hsE).2.2.1
  refine ⟨readerOf cfg [([97], v1), ([97, 0], v2)] o bloom,
    Index.map 4 (loadedEntries cfg [([97], v1), ([97, 0], v2)]), ?_, ?_, ?_, ?_, ?_⟩
  · rw [writeTable_eq cfg _ (by rw [hcmp]; exact hs)]
    exact openTable_ok comps cfg _ hc hf (.map 4) o bloom _ hload hall
  · have hv := getValue_table cfg _ hc.2.2.1 hf (readerOf cfg [([97], v1), ([97, 0], v2)] o bloom).skipHashOnRead
      ([97, 0], v2, ⟨fileHeaderSize + (encRecord cfg.dc v1).length, valueSum v2⟩)
      (by simp [trips, tripFrom])
    have hg : mapGet 4 (loadedEntries cfg [([97], v1), ([97, 0], v2)]) [97] =
        some (.ok ⟨fileHeaderSize + (encRecord cfg.dc v1).length, valueSum v2⟩) := by rw [hE]; rfl
    simp only [Reader.get, Index.get, hg, Option.map_some, Reader.getWith]
    exact congrArg some hv
  · simp [specGetRes, specGet, bytesCmp]
  · have hv := getValue_table cfg _ hc.2.2.1 hf (readerOf cfg [([97], v1), ([97, 0], v2)] o bloom).skipHashOnRead
      ([97, 0], v2, ⟨fileHeaderSize + (encRecord cfg.dc v1).length, valueSum v2⟩)
      (by simp [trips, tripFrom])
    have hg : mapGet 4 (loadedEntries cfg [([97], v1), ([97, 0], v2)]) [97, 0, 0] =
        some (.ok ⟨fileHeaderSize + (encRecord cfg.dc v1).length, valueSum v2⟩) := by rw [hE]; rfl
    simp only [Reader.get, Index.get, hg, Option.map_some, Reader.getWith]
    exact congrArg some hv
  · simp [specGetRes, specGet, bytesCmp]

end SST.Proofs.Sst
