import SST.Model.SkipList
import SST.Spec.Sorted
namespace SST.Proofs
open SST SkipList

variable {K V : Type}

/-! ### Consequences of `LawfulCmp` -/

theorem cmp_flip_gt {cmp : K → K → Ordering} (hl : LawfulCmp cmp) {a b : K}
    (h : cmp a b = .gt) : cmp b a = .lt := by
  have := hl.swap b a
  rw [h] at this
  simpa using this

theorem cmp_flip_lt {cmp : K → K → Ordering} (hl : LawfulCmp cmp) {a b : K}
    (h : cmp a b = .lt) : cmp b a = .gt := by
  have := hl.swap b a
  rw [h] at this
  simpa using this

theorem cmp_flip_eq {cmp : K → K → Ordering} (hl : LawfulCmp cmp) {a b : K}
    (h : cmp a b = .eq) : cmp b a = .eq := by
  have := hl.swap b a
  rw [h] at this
  simpa using this

/-- `a ≤ b < c → a < c` -/
theorem cmp_le_lt {cmp : K → K → Ordering} (hl : LawfulCmp cmp) {a b c : K}
    (h1 : cmp a b ≠ .gt) (h2 : cmp b c = .lt) : cmp a c = .lt := by
  cases h : cmp a b with
  | lt => exact hl.trans_lt _ _ _ h h2
  | eq => rw [hl.eq_left _ _ c h]; exact h2
  | gt => exact absurd h h1

theorem cmp_lt_of_ne {cmp : K → K → Ordering} {a b : K}
    (h1 : cmp a b ≠ .gt) (h2 : cmp a b ≠ .eq) : cmp a b = .lt := by
  cases h : cmp a b with
  | lt => rfl
  | eq => exact absurd h h2
  | gt => exact absurd h h1

/-! ### Sorted node lists and the split at a key -/

/-- nodes strictly ascending by key -/
def Sorted (cmp : K → K → Ordering) (nodes : List (SNode K V)) : Prop :=
  nodes.Pairwise fun a b => cmp a.key b.key = .lt

/-- the invariant of a well-formed skip list -/
structure Inv (cmp : K → K → Ordering) (nodes : List (SNode K V)) : Prop where
  sorted : Sorted cmp nodes
  heights : ∀ n ∈ nodes, 1 ≤ n.height

/-- `nodes = l1 ++ l2`, `l1` = the nodes with key `< key`, `l2` = the nodes with key `≥ key`
(only the head of `l2` may compare equal). -/
structure Split (cmp : K → K → Ordering) (key : K) (nodes l1 l2 : List (SNode K V)) : Prop where
  eq : nodes = l1 ++ l2
  lo : ∀ n ∈ l1, cmp key n.key = .gt
  hd : ∀ n t, l2 = n :: t → cmp key n.key ≠ .gt
  tl : ∀ n t, l2 = n :: t → ∀ m ∈ t, cmp key m.key = .lt

theorem Split.ge {cmp : K → K → Ordering} {key : K} {nodes l1 l2 : List (SNode K V)}
    (h : Split cmp key nodes l1 l2) : ∀ n ∈ l2, cmp key n.key ≠ .gt := by
  intro n hn
  cases l2 with
  | nil => cases hn
  | cons m t =>
    rcases List.mem_cons.1 hn with rfl | hn
    · exact h.hd _ _ rfl
    · rw [h.tl _ _ rfl n hn]; decide

theorem exists_split {cmp : K → K → Ordering} (hl : LawfulCmp cmp) (key : K) :
    ∀ nodes : List (SNode K V), Sorted cmp nodes → ∃ l1 l2, Split cmp key nodes l1 l2 := by
  intro nodes
  induction nodes with
  | nil => intro _; exact ⟨[], [], rfl, nofun, nofun, nofun⟩
  | cons n ns ih =>
    intro hs
    have hs' := List.pairwise_cons.1 hs
    by_cases h : cmp key n.key = .gt
    · obtain ⟨l1, l2, hsp⟩ := ih hs'.2
      refine ⟨n :: l1, l2, ?_, ?_, hsp.hd, hsp.tl⟩
      · rw [hsp.eq]; rfl
      · intro m hm
        rcases List.mem_cons.1 hm with rfl | hm
        · exact h
        · exact hsp.lo m hm
    · refine ⟨[], n :: ns, rfl, nofun, ?_, ?_⟩
      · intro n' t e
        cases e
        exact h
      · intro n' t e m hm
        cases e
        exact cmp_le_lt hl h (hs'.1 m hm)

/-! ### The descent -/

theorem nextIdxL_some {level : Nat} : ∀ (l : List (SNode K V)) (i j : Nat),
    nextIdxL level l i = some j → i ≤ j ∧ j < i + l.length := by
  intro l
  induction l with
  | nil => intro i j h; simp [nextIdxL] at h
  | cons n ns ih =>
    intro i j h
    simp only [nextIdxL] at h
    split at h
    · cases h; simp
    · have := ih _ _ h
      simp only [List.length_cons]
      omega

theorem nextIdx_some {nodes : List (SNode K V)} {level start j : Nat}
    (h : nextIdx nodes level start = some j) : start ≤ j ∧ j < nodes.length := by
  have := nextIdxL_some _ _ _ h
  simp only [List.length_drop] at this
  omega

theorem nextIdx_zero {nodes : List (SNode K V)} (hh : ∀ n ∈ nodes, 1 ≤ n.height) (start : Nat) :
    nextIdx nodes 0 start = if start < nodes.length then some start else none := by
  unfold nextIdx
  cases h : nodes.drop start with
  | nil =>
    have : nodes.length ≤ start := List.drop_eq_nil_iff.1 h
    simp [nextIdxL]
    omega
  | cons n ns =>
    have hm : n ∈ nodes := List.mem_of_mem_drop (h ▸ List.mem_cons_self)
    have hlen : start < nodes.length := by
      have := congrArg List.length h
      simp only [List.length_drop, List.length_cons] at this
      omega
    have := hh n hm
    simp only [nextIdxL, hlen, if_true]
    rw [if_pos (by omega)]

theorem findGEAux_spec (cmp : K → K → Ordering) (nodes : List (SNode K V)) (key : K) (p : Nat)
    (hp : p ≤ nodes.length)
    (hlt : ∀ i n, nodes[i]? = some n → i < p → cmp key n.key = .gt)
    (hge : ∀ i n, nodes[i]? = some n → p ≤ i → cmp key n.key ≠ .gt)
    (hh : ∀ n ∈ nodes, 1 ≤ n.height) :
    ∀ fuel start level, start ≤ p → nodes.length - start + level + 1 ≤ fuel →
      findGEAux cmp nodes key fuel start level
        = (if p < nodes.length then some p else none, p) := by
  intro fuel
  induction fuel with
  | zero => intro start level _ h; omega
  | succ fuel ih =>
    intro start level hsp hfuel
    unfold findGEAux
    cases hn : nextIdx nodes level start with
    | some j =>
      obtain ⟨hsj, hjl⟩ := nextIdx_some hn
      have hget : nodes[j]? = some nodes[j] := List.getElem?_eq_getElem hjl
      simp only [hget]
      by_cases hc : cmp key nodes[j].key = .gt
      · have hjp : j < p := by
          rcases Nat.lt_or_ge j p with h | h
          · exact h
          · exact absurd hc (hge j _ hget h)
        simp only [hc, beq_self_eq_true, if_true]
        exact ih (j + 1) level (by omega) (by omega)
      · have hc' : (cmp key nodes[j].key == Ordering.gt) = false := by
          simpa using hc
        simp only [hc']
        by_cases hl0 : level = 0
        · subst hl0
          rw [nextIdx_zero hh] at hn
          have hjs : j = start := by
            split at hn
            · cases hn; rfl
            · cases hn
          subst hjs
          have : ¬ j < p := fun h => hc (hlt j _ hget h)
          have hpj : p = j := by omega
          subst hpj
          simp [hjl]
        · simp only [hl0, if_false]
          exact ih start (level - 1) hsp (by omega)
    | none =>
      simp only
      by_cases hl0 : level = 0
      · subst hl0
        rw [nextIdx_zero hh] at hn
        have : ¬ start < nodes.length := by
          intro h; simp [h] at hn
        have hps : p = start := by omega
        subst hps
        simp [this]
      · simp only [hl0, if_false]
        exact ih start (level - 1) hsp (by omega)

theorem findGE_split {cmp : K → K → Ordering} {s : SkipList K V} {key : K}
    {l1 l2 : List (SNode K V)} (hsp : Split cmp key s.nodes l1 l2)
    (hh : ∀ n ∈ s.nodes, 1 ≤ n.height) :
    findGE cmp s key = (if l1.length < s.nodes.length then some l1.length else none, l1.length) := by
  unfold findGE
  apply findGEAux_spec cmp s.nodes key l1.length
  · rw [hsp.eq]; simp
  · intro i n hget hi
    rw [hsp.eq, List.getElem?_append_left hi] at hget
    exact hsp.lo n (List.mem_of_getElem? hget)
  · intro i n hget hi
    rw [hsp.eq, List.getElem?_append_right hi] at hget
    exact hsp.ge n (List.mem_of_getElem? hget)
  · exact hh
  · omega
  · omega

theorem findGE_nil {cmp : K → K → Ordering} {s : SkipList K V} {key : K}
    {l1 : List (SNode K V)} (hsp : Split cmp key s.nodes l1 [])
    (hh : ∀ n ∈ s.nodes, 1 ≤ n.height) :
    findGE cmp s key = (none, l1.length) := by
  rw [findGE_split hsp hh, hsp.eq]
  simp

theorem findGE_cons {cmp : K → K → Ordering} {s : SkipList K V} {key : K}
    {l1 : List (SNode K V)} {n : SNode K V} {t : List (SNode K V)}
    (hsp : Split cmp key s.nodes l1 (n :: t))
    (hh : ∀ n ∈ s.nodes, 1 ≤ n.height) :
    findGE cmp s key = (some l1.length, l1.length) := by
  rw [findGE_split hsp hh, hsp.eq]
  simp

/-! ### Insertion -/

theorem sortedInsert_split {cmp : K → K → Ordering} (k : K) (v : V) (h : Nat) :
    ∀ (l1 l2 : List (SNode K V)), (∀ n ∈ l1, cmp k n.key = .gt) →
      (∀ n t, l2 = n :: t → cmp k n.key ≠ .gt) →
      sortedInsert cmp k v ((l1 ++ l2).map fun n => (n.key, n.val))
        = (l1 ++ ⟨k, v, h⟩ :: l2).map fun n => (n.key, n.val) := by
  intro l1
  induction l1 with
  | nil =>
    intro l2 _ hd
    cases l2 with
    | nil => simp [sortedInsert]
    | cons n t =>
      have := hd n t rfl
      simp [sortedInsert, this]
  | cons m l1 ih =>
    intro l2 hlo hd
    have hm := hlo m List.mem_cons_self
    have := ih l2 (fun n hn => hlo n (List.mem_cons_of_mem _ hn)) hd
    simp only [List.cons_append, List.map_cons, sortedInsert, hm, beq_self_eq_true, if_true, this]

theorem insert_spec {cmp : K → K → Ordering} (hl : LawfulCmp cmp) (s : SkipList K V)
    (hi : Inv cmp s.nodes) (k : K) (v : V) (h : Nat) (hh : 1 ≤ h)
    (hne : ∀ n ∈ s.nodes, cmp k n.key ≠ .eq) :
    ∃ s', insert cmp s k v h = some s' ∧ Inv cmp s'.nodes ∧
      (s'.nodes.map fun n => (n.key, n.val))
        = sortedInsert cmp k v (s.nodes.map fun n => (n.key, n.val)) ∧
      s'.nodes.length = s.nodes.length + 1 ∧
      (∀ n, n ∈ s'.nodes → n.key = k ∨ n ∈ s.nodes) := by
  obtain ⟨l1, l2, hsp⟩ := exists_split hl k s.nodes hi.sorted
  have hfind := findGE_split hsp hi.heights
  have hnodes := hsp.eq
  refine ⟨{ s with nodes := l1 ++ ⟨k, v, h⟩ :: l2 }, ?_, ?_, ?_, ?_, ?_⟩
  · simp only [SkipList.insert, hfind]
    rw [if_neg]
    · simp [hnodes]
    · split
      · rename_i n hn
        have hmem : n ∈ s.nodes := by
          split at hn
          · exact List.mem_of_getElem? hn
          · cases hn
        simpa using hne n hmem
      · simp
  · have hsorted := hi.sorted
    unfold Sorted at hsorted
    rw [hnodes, List.pairwise_append] at hsorted
    obtain ⟨h1, h2, h12⟩ := hsorted
    constructor
    · show List.Pairwise _ (l1 ++ ⟨k, v, h⟩ :: l2)
      rw [List.pairwise_append, List.pairwise_cons]
      refine ⟨h1, ⟨?_, h2⟩, ?_⟩
      · intro b hb
        have hbm : b ∈ s.nodes := by rw [hnodes]; exact List.mem_append_right _ hb
        exact cmp_lt_of_ne (hsp.ge b hb) (hne b hbm)
      · intro a ha b hb
        rcases List.mem_cons.1 hb with rfl | hb
        · exact cmp_flip_gt hl (hsp.lo a ha)
        · exact h12 a ha b hb
    · intro n hn
      show 1 ≤ n.height
      have hn' : n ∈ l1 ++ ⟨k, v, h⟩ :: l2 := hn
      rcases List.mem_append.1 hn' with hn | hn
      · exact hi.heights n (by rw [hnodes]; exact List.mem_append_left _ hn)
      · rcases List.mem_cons.1 hn with rfl | hn
        · exact hh
        · exact hi.heights n (by rw [hnodes]; exact List.mem_append_right _ hn)
  · show (List.map _ (l1 ++ ⟨k, v, h⟩ :: l2)) = _
    rw [hnodes]
    exact (sortedInsert_split k v h l1 l2 hsp.lo hsp.hd).symm
  · show (l1 ++ ⟨k, v, h⟩ :: l2).length = _
    rw [hnodes]; simp; omega
  · intro n hn
    have hn' : n ∈ l1 ++ ⟨k, v, h⟩ :: l2 := hn
    rw [hnodes]
    rcases List.mem_append.1 hn' with hn | hn
    · exact Or.inr (List.mem_append_left _ hn)
    · rcases List.mem_cons.1 hn with rfl | hn
      · exact Or.inl rfl
      · exact Or.inr (List.mem_append_right _ hn)

theorem insertAll_spec {cmp : K → K → Ordering} (hl : LawfulCmp cmp) :
    ∀ (ins : List (K × V × Nat)) (s : SkipList K V), Inv cmp s.nodes →
      DistinctKeys cmp (ins.map (·.1)) → (∀ x ∈ ins, 1 ≤ x.2.2) →
      (∀ x ∈ ins, ∀ n ∈ s.nodes, cmp x.1 n.key ≠ .eq) →
      ∃ s', insertAll cmp s ins = some s' ∧ Inv cmp s'.nodes ∧
        (s'.nodes.map fun n => (n.key, n.val))
          = ins.foldl (fun acc x => sortedInsert cmp x.1 x.2.1 acc)
              (s.nodes.map fun n => (n.key, n.val)) ∧
        s'.nodes.length = s.nodes.length + ins.length := by
  intro ins
  induction ins with
  | nil => intro s hi _ _ _; exact ⟨s, rfl, hi, rfl, rfl⟩
  | cons x rest ih =>
    intro s hi hd hh hne
    obtain ⟨k, v, h⟩ := x
    obtain ⟨s1, hins, hi1, hmap1, hlen1, hmem1⟩ :=
      insert_spec hl s hi k v h (hh _ List.mem_cons_self) (hne _ List.mem_cons_self)
    have hd' := List.pairwise_cons.1 (show List.Pairwise _ (k :: rest.map (·.1)) from hd)
    obtain ⟨s2, hall, hi2, hmap2, hlen2⟩ := ih s1 hi1 hd'.2
      (fun x hx => hh x (List.mem_cons_of_mem _ hx))
      (by
        intro x hx n hn
        rcases hmem1 n hn with hk | hn
        · rw [hk]
          intro he
          exact hd'.1 x.1 (List.mem_map_of_mem hx) (cmp_flip_eq hl he)
        · exact hne x (List.mem_cons_of_mem _ hx) n hn)
    refine ⟨s2, ?_, hi2, ?_, ?_⟩
    · simp only [insertAll, hins]; exact hall
    · rw [hmap2, hmap1]; rfl
    · rw [hlen2, hlen1]; simp; omega

/-! ### Reads on a well-formed list -/

theorem bind_findGE {cmp : K → K → Ordering} {s : SkipList K V} {key : K}
    {l1 l2 : List (SNode K V)} (hsp : Split cmp key s.nodes l1 l2)
    (hh : ∀ n ∈ s.nodes, 1 ≤ n.height) :
    (findGE cmp s key).1.bind (s.nodes[·]?) = l2.head? := by
  cases l2 with
  | nil => rw [findGE_nil hsp hh]; rfl
  | cons n t =>
    rw [findGE_cons hsp hh, hsp.eq]
    simp

theorem get_spec {cmp : K → K → Ordering} (hl : LawfulCmp cmp) (s : SkipList K V)
    (hi : Inv cmp s.nodes) (k : K) :
    get cmp s k = specGet cmp (s.nodes.map fun n => (n.key, n.val)) k := by
  obtain ⟨l1, l2, hsp⟩ := exists_split hl k s.nodes hi.sorted
  unfold SkipList.get specGet
  rw [bind_findGE hsp hi.heights, hsp.eq, List.find?_map, List.find?_append]
  have h1 : List.find? ((fun p : K × V => cmp k p.1 == Ordering.eq) ∘ fun n : SNode K V => (n.key, n.val)) l1
      = none := by
    rw [List.find?_eq_none]
    intro n hn
    simp [hsp.lo n hn]
  rw [h1]
  cases l2 with
  | nil => simp
  | cons n t =>
    by_cases hc : cmp k n.key = .eq
    · simp [hc]
    · have h2 : List.find? ((fun p : K × V => cmp k p.1 == Ordering.eq) ∘ fun n : SNode K V => (n.key, n.val)) t
          = none := by
        rw [List.find?_eq_none]
        intro m hm
        simp [hsp.tl n t rfl m hm]
      simp [hc, h2]

theorem iterFrom_spec {cmp : K → K → Ordering} (hl : LawfulCmp cmp) (s : SkipList K V)
    (hi : Inv cmp s.nodes) (k : K) :
    iterFrom cmp s k = specFrom cmp (s.nodes.map fun n => (n.key, n.val)) k := by
  obtain ⟨l1, l2, hsp⟩ := exists_split hl k s.nodes hi.sorted
  unfold iterFrom specFrom
  have hf1 : List.filter (fun p : K × V => cmp k p.1 != Ordering.gt) (l1.map fun n => (n.key, n.val)) = [] := by
    rw [List.filter_eq_nil_iff]
    intro p hp
    obtain ⟨n, hn, rfl⟩ := List.mem_map.1 hp
    simp [hsp.lo n hn]
  have hf2 : List.filter (fun p : K × V => cmp k p.1 != Ordering.gt) (l2.map fun n => (n.key, n.val))
      = l2.map fun n => (n.key, n.val) := by
    rw [List.filter_eq_self]
    intro p hp
    obtain ⟨n, hn, rfl⟩ := List.mem_map.1 hp
    simpa using hsp.ge n hn
  have hR : List.filter (fun p : K × V => cmp k p.1 != Ordering.gt) (s.nodes.map fun n => (n.key, n.val))
      = l2.map fun n => (n.key, n.val) := by
    rw [hsp.eq, List.map_append, List.filter_append, hf1, hf2]; rfl
  rw [hR]
  cases l2 with
  | nil => rw [findGE_nil hsp hi.heights]; rfl
  | cons n t =>
    rw [findGE_cons hsp hi.heights]
    simp [hsp.eq]

theorem takeUpTo_spec {cmp : K → K → Ordering} (hl : LawfulCmp cmp) (hi : K) :
    ∀ l : List (SNode K V), Sorted cmp l →
      takeUpTo cmp hi l = (l.map fun n => (n.key, n.val)).filter fun p => cmp p.1 hi != .gt := by
  intro l
  induction l with
  | nil => intro _; rfl
  | cons n ns ih =>
    intro hs
    have hs' := List.pairwise_cons.1 hs
    simp only [takeUpTo, List.map_cons, List.filter_cons]
    cases hc : cmp n.key hi with
    | lt => simp [ih hs'.2]
    | eq =>
      have : List.filter (fun p : K × V => cmp p.1 hi != Ordering.gt) (ns.map fun n => (n.key, n.val)) = [] := by
        rw [List.filter_eq_nil_iff]
        intro p hp
        obtain ⟨m, hm, rfl⟩ := List.mem_map.1 hp
        have h1 : cmp hi m.key = .lt := by
          rw [← hl.eq_left _ _ m.key hc]; exact hs'.1 m hm
        simp [cmp_flip_lt hl h1]
      simp [this]
    | gt =>
      have : List.filter (fun p : K × V => cmp p.1 hi != Ordering.gt) (ns.map fun n => (n.key, n.val)) = [] := by
        rw [List.filter_eq_nil_iff]
        intro p hp
        obtain ⟨m, hm, rfl⟩ := List.mem_map.1 hp
        have h1 : cmp hi m.key = .lt := hl.trans_lt _ _ _ (cmp_flip_gt hl hc) (hs'.1 m hm)
        simp [cmp_flip_lt hl h1]
      simp [this]

theorem iterBetween_spec {cmp : K → K → Ordering} (hl : LawfulCmp cmp) (s : SkipList K V)
    (hi : Inv cmp s.nodes) (lo hi' : K) :
    iterBetween cmp s lo hi' = specBetween cmp (s.nodes.map fun n => (n.key, n.val)) lo hi' := by
  obtain ⟨l1, l2, hsp⟩ := exists_split hl lo s.nodes hi.sorted
  unfold iterBetween specBetween
  by_cases hc : (cmp lo hi' == .gt) = true
  · simp [hc]
  · simp only [hc]
    have hs2 : Sorted cmp l2 := by
      have := hi.sorted
      unfold Sorted at this
      rw [hsp.eq, List.pairwise_append] at this
      exact this.2.1
    have hf1 : List.filter (fun p : K × V => cmp lo p.1 != Ordering.gt && cmp p.1 hi' != Ordering.gt)
        (l1.map fun n => (n.key, n.val)) = [] := by
      rw [List.filter_eq_nil_iff]
      intro p hp
      obtain ⟨n, hn, rfl⟩ := List.mem_map.1 hp
      simp [hsp.lo n hn]
    have hf2 : List.filter (fun p : K × V => cmp lo p.1 != Ordering.gt && cmp p.1 hi' != Ordering.gt)
        (l2.map fun n => (n.key, n.val))
        = List.filter (fun p : K × V => cmp p.1 hi' != Ordering.gt) (l2.map fun n => (n.key, n.val)) := by
      apply List.filter_congr
      intro p hp
      obtain ⟨n, hn, rfl⟩ := List.mem_map.1 hp
      have := hsp.ge n hn
      simp [this]
    have hR : List.filter (fun p : K × V => cmp lo p.1 != Ordering.gt && cmp p.1 hi' != Ordering.gt)
        (s.nodes.map fun n => (n.key, n.val)) = takeUpTo cmp hi' l2 := by
      rw [hsp.eq, List.map_append, List.filter_append, hf1, hf2, takeUpTo_spec hl hi' l2 hs2]; rfl
    rw [hR]
    cases l2 with
    | nil => rw [findGE_nil hsp hi.heights]; rfl
    | cons n t =>
      rw [findGE_cons hsp hi.heights]
      simp [hsp.eq]

/-! ### The reference sorted map -/

theorem sortedInsert_perm (cmp : K → K → Ordering) (k : K) (v : V) :
    ∀ l : List (K × V), (sortedInsert cmp k v l).Perm ((k, v) :: l) := by
  intro l
  induction l with
  | nil => exact List.Perm.refl _
  | cons p rest ih =>
    obtain ⟨k', v'⟩ := p
    simp only [sortedInsert]
    split
    · exact ((List.Perm.cons _ ih).trans (List.Perm.swap _ _ _))
    · exact List.Perm.refl _

theorem sortedInsert_strictAsc {cmp : K → K → Ordering} (hl : LawfulCmp cmp) (k : K) (v : V) :
    ∀ l : List (K × V), StrictAsc cmp l → (∀ p ∈ l, cmp k p.1 ≠ .eq) →
      StrictAsc cmp (sortedInsert cmp k v l) := by
  intro l
  induction l with
  | nil => intro _ _; exact List.pairwise_singleton _ _
  | cons p rest ih =>
    intro hs hne
    obtain ⟨k', v'⟩ := p
    have hs' := List.pairwise_cons.1 hs
    simp only [sortedInsert]
    by_cases hc : cmp k k' = .gt
    · simp only [hc, beq_self_eq_true, if_true]
      refine List.pairwise_cons.2 ⟨?_, ih hs'.2 (fun p hp => hne p (List.mem_cons_of_mem _ hp))⟩
      intro b hb
      rcases List.mem_cons.1 ((sortedInsert_perm cmp k v rest).mem_iff.1 hb) with rfl | hb
      · exact cmp_flip_gt hl hc
      · exact hs'.1 b hb
    · have hc' : (cmp k k' == Ordering.gt) = false := by simpa using hc
      simp only [hc']
      have hlt : cmp k k' = .lt := cmp_lt_of_ne hc (hne (k', v') List.mem_cons_self)
      refine List.pairwise_cons.2 ⟨?_, hs⟩
      intro b hb
      rcases List.mem_cons.1 hb with rfl | hb
      · exact hlt
      · exact hl.trans_lt _ _ _ hlt (hs'.1 b hb)

theorem foldl_sortedInsert_spec {cmp : K → K → Ordering} (hl : LawfulCmp cmp) :
    ∀ (ins acc : List (K × V)), StrictAsc cmp acc → DistinctKeys cmp (ins.map (·.1)) →
      (∀ x ∈ ins, ∀ p ∈ acc, cmp x.1 p.1 ≠ .eq) →
      StrictAsc cmp (ins.foldl (fun acc p => sortedInsert cmp p.1 p.2 acc) acc) ∧
        (ins.foldl (fun acc p => sortedInsert cmp p.1 p.2 acc) acc).Perm (acc ++ ins) := by
  intro ins
  induction ins with
  | nil => intro acc hs _ _; simpa using hs
  | cons x rest ih =>
    intro acc hs hd hne
    have hd' := List.pairwise_cons.1 (show List.Pairwise _ (x.1 :: rest.map (·.1)) from hd)
    have hperm := sortedInsert_perm cmp x.1 x.2 acc
    have hs1 := sortedInsert_strictAsc hl x.1 x.2 acc hs (hne x List.mem_cons_self)
    obtain ⟨h1, h2⟩ := ih (sortedInsert cmp x.1 x.2 acc) hs1 hd'.2
      (by
        intro y hy p hp
        rcases List.mem_cons.1 (hperm.mem_iff.1 hp) with rfl | hp
        · intro he
          exact hd'.1 y.1 (List.mem_map_of_mem hy) (cmp_flip_eq hl he)
        · exact hne y (List.mem_cons_of_mem _ hy) p hp)
    refine ⟨h1, ?_⟩
    simp only [List.foldl_cons]
    refine h2.trans ?_
    refine (List.Perm.append_right rest hperm).trans ?_
    exact (List.perm_middle (l₁ := acc) (a := x) (l₂ := rest)).symm

/-! ### Main theorems -/

/-- `sortedOf` really is the sorted map of the insertions: strictly ascending and a permutation of them. -/
theorem sortedOf_spec (cmp : K → K → Ordering) (hl : LawfulCmp cmp) (ins : List (K × V))
    (hd : DistinctKeys cmp (ins.map (·.1))) :
    StrictAsc cmp (sortedOf cmp ins) ∧ (sortedOf cmp ins).Perm ins := by
  have := foldl_sortedInsert_spec hl ins [] List.Pairwise.nil hd (fun _ _ _ hp => nomatch hp)
  simpa [sortedOf] using this

theorem inv_empty (cmp : K → K → Ordering) : Inv cmp (SkipList.empty : SkipList K V).nodes :=
  ⟨List.Pairwise.nil, nofun⟩

theorem insertAll_empty {cmp : K → K → Ordering} (hl : LawfulCmp cmp) (ins : List (K × V × Nat))
    (hd : DistinctKeys cmp (ins.map (·.1))) (hh : ∀ x ∈ ins, 1 ≤ x.2.2) :
    ∃ s : SkipList K V, insertAll cmp SkipList.empty ins = some s ∧ Inv cmp s.nodes ∧
      (s.nodes.map fun n => (n.key, n.val)) = sortedOf cmp (ins.map fun x => (x.1, x.2.1)) ∧
      s.nodes.length = ins.length := by
  obtain ⟨s, hall, hi, hmap, hlen⟩ :=
    insertAll_spec hl ins SkipList.empty (inv_empty cmp) hd hh (fun _ _ _ hn => nomatch hn)
  refine ⟨s, hall, hi, ?_, ?_⟩
  · rw [hmap, sortedOf, List.foldl_map]; rfl
  · rw [hlen]; simp [SkipList.empty]

/-- Any insertion order of distinct keys, any heights ≥ 1: the skip list is the sorted map. -/
theorem skiplist_refines (cmp : K → K → Ordering) (hl : LawfulCmp cmp) (ins : List (K × V × Nat))
    (hd : DistinctKeys cmp (ins.map (·.1))) (hh : ∀ x ∈ ins, 1 ≤ x.2.2) :
    ∃ s : SkipList K V, insertAll cmp SkipList.empty ins = some s ∧
      let m := sortedOf cmp (ins.map fun x => (x.1, x.2.1))
      s.size = ins.length ∧
      iterAll s = m ∧
      (∀ k, get cmp s k = specGet cmp m k) ∧
      (∀ k, contains cmp s k = (specGet cmp m k).isSome) ∧
      (∀ k, iterFrom cmp s k = specFrom cmp m k) ∧
      (∀ lo hi, iterBetween cmp s lo hi = specBetween cmp m lo hi) := by
  obtain ⟨s, hall, hi, hmap, hlen⟩ := insertAll_empty hl ins hd hh
  refine ⟨s, hall, ?_⟩
  intro m
  refine ⟨hlen, hmap, ?_, ?_, ?_, ?_⟩
  · intro k; rw [get_spec hl s hi k, hmap]
  · intro k; unfold contains; rw [get_spec hl s hi k, hmap]
  · intro k; rw [iterFrom_spec hl s hi k, hmap]
  · intro lo hi'; rw [iterBetween_spec hl s hi lo hi', hmap]

/-- Inserting a key that compares equal to one already present is refused (the Go code panics). -/
theorem insert_duplicate_rejected (cmp : K → K → Ordering) (hl : LawfulCmp cmp) (ins : List (K × V × Nat))
    (hd : DistinctKeys cmp (ins.map (·.1))) (hh : ∀ x ∈ ins, 1 ≤ x.2.2)
    (s : SkipList K V) (hs : insertAll cmp SkipList.empty ins = some s)
    (k : K) (v : V) (h : Nat) (hk : ∃ x ∈ ins, cmp k x.1 = .eq) :
    insert cmp s k v h = none := by
  obtain ⟨s', hall, hi, hmap, _⟩ := insertAll_empty hl ins hd hh
  rw [hs] at hall
  cases hall
  obtain ⟨x, hx, hkx⟩ := hk
  -- the inserted key is the key of some node
  have hd' : DistinctKeys cmp ((ins.map fun x => (x.1, x.2.1)).map (·.1)) := by
    rw [List.map_map]; exact hd
  have hperm := (sortedOf_spec cmp hl (ins.map fun x => (x.1, x.2.1)) hd').2
  have hxm : (x.1, x.2.1) ∈ s.nodes.map fun n => (n.key, n.val) := by
    rw [hmap]
    exact hperm.mem_iff.2 (List.mem_map_of_mem (f := fun x : K × V × Nat => (x.1, x.2.1)) hx)
  obtain ⟨n, hn, hnx⟩ := List.mem_map.1 hxm
  have hkn : cmp k n.key = .eq := by
    have : n.key = x.1 := congrArg Prod.fst hnx
    rw [this]; exact hkx
  -- it is the head of the `≥ k` part
  obtain ⟨l1, l2, hsp⟩ := exists_split hl k s.nodes hi.sorted
  have hn2 : n ∈ l2 := by
    rw [hsp.eq] at hn
    rcases List.mem_append.1 hn with hn | hn
    · have := hsp.lo n hn
      rw [hkn] at this; cases this
    · exact hn
  cases l2 with
  | nil => cases hn2
  | cons m t =>
    have hnm : n = m := by
      rcases List.mem_cons.1 hn2 with rfl | hn2
      · rfl
      · have := hsp.tl m t rfl n hn2
        rw [hkn] at this; cases this
    subst hnm
    simp only [SkipList.insert, findGE_cons hsp hi.heights]
    rw [if_pos]
    simp [hsp.eq, hkn]

end SST.Proofs
