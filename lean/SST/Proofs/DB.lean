/-
Proofs for L6 (SimpleDB as a map): C01, C06, C17.
-/
import SST.Spec.DB
namespace SST.Proofs.DB
open SST SST.DBM

theorem get_refines (s : State) (k : Key) (ho : s.isOpen = true) (hc : s.closed = false)
    (hne : ∀ k v, memGet s k = some (some v) → v ≠ []) :
    get s k = (match abs s k with | some v => .value v | none => .notFound) := by
  sorry

/-- programs × schedules × configurations: whatever flush / rotation / compaction steps (with whatever table
sizes, thresholds and ratios) are placed between the client calls, and however often the database is closed
and re-opened with other options, every client call returns what the reference map returns. -/
theorem db_refines_map (steps : List Step) :
    (run {} steps).map (·.1) = specRun {} steps := by
  sorry

/-- table numbers stay strictly increasing along the live list: the order the tables are re-loaded in after a
restart (sorted by directory name) is the order they are stacked in -/
theorem gens_ok (steps : List Step) : GensOk (runState {} steps) := by
  sorry

theorem floodFill_spec (a : List Bool) : floodFill a = fillBetween a := by
  sorry

theorem selection_contiguous (a : List Bool) : Contiguous (floodFill a) := by
  sorry

/-- one compaction cycle changes no key's value, for any reachable state, any table sizes and options -/
theorem compact_preserves_reads (steps : List Step) (sizes : List Nat) (k : Key) :
    let s := runState {} steps
    abs (compactStep s sizes).1 k = abs s k ∧ get (compactStep s sizes).1 k = get s k := by
  sorry

/-- internal steps (rotation, flush, compaction, clean close + re-open) never change what a key reads as -/
theorem reads_stable (steps : List Step) (st : Step) (k : Key)
    (hint : match st with | .rotate | .flush | .compact _ => True | _ => False) :
    abs (step (runState {} steps) st).1 k = abs (runState {} steps) k := by
  sorry

theorem reads_stable_close_reopen (steps : List Step) (o : Opts) (k : Key)
    (hu : (runState {} steps).isOpen = true ∧ (runState {} steps).closed = false) :
    abs (runState {} (steps ++ [.close, .reopen o])) k = abs (runState {} steps) k := by
  sorry

theorem api_flavours_agree (s : State) (k v : Bytes) (rot : Bool) :
    putStr s k v rot = putBytes s (some k) (some v) rot ∧ deleteStr s k = deleteBytes s (some k) := by
  sorry

theorem rejected_call_no_effect (s : State) (st : Step) (r : Res)
    (hr : (step s st).2.1 = some r) (hbad : r = .rejected ∨ r = .notOpen) : (step s st).1 = s := by
  sorry

theorem empty_or_nil_rejected (s : State) (k v : GoBytes) (rot : Bool)
    (h : k.getD [] = [] ∨ v.getD [] = []) : putBytes s k v rot = (s, .rejected) := by
  sorry

end SST.Proofs.DB
