/-
Proofs for L6 (SimpleDB as a map): C01, C06, C17.
Helper lemmas: DBLayers (layers, table stacks, merge), DBFlood (floodFill), DBCompact (shape of a compaction
cycle), DBInv (invariant of reachable states, simulation by the reference map).
-/
import SST.Spec.DB
import SST.Proofs.DBInv
namespace SST.Proofs.DB
open SST SST.DBM

theorem get_refines (s : State) (k : Key) (ho : s.isOpen = true) (hc : s.closed = false)
    (hne : ∀ k v, memGet s k = some (some v) → v ≠ []) :
    get s k = (match abs s k with | some v => .value v | none => .notFound) := by
  have _ := hne  -- not needed: `abs` reports a memstore value as it is
  rw [get_abs]
  simp only [ho, hc, Bool.not_true, Bool.or_false, Bool.false_eq_true, if_false]
  cases abs s k <;> rfl

/-- programs × schedules × configurations: whatever flush / rotation / compaction steps (with whatever table
sizes, thresholds and ratios) are placed between the client calls, and however often the database is closed
and re-opened with other options, every client call returns what the reference map returns. -/
theorem db_refines_map (steps : List Step) :
    (run {} steps).map (·.1) = specRun {} steps :=
  run_sim steps {} {} rel_init

/-- table numbers stay strictly increasing along the live list: the order the tables are re-loaded in after a
restart (sorted by directory name) is the order they are stacked in -/
theorem gens_ok (steps : List Step) : GensOk (runState {} steps) :=
  (reach_inv steps).gens

theorem floodFill_spec (a : List Bool) : floodFill a = fillBetween a :=
  floodFill_eq a

theorem selection_contiguous (a : List Bool) : Contiguous (floodFill a) :=
  floodFill_contiguous a

/-- one compaction cycle changes no key's value, for any reachable state, any table sizes and options -/
theorem compact_preserves_reads (steps : List Step) (sizes : List Nat) (k : Key) :
    let s := runState {} steps
    abs (compactStep s sizes).1 k = abs s k ∧ get (compactStep s sizes).1 k = get s k := by
  intro s
  have hi : Inv s := reach_inv steps
  obtain ⟨h1, h2, _, _⟩ := compact_inv_stack s hi sizes
  obtain ⟨g1, g2, g3, g4⟩ := compact_get s sizes k
  constructor
  · rw [abs_eq_stack _ h1, abs_eq_stack _ hi, h2 k]
  · rw [get_eq, get_eq, g1, g2, g3, g4]

/-- internal steps (rotation, flush, compaction, clean close + re-open) never change what a key reads as -/
theorem reads_stable (steps : List Step) (st : Step) (k : Key)
    (hint : match st with | .rotate | .flush | .compact _ => True | _ => False) :
    abs (step (runState {} steps) st).1 k = abs (runState {} steps) k := by
  have hi : Internal st := by
    cases st <;> first | exact trivial | exact hint.elim
  exact (internal_step _ (reach_inv steps) st hi).2.1 k

theorem reads_stable_close_reopen (steps : List Step) (o : Opts) (k : Key)
    (hu : (runState {} steps).isOpen = true ∧ (runState {} steps).closed = false) :
    abs (runState {} (steps ++ [.close, .reopen o])) k = abs (runState {} steps) k := by
  have hi := reach_inv steps
  rw [runState_append]
  generalize runState {} steps = s at hu hi ⊢
  have hr : Rel s { m := abs s, isOpen := s.isOpen, closed := s.closed } := ⟨hi, rfl, rfl, fun _ => rfl⟩
  have h1 := (step_sim s _ hr .close).1
  have h2 := (step_sim _ _ h1 (.reopen o)).1
  have hm := h2.m k
  simp only [runState]
  rw [hm]
  simp [specStep, Spec.usable, hu.1, hu.2]

theorem api_flavours_agree (s : State) (k v : Bytes) (rot : Bool) :
    putStr s k v rot = putBytes s (some k) (some v) rot ∧ deleteStr s k = deleteBytes s (some k) := by
  refine ⟨?_, rfl⟩
  unfold putStr
  by_cases he : (k.isEmpty || v.isEmpty) = true
  · simp [putBytes, he]
  · simp [he]

theorem rejected_call_no_effect (s : State) (st : Step) (r : Res)
    (hr : (step s st).2.1 = some r) (hbad : r = .rejected ∨ r = .notOpen) : (step s st).1 = s := by
  have hput : ∀ k v rot r, (putBytes s k v rot).2 = r → (r = .rejected ∨ r = .notOpen) →
      (putBytes s k v rot).1 = s := by
    intro k v rot r h1 h2
    cases k with
    | none => rfl
    | some kb =>
      cases v with
      | none => rfl
      | some vb =>
        simp only [putBytes] at h1 ⊢
        by_cases he : (kb.isEmpty || vb.isEmpty) = true
        · simp [he]
        · by_cases hn : (!s.isOpen || s.closed) = true
          · simp [he, hn]
          · simp only [he, hn] at h1
            subst h1
            rcases h2 with (h2 | h2) <;> cases h2
  have hdel : ∀ k r, (deleteBytes s k).2 = r → (r = .rejected ∨ r = .notOpen) →
      (deleteBytes s k).1 = s := by
    intro k r h1 h2
    simp only [deleteBytes] at h1 ⊢
    by_cases hn : (!s.isOpen || s.closed) = true
    · simp [hn]
    · simp only [hn] at h1
      subst h1
      rcases h2 with (h2 | h2) <;> cases h2
  cases st with
  | putB k v rot => exact hput k v rot r (Option.some.inj hr) hbad
  | putS k v rot =>
    simp only [step] at hr ⊢
    rw [(api_flavours_agree s k v rot).1] at hr ⊢
    exact hput _ _ rot r (Option.some.inj hr) hbad
  | delB k => exact hdel k r (Option.some.inj hr) hbad
  | delS k => exact hdel (some k) r (Option.some.inj hr) hbad
  | get k => rfl
  | rotate => simp only [step] at hr; split at hr <;> cases hr
  | flush => cases hr
  | compact sizes => simp only [step] at hr; split at hr <;> cases hr
  | close =>
    simp only [step, close] at hr ⊢
    by_cases hn : (!s.isOpen || s.closed) = true
    · simp [hn]
    · simp only [hn] at hr
      cases hr
      rcases hbad with (h2 | h2) <;> cases h2
  | reopen o => simp only [step] at hr; split at hr <;> cases hr

theorem empty_or_nil_rejected (s : State) (k v : GoBytes) (rot : Bool)
    (h : k.getD [] = [] ∨ v.getD [] = []) : putBytes s k v rot = (s, .rejected) := by
  cases k with
  | none => rfl
  | some kb =>
    cases v with
    | none => rfl
    | some vb =>
      have he : (kb.isEmpty || vb.isEmpty) = true := by
        rcases h with (h | h) <;> simp at h <;> simp [h]
      simp [putBytes, he]

/-- a deleted key stays "not found" through any rotations, flushes and compactions that follow: neither the
flush of the tombstone nor a compaction that drops or carries it makes an older value visible again -/
theorem deleted_stays_deleted (pre post : List Step) (k : Key)
    (hu : (runState {} pre).isOpen = true ∧ (runState {} pre).closed = false)
    (hpost : ∀ st ∈ post, match st with
      | .rotate | .flush | .compact _ => True
      | _ => False) :
    get (runState {} (pre ++ [.delS k] ++ post)) k = .notFound := by
  have hi := reach_inv pre
  rw [runState_append, runState_append]
  generalize runState {} pre = s at hu hi ⊢
  have hp : ∀ st ∈ post, Internal st := by
    intro st hst
    have := hpost st hst
    cases st <;> first | exact trivial | exact this.elim
  have hn : (!s.isOpen || s.closed) = false := by simp [hu.1, hu.2]
  have hs2 : runState s [.delS k] = { s with w := s.w.set k none } := by
    simp [runState, step, deleteStr, deleteBytes, hn]
  rw [hs2]
  have hi2 : Inv { s with w := s.w.set k none } :=
    setW_inv s hi (by simp [hu.1, hu.2]) k none (by intro b hb; cases hb)
  obtain ⟨_, h2, h3, h4⟩ := internal_run post _ hi2 hp
  rw [get_abs, h2 k, h3, h4, setW_abs_none]
  simp [hu.1, hu.2]

end SST.Proofs.DB
