/-
The consumer loops of sstable_merger.go (`Merge`, `MergeCompactionIterator.Next`, `MergeCompact`) expressed
as list functions of the sequence the heap yields, and what the abstract writer does with a list of items.
-/
import SST.Spec.Merge
import SST.Proofs.PQF
import SST.Proofs.MergeOrd
namespace SST.Proofs.MergeLoops
open SST SST.Merge PQ SST.Proofs.FH SST.Proofs.PQB SST.Proofs.MergeOrd

/-- hand the items to `WriteNext` one by one (stopping at the first error), then report how the source ended -/
def feedItems : List Item → PQF.Term → Merge.WState → Option Err × Merge.WState
  | [], .done, w => (none, w)
  | [], .err e, w => (some e, w)
  | (k, v) :: xs, t, w =>
    match writeNext w k v with
    | (some e, w') => (some e, w')
    | (none, w') => feedItems xs t w'

/-- `groupRun` over a sequence that may end in an error (then the last group is not flushed) -/
def groupRunT (reduce : ReduceFn) :
    GoBytes → List GoBytes → List Nat → List (GoBytes × GoBytes × Nat) → PQF.Term → List Item × PQF.Term
  | prev, vb, cb, [], .done => (if vb.length > 0 then emitOf (reduce prev vb cb) else [], .done)
  | _, _, _, [], .err e => ([], .err e)
  | prev, vb, cb, (k, v, c) :: rest, t =>
    if prev.isSome && goCmp (normKey k) prev != .eq then
      let r := groupRunT reduce (normKey k) [v] [c] rest t
      (emitOf (reduce prev vb cb) ++ r.1, r.2)
    else groupRunT reduce (normKey k) (vb ++ [v]) (cb ++ [c]) rest t

theorem groupRunT_done (reduce : ReduceFn) : ∀ (xs : List (GoBytes × GoBytes × Nat)) (prev : GoBytes)
    (vb : List GoBytes) (cb : List Nat),
    groupRunT reduce prev vb cb xs .done = (groupRun reduce prev vb cb xs, .done) := by
  intro xs
  induction xs with
  | nil => intro prev vb cb; simp [groupRunT, groupRun]
  | cons x rest ih =>
    intro prev vb cb
    obtain ⟨k, v, c⟩ := x
    simp only [groupRunT, groupRun]
    split
    · rw [ih]
    · rw [ih]

theorem groupRunT_term (reduce : ReduceFn) : ∀ (xs : List (GoBytes × GoBytes × Nat)) (prev : GoBytes)
    (vb : List GoBytes) (cb : List Nat) (t : PQF.Term), (groupRunT reduce prev vb cb xs t).2 = t := by
  intro xs
  induction xs with
  | nil => intro prev vb cb t; cases t <;> simp [groupRunT]
  | cons x rest ih =>
    intro prev vb cb t
    obtain ⟨k, v, c⟩ := x
    simp only [groupRunT]
    split
    · exact ih _ _ _ _
    · exact ih _ _ _ _

variable {ee : Nat → Option Err}

/-! ### `Merge` -/

theorem mergeLoop_eq {h : Heap GoBytes GoBytes} {xs : List (GoBytes × GoBytes × Nat)} {t : PQF.Term}
    (hy : Yields goCmp ee h xs t) :
    ∀ (F : Nat), xs.length < F → ∀ w, mergeLoop ee F h w = feedItems (untag xs) t w := by
  induction hy with
  | @done h0 hn =>
    intro F hF w
    obtain ⟨F', rfl⟩ : ∃ F', F = F' + 1 := ⟨F - 1, by omega⟩
    simp [mergeLoop, hn, feedItems, untag]
  | @err h0 e0 hn =>
    intro F hF w
    obtain ⟨F', rfl⟩ : ∃ F', F = F' + 1 := ⟨F - 1, by omega⟩
    simp [mergeLoop, hn, feedItems, untag]
  | @item h0 h' o xs' t' hn _ ih =>
    intro F hF w
    obtain ⟨F', rfl⟩ : ∃ F', F = F' + 1 := ⟨F - 1, by omega⟩
    obtain ⟨k, v, c⟩ := o
    simp only [List.length_cons] at hF
    simp only [mergeLoop, hn, untag, List.map_cons, feedItems]
    cases hw : writeNext w k v with
    | mk e w' =>
      cases e with
      | some e => rfl
      | none =>
        simp only []
        exact ih F' (by omega) w'

/-! ### `MergeCompactionIterator.Next` called until Done -/

theorem mcNext_skip (hl : LawfulCmp goCmp) (reduce : ReduceFn) {h h' : Heap GoBytes GoBytes}
    {k v : GoBytes} {c : Nat} (ho : HeapOrd goCmp h) (hn : PQF.next goCmp ee h = .item (k, v, c) h')
    (prev : GoBytes) (vb : List GoBytes) (cb : List Nat) :
    mcNext ee reduce ⟨h, prev, vb, cb⟩ =
      if prev.isSome && goCmp (normKey k) prev != .eq then
        (if bothNonNil (reduce prev vb cb) then
          (.item (reduce prev vb cb).1 (reduce prev vb cb).2, ⟨h', normKey k, [v], [c]⟩)
         else mcNext ee reduce ⟨h', normKey k, [v], [c]⟩)
      else mcNext ee reduce ⟨h', normKey k, vb ++ [v], cb ++ [c]⟩ := by
  obtain ⟨_, hcnt, _, _⟩ := next_item_inv hl ho hn
  unfold mcNext
  simp only []
  rw [hcnt]
  conv => lhs; unfold mcNextAux
  simp only [hn]

theorem mcCollect_eq (hl : LawfulCmp goCmp) (reduce : ReduceFn) {h : Heap GoBytes GoBytes}
    {xs : List (GoBytes × GoBytes × Nat)} {t : PQF.Term} (hy : Yields goCmp ee h xs t) :
    HeapOrd goCmp h → ∀ (prev : GoBytes) (vb : List GoBytes) (cb : List Nat) (F : Nat), xs.length + 2 ≤ F →
      mcCollect ee reduce F ⟨h, prev, vb, cb⟩ = groupRunT reduce prev vb cb xs t := by
  induction hy with
  | @done h0 hn =>
    intro _ prev vb cb F hF
    obtain ⟨F1, rfl⟩ : ∃ F1, F = F1 + 2 := ⟨F - 2, by simp at hF; omega⟩
    have hnext : ∀ vb', mcNext ee reduce ⟨h0, prev, vb', cb⟩ =
        (if vb'.length > 0 then
          (if bothNonNil (reduce prev vb' cb) then
            (.item (reduce prev vb' cb).1 (reduce prev vb' cb).2, ⟨h0, prev, [], cb⟩)
           else (.done, ⟨h0, prev, vb', cb⟩))
         else (.done, ⟨h0, prev, vb', cb⟩)) := by
      intro vb'
      unfold mcNext mcNextAux
      simp only [hn]
    unfold mcCollect
    rw [hnext]
    simp only [groupRunT]
    by_cases hv : vb.length > 0
    · simp only [hv, if_true]
      by_cases hb : bothNonNil (reduce prev vb cb)
      · simp only [hb, if_true]
        unfold mcCollect
        rw [hnext]
        simp [emitOf, hb]
      · simp [hb, emitOf]
    · simp [hv]
  | @err h0 e0 hn =>
    intro _ prev vb cb F hF
    obtain ⟨F1, rfl⟩ : ∃ F1, F = F1 + 1 := ⟨F - 1, by omega⟩
    unfold mcCollect mcNext mcNextAux
    simp [hn, groupRunT]
  | @item h0 h' o xs' t' hn _ ih =>
    intro ho prev vb cb F hF
    obtain ⟨k, v, c⟩ := o
    obtain ⟨ho', _, _, _⟩ := next_item_inv hl ho hn
    obtain ⟨F1, rfl⟩ : ∃ F1, F = F1 + 1 := ⟨F - 1, by omega⟩
    simp only [List.length_cons] at hF
    have hskip := mcNext_skip hl reduce ho hn prev vb cb
    simp only [groupRunT]
    by_cases hch : (prev.isSome && goCmp (normKey k) prev != .eq) = true
    · simp only [hch, if_true] at hskip ⊢
      by_cases hb : bothNonNil (reduce prev vb cb)
      · simp only [hb, if_true] at hskip
        unfold mcCollect
        rw [hskip]
        simp only []
        rw [ih ho' (normKey k) [v] [c] F1 (by omega)]
        simp [emitOf, hb]
      · simp only [hb] at hskip
        have : mcCollect ee reduce (F1 + 1) ⟨h0, prev, vb, cb⟩ =
            mcCollect ee reduce (F1 + 1) ⟨h', normKey k, [v], [c]⟩ := by
          conv => lhs; unfold mcCollect
          conv => rhs; unfold mcCollect
          rw [hskip]
          rfl
        rw [this, ih ho' (normKey k) [v] [c] (F1 + 1) (by omega)]
        simp [emitOf, hb]
    · simp only [hch] at hskip ⊢
      have : mcCollect ee reduce (F1 + 1) ⟨h0, prev, vb, cb⟩ =
          mcCollect ee reduce (F1 + 1) ⟨h', normKey k, vb ++ [v], cb ++ [c]⟩ := by
        conv => lhs; unfold mcCollect
        conv => rhs; unfold mcCollect
        rw [hskip]
        rfl
      rw [this, ih ho' (normKey k) (vb ++ [v]) (cb ++ [c]) (F1 + 1) (by omega)]
      rfl

/-! ### `MergeCompact` -/

theorem mergeCompactLoop_eq (reduce : ReduceFn) : ∀ (F : Nat) (s : MCIter) (w : Merge.WState),
    mergeCompactLoop ee reduce F s w =
      feedItems (mcCollect ee reduce F s).1 (mcCollect ee reduce F s).2 w := by
  intro F
  induction F with
  | zero => intro s w; simp [mergeCompactLoop, mcCollect, feedItems]
  | succ n ih =>
    intro s w
    unfold mergeCompactLoop mcCollect
    cases hm : mcNext ee reduce s with
    | mk st s' =>
      cases st with
      | done => simp [feedItems]
      | err e => simp [feedItems]
      | item k v =>
        simp only [feedItems]
        cases hw : writeNext w k v with
        | mk e w' =>
          cases e with
          | some e => rfl
          | none => exact ih s' w'

/-! ### the writer -/

/-- every key is accepted after the previous one: strictly ascending, the first key free -/
def ChainOk : Option Bytes → List Bytes → Prop
  | _, [] => True
  | none, k :: ks => ChainOk (some k) ks
  | some l, k :: ks => bytesCmp l k = .lt ∧ ChainOk (some k) ks

theorem chainOk_some_iff {l : Bytes} {ks : List Bytes} :
    ChainOk (some l) ks ↔ (l :: ks).Pairwise (fun a b => bytesCmp a b = .lt) := by
  induction ks generalizing l with
  | nil => simp [ChainOk]
  | cons k ks ih =>
    simp only [ChainOk, ih]
    constructor
    · rintro ⟨hlk, hp⟩
      rw [List.pairwise_cons] at hp ⊢
      refine ⟨?_, List.pairwise_cons.mpr hp⟩
      intro x hx
      rcases List.mem_cons.mp hx with rfl | hm
      · exact hlk
      · exact bytesCmp_trans_lt _ _ _ hlk (hp.1 x hm)
    · intro hp
      rw [List.pairwise_cons] at hp
      exact ⟨hp.1 k List.mem_cons_self, hp.2⟩

theorem chainOk_none_iff {ks : List Bytes} :
    ChainOk none ks ↔ ks.Pairwise (fun a b => bytesCmp a b = .lt) := by
  cases ks with
  | nil => simp [ChainOk]
  | cons k ks => simp only [ChainOk]; exact chainOk_some_iff

def keysOf (items : List Item) : List Bytes := items.map fun p => p.1.getD []

theorem writeNext_cases (w : Merge.WState) (k v : GoBytes) :
    (w.calls ∈ w.failAt ∧ writeNext w k v = (some .io, { w with calls := w.calls + 1 })) ∨
    (w.calls ∉ w.failAt ∧ ChainOk w.lastKey [k.getD []] ∧
      writeNext w k v = (none, { w with calls := w.calls + 1, lastKey := some (k.getD []),
                                          out := w.out ++ [(k.getD [], v)] })) ∨
    (w.calls ∉ w.failAt ∧ ¬ ChainOk w.lastKey [k.getD []] ∧
      writeNext w k v = (some .rejected, { w with calls := w.calls + 1 })) := by
  unfold writeNext
  by_cases hf : w.calls ∈ w.failAt
  · left
    simp [hf]
  · right
    have hc : w.failAt.contains w.calls = false := by simpa using hf
    simp only [hc]
    cases hl : w.lastKey with
    | none => left; simp [hf, ChainOk]
    | some l =>
      cases hcmp : bytesCmp l (k.getD []) with
      | lt => left; simp [hf, ChainOk, hcmp]
      | eq => right; simp [hf, ChainOk, hcmp]
      | gt => right; simp [hf, ChainOk, hcmp]

/-- success of the writes: the source ended in Done, every item was written in order, no call hit a fault,
and the keys were strictly ascending -/
theorem feedItems_ok : ∀ (items : List Item) (t : PQF.Term) (w w' : Merge.WState),
    feedItems items t w = (none, w') →
      t = .done ∧ w'.out = w.out ++ recordsOf items ∧ w'.calls = w.calls + items.length ∧
      w'.failAt = w.failAt ∧
      (∀ n, w.calls ≤ n → n < w.calls + items.length → n ∉ w.failAt) ∧
      ChainOk w.lastKey (keysOf items) := by
  intro items
  induction items with
  | nil =>
    intro t w w' h
    cases t with
    | done =>
      simp only [feedItems, Prod.mk.injEq, true_and] at h
      subst h
      simp only [recordsOf, keysOf, ChainOk, List.map_nil, List.append_nil, List.length_nil, Nat.add_zero,
        true_and, and_true]
      intro n h1 h2; omega
    | err e => simp [feedItems] at h
  | cons it rest ih =>
    intro t w w' h
    obtain ⟨k, v⟩ := it
    simp only [feedItems] at h
    rcases writeNext_cases w k v with ⟨_, hw⟩ | ⟨hnf, hch, hw⟩ | ⟨_, _, hw⟩
    · rw [hw] at h; simp at h
    · rw [hw] at h
      simp only [] at h
      obtain ⟨ht, hout, hcalls, hfail, hrange, hchain⟩ := ih t _ w' h
      refine ⟨ht, ?_, ?_, ?_, ?_, ?_⟩
      · rw [hout]; simp [recordsOf]
      · rw [hcalls]; simp; omega
      · rw [hfail]
      · intro n h1 h2
        by_cases hn : n = w.calls
        · subst hn; exact hnf
        · exact hrange n (by simp; omega) (by simp at h2 ⊢; omega)
      · simp only [keysOf, List.map_cons] at hchain ⊢
        cases hl : w.lastKey with
        | none => simpa [ChainOk] using hchain
        | some l =>
          rw [hl] at hch
          simp only [ChainOk, and_true] at hch
          exact ⟨hch, hchain⟩
    · rw [hw] at h; simp at h

/-- conversely: Done, no fault in range and strictly ascending keys give success -/
theorem feedItems_succeeds : ∀ (items : List Item) (w : Merge.WState),
    (∀ n, w.calls ≤ n → n < w.calls + items.length → n ∉ w.failAt) →
    ChainOk w.lastKey (keysOf items) → (feedItems items .done w).1 = none := by
  intro items
  induction items with
  | nil => intro w _ _; simp [feedItems]
  | cons it rest ih =>
    intro w hrange hchain
    obtain ⟨k, v⟩ := it
    simp only [feedItems]
    have hnf : w.calls ∉ w.failAt := hrange w.calls (Nat.le_refl _) (by simp)
    have hch1 : ChainOk w.lastKey [k.getD []] ∧ ChainOk (some (k.getD [])) (keysOf rest) := by
      simp only [keysOf, List.map_cons] at hchain
      cases hl : w.lastKey with
      | none => rw [hl] at hchain; simpa [ChainOk, keysOf] using hchain
      | some l => rw [hl] at hchain; simpa [ChainOk, keysOf] using hchain
    rcases writeNext_cases w k v with ⟨hf, _⟩ | ⟨_, _, hw⟩ | ⟨_, hnc, _⟩
    · exact absurd hf hnf
    · rw [hw]
      simp only []
      apply ih
      · intro n h1 h2
        exact hrange n (by simp at h1; omega) (by simp at h1 h2 ⊢; omega)
      · exact hch1.2
    · exact absurd hch1.1 hnc

/-- without a reachable write fault and with a source that ends in Done the only possible error is the
writer's rejection of a non-ascending key -/
theorem feedItems_noFault : ∀ (items : List Item) (w : Merge.WState),
    (∀ n, w.calls ≤ n → n < w.calls + items.length → n ∉ w.failAt) →
    (feedItems items .done w).1 = none ∨ (feedItems items .done w).1 = some .rejected := by
  intro items
  induction items with
  | nil => intro w _; simp [feedItems]
  | cons it rest ih =>
    intro w hrange
    obtain ⟨k, v⟩ := it
    simp only [feedItems]
    have hnf : w.calls ∉ w.failAt := hrange w.calls (Nat.le_refl _) (by simp)
    rcases writeNext_cases w k v with ⟨hf, _⟩ | ⟨_, _, hw⟩ | ⟨_, _, hw⟩
    · exact absurd hf hnf
    · rw [hw]
      simp only []
      apply ih
      intro n h1 h2
      exact hrange n (by simp at h1; omega) (by simp at h1 h2 ⊢; omega)
    · rw [hw]; simp

end SST.Proofs.MergeLoops
