/-
Lemmas of the legacy recordio layer (file versions 1–3, and version 4 through the same dispatchers): per-record
round trips of the sequential readers, `SkipNext`, the random-access readers; whole-file round trips.
INTERFACE (used by SST/Proofs/SSTableV0.lean): `IsVersion`, `parse_fileHeaderL`, `encRecordL_pos`,
`readNextL_enc`, `readNextL_nil`, `skipNextL_enc`, `readAtL_enc`, `readAtL_getD_emptyNil`.
-/
import SST.Spec.RecordIOLegacy
import SST.Proofs.RecordIO
import SST.Proofs.RecordIODamage
namespace SST.Proofs.Legacy
open SST Generated SST.Legacy SST.Buf

/-- a recordio file version the readers accept -/
def IsVersion (v : Nat) : Prop := 1 ≤ v ∧ v ≤ 4

theorem isVersion_of_legacy {v : Nat} (h : IsLegacy v) : IsVersion v := by
  unfold IsLegacy at h; unfold IsVersion; omega

theorem isVersion_cases {v : Nat} (h : IsVersion v) : v = 1 ∨ v = 2 ∨ v = 3 ∨ v = 4 := by
  unfold IsVersion at h; omega

/-- `Open` accepts the header of a file of any version 1–4 -/
theorem parse_fileHeaderL (v ct : Nat) (rest : Bytes) (hv : IsVersion v) (hct : ct ≤ maxCompression) :
    parseFileHeader (fileHeader v ct ++ rest) = .ok (v, ct) := by
  unfold fileHeader
  exact file_header_accepted v ct rest (by unfold IsVersion at hv; exact ⟨hv.1, hv.2⟩) hct

theorem fitsRec_of_fitsL (c : Compression) (r : GoBytes) (hf : FitsL c r) : FitsRec c r := by
  cases r with
  | none => exact hf.2
  | some r => exact hf

/-! ## little-endian 64 bit -/

theorem le32Dec_le32_mod (n : Nat) : le32Dec (le32 n) = some (n % 4294967296) := by
  simp only [le32, le32Dec]
  rw [toNat_ofNat_lt _ (Nat.mod_lt _ (by decide)), toNat_ofNat_lt _ (Nat.mod_lt _ (by decide)),
    toNat_ofNat_lt _ (Nat.mod_lt _ (by decide)), toNat_ofNat_lt _ (Nat.mod_lt _ (by decide))]
  congr 1; omega

theorem le64_length (n : Nat) : (le64 n).length = 8 := rfl

theorem le64Dec_le64 (n : Nat) (h : n < 2 ^ 64) : le64Dec (le64 n) = some n := by
  have h1 : (le64 n).take 4 = le32 n := List.take_left' (le32_length n)
  have h2 : (le64 n).drop 4 = le32 (n / 4294967296) := List.drop_left' (le32_length n)
  unfold le64Dec
  rw [h1, h2, le32Dec_le32_mod, le32Dec_le32_mod]
  simp only []
  congr 1; omega

/-! ## version 1 -/

theorem encHeaderV1_length (u cl : Nat) : (encHeaderV1 u cl).length = 20 := rfl

theorem encHeaderV1_length' (u cl : Nat) : (encHeaderV1 u cl).length = headerSizeV1 := rfl

theorem readRecordHeaderV1_enc (u cl : Nat) (hu : u < 2 ^ 64) (hc : cl < 2 ^ 64) :
    readRecordHeaderV1 (encHeaderV1 u cl) = .ok (u, cl) := by
  have h1 : (encHeaderV1 u cl).take 4 = le32 magicNumber := by
    unfold encHeaderV1; rw [List.append_assoc, List.take_left' (le32_length _)]
  have h2 : ((encHeaderV1 u cl).drop 4).take 8 = le64 u := by
    unfold encHeaderV1
    rw [List.append_assoc, List.drop_left' (le32_length _), List.take_left' (le64_length _)]
  have h3 : ((encHeaderV1 u cl).drop 12).take 8 = le64 cl := by
    unfold encHeaderV1
    rw [List.drop_left' (by simp [le32_length, le64_length])]
    exact List.take_of_length_le (by simp [le64_length])
  unfold readRecordHeaderV1
  rw [if_neg (by rw [encHeaderV1_length]; decide), h1, h2, h3, le32Dec_le32 _ (by decide),
    le64Dec_le64 _ hu, le64Dec_le64 _ hc]
  simp

theorem specFull_ge (s : Bytes) (n : Nat) (h : n ≤ s.length) : specFull s n = (s.take n, none, s.drop n) := by
  simp [specFull, h]

theorem expectedV1_enc (c : Compression) (r : Bytes) :
    expectedV1 c r.length (clenOf c r) = (stored c r).length := by
  cases c <;> rfl

theorem encRecordV1_length (c : Compression) (r : Bytes) :
    (encRecordV1 c r).length = 20 + (stored c r).length := by
  simp [encRecordV1, encHeaderV1_length]

theorem readNextS1_enc (en : Bool) (c : Compression) (r rest : Bytes) (hl : LawfulC c)
    (h1 : r.length < 2 ^ 64) (h2 : clenOf c r < 2 ^ 64) :
    readNextS1 en c (encRecordV1 c r ++ rest) = .ok (v1Result en c r, (encRecordV1 c r).length) := by
  have hs : specFull (encRecordV1 c r ++ rest) headerSizeV1 =
      (encHeaderV1 r.length (clenOf c r), none, stored c r ++ rest) := by
    rw [specFull_ge _ _ (by simp [encRecordV1_length, headerSizeV1]; omega)]
    simp only [encRecordV1, List.append_assoc]
    rw [List.take_left' (encHeaderV1_length' _ _), List.drop_left' (encHeaderV1_length' _ _)]
  have hs2 : specFull (stored c r ++ rest) (stored c r).length = (stored c r, none, rest) := by
    rw [specFull_ge _ _ (by simp)]; simp
  unfold readNextS1
  rw [hs]; simp only []
  rw [readRecordHeaderV1_enc _ _ h1 h2]; simp only []
  rw [expectedV1_enc, hs2]; simp only []
  rw [decodePayload_stored c r hl]; simp only []
  rw [encRecordV1_length]; rfl

theorem skipNextS1_enc (c : Compression) (r rest : Bytes)
    (h1 : r.length < 2 ^ 64) (h2 : clenOf c r < 2 ^ 64) :
    skipNextS1 c (encRecordV1 c r ++ rest) = .ok (encRecordV1 c r).length := by
  have hs : specFull (encRecordV1 c r ++ rest) headerSizeV1 =
      (encHeaderV1 r.length (clenOf c r), none, stored c r ++ rest) := by
    rw [specFull_ge _ _ (by simp [encRecordV1_length, headerSizeV1]; omega)]
    simp only [encRecordV1, List.append_assoc]
    rw [List.take_left' (encHeaderV1_length' _ _), List.drop_left' (encHeaderV1_length' _ _)]
  unfold skipNextS1
  rw [hs]; simp only []
  rw [readRecordHeaderV1_enc _ _ h1 h2]; simp only []
  rw [expectedV1_enc, encRecordV1_length]; rfl

theorem readAtV1_enc (en : Bool) (c : Compression) (pre r rest : Bytes) (hl : LawfulC c)
    (h1 : r.length < 2 ^ 64) (h2 : clenOf c r < 2 ^ 64) :
    readAtV1 en c (pre ++ (encRecordV1 c r ++ rest)) pre.length = .ok (v1Result en c r) := by
  have ha : ¬ pre.length > (pre ++ (encRecordV1 c r ++ rest)).length := by simp
  have hb : ¬ (encRecordV1 c r ++ rest).length < headerSizeV1 := by
    simp [encRecordV1_length, headerSizeV1]; omega
  have ht : (encRecordV1 c r ++ rest).take headerSizeV1 = encHeaderV1 r.length (clenOf c r) := by
    simp only [encRecordV1, List.append_assoc]
    exact List.take_left' (encHeaderV1_length' _ _)
  have hd : (encRecordV1 c r ++ rest).drop headerSizeV1 = stored c r ++ rest := by
    simp only [encRecordV1, List.append_assoc]
    exact List.drop_left' (encHeaderV1_length' _ _)
  unfold readAtV1
  rw [if_neg ha]
  simp only [List.drop_left]
  rw [if_neg hb, ht, readRecordHeaderV1_enc _ _ h1 h2]
  simp only []
  rw [hd, expectedV1_enc, if_neg (by simp), List.take_left, decodePayload_stored c r hl]
  rfl

/-! ## versions 2 and 3: headers -/

theorem magic_lt : magicNumber < 2 ^ 64 := by decide

theorem magicEnc_length : (uvarintEnc magicNumber).length = 3 := by rw [uvarintEnc_magic]; rfl

theorem encHeaderV2_length (u cl : Nat) :
    (encHeaderV2 u cl).length = 3 + (uvarintEnc u).length + (uvarintEnc cl).length := by
  simp [encHeaderV2, magicBytes]; omega

theorem encHeaderV3_length (nf : Bool) (u cl : Nat) :
    (encHeaderV3 nf u cl).length = 4 + (uvarintEnc u).length + (uvarintEnc cl).length :=
  headerBody_length nf u cl

theorem encHeaderV2_le (u cl : Nat) (hu : u < 2 ^ 64) (hc : cl < 2 ^ 64) :
    (encHeaderV2 u cl).length ≤ headerWinV3 := by
  have := uvarintEnc_len64 u hu
  have := uvarintEnc_len64 cl hc
  rw [encHeaderV2_length, headerWinV3]; omega

theorem encHeaderV3_le (nf : Bool) (u cl : Nat) (hu : u < 2 ^ 64) (hc : cl < 2 ^ 64) :
    (encHeaderV3 nf u cl).length ≤ headerWinV3 := by
  have := uvarintEnc_len64 u hu
  have := uvarintEnc_len64 cl hc
  rw [encHeaderV3_length, headerWinV3]; omega

theorem readHeaderS2_enc (u cl : Nat) (t : Bytes) (hu : u < 2 ^ 64) (hc : cl < 2 ^ 64) :
    readHeaderS2 (encHeaderV2 u cl ++ t) =
      .ok { ulen := u, clen := cl, isNil := false, hlen := (encHeaderV2 u cl).length } := by
  have hw : encHeaderV2 u cl ++ t = uvarintEnc magicNumber ++ (uvarintEnc u ++ (uvarintEnc cl ++ t)) := by
    rw [encHeaderV2, uvarintEnc_magic]; simp
  rw [hw]
  unfold readHeaderS2
  simp only [uvarintDec_enc _ _ magic_lt, uvarintDec_enc _ _ hu, uvarintDec_enc _ _ hc, List.drop_left,
    ne_eq, not_true_eq_false, if_false]
  rw [encHeaderV2_length, magicEnc_length]

theorem readHeaderS3_enc (nf : Bool) (u cl : Nat) (t : Bytes) (hu : u < 2 ^ 64) (hc : cl < 2 ^ 64) :
    readHeaderS3 (encHeaderV3 nf u cl ++ t) =
      .ok { ulen := u, clen := cl, isNil := nf, hlen := (encHeaderV3 nf u cl).length } := by
  have hw : encHeaderV3 nf u cl ++ t =
      uvarintEnc magicNumber ++ ((if nf then 1 else 0) :: (uvarintEnc u ++ (uvarintEnc cl ++ t))) := by
    rw [encHeaderV3, headerBody, uvarintEnc_magic]; simp
  rw [hw]
  unfold readHeaderS3
  simp only [uvarintDec_enc _ _ magic_lt, uvarintDec_enc _ _ hu, uvarintDec_enc _ _ hc, List.drop_left,
    ne_eq, not_true_eq_false, if_false]
  rw [encHeaderV3_length, magicEnc_length]
  cases nf <;> simp <;> omega

/-- the 31-byte window of the mmap readers contains the whole header -/
theorem take_win (h x : Bytes) (hh : h.length ≤ headerWinV3) :
    (h ++ x).take headerWinV3 = h ++ x.take (headerWinV3 - h.length) := by
  simp [List.take_append, List.take_of_length_le hh]

/-! ## versions 2 and 3: records -/

theorem encRecordV2_length (c : Compression) (r : Bytes) :
    (encRecordV2 c r).length = (encHeaderV2 r.length (clenOf c r)).length + (stored c r).length := by
  simp [encRecordV2]

theorem payloadS_enc (c : Compression) (r rest : Bytes) (hlen : Nat) (hl : LawfulC c) :
    payloadS c (stored c r ++ rest) hlen (stored c r).length = .ok (some r, hlen + (stored c r).length) := by
  have hs2 : specFull (stored c r ++ rest) (stored c r).length = (stored c r, none, rest) := by
    rw [specFull_ge _ _ (by simp)]; simp
  unfold payloadS
  rw [hs2]; simp only []
  rw [decodePayload_stored c r hl]; rfl

theorem readNextS2_enc (c : Compression) (r rest : Bytes) (hl : LawfulC c)
    (h1 : r.length < 2 ^ 64) (h2 : clenOf c r < 2 ^ 64) :
    readNextS2 c (encRecordV2 c r ++ rest) = .ok (some r, (encRecordV2 c r).length) := by
  unfold readNextS2
  rw [encRecordV2_length]
  simp only [encRecordV2, List.append_assoc]
  rw [readHeaderS2_enc _ _ _ h1 h2]
  simp only [readBodyS, Bool.false_eq_true, if_false, List.drop_left, expectedLen_enc]
  exact payloadS_enc c r rest _ hl

theorem skipNextS2_enc (c : Compression) (r rest : Bytes)
    (h1 : r.length < 2 ^ 64) (h2 : clenOf c r < 2 ^ 64) :
    skipNextS2 c (encRecordV2 c r ++ rest) = .ok (encRecordV2 c r).length := by
  unfold skipNextS2
  rw [encRecordV2_length]
  simp only [encRecordV2, List.append_assoc]
  rw [readHeaderS2_enc _ _ _ h1 h2]
  simp only [Except.map, expectedLen_enc]

theorem readNextS3_enc (c : Compression) (r : GoBytes) (rest : Bytes) (hl : LawfulC c) (hf : FitsRec c r) :
    readNextS3 c (encRecordV3 c r ++ rest) = .ok (r, (encRecordV3 c r).length) := by
  unfold readNextS3
  cases r with
  | none =>
    simp only [encRecordV3]
    rw [readHeaderS3_enc true 0 _ rest (by decide) hf]
    simp [readBodyS]
  | some r =>
    obtain ⟨h1, h2⟩ := hf
    simp only [encRecordV3, List.append_assoc, List.length_append]
    rw [readHeaderS3_enc false _ _ _ h1 h2]
    simp only [readBodyS, Bool.false_eq_true, if_false, List.drop_left, expectedLen_enc]
    exact payloadS_enc c r rest _ hl

theorem skipNextS3_enc (c : Compression) (r : GoBytes) (rest : Bytes) (hf : FitsRec c r) :
    skipNextS3 c (encRecordV3 c r ++ rest) = .ok (encRecordV3 c r).length := by
  unfold skipNextS3
  cases r with
  | none =>
    simp only [encRecordV3]
    rw [readHeaderS3_enc true 0 _ rest (by decide) hf]
    simp [Except.map, skipLen]
  | some r =>
    obtain ⟨h1, h2⟩ := hf
    simp only [encRecordV3, List.append_assoc, List.length_append]
    rw [readHeaderS3_enc false _ _ _ h1 h2]
    simp [Except.map, skipLen, expectedLen_enc]

theorem readAtBody_enc (c : Compression) (hdr r rest : Bytes) (u cl : Nat) (nf : Bool) (hl : LawfulC c)
    (hu : u = r.length) (hc : cl = clenOf c r) :
    readAtBody c (hdr ++ (stored c r ++ rest)) { ulen := u, clen := cl, isNil := nf, hlen := hdr.length } =
      .ok (some r) := by
  subst hu hc
  unfold readAtBody
  simp only [expectedLen_enc, List.drop_left]
  rw [if_neg (by simp), List.take_left, decodePayload_stored c r hl]; rfl

theorem readAtV2_enc (c : Compression) (pre r rest : Bytes) (hl : LawfulC c)
    (h1 : r.length < 2 ^ 64) (h2 : clenOf c r < 2 ^ 64) :
    readAtV2 c (pre ++ (encRecordV2 c r ++ rest)) pre.length = .ok (some r) := by
  have hpos : 0 < (encRecordV2 c r).length := by
    rw [encRecordV2_length, encHeaderV2_length]; omega
  have ha : ¬ pre.length > (pre ++ (encRecordV2 c r ++ rest)).length := by simp
  have hb : ¬ pre.length = (pre ++ (encRecordV2 c r ++ rest)).length := by
    simp only [List.length_append]; omega
  unfold readAtV2
  rw [if_neg ha, if_neg hb]
  simp only [List.drop_left, Legacy.readRecordHeaderV2, encRecordV2, List.append_assoc]
  rw [take_win _ _ (encHeaderV2_le _ _ h1 h2), readHeaderS2_enc _ _ _ h1 h2]
  simp only []
  exact readAtBody_enc c _ r rest _ _ _ hl rfl rfl

theorem encRecordV3_pos (c : Compression) (r : GoBytes) : 0 < (encRecordV3 c r).length := by
  cases r with
  | none => simp only [encRecordV3]; rw [encHeaderV3_length]; omega
  | some r => simp only [encRecordV3, List.length_append]; rw [encHeaderV3_length]; omega

theorem readAtV3_enc (c : Compression) (pre : Bytes) (r : GoBytes) (rest : Bytes) (hl : LawfulC c)
    (hf : FitsRec c r) :
    readAtV3 c (pre ++ (encRecordV3 c r ++ rest)) pre.length = .ok r := by
  have hpos := encRecordV3_pos c r
  have ha : ¬ pre.length > (pre ++ (encRecordV3 c r ++ rest)).length := by simp
  have hb : ¬ pre.length = (pre ++ (encRecordV3 c r ++ rest)).length := by
    simp only [List.length_append]; omega
  unfold readAtV3
  rw [if_neg ha, if_neg hb]
  simp only [List.drop_left, Legacy.readRecordHeaderV3]
  cases r with
  | none =>
    simp only [encRecordV3]
    rw [take_win _ _ (encHeaderV3_le _ _ _ (by decide) hf), readHeaderS3_enc true 0 _ _ (by decide) hf]
    simp
  | some r =>
    obtain ⟨h1, h2⟩ := hf
    simp only [encRecordV3, List.append_assoc]
    rw [take_win _ _ (encHeaderV3_le _ _ _ h1 h2), readHeaderS3_enc false _ _ _ h1 h2]
    simp only [Bool.false_eq_true, if_false]
    exact readAtBody_enc c _ r rest _ _ _ hl rfl rfl

/-! ## the dispatchers -/

theorem encRecordL_one (c : Compression) (r : GoBytes) : encRecordL 1 c r = encRecordV1 c (r.getD []) := by
  simp [encRecordL]
theorem encRecordL_two (c : Compression) (r : GoBytes) : encRecordL 2 c r = encRecordV2 c (r.getD []) := by
  simp [encRecordL]
theorem encRecordL_three (c : Compression) (r : GoBytes) : encRecordL 3 c r = encRecordV3 c r := by
  simp [encRecordL]
theorem encRecordL_four (c : Compression) (r : GoBytes) : encRecordL 4 c r = encRecord c r := by
  simp [encRecordL]

theorem encRecordL_pos (v : Nat) (c : Compression) (r : GoBytes) : 0 < (encRecordL v c r).length := by
  unfold encRecordL
  split
  · rw [encRecordV1_length]; omega
  split
  · rw [encRecordV2_length, encHeaderV2_length]; omega
  split
  · exact encRecordV3_pos c r
  · exact encRecord_pos c r

theorem backL_one (en : Bool) (c : Compression) (r : GoBytes) : backL en 1 c r = v1Result en c (r.getD []) := by
  simp [backL]
theorem backL_two (en : Bool) (c : Compression) (r : GoBytes) : backL en 2 c r = some (r.getD []) := by
  simp [backL]
theorem backL_three (en : Bool) (c : Compression) (r : GoBytes) : backL en 3 c r = r := by
  simp [backL]
theorem backL_four (en : Bool) (c : Compression) (r : GoBytes) : backL en 4 c r = r := by
  simp [backL]

/-- sequential reader, one record: exactly the record (as the version can express it) and its length -/
theorem readNextL_enc (en : Bool) (v : Nat) (hv : IsVersion v) (c : Compression) (r : GoBytes) (rest : Bytes)
    (hl : LawfulC c) (hf : FitsL c r) :
    readNextL en v c (encRecordL v c r ++ rest) = .ok (backL en v c r, (encRecordL v c r).length) := by
  rcases isVersion_cases hv with rfl | rfl | rfl | rfl
  · rw [encRecordL_one, backL_one]
    simpa [readNextL] using readNextS1_enc en c (r.getD []) rest hl hf.1 hf.2
  · rw [encRecordL_two, backL_two]
    simpa [readNextL, readNextSV] using readNextS2_enc c (r.getD []) rest hl hf.1 hf.2
  · rw [encRecordL_three, backL_three]
    simpa [readNextL, readNextSV] using readNextS3_enc c r rest hl (fitsRec_of_fitsL c r hf)
  · rw [encRecordL_four, backL_four]
    simpa [readNextL, readNextSV] using readNextS_enc c r rest hl (fitsRec_of_fitsL c r hf)

/-- at the end of the stream every version reports end-of-file -/
theorem readNextL_nil (en : Bool) (v : Nat) (hv : IsVersion v) (c : Compression) :
    readNextL en v c [] = .error .eof := by
  rcases isVersion_cases hv with rfl | rfl | rfl | rfl
  · simp [readNextL, readNextS1, specFull, headerSizeV1]
  · simp [readNextL, readNextSV, readNextS2, readHeaderS2, readBodyS, uvarintDec, uvarintDecAux]
  · simp [readNextL, readNextSV, readNextS3, readHeaderS3, readBodyS, uvarintDec, uvarintDecAux]
  · have := zero_tail_is_eof c 0
    simpa [readNextL, readNextSV] using this

theorem skipNextL_enc (v : Nat) (hv : IsVersion v) (c : Compression) (r : GoBytes) (rest : Bytes)
    (hf : FitsL c r) :
    skipNextL v c (encRecordL v c r ++ rest) = .ok (encRecordL v c r).length := by
  rcases isVersion_cases hv with rfl | rfl | rfl | rfl
  · rw [encRecordL_one]
    simpa [skipNextL] using skipNextS1_enc c (r.getD []) rest hf.1 hf.2
  · rw [encRecordL_two]
    simpa [skipNextL, skipNextSV] using skipNextS2_enc c (r.getD []) rest hf.1 hf.2
  · rw [encRecordL_three]
    simpa [skipNextL, skipNextSV] using skipNextS3_enc c r rest (fitsRec_of_fitsL c r hf)
  · rw [encRecordL_four]
    simpa [skipNextL, skipNextSV] using skipNextS_enc c r rest (fitsRec_of_fitsL c r hf)

/-- random access, one record -/
theorem readAtL_enc (en : Bool) (v : Nat) (hv : IsVersion v) (c : Compression) (pre : Bytes) (r : GoBytes)
    (rest : Bytes) (hl : LawfulC c) (hf : FitsL c r) :
    readAtL en v c (pre ++ (encRecordL v c r ++ rest)) pre.length = .ok (backL en v c r) := by
  rcases isVersion_cases hv with rfl | rfl | rfl | rfl
  · rw [encRecordL_one, backL_one]
    simpa [readAtL] using readAtV1_enc en c pre (r.getD []) rest hl hf.1 hf.2
  · rw [encRecordL_two, backL_two]
    simpa [readAtL] using readAtV2_enc c pre (r.getD []) rest hl hf.1 hf.2
  · rw [encRecordL_three, backL_three]
    simpa [readAtL] using readAtV3_enc c pre r rest hl (fitsRec_of_fitsL c r hf)
  · rw [encRecordL_four, backL_four]
    simpa [readAtL] using readAt_enc c pre r rest hl (fitsRec_of_fitsL c r hf)

/-! ## the `emptyNil` parameter -/

theorem v1Result_getD (en : Bool) (c : Compression) (r : Bytes) : (v1Result en c r).getD [] = r := by
  cases c with
  | none => rfl
  | some cc =>
    cases r with
    | nil => cases en <;> rfl
    | cons a t => cases en <;> rfl

theorem readAtV1_getD (en : Bool) (c : Compression) (file : Bytes) (off : Nat) :
    (readAtV1 en c file off).map (·.getD []) =
      (readAtV1 false c file off).map (·.getD []) := by
  unfold readAtV1
  by_cases h1 : off > file.length
  · rw [if_pos h1, if_pos h1]
  rw [if_neg h1, if_neg h1]
  simp only []
  by_cases h2 : (file.drop off).length < headerSizeV1
  · rw [if_pos h2, if_pos h2]
  rw [if_neg h2, if_neg h2]
  cases readRecordHeaderV1 ((file.drop off).take headerSizeV1) with
  | error e => rfl
  | ok p =>
    obtain ⟨u, cl⟩ := p
    simp only []
    split
    · rfl
    · cases decodePayload c (List.take (expectedV1 c u cl) (List.drop headerSizeV1 (List.drop off file))) with
      | error e => rfl
      | ok x => simp [Except.map, v1Result_getD]

/-- the `emptyNil` parameter only decides between nil and empty -/
theorem readAtL_getD_emptyNil (en : Bool) (v : Nat) (c : Compression) (file : Bytes) (off : Nat) :
    (readAtL en v c file off).map (·.getD []) = (readAtL false v c file off).map (·.getD []) := by
  unfold readAtL
  split
  · exact readAtV1_getD en c file off
  · rfl

theorem readNextS1_getD (en : Bool) (c : Compression) (s : Bytes) :
    (readNextS1 en c s).map (fun p => (p.1.getD [], p.2)) =
      (readNextS1 false c s).map (fun p => (p.1.getD [], p.2)) := by
  unfold readNextS1
  split
  · rfl
  · rfl
  · split
    · rfl
    · split
      · rfl
      · rfl
      · split
        · rfl
        · simp [Except.map, v1Result_getD]

theorem readNextL_getD_emptyNil (en : Bool) (v : Nat) (c : Compression) (s : Bytes) :
    (readNextL en v c s).map (fun p => (p.1.getD [], p.2)) =
      (readNextL false v c s).map (fun p => (p.1.getD [], p.2)) := by
  unfold readNextL
  split
  · exact readNextS1_getD en c s
  · rfl

end SST.Proofs.Legacy
