/-
Proofs for SST/Model/TableDirBytes.lean, part 2: how `reconstructSSTables` classifies the images of a writer run,
of a table whose files are being removed, and what a loaded table serves.
-/
import SST.Proofs.TableDirBytes
namespace SST.Proofs.TblDir
open SST SST.TblDir Generated SST.Proofs SST.Proofs.Sst

/-! ## `classifyX` from the outcome of the load -/

theorem hasEmpty_iff (img : DirImage) : hasEmptyMetadata img = true ↔ img.metaf = some [] := by
  unfold hasEmptyMetadata; simp

theorem classifyX_emptyMeta (P : Params) (img : DirImage) (h : img.metaf = some []) : classifyX P img = .part false := by
  unfold classifyX; rw [if_pos ((hasEmpty_iff img).mpr h)]

theorem classifyX_of_load (P : Params) (img : DirImage) (s : Served) (hne : img.metaf ≠ some [])
    (h : loadDir P img = .ok s) : classifyX P img = .complete s := by
  unfold classifyX
  rw [if_neg (fun hh => hne ((hasEmpty_iff img).mp hh)), h]

theorem classifyX_of_fail (P : Params) (img : DirImage) (e : Err) (hne : img.metaf ≠ some [])
    (h : loadDir P img = .error e) :
    classifyX P img = if isUnfinishedTable img then .part false else .part true := by
  unfold classifyX
  rw [if_neg (fun hh => hne ((hasEmpty_iff img).mp hh)), h]

/-- no metadata file: without index.rio or without data.rio nothing loads, the directory is discarded -/
theorem classifyX_nometa_missing (P : Params) (img : DirImage) (hm : img.metaf = none)
    (h : img.index = none ∨ img.data = none) : classifyX P img = .part false := by
  have hfail : ∃ e, loadDir P img = .error e := by
    unfold loadDir readMeta
    rw [hm]
    simp only [if_true]
    cases hi : img.index with
    | none => exact ⟨_, rfl⟩
    | some i =>
      have hd : img.data = none := by rcases h with h | h; · rw [hi] at h; cases h
                                      · exact h
      simp only
      cases loadIndex P.comps .slice i with
      | error e => exact ⟨_, rfl⟩
      | ok idx =>
        simp only
        cases readFilter P img.bloom with
        | error e => exact ⟨_, rfl⟩
        | ok bf => simp only [hd]; exact ⟨_, rfl⟩
  obtain ⟨e, he⟩ := hfail
  rw [classifyX_of_fail P img e (by rw [hm]; simp) he]
  simp [isUnfinishedTable, hm]

/-- unfinished metadata and no index.rio: discarded, whatever else is there -/
theorem classifyX_noindex_unfinished (P : Params) (img : DirImage) (hi : img.index = none)
    (hu : isUnfinishedTable img = true) : classifyX P img = .part false := by
  cases hm : img.metaf with
  | none => exact classifyX_nometa_missing P img hm (.inl hi)
  | some b =>
    have : b = [] := by simpa [isUnfinishedTable, hm] using hu
    exact classifyX_emptyMeta P img (by rw [hm, this])

/-- `classifyX = part false` happens for unfinished metadata only -/
theorem unfinished_of_partFalse (P : Params) (img : DirImage) (h : classifyX P img = .part false) :
    isUnfinishedTable img = true := by
  unfold classifyX at h
  split at h
  · rename_i he
    have := (hasEmpty_iff img).mp he
    simp [isUnfinishedTable, this]
  · split at h
    · cases h
    · split at h
      · assumption
      · cases h

/-- complete metadata of a version ≥ 1 table, but index.rio or data.rio is gone: `Open` fails -/
theorem classifyX_meta_missing (P : Params) (img : DirImage) (m : Bytes) (md : Meta) (hm : img.metaf = some m)
    (hdec : decMeta m = .ok md) (hv : md.version ≠ 0) (hne : m ≠ [])
    (h : img.index = none ∨ img.data = none) : classifyX P img = .part true := by
  have hfail : loadDir P img = .error .other := by
    unfold loadDir readMeta
    rw [hm]
    simp only [hdec, if_neg hv]
    rcases h with h | h
    · rw [h]
    · rw [h]; cases img.index <;> rfl
  rw [classifyX_of_fail P img _ (by rw [hm]; simpa using hne) hfail]
  have : isUnfinishedTable img = false := by
    simp only [isUnfinishedTable, hm]
    cases m with
    | nil => exact absurd rfl hne
    | cons _ _ => rfl
  rw [this]; rfl

theorem loadDir_v1_of (P : Params) (img : DirImage) (i d m : Bytes) (md : Meta) (bf : Option (Bytes → Bool))
    (r : Reader) (idx : Index) (hi : img.index = some i) (hd : img.data = some d) (hm : img.metaf = some m)
    (h1 : decMeta m = .ok md) (hv : md.version ≠ 0) (hb : readFilter P img.bloom = .ok bf)
    (h2 : openTable P.comps .slice {} { index := i, data := d, metaf := m } bf = .ok (r, idx)) :
    loadDir P img = .ok (servedV1 r idx) := by
  unfold loadDir readMeta
  rw [hm]
  simp only [h1, if_neg hv, hi, hd, hb, Option.getD_some, h2]

theorem loadDir_v0_of (P : Params) (img : DirImage) (i d : Bytes) (idx : Index) (bf : Option (Bytes → Bool))
    (dc : Compression) (hi : img.index = some i) (hd : img.data = some d) (hm : img.metaf = none)
    (h2 : loadIndex P.comps .slice i = .ok idx) (hb : readFilter P img.bloom = .ok bf)
    (h3 : openMmap P.comps d = .ok dc) : loadDir P img = .ok (servedV0 dc d idx) := by
  unfold loadDir readMeta
  rw [hm]
  simp only [if_true, hi, h2, hb, hd, h3]

/-! ## the images of `Open` -/

theorem loadEntries_header (comps : Nat → Compression) (ct : Nat) (hct : ct ≤ maxCompression) :
    loadEntries comps (fileHeader currentVersion ct) = .ok [] := by
  have h := openSeq_file comps ct [] hct
  rw [List.append_nil] at h
  rw [loadEntries_of_open comps _ _ _ h]
  simp [loadEntriesS, readNextS_nil]

theorem openMmap_header (comps : Nat → Compression) (ct : Nat) (hct : ct ≤ maxCompression) :
    openMmap comps (fileHeader currentVersion ct) = .ok (comps ct) := by
  have h := openMmap_file comps ct [] hct
  rw [List.append_nil] at h
  exact h

theorem openMmap_nil (comps : Nat → Compression) : openMmap comps [] = .error .eof := by
  simp [openMmap, fileHeaderSize]

/-- index.rio and data.rio hold their headers, there is no metadata file: an EMPTY legacy table -/
theorem classifyX_headers (P : Params) (cfg : SstCfg) (hd : cfg.dct ≤ maxCompression) (hi : cfg.ict ≤ maxCompression)
    (img : DirImage) (h1 : img.index = some (fileHeader currentVersion cfg.ict))
    (h2 : img.data = some (fileHeader currentVersion cfg.dct)) (h3 : img.metaf = none) (h4 : img.bloom = none) :
    classifyX P img = .complete [] := by
  have hl := loadDir_v0_of P img _ _ (.slice []) none (P.comps cfg.dct) h1 h2 h3
    (loadIndex_slice_of _ _ _ (loadEntries_header P.comps cfg.ict hi)) (by rw [h4]; rfl)
    (openMmap_header P.comps cfg.dct hd)
  rw [classifyX_of_load P img _ (by rw [h3]; simp) hl]
  rfl

/-- data.rio exists but is still empty: nothing loads -/
theorem classifyX_data_empty (P : Params) (img : DirImage) (h2 : img.data = some []) (h3 : img.metaf = none) :
    classifyX P img = .part false := by
  have hfail : ∃ e, loadDir P img = .error e := by
    unfold loadDir readMeta
    rw [h3]
    simp only [if_true]
    cases img.index with
    | none => exact ⟨_, rfl⟩
    | some i =>
      simp only
      cases loadIndex P.comps .slice i with
      | error e => exact ⟨_, rfl⟩
      | ok idx =>
        simp only
        cases readFilter P img.bloom with
        | error e => exact ⟨_, rfl⟩
        | ok bf => simp only [h2, openMmap_nil]; exact ⟨_, rfl⟩
  obtain ⟨e, he⟩ := hfail
  rw [classifyX_of_fail P img e (by rw [h3]; simp) he]
  simp [isUnfinishedTable, h3]

/-! ## what the complete table serves -/

theorem find?_asc {α : Type} (key : α → Bytes) :
    ∀ (l : List α), l.Pairwise (fun a b => bytesCmp (key a) (key b) = .lt) → ∀ x ∈ l,
      l.find? (fun y => bytesCmp (key x) (key y) == .eq) = some x := by
  intro l
  induction l with
  | nil => intro _ x hx; cases hx
  | cons a r ih =>
    intro hp x hx
    rw [List.pairwise_cons] at hp
    rcases List.mem_cons.mp hx with rfl | hx
    · simp [List.find?, bytesCmp_refl]
    · have hlt := hp.1 x hx
      have : (bytesCmp (key x) (key a) == .eq) = false := by
        rw [bytesCmp_swap, hlt]; rfl
      rw [List.find?_cons, this]
      exact ih hp.2 x hx

theorem trips_pairwise (cfg : SstCfg) (kvs : List KV) (hs : StrictAsc bytesCmp kvs) :
    (trips cfg kvs).Pairwise (fun a b => bytesCmp a.1 b.1 = .lt) := by
  unfold StrictAsc at hs
  rw [← trips_kv cfg kvs, List.pairwise_map] at hs
  exact hs

theorem keysOf_slice (es : List IEntry) : keysOf (.slice es) = es.map fun e => e.1.getD [] := by
  simp [keysOf, Index.all, sliceAll, sliceIter]

theorem keysOf_table (cfg : SstCfg) (kvs : List KV) :
    keysOf (.slice (loadedEntries cfg kvs)) = (trips cfg kvs).map (·.1) := by
  rw [keysOf_slice, loadedEntries, List.map_map]
  apply List.map_congr_left
  intro t _
  simp [Trip.ie, normKey_getD]

theorem sliceGet_trip (cfg : SstCfg) (kvs : List KV) (hs : StrictAsc bytesCmp kvs) (t : Trip)
    (ht : t ∈ trips cfg kvs) : sliceGet (loadedEntries cfg kvs) t.1 = .ok t.2.2 := by
  rw [(slice_refines _ (loadedEntries_strictAsc cfg kvs hs)).1, loadedEntries, specGet_E,
    find?_asc (fun t : Trip => t.1) _ (trips_pairwise cfg kvs hs) t ht]
  rfl

/-- `Get` of every key of the loaded table of `kvs`: the written value, nil and empty kept apart -/
theorem servedV1_table (cfg : SstCfg) (kvs : List KV) (hl : LawfulC cfg.dc) (hf : FitsKV cfg kvs)
    (hs : StrictAsc bytesCmp kvs) (o : ReadOpts) (bf : Option (Bytes → Bool)) :
    servedV1 (readerOf cfg kvs o bf) (.slice (loadedEntries cfg kvs)) = kvs.map fun p => (p.1, .val p.2) := by
  unfold servedV1
  rw [keysOf_table, List.map_map]
  conv => rhs; rw [← trips_kv cfg kvs, List.map_map]
  apply List.map_congr_left
  intro t ht
  simp only [Function.comp, Reader.get, Index.get, Option.map_some, sliceGet_trip cfg kvs hs t ht, Reader.getWith]
  rw [show (readerOf cfg kvs o bf).dc = cfg.dc from rfl, show (readerOf cfg kvs o bf).data = dataFileOf cfg kvs from rfl,
    getValue_table cfg kvs hl hf _ t ht]
  rfl

/-- `Get` of every key when the same files are read as a legacy table: every value parsed as a `DataEntry` -/
theorem servedV0_table (cfg : SstCfg) (kvs : List KV) (hl : LawfulC cfg.dc) (hf : FitsKV cfg kvs)
    (hs : StrictAsc bytesCmp kvs) :
    servedV0 cfg.dc (dataFileOf cfg kvs) (.slice (loadedEntries cfg kvs)) = junkOf kvs := by
  unfold servedV0 junkOf
  rw [keysOf_table, List.map_map]
  conv => rhs; rw [← trips_kv cfg kvs, List.map_map]
  apply List.map_congr_left
  intro t ht
  simp only [Function.comp, Index.get, sliceGet_trip cfg kvs hs t ht, Trip.kv]
  have hlen : (fileHeader currentVersion cfg.dct).length = fileHeaderSize := fileHeader_length _ _
  have ht' := ht
  unfold trips at ht'
  rw [← hlen] at ht'
  obtain ⟨h1, h2, _⟩ := readAt_trip cfg.dc hl kvs _ (fun p hp => (hf.1 p hp).1) t ht'
  have hd : dataFileOf cfg kvs = fileHeader currentVersion cfg.dct ++ encAll cfg.dc (kvs.map (·.2)) := rfl
  rw [← hd] at h1 h2
  unfold v0Value junkCell
  rw [if_neg (by omega), h1]
  simp only
  rcases decDataEntry (t.2.1.getD []) with ⟨v, _ | e⟩ <;> rfl

/-! ## the files of the table of `kvs`, some of them removed -/

/-- hypotheses of the read-side theorems: byte-wise comparator, lawful compressors matching the codes of the file
headers, sizes within the 64-bit fields, strictly ascending keys -/
structure Hyp (P : Params) (cfg : SstCfg) (kvs : List KV) : Prop where
  cmp : cfg.cmp = bytesCmp
  comps : CompsOk P.comps cfg
  fits : FitsKV cfg kvs
  asc : StrictAsc bytesCmp kvs

theorem Hyp.table {P : Params} {cfg : SstCfg} {kvs : List KV} (h : Hyp P cfg kvs) :
    writeTable cfg kvs = tableOf cfg kvs :=
  writeTable_eq cfg kvs (by rw [h.cmp]; exact h.asc)

theorem decMeta_nil : decMeta [] = .ok {} := by
  simp [decMeta, pbDecode, pbDecodeAux, metaOfFields, pbGetVarint, pbGetBytes]

theorem metaf_ne_nil {P : Params} {cfg : SstCfg} {kvs : List KV} (h : Hyp P cfg kvs) :
    (tableOf cfg kvs).metaf ≠ [] := by
  intro hnil
  have h1 := decMeta_metaOf cfg kvs h.fits
  have h2 : (tableOf cfg kvs).metaf = encMeta (metaOf cfg kvs) := rfl
  rw [← h2, hnil, decMeta_nil] at h1
  have := congrArg (fun r => match r with | Except.ok (m : Meta) => m.version | .error _ => 7) h1
  simp [Meta.norm, metaOf, sstVersion] at this

/-- all of index.rio, data.rio, meta.pb.bin: the table loads and serves exactly `kvs` (with or without the filter) -/
theorem classifyX_full {P : Params} {cfg : SstCfg} {kvs : List KV} (h : Hyp P cfg kvs) (img : DirImage)
    (bf : Option (Bytes → Bool)) (hi : img.index = some (tableOf cfg kvs).index)
    (hd : img.data = some (tableOf cfg kvs).data) (hm : img.metaf = some (tableOf cfg kvs).metaf)
    (hb : readFilter P img.bloom = .ok bf) :
    classifyX P img = .complete (kvs.map fun p => (p.1, .val p.2)) := by
  obtain ⟨idx, hload, href⟩ := slice_table P.comps cfg kvs h.comps h.fits h.asc
  have hidx : idx = .slice (loadedEntries cfg kvs) := by
    have := loadIndex_slice_of P.comps _ _ (loadEntries_table P.comps cfg kvs h.comps h.fits)
    rw [hload] at this
    exact (Except.ok.inj this)
  have hopen := openTable_ok P.comps cfg kvs h.comps h.fits .slice {} bf idx hload href.all
  have hv : (metaOf cfg kvs).norm.version ≠ 0 := by simp [Meta.norm, metaOf, sstVersion]
  have hl := loadDir_v1_of P img _ _ _ _ bf _ _ hi hd hm (decMeta_metaOf cfg kvs h.fits) hv hb hopen
  rw [classifyX_of_load P img _ (by rw [hm]; simpa using metaf_ne_nil h) hl, hidx,
    servedV1_table cfg kvs h.comps.2.2.1 h.fits h.asc]

/-- index.rio and data.rio but NO metadata file: the directory loads as a legacy table showing `junkOf kvs` -/
theorem classifyX_legacy {P : Params} {cfg : SstCfg} {kvs : List KV} (h : Hyp P cfg kvs) (img : DirImage)
    (bf : Option (Bytes → Bool)) (hi : img.index = some (tableOf cfg kvs).index)
    (hd : img.data = some (tableOf cfg kvs).data) (hm : img.metaf = none)
    (hb : readFilter P img.bloom = .ok bf) :
    classifyX P img = .complete (junkOf kvs) := by
  obtain ⟨hcd, _, hld, _, hdct, _⟩ := h.comps
  have hidx := loadIndex_slice_of P.comps _ _ (loadEntries_table P.comps cfg kvs h.comps h.fits)
  have hmm : openMmap P.comps (tableOf cfg kvs).data = .ok cfg.dc := by
    have := openMmap_file P.comps cfg.dct (encAll cfg.dc (kvs.map (·.2))) hdct
    rw [hcd] at this; exact this
  have hl := loadDir_v0_of P img _ _ _ bf _ hi hd hm hidx hb hmm
  rw [classifyX_of_load P img _ (by rw [hm]; simp) hl]
  have : (tableOf cfg kvs).data = dataFileOf cfg kvs := rfl
  rw [this, servedV0_table cfg kvs hld h.fits h.asc]

/-- complete metadata but index.rio or data.rio is gone: `Open` fails on the directory -/
theorem classifyX_halfRemoved {P : Params} {cfg : SstCfg} {kvs : List KV} (h : Hyp P cfg kvs) (img : DirImage)
    (hm : img.metaf = some (tableOf cfg kvs).metaf) (hmiss : img.index = none ∨ img.data = none) :
    classifyX P img = .part true :=
  classifyX_meta_missing P img _ _ hm (decMeta_metaOf cfg kvs h.fits)
    (by simp [Meta.norm, metaOf, sstVersion]) (metaf_ne_nil h) hmiss

end SST.Proofs.TblDir
