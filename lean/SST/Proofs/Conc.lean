/-
Proofs for L7 (C05): background micro-steps never change what the database stands for, the two-phase read
returns the atomic answer, and every history of a valid schedule has a sequential witness.
-/
import SST.Spec.Conc
import SST.Proofs.DBInv
namespace SST.Proofs.Conc
open SST SST.DBM SST.Conc SST.Proofs.DB

/-! ## the compactor's reflection of a (possibly stale) selection -/

theorem reflectOn_fresh (s : State) (sizes : List Nat) :
    reflectOn s s.tables.length sizes = (compactStep s sizes).1 := by
  obtain ⟨T, e, _, _⟩ := compactStep_tables s sizes
  unfold reflectOn
  have h1 : ({ s with tables := s.tables.take s.tables.length } : State) = s := by
    rw [List.take_length]
  rw [h1, e]
  simp

theorem reflectOn_spec (s : State) (n : Nat) (sizes : List Nat) :
    ∃ T, reflectOn s n sizes = { s with tables := T } ∧
      (∀ k, vis (tablesGet T k) = vis (tablesGet s.tables k)) ∧
      (GensOk s → GensOk { s with tables := T }) := by
  unfold reflectOn
  have hsplit : s.tables = s.tables.take n ++ s.tables.drop n := (List.take_append_drop n s.tables).symm
  rcases compactStep_spec { s with tables := s.tables.take n } sizes with
    (h | ⟨pre, t0, sel', post, htab, h⟩)
  · refine ⟨s.tables, ?_, fun _ => rfl, fun hg => hg⟩
    rw [h]
    exact congrArg (fun T => ({ s with tables := T } : State)) hsplit.symm
  · rw [h]
    have htab' : s.tables.take n = pre ++ (t0 :: sel') ++ post := htab
    have hfull : s.tables = pre ++ (t0 :: sel') ++ (post ++ s.tables.drop n) := by
      conv => lhs; rw [hsplit, htab']
      simp
    refine ⟨pre ++ [{ gen := t0.gen, cells := mergeRun (t0 :: sel') (pre.length == 0) }] ++
        (post ++ s.tables.drop n), ?_, ?_, ?_⟩
    · exact congrArg (fun T => ({ s with tables := T } : State)) (by simp)
    · intro k
      have := vis_tablesGet_merge pre (t0 :: sel') (post ++ s.tables.drop n) t0.gen (pre.length == 0)
        (by intro hd; exact List.eq_nil_of_length_eq_zero (by simpa using hd)) k
      rw [← hfull] at this
      exact this
    · rintro ⟨hp, hm⟩
      generalize s.tables.drop n = D at hfull ⊢
      rw [hfull] at hp hm
      constructor
      · refine List.Pairwise.sublist ?_ hp
        simp
      · intro t ht
        simp only [List.mem_append, List.mem_cons, List.not_mem_nil, or_false] at ht
        rcases ht with ((ht | ht) | ht)
        · exact hm t (by simp [ht])
        · subst ht; exact hm t0 (by simp)
        · exact hm t (by simp only [List.mem_append]; exact Or.inr ht)

theorem reflectOn_inv_stack (s : State) (h : Inv s) (n : Nat) (sizes : List Nat) :
    Inv (reflectOn s n sizes) ∧ (∀ k, abs (reflectOn s n sizes) k = abs s k) ∧
      (reflectOn s n sizes).isOpen = s.isOpen ∧ (reflectOn s n sizes).closed = s.closed ∧
      (reflectOn s n sizes).w = s.w ∧ (reflectOn s n sizes).r = s.r := by
  obtain ⟨T, e, hv, hg⟩ := reflectOn_spec s n sizes
  rw [e]
  have hi : Inv ({ s with tables := T } : State) := {
      wOk := h.wOk
      rOk := h.rOk
      cov := by
        intro hp k v hk
        show vis (tablesGet T k) = _
        rw [hv k]
        exact h.cov hp k v hk
      idle := h.idle
      gens := hg h.gens }
  refine ⟨hi, ?_, rfl, rfl, rfl, rfl⟩
  intro k
  rw [abs_eq_stack _ hi, abs_eq_stack s h]
  simp only [stack]
  cases Layer.get s.w k <;> cases Layer.get s.r k <;> simp [hv k]

theorem flushStep_r (s : State) : (flushStep s).r = s.r := by
  rcases flushStep_cases s with (h | ⟨_, _, h⟩ | ⟨_, _, h⟩) <;> rw [h]

/-! ## background micro-steps -/

/-- the micro-steps of the flusher, the compactor and the rotation hook, as functions on the database state -/
inductive BgStep : State → State → Prop where
  | addReader (s : State) : BgStep s (flushStep s)
  | reflect (s : State) (n : Nat) (sizes : List Nat) : BgStep s (reflectOn s n sizes)
  | hookRotate (s : State) : BgStep s (DBM.step s .rotate).1

theorem bgStep_ok (s s' : State) (h : Inv s) (hb : BgStep s s') :
    Inv s' ∧ (∀ k, abs s' k = abs s k) ∧ s'.isOpen = s.isOpen ∧ s'.closed = s.closed := by
  cases hb with
  | addReader => exact internal_step s h .flush trivial
  | reflect n sizes =>
    obtain ⟨h1, h2, h3, h4, _, _⟩ := reflectOn_inv_stack s h n sizes
    exact ⟨h1, h2, h3, h4⟩
  | hookRotate => exact internal_step s h .rotate trivial

theorem bgStep_rel (s s' : State) (sp : Spec) (h : Rel s sp) (hb : BgStep s s') : Rel s' sp := by
  obtain ⟨h1, h2, h3, h4⟩ := bgStep_ok s s' h.inv hb
  exact ⟨h1, h3.trans h.o, h4.trans h.c, fun k => (h2 k).trans (h.m k)⟩

/-! ## the two-phase read -/

/-- what may happen to the database state while a reader is between its two halves: only `addReader`
(other readers' steps do not change the state) -/
inductive ReaderMay : State → State → Prop where
  | refl (s : State) : ReaderMay s s
  | addReader (s s' : State) : ReaderMay s s' → ReaderMay s (flushStep s')

theorem readerMay_mem (s s' : State) (h : ReaderMay s s') : s'.w = s.w ∧ s'.r = s.r := by
  induction h with
  | refl => exact ⟨rfl, rfl⟩
  | addReader s' _ ih => exact ⟨(flushStep_w s').trans ih.1, (flushStep_r s').trans ih.2⟩

theorem readerMay_ok (s s' : State) (hi : Inv s) (h : ReaderMay s s') :
    Inv s' ∧ (∀ k, abs s' k = abs s k) ∧ s'.isOpen = s.isOpen ∧ s'.closed = s.closed := by
  induction h with
  | refl => exact ⟨hi, fun _ => rfl, rfl, rfl⟩
  | addReader s' _ ih =>
    obtain ⟨h1, h2, h3, h4⟩ := ih
    obtain ⟨g1, g2, g3, g4⟩ := bgStep_ok s' _ h1 (.addReader s')
    exact ⟨g1, fun k => (g2 k).trans (h2 k), g3.trans h3, g4.trans h4⟩

theorem readMemRes_same (snap cur : State) (k : Key) (hw : cur.w = snap.w) (hr : cur.r = snap.r) :
    readMemRes snap cur k = DBM.get snap k := by
  unfold readMemRes
  rw [hw, hr]


/-! ## sequential runs of the reference map -/

theorem specOpsSt_append (sp : Spec) (l : List Op) (o : Op) :
    specOpsSt sp (l ++ [o]) =
      ((specOp (specOpsSt sp l).1 o).1, (specOpsSt sp l).2 ++ [(specOp (specOpsSt sp l).1 o).2]) := by
  induction l generalizing sp with
  | nil => simp [specOpsSt]
  | cons a l ih => simp [specOpsSt, ih]

/-! ## the invariant of the interleaving semantics -/

structure WF (sp0 : Spec) (c : Conf) : Prop where
  /-- the effect log, run sequentially on the reference map, gives the logged answers and ends in a map the
  database state stands for -/
  spec : ∃ sp, Rel c.db sp ∧ specOpsSt sp0 (c.effs.reverse.map (·.op)) = (sp, c.effs.reverse.map (·.res))
  bounds : ∀ e ∈ c.effs, e.inv < e.pos ∧ e.pos < c.now
  sorted : c.effs.Pairwise (fun a b => b.pos < a.pos)
  nodup : c.effs.Pairwise (fun a b => a.inv ≠ b.inv)
  called : ∀ e ∈ c.effs, (⟨e.thread, e.op, e.inv⟩ : Call) ∈ c.calls
  clNow : ∀ t i, (c.cl t).inv? = some i → i < c.now
  clDistinct : ∀ t t' i, (c.cl t).inv? = some i → (c.cl t').inv? = some i → t = t'
  fresh : ∀ t op i, c.cl t = .invoked op i → ∀ e ∈ c.effs, e.inv ≠ i
  pend : ∀ t op i, c.cl t = .invoked op i → (⟨t, op, i⟩ : Call) ∈ c.calls
  reading : ∀ t k i snap, c.cl t = .reading k i snap →
      t ∈ c.rlock ∧ c.db.w = snap.w ∧ c.db.r = snap.r ∧
        ∃ p, (⟨t, .get k, i, p, DBM.get snap k⟩ : Eff) ∈ c.effs
  done : ∀ t op i r, c.cl t = .done op i r → ∃ p, (⟨t, op, i, p, r⟩ : Eff) ∈ c.effs
  hist : ∀ h ∈ c.hist, ∃ p, (⟨h.thread, h.op, h.inv, p, h.res⟩ : Eff) ∈ c.effs ∧ p < h.resp ∧ h.resp < c.now

theorem setCl_same (c : Conf) (t : Nat) (st : CState) : c.setCl t st t = st := by simp [Conf.setCl]

theorem setCl_other (c : Conf) (t x : Nat) (st : CState) (h : x ≠ t) : c.setCl t st x = c.cl x := by
  simp [Conf.setCl, h]

theorem wf_init (s0 : State) (h : Inv s0) : WF (specOf s0) (init s0) where
  spec := ⟨specOf s0, ⟨h, rfl, rfl, fun _ => rfl⟩, rfl⟩
  bounds := by intro e he; simp [init] at he
  sorted := by simp [init]
  nodup := by simp [init]
  called := by intro e he; simp [init] at he
  clNow := by intro t i hi; simp [init, CState.inv?] at hi
  clDistinct := by intro t t' i hi; simp [init, CState.inv?] at hi
  fresh := by intro t op i hi; simp [init] at hi
  pend := by intro t op i hi; simp [init] at hi
  reading := by intro t k i snap hi; simp [init] at hi
  done := by intro t op i r hi; simp [init] at hi
  hist := by intro e he; simp [init] at he

/-- a background step that leaves the memstore pair alone, or happens while nobody holds the read lock -/
theorem wf_bg (sp0 : Spec) (c : Conf) (h : WF sp0 c) (db' : State) (comp' : Option (Nat × List Nat))
    (hb : BgStep c.db db') (hm : (db'.w = c.db.w ∧ db'.r = c.db.r) ∨ c.rlock = []) :
    WF sp0 { c with db := db', comp := comp', now := c.now + 1 } where
  spec := by
    obtain ⟨sp, hr, hs⟩ := h.spec
    exact ⟨sp, bgStep_rel c.db db' sp hr hb, hs⟩
  bounds := by
    intro e he
    obtain ⟨h1, h2⟩ := h.bounds e he
    exact ⟨h1, Nat.lt_succ_of_lt h2⟩
  sorted := h.sorted
  nodup := h.nodup
  called := h.called
  clNow := fun t i hi => Nat.lt_succ_of_lt (h.clNow t i hi)
  clDistinct := h.clDistinct
  fresh := h.fresh
  pend := h.pend
  reading := by
    intro t k i snap hi
    obtain ⟨h1, h2, h3, h4⟩ := h.reading t k i snap hi
    rcases hm with (⟨hw, hr⟩ | hn)
    · exact ⟨h1, hw.trans h2, hr.trans h3, h4⟩
    · rw [hn] at h1; exact absurd h1 (by simp)
  done := h.done
  hist := by
    intro e he
    obtain ⟨p, h1, h2, h3⟩ := h.hist e he
    exact ⟨p, h1, h2, Nat.lt_succ_of_lt h3⟩


/-- logging the effect of the call thread `t` is in (its lock-protected step happens now) -/
theorem effs_append_ok (sp0 : Spec) (c : Conf) (h : WF sp0 c) (t : Nat) (op : Op) (i : Nat)
    (hcl : c.cl t = .invoked op i) (r : Res) :
    (∀ x ∈ (⟨t, op, i, c.now, r⟩ : Eff) :: c.effs, x.inv < x.pos ∧ x.pos < c.now + 1) ∧
    ((⟨t, op, i, c.now, r⟩ : Eff) :: c.effs).Pairwise (fun a b => b.pos < a.pos) ∧
    ((⟨t, op, i, c.now, r⟩ : Eff) :: c.effs).Pairwise (fun a b => a.inv ≠ b.inv) ∧
    (∀ x ∈ (⟨t, op, i, c.now, r⟩ : Eff) :: c.effs, (⟨x.thread, x.op, x.inv⟩ : Call) ∈ c.calls) := by
  have hi : i < c.now := h.clNow t i (by rw [hcl]; rfl)
  refine ⟨?_, ?_, ?_, ?_⟩
  · intro x hx
    rcases List.mem_cons.1 hx with (hx | hx)
    · subst hx
      exact ⟨hi, Nat.lt_succ_self _⟩
    · obtain ⟨h1, h2⟩ := h.bounds x hx
      exact ⟨h1, Nat.lt_succ_of_lt h2⟩
  · rw [List.pairwise_cons]
    exact ⟨fun a ha => (h.bounds a ha).2, h.sorted⟩
  · rw [List.pairwise_cons]
    exact ⟨fun a ha => (h.fresh t op i hcl a ha).symm, h.nodup⟩
  · intro x hx
    rcases List.mem_cons.1 hx with (hx | hx)
    · subst hx
      exact h.pend t op i hcl
    · exact h.called x hx

theorem spec_append_ok (sp0 : Spec) (c : Conf) (h : WF sp0 c) (e : Eff) (db' : State)
    (hstep : ∀ sp, Rel c.db sp → Rel db' (specOp sp e.op).1 ∧ e.res = (specOp sp e.op).2) :
    ∃ sp, Rel db' sp ∧
      specOpsSt sp0 ((e :: c.effs).reverse.map (·.op)) = (sp, (e :: c.effs).reverse.map (·.res)) := by
  obtain ⟨sp, hr, hs⟩ := h.spec
  obtain ⟨h1, h2⟩ := hstep sp hr
  refine ⟨(specOp sp e.op).1, h1, ?_⟩
  rw [List.reverse_cons, List.map_append, List.map_append, List.map_singleton, List.map_singleton,
    specOpsSt_append, hs, h2]

/-- `inv t op` -/
theorem wf_inv (sp0 : Spec) (c : Conf) (h : WF sp0 c) (t : Nat) (op : Op) (hcl : c.cl t = .idle) :
    WF sp0 { c with cl := c.setCl t (.invoked op c.now), calls := ⟨t, op, c.now⟩ :: c.calls,
                    now := c.now + 1 } where
  spec := h.spec
  bounds := by
    intro e he
    obtain ⟨h1, h2⟩ := h.bounds e he
    exact ⟨h1, Nat.lt_succ_of_lt h2⟩
  sorted := h.sorted
  nodup := h.nodup
  called := fun e he => List.mem_cons_of_mem _ (h.called e he)
  clNow := by
    intro t' i hi
    show i < c.now + 1
    by_cases ht : t' = t
    · subst ht
      simp only [setCl_same, CState.inv?, Option.some.injEq] at hi
      omega
    · simp only [setCl_other _ _ _ _ ht] at hi
      exact Nat.lt_succ_of_lt (h.clNow t' i hi)
  clDistinct := by
    intro t1 t2 i h1 h2
    by_cases ht1 : t1 = t <;> by_cases ht2 : t2 = t
    · rw [ht1, ht2]
    · subst ht1
      simp only [setCl_same, CState.inv?, Option.some.injEq] at h1
      simp only [setCl_other _ _ _ _ ht2] at h2
      have := h.clNow t2 i h2
      omega
    · subst ht2
      simp only [setCl_same, CState.inv?, Option.some.injEq] at h2
      simp only [setCl_other _ _ _ _ ht1] at h1
      have := h.clNow t1 i h1
      omega
    · simp only [setCl_other _ _ _ _ ht1] at h1
      simp only [setCl_other _ _ _ _ ht2] at h2
      exact h.clDistinct t1 t2 i h1 h2
  fresh := by
    intro t' op' i hi e he
    by_cases ht : t' = t
    · subst ht
      simp only [setCl_same, CState.invoked.injEq] at hi
      have := (h.bounds e he)
      omega
    · simp only [setCl_other _ _ _ _ ht] at hi
      exact h.fresh t' op' i hi e he
  pend := by
    intro t' op' i hi
    by_cases ht : t' = t
    · subst ht
      simp only [setCl_same, CState.invoked.injEq] at hi
      obtain ⟨h1, h2⟩ := hi
      subst h1 h2
      exact List.mem_cons_self
    · simp only [setCl_other _ _ _ _ ht] at hi
      exact List.mem_cons_of_mem _ (h.pend t' op' i hi)
  reading := by
    intro t' k i snap hi
    by_cases ht : t' = t
    · subst ht
      simp [setCl_same] at hi
    · simp only [setCl_other _ _ _ _ ht] at hi
      exact h.reading t' k i snap hi
  done := by
    intro t' op' i r hi
    by_cases ht : t' = t
    · subst ht
      simp [setCl_same] at hi
    · simp only [setCl_other _ _ _ _ ht] at hi
      exact h.done t' op' i r hi
  hist := by
    intro e he
    obtain ⟨p, h1, h2, h3⟩ := h.hist e he
    exact ⟨p, h1, h2, Nat.lt_succ_of_lt h3⟩


theorem setCl_inv? (c : Conf) (t : Nat) (st : CState) (h : st.inv? = (c.cl t).inv?) (x : Nat) :
    (c.setCl t st x).inv? = (c.cl x).inv? := by
  by_cases hx : x = t
  · subst hx; rw [setCl_same, h]
  · rw [setCl_other _ _ _ _ hx]

/-- `write t rot`: the critical section of a put / delete -/
theorem wf_write (sp0 : Spec) (c : Conf) (h : WF sp0 c) (t : Nat) (op : Op) (i : Nat)
    (hcl : c.cl t = .invoked op i) (hrl : c.rlock = []) (db' : State) (r : Res)
    (hstep : ∀ sp, Rel c.db sp → Rel db' (specOp sp op).1 ∧ r = (specOp sp op).2) :
    WF sp0 { c with db := db', cl := c.setCl t (.done op i r),
                    effs := ⟨t, op, i, c.now, r⟩ :: c.effs, now := c.now + 1 } := by
  obtain ⟨e1, e2, e3, e4⟩ := effs_append_ok sp0 c h t op i hcl r
  have hinv : ∀ x, (c.setCl t (.done op i r) x).inv? = (c.cl x).inv? :=
    setCl_inv? c t _ (by rw [hcl]; rfl)
  exact {
    spec := spec_append_ok sp0 c h ⟨t, op, i, c.now, r⟩ db' hstep
    bounds := e1
    sorted := e2
    nodup := e3
    called := e4
    clNow := by
      intro t' j hj
      rw [hinv] at hj
      exact Nat.lt_succ_of_lt (h.clNow t' j hj)
    clDistinct := by
      intro t1 t2 j h1 h2
      rw [hinv] at h1 h2
      exact h.clDistinct t1 t2 j h1 h2
    fresh := by
      intro t' op' j hj e he
      by_cases ht : t' = t
      · subst ht; simp [setCl_same] at hj
      · simp only [setCl_other _ _ _ _ ht] at hj
        rcases List.mem_cons.1 he with (he | he)
        · subst he
          intro hij
          exact ht (h.clDistinct t' t j (by rw [hj]; rfl) (by rw [hcl]; exact congrArg some hij))
        · exact h.fresh t' op' j hj e he
    pend := by
      intro t' op' j hj
      by_cases ht : t' = t
      · subst ht; simp [setCl_same] at hj
      · simp only [setCl_other _ _ _ _ ht] at hj
        exact h.pend t' op' j hj
    reading := by
      intro t' k j snap hj
      by_cases ht : t' = t
      · subst ht; simp [setCl_same] at hj
      · simp only [setCl_other _ _ _ _ ht] at hj
        have := (h.reading t' k j snap hj).1
        rw [hrl] at this
        exact absurd this (by simp)
    done := by
      intro t' op' j r' hj
      by_cases ht : t' = t
      · subst ht
        simp only [setCl_same, CState.done.injEq] at hj
        obtain ⟨h1, h2, h3⟩ := hj
        subst h1 h2 h3
        exact ⟨c.now, List.mem_cons_self⟩
      · simp only [setCl_other _ _ _ _ ht] at hj
        obtain ⟨p, hp⟩ := h.done t' op' j r' hj
        exact ⟨p, List.mem_cons_of_mem _ hp⟩
    hist := by
      intro e he
      obtain ⟨p, h1, h2, h3⟩ := h.hist e he
      exact ⟨p, List.mem_cons_of_mem _ h1, h2, Nat.lt_succ_of_lt h3⟩ }

/-- `readTables t`: the first half of a get -/
theorem wf_readTables (sp0 : Spec) (c : Conf) (h : WF sp0 c) (t : Nat) (k : Key) (i : Nat)
    (hcl : c.cl t = .invoked (.get k) i) :
    WF sp0 { c with cl := c.setCl t (.reading k i c.db), rlock := t :: c.rlock,
                    effs := ⟨t, .get k, i, c.now, DBM.get c.db k⟩ :: c.effs, now := c.now + 1 } := by
  obtain ⟨e1, e2, e3, e4⟩ := effs_append_ok sp0 c h t (.get k) i hcl (DBM.get c.db k)
  have hinv : ∀ x, (c.setCl t (.reading k i c.db) x).inv? = (c.cl x).inv? :=
    setCl_inv? c t _ (by rw [hcl]; rfl)
  exact {
    spec := spec_append_ok sp0 c h ⟨t, .get k, i, c.now, DBM.get c.db k⟩ c.db
      (fun sp hr => ⟨hr, get_sim c.db sp hr k⟩)
    bounds := e1
    sorted := e2
    nodup := e3
    called := e4
    clNow := by
      intro t' j hj
      rw [hinv] at hj
      exact Nat.lt_succ_of_lt (h.clNow t' j hj)
    clDistinct := by
      intro t1 t2 j h1 h2
      rw [hinv] at h1 h2
      exact h.clDistinct t1 t2 j h1 h2
    fresh := by
      intro t' op' j hj e he
      by_cases ht : t' = t
      · subst ht; simp [setCl_same] at hj
      · simp only [setCl_other _ _ _ _ ht] at hj
        rcases List.mem_cons.1 he with (he | he)
        · subst he
          intro hij
          exact ht (h.clDistinct t' t j (by rw [hj]; rfl) (by rw [hcl]; exact congrArg some hij))
        · exact h.fresh t' op' j hj e he
    pend := by
      intro t' op' j hj
      by_cases ht : t' = t
      · subst ht; simp [setCl_same] at hj
      · simp only [setCl_other _ _ _ _ ht] at hj
        exact h.pend t' op' j hj
    reading := by
      intro t' k' j snap hj
      by_cases ht : t' = t
      · subst ht
        simp only [setCl_same, CState.reading.injEq] at hj
        obtain ⟨h1, h2, h3⟩ := hj
        subst h1 h2 h3
        exact ⟨List.mem_cons_self, rfl, rfl, c.now, List.mem_cons_self⟩
      · simp only [setCl_other _ _ _ _ ht] at hj
        obtain ⟨h1, h2, h3, p, hp⟩ := h.reading t' k' j snap hj
        exact ⟨List.mem_cons_of_mem _ h1, h2, h3, p, List.mem_cons_of_mem _ hp⟩
    done := by
      intro t' op' j r' hj
      by_cases ht : t' = t
      · subst ht; simp [setCl_same] at hj
      · simp only [setCl_other _ _ _ _ ht] at hj
        obtain ⟨p, hp⟩ := h.done t' op' j r' hj
        exact ⟨p, List.mem_cons_of_mem _ hp⟩
    hist := by
      intro e he
      obtain ⟨p, h1, h2, h3⟩ := h.hist e he
      exact ⟨p, List.mem_cons_of_mem _ h1, h2, Nat.lt_succ_of_lt h3⟩ }

/-- `readMem t`: the second half of a get returns what the first half's position promised -/
theorem wf_readMem (sp0 : Spec) (c : Conf) (h : WF sp0 c) (t : Nat) (k : Key) (i : Nat) (snap : State)
    (hcl : c.cl t = .reading k i snap) :
    WF sp0 { c with cl := c.setCl t (.done (.get k) i (readMemRes snap c.db k)),
                    rlock := c.rlock.filter (· != t), now := c.now + 1 } := by
  have hinv : ∀ x, (c.setCl t (.done (.get k) i (readMemRes snap c.db k)) x).inv? = (c.cl x).inv? :=
    setCl_inv? c t _ (by rw [hcl]; rfl)
  exact {
    spec := h.spec
    bounds := by
      intro e he
      obtain ⟨h1, h2⟩ := h.bounds e he
      exact ⟨h1, Nat.lt_succ_of_lt h2⟩
    sorted := h.sorted
    nodup := h.nodup
    called := h.called
    clNow := by
      intro t' j hj
      rw [hinv] at hj
      exact Nat.lt_succ_of_lt (h.clNow t' j hj)
    clDistinct := by
      intro t1 t2 j h1 h2
      rw [hinv] at h1 h2
      exact h.clDistinct t1 t2 j h1 h2
    fresh := by
      intro t' op' j hj e he
      by_cases ht : t' = t
      · subst ht; simp [setCl_same] at hj
      · simp only [setCl_other _ _ _ _ ht] at hj
        exact h.fresh t' op' j hj e he
    pend := by
      intro t' op' j hj
      by_cases ht : t' = t
      · subst ht; simp [setCl_same] at hj
      · simp only [setCl_other _ _ _ _ ht] at hj
        exact h.pend t' op' j hj
    reading := by
      intro t' k' j snap' hj
      by_cases ht : t' = t
      · subst ht; simp [setCl_same] at hj
      · simp only [setCl_other _ _ _ _ ht] at hj
        obtain ⟨h1, h2, h3, h4⟩ := h.reading t' k' j snap' hj
        exact ⟨List.mem_filter.2 ⟨h1, by simpa using ht⟩, h2, h3, h4⟩
    done := by
      intro t' op' j r' hj
      by_cases ht : t' = t
      · subst ht
        simp only [setCl_same, CState.done.injEq] at hj
        obtain ⟨h1, h2, h3⟩ := hj
        subst h1 h2 h3
        obtain ⟨_, hw, hr, p, hp⟩ := h.reading t' k i snap hcl
        rw [readMemRes_same snap c.db k hw hr]
        exact ⟨p, hp⟩
      · simp only [setCl_other _ _ _ _ ht] at hj
        exact h.done t' op' j r' hj
    hist := by
      intro e he
      obtain ⟨p, h1, h2, h3⟩ := h.hist e he
      exact ⟨p, h1, h2, Nat.lt_succ_of_lt h3⟩ }

/-- `resp t` -/
theorem wf_resp (sp0 : Spec) (c : Conf) (h : WF sp0 c) (t : Nat) (op : Op) (i : Nat) (r : Res)
    (hcl : c.cl t = .done op i r) :
    WF sp0 { c with cl := c.setCl t .idle, hist := ⟨t, op, i, c.now, r⟩ :: c.hist, now := c.now + 1 } := by
  have hinv : ∀ x j, (c.setCl t .idle x).inv? = some j → (c.cl x).inv? = some j := by
    intro x j hj
    by_cases hx : x = t
    · subst hx; simp [setCl_same, CState.inv?] at hj
    · rwa [setCl_other _ _ _ _ hx] at hj
  exact {
    spec := h.spec
    bounds := by
      intro e he
      obtain ⟨h1, h2⟩ := h.bounds e he
      exact ⟨h1, Nat.lt_succ_of_lt h2⟩
    sorted := h.sorted
    nodup := h.nodup
    called := h.called
    clNow := fun t' j hj => Nat.lt_succ_of_lt (h.clNow t' j (hinv t' j hj))
    clDistinct := fun t1 t2 j h1 h2 => h.clDistinct t1 t2 j (hinv t1 j h1) (hinv t2 j h2)
    fresh := by
      intro t' op' j hj e he
      by_cases ht : t' = t
      · subst ht; simp [setCl_same] at hj
      · simp only [setCl_other _ _ _ _ ht] at hj
        exact h.fresh t' op' j hj e he
    pend := by
      intro t' op' j hj
      by_cases ht : t' = t
      · subst ht; simp [setCl_same] at hj
      · simp only [setCl_other _ _ _ _ ht] at hj
        exact h.pend t' op' j hj
    reading := by
      intro t' k' j snap' hj
      by_cases ht : t' = t
      · subst ht; simp [setCl_same] at hj
      · simp only [setCl_other _ _ _ _ ht] at hj
        exact h.reading t' k' j snap' hj
    done := by
      intro t' op' j r' hj
      by_cases ht : t' = t
      · subst ht; simp [setCl_same] at hj
      · simp only [setCl_other _ _ _ _ ht] at hj
        exact h.done t' op' j r' hj
    hist := by
      intro e he
      rcases List.mem_cons.1 he with (he | he)
      · subst he
        obtain ⟨p, hp⟩ := h.done t op i r hcl
        exact ⟨p, hp, (h.bounds _ hp).2, Nat.lt_succ_self _⟩
      · obtain ⟨p, h1, h2, h3⟩ := h.hist e he
        exact ⟨p, h1, h2, Nat.lt_succ_of_lt h3⟩ }


theorem isEmpty_false_eq_nil {α : Type} (l : List α) (h : ¬ ((!l.isEmpty) = true)) : l = [] := by
  cases l with
  | nil => rfl
  | cons _ _ => simp at h

/-- every admitted micro-step preserves the invariant -/
theorem step_wf (sp0 : Spec) (c c' : Conf) (ev : Ev) (h : WF sp0 c) (hs : step? c ev = some c') :
    WF sp0 c' := by
  cases ev with
  | inv t op =>
    simp only [step?] at hs
    split at hs
    · rename_i hcl
      cases hs
      exact wf_inv sp0 c h t op hcl
    · cases hs
  | write t rot =>
    simp only [step?] at hs
    split at hs
    · cases hs
    · rename_i hrl
      have hrl' := isEmpty_false_eq_nil _ hrl
      split at hs
      · rename_i k v i hcl
        cases hs
        refine wf_write sp0 c h t (.put k v) i hcl hrl' _ _ ?_
        intro sp hr
        obtain ⟨h1, h2⟩ := put_sim c.db sp hr k v rot
        exact ⟨h1, h2⟩
      · rename_i k i hcl
        cases hs
        refine wf_write sp0 c h t (.del k) i hcl hrl' _ _ ?_
        intro sp hr
        obtain ⟨h1, h2⟩ := del_sim c.db sp hr k
        exact ⟨h1, h2⟩
      · cases hs
  | readTables t =>
    simp only [step?] at hs
    split at hs
    · rename_i k i hcl
      cases hs
      exact wf_readTables sp0 c h t k i hcl
    · cases hs
  | readMem t =>
    simp only [step?] at hs
    split at hs
    · rename_i k i snap hcl
      cases hs
      exact wf_readMem sp0 c h t k i snap hcl
    · cases hs
  | resp t =>
    simp only [step?] at hs
    split at hs
    · rename_i op i r hcl
      cases hs
      exact wf_resp sp0 c h t op i r hcl
    · cases hs
  | hookRotate =>
    simp only [step?] at hs
    split at hs
    · cases hs
    · rename_i hrl
      cases hs
      exact wf_bg sp0 c h _ c.comp (.hookRotate c.db) (Or.inr (isEmpty_false_eq_nil _ hrl))
  | addReader =>
    simp only [step?] at hs
    cases hs
    exact wf_bg sp0 c h _ c.comp (.addReader c.db) (Or.inl ⟨flushStep_w c.db, flushStep_r c.db⟩)
  | select sizes =>
    simp only [step?] at hs
    split at hs
    · cases hs
      -- nothing but the compactor's private state changes
      have := wf_bg sp0 c h (flushStep c.db) c.comp (.addReader c.db)
        (Or.inl ⟨flushStep_w c.db, flushStep_r c.db⟩)
      exact {
        spec := h.spec
        bounds := this.bounds
        sorted := h.sorted
        nodup := h.nodup
        called := h.called
        clNow := this.clNow
        clDistinct := h.clDistinct
        fresh := h.fresh
        pend := h.pend
        reading := h.reading
        done := h.done
        hist := this.hist }
    · cases hs
  | reflect =>
    simp only [step?] at hs
    split at hs
    · cases hs
    · rename_i hrl
      split at hs
      · rename_i n sizes hcomp
        cases hs
        exact wf_bg sp0 c h _ none (.reflect c.db n sizes) (Or.inr (isEmpty_false_eq_nil _ hrl))
      · cases hs

theorem run_wf (sp0 : Spec) (sched : Sched) (c c' : Conf) (h : WF sp0 c) (hr : Conc.run c sched = some c') :
    WF sp0 c' := by
  induction sched generalizing c with
  | nil => cases hr; exact h
  | cons e es ih =>
    simp only [Conc.run] at hr
    split at hr
    · rename_i c1 hs
      exact ih c1 (step_wf sp0 c c1 e h hs) hr
    · cases hr

/-! ## from the invariant to the sequential witness -/

def effW (e : Eff) : WEntry := ⟨e.thread, e.op, e.inv, e.res⟩

theorem pairwise_unique {α : Type} (f : α → Nat) (l : List α) (h : l.Pairwise (fun a b => f a ≠ f b))
    (x y : α) (hx : x ∈ l) (hy : y ∈ l) (hxy : f x = f y) : x = y := by
  induction l with
  | nil => cases hx
  | cons a l ih =>
    rw [List.pairwise_cons] at h
    rcases List.mem_cons.1 hx with (hx | hx) <;> rcases List.mem_cons.1 hy with (hy | hy)
    · rw [hx, hy]
    · exact absurd (hx ▸ hxy) (h.1 y hy)
    · exact absurd (hy ▸ hxy).symm (h.1 x hx)
    · exact ih h.2 hx hy

theorem witness_of_wf (sp0 : Spec) (c : Conf) (h : WF sp0 c) :
    IsWitness sp0 c.calls.reverse c.hist.reverse (c.effs.reverse.map effW) where
  called := by
    intro e he
    obtain ⟨x, hx, rfl⟩ := List.mem_map.1 he
    exact List.mem_reverse.2 (h.called x (List.mem_reverse.1 hx))
  nodup := by
    rw [List.pairwise_map, List.pairwise_reverse]
    exact h.nodup.imp (fun hab => Ne.symm hab)
  complete := by
    intro e he
    obtain ⟨p, hp, _⟩ := h.hist e (List.mem_reverse.1 he)
    exact ⟨_, List.mem_map.2 ⟨_, List.mem_reverse.2 hp, rfl⟩, rfl, rfl, rfl, rfl⟩
  realtime := by
    rw [List.pairwise_map, List.pairwise_reverse]
    refine h.sorted.imp_of_mem ?_
    intro b a hb ha hab e he hinv hlt
    -- `b` is newer than `a`: in the witness `a` stands before `b`
    obtain ⟨p, hp, hp2, _⟩ := h.hist e (List.mem_reverse.1 he)
    have : (⟨e.thread, e.op, e.inv, p, e.res⟩ : Eff) = b :=
      pairwise_unique (·.inv) c.effs h.nodup _ _ hp hb hinv
    subst this
    have := (h.bounds a ha).1
    simp only [effW] at hlt hab
    omega
  legal := by
    obtain ⟨sp, _, hs⟩ := h.spec
    simp only [specOps, List.map_map]
    have : (List.map ((fun x => x.op) ∘ effW) c.effs.reverse) = c.effs.reverse.map (·.op) := rfl
    rw [this, hs]
    rfl

/-! ## the statements used by SST/Props/C05.lean -/

theorem bg_steps_preserve_abs (steps : List Step) (s' : State) (hb : BgStep (runState {} steps) s') (k : Key) :
    abs s' k = abs (runState {} steps) k ∧ DBM.get s' k = DBM.get (runState {} steps) k := by
  obtain ⟨_, h2, h3, h4⟩ := bgStep_ok _ s' (reach_inv steps) hb
  refine ⟨h2 k, ?_⟩
  rw [get_abs, get_abs, h2 k, h3, h4]

theorem get_two_phase_ok (steps : List Step) (s' : State) (k : Key)
    (hm : ReaderMay (runState {} steps) s') :
    let s := runState {} steps
    readMemRes s s' k = DBM.get s k ∧
    readMemRes s s' k = DBM.get s' k ∧
    readMemRes s s' k = (if (!s.isOpen || s.closed) = true then .notOpen else
      match abs s k with | some v => .value v | none => .notFound) := by
  intro s
  obtain ⟨hw, hr⟩ := readerMay_mem s s' hm
  obtain ⟨_, h2, h3, h4⟩ := readerMay_ok s s' (reach_inv steps) hm
  have h1 := readMemRes_same s s' k hw hr
  refine ⟨h1, ?_, ?_⟩
  · rw [h1, get_abs, get_abs, h2 k, h3, h4]
  · rw [h1]; exact get_abs s k

theorem linearizable (steps : List Step) (sched : Sched) (calls : List Call) (hist : List HEntry)
    (h : exec (runState {} steps) sched = some (calls, hist)) :
    ∃ w, IsWitness (specOf (runState {} steps)) calls hist w := by
  unfold exec at h
  cases hr : Conc.run (init (runState {} steps)) sched with
  | none => rw [hr] at h; cases h
  | some c =>
    rw [hr] at h
    simp only [Option.map_some, Option.some.injEq, Prod.mk.injEq] at h
    obtain ⟨h1, h2⟩ := h
    subst h1 h2
    exact ⟨_, witness_of_wf _ c (run_wf _ sched _ c (wf_init _ (reach_inv steps)) hr)⟩


/-! ## readers only (used by C18) -/

theorem specOpsSt_gets (sp : Spec) (ops : List Op) (hg : ∀ o ∈ ops, ∃ k, o = .get k) :
    specOpsSt sp ops = (sp, ops.map fun o => (specOp sp o).2) := by
  induction ops with
  | nil => rfl
  | cons o ops ih =>
    obtain ⟨k, rfl⟩ := hg _ List.mem_cons_self
    have e := ih (fun o ho => hg o (List.mem_cons_of_mem _ ho))
    show ((specOpsSt sp ops).1, specGet sp k :: (specOpsSt sp ops).2) = _
    rw [e]
    rfl

theorem gets_only (steps : List Step) (sched : Sched) (calls : List Call) (hist : List HEntry)
    (h : exec (runState {} steps) sched = some (calls, hist))
    (hg : ∀ c ∈ calls, ∃ k, c.op = .get k) :
    ∀ e ∈ hist, ∃ k, e.op = .get k ∧ e.res = DBM.get (runState {} steps) k := by
  obtain ⟨w, hw⟩ := linearizable steps sched calls hist h
  have hops : ∀ o ∈ w.map (·.op), ∃ k, o = Op.get k := by
    intro o ho
    obtain ⟨x, hx, rfl⟩ := List.mem_map.1 ho
    exact hg _ (hw.called x hx)
  have hl := hw.legal
  unfold specOps at hl
  rw [specOpsSt_gets _ _ hops, List.map_map] at hl
  have hall := List.map_inj_left.1 hl
  intro e he
  obtain ⟨x, hx, _, h2, _, h4⟩ := hw.complete e he
  obtain ⟨k, hk⟩ := hg _ (hw.called x hx)
  have hk' : x.op = .get k := hk
  refine ⟨k, h2 ▸ hk', ?_⟩
  have := hall x hx
  simp only [Function.comp, hk', specOp] at this
  rw [← h4, ← this]
  exact (get_sim _ _ ⟨reach_inv steps, rfl, rfl, fun _ => rfl⟩ k).symm

end SST.Proofs.Conc
