import SST.Model.PQ
import SST.Spec.Sorted
import SST.Proofs.PQBasic
namespace SST.Proofs
open SST PQ

variable {K V : Type}

/-- all items of all inputs, tagged with the number of their input -/
def tagged (inputs : List (List (K × V))) : List (K × V × Nat) :=
  ((List.range inputs.length).zip inputs).flatMap fun (i, l) => l.map fun (k, v) => (k, v, i)

namespace PQB

/-! ### what is still to come -/

/-- the tagged items one heap element stands for: its current item and the rest of its input -/
def items (e : PElem K V) : List (K × V × Nat) :=
  (e.key, e.val, e.ctx) :: e.rest.map fun (k, v) => (k, v, e.ctx)

def pending (h : Heap K V) : List (K × V × Nat) := h.flatMap items

/-- current item followed by the remaining ones is non-descending -/
def ElemOK (cmp : K → K → Ordering) (e : PElem K V) : Prop := NonDesc cmp ((e.key, e.val) :: e.rest)

def AllOK (cmp : K → K → Ordering) (h : Heap K V) : Prop := ∀ e ∈ h, ElemOK cmp e

theorem pending_cons (e : PElem K V) (h : Heap K V) : pending (e :: h) = items e ++ pending h := by
  simp [pending]

theorem pending_perm {h h' : Heap K V} (p : h.Perm h') : (pending h).Perm (pending h') :=
  p.flatMap_right _

theorem allOK_perm {cmp : K → K → Ordering} {h h' : Heap K V} (p : h.Perm h') (ok : AllOK cmp h) :
    AllOK cmp h' := fun e he => ok e (p.mem_iff.mpr he)

theorem items_ctx (e : PElem K V) : ∀ x ∈ items e, x.2.2 = e.ctx := by
  intro x hx
  simp only [items, List.mem_cons, List.mem_map] at hx
  rcases hx with rfl | ⟨y, _, rfl⟩ <;> rfl

/-- everything still pending is ≥ the root -/
theorem pending_lb {cmp : K → K → Ordering} (hl : LawfulCmp cmp) {top : PElem K V} {tl : Heap K V}
    (ho : HeapOrd cmp (top :: tl)) (ok : AllOK cmp (top :: tl)) :
    ∀ x ∈ pending (top :: tl), cmp top.key x.1 ≠ .gt := by
  intro x hx
  simp only [pending, List.mem_flatMap] at hx
  obtain ⟨e, he, hxe⟩ := hx
  have hte : cmp top.key e.key ≠ .gt := root_min_mem hl ho e he
  simp only [items, List.mem_cons, List.mem_map] at hxe
  rcases hxe with rfl | ⟨y, hy, rfl⟩
  · exact hte
  · have hok := ok e he
    simp only [ElemOK, NonDesc, List.pairwise_cons] at hok
    exact cmp_le_trans hl hte (hok.1 y hy)

/-- one `next`, in terms of a canonical successor heap `h''` -/
theorem next_step {cmp : K → K → Ordering} (hl : LawfulCmp cmp) {h h' : Heap K V} {out : K × V × Nat}
    (ho : HeapOrd cmp h) (hn : next cmp h = some (out, h')) :
    ∃ top tl h'', h = top :: tl ∧ out.1 = top.key ∧ HeapOrd cmp h' ∧ h'.Perm h'' ∧
      pending h = out :: pending h'' ∧ (AllOK cmp h → AllOK cmp h'') ∧
      ((h.map (·.ctx)).Nodup → (h''.map (·.ctx)).Nodup) := by
  obtain ⟨top, tl, rfl, rfl, ho', hcase⟩ := next_spec hl ho hn
  rcases hcase with ⟨k', v', rest', hrest, hp⟩ | ⟨hrest, hp⟩
  · refine ⟨top, tl, _, rfl, rfl, ho', hp, ?_, ?_, ?_⟩
    · simp [pending_cons, items, hrest]
    · intro ok e he
      rcases List.mem_cons.mp he with rfl | he
      · have := ok top (List.mem_cons_self)
        simp only [ElemOK, NonDesc, hrest] at this ⊢
        exact (List.pairwise_cons.mp this).2
      · exact ok e (List.mem_cons_of_mem _ he)
    · intro nd; simpa using nd
  · refine ⟨top, tl, tl, rfl, rfl, ho', hp, ?_, ?_, ?_⟩
    · simp [pending_cons, items, hrest]
    · intro ok e he; exact ok e (List.mem_cons_of_mem _ he)
    · intro nd
      simp only [List.map_cons, List.nodup_cons] at nd
      exact nd.2

/-! ### draining -/

theorem drainAux_spec {cmp : K → K → Ordering} (hl : LawfulCmp cmp) :
    ∀ (fuel : Nat) (h : Heap K V), HeapOrd cmp h → AllOK cmp h → (pending h).length < fuel →
      (drainAux cmp fuel h).Pairwise (fun a b => cmp a.1 b.1 ≠ .gt) ∧
        (drainAux cmp fuel h).Perm (pending h) := by
  intro fuel
  induction fuel with
  | zero => intro h _ _ hf; omega
  | succ n ih =>
    intro h ho ok hf
    unfold drainAux
    cases hn : next cmp h with
    | none =>
      have := next_none hn
      subst this
      simp [pending]
    | some r =>
      obtain ⟨out, h'⟩ := r
      simp only []
      obtain ⟨top, tl, h'', rfl, hout, ho', hp, hpend, hok, _⟩ := next_step hl ho hn
      have hpp : (pending h').Perm (pending h'') := pending_perm hp
      have ok' : AllOK cmp h' := allOK_perm hp.symm (hok ok)
      have hlen : (pending h').length < n := by
        rw [hpp.length_eq]; rw [hpend] at hf; simp at hf; omega
      obtain ⟨ihs, ihp⟩ := ih h' ho' ok' hlen
      constructor
      · rw [List.pairwise_cons]
        refine ⟨?_, ihs⟩
        intro x hx
        have hx2 : x ∈ pending (top :: tl) := by
          rw [hpend]
          exact List.mem_cons_of_mem _ (hpp.mem_iff.mp (ihp.mem_iff.mp hx))
        rw [hout]
        exact pending_lb hl ho ok x hx2
      · rw [hpend]
        exact (List.perm_cons out).mpr (ihp.trans hpp)

/-! ### per-input order -/

theorem filter_pending (i : Nat) (h : Heap K V) :
    (pending h).filter (fun o => o.2.2 == i) =
      (h.filter (fun e => e.ctx == i)).flatMap items := by
  induction h with
  | nil => simp [pending]
  | cons e h ih =>
    rw [pending_cons, List.filter_append, ih, List.filter_cons]
    by_cases hc : e.ctx = i
    · have : (items e).filter (fun o => o.2.2 == i) = items e := by
        rw [List.filter_eq_self]
        intro x hx; simp [items_ctx e x hx, hc]
      simp [hc, this]
    · have : (items e).filter (fun o => o.2.2 == i) = [] := by
        rw [List.filter_eq_nil_iff]
        intro x hx; simp [items_ctx e x hx, hc]
      simp [hc, this]

theorem filter_ctx_length (i : Nat) (h : Heap K V) (nd : (h.map (·.ctx)).Nodup) :
    (h.filter (fun e => e.ctx == i)).length ≤ 1 := by
  induction h with
  | nil => simp
  | cons e h ih =>
    simp only [List.map_cons, List.nodup_cons] at nd
    rw [List.filter_cons]
    by_cases hc : e.ctx = i
    · have : h.filter (fun e => e.ctx == i) = [] := by
        rw [List.filter_eq_nil_iff]
        intro a ha hai
        simp at hai
        apply nd.1
        rw [hc, ← hai]
        exact List.mem_map_of_mem ha
      simp [hc, this]
    · simp [hc]; exact ih nd.2

theorem perm_eq_of_length_le_one {α : Type} {l l' : List α} (p : l.Perm l') (hlen : l.length ≤ 1) :
    l = l' := by
  match l, hlen with
  | [], _ => exact (List.nil_perm.mp p).symm
  | [a], _ => exact List.singleton_perm.mp p

theorem filter_pending_perm (i : Nat) {h h' : Heap K V} (p : h.Perm h') (nd : (h.map (·.ctx)).Nodup) :
    (pending h).filter (fun o => o.2.2 == i) = (pending h').filter (fun o => o.2.2 == i) := by
  rw [filter_pending, filter_pending]
  rw [perm_eq_of_length_le_one (p.filter _) (filter_ctx_length i h nd)]

theorem drainAux_filter {cmp : K → K → Ordering} (hl : LawfulCmp cmp) (i : Nat) :
    ∀ (fuel : Nat) (h : Heap K V), HeapOrd cmp h → (h.map (·.ctx)).Nodup →
      (pending h).length < fuel →
      (drainAux cmp fuel h).filter (fun o => o.2.2 == i) =
        (pending h).filter (fun o => o.2.2 == i) := by
  intro fuel
  induction fuel with
  | zero => intro h _ _ hf; omega
  | succ n ih =>
    intro h ho nd hf
    unfold drainAux
    cases hn : next cmp h with
    | none =>
      have := next_none hn
      subst this
      simp [pending]
    | some r =>
      obtain ⟨out, h'⟩ := r
      simp only []
      obtain ⟨top, tl, h'', rfl, hout, ho', hp, hpend, _, hnd⟩ := next_step hl ho hn
      have hpp : (pending h').Perm (pending h'') := pending_perm hp
      have nd'' := hnd nd
      have nd' : (h'.map (·.ctx)).Nodup := ((hp.map _).nodup_iff).mpr nd''
      have hlen : (pending h').length < n := by
        rw [hpp.length_eq]; rw [hpend] at hf; simp at hf; omega
      rw [hpend, List.filter_cons, List.filter_cons, ih h' ho' nd' hlen,
        filter_pending_perm i hp nd']

/-! ### `init` -/

/-- the heap elements `init` creates, in input order -/
def raw : Nat → List (List (K × V)) → Heap K V
  | _, [] => []
  | n, [] :: ins => raw (n + 1) ins
  | n, ((k, v) :: rest) :: ins => ⟨k, v, n, rest⟩ :: raw (n + 1) ins

def taggedFrom (n : Nat) (ins : List (List (K × V))) : List (K × V × Nat) :=
  ((List.range' n ins.length).zip ins).flatMap fun (i, l) => l.map fun (k, v) => (k, v, i)

theorem tagged_eq (ins : List (List (K × V))) : tagged ins = taggedFrom 0 ins := by
  simp [tagged, taggedFrom, List.range_eq_range']

theorem taggedFrom_cons (n : Nat) (l : List (K × V)) (ins : List (List (K × V))) :
    taggedFrom n (l :: ins) = (l.map fun (k, v) => (k, v, n)) ++ taggedFrom (n + 1) ins := by
  simp [taggedFrom, List.range'_succ]

theorem pending_raw (n : Nat) (ins : List (List (K × V))) : pending (raw n ins) = taggedFrom n ins := by
  induction ins generalizing n with
  | nil => simp [raw, pending, taggedFrom]
  | cons l ins ih =>
    cases l with
    | nil => rw [raw, ih, taggedFrom_cons]; simp
    | cons kv rest =>
      obtain ⟨k, v⟩ := kv
      rw [raw, pending_cons, ih, taggedFrom_cons]; simp [items]

theorem raw_ctx (n : Nat) (ins : List (List (K × V))) : ∀ e ∈ raw n ins, n ≤ e.ctx := by
  induction ins generalizing n with
  | nil => simp [raw]
  | cons l ins ih =>
    cases l with
    | nil => intro e he; rw [raw] at he; have := ih (n + 1) e he; omega
    | cons kv rest =>
      obtain ⟨k, v⟩ := kv
      intro e he
      rw [raw] at he
      rcases List.mem_cons.mp he with rfl | he
      · simp
      · have := ih (n + 1) e he; omega

theorem raw_nodup (n : Nat) (ins : List (List (K × V))) : ((raw n ins).map (·.ctx)).Nodup := by
  induction ins generalizing n with
  | nil => simp [raw]
  | cons l ins ih =>
    cases l with
    | nil => rw [raw]; exact ih _
    | cons kv rest =>
      obtain ⟨k, v⟩ := kv
      rw [raw, List.map_cons, List.nodup_cons]
      refine ⟨?_, ih _⟩
      intro hm
      obtain ⟨e, he, hce⟩ := List.mem_map.mp hm
      have := raw_ctx (n + 1) ins e he
      simp at hce; omega

theorem raw_ok {cmp : K → K → Ordering} (n : Nat) (ins : List (List (K × V)))
    (hs : ∀ l ∈ ins, NonDesc cmp l) : AllOK cmp (raw n ins) := by
  induction ins generalizing n with
  | nil => intro e he; simp [raw] at he
  | cons l ins ih =>
    have hs' : ∀ l ∈ ins, NonDesc cmp l := fun l hl => hs l (List.mem_cons_of_mem _ hl)
    cases l with
    | nil => rw [raw]; exact ih _ hs'
    | cons kv rest =>
      obtain ⟨k, v⟩ := kv
      rw [raw]
      intro e he
      rcases List.mem_cons.mp he with rfl | he
      · exact hs _ List.mem_cons_self
      · exact ih _ hs' e he

theorem initAux_spec {cmp : K → K → Ordering} (hl : LawfulCmp cmp) (ins : List (List (K × V))) :
    ∀ (h : Heap K V) (n : Nat), HeapOrd cmp h →
      HeapOrd cmp (initAux cmp h n ins) ∧ (initAux cmp h n ins).Perm (h ++ raw n ins) := by
  induction ins with
  | nil => intro h n ho; simp [initAux, raw, ho]
  | cons l ins ih =>
    intro h n ho
    cases l with
    | nil => rw [initAux, raw]; exact ih h (n + 1) ho
    | cons kv rest =>
      obtain ⟨k, v⟩ := kv
      rw [initAux, raw]
      obtain ⟨ho1, hp1⟩ := upHeap_append hl h ⟨k, v, n, rest⟩ ho
      obtain ⟨ho2, hp2⟩ := ih _ (n + 1) ho1
      refine ⟨ho2, hp2.trans ?_⟩
      have : h ++ (⟨k, v, n, rest⟩ :: raw (n + 1) ins) = (h ++ [⟨k, v, n, rest⟩]) ++ raw (n + 1) ins := by
        simp
      rw [this]
      exact hp1.append_right _

theorem init_spec {cmp : K → K → Ordering} (hl : LawfulCmp cmp) (ins : List (List (K × V))) :
    HeapOrd cmp (init cmp ins) ∧ (init cmp ins).Perm (raw 0 ins) := by
  have := initAux_spec hl ins [] 0 (heapOrd_nil cmp)
  simpa [init] using this

theorem taggedFrom_length (n : Nat) (ins : List (List (K × V))) :
    (taggedFrom n ins).length = total ins := by
  induction ins generalizing n with
  | nil => simp [taggedFrom, total]
  | cons l ins ih =>
    rw [taggedFrom_cons, List.length_append, ih]
    simp [total]

theorem taggedFrom_ctx (n : Nat) (ins : List (List (K × V))) : ∀ x ∈ taggedFrom n ins, n ≤ x.2.2 := by
  induction ins generalizing n with
  | nil => simp [taggedFrom]
  | cons l ins ih =>
    intro x hx
    rw [taggedFrom_cons] at hx
    rcases List.mem_append.mp hx with hx | hx
    · obtain ⟨y, _, rfl⟩ := List.mem_map.mp hx
      simp
    · have := ih (n + 1) x hx; omega

theorem taggedFrom_filter (i : Nat) (ins : List (List (K × V))) :
    ∀ (n : Nat) (l : List (K × V)), n ≤ i → ins[i - n]? = some l →
      ((taggedFrom n ins).filter (fun o => o.2.2 == i)).map (fun o => (o.1, o.2.1)) = l := by
  induction ins with
  | nil => intro n l _ h; simp at h
  | cons l0 ins ih =>
    intro n l hni hl
    rw [taggedFrom_cons, List.filter_append, List.map_append]
    by_cases hc : n = i
    · subst hc
      simp at hl
      subst hl
      have h1 : (taggedFrom (n + 1) ins).filter (fun o => o.2.2 == n) = [] := by
        rw [List.filter_eq_nil_iff]
        intro x hx
        have := taggedFrom_ctx (n + 1) ins x hx
        simp; omega
      have h2 : (l0.map fun (k, v) => (k, v, n)).filter (fun o => o.2.2 == n) =
          (l0.map fun (k, v) => (k, v, n)) := by
        rw [List.filter_eq_self]
        intro x hx
        obtain ⟨y, _, rfl⟩ := List.mem_map.mp hx
        simp
      rw [h1, h2]
      simp only [List.map_nil, List.append_nil, List.map_map]
      conv => rhs; rw [← List.map_id l0]
      apply List.map_congr_left
      intro x _; rfl
    · have h2 : (l0.map fun (k, v) => (k, v, n)).filter (fun o => o.2.2 == i) = [] := by
        rw [List.filter_eq_nil_iff]
        intro x hx
        obtain ⟨y, _, rfl⟩ := List.mem_map.mp hx
        simp [hc]
      have h3 : i - n = (i - (n + 1)) + 1 := by omega
      rw [h3, List.getElem?_cons_succ] at hl
      rw [h2, ih (n + 1) l (by omega) hl]
      simp

end PQB

open PQB

/-- The queue over any number of non-descending inputs returns every item of every input exactly once
(together with the number of its input), in non-descending key order. -/
theorem pq_sorted_merge (cmp : K → K → Ordering) (hl : LawfulCmp cmp) (inputs : List (List (K × V)))
    (hs : ∀ l ∈ inputs, NonDesc cmp l) :
    (drain cmp inputs).Pairwise (fun a b => cmp a.1 b.1 ≠ .gt) ∧
    (drain cmp inputs).Perm (tagged inputs) := by
  obtain ⟨ho, hp⟩ := init_spec hl inputs
  have ok : AllOK cmp (init cmp inputs) := allOK_perm hp.symm (raw_ok 0 inputs hs)
  have hpend : (pending (init cmp inputs)).Perm (tagged inputs) := by
    rw [tagged_eq, ← pending_raw]; exact pending_perm hp
  have hlen : (pending (init cmp inputs)).length < total inputs + 1 := by
    rw [hpend.length_eq, tagged_eq, taggedFrom_length]; omega
  obtain ⟨h1, h2⟩ := drainAux_spec hl (total inputs + 1) (init cmp inputs) ho ok hlen
  exact ⟨h1, h2.trans hpend⟩

/-- Items of one input keep their relative order (needed by the latest-wins reducers: equal keys of the
same input cannot occur, and the per-input order is the iterator's). -/
theorem pq_per_input_order (cmp : K → K → Ordering) (hl : LawfulCmp cmp) (inputs : List (List (K × V)))
    (hs : ∀ l ∈ inputs, NonDesc cmp l) (i : Nat) (hi : i < inputs.length) :
    ((drain cmp inputs).filter (fun o => o.2.2 == i)).map (fun o => (o.1, o.2.1)) = inputs[i] := by
  have _ := hs
  obtain ⟨ho, hp⟩ := init_spec hl inputs
  have nd : ((init cmp inputs).map (·.ctx)).Nodup := ((hp.map _).nodup_iff).mpr (raw_nodup 0 inputs)
  have hpend : (pending (init cmp inputs)).Perm (tagged inputs) := by
    rw [tagged_eq, ← pending_raw]; exact pending_perm hp
  have hlen : (pending (init cmp inputs)).length < total inputs + 1 := by
    rw [hpend.length_eq, tagged_eq, taggedFrom_length]; omega
  have h1 := drainAux_filter hl i (total inputs + 1) (init cmp inputs) ho nd hlen
  unfold drain
  rw [h1, filter_pending_perm i hp nd, pending_raw]
  exact taggedFrom_filter i inputs 0 _ (Nat.zero_le _) (by simp [hi])

end SST.Proofs
