import SST.Model.PQ
import SST.Spec.Sorted
namespace SST.Proofs
open SST PQ

variable {K V : Type}

/-- all items of all inputs, tagged with the number of their input -/
def tagged (inputs : List (List (K × V))) : List (K × V × Nat) :=
  ((List.range inputs.length).zip inputs).flatMap fun (i, l) => l.map fun (k, v) => (k, v, i)

/-- The queue over any number of non-descending inputs returns every item of every input exactly once
(together with the number of its input), in non-descending key order. -/
theorem pq_sorted_merge (cmp : K → K → Ordering) (hl : LawfulCmp cmp) (inputs : List (List (K × V)))
    (hs : ∀ l ∈ inputs, NonDesc cmp l) :
    (drain cmp inputs).Pairwise (fun a b => cmp a.1 b.1 ≠ .gt) ∧
    (drain cmp inputs).Perm (tagged inputs) := by
  sorry

/-- Items of one input keep their relative order (needed by the latest-wins reducers: equal keys of the
same input cannot occur, and the per-input order is the iterator's). -/
theorem pq_per_input_order (cmp : K → K → Ordering) (hl : LawfulCmp cmp) (inputs : List (List (K × V)))
    (hs : ∀ l ∈ inputs, NonDesc cmp l) (i : Nat) (hi : i < inputs.length) :
    ((drain cmp inputs).filter (fun o => o.2.2 == i)).map (fun o => (o.1, o.2.1)) = inputs[i] := by
  sorry

end SST.Proofs
