/-
L6-fs, interleaved: the bookkeeping invariant `G` — the mutations that are durable (`Hd`) are a prefix of the history
of all mutations begun so far, the rest sits in the appender; what the disk serves is the reference after `Hd`.
-/
import SST.Proofs.FSInterleaveStep
namespace SST.Proofs.FSI
open SST SST.DBM SST.FS SST.FSI SST.Proofs.DB SST.Proofs.FS

structure G (async : Bool) (E : Key → Option Bytes) (c : Cfg) : Prop where
  ex : ∃ Hd, c.hist = Hd ++ c.queue ∧ served (memState c) c.rc = applySpec E Hd ∧ c.mark ≤ Hd.length ∧
    (async = false → c.acked ≤ Hd.length)
  a1 : c.acked ≤ c.hist.length
  a2 : c.hist.length ≤ c.acked + 1
  a3 : c.pc = .idle → c.acked = c.hist.length

/-- `served` only looks at the store being flushed, the tables and the records in the current file -/
theorem served_congr (s s' : State) (rc : List Mutation) (hr : s'.r = s.r) (ht : s'.tables = s.tables) :
    served s' rc = served s rc := by
  funext k
  unfold served base
  rw [hr, ht]

theorem served_vis (s s' : State) (rc : List Mutation) (hr : s'.r = s.r)
    (ht : ∀ k, vis (tablesGet s'.tables k) = vis (tablesGet s.tables k)) : served s' rc = served s rc := by
  funext k
  unfold served base
  rw [hr]
  exact vis_c3 _ _ _ _ (ht k)

/-- a move that does not touch the history, the appender, the current file's records, the flushed store or the
reader list -/
theorem G_frame {async : Bool} {E : Key → Option Bytes} {c c' : Cfg} (h : G async E c)
    (h1 : c'.hist = c.hist) (h2 : c'.queue = c.queue) (h3 : c'.rc = c.rc) (h4 : c'.mark = c.mark)
    (h5 : c'.acked = c.acked) (h6 : fStore c' = fStore c) (h7 : c'.tables = c.tables)
    (h8 : c'.pc = .idle → c.pc = .idle) : G async E c' := by
  obtain ⟨Hd, e1, e2, e3, e4⟩ := h.ex
  refine ⟨⟨Hd, by rw [h1, h2]; exact e1, ?_, by rw [h4]; exact e3, by rw [h5]; exact e4⟩,
    by rw [h5, h1]; exact h.a1, by rw [h5, h1]; exact h.a2, fun hp => by rw [h5, h1]; exact h.a3 (h8 hp)⟩
  rw [h3, ← e2]
  exact served_congr _ _ _ h6 h7

theorem G_client1 (async : Bool) (E : Key → Option Bytes) (c c' : Cfg) (e : Option Ev) (hS : S c) (h : G async E c) :
    (move async c .begin = some (e, c') → G async E c') ∧
    (move async c .torn = some (e, c') → G async E c') ∧
    (move async c .append = some (e, c') → G async E c') ∧
    (move async c .done = some (e, c') → G async E c') := by
  refine ⟨?_, ?_, ?_, ?_⟩
  · intro hm
    simp only [move] at hm
    split at hm
    · cases hm
    · rename_i _ _ _ op rest hpc hprog hnr
      obtain ⟨Hd, e1, e2, e3, e4⟩ := h.ex
      have ha := h.a3 hpc
      have hput : ∀ (m : Mutation) (pc' : Pc), pc' ≠ .idle →
          G async E { c with prog := rest, pc := pc', queue := c.queue ++ [m], w := m.apply c.w, hist := c.hist ++ [m] } := by
        intro m pc' hpc'
        refine ⟨⟨Hd, ?_, ?_, e3, e4⟩, ?_, ?_, ?_⟩
        · show c.hist ++ [m] = Hd ++ (c.queue ++ [m])
          rw [e1, List.append_assoc]
        · rw [← e2]; exact served_congr _ _ _ rfl rfl
        · show c.acked ≤ (c.hist ++ [m]).length
          rw [List.length_append]; omega
        · show (c.hist ++ [m]).length ≤ c.acked + 1
          rw [List.length_append]; simp; omega
        · intro hx; exact absurd hx hpc'
      cases op with
      | nop =>
        simp only [Option.some.injEq, Prod.mk.injEq] at hm
        obtain ⟨_, rfl⟩ := hm
        exact G_frame h rfl rfl rfl rfl rfl rfl rfl (fun _ => hpc)
      | rotate =>
        simp only [Option.some.injEq, Prod.mk.injEq] at hm
        obtain ⟨_, rfl⟩ := hm
        exact G_frame h rfl rfl rfl rfl rfl rfl rfl (fun hx => by cases hx)
      | put k v rot =>
        simp only at hm
        by_cases hv : (k.isEmpty || v.isEmpty) = true
        · rw [if_pos hv] at hm
          simp only [Option.some.injEq, Prod.mk.injEq] at hm
          obtain ⟨_, rfl⟩ := hm
          exact G_frame h rfl rfl rfl rfl rfl rfl rfl (fun _ => hpc)
        · rw [if_neg hv] at hm
          simp only [Option.some.injEq, Prod.mk.injEq] at hm
          obtain ⟨_, rfl⟩ := hm
          exact hput _ _ (by intro hx; cases hx)
      | del k =>
        simp only [Option.some.injEq, Prod.mk.injEq] at hm
        obtain ⟨_, rfl⟩ := hm
        exact hput _ _ (by intro hx; cases hx)
    · cases hm
  · intro hm
    simp only [move] at hm
    by_cases hc : (c.pc.logging && !c.queue.isEmpty) = true
    · rw [if_pos hc] at hm
      simp only [Option.some.injEq, Prod.mk.injEq] at hm
      obtain ⟨_, rfl⟩ := hm
      exact G_frame h rfl rfl rfl rfl rfl rfl rfl (fun hx => hx)
    · rw [if_neg hc] at hm; cases hm
  · intro hm
    simp only [move] at hm
    cases hq : c.queue with
    | nil => rw [hq] at hm; cases hm
    | cons m q =>
      rw [hq] at hm
      simp only at hm
      by_cases hc : c.pc.logging = true
      · rw [if_pos hc] at hm
        simp only [Option.some.injEq, Prod.mk.injEq] at hm
        obtain ⟨_, rfl⟩ := hm
        obtain ⟨Hd, e1, e2, e3, e4⟩ := h.ex
        have hmok : m.ok = true := hS.qOk m (by rw [hq]; exact List.mem_cons_self)
        refine ⟨⟨Hd ++ [m], ?_, ?_, ?_, ?_⟩, h.a1, h.a2, h.a3⟩
        · show c.hist = Hd ++ [m] ++ q
          rw [e1, hq]; simp
        · show served (memState c) (c.rc ++ [m]) = _
          rw [served_snoc _ _ _ hmok, e2, applySpec_append]
          rfl
        · show c.mark ≤ (Hd ++ [m]).length
          rw [List.length_append]; omega
        · intro ha; have := e4 ha
          show c.acked ≤ (Hd ++ [m]).length
          rw [List.length_append]; omega
      · rw [if_neg hc] at hm; cases hm
  · intro hm
    simp only [move] at hm
    cases hpc : c.pc with
    | app rot =>
      rw [hpc] at hm
      simp only at hm
      by_cases h1 : (!async && !c.queue.isEmpty) = true
      · rw [if_pos h1] at hm; cases hm
      · rw [if_neg h1] at hm
        cases rot with
        | true =>
          simp only [if_true, Option.some.injEq, Prod.mk.injEq] at hm
          obtain ⟨_, rfl⟩ := hm
          exact G_frame h rfl rfl rfl rfl rfl rfl rfl (fun hx => by cases hx)
        | false =>
          simp only [Bool.false_eq_true, if_false, Option.some.injEq, Prod.mk.injEq] at hm
          obtain ⟨_, rfl⟩ := hm
          obtain ⟨Hd, e1, e2, e3, e4⟩ := h.ex
          refine ⟨⟨Hd, e1, e2, e3, ?_⟩, Nat.le_refl _, Nat.le_succ _, fun _ => rfl⟩
          intro ha
          subst ha
          have hq : c.queue = [] := by simpa using h1
          show c.hist.length ≤ Hd.length
          rw [e1, hq]; simp
    | idle => rw [hpc] at hm; cases hm
    | rot0 => rw [hpc] at hm; cases hm
    | rot1 => rw [hpc] at hm; cases hm
    | rot2 => rw [hpc] at hm; cases hm
    | rot3 => rw [hpc] at hm; cases hm

theorem G_client2 (async : Bool) (E : Key → Option Bytes) (c c' : Cfg) (e : Option Ev) (hS : S c) (h : G async E c) :
    (move async c .close = some (e, c') → G async E c') ∧
    (move async c .create = some (e, c') → G async E c') ∧
    (move async c .header = some (e, c') → G async E c') ∧
    (move async c .handoff = some (e, c') → G async E c') := by
  refine ⟨?_, ?_, ?_, ?_⟩
  · intro hm
    simp only [move] at hm
    by_cases hc : (c.pc == .rot0 && c.queue.isEmpty && !c.tn) = true
    · rw [if_pos hc] at hm
      simp only [Option.some.injEq, Prod.mk.injEq] at hm
      obtain ⟨_, rfl⟩ := hm
      exact G_frame h rfl rfl rfl rfl rfl rfl rfl (fun hx => by cases hx)
    · rw [if_neg hc] at hm; cases hm
  · intro hm
    simp only [move] at hm
    by_cases hc : (c.pc == .rot1) = true
    · rw [if_pos hc] at hm
      simp only [Option.some.injEq, Prod.mk.injEq] at hm
      obtain ⟨_, rfl⟩ := hm
      exact G_frame h rfl rfl rfl rfl rfl rfl rfl (fun hx => by cases hx)
    · rw [if_neg hc] at hm; cases hm
  · intro hm
    simp only [move] at hm
    by_cases hc : (c.pc == .rot2) = true
    · rw [if_pos hc] at hm
      simp only [Option.some.injEq, Prod.mk.injEq] at hm
      obtain ⟨_, rfl⟩ := hm
      exact G_frame h rfl rfl rfl rfl rfl rfl rfl (fun hx => by cases hx)
    · rw [if_neg hc] at hm; cases hm
  · intro hm
    simp only [move] at hm
    cases hpc : c.pc with
    | rot3 =>
      cases hfl : c.fl with
      | some j => rw [hpc, hfl] at hm; cases hm
      | none =>
        rw [hpc, hfl] at hm
        simp only at hm
        obtain ⟨hq, _⟩ := hS.pcq (Or.inr (Or.inr hpc))
        obtain ⟨Hd, e1, e2, e3, e4⟩ := h.ex
        have hHd : c.hist = Hd := by rw [e1, hq, List.append_nil]
        have hw : applyMuts [] c.rc = c.w := by have := hS.wq; rw [hq, List.append_nil] at this; exact this
        have hfs : fStore c = [] := by unfold fStore; rw [hfl]
        -- what is served does not change: the records of the closed file are the handed-over store
        have hserved : ∀ (s' : State), s'.tables = c.tables → (∀ k, Layer.get s'.r k = Layer.get c.w k) →
            served s' [] = served (memState c) c.rc := by
          intro s' ht hr
          funext k
          unfold served base
          rw [ht, hr k, hw]
          show _ = vis ((Layer.get c.w k).or ((Layer.get (fStore c) k).or _))
          rw [hfs]
          simp [applyMuts_nil, layerGet_nil]
          rfl
        by_cases hwe : c.w.isEmpty = true
        · rw [if_pos hwe] at hm
          simp only [Option.some.injEq, Prod.mk.injEq] at hm
          obtain ⟨_, rfl⟩ := hm
          have hw0 : c.w = [] := by simpa using hwe
          refine ⟨⟨Hd, ?_, ?_, ?_, ?_⟩, Nat.le_refl _, Nat.le_succ _, fun _ => rfl⟩
          · show c.hist = Hd ++ c.queue
            exact e1
          · rw [← e2]
            apply hserved _ rfl
            intro k
            show Layer.get [] k = _
            rw [hw0]
          · show c.hist.length ≤ Hd.length
            rw [hHd]; exact Nat.le_refl _
          · intro _; show c.hist.length ≤ Hd.length; rw [hHd]; exact Nat.le_refl _
        · rw [if_neg hwe] at hm
          simp only [Option.some.injEq, Prod.mk.injEq] at hm
          obtain ⟨_, rfl⟩ := hm
          refine ⟨⟨Hd, ?_, ?_, ?_, ?_⟩, Nat.le_refl _, Nat.le_succ _, fun _ => rfl⟩
          · show c.hist = Hd ++ c.queue
            exact e1
          · rw [← e2]
            exact hserved _ rfl (fun k => rfl)
          · show c.hist.length ≤ Hd.length
            rw [hHd]; exact Nat.le_refl _
          · intro _; show c.hist.length ≤ Hd.length; rw [hHd]; exact Nat.le_refl _
    | idle => rw [hpc] at hm; cases hm
    | app r => rw [hpc] at hm; cases hm
    | rot0 => rw [hpc] at hm; cases hm
    | rot1 => rw [hpc] at hm; cases hm
    | rot2 => rw [hpc] at hm; cases hm

theorem G_bg (async : Bool) (E : Key → Option Bytes) (c c' : Cfg) (e : Option Ev) (hS : S c) (h : G async E c) :
    (move async c .fstep = some (e, c') → G async E c') ∧
    (move async c .fadd = some (e, c') → G async E c') ∧
    (∀ sizes th o, move async c (.kstart sizes th o) = some (e, c') → G async E c') ∧
    (move async c .kreflect = some (e, c') → G async E c') ∧
    (∀ jk, move async c (.kstep jk) = some (e, c') → G async E c') := by
  refine ⟨?_, ?_, ?_, ?_, ?_⟩
  · intro hm
    simp only [move] at hm
    cases hfl : c.fl with
    | none => rw [hfl] at hm; cases hm
    | some j =>
      rw [hfl] at hm
      simp only at hm
      cases he : (flushCalls j)[j.stage]? with
      | none => rw [he] at hm; cases hm
      | some ev =>
        rw [he] at hm
        simp only [Option.some.injEq, Prod.mk.injEq] at hm
        obtain ⟨_, rfl⟩ := hm
        exact G_frame h rfl rfl rfl rfl rfl (by unfold fStore; rw [hfl]) rfl (fun hx => hx)
  · intro hm
    simp only [move] at hm
    split at hm
    · cases hm
    · rename_i _ _ j hfl hnr0
      by_cases hs : j.stage = 6
      · rw [if_pos hs] at hm
        simp only [Option.some.injEq, Prod.mk.injEq] at hm
        obtain ⟨_, rfl⟩ := hm
        obtain ⟨Hd, e1, e2, e3, e4⟩ := h.ex
        refine ⟨⟨Hd, e1, ?_, e3, e4⟩, h.a1, h.a2, h.a3⟩
        rw [← e2]
        funext k
        unfold served base memState fStore
        rw [hfl]
        simp only [tablesGet_append, tablesGet_single, layerGet_nil, Option.none_or]
      · rw [if_neg hs] at hm; cases hm
    · cases hm
  · intro sizes th o hm
    simp only [move] at hm
    cases hkj : c.kj with
    | idle =>
      rw [hkj] at hm
      simp only at hm
      split at hm
      · cases hm
      · split at hm
        · simp only [Option.some.injEq, Prod.mk.injEq] at hm
          obtain ⟨_, rfl⟩ := hm
          exact G_frame h rfl rfl rfl rfl rfl rfl rfl (fun hx => hx)
        · cases hm
    | merging => rw [hkj] at hm; cases hm
    | reflecting => rw [hkj] at hm; cases hm
  · intro hm
    simp only [move] at hm
    split at hm
    · simp only [Option.some.injEq, Prod.mk.injEq] at hm
      obtain ⟨_, rfl⟩ := hm
      exact G_frame h rfl rfl rfl rfl rfl rfl rfl (fun hx => hx)
    · cases hm
  · intro jk hm
    simp only [move] at hm
    cases hkj : c.kj with
    | idle => rw [hkj] at hm; cases hm
    | merging npre nsel cells st =>
      rw [hkj] at hm
      simp only at hm
      cases he : (mergeCalls (kMeta c.tables npre nsel) cells)[st]? with
      | none => rw [he] at hm; cases hm
      | some ev =>
        rw [he] at hm
        simp only [Option.some.injEq, Prod.mk.injEq] at hm
        obtain ⟨_, rfl⟩ := hm
        exact G_frame h rfl rfl rfl rfl rfl rfl rfl (fun hx => hx)
    | reflecting npre nsel cells j sub J =>
      rw [hkj] at hm
      simp only at hm
      have hk := hS.kwf
      unfold KWf at hk
      rw [hkj] at hk
      have hsub3 : sub = 0 ∨ sub = 1 ∨ sub = 2 ∨ sub = 3 := by have := hk.2.2.2.2.1; omega
      cases hget : (kIns c.tables npre nsel)[j]? with
      | none =>
        rw [hget] at hm
        simp only [Option.some.injEq, Prod.mk.injEq] at hm
        obtain ⟨_, rfl⟩ := hm
        obtain ⟨Hd, e1, e2, e3, e4⟩ := h.ex
        refine ⟨⟨Hd, e1, ?_, e3, e4⟩, h.a1, h.a2, h.a3⟩
        rw [← e2]
        refine served_vis (memState c) _ c.rc rfl ?_
        intro k
        show vis (tablesGet (c.tables.take npre ++ [{ gen := (kMeta c.tables npre nsel).replacement, cells := cells }] ++
          c.tables.drop (npre + nsel)) k) = vis (tablesGet c.tables k)
        conv => rhs; rw [split3 c.tables npre nsel]
        rw [hk.2.2.1]
        exact vis_tablesGet_merge _ _ _ _ (npre == 0) (by
          intro hd
          have : npre = 0 := by simpa using hd
          rw [this]; rfl) k
      | some t =>
        rw [hget] at hm
        simp only at hm
        rcases hsub3 with (rfl | rfl | rfl | rfl)
        · cases jk with
          | some J' =>
            simp only [Option.some.injEq, Prod.mk.injEq] at hm
            obtain ⟨_, rfl⟩ := hm
            exact G_frame h rfl rfl rfl rfl rfl rfl rfl (fun hx => hx)
          | none =>
            simp only [Option.some.injEq, Prod.mk.injEq] at hm
            obtain ⟨_, rfl⟩ := hm
            exact G_frame h rfl rfl rfl rfl rfl rfl rfl (fun hx => hx)
        · simp only [Option.some.injEq, Prod.mk.injEq] at hm
          obtain ⟨_, rfl⟩ := hm
          exact G_frame h rfl rfl rfl rfl rfl rfl rfl (fun hx => hx)
        · simp only [Option.some.injEq, Prod.mk.injEq] at hm
          obtain ⟨_, rfl⟩ := hm
          exact G_frame h rfl rfl rfl rfl rfl rfl rfl (fun hx => hx)
        · simp only [Option.some.injEq, Prod.mk.injEq] at hm
          obtain ⟨_, rfl⟩ := hm
          exact G_frame h rfl rfl rfl rfl rfl rfl rfl (fun hx => hx)

theorem G_move (async : Bool) (E : Key → Option Bytes) (c c' : Cfg) (e : Option Ev) (mv : Mv) (hS : S c)
    (h : G async E c) (hm : move async c mv = some (e, c')) : G async E c' := by
  cases mv with
  | begin => exact (G_client1 async E c c' e hS h).1 hm
  | torn => exact (G_client1 async E c c' e hS h).2.1 hm
  | append => exact (G_client1 async E c c' e hS h).2.2.1 hm
  | done => exact (G_client1 async E c c' e hS h).2.2.2 hm
  | close => exact (G_client2 async E c c' e hS h).1 hm
  | create => exact (G_client2 async E c c' e hS h).2.1 hm
  | header => exact (G_client2 async E c c' e hS h).2.2.1 hm
  | handoff => exact (G_client2 async E c c' e hS h).2.2.2 hm
  | fstep => exact (G_bg async E c c' e hS h).1 hm
  | fadd => exact (G_bg async E c c' e hS h).2.1 hm
  | kstart sizes th o => exact (G_bg async E c c' e hS h).2.2.1 sizes th o hm
  | kreflect => exact (G_bg async E c c' e hS h).2.2.2.1 hm
  | kstep jk => exact (G_bg async E c c' e hS h).2.2.2.2 jk hm

theorem SG_run (async : Bool) (E : Key → Option Bytes) (sched : List Mv) :
    ∀ c, S c → G async E c → S (FSI.run async c sched) ∧ G async E (FSI.run async c sched) := by
  induction sched with
  | nil => intro c h g; exact ⟨h, g⟩
  | cons mv rest ih =>
    intro c h g
    simp only [FSI.run]
    cases hm : move async c mv with
    | none => exact ih c h g
    | some r =>
      obtain ⟨e, c'⟩ := r
      exact ih c' (S_move async c c' e mv h hm) (G_move async E c c' e mv h g hm)

/-! ## the configuration right after `Open` -/

theorem recover_state_facts (d : Disk) (h : DiskOk d) (o : Opts) (d' : Disk) (s : State)
    (hr : recover d o = .ok (d', s)) : s.isOpen = true ∧ s.closed = false ∧ s.flushPending = false ∧ s.w = [] := by
  rw [recover_eq d h] at hr
  unfold phase3 at hr
  split at hr
  · cases hr
  · simp only at hr
    split at hr <;> cases hr <;> exact ⟨rfl, rfl, rfl, rfl⟩

theorem start_SG (d0 : Disk) (h0 : DiskOk d0) (o0 : Opts) (d1 : Disk) (s1 : State)
    (hr0 : recover d0 o0 = .ok (d1, s1)) (prog : List Op) (async : Bool) :
    S (start d1 (openedVol s1) prog) ∧ G async (logical d0) (start d1 (openedVol s1) prog) := by
  have hq := recover_QW d0 h0 o0 d1 s1 hr0
  obtain ⟨ho, hc, hp, hw⟩ := recover_state_facts d0 h0 o0 d1 s1 hr0
  have hu : usable (openedVol s1).s = true := by unfold usable; show (s1.isOpen && !s1.closed) = true; rw [ho, hc]; rfl
  obtain ⟨hwd, _, _⟩ := hq.live hu
  have hwal : d1.wal = [{ num := 0 }] := by
    rw [hq.wal]
    have hu' : usable s1 = true := hu
    simp [liveFiles, openedVol, hu', hp]
  have hS : S (start d1 (openedVol s1) prog) := {
    tbl := by
      show d1.tables = encT s1.tables ++ []
      rw [List.append_nil]; exact hq.tables
    comps := hq.comps
    walDir := hwd
    wal := by
      show d1.wal = [] ++ [] ++ [{ num := 0, recs := [], torn := false }] ++ []
      rw [hwal]; rfl
    gensS := hq.inv.gens.1
    gensLe := hq.inv.gens.2
    fwf := by intro j hj; cases hj
    jk := by intro f hf; cases hf
    nums := by
      show (([] ++ [] ++ [({ num := 0, recs := [], torn := false } : WalFile)]).map WalFile.num).Pairwise (· < ·)
      simp
    rcOk := by intro m hm; cases hm
    qOk := by intro m hm; cases hm
    wq := by show applyMuts [] ([] ++ []) = s1.w; rw [hw]; rfl
    tnq := by intro hf; cases hf
    pcq := by intro hx; rcases hx with (hx | hx | hx) <;> cases hx
    kwf := trivial }
  refine ⟨hS, ⟨[], rfl, ?_, Nat.le_refl _, fun _ => Nat.le_refl _⟩, Nat.le_refl _, Nat.le_succ _, fun _ => rfl⟩
  rw [← hS.serves]
  exact (recover_diskOk d0 h0 o0 d1 s1 hr0).2

/-- the conclusion shared by the two interleaving theorems: at every moment of every schedule the disk is
well-formed, `Open` succeeds on it, and serves the reference after a prefix `hist.take p` of the mutations begun so
far that contains everything up to the last completed rotation; at most one call is in flight; with the
synchronous WAL the prefix contains every acknowledged mutation -/
theorem interleaved_good (d0 : Disk) (h0 : DiskOk d0) (o0 : Opts) (d1 : Disk) (s1 : State)
    (hr0 : recover d0 o0 = .ok (d1, s1)) (prog : List Op) (async : Bool) (sched : List Mv) (o : Opts) :
    let c := FSI.run async (start d1 (openedVol s1) prog) sched
    DiskOk c.d ∧ c.acked ≤ c.hist.length ∧ c.hist.length ≤ c.acked + 1 ∧
      ∃ d' s p, recover c.d o = .ok (d', s) ∧ c.mark ≤ p ∧ p ≤ c.hist.length ∧ (async = false → c.acked ≤ p) ∧
        abs s = applySpec (logical d0) (c.hist.take p) := by
  intro c
  obtain ⟨hS0, hG0⟩ := start_SG d0 h0 o0 d1 s1 hr0 prog async
  obtain ⟨hS, hG⟩ := SG_run async (logical d0) sched _ hS0 hG0
  have hok : DiskOk c.d := hS.diskOk
  obtain ⟨d', s, hr⟩ := recover_ok c.d hok o
  obtain ⟨Hd, e1, e2, e3, e4⟩ := hG.ex
  refine ⟨hok, hG.a1, hG.a2, d', s, Hd.length, hr, e3, ?_, e4, ?_⟩
  · show Hd.length ≤ c.hist.length
    rw [e1]; simp
  · rw [recover_abs c.d o d' s hr, hS.serves, e2]
    congr 1
    show Hd = c.hist.take Hd.length
    rw [e1, List.take_left]

end SST.Proofs.FSI
