/-
L6-fs, interleaved: the bookkeeping invariant `G` — the mutations that are durable (`Hd`) are a prefix of the history
of all mutations begun so far, the rest sits in the appender; what the disk serves is the reference after `Hd`.
-/
import SST.Proofs.FSInterleaveStep
namespace SST.Proofs.FSI
open SST SST.DBM SST.FS SST.FSI SST.Proofs.DB SST.Proofs.FS

structure G (async : Bool) (E : Key → Option Bytes) (c : Cfg) : Prop where
  ex : ∃ Hd, c.hist = Hd ++ c.queue ∧ served (memState c) c.rc = applySpec E Hd ∧ c.mark ≤ Hd.length ∧
    (async = false → c.acked ≤ Hd.length)
  a1 : c.acked ≤ c.hist.length
  a2 : c.hist.length ≤ c.acked + 1
  a3 : c.pc = .idle → c.acked = c.hist.length

/-- `served` only looks at the store being flushed, the tables and the records in the current file -/
theorem served_congr (s s' : State) (rc : List Mutation) (hr : s'.r = s.r) (ht : s'.tables = s.tables) :
    served s' rc = served s rc := by
  funext k
  unfold served base
  rw [hr, ht]

theorem served_vis (s s' : State) (rc : List Mutation) (hr : s'.r = s.r)
    (ht : ∀ k, vis (tablesGet s'.tables k) = vis (tablesGet s.tables k)) : served s' rc = served s rc := by
  funext k
  unfold served base
  rw [hr]
  exact vis_c3 _ _ _ _ (ht k)

/-- a move that does not touch the history, the appender, the current file's records, the flushed store or the
reader list -/
theorem G_frame {async : Bool} {E : Key → Option Bytes} {c c' : Cfg} (h : G async E c)
    (h1 : c'.hist = c.hist) (h2 : c'.queue = c.queue) (h3 : c'.rc = c.rc) (h4 : c'.mark = c.mark)
    (h5 : c'.acked = c.acked) (h6 : fStore c' = fStore c) (h7 : c'.tables = c.tables)
    (h8 : c'.pc = .idle → c.pc = .idle) : G async E c' := by
  obtain ⟨Hd, e1, e2, e3, e4⟩ := h.ex
  refine ⟨⟨Hd, by rw [h1, h2]; exact e1, ?_, by rw [h4]; exact e3, by rw [h5]; exact e4⟩,
    by rw [h5, h1]; exact h.a1, by rw [h5, h1]; exact h.a2, fun hp => by rw [h5, h1]; exact h.a3 (h8 hp)⟩
  rw [h3, ← e2]
  exact served_congr _ _ _ h6 h7

theorem G_client1 (async : Bool) (E : Key → Option Bytes) (c c' : Cfg) (e : Option Ev) (hS : S c) (h : G async E c) :
    (move async c .begin = some (e, c') → G async E c') ∧
    (move async c .torn = some (e, c') → G async E c') ∧
    (move async c .append = some (e, c') → G async E c') ∧
    (move async c .done = some (e, c') → G async E c') := by
  refine ⟨?_, ?_, ?_, ?_⟩
  · intro hm
    simp only [move] at hm
    split at hm
    · cases hm
    · rename_i _ _ _ op rest hpc hprog hnr
      obtain ⟨Hd, e1, e2, e3, e4⟩ := h.ex
      have ha := h.a3 hpc
      have hput : ∀ (m : Mutation) (pc' : Pc), pc' ≠ .idle →
          G async E { c with prog := rest, pc := pc', queue := c.queue ++ [m], w := m.apply c.w, hist := c.hist ++ [m] } := by
        intro m pc' hpc'
        refine ⟨⟨Hd, ?_, ?_, e3, e4⟩, ?_, ?_, ?_⟩
        · show c.hist ++ [m] = Hd ++ (c.queue ++ [m])
          rw [e1, List.append_assoc]
        · rw [← e2]; exact served_congr _ _ _ rfl rfl
        · show c.acked ≤ (c.hist ++ [m]).length
          rw [List.length_append]; omega
        · show (c.hist ++ [m]).length ≤ c.acked + 1
          rw [List.length_append]; simp; omega
        · intro hx; exact absurd hx hpc'
      cases op with
      | nop =>
        simp only [Option.some.injEq, Prod.mk.injEq] at hm
        obtain ⟨_, rfl⟩ := hm
        exact G_frame h rfl rfl rfl rfl rfl rfl rfl (fun _ => hpc)
      | rotate =>
        simp only [Option.some.injEq, Prod.mk.injEq] at hm
        obtain ⟨_, rfl⟩ := hm
        exact G_frame h rfl rfl rfl rfl rfl rfl rfl (fun hx => by cases hx)
      | put k v rot =>
        simp only at hm
        by_cases hv : (k.isEmpty || v.isEmpty) = true
        · rw [if_pos hv] at hm
          simp only [Option.some.injEq, Prod.mk.injEq] at hm
          obtain ⟨_, rfl⟩ := hm
          exact G_frame h rfl rfl rfl rfl rfl rfl rfl (fun _ => hpc)
        · rw [if_neg hv] at hm
          simp only [Option.some.injEq, Prod.mk.injEq] at hm
          obtain ⟨_, rfl⟩ := hm
          exact hput _ _ (by intro hx; cases hx)
      | del k =>
        simp only [Option.some.injEq, Prod.mk.injEq] at hm
        obtain ⟨_, rfl⟩ := hm
        exact hput _ _ (by intro hx; cases hx)
    · cases hm
  · intro hm
    simp only [move] at hm
    by_cases hc : (c.pc.logging && !c.queue.isEmpty) = true
    · rw [if_pos hc] at hm
      simp only [Option.some.injEq, Prod.mk.injEq] at hm
      obtain ⟨_, rfl⟩ := hm
      exact G_frame h rfl rfl rfl rfl rfl rfl rfl (fun hx => hx)
    · rw [if_neg hc] at hm; cases hm
  · intro hm
    simp only [move] at hm
    cases hq : c.queue with
    | nil => rw [hq] at hm; cases hm
    | cons m q =>
      rw [hq] at hm
      simp only at hm
      by_cases hc : c.pc.logging = true
      · rw [if_pos hc] at hm
        simp only [Option.some.injEq, Prod.mk.injEq] at hm
        obtain ⟨_, rfl⟩ := hm
        obtain ⟨Hd, e1, e2, e3, e4⟩ := h.ex
        have hmok : m.ok = true := hS.qOk m (by rw [hq]; exact List.mem_cons_self)
        refine ⟨⟨Hd ++ [m], ?_, ?_, ?_, ?_⟩, h.a1, h.a2, h.a3⟩
        · show c.hist = Hd ++ [m] ++ q
          rw [e1, hq]; simp
        · show served (memState c) (c.rc ++ [m]) = _
          rw [served_snoc _ _ _ hmok, e2, applySpec_append]
          rfl
        · show c.mark ≤ (Hd ++ [m]).length
          rw [List.length_append]; omega
        · intro ha; have := e4 ha
          show c.acked ≤ (Hd ++ [m]).length
          rw [List.length_append]; omega
      · rw [if_neg hc] at hm; cases hm
  · intro hm
    simp only [move] at hm
    cases hpc : c.pc with
    | app rot =>
      rw [hpc] at hm
      simp only at hm
      by_cases h1 : (!async && !c.queue.isEmpty) = true
      · rw [if_pos h1] at hm; cases hm
      · rw [if_neg h1] at hm
        cases rot with
        | true =>
          simp only [if_true, Option.some.injEq, Prod.mk.injEq] at hm
          obtain ⟨_, rfl⟩ := hm
          exact G_frame h rfl rfl rfl rfl rfl rfl rfl (fun hx => by cases hx)
        | false =>
          simp only [Bool.false_eq_true, if_false, Option.some.injEq, Prod.mk.injEq] at hm
          obtain ⟨_, rfl⟩ := hm
          obtain ⟨Hd, e1, e2, e3, e4⟩ := h.ex
          refine ⟨⟨Hd, e1, e2, e3, ?_⟩, Nat.le_refl _, Nat.le_succ _, fun _ => rfl⟩
          intro ha
          subst ha
          have hq : c.queue = [] := by simpa using h1
          show c.hist.length ≤ Hd.length
          rw [e1, hq]; simp
    | idle => rw [hpc] at hm; cases hm
    | rot0 => rw [hpc] at hm; cases hm
    | rot1 => rw [hpc] at hm; cases hm
    | rot2 => rw [hpc] at hm; cases hm
    | rot3 => rw [hpc] at hm; cases hm

end SST.Proofs.FSI
