/-
Facts about sorted tables and the `overlay` spec: lookup, `upsert`, extensionality of strictly ascending
lists, `overlay` = newest value per key, filters.
-/
import SST.Spec.Merge
import SST.Proofs.MergeOrd
namespace SST.Proofs.MergeSpec
open SST SST.Merge SST.Proofs.MergeOrd

theorem asc_cons {k : Bytes} {v : GoBytes} {r : Table} :
    Asc ((k, v) :: r) ↔ (∀ p ∈ r, bytesCmp k p.1 = .lt) ∧ Asc r := List.pairwise_cons

theorem asc_nil : Asc [] := List.Pairwise.nil

theorem ne_of_lt {a b : Bytes} (h : bytesCmp a b = .lt) : a ≠ b := by
  rintro rfl
  exact bytesCmp_lt_irrefl a h

/-! ### lookup -/

theorem tget_eq_none_iff {t : Table} {k : Bytes} : tget t k = none ↔ ∀ p ∈ t, p.1 ≠ k := by
  induction t with
  | nil => simp [tget]
  | cons p r ih =>
    obtain ⟨k', v⟩ := p
    simp only [tget]
    by_cases h : k = k'
    · subst h; simp
    · simp only [h, if_false, ih, List.mem_cons, forall_eq_or_imp]
      constructor
      · intro hr; exact ⟨fun hh => h hh.symm, hr⟩
      · intro hr; exact hr.2

theorem tget_mem {t : Table} {k : Bytes} {v : GoBytes} (h : tget t k = some v) : (k, v) ∈ t := by
  induction t with
  | nil => simp [tget] at h
  | cons p r ih =>
    obtain ⟨k', v'⟩ := p
    simp only [tget] at h
    by_cases hk : k = k'
    · subst hk
      simp only [if_true, Option.some.injEq] at h
      subst h; exact List.mem_cons_self
    · simp only [hk, if_false] at h
      exact List.mem_cons_of_mem _ (ih h)

theorem mem_tget {t : Table} (ha : Asc t) {k : Bytes} {v : GoBytes} (h : (k, v) ∈ t) : tget t k = some v := by
  induction t with
  | nil => cases h
  | cons p r ih =>
    obtain ⟨k', v'⟩ := p
    obtain ⟨hlt, har⟩ := asc_cons.mp ha
    rcases List.mem_cons.mp h with heq | hm
    · simp only [Prod.mk.injEq] at heq
      obtain ⟨rfl, rfl⟩ := heq
      simp [tget]
    · have : k ≠ k' := (ne_of_lt (hlt _ hm)).symm
      simp only [tget, this, if_false]
      exact ih har hm

theorem tget_some_iff {t : Table} (ha : Asc t) {k : Bytes} {v : GoBytes} : tget t k = some v ↔ (k, v) ∈ t :=
  ⟨tget_mem, mem_tget ha⟩

theorem tget_head_none {k : Bytes} {v : GoBytes} {r : Table} (ha : Asc ((k, v) :: r)) : tget r k = none := by
  rw [tget_eq_none_iff]
  intro p hp
  exact (ne_of_lt ((asc_cons.mp ha).1 p hp)).symm

/-- two strictly ascending lists with the same lookup function are equal -/
theorem asc_ext : ∀ {l1 l2 : Table}, Asc l1 → Asc l2 → (∀ k, tget l1 k = tget l2 k) → l1 = l2 := by
  intro l1
  induction l1 with
  | nil =>
    intro l2 _ _ h
    cases l2 with
    | nil => rfl
    | cons p r =>
      obtain ⟨k, v⟩ := p
      have := h k
      simp [tget] at this
  | cons p1 r1 ih =>
    intro l2 h1 h2 h
    obtain ⟨k1, v1⟩ := p1
    cases l2 with
    | nil =>
      have := h k1
      simp [tget] at this
    | cons p2 r2 =>
      obtain ⟨k2, v2⟩ := p2
      obtain ⟨hlt1, ha1⟩ := asc_cons.mp h1
      obtain ⟨hlt2, ha2⟩ := asc_cons.mp h2
      have hk : k1 = k2 := by
        cases hc : bytesCmp k1 k2 with
        | eq => exact bytesCmp_eq_iff.mp hc
        | lt =>
          -- k1 is below every key of l2
          have hnone : tget ((k2, v2) :: r2) k1 = none := by
            rw [tget_eq_none_iff]
            intro p hp
            rcases List.mem_cons.mp hp with rfl | hm
            · exact (ne_of_lt hc).symm
            · exact (ne_of_lt (bytesCmp_trans_lt _ _ _ hc (hlt2 p hm))).symm
          have := h k1
          rw [hnone] at this
          simp [tget] at this
        | gt =>
          have hc' : bytesCmp k2 k1 = .lt := bytesCmp_gt_iff.mp hc
          have hnone : tget ((k1, v1) :: r1) k2 = none := by
            rw [tget_eq_none_iff]
            intro p hp
            rcases List.mem_cons.mp hp with rfl | hm
            · exact (ne_of_lt hc').symm
            · exact (ne_of_lt (bytesCmp_trans_lt _ _ _ hc' (hlt1 p hm))).symm
          have := h k2
          rw [hnone] at this
          simp [tget] at this
      subst hk
      have hv : v1 = v2 := by
        have := h k1
        simpa [tget] using this
      subst hv
      congr 1
      apply ih ha1 ha2
      intro k
      by_cases hkk : k = k1
      · subst hkk
        rw [tget_head_none h1, tget_head_none h2]
      · have := h k
        simpa [tget, hkk] using this

theorem asc_ext_mem {l1 l2 : Table} (h1 : Asc l1) (h2 : Asc l2)
    (h : ∀ k v, (k, v) ∈ l1 ↔ (k, v) ∈ l2) : l1 = l2 := by
  apply asc_ext h1 h2
  intro k
  cases hc : tget l1 k with
  | some v =>
    exact (mem_tget h2 ((h k v).mp (tget_mem hc))).symm
  | none =>
    cases hc2 : tget l2 k with
    | none => rfl
    | some v =>
      have := mem_tget h1 ((h k v).mpr (tget_mem hc2))
      rw [hc] at this; cases this

/-! ### upsert, applyTable, overlay -/

theorem upsert_mem {k : Bytes} {v : GoBytes} {m : Table} {p : Bytes × GoBytes} (h : p ∈ upsert k v m) :
    p = (k, v) ∨ p ∈ m := by
  induction m with
  | nil => simp [upsert] at h; exact Or.inl h
  | cons q r ih =>
    obtain ⟨k', v'⟩ := q
    simp only [upsert] at h
    cases hc : bytesCmp k k' with
    | lt =>
      rw [hc] at h
      rcases List.mem_cons.mp h with rfl | hm
      · exact Or.inl rfl
      · exact Or.inr hm
    | eq =>
      rw [hc] at h
      rcases List.mem_cons.mp h with rfl | hm
      · exact Or.inl rfl
      · exact Or.inr (List.mem_cons_of_mem _ hm)
    | gt =>
      rw [hc] at h
      rcases List.mem_cons.mp h with rfl | hm
      · exact Or.inr List.mem_cons_self
      · rcases ih hm with rfl | hm'
        · exact Or.inl rfl
        · exact Or.inr (List.mem_cons_of_mem _ hm')

theorem upsert_asc {k : Bytes} {v : GoBytes} {m : Table} (ha : Asc m) : Asc (upsert k v m) := by
  induction m with
  | nil => simp [upsert, Asc, StrictAsc]
  | cons q r ih =>
    obtain ⟨k', v'⟩ := q
    obtain ⟨hlt, har⟩ := asc_cons.mp ha
    simp only [upsert]
    cases hc : bytesCmp k k' with
    | lt =>
      simp only []
      apply asc_cons.mpr
      refine ⟨?_, ha⟩
      intro p hp
      rcases List.mem_cons.mp hp with rfl | hm
      · exact hc
      · exact bytesCmp_trans_lt _ _ _ hc (hlt p hm)
    | eq =>
      simp only []
      have : k = k' := bytesCmp_eq_iff.mp hc
      subst this
      exact asc_cons.mpr ⟨hlt, har⟩
    | gt =>
      simp only []
      apply asc_cons.mpr
      refine ⟨?_, ih har⟩
      intro p hp
      rcases upsert_mem hp with rfl | hm
      · exact bytesCmp_gt_iff.mp hc
      · exact hlt p hm

theorem tget_upsert {k : Bytes} {v : GoBytes} {m : Table} (ha : Asc m) (k' : Bytes) :
    tget (upsert k v m) k' = if k' = k then some v else tget m k' := by
  induction m with
  | nil => simp [upsert, tget]
  | cons q r ih =>
    obtain ⟨k0, v0⟩ := q
    obtain ⟨hlt, har⟩ := asc_cons.mp ha
    simp only [upsert]
    cases hc : bytesCmp k k0 with
    | lt => simp [tget]
    | eq =>
      have : k = k0 := bytesCmp_eq_iff.mp hc
      subst this
      simp only [tget]
      by_cases h : k' = k <;> simp [h]
    | gt =>
      simp only [tget, ih har]
      have hne : k0 ≠ k := ne_of_lt (bytesCmp_gt_iff.mp hc)
      by_cases h0 : k' = k0
      · subst h0; simp [hne]
      · simp [h0]

theorem applyTable_asc {m : Table} (t : Table) (ha : Asc m) : Asc (applyTable m t) := by
  unfold applyTable
  induction t generalizing m with
  | nil => exact ha
  | cons p r ih => exact ih (upsert_asc ha)

theorem tget_applyTable {m t : Table} (hm : Asc m) (ht : Asc t) (k : Bytes) :
    tget (applyTable m t) k = (match tget t k with | some v => some v | none => tget m k) := by
  unfold applyTable
  induction t generalizing m with
  | nil => simp [tget]
  | cons p r ih =>
    obtain ⟨k0, v0⟩ := p
    obtain ⟨_, har⟩ := asc_cons.mp ht
    simp only [List.foldl_cons]
    rw [ih (upsert_asc hm) har, tget_upsert hm]
    simp only [tget]
    by_cases h : k = k0
    · subst h
      rw [tget_head_none ht]
      simp
    · simp [h]

theorem foldl_applyTable_asc {ts : List Table} {m : Table} (hm : Asc m) : Asc (ts.foldl applyTable m) := by
  induction ts generalizing m with
  | nil => exact hm
  | cons t r ih => exact ih (applyTable_asc t hm)

theorem tget_foldl_applyTable {ts : List Table} {m : Table} (hm : Asc m) (hts : ∀ t ∈ ts, Asc t) (k : Bytes) :
    tget (ts.foldl applyTable m) k = (match newestValue ts k with | some v => some v | none => tget m k) := by
  induction ts generalizing m with
  | nil => simp [newestValue]
  | cons t r ih =>
    have ht := hts t List.mem_cons_self
    have hr : ∀ t ∈ r, Asc t := fun t h => hts t (List.mem_cons_of_mem _ h)
    simp only [List.foldl_cons, newestValue]
    rw [ih (applyTable_asc t hm) hr, tget_applyTable hm ht]
    cases newestValue r k <;> rfl

theorem overlay_asc (ts : List Table) : Asc (overlay ts) := foldl_applyTable_asc asc_nil

/-- the overlay holds, for every key, the value of the newest table that has the key -/
theorem tget_overlay {ts : List Table} (hts : ∀ t ∈ ts, Asc t) (k : Bytes) :
    tget (overlay ts) k = newestValue ts k := by
  unfold overlay
  rw [tget_foldl_applyTable asc_nil hts]
  cases newestValue ts k <;> simp [tget]

theorem newestValue_none_iff {ts : List Table} {k : Bytes} :
    newestValue ts k = none ↔ ∀ t ∈ ts, tget t k = none := by
  induction ts with
  | nil => simp [newestValue]
  | cons t r ih =>
    simp only [newestValue, List.mem_cons, forall_eq_or_imp]
    cases h : newestValue r k with
    | some v =>
      simp only [reduceCtorEq, false_iff]
      intro hh
      have := ih.mpr hh.2
      rw [h] at this; cases this
    | none =>
      simp only []
      exact ⟨fun hh => ⟨hh, ih.mp h⟩, fun hh => hh.1⟩

theorem newestValue_some_iff {ts : List Table} {k : Bytes} {v : GoBytes} :
    newestValue ts k = some v ↔
      ∃ (c : Nat) (t : Table), ts[c]? = some t ∧ tget t k = some v ∧
        ∀ (c' : Nat) (t' : Table), c < c' → ts[c']? = some t' → tget t' k = none := by
  induction ts generalizing v with
  | nil => simp [newestValue]
  | cons t r ih =>
    simp only [newestValue]
    cases h : newestValue r k with
    | some v' =>
      simp only [Option.some.injEq]
      constructor
      · rintro rfl
        obtain ⟨c, t0, hc, hg, hnewer⟩ := ih.mp h
        refine ⟨c + 1, t0, by simpa using hc, hg, ?_⟩
        intro c' t' hcc ht'
        obtain ⟨c'', rfl⟩ : ∃ c'', c' = c'' + 1 := ⟨c' - 1, by omega⟩
        exact hnewer c'' t' (by omega) (by simpa using ht')
      · rintro ⟨c, t0, hc, hg, hnewer⟩
        cases c with
        | zero =>
          -- a newer table has the key: contradiction
          obtain ⟨c1, t1, hc1, hg1, _⟩ := ih.mp h
          have := hnewer (c1 + 1) t1 (by omega) (by simpa using hc1)
          rw [hg1] at this; cases this
        | succ c0 =>
          have : newestValue r k = some v := ih.mpr ⟨c0, t0, by simpa using hc, hg, by
            intro c' t' hcc ht'
            exact hnewer (c' + 1) t' (by omega) (by simpa using ht')⟩
          rw [h] at this
          exact Option.some.inj this
    | none =>
      simp only []
      have hall := newestValue_none_iff.mp h
      constructor
      · intro hg
        refine ⟨0, t, by simp, hg, ?_⟩
        intro c' t' hcc ht'
        obtain ⟨c'', rfl⟩ : ∃ c'', c' = c'' + 1 := ⟨c' - 1, by omega⟩
        have : r[c'']? = some t' := by simpa using ht'
        exact hall t' (List.mem_of_getElem? this)
      · rintro ⟨c, t0, hc, hg, _⟩
        cases c with
        | zero => simp at hc; subst hc; exact hg
        | succ c0 =>
          have : r[c0]? = some t0 := by simpa using hc
          have := hall t0 (List.mem_of_getElem? this)
          rw [hg] at this; cases this

/-! ### filters by key -/

theorem filter_asc {t : Table} (p : Bytes × GoBytes → Bool) (ha : Asc t) : Asc (t.filter p) :=
  List.Pairwise.sublist List.filter_sublist ha

theorem tget_filter_key {t : Table} (ha : Asc t) (f : Bytes → Bool) (k : Bytes) :
    tget (t.filter fun p => f p.1) k = if f k then tget t k else none := by
  have hfa := filter_asc (fun p => f p.1) ha
  cases hc : tget t k with
  | none =>
    have : tget (t.filter fun p => f p.1) k = none := by
      rw [tget_eq_none_iff]
      intro p hp
      exact tget_eq_none_iff.mp hc p (List.mem_filter.mp hp).1
    simp [this]
  | some v =>
    by_cases hf : f k
    · simp only [hf, if_true]
      exact mem_tget hfa (List.mem_filter.mpr ⟨tget_mem hc, by simpa using hf⟩)
    · simp only [hf]
      show tget _ k = none
      rw [tget_eq_none_iff]
      intro p hp hpk
      have := (List.mem_filter.mp hp).2
      rw [hpk] at this
      exact hf this

theorem newestValue_map_filter {ts : List Table} (hts : ∀ t ∈ ts, Asc t) (f : Bytes → Bool) (k : Bytes) :
    newestValue (ts.map fun t => t.filter fun p => f p.1) k = if f k then newestValue ts k else none := by
  induction ts with
  | nil => simp [newestValue]
  | cons t r ih =>
    have ht := hts t List.mem_cons_self
    have hr : ∀ t ∈ r, Asc t := fun t h => hts t (List.mem_cons_of_mem _ h)
    simp only [List.map_cons, newestValue, ih hr, tget_filter_key ht]
    by_cases hf : f k
    · simp [hf]
    · simp [hf]

/-- filtering every table by key and then overlaying = overlaying and then filtering -/
theorem overlay_map_filter {ts : List Table} (hts : ∀ t ∈ ts, Asc t) (f : Bytes → Bool) :
    overlay (ts.map fun t => t.filter fun p => f p.1) = (overlay ts).filter fun p => f p.1 := by
  have hts' : ∀ t ∈ ts.map (fun t => t.filter fun p => f p.1), Asc t := by
    intro t ht
    obtain ⟨t0, ht0, rfl⟩ := List.mem_map.mp ht
    exact filter_asc _ (hts t0 ht0)
  apply asc_ext (overlay_asc _) (filter_asc _ (overlay_asc _))
  intro k
  rw [tget_overlay hts', newestValue_map_filter hts, tget_filter_key (overlay_asc _), tget_overlay hts]

theorem filter_comm_live (m : Table) (f : Bytes → Bool) :
    live (m.filter fun p => f p.1) = (live m).filter fun p => f p.1 := by
  unfold live
  rw [List.filter_filter, List.filter_filter]
  congr 1
  funext p
  exact Bool.and_comm _ _

end SST.Proofs.MergeSpec
