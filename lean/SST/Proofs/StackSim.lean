/-
L7, the simulation: `Rel` holds initially and every step of the byte-level stack is matched by the step of
the layer model `DBM` it stands for, with equal client-visible results and equal compaction selections;
hence whole programs.
-/
import SST.Proofs.StackWrite
import SST.Proofs.StackCompact
import SST.Proofs.DB
namespace SST.Proofs.Stack
open SST SST.Stack SST.DBM Generated

theorem rel_init (P : Params) : Rel P ({} : Stack.State) ({} : DBM.State) :=
  { w := memRel_empty, r := memRel_empty, alias := fun _ => Proofs.MemP.view_empty, pending := rfl,
    tables := Rel2.nil, gen := rfl, isOpen := rfl, closed := rfl, opts := rfl }

/-- every live table loads again from its files (`reconstructSSTables`), to the same reader -/
theorem reopenTables_ok {P : Params} {ts : List LiveTbl} {as : List Tbl} (h : Rel2 (TblRel P) ts as) :
    reopenTables P ts = .ok ts := by
  induction h with
  | nil => rfl
  | cons hab _ ih =>
    obtain ⟨kvs, hd, _⟩ := hab.dec
    simp only [reopenTables, hd.opened, ih]

theorem reopen_sim {P : Params} {c : Stack.State} {s : DBM.State} (h : Rel P c s) (o : Opts) :
    ∃ c', Stack.reopen P c o = .ok c' ∧ Rel P c' (DBM.reopen s o) := by
  unfold Stack.reopen DBM.reopen
  rw [reopenTables_ok h.tables]
  refine ⟨_, rfl, ?_⟩
  exact { w := memRel_empty, r := memRel_empty, alias := fun _ => Proofs.MemP.view_empty, pending := rfl,
          tables := h.tables
          gen := by
            show (c.tables.map (·.gen)).foldl max 0 = (s.tables.map (·.gen)).foldl max 0
            rw [Rel2.map_eq (fun _ _ hr => hr.gen) h.tables]
          isOpen := rfl, closed := rfl, opts := rfl }

/-- ONE STEP: under the laws of the external code and the step's hypotheses (node height ≥ 1, sizes fit), the
byte-level step does not fail, returns what the layer step returns, selects the same tables, and re-establishes
the relation -/
theorem step_sim {P : Params} (hP : ParamsOk P) {c : Stack.State} {s : DBM.State} (h : Rel P c s)
    (st : Stack.Step) (hok : StepOk P c st) :
    ∃ c', Stack.step P c st =
        .ok (c', (DBM.step s (absStep c st)).2.1.map SRes.db, (DBM.step s (absStep c st)).2.2) ∧
      Rel P c' (DBM.step s (absStep c st)).1 := by
  cases st with
  | putB k v rot ht =>
    obtain ⟨c', h1, h2⟩ := put_sim hP h k v rot ht hok.1 hok.2
    exact ⟨c', by simp only [Stack.step, h1, absStep, DBM.step, Option.map_some], h2⟩
  | putS k v rot ht =>
    obtain ⟨c', h1, h2⟩ := putStr_sim hP h k v rot ht hok.1 hok.2
    exact ⟨c', by simp only [Stack.step, h1, absStep, DBM.step, Option.map_some], h2⟩
  | delB k ht =>
    obtain ⟨h1, h2⟩ := del_sim h k ht hok
    exact ⟨_, by simp only [Stack.step, absStep, DBM.step, Option.map_some, h1], h2⟩
  | delS k ht =>
    obtain ⟨h1, h2⟩ := del_sim h (some k) ht hok
    exact ⟨_, by simp only [Stack.step, absStep, DBM.step, DBM.deleteStr, Option.map_some, h1], h2⟩
  | get k =>
    exact ⟨c, by simp only [Stack.step, absStep, DBM.step, Option.map_some, get_sim h k], h⟩
  | rotate =>
    simp only [Stack.step, absStep, DBM.step]
    rw [show (c.isOpen && !c.closed) = (s.isOpen && !s.closed) by rw [h.isOpen, h.closed]]
    by_cases hu : (s.isOpen && !s.closed) = true
    · obtain ⟨c', h1, h2⟩ := rotate_sim hP h hok
      simp only [hu, if_true, h1]
      exact ⟨c', rfl, h2⟩
    · simp only [hu, Bool.false_eq_true, if_false]
      exact ⟨c, rfl, h⟩
  | flush =>
    obtain ⟨c', h1, h2⟩ := flush_sim hP h hok
    exact ⟨c', by simp only [Stack.step, h1, absStep, DBM.step, Option.map_none], h2⟩
  | compact =>
    simp only [Stack.step, absStep, DBM.step]
    rw [show (c.isOpen && !c.closed) = (s.isOpen && !s.closed) by rw [h.isOpen, h.closed]]
    by_cases hu : (s.isOpen && !s.closed) = true
    · obtain ⟨c', h1, h2⟩ := compact_sim hP h hok
      simp only [hu, if_true, h1]
      exact ⟨c', rfl, h2⟩
    · simp only [hu, Bool.false_eq_true, if_false]
      exact ⟨c, rfl, h⟩
  | close =>
    obtain ⟨c', h1, h2⟩ := close_sim hP h hok
    exact ⟨c', by simp only [Stack.step, h1, absStep, DBM.step, Option.map_some], h2⟩
  | reopen o =>
    simp only [Stack.step, absStep, DBM.step]
    rw [show (c.closed || !c.isOpen) = (s.closed || !s.isOpen) by rw [h.isOpen, h.closed]]
    by_cases hu : (s.closed || !s.isOpen) = true
    · obtain ⟨c', h1, h2⟩ := reopen_sim h o
      simp only [hu, if_true, h1]
      exact ⟨c', rfl, h2⟩
    · simp only [hu, Bool.false_eq_true, if_false]
      exact ⟨c, rfl, h⟩

/-- the outputs of a layer run in the vocabulary of the byte-level stack -/
def liftOut (o : Option DBM.Res × List Nat) : Option SRes × List Nat := (o.1.map SRes.db, o.2)

/-- WHOLE PROGRAMS -/
theorem run_sim {P : Params} (hP : ParamsOk P) : ∀ (steps : List Stack.Step) (c : Stack.State) (s : DBM.State),
    Rel P c s → RunOk P c steps →
    Stack.run P c steps = ((DBM.run s (absSteps P c steps)).map liftOut, none) ∧
    ∃ c', Stack.runState P c steps = .ok c' ∧ Rel P c' (DBM.runState s (absSteps P c steps))
  | [], c, s, h, _ => ⟨rfl, c, rfl, h⟩
  | st :: rest, c, s, h, hok => by
    obtain ⟨hst, hrest⟩ := hok
    obtain ⟨c', h1, h2⟩ := step_sim hP h st hst
    rw [h1] at hrest
    simp only at hrest
    obtain ⟨i1, c'', i2, i3⟩ := run_sim hP rest c' _ h2 hrest
    simp only [Stack.run, Stack.runState, absSteps, DBM.run, DBM.runState, h1, i1, List.map_cons]
    exact ⟨rfl, c'', i2, i3⟩

/-- the reference ignores node heights and table sizes -/
theorem specRun_abs (P : Params) : ∀ (steps : List Stack.Step) (c : Stack.State) (sp : Spec),
    specRun sp (absSteps P c steps) = specRun sp (steps.map specOf)
  | [], _, _ => rfl
  | st :: rest, c, sp => by
    have hs : specStep sp (absStep c st) = specStep sp (specOf st) := by cases st <;> rfl
    simp only [absSteps, List.map_cons, specRun, hs]
    rw [specRun_abs P rest]

end SST.Proofs.Stack
