/-
Helper lemmas for L6: the invariant of reachable states and the simulation of every step by the reference map.
-/
import SST.Proofs.DBCompact
namespace SST.Proofs.DB
open SST SST.DBM

/-! ## the invariant -/

structure Inv (s : State) : Prop where
  /-- validated puts: a memstore never holds an empty value -/
  wOk : ∀ k v, Layer.get s.w k = some (some v) → v ≠ []
  rOk : ∀ k v, Layer.get s.r k = some (some v) → v ≠ []
  /-- once flushed, the read store is covered by the tables -/
  cov : s.flushPending = false → ∀ k v, Layer.get s.r k = some v → vis (tablesGet s.tables k) = vis (some v)
  /-- outside a session the write store is empty and the flusher is idle -/
  idle : (s.isOpen && !s.closed) = false → s.w = [] ∧ s.flushPending = false
  gens : GensOk s

/-- everything a key is bound to, newest first -/
def stack (s : State) (k : Key) : Option GoBytes :=
  ((Layer.get s.w k).or (Layer.get s.r k)).or (tablesGet s.tables k)

theorem vis_nonempty (v : Bytes) (h : v ≠ []) : vis (some (some v)) = some v := by
  cases v with
  | nil => exact absurd rfl h
  | cons _ _ => rfl

theorem abs_eq_stack (s : State) (h : Inv s) (k : Key) : abs s k = vis (stack s k) := by
  unfold abs memGet stack
  cases hw : Layer.get s.w k with
  | some x =>
    cases x with
    | none => rfl
    | some v => simp [vis_nonempty v (h.wOk k v hw)]
  | none =>
    cases hr : Layer.get s.r k with
    | some x =>
      cases x with
      | none => rfl
      | some v => simp [vis_nonempty v (h.rOk k v hr)]
    | none => rfl

theorem inv_init : Inv ({} : State) where
  wOk := by intro k v h; simp [layerGet_nil] at h
  rOk := by intro k v h; simp [layerGet_nil] at h
  cov := by intro _ k v h; simp [layerGet_nil] at h
  idle := by intro _; exact ⟨rfl, rfl⟩
  gens := by simp [GensOk]

/-! ## writes -/

theorem setW_inv (s : State) (h : Inv s) (hu : (s.isOpen && !s.closed) = true) (k : Key) (v : GoBytes)
    (hv : ∀ b, v = some b → b ≠ []) : Inv { s with w := s.w.set k v } where
  wOk := by
    intro k' b hb
    simp only [layerGet_set] at hb
    by_cases hk : k' = k
    · simp only [hk, if_true, Option.some.injEq] at hb
      exact hv b hb
    · simp only [hk, if_false] at hb
      exact h.wOk k' b hb
  rOk := h.rOk
  cov := h.cov
  idle := by intro hn; simp only [hu] at hn; exact absurd hn (by decide)
  gens := h.gens

theorem setW_abs_some (s : State) (k k' : Key) (b : Bytes) :
    abs { s with w := s.w.set k (some b) } k' = if k' = k then some b else abs s k' := by
  unfold abs memGet
  simp only [layerGet_set]
  by_cases hk : k' = k <;> simp [hk]

theorem setW_abs_none (s : State) (k k' : Key) :
    abs { s with w := s.w.set k none } k' = if k' = k then none else abs s k' := by
  unfold abs memGet
  simp only [layerGet_set]
  by_cases hk : k' = k <;> simp [hk]

/-! ## flush -/

theorem flushStep_cases (s : State) :
    flushStep s = s ∨
    (s.flushPending = true ∧ s.r = [] ∧ flushStep s = { s with flushPending := false }) ∨
    (s.flushPending = true ∧ s.r ≠ [] ∧
      flushStep s = { s with flushPending := false, gen := s.gen + 1,
                             tables := s.tables ++ [{ gen := s.gen + 1, cells := s.r }] }) := by
  unfold flushStep
  cases hp : s.flushPending with
  | false => left; rfl
  | true =>
    right
    cases hr : s.r with
    | nil => left; simp
    | cons p l => right; simp

theorem flushStep_w (s : State) : (flushStep s).w = s.w := by
  rcases flushStep_cases s with (h | ⟨_, _, h⟩ | ⟨_, _, h⟩) <;> rw [h]

theorem flushStep_isOpen (s : State) : (flushStep s).isOpen = s.isOpen := by
  rcases flushStep_cases s with (h | ⟨_, _, h⟩ | ⟨_, _, h⟩) <;> rw [h]

theorem flushStep_closed (s : State) : (flushStep s).closed = s.closed := by
  rcases flushStep_cases s with (h | ⟨_, _, h⟩ | ⟨_, _, h⟩) <;> rw [h]

theorem flushStep_pending (s : State) : (flushStep s).flushPending = false := by
  unfold flushStep
  cases hp : s.flushPending with
  | false => simpa using hp
  | true =>
    cases hr : s.r with
    | nil => simp
    | cons p l => simp

theorem flushStep_stack (s : State) (k : Key) : stack (flushStep s) k = stack s k := by
  rcases flushStep_cases s with (h | ⟨_, _, h⟩ | ⟨_, _, h⟩) <;> rw [h]
  · rfl
  · simp only [stack, tablesGet_append, tablesGet_single]
    cases Layer.get s.w k <;> cases Layer.get s.r k <;> simp

theorem flushStep_inv (s : State) (h : Inv s) : Inv (flushStep s) := by
  rcases flushStep_cases s with (e | ⟨hp, hr, e⟩ | ⟨hp, hr, e⟩) <;> rw [e]
  · exact h
  · exact {
      wOk := h.wOk
      rOk := h.rOk
      cov := by
        intro _ k v hk
        simp only [hr, layerGet_nil] at hk
        exact absurd hk (by simp)
      idle := fun hn => ⟨(h.idle hn).1, rfl⟩
      gens := h.gens }
  · exact {
      wOk := h.wOk
      rOk := h.rOk
      cov := by
        intro _ k v hk
        simp only [tablesGet_append, tablesGet_single, hk, Option.some_or]
      idle := fun hn => ⟨(h.idle hn).1, rfl⟩
      gens := by
        obtain ⟨hp', hm⟩ := h.gens
        constructor
        · simp only [List.map_append, List.map_cons, List.map_nil]
          rw [List.pairwise_append]
          refine ⟨hp', by simp, ?_⟩
          intro a ha b hb
          simp only [List.mem_cons, List.not_mem_nil, or_false] at hb
          rw [List.mem_map] at ha
          obtain ⟨t, ht, rfl⟩ := ha
          have := hm t ht
          omega
        · intro t ht
          simp only [List.mem_append, List.mem_cons, List.not_mem_nil, or_false] at ht
          rcases ht with (ht | ht)
          · have := hm t ht
            show t.gen ≤ s.gen + 1
            omega
          · subst ht
            exact Nat.le_refl _ }

/-! ## rotation -/

theorem rotate_eq (s : State) :
    rotate s = { flushStep s with r := (flushStep s).w, w := [], flushPending := true } := rfl

theorem rotate_inv (s : State) (h : Inv s) (hu : (s.isOpen && !s.closed) = true) : Inv (rotate s) := by
  have h1 := flushStep_inv s h
  rw [rotate_eq]
  exact {
    wOk := by intro k v hk; simp [layerGet_nil] at hk
    rOk := h1.wOk
    cov := by intro hp; exact absurd hp (by simp)
    idle := by
      intro hn
      simp only [flushStep_isOpen, flushStep_closed, hu] at hn
      exact absurd hn (by decide)
    gens := h1.gens }

theorem rotate_stack (s : State) (h : Inv s) (k : Key) : vis (stack (rotate s) k) = vis (stack s k) := by
  have h1 := flushStep_inv s h
  rw [← flushStep_stack s k, rotate_eq]
  simp only [stack, layerGet_nil, Option.none_or]
  cases hw : Layer.get (flushStep s).w k with
  | some x => rfl
  | none =>
    cases hr : Layer.get (flushStep s).r k with
    | none => rfl
    | some v =>
      simp only [Option.none_or, Option.some_or]
      exact h1.cov (flushStep_pending s) k v hr

/-! ## compaction -/

theorem compact_inv_stack (s : State) (h : Inv s) (sizes : List Nat) :
    Inv (compactStep s sizes).1 ∧ (∀ k, vis (stack (compactStep s sizes).1 k) = vis (stack s k)) ∧
      (compactStep s sizes).1.isOpen = s.isOpen ∧ (compactStep s sizes).1.closed = s.closed := by
  obtain ⟨T, e, hv, hg⟩ := compactStep_tables s sizes
  rw [e]
  refine ⟨?_, ?_, rfl, rfl⟩
  · exact {
      wOk := h.wOk
      rOk := h.rOk
      cov := by
        intro hp k v hk
        show vis (tablesGet T k) = _
        rw [hv k]
        exact h.cov hp k v hk
      idle := h.idle
      gens := hg h.gens }
  · intro k
    simp only [stack]
    cases Layer.get s.w k <;> cases Layer.get s.r k <;> simp [hv k]

theorem compact_get (s : State) (sizes : List Nat) (k : Key) :
    memGet (compactStep s sizes).1 k = memGet s k ∧
      vis (tablesGet (compactStep s sizes).1.tables k) = vis (tablesGet s.tables k) ∧
      (compactStep s sizes).1.isOpen = s.isOpen ∧ (compactStep s sizes).1.closed = s.closed := by
  obtain ⟨T, e, hv, _⟩ := compactStep_tables s sizes
  rw [e]
  exact ⟨rfl, hv k, rfl, rfl⟩

/-! ## close and re-open -/

theorem close_inv (s : State) (h : Inv s) (hu : (s.isOpen && !s.closed) = true) :
    Inv { flushStep (rotate s) with closed := true } := by
  have h2 := flushStep_inv _ (rotate_inv s h hu)
  exact {
    wOk := h2.wOk
    rOk := h2.rOk
    cov := h2.cov
    idle := by
      intro _
      exact ⟨by rw [flushStep_w, rotate_eq], flushStep_pending _⟩
    gens := h2.gens }

theorem close_stack (s : State) (h : Inv s) (k : Key) :
    vis (stack { flushStep (rotate s) with closed := true } k) = vis (stack s k) := by
  rw [← rotate_stack s h k, ← flushStep_stack (rotate s) k]
  rfl

theorem foldl_max_le (l : List Nat) (a x : Nat) (h : x ≤ a ∨ x ∈ l) : x ≤ l.foldl max a := by
  induction l generalizing a with
  | nil => simpa using h
  | cons b l ih =>
    rw [List.foldl_cons]
    apply ih
    rcases h with (h | h)
    · left; omega
    · rcases List.mem_cons.1 h with (h | h)
      · left; omega
      · right; exact h

theorem reopen_inv (s : State) (h : Inv s) (o : Opts) : Inv (reopen s o) where
  wOk := by intro k v hk; simp [reopen, layerGet_nil] at hk
  rOk := by intro k v hk; simp [reopen, layerGet_nil] at hk
  cov := by intro _ k v hk; simp [reopen, layerGet_nil] at hk
  idle := by intro hn; simp [reopen] at hn
  gens := by
    refine ⟨h.gens.1, ?_⟩
    intro t ht
    exact foldl_max_le _ 0 t.gen (Or.inr (List.mem_map.2 ⟨t, ht, rfl⟩))

theorem reopen_stack (s : State) (h : Inv s) (hn : (s.isOpen && !s.closed) = false) (o : Opts) (k : Key) :
    vis (stack (reopen s o) k) = vis (stack s k) := by
  obtain ⟨hw, hp⟩ := h.idle hn
  simp only [stack, reopen, layerGet_nil, Option.none_or, hw]
  cases hr : Layer.get s.r k with
  | none => rfl
  | some v =>
    rw [Option.some_or]
    exact h.cov hp k v hr

/-! ## runs -/

theorem runState_append (s : State) (a b : List Step) :
    runState s (a ++ b) = runState (runState s a) b := by
  induction a generalizing s with
  | nil => rfl
  | cons st a ih => simp only [List.cons_append, runState, ih]

/-- a step that is not a client call and not a restart -/
def Internal : Step → Prop
  | .rotate | .flush | .compact _ => True
  | _ => False

theorem internal_step (s : State) (h : Inv s) (st : Step) (hi : Internal st) :
    Inv (step s st).1 ∧ (∀ k, abs (step s st).1 k = abs s k) ∧
      (step s st).1.isOpen = s.isOpen ∧ (step s st).1.closed = s.closed := by
  have key : ∀ s' : State, Inv s' → (∀ k, vis (stack s' k) = vis (stack s k)) → s'.isOpen = s.isOpen →
      s'.closed = s.closed →
      Inv s' ∧ (∀ k, abs s' k = abs s k) ∧ s'.isOpen = s.isOpen ∧ s'.closed = s.closed := by
    intro s' hs' hst ho hc
    exact ⟨hs', fun k => by rw [abs_eq_stack s' hs', abs_eq_stack s h, hst k], ho, hc⟩
  cases st with
  | rotate =>
    simp only [step]
    by_cases hu : (s.isOpen && !s.closed) = true
    · rw [if_pos hu]
      exact key _ (rotate_inv s h hu) (rotate_stack s h)
        (by rw [rotate_eq]; exact flushStep_isOpen s) (by rw [rotate_eq]; exact flushStep_closed s)
    · rw [if_neg hu]
      exact ⟨h, fun _ => rfl, rfl, rfl⟩
  | flush =>
    simp only [step]
    exact key _ (flushStep_inv s h) (fun k => by rw [flushStep_stack]) (flushStep_isOpen s) (flushStep_closed s)
  | compact sizes =>
    simp only [step]
    by_cases hu : (s.isOpen && !s.closed) = true
    · rw [if_pos hu]
      obtain ⟨h1, h2, h3, h4⟩ := compact_inv_stack s h sizes
      exact key _ h1 h2 h3 h4
    · rw [if_neg hu]
      exact ⟨h, fun _ => rfl, rfl, rfl⟩
  | _ => exact absurd hi (by simp [Internal])

/-! ## the simulation -/

structure Rel (s : State) (sp : Spec) : Prop where
  inv : Inv s
  o : s.isOpen = sp.isOpen
  c : s.closed = sp.closed
  m : ∀ k, abs s k = sp.m k

theorem Rel.usable {s : State} {sp : Spec} (h : Rel s sp) : sp.usable = (s.isOpen && !s.closed) := by
  simp [Spec.usable, h.o, h.c]

theorem rotate_rel (s : State) (sp : Spec) (h : Rel s sp) (hu : (s.isOpen && !s.closed) = true) :
    Rel (rotate s) sp where
  inv := rotate_inv s h.inv hu
  o := by rw [← h.o, rotate_eq]; exact flushStep_isOpen s
  c := by rw [← h.c, rotate_eq]; exact flushStep_closed s
  m := by
    intro k
    rw [abs_eq_stack _ (rotate_inv s h.inv hu), rotate_stack s h.inv k, ← abs_eq_stack s h.inv, h.m]

theorem put_sim (s : State) (sp : Spec) (h : Rel s sp) (k v : GoBytes) (rot : Bool) :
    Rel (putBytes s k v rot).1 (specPut sp k v).1 ∧ (putBytes s k v rot).2 = (specPut sp k v).2 := by
  cases k with
  | none => exact ⟨h, rfl⟩
  | some kb =>
    cases v with
    | none => exact ⟨h, rfl⟩
    | some vb =>
      simp only [putBytes, specPut]
      by_cases he : (kb.isEmpty || vb.isEmpty) = true
      · simp only [he, if_true]; exact ⟨h, trivial⟩
      · simp only [he]
        rw [h.usable]
        by_cases hu : (s.isOpen && !s.closed) = true
        · have hvb : vb ≠ [] := by
            intro e; subst e; simp at he
          have hn : (!s.isOpen || s.closed) = false := by
            cases ho : s.isOpen <;> cases hc : s.closed <;> simp_all
          simp only [hu, hn, Bool.not_true, Bool.false_eq_true, if_false]
          have hrel : Rel { s with w := s.w.set kb (some vb) }
              { sp with m := fun x => if x = kb then some vb else sp.m x } := {
            inv := setW_inv s h.inv hu kb (some vb) (by intro b hb; cases hb; exact hvb)
            o := h.o
            c := h.c
            m := by intro k'; rw [setW_abs_some, h.m] }
          cases rot with
          | false => exact ⟨hrel, trivial⟩
          | true => exact ⟨rotate_rel _ _ hrel hu, trivial⟩
        · have hn : (!s.isOpen || s.closed) = true := by
            cases ho : s.isOpen <;> cases hc : s.closed <;> simp_all
          have hu' : (s.isOpen && !s.closed) = false := by simpa using hu
          simp only [hu', hn, Bool.not_false, if_true]
          exact ⟨h, rfl⟩

theorem del_sim (s : State) (sp : Spec) (h : Rel s sp) (k : GoBytes) :
    Rel (deleteBytes s k).1 (specDel sp k).1 ∧ (deleteBytes s k).2 = (specDel sp k).2 := by
  simp only [deleteBytes, specDel]
  rw [h.usable]
  by_cases hu : (s.isOpen && !s.closed) = true
  · have hn : (!s.isOpen || s.closed) = false := by
      cases ho : s.isOpen <;> cases hc : s.closed <;> simp_all
    simp only [hu, hn, Bool.not_true, Bool.false_eq_true, if_false]
    refine ⟨?_, trivial⟩
    exact {
      inv := setW_inv s h.inv hu (k.getD []) none (by intro b hb; cases hb)
      o := h.o
      c := h.c
      m := by intro k'; rw [setW_abs_none, h.m] }
  · have hn : (!s.isOpen || s.closed) = true := by
      cases ho : s.isOpen <;> cases hc : s.closed <;> simp_all
    have hu' : (s.isOpen && !s.closed) = false := by simpa using hu
    simp only [hu', hn, Bool.not_false, if_true]
    exact ⟨h, trivial⟩

theorem get_eq (s : State) (k : Key) :
    DBM.get s k = if (!s.isOpen || s.closed) = true then .notOpen else
      match memGet s k with
      | none => (match vis (tablesGet s.tables k) with | some v => .value v | none => .notFound)
      | some none => .notFound
      | some (some v) => .value v := by
  unfold DBM.get
  by_cases hn : (!s.isOpen || s.closed) = true
  · simp only [hn, if_true]
  · simp only [hn]
    cases memGet s k with
    | some x => cases x <;> rfl
    | none =>
      cases tablesGet s.tables k with
      | none => rfl
      | some x =>
        cases x with
        | none => rfl
        | some v =>
          cases v with
          | nil => rfl
          | cons _ _ => rfl

theorem get_abs (s : State) (k : Key) :
    DBM.get s k = if (!s.isOpen || s.closed) = true then .notOpen else
      match abs s k with | some v => .value v | none => .notFound := by
  rw [get_eq]
  unfold abs
  by_cases hn : (!s.isOpen || s.closed) = true
  · simp only [hn, if_true]
  · simp only [hn]
    cases memGet s k with
    | some x => cases x <;> rfl
    | none => rfl

theorem get_sim (s : State) (sp : Spec) (h : Rel s sp) (k : Key) : DBM.get s k = specGet sp k := by
  rw [get_abs, specGet, h.usable, h.m]
  cases s.isOpen <;> cases s.closed <;> rfl

theorem step_sim (s : State) (sp : Spec) (h : Rel s sp) (st : Step) :
    Rel (step s st).1 (specStep sp st).1 ∧ (step s st).2.1 = (specStep sp st).2 := by
  cases st with
  | putB k v rot =>
    obtain ⟨h1, h2⟩ := put_sim s sp h k v rot
    exact ⟨h1, congrArg some h2⟩
  | putS k v rot =>
    simp only [step, specStep, putStr]
    by_cases he : (k.isEmpty || v.isEmpty) = true
    · simp only [he, if_true]
      refine ⟨?_, ?_⟩
      · have : (specPut sp (some k) (some v)).1 = sp := by simp [specPut, he]
        rw [this]; exact h
      · simp [specPut, he]
    · simp only [he]
      obtain ⟨h1, h2⟩ := put_sim s sp h (some k) (some v) rot
      exact ⟨h1, congrArg some h2⟩
  | delB k =>
    obtain ⟨h1, h2⟩ := del_sim s sp h k
    exact ⟨h1, congrArg some h2⟩
  | delS k =>
    obtain ⟨h1, h2⟩ := del_sim s sp h (some k)
    exact ⟨h1, congrArg some h2⟩
  | get k => exact ⟨h, congrArg some (get_sim s sp h k)⟩
  | rotate =>
    obtain ⟨h1, h2, h3, h4⟩ := internal_step s h.inv .rotate trivial
    exact ⟨⟨h1, h3.trans h.o, h4.trans h.c, fun k => (h2 k).trans (h.m k)⟩, by simp only [step]; split <;> rfl⟩
  | flush =>
    obtain ⟨h1, h2, h3, h4⟩ := internal_step s h.inv .flush trivial
    exact ⟨⟨h1, h3.trans h.o, h4.trans h.c, fun k => (h2 k).trans (h.m k)⟩, rfl⟩
  | compact sizes =>
    obtain ⟨h1, h2, h3, h4⟩ := internal_step s h.inv (.compact sizes) trivial
    exact ⟨⟨h1, h3.trans h.o, h4.trans h.c, fun k => (h2 k).trans (h.m k)⟩, by simp only [step]; split <;> rfl⟩
  | close =>
    simp only [step, specStep, close]
    rw [h.usable]
    by_cases hu : (s.isOpen && !s.closed) = true
    · have hn : (!s.isOpen || s.closed) = false := by
        cases ho : s.isOpen <;> cases hc : s.closed <;> simp_all
      simp only [hu, hn, Bool.false_eq_true, if_false, if_true]
      refine ⟨?_, trivial⟩
      have hi := close_inv s h.inv hu
      exact {
        inv := hi
        o := by
          show (flushStep (rotate s)).isOpen = sp.isOpen
          rw [flushStep_isOpen, rotate_eq]
          exact (flushStep_isOpen s).trans h.o
        c := rfl
        m := by
          intro k
          rw [abs_eq_stack _ hi, close_stack s h.inv k, ← abs_eq_stack s h.inv, h.m] }
    · have hn : (!s.isOpen || s.closed) = true := by
        cases ho : s.isOpen <;> cases hc : s.closed <;> simp_all
      simp only [hu, hn, if_true]
      exact ⟨h, rfl⟩
  | reopen o =>
    simp only [step, specStep]
    rw [← h.o, ← h.c]
    by_cases hn : (s.closed || !s.isOpen) = true
    · simp only [hn, if_true]
      have hu : (s.isOpen && !s.closed) = false := by
        cases ho : s.isOpen <;> cases hc : s.closed <;> simp_all
      refine ⟨?_, trivial⟩
      have hi := reopen_inv s h.inv o
      exact {
        inv := hi
        o := rfl
        c := rfl
        m := by
          intro k
          rw [abs_eq_stack _ hi, reopen_stack s h.inv hu o k, ← abs_eq_stack s h.inv, h.m] }
    · simp only [hn]
      exact ⟨h, rfl⟩

theorem rel_init : Rel ({} : State) ({} : Spec) where
  inv := inv_init
  o := rfl
  c := rfl
  m := fun _ => rfl

theorem run_sim (steps : List Step) (s : State) (sp : Spec) (h : Rel s sp) :
    (run s steps).map (·.1) = specRun sp steps := by
  induction steps generalizing s sp with
  | nil => rfl
  | cons st steps ih =>
    obtain ⟨h1, h2⟩ := step_sim s sp h st
    simp only [run, specRun, List.map_cons]
    rw [ih _ _ h1, h2]

theorem step_inv (s : State) (h : Inv s) (st : Step) : Inv (step s st).1 := by
  have hr : Rel s { m := abs s, isOpen := s.isOpen, closed := s.closed } :=
    ⟨h, rfl, rfl, fun _ => rfl⟩
  exact (step_sim s _ hr st).1.inv

theorem runState_inv (steps : List Step) (s : State) (h : Inv s) : Inv (runState s steps) := by
  induction steps generalizing s with
  | nil => exact h
  | cons st steps ih => exact ih _ (step_inv s h st)

theorem reach_inv (steps : List Step) : Inv (runState {} steps) := runState_inv steps {} inv_init

theorem internal_run (post : List Step) (s : State) (h : Inv s) (hp : ∀ st ∈ post, Internal st) :
    Inv (runState s post) ∧ (∀ k, abs (runState s post) k = abs s k) ∧
      (runState s post).isOpen = s.isOpen ∧ (runState s post).closed = s.closed := by
  induction post generalizing s with
  | nil => exact ⟨h, fun _ => rfl, rfl, rfl⟩
  | cons st post ih =>
    obtain ⟨h1, h2, h3, h4⟩ := internal_step s h st (hp st (by simp))
    obtain ⟨i1, i2, i3, i4⟩ := ih _ h1 (fun x hx => hp x (List.mem_cons_of_mem _ hx))
    exact ⟨i1, fun k => (i2 k).trans (h2 k), i3.trans h3, i4.trans h4⟩

end SST.Proofs.DB
