/-
L7, compaction: selection on the metadata of the byte-level tables = `DBM`'s selection on the layers, the
scanners of the selected tables feed `Merge.mergeCompact` exactly the inputs of C08, the result written
through `SstW` decodes to `DBM.mergeRun`, and `reflectCompactionResult` is parametric in the table type.
-/
import SST.Proofs.StackMerge
import SST.Proofs.StackFlush
namespace SST.Proofs.Stack
open SST SST.Stack SST.DBM Generated

/-! ## scanners -/

theorem normKey_eq_pbKey (k : Bytes) : SST.normKey k = Merge.pbKey k := by
  cases k <;> rfl

theorem normKV_toItems (kvs : List KV) : kvs.map normKV = Merge.toItems kvs := by
  unfold Merge.toItems
  apply List.map_congr_left
  intro p _
  simp [normKV, normKey_eq_pbKey]

/-- bridging C03 → C08: the full scanners of the selected tables deliver the items of the Merge model's
abstract readers and end with Done -/
theorem scanAll_ok {P : Params} {sel : List LiveTbl} {kvss : List (List KV)} (h : Rel2 (TblDec P) sel kvss) :
    scanAll P sel = .ok (kvss.map fun kvs => ((Merge.toItems kvs, IterEnd.done) : ScanRes)) := by
  induction h with
  | nil => rfl
  | cons hab _ ih => simp only [scanAll, hab.opened, hab.reads.scan, ih, normKV_toItems, List.map_cons]

theorem scanInputs_eq (kvss : List (List KV)) :
    (kvss.map fun kvs => ((Merge.toItems kvs, IterEnd.done) : ScanRes)).map scanInput =
      (kvss.map Merge.toItems).map Merge.inputOf := by
  simp only [List.map_map]
  apply List.map_congr_left
  intro kvs _
  rfl

/-! ## selection -/

/-- truthful metadata: the candidate test on the reader's metadata is `DBM`'s test on the layer -/
theorem candidate_eq {P : Params} {t : LiveTbl} {a : Tbl} (h : TblRel P t a) (o : Opts) :
    DBM.candidate o a t.rd.md.totalBytes = candidateMd o t.rd.md := by
  obtain ⟨kvs, hd, hc⟩ := h.dec
  have hn : t.rd.md.numRecords = DBM.numRecords a := by
    rw [hd.md]; unfold DBM.numRecords; rw [cells_length hc hd.asc]; rfl
  have hz : t.rd.md.nullValues = DBM.nullValues a := by
    rw [hd.md]; unfold DBM.nullValues; rw [cells_nulls hc hd.asc]; rfl
  unfold DBM.candidate candidateMd
  rw [hn, hz]

theorem flags_eq {P : Params} {ts : List LiveTbl} {as : List Tbl} (h : Rel2 (TblRel P) ts as) (o : Opts) :
    (as.zip (ts.map (·.rd.md.totalBytes))).map (fun x => DBM.candidate o x.1 x.2) =
      ts.map fun t => candidateMd o t.rd.md := by
  induction h with
  | nil => rfl
  | cons hab _ ih =>
    simp only [List.map_cons, List.zip_cons_cons, candidate_eq hab, ih]

/-- `startsAtOldestTable` (`selected[0]`) is "the first selected position is 0" -/
theorem first_zero (flags : List Bool) (n first : Nat) (rest : List Nat)
    (h : (List.range n).filter (fun i => flags.getD i false) = first :: rest) :
    flags.getD 0 false = (first == 0) := by
  have hmem : ∀ x, x ∈ first :: rest ↔ x < n ∧ flags.getD x false = true := by
    intro x; rw [← h, List.mem_filter, List.mem_range]
  have hpw : (first :: rest).Pairwise (· < ·) := by
    rw [← h]; exact List.Pairwise.sublist List.filter_sublist List.pairwise_lt_range
  have hf := (hmem first).mp List.mem_cons_self
  by_cases h0 : flags.getD 0 false = true
  · have : 0 ∈ first :: rest := (hmem 0).mpr ⟨by omega, h0⟩
    rcases List.mem_cons.mp this with e | e
    · rw [h0, ← e]; rfl
    · have := (List.pairwise_cons.mp hpw).1 0 e
      omega
  · have hne : first ≠ 0 := fun e => h0 (e ▸ hf.2)
    have hfalse : flags.getD 0 false = false := by
      cases hb : flags.getD 0 false
      · rfl
      · exact absurd hb h0
    rw [hfalse]
    cases hfz : first with
    | zero => exact absurd hfz hne
    | succ m => rfl

/-- the bloom filter size executeCompaction passes is never 0 -/
theorem newWriter_pos (n : Nat) : newWriter (if n = 0 then 1 else n) = .ok () := by
  unfold newWriter
  split <;> simp_all

/-- `DBM.compactStep`, its pattern-matching lambdas written with projections -/
theorem dbm_compactStep_eq (s : DBM.State) (sizes : List Nat) :
    DBM.compactStep s sizes =
      (let flags := floodFill ((s.tables.zip sizes).map fun x => candidate s.opts x.1 x.2)
       let idx := (List.range s.tables.length).filter fun i => flags.getD i false
       if (idx.length : Int) ≤ s.opts.threshold then (s, []) else
       match idx with
       | [] => (s, [])
       | first :: _ =>
         let sel := idx.filterMap fun i => s.tables[i]?
         match sel with
         | [] => (s, [])
         | t0 :: _ =>
           ({ s with tables := ((List.range s.tables.length).zip s.tables).flatMap fun x =>
                if x.1 == first then [{ gen := t0.gen, cells := mergeRun sel (first == 0) }]
                else if idx.contains x.1 then [] else [x.2] }, sel.map (·.gen))) := rfl

/-- the selection and the merge of one compaction cycle, against `DBM.compactStep` -/
theorem compactPlan_spec {P : Params} {c : Stack.State} {s : DBM.State} (h : Rel P c s) :
    (compactPlan P c = .ok none ∧ DBM.compactStep s (sizesOf c) = (s, [])) ∨
    ∃ pl a0 selA, compactPlan P c = .ok (some pl) ∧
      Merge.Asc pl.out ∧ CellsRel (mergeRun (a0 :: selA) (pl.first == 0)) pl.out ∧ pl.gen = a0.gen ∧
      DBM.compactStep s (sizesOf c) =
        ({ s with tables := ((List.range s.tables.length).zip s.tables).flatMap fun x =>
             if x.1 == pl.first then [{ gen := a0.gen, cells := mergeRun (a0 :: selA) (pl.first == 0) }]
             else if pl.idx.contains x.1 then [] else [x.2] }, pl.gens) := by
  have hfl : (c.tables.map fun t => candidateMd c.opts t.rd.md) =
      (s.tables.zip (sizesOf c)).map fun x => candidate s.opts x.1 x.2 := by
    rw [h.opts]; exact (flags_eq h.tables s.opts).symm
  have hlen := h.tables.length_eq
  rw [dbm_compactStep_eq]
  unfold compactPlan
  simp only [hfl, hlen]
  generalize floodFill ((s.tables.zip (sizesOf c)).map fun x => candidate s.opts x.1 x.2) = flags
  generalize hidx : (List.range s.tables.length).filter (fun i => flags.getD i false) = idx
  cases idx with
  | nil =>
    left
    refine ⟨rfl, ?_⟩
    split <;> rfl
  | cons first rest =>
    by_cases hth : (((first :: rest).length : Nat) : Int) ≤ s.opts.threshold
    · left
      rw [h.opts]
      simp only [hth, decide_true, Bool.or_true, if_true]
      exact ⟨trivial, trivial⟩
    · rw [h.opts]
      simp only [hth, decide_false, List.isEmpty_cons, Bool.or_self, Bool.false_eq_true, if_false]
      have hsel := h.tables.filterMap_get (first :: rest)
      generalize (first :: rest).filterMap (fun i => c.tables[i]?) = selC at hsel ⊢
      generalize (first :: rest).filterMap (fun i => s.tables[i]?) = selA at hsel ⊢
      cases hsel with
      | nil => left; exact ⟨rfl, rfl⟩
      | @cons t0 a0 selC' selA' h0 hrest =>
        right
        obtain ⟨kvss, h1, h2, hasc⟩ := tables_mid (Rel2.cons h0 hrest)
        simp only [newWriter_pos, scanAll_ok h1, scanInputs_eq, first_zero flags _ first rest hidx]
        have hmc : ∀ drop : Bool,
            (Merge.mergeCompact ((kvss.map Merge.toItems).map Merge.inputOf) {}
              (if drop = true then Merge.scanReduceLatestWinsSkipTombstones
               else scanReduceLatestWinsKeepTombstones)).1 = none ∧
            (Merge.mergeCompact ((kvss.map Merge.toItems).map Merge.inputOf) {}
              (if drop = true then Merge.scanReduceLatestWinsSkipTombstones
               else scanReduceLatestWinsKeepTombstones)).2.out = mergedOut drop kvss := by
          intro drop
          cases drop with
          | true => exact (C08.mergeCompact_latestWins_eq_overlay kvss hasc).2
          | false => exact mergeCompact_keep kvss hasc
        obtain ⟨hm1, hm2⟩ := hmc (first == 0)
        generalize Merge.mergeCompact ((kvss.map Merge.toItems).map Merge.inputOf) {}
          (if (first == 0) = true then Merge.scanReduceLatestWinsSkipTombstones
           else scanReduceLatestWinsKeepTombstones) = mc at hm1 hm2 ⊢
        obtain ⟨e, wr⟩ := mc
        simp only at hm1 hm2
        subst hm1
        refine ⟨_, a0, selA', rfl, ?_, ?_, h0.gen, ?_⟩
        · show Merge.Asc wr.out
          rw [hm2]; exact mergedOut_asc _ _
        · show CellsRel _ wr.out
          rw [hm2]; exact mergeRun_cells h2 hasc _
        · have hg : (t0 :: selC').map (·.gen) = (a0 :: selA').map (·.gen) :=
            Rel2.map_eq (fun _ _ hr => hr.gen) (Rel2.cons h0 hrest)
          simp only [hg]

/-! ## one compaction cycle -/

theorem compact_sim {P : Params} (hP : ParamsOk P) {c : Stack.State} {s : DBM.State} (h : Rel P c s)
    (hok : StepOk P c .compact) :
    ∃ c', Stack.compactStep P c = .ok (c', (DBM.compactStep s (sizesOf c)).2) ∧
      Rel P c' (DBM.compactStep s (sizesOf c)).1 := by
  unfold StepOk at hok
  unfold Stack.compactStep
  rcases compactPlan_spec h with ⟨hp, hd⟩ | ⟨pl, a0, selA, hp, hasc, hcells, hgen, hd⟩
  · rw [hp, hd]
    exact ⟨c, rfl, h⟩
  · rw [hp] at hok ⊢
    simp only at hok
    obtain ⟨t, ht, hg, hdec⟩ := writeAndOpen_ok P hP pl.gen pl.out hasc hok .compactWrite .compactLoad
    rw [hd]
    simp only [ht]
    refine ⟨_, rfl, ?_⟩
    have htab := Rel2.zip_flatMap h.tables (fun i => i == pl.first) (fun i => pl.idx.contains i) t
      { gen := a0.gen, cells := mergeRun (a0 :: selA) (pl.first == 0) }
      ⟨by rw [hg, hgen], _, hdec, hcells⟩ (List.range s.tables.length)
    exact { w := h.w, r := h.r, alias := h.alias, pending := h.pending
            tables := by unfold reflect; rw [h.tables.length_eq]; exact htab
            gen := h.gen, isOpen := h.isOpen, closed := h.closed, opts := h.opts }

end SST.Proofs.Stack
