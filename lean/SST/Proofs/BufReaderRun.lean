/-
Layer C, continued: `Open`, `ReadNext`, `SkipNext` and whole reader programs over the buffered stack equal the
pure-stream model.
-/
import SST.Proofs.BufReaderFile
namespace SST.Buf
open SST Generated

/-- the file reader `fr` stands at byte `pos` of `file` (version `v`).  `currentOffset` is only claimed for
underlying readers that never return data together with an error. -/
structure FileRd.Rep (cap : Nat) (ed : Bool) (file : Bytes) (v : Nat) (fr : FileRd) (pos : Nat) : Prop where
  file_eq : fr.file = file
  ver : fr.version = v
  rd : ∃ k, fr.rd.Rep cap ed (file.drop pos) k
  off : ed = false → fr.off = pos

/-! ## the pure-stream side -/

theorem payload_cascade (cmp : Compression) (avail : Bytes) (hlen n : Nat) :
    (if n = 0 then (decodePayload cmp []).map (fun r => (some r, hlen))
     else if avail.length = 0 then .error .eof
     else if avail.length < n then .error .unexpectedEof
     else (decodePayload cmp (avail.take n)).map (fun r => (some r, hlen + n))) = payloadS cmp avail hlen n := by
  unfold payloadS specFull
  by_cases h0 : n = 0
  · subst h0; simp
  · rw [if_neg h0]
    by_cases h1 : avail.length = 0
    · have : ¬ n ≤ avail.length := by omega
      rw [if_pos h1, if_neg this, if_pos h1]
    · rw [if_neg h1]
      by_cases h2 : avail.length < n
      · have : ¬ n ≤ avail.length := by omega
        rw [if_pos h2, if_neg this, if_neg h1]
      · have h3 : n ≤ avail.length := by omega
        have h4 : (avail.take n).length = n := by rw [List.length_take]; omega
        rw [if_neg h2, if_pos h3]
        simp only [h4]

/-- `readNextS` in the shape of `readBodyS` -/
theorem readNextS_eq (cmp : Compression) (s : Bytes) :
    readNextS cmp s = match readHeader (fileWin s) with
      | .error .magic =>
        (match uvarintDec (fileWin s).bytes with
         | .ok (_, c1) => if (s.drop c1).all (· == 0) then .error .eof else .error .magic
         | .error _ => .error .magic)
      | .error e => .error e
      | .ok h => if h.isNil then .ok (none, h.hlen)
                 else payloadS cmp (s.drop h.hlen) h.hlen (expectedLen cmp h) := by
  unfold readNextS
  cases hh : readHeader (fileWin s) with
  | error e => cases e <;> rfl
  | ok h =>
    simp only []
    split
    · rfl
    · exact payload_cascade cmp _ _ _

/-! ## the pieces of ReadNext -/

theorem zeroTail_spec (cap : Nat) (ed : Bool) (grow : Nat → Nat) (hg : ∀ x, x < grow x) (fr : FileRd) (c : CRd)
    (t : Bytes) (k : Nat) (h : c.Rep cap ed t k) :
    ∃ fr', zeroTail grow fr c = (.error (.e (if t.all (· == 0) then .eof else .magic)), fr') := by
  obtain ⟨c', h1, _⟩ := readAll_spec grow hg h
  by_cases hz : t.all (· == 0) = true
  · exact ⟨{ fr with rd := c' }, by simp only [zeroTail, h1, hz, if_true]⟩
  · refine ⟨{ fr with rd := c' }, ?_⟩
    simp only [zeroTail, h1]
    rw [if_neg hz, if_neg hz]

theorem readPayload_spec (cap : Nat) (ed : Bool) (cmp : Compression) (file : Bytes) (v : Nat) (fr : FileRd)
    (pos hlen k0 : Nat) (hd : RecHeader) (c : CRd) (start : Nat)
    (hfile : fr.file = file) (hver : fr.version = v) (hoff : ed = false → fr.off = pos)
    (hstart : ed = false → start = k0)
    (h : c.Rep cap ed (file.drop (pos + hlen)) (k0 + hlen)) :
    ∃ fr', readPayload cmp fr start hd c =
        (liftE ((payloadS cmp (file.drop (pos + hlen)) hlen (expectedLen cmp hd)).map Prod.fst), fr') ∧
      (∀ r m, payloadS cmp (file.drop (pos + hlen)) hlen (expectedLen cmp hd) = .ok (r, m) →
        FileRd.Rep cap ed file v fr' (pos + m)) := by
  obtain ⟨c', h1, h2, _⟩ := readFull_spec (expectedLen cmp hd) h
  simp only [readPayload]
  generalize expectedLen cmp hd = n at *
  generalize ht : file.drop (pos + hlen) = t at *
  by_cases hn : n ≤ t.length
  · have hsf : specFull t n = (t.take n, none, t.drop n) := by simp [specFull, hn]
    rw [hsf] at h1 h2
    have htl : (t.take n).length = n := by rw [List.length_take]; omega
    simp only [htl] at h2
    cases hdec : decodePayload cmp (t.take n) with
    | error e =>
      refine ⟨{ fr with rd := c', off := fr.off + (c'.count - start) },
        by simp only [h1, hdec, payloadS, hsf, Except.map, liftE], fun r m hh => ?_⟩
      simp [payloadS, hsf, hdec, Except.map] at hh
    | ok p =>
      refine ⟨{ fr with rd := c', off := fr.off + (c'.count - start) },
        by simp only [h1, hdec, payloadS, hsf, Except.map, liftE], fun r m hh => ?_⟩
      simp only [payloadS, hsf, hdec, Except.map, htl, Except.ok.injEq, Prod.mk.injEq] at hh
      obtain ⟨_, rfl⟩ := hh
      refine ⟨hfile, hver, ⟨k0 + hlen + n, ?_⟩, fun hed => ?_⟩
      · have : file.drop (pos + (hlen + n)) = t.drop n := by rw [← ht, List.drop_drop, Nat.add_assoc]
        rw [this]; exact h2
      · simp only [hoff hed, hstart hed, h2.count hed]; omega
  · by_cases h0 : t.length = 0
    · have hsf : specFull t n = ([], some (.e .eof), []) := by unfold specFull; rw [if_neg hn, if_pos h0]
      rw [hsf] at h1
      refine ⟨{ fr with rd := c' }, by simp only [h1, payloadS, hsf, Except.map, liftE], fun r m hh => ?_⟩
      simp [payloadS, hsf] at hh
    · have hsf : specFull t n = (t, some (.e .unexpectedEof), []) := by unfold specFull; rw [if_neg hn, if_neg h0]
      rw [hsf] at h1
      refine ⟨{ fr with rd := c' }, by simp only [h1, payloadS, hsf, Except.map, liftE], fun r m hh => ?_⟩
      simp [payloadS, hsf] at hh

/-! ## ReadNext / SkipNext, version 4 -/

theorem xerr_e_inj (a b : Err) : (XErr.e a = XErr.e b) = (a = b) := by simp

/-- `ReadNext` (V4) over the buffered stack returns what `readNextS` returns on the raw stream, and after a
success the stack stands behind the record -/
theorem readNextV4_spec (cap : Nat) (ed : Bool) (cmp : Compression) (grow : Nat → Nat) (hg : ∀ x, x < grow x)
    (file : Bytes) (v : Nat) (fr : FileRd) (pos : Nat) (hrep : fr.Rep cap ed file v pos) :
    ∃ fr', fr.readNextV4 cmp grow = (liftE ((readNextS cmp (file.drop pos)).map Prod.fst), fr') ∧
      (∀ r n, readNextS cmp (file.drop pos) = .ok (r, n) → fr'.Rep cap ed file v (pos + n)) := by
  obtain ⟨k, hk⟩ := hrep.rd
  obtain ⟨h', g1, g2, g3⟩ := readRecordHeaderV4_spec cap ed fr.rd (file.drop pos) k hk
  rw [readNextS_eq]
  cases hh : readHeader (fileWin (file.drop pos)) with
  | error e =>
    rw [hh, liftE_error] at g1
    by_cases hm : e = .magic
    · subst hm
      obtain ⟨m, c1, hu, hr⟩ := g3 hh
      obtain ⟨fr', hz⟩ := zeroTail_spec cap ed grow hg fr h'.rd _ _ hr
      refine ⟨fr', ?_, fun r n hc => ?_⟩
      · simp only [FileRd.readNextV4, g1, if_true, hz, hu]
        split <;> simp [Except.map, liftE]
      · simp only [hu] at hc
        split at hc <;> cases hc
    · refine ⟨{ fr with rd := h'.rd }, ?_, fun r n hc => ?_⟩
      · simp only [FileRd.readNextV4, g1, xerr_e_inj, if_neg hm]
        cases e <;> first | exact absurd rfl hm | rfl
      · cases e <;> first | exact absurd rfl hm | cases hc
  | ok hd =>
    rw [hh, liftE_ok] at g1
    obtain ⟨hr, hle⟩ := g2 hd hh
    simp only []
    by_cases hnil : hd.isNil = true
    · refine ⟨{ fr with rd := h'.rd, off := fr.off + (h'.rd.count - fr.rd.count) },
        by simp only [FileRd.readNextV4, g1, hnil, if_true, Except.map, liftE], fun r n hc => ?_⟩
      simp only [hnil, if_true, Except.ok.injEq, Prod.mk.injEq] at hc
      obtain ⟨_, rfl⟩ := hc
      refine ⟨hrep.file_eq, hrep.ver, ⟨k + hd.hlen, ?_⟩, fun hed => ?_⟩
      · rw [← List.drop_drop]; exact hr
      · simp only [hrep.off hed, hr.count hed, hk.count hed]; omega
    · rw [List.drop_drop] at hr
      obtain ⟨fr', p1, p2⟩ := readPayload_spec cap ed cmp file v fr pos hd.hlen k hd h'.rd fr.rd.count
        hrep.file_eq hrep.ver hrep.off (fun hed => hk.count hed) hr
      rw [List.drop_drop]
      refine ⟨fr', ?_, fun r n hc => ?_⟩
      · simp only [FileRd.readNextV4, g1, hnil, Bool.false_eq_true, if_false]
        exact p1
      · rw [if_neg hnil] at hc
        exact p2 r n hc

/-- `SkipNext` (V4): the header through the stack, then `Seek` + `Reset`.  `pos + n < 2^63`: the seek target
fits an int64 (always true of real files; a header that passes the checksum may still claim any length) -/
theorem skipNextV4_spec (cap : Nat) (cmp : Compression) (maxOff : Nat) (hmax : maxOff < 2 ^ 63) (file : Bytes)
    (v : Nat) (fr : FileRd) (pos : Nat) (hrep : fr.Rep cap false file v pos)
    (hfit : ∀ n, skipNextS cmp (file.drop pos) = .ok n → pos + n ≤ maxOff) :
    ∃ fr', fr.skipNextV4 cmp maxOff = (liftE ((skipNextS cmp (file.drop pos)).map (fun _ => ())), fr') ∧
      (∀ n, skipNextS cmp (file.drop pos) = .ok n → fr'.Rep cap false file v (pos + n)) := by
  obtain ⟨k, hk⟩ := hrep.rd
  obtain ⟨h', g1, g2, _⟩ := readRecordHeaderV4_spec cap false fr.rd (file.drop pos) k hk
  unfold skipNextS at hfit ⊢
  cases hh : readHeader (fileWin (file.drop pos)) with
  | error e =>
    rw [hh, liftE_error] at g1
    exact ⟨{ fr with rd := h'.rd }, by simp only [FileRd.skipNextV4, g1, Except.map, liftE],
      fun n hc => by cases hc⟩
  | ok hd =>
    rw [hh, liftE_ok] at g1
    obtain ⟨hr, _⟩ := g2 hd hh
    simp only [hh] at hfit
    have hf := hfit _ rfl
    have hcnt : h'.rd.count - fr.rd.count = hd.hlen := by
      rw [hr.count rfl, hk.count rfl]; omega
    have htarget : fr.off + skipLen cmp hd + (h'.rd.count - fr.rd.count) =
        pos + (hd.hlen + if hd.isNil then 0 else expectedLen cmp hd) := by
      rw [hcnt, hrep.off rfl, skipLen]; omega
    have hmod : (pos + (hd.hlen + if hd.isNil then 0 else expectedLen cmp hd)) % 2 ^ 64 =
        pos + (hd.hlen + if hd.isNil then 0 else expectedLen cmp hd) := Nat.mod_eq_of_lt (by omega)
    refine ⟨{ fr with
        rd := h'.rd.reset { rem := fr.file.drop (pos + (hd.hlen + if hd.isNil then 0 else expectedLen cmp hd)),
                            sched := [], eofData := false },
        off := pos + (hd.hlen + if hd.isNil then 0 else expectedLen cmp hd) },
      by simp only [FileRd.skipNextV4, g1, htarget, FileRd.seekTo, hmod]
         rw [if_neg (by omega)]; simp only [Except.map, liftE], fun n hc => ?_⟩
    simp only [Except.ok.injEq] at hc
    subst hc
    refine ⟨hrep.file_eq, hrep.ver, ⟨h'.rd.count, ?_⟩, fun _ => rfl⟩
    refine ⟨?_, ?_, fun _ => rfl⟩
    · exact { cap_eq := hr.inv.cap_eq, cap_pos := hr.inv.cap_pos, ed_eq := rfl, noStall := noStall_nil,
              err_ok := Or.inl rfl }
    · simp [CRd.reset, Rd.reset, Rd.stream, hrep.file_eq]

/-! ## ReadNext / SkipNext, versions 3 and 2 -/

theorem expectedLen_noLen (cmp : Compression) (h : RecHeader) : expectedLen cmp (noLen h) = expectedLen cmp h := by
  cases cmp <;> rfl

theorem skipLen_noLen (cmp : Compression) (h : RecHeader) : skipLen cmp (noLen h) = skipLen cmp h := by
  cases cmp <;> rfl

theorem readNextV3_spec (cap : Nat) (ed : Bool) (cmp : Compression) (grow : Nat → Nat) (hg : ∀ x, x < grow x)
    (file : Bytes) (v : Nat) (fr : FileRd) (pos : Nat) (hrep : fr.Rep cap ed file v pos) :
    ∃ fr', fr.readNextV3 cmp grow = (liftE ((readNextS3 cmp (file.drop pos)).map Prod.fst), fr') ∧
      (∀ r n, readNextS3 cmp (file.drop pos) = .ok (r, n) → fr'.Rep cap ed file v (pos + n)) := by
  obtain ⟨k, hk⟩ := hrep.rd
  obtain ⟨c', g1, g2, g3⟩ := readRecordHeaderV3_spec cap ed fr.rd (file.drop pos) k hk
  unfold readNextS3 readBodyS
  cases hh : readHeaderS3 (file.drop pos) with
  | error e =>
    rw [hh] at g1
    simp only [Except.map, liftE] at g1
    by_cases hm : e = .magic
    · subst hm
      obtain ⟨m, c1, hu, hr⟩ := g3 hh
      obtain ⟨fr', hz⟩ := zeroTail_spec cap ed grow hg fr c' _ _ hr
      refine ⟨fr', ?_, fun r n hc => ?_⟩
      · simp only [FileRd.readNextV3, g1, if_true, hz, hu]
        split <;> simp [Except.map, liftE]
      · simp only [hu] at hc
        split at hc <;> cases hc
    · refine ⟨{ fr with rd := c' }, ?_, fun r n hc => ?_⟩
      · simp only [FileRd.readNextV3, g1, xerr_e_inj, if_neg hm]
        cases e <;> first | exact absurd rfl hm | rfl
      · cases e <;> first | exact absurd rfl hm | cases hc
  | ok hd =>
    rw [hh] at g1
    simp only [Except.map, liftE] at g1
    obtain ⟨hr, hle⟩ := g2 hd hh
    simp only []
    by_cases hnil : hd.isNil = true
    · have hnil' : (noLen hd).isNil = true := hnil
      refine ⟨{ fr with rd := c', off := fr.off + (c'.count - fr.rd.count) },
        by simp only [FileRd.readNextV3, g1, hnil, hnil', if_true, Except.map, liftE], fun r n hc => ?_⟩
      simp only [hnil, if_true, Except.ok.injEq, Prod.mk.injEq] at hc
      obtain ⟨_, rfl⟩ := hc
      refine ⟨hrep.file_eq, hrep.ver, ⟨k + hd.hlen, ?_⟩, fun hed => ?_⟩
      · rw [← List.drop_drop]; exact hr
      · simp only [hrep.off hed, hr.count hed, hk.count hed]; omega
    · have hnil' : ¬ (noLen hd).isNil = true := hnil
      rw [List.drop_drop] at hr
      obtain ⟨fr', p1, p2⟩ := readPayload_spec cap ed cmp file v fr pos hd.hlen k (noLen hd) c' fr.rd.count
        hrep.file_eq hrep.ver hrep.off (fun hed => hk.count hed) hr
      rw [expectedLen_noLen] at p1 p2
      rw [List.drop_drop]
      refine ⟨fr', ?_, fun r n hc => ?_⟩
      · simp only [FileRd.readNextV3, g1, hnil']
        rw [if_neg hnil]
        exact p1
      · rw [if_neg hnil] at hc
        exact p2 r n hc

theorem readNextV2_spec (cap : Nat) (ed : Bool) (cmp : Compression) (grow : Nat → Nat) (hg : ∀ x, x < grow x)
    (file : Bytes) (v : Nat) (fr : FileRd) (pos : Nat) (hrep : fr.Rep cap ed file v pos) :
    ∃ fr', fr.readNextV2 cmp grow = (liftE ((readNextS2 cmp (file.drop pos)).map Prod.fst), fr') ∧
      (∀ r n, readNextS2 cmp (file.drop pos) = .ok (r, n) → fr'.Rep cap ed file v (pos + n)) := by
  obtain ⟨k, hk⟩ := hrep.rd
  obtain ⟨c', g1, g2, g3⟩ := readRecordHeaderV2_spec cap ed fr.rd (file.drop pos) k hk
  unfold readNextS2 readBodyS
  cases hh : readHeaderS2 (file.drop pos) with
  | error e =>
    rw [hh] at g1
    simp only [Except.map, liftE] at g1
    by_cases hm : e = .magic
    · subst hm
      obtain ⟨m, c1, hu, hr⟩ := g3 hh
      obtain ⟨fr', hz⟩ := zeroTail_spec cap ed grow hg fr c' _ _ hr
      refine ⟨fr', ?_, fun r n hc => ?_⟩
      · simp only [FileRd.readNextV2, g1, if_true, hz, hu]
        split <;> simp [Except.map, liftE]
      · simp only [hu] at hc
        split at hc <;> cases hc
    · refine ⟨{ fr with rd := c' }, ?_, fun r n hc => ?_⟩
      · simp only [FileRd.readNextV2, g1, xerr_e_inj, if_neg hm]
        cases e <;> first | exact absurd rfl hm | rfl
      · cases e <;> first | exact absurd rfl hm | cases hc
  | ok hd =>
    rw [hh] at g1
    simp only [Except.map, liftE] at g1
    obtain ⟨hr, hle⟩ := g2 hd hh
    have hnil : hd.isNil = false := by
      unfold readHeaderS2 at hh
      split at hh
      · cases hh
      · split at hh
        · cases hh
        · split at hh
          · cases hh
          · split at hh
            · cases hh
            · simp only [Except.ok.injEq] at hh; rw [← hh]
    simp only [hnil, Bool.false_eq_true, if_false]
    rw [List.drop_drop] at hr ⊢
    obtain ⟨c'', h1, h2, _⟩ := readFull_spec (expectedLen cmp hd) hr
    simp only [FileRd.readNextV2, g1, expectedLen_noLen]
    generalize expectedLen cmp hd = n at *
    generalize ht : file.drop (pos + hd.hlen) = t at *
    by_cases hn : n ≤ t.length
    · have hsf : specFull t n = (t.take n, none, t.drop n) := by simp [specFull, hn]
      rw [hsf] at h1 h2
      have htl : (t.take n).length = n := by rw [List.length_take]; omega
      simp only [htl] at h2
      cases hdec : decodePayload cmp (t.take n) with
      | error e =>
        refine ⟨{ fr with rd := c'' }, by simp only [h1, hdec, payloadS, hsf, Except.map, liftE],
          fun r m hc => ?_⟩
        simp [payloadS, hsf, hdec, Except.map] at hc
      | ok p =>
        refine ⟨{ fr with rd := c'', off := fr.off + (c''.count - fr.rd.count) },
          by simp only [h1, hdec, payloadS, hsf, Except.map, liftE], fun r m hc => ?_⟩
        simp only [payloadS, hsf, hdec, Except.map, htl, Except.ok.injEq, Prod.mk.injEq] at hc
        obtain ⟨_, rfl⟩ := hc
        refine ⟨hrep.file_eq, hrep.ver, ⟨k + hd.hlen + n, ?_⟩, fun hed => ?_⟩
        · have : file.drop (pos + (hd.hlen + n)) = t.drop n := by rw [← ht, List.drop_drop, Nat.add_assoc]
          rw [this]; exact h2
        · simp only [hrep.off hed, hk.count hed, h2.count hed]; omega
    · by_cases h0 : t.length = 0
      · have hsf : specFull t n = ([], some (.e .eof), []) := by unfold specFull; rw [if_neg hn, if_pos h0]
        rw [hsf] at h1
        refine ⟨{ fr with rd := c'' }, by simp only [h1, payloadS, hsf, Except.map, liftE], fun r m hc => ?_⟩
        simp [payloadS, hsf] at hc
      · have hsf : specFull t n = (t, some (.e .unexpectedEof), []) := by
          unfold specFull; rw [if_neg hn, if_neg h0]
        rw [hsf] at h1
        refine ⟨{ fr with rd := c'' }, by simp only [h1, payloadS, hsf, Except.map, liftE], fun r m hc => ?_⟩
        simp [payloadS, hsf] at hc

/-- the common tail of `SkipNext`: seek to an in-range target and re-attach the buffered reader to the file -/
theorem seekTo_spec (cap : Nat) (maxOff : Nat) (hmax : maxOff < 2 ^ 63) (file : Bytes) (v : Nat) (fr : FileRd)
    (c : CRd) (s : Bytes) (k : Nat) (t : Nat)
    (hfile : fr.file = file) (hver : fr.version = v) (hc : c.Rep cap false s k) (ht : t ≤ maxOff) :
    ∃ fr', fr.seekTo maxOff c t = (.ok (), fr') ∧ fr'.Rep cap false file v t := by
  have hmod : t % 2 ^ 64 = t := Nat.mod_eq_of_lt (by omega)
  refine ⟨{ fr with rd := c.reset { rem := fr.file.drop t, sched := [], eofData := false }, off := t }, ?_, ?_⟩
  · simp only [FileRd.seekTo, hmod]; rw [if_neg (by omega)]
  · refine ⟨hfile, hver, ⟨c.count, ?_, ?_, fun _ => rfl⟩, fun _ => rfl⟩
    · exact { cap_eq := hc.inv.cap_eq, cap_pos := hc.inv.cap_pos, ed_eq := rfl, noStall := noStall_nil,
              err_ok := Or.inl rfl }
    · simp [CRd.reset, Rd.reset, Rd.stream, hfile]

theorem skipNextV3_spec (cap : Nat) (cmp : Compression) (maxOff : Nat) (hmax : maxOff < 2 ^ 63) (file : Bytes)
    (v : Nat) (fr : FileRd) (pos : Nat) (hrep : fr.Rep cap false file v pos)
    (hfit : ∀ n, skipNextS3 cmp (file.drop pos) = .ok n → pos + n ≤ maxOff) :
    ∃ fr', fr.skipNextV3 cmp maxOff = (liftE ((skipNextS3 cmp (file.drop pos)).map (fun _ => ())), fr') ∧
      (∀ n, skipNextS3 cmp (file.drop pos) = .ok n → fr'.Rep cap false file v (pos + n)) := by
  obtain ⟨k, hk⟩ := hrep.rd
  obtain ⟨c', g1, g2, _⟩ := readRecordHeaderV3_spec cap false fr.rd (file.drop pos) k hk
  unfold skipNextS3 at hfit ⊢
  cases hh : readHeaderS3 (file.drop pos) with
  | error e =>
    rw [hh] at g1
    simp only [Except.map, liftE] at g1
    exact ⟨{ fr with rd := c' }, by simp only [FileRd.skipNextV3, g1, Except.map, liftE],
      fun n hc => by cases hc⟩
  | ok hd =>
    rw [hh] at g1
    simp only [Except.map, liftE] at g1
    obtain ⟨hr, _⟩ := g2 hd hh
    simp only [hh, Except.map] at hfit
    have hf := hfit _ rfl
    have htarget : fr.off + skipLen cmp (noLen hd) + (c'.count - fr.rd.count) = pos + (hd.hlen + skipLen cmp hd) := by
      rw [hr.count rfl, hk.count rfl, hrep.off rfl, skipLen_noLen]; omega
    obtain ⟨fr', s1, s2⟩ := seekTo_spec cap maxOff hmax file v fr c' _ _ (pos + (hd.hlen + skipLen cmp hd))
      hrep.file_eq hrep.ver hr hf
    refine ⟨fr', by simp only [FileRd.skipNextV3, g1, htarget, s1, Except.map, liftE], fun n hc => ?_⟩
    simp only [Except.map, Except.ok.injEq] at hc
    subst hc
    exact s2

theorem skipNextV2_spec (cap : Nat) (cmp : Compression) (maxOff : Nat) (hmax : maxOff < 2 ^ 63) (file : Bytes)
    (v : Nat) (fr : FileRd) (pos : Nat) (hrep : fr.Rep cap false file v pos)
    (hfit : ∀ n, skipNextS2 cmp (file.drop pos) = .ok n → pos + n ≤ maxOff) :
    ∃ fr', fr.skipNextV2 cmp maxOff = (liftE ((skipNextS2 cmp (file.drop pos)).map (fun _ => ())), fr') ∧
      (∀ n, skipNextS2 cmp (file.drop pos) = .ok n → fr'.Rep cap false file v (pos + n)) := by
  obtain ⟨k, hk⟩ := hrep.rd
  obtain ⟨c', g1, g2, _⟩ := readRecordHeaderV2_spec cap false fr.rd (file.drop pos) k hk
  unfold skipNextS2 at hfit ⊢
  cases hh : readHeaderS2 (file.drop pos) with
  | error e =>
    rw [hh] at g1
    simp only [Except.map, liftE] at g1
    exact ⟨{ fr with rd := c' }, by simp only [FileRd.skipNextV2, g1, Except.map, liftE],
      fun n hc => by cases hc⟩
  | ok hd =>
    rw [hh] at g1
    simp only [Except.map, liftE] at g1
    obtain ⟨hr, _⟩ := g2 hd hh
    simp only [hh, Except.map] at hfit
    have hf := hfit _ rfl
    have htarget : fr.off + expectedLen cmp (noLen hd) + (c'.count - fr.rd.count) =
        pos + (hd.hlen + expectedLen cmp hd) := by
      rw [hr.count rfl, hk.count rfl, hrep.off rfl, expectedLen_noLen]; omega
    obtain ⟨fr', s1, s2⟩ := seekTo_spec cap maxOff hmax file v fr c' _ _ (pos + (hd.hlen + expectedLen cmp hd))
      hrep.file_eq hrep.ver hr hf
    refine ⟨fr', by simp only [FileRd.skipNextV2, g1, htarget, s1, Except.map, liftE], fun n hc => ?_⟩
    simp only [Except.map, Except.ok.injEq] at hc
    subst hc
    exact s2

/-! ## all versions, Open, whole programs -/

theorem readNext_spec (cap : Nat) (ed : Bool) (cmp : Compression) (grow : Nat → Nat) (hg : ∀ x, x < grow x)
    (file : Bytes) (v : Nat) (hv : v = 2 ∨ v = 3 ∨ v = 4) (fr : FileRd) (pos : Nat)
    (hrep : fr.Rep cap ed file v pos) :
    ∃ fr', fr.readNext cmp grow = (liftE ((readNextSV v cmp (file.drop pos)).map Prod.fst), fr') ∧
      (∀ r n, readNextSV v cmp (file.drop pos) = .ok (r, n) → fr'.Rep cap ed file v (pos + n)) := by
  have hver := hrep.ver
  rcases hv with rfl | rfl | rfl
  · simpa [FileRd.readNext, readNextSV, hver] using readNextV2_spec cap ed cmp grow hg file 2 fr pos hrep
  · simpa [FileRd.readNext, readNextSV, hver] using readNextV3_spec cap ed cmp grow hg file 3 fr pos hrep
  · simpa [FileRd.readNext, readNextSV, hver] using readNextV4_spec cap ed cmp grow hg file 4 fr pos hrep

theorem skipNext_spec (cap : Nat) (cmp : Compression) (maxOff : Nat) (hmax : maxOff < 2 ^ 63) (file : Bytes)
    (v : Nat) (hv : v = 2 ∨ v = 3 ∨ v = 4)
    (fr : FileRd) (pos : Nat) (hrep : fr.Rep cap false file v pos)
    (hfit : ∀ n, skipNextSV v cmp (file.drop pos) = .ok n → pos + n ≤ maxOff) :
    ∃ fr', fr.skipNext cmp maxOff = (liftE ((skipNextSV v cmp (file.drop pos)).map (fun _ => ())), fr') ∧
      (∀ n, skipNextSV v cmp (file.drop pos) = .ok n → fr'.Rep cap false file v (pos + n)) := by
  have hver := hrep.ver
  rcases hv with rfl | rfl | rfl
  · simpa [FileRd.skipNext, skipNextSV, hver] using
      skipNextV2_spec cap cmp maxOff hmax file 2 fr pos hrep (by simpa [skipNextSV] using hfit)
  · simpa [FileRd.skipNext, skipNextSV, hver] using
      skipNextV3_spec cap cmp maxOff hmax file 3 fr pos hrep (by simpa [skipNextSV] using hfit)
  · simpa [FileRd.skipNext, skipNextSV, hver] using
      skipNextV4_spec cap cmp maxOff hmax file 4 fr pos hrep (by simpa [skipNextSV] using hfit)

/-- a freshly constructed stack stands for the whole data of its underlying reader -/
theorem rep_fresh (cap : Nat) (u : Under) (hcap : 0 < cap) (hns : NoStall u.sched) (aligned : Bool := false) :
    ({ rd := Rd.reset cap u aligned, count := 0 } : CRd).Rep cap u.eofData u.rem 0 :=
  ⟨{ cap_eq := rfl, cap_pos := hcap, ed_eq := rfl, noStall := hns, err_ok := Or.inl rfl },
   by simp [Rd.stream, Rd.reset], fun _ => rfl⟩

theorem parseFileHeader_take (file : Bytes) (h : fileHeaderSize ≤ file.length) :
    parseFileHeader (file.take fileHeaderSize) = parseFileHeader file := by
  have h8 : fileHeaderSize = 8 := rfl
  rw [h8] at h ⊢
  have h1 : ¬ (file.take 8).length < 8 := by rw [List.length_take]; omega
  have h2 : ¬ file.length < 8 := by omega
  have h3 : (file.take 8).take 4 = file.take 4 := by rw [List.take_take]; rfl
  have h4 : ((file.take 8).drop 4).take 4 = (file.drop 4).take 4 := by
    rw [List.drop_take, List.take_take]; rfl
  unfold parseFileHeader
  rw [h8, if_neg h1, if_neg h2, h3, h4]

theorem effCap_pos (cap : Nat) : 0 < effCap cap := by
  unfold effCap minReadBufferSize; split <;> omega

theorem effCap_of_pos (cap : Nat) (h : 0 < cap) : effCap cap = cap := by
  unfold effCap; rw [if_neg (by omega)]

/-- a reader made by `NewReaderBuf` never has capacity 0: `fill`'s panic branch is unreachable -/
theorem constructed_cap_pos (cap : Nat) (u : Under) : 0 < (Rd.new cap u).cap := effCap_pos cap

/-- the stack as constructed (`NewCountingByteReader(NewReaderBuf(u, make([]byte, cap)))`, ANY `cap`) stands for
the whole data of its underlying reader -/
theorem rep_new (cap : Nat) (u : Under) (hns : NoStall u.sched) :
    ({ rd := Rd.new cap u, count := 0 } : CRd).Rep (effCap cap) u.eofData u.rem 0 :=
  rep_fresh (effCap cap) u (effCap_pos cap) hns

/-- the same for either constructor (`NewReaderBuf` / `NewAlignedReaderBuf`) -/
theorem rep_make (aligned : Bool) (cap : Nat) (u : Under) (hns : NoStall u.sched) :
    ({ rd := Rd.make aligned cap u, count := 0 } : CRd).Rep (effCap cap) u.eofData u.rem 0 :=
  rep_fresh (effCap cap) u (effCap_pos cap) hns aligned

theorem constructed_cap_pos' (aligned : Bool) (cap : Nat) (u : Under) : 0 < (Rd.make aligned cap u).cap :=
  effCap_pos cap

/-- `Open` over the buffered stack = `parseFileHeader` of the file -/
theorem open_spec (cap : Nat) (file : Bytes) (u : Under) (hns : NoStall u.sched)
    (hrem : u.rem = file) (aligned : Bool := false) :
    ∃ fr', (FileRd.new file cap u aligned).open = (liftE (parseFileHeader file), fr') ∧
      (∀ v ct, parseFileHeader file = .ok (v, ct) → fr'.Rep (effCap cap) u.eofData file v fileHeaderSize) := by
  have hrep := rep_make aligned cap u hns
  rw [hrem] at hrep
  obtain ⟨c', h1, h2, _⟩ := readFull_spec fileHeaderSize hrep
  by_cases hn : fileHeaderSize ≤ file.length
  · have hsf : specFull file fileHeaderSize = (file.take fileHeaderSize, none, file.drop fileHeaderSize) := by
      simp [specFull, hn]
    rw [hsf] at h1 h2
    cases hp : parseFileHeader file with
    | error e =>
      refine ⟨{ FileRd.new file cap u aligned with rd := c' }, ?_, fun v ct hh => by cases hh⟩
      simp only [FileRd.open, FileRd.new, h1, parseFileHeader_take file hn, hp, liftE]
    | ok p =>
      obtain ⟨v, ct⟩ := p
      refine ⟨{ FileRd.new file cap u aligned with rd := c', off := fileHeaderSize, version := v }, ?_, fun v' ct' hh => ?_⟩
      · simp only [FileRd.open, FileRd.new, h1, parseFileHeader_take file hn, hp, liftE]
      · simp only [Except.ok.injEq, Prod.mk.injEq] at hh
        obtain ⟨rfl, rfl⟩ := hh
        exact ⟨rfl, rfl, ⟨_, h2⟩, fun _ => rfl⟩
  · have hlt : file.length < fileHeaderSize := by omega
    by_cases h0 : file.length = 0
    · have hsf : specFull file fileHeaderSize = ([], some (.e .eof), []) := by
        unfold specFull; rw [if_neg hn, if_pos h0]
      rw [hsf] at h1
      have hp : parseFileHeader file = .error .eof := by unfold parseFileHeader; rw [if_pos hlt, if_pos h0]
      refine ⟨{ FileRd.new file cap u aligned with rd := c' }, ?_, fun v ct hh => by rw [hp] at hh; cases hh⟩
      simp only [FileRd.open, FileRd.new, h1, hp, liftE]
    · have hsf : specFull file fileHeaderSize = (file, some (.e .unexpectedEof), []) := by
        unfold specFull; rw [if_neg hn, if_neg h0]
      rw [hsf] at h1
      have hp : parseFileHeader file = .error .unexpectedEof := by
        unfold parseFileHeader; rw [if_pos hlt, if_neg h0]
      refine ⟨{ FileRd.new file cap u aligned with rd := c' }, ?_, fun v ct hh => by rw [hp] at hh; cases hh⟩
      simp only [FileRd.open, FileRd.new, h1, hp, liftE]

/-- a whole reader program (ReadNext / SkipNext, up to the first error) over the buffered stack gives exactly
what the pure-stream model gives -/
theorem bufRun_eq_streamRun (cap : Nat) (cmp : Compression) (grow : Nat → Nat) (hg : ∀ x, x < grow x)
    (maxOff : Nat) (hmax : maxOff < 2 ^ 63)
    (file : Bytes) (v : Nat) (hv : v = 2 ∨ v = 3 ∨ v = 4) : ∀ (ops : List ROp) (fr : FileRd) (pos : Nat),
    fr.Rep cap false file v pos → skipsFit v cmp maxOff file pos ops = true →
    bufRun cmp grow maxOff fr ops = streamRun v cmp file pos ops := by
  intro ops
  induction ops with
  | nil => intro fr pos _ _; rfl
  | cons op ops ih =>
    intro fr pos hrep hfit
    cases op with
    | read =>
      obtain ⟨fr', h1, h2⟩ := readNext_spec cap false cmp grow hg file v hv fr pos hrep
      cases hr : readNextSV v cmp (file.drop pos) with
      | error e =>
        rw [hr] at h1
        simp only [bufRun, streamRun, h1, hr, Except.map, liftE]
      | ok p =>
        obtain ⟨r, n⟩ := p
        rw [hr] at h1
        simp only [skipsFit, hr] at hfit
        simp only [bufRun, streamRun, h1, hr, Except.map, liftE]
        rw [ih fr' (pos + n) (h2 r n hr) hfit]
    | skip =>
      cases hr : skipNextSV v cmp (file.drop pos) with
      | error e =>
        obtain ⟨fr', h1, _⟩ := skipNext_spec cap cmp maxOff hmax file v hv fr pos hrep (by intro n hn; rw [hr] at hn; cases hn)
        rw [hr] at h1
        simp only [bufRun, streamRun, h1, hr, Except.map, liftE]
      | ok n =>
        simp only [skipsFit, hr, Bool.and_eq_true, decide_eq_true_eq] at hfit
        obtain ⟨fr', h1, h2⟩ := skipNext_spec cap cmp maxOff hmax file v hv fr pos hrep
          (by intro m hm; rw [hr] at hm; cases hm; exact hfit.1)
        rw [hr] at h1
        simp only [bufRun, streamRun, h1, hr, Except.map, liftE]
        rw [ih fr' (pos + n) (h2 n hr) hfit.2]

/-! ## no progress, capacity 0, data that arrives together with EOF -/

theorem fillLoop_stall : ∀ (i : Nat) (b : Rd), b.pend = [] → 0 < b.cap → i ≤ zeroRun b.under.sched →
    (b.fillLoop i).err = some .noProgress ∧ (b.fillLoop i).pend = [] ∧ (b.fillLoop i).cap = b.cap ∧
    (b.fillLoop i).aligned = b.aligned ∧ (b.fillLoop i).under.rem = b.under.rem ∧
    (b.fillLoop i).under.sched = b.under.sched.drop i ∧ (b.fillLoop i).under.eofData = b.under.eofData := by
  intro i
  induction i with
  | zero => intro b hp _ _; simp [Rd.fillLoop, hp]
  | succ i ih =>
    intro b hp hcap hz
    cases hs : b.under.sched with
    | nil => rw [hs] at hz; simp [zeroRun] at hz
    | cons l t =>
      rw [hs] at hz
      by_cases hl : l = 0
      · subst hl
        rw [zeroRun_zero] at hz
        have hr : b.under.read (b.cap - b.pend.length) =
            ⟨[], none, { b.under.logged (b.cap - b.pend.length) with sched := t }⟩ := by
          simp [Under.read, Under.readCore, hs]
        simp only [Rd.fillLoop, hr, List.length_nil, Nat.lt_irrefl, if_false]
        have := ih ({ b with pend := b.pend ++ [], under := { b.under.logged (b.cap - b.pend.length) with sched := t } } : Rd) (by simp [hp]) hcap
          (by show i ≤ zeroRun t; omega)
        dsimp only at this
        obtain ⟨g1, g2, g3, g4, g5, g6, g7⟩ := this
        exact ⟨g1, g2, g3, g4, g5, by rw [g6]; simp, g7⟩
      · rw [zeroRun_pos l t hl] at hz; omega

/-- 100 consecutive empty reads: `ReadByte` reports `io.ErrNoProgress` — an error, no byte is invented and no
byte is lost (the stream is unchanged, 100 schedule entries are used up, the sticky error is cleared) -/
theorem readByte_no_progress (b : Rd) (hp : b.pend = []) (he : b.err = none) (hcap : 0 < b.cap)
    (hz : maxConsecutiveEmptyReads ≤ zeroRun b.under.sched) :
    ∃ b', b.readByte = (.error .noProgress, b') ∧ b'.pend = [] ∧ b'.err = none ∧ b'.cap = b.cap ∧
      b'.under.rem = b.under.rem ∧ b'.under.sched = b.under.sched.drop maxConsecutiveEmptyReads ∧
      b'.stream = b.stream := by
  have hfill : b.fill = some (b.fillLoop maxConsecutiveEmptyReads) := by
    simp only [Rd.fill, hp, List.length_nil]; rw [if_neg (by omega)]
  obtain ⟨g1, g2, g3, _, g5, g6, _⟩ := fillLoop_stall _ b hp hcap hz
  refine ⟨{ b.fillLoop maxConsecutiveEmptyReads with err := none }, ?_, g2, rfl, g3, g5, g6, ?_⟩
  · simp only [Rd.readByte, Rd.readByteLoop, hp, he, hfill, g1, g2]
  · simp [Rd.stream, g2, g5, hp]

/-- capacity 0 (`make([]byte, 0)` as the buffer): `ReadByte` panics in `fill` -/
theorem readByte_cap0_panics (b : Rd) (hcap : b.cap = 0) (hp : b.pend = []) (he : b.err = none) :
    b.readByte = (.error .panicFill, b) := by
  simp [Rd.readByte, Rd.readByteLoop, hp, he, Rd.fill, hcap]

/-- data handed out together with EOF by a large read is returned by `ReadFull` — and never counted -/
theorem readFull_uncounted_reset (cap k : Nat) (d : Bytes) (hd : d ≠ []) (hcap : cap ≤ d.length) :
    let c : CRd := { rd := Rd.reset cap { rem := d, sched := [], eofData := true }, count := k }
    (c.readFull d.length).data = d ∧ (c.readFull d.length).err = none ∧ (c.readFull d.length).st.count = k := by
  intro c
  have hpos : 0 < d.length := List.length_pos_iff.mpr hd
  have hn0 : d.length ≠ 0 := by omega
  obtain ⟨x, xs, rfl⟩ : ∃ x xs, d = x :: xs := by
    cases d with
    | nil => exact absurd rfl hd
    | cons x xs => exact ⟨x, xs, rfl⟩
  have hcap' : cap ≤ xs.length + 1 := by simpa using hcap
  have hread : (c.read ((x :: xs).length)).data = x :: xs ∧ (c.read ((x :: xs).length)).err = some (.e .eof) ∧
      (c.read ((x :: xs).length)).st.count = k := by
    simp only [CRd.read, Rd.read, if_neg hn0]
    simp [c, Rd.reset, Under.read, Under.readCore, Under.logged, Under.deliver, hcap']
  cases hr : c.read ((x :: xs).length) with
  | mk d e st =>
    rw [hr] at hread
    obtain ⟨rfl, rfl, hk⟩ := hread
    have : c.readFull (x :: xs).length = ⟨x :: xs, none, st⟩ := by
      simp only [CRd.readFull]
      have hf : (x :: xs).length + c.rd.under.sched.length + 1 = ((x :: xs).length + 0) + 1 := by
        simp [c, Rd.reset]
      rw [hf]
      simp only [CRd.readFullLoop, List.length_nil, hpos, if_true, Nat.sub_zero, hr, finishFull, List.nil_append,
        ge_iff_le, Nat.le_refl]
    rw [this]; exact ⟨rfl, rfl, hk⟩

theorem readFull_uncounted (cap k : Nat) (d : Bytes) (hd : d ≠ []) (hcap : effCap cap ≤ d.length) :
    let c : CRd := { rd := Rd.new cap { rem := d, sched := [], eofData := true }, count := k }
    (c.readFull d.length).data = d ∧ (c.readFull d.length).err = none ∧ (c.readFull d.length).st.count = k :=
  readFull_uncounted_reset (effCap cap) k d hd hcap

end SST.Buf
