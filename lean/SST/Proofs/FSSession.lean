/-
L6-fs: sessions at event granularity.  The relation `Q` between the disk and the volatile state at operation
boundaries, and for every building block of a step (flush, the tail of a rotation, a compaction cycle, `Open`)
a segment lemma: after every prefix of its events the disk is well-formed and serves the same content, and at
the end `Q` holds again.  Shared by C02 (synchronous WAL) and C13 (asynchronous WAL).
-/
import SST.Proofs.FSRecover
namespace SST.Proofs.FS
open SST SST.DBM SST.FS SST.Proofs.DB

/-! ## WAL listings -/

/-- header-only log files: leftovers of skipped flushes (an empty memstore is not flushed and its file stays) -/
def Junk (fs : List WalFile) : Prop := ∀ f ∈ fs, f.header = true ∧ f.recs = [] ∧ f.torn = false

theorem junk_muts {fs : List WalFile} (h : Junk fs) : walMuts fs = [] := by
  induction fs with
  | nil => rfl
  | cons f fs ih =>
    rw [walMuts_cons, ih (fun x hx => h x (List.mem_cons_of_mem _ hx))]
    have := h f List.mem_cons_self
    simp [fileMuts, this.2.1]

theorem junk_append {a b : List WalFile} (ha : Junk a) (hb : Junk b) : Junk (a ++ b) := by
  intro f hf
  rcases List.mem_append.1 hf with (hf | hf)
  · exact ha f hf
  · exact hb f hf

theorem walReadable_good (a : List WalFile) (h : ∀ f ∈ a, f.header = true ∧ f.torn = false) (x : WalFile) :
    walReadable (a ++ [x]) = true := by
  induction a with
  | nil => rfl
  | cons f a ih =>
    have ih := ih (fun y hy => h y (List.mem_cons_of_mem _ hy))
    have hf := h f List.mem_cons_self
    cases hax : a ++ [x] with
    | nil => simp at hax
    | cons y r =>
      rw [List.cons_append, hax]
      rw [hax] at ih
      simp [walReadable, hf.1, hf.2, ih]

theorem walReadable_good' (a : List WalFile) (h : ∀ f ∈ a, f.header = true ∧ f.torn = false) :
    walReadable a = true := by
  induction a with
  | nil => rfl
  | cons f a ih =>
    have ih := ih (fun y hy => h y (List.mem_cons_of_mem _ hy))
    have hf := h f List.mem_cons_self
    cases a with
    | nil => rfl
    | cons y r => simp [walReadable, hf.1, hf.2, ih]

theorem updW_last (n : Nat) (f : WalFile → WalFile) (pre : List WalFile) (x : WalFile)
    (hpre : ∀ y ∈ pre, y.num ≠ n) (hx : x.num = n) : updW n f (pre ++ [x]) = pre ++ [f x] := by
  unfold updW
  rw [List.map_append]
  congr 1
  · conv => rhs; rw [← List.map_id pre]
    apply List.map_congr_left
    intro y hy
    have : (y.num == n) = false := by simpa using hpre y hy
    simp [this]
  · simp [hx]

theorem insertW_last (x : WalFile) (fs : List WalFile) (h : ∀ y ∈ fs, y.num < x.num) : insertW x fs = fs ++ [x] := by
  induction fs with
  | nil => rfl
  | cons q r ih =>
    have hq := h q List.mem_cons_self
    simp only [insertW]
    rw [if_neg (by omega), if_neg (by omega), ih (fun p hp => h p (List.mem_cons_of_mem _ hp))]
    rfl

theorem eraseW_mid (n : Nat) (a b : List WalFile) (x : WalFile) (ha : ∀ y ∈ a, y.num ≠ n) (hb : ∀ y ∈ b, y.num ≠ n)
    (hx : x.num = n) : eraseW n (a ++ [x] ++ b) = a ++ b := by
  have h1 : a.filter (fun y => y.num != n) = a :=
    List.filter_eq_self.2 (by intro y hy; simpa using ha y hy)
  have h2 : b.filter (fun y => y.num != n) = b :=
    List.filter_eq_self.2 (by intro y hy; simpa using hb y hy)
  have h3 : [x].filter (fun y => y.num != n) = [] := by simp [hx]
  unfold eraseW
  rw [List.filter_append, List.filter_append, h1, h2, h3, List.append_nil]

/-- in a sorted listing the last name is larger than all others -/
theorem sorted_last {pre : List WalFile} {x : WalFile} (h : ((pre ++ [x]).map (·.num)).Pairwise (· < ·)) :
    ∀ y ∈ pre, y.num < x.num := by
  intro y hy
  rw [List.map_append, List.pairwise_append] at h
  exact h.2.2 y.num (List.mem_map.2 ⟨y, hy, rfl⟩) x.num (by simp)

/-! ## the relation between disk and process at operation boundaries -/

/-- the WAL files the process still needs: the one handed to the flusher, and the current one -/
def liveFiles (v : Vol) (ro rc : List Mutation) (tn : Bool) : List WalFile :=
  if usable v.s then
    (if v.s.flushPending then [{ num := v.walOld.getD 0, recs := ro }] else []) ++
      [{ num := v.walCur, recs := rc, torn := tn }]
  else []

/-- `junk`: leftover header-only files; `ro`: the records of the file handed to the flusher; `rc`: the records
that have reached the current file; `tn`: the current file ends in a cut record -/
structure QW (d : Disk) (v : Vol) (junk : List WalFile) (ro rc : List Mutation) (tn : Bool) : Prop where
  inv : Inv v.s
  tables : d.tables = encT v.s.tables
  comps : d.comps = []
  walSorted : (d.wal.map (·.num)).Pairwise (· < ·)
  qok : ∀ m ∈ v.queue, m.ok = true
  jk : Junk junk
  wal : d.wal = junk ++ liveFiles v ro rc tn
  rok : ∀ m ∈ ro, m.ok = true
  cok : ∀ m ∈ rc, m.ok = true
  tnq : tn = true → v.queue ≠ []
  live : usable v.s = true → d.walDir = true ∧ applyMuts [] (rc ++ v.queue) = v.s.w ∧
    (v.s.flushPending = true → applyMuts [] ro = v.s.r ∧ v.walOld.isSome = true)
  idle : usable v.s = false → v.queue = [] ∧ rc = [] ∧ (d.walDir = false → d.wal = [])

def Q (d : Disk) (v : Vol) : Prop := ∃ junk ro rc tn, QW d v junk ro rc tn

theorem usable_eq (s : State) : usable s = (s.isOpen && !s.closed) := rfl

theorem keys_encT_sorted {s : State} (h : Inv s) : ((encT s.tables).map (·.1)).Pairwise (· < ·) := by
  rw [keys_encT]; exact h.gens.1

theorem encT_complete (ts : List Tbl) : ∀ p ∈ encT ts, isComplete p.2 = true := by
  intro p hp
  obtain ⟨t, _, rfl⟩ := List.mem_map.1 hp
  rfl

/-- a disk without compaction directories whose tables are complete or unfinished -/
theorem diskOk_plain (x : Disk) (hc : x.comps = []) (hts : (x.tables.map (·.1)).Pairwise (· < ·))
    (hnp : ∀ p ∈ x.tables, isPartMeta p.2 = false) (hws : (x.wal.map (·.num)).Pairwise (· < ·))
    (hwd : x.walDir = false → x.wal = []) (hr : walReadable x.wal = true) (hok : ∀ m ∈ walMuts x.wal, m.ok = true) :
    DiskOk x where
  tblSorted := hts
  walSorted := hws
  compIds := by rw [hc]; simp
  walDirOk := hwd
  walRead := hr
  putsOk := hok
  oneFlag := by rw [hc]; simp
  flagOut := by rw [hc]; intro c h; cases h
  covered := by intro p hp hpm; rw [hnp p hp] at hpm; cases hpm

theorem liveFiles_muts (v : Vol) (ro rc : List Mutation) (tn : Bool) :
    ∀ m ∈ walMuts (liveFiles v ro rc tn), m ∈ ro ++ rc := by
  intro m hm
  unfold liveFiles at hm
  split at hm
  · split at hm
    · simpa [walMuts, fileMuts] using hm
    · simp only [List.nil_append, walMuts, List.flatMap_cons, List.flatMap_nil, List.append_nil, fileMuts] at hm
      exact List.mem_append_right _ (by simpa using hm)
  · cases hm

theorem liveFiles_readable (junk : List WalFile) (hj : Junk junk) (v : Vol) (ro rc : List Mutation) (tn : Bool) :
    walReadable (junk ++ liveFiles v ro rc tn) = true := by
  have hjg : ∀ f ∈ junk, f.header = true ∧ f.torn = false := fun f hf => ⟨(hj f hf).1, (hj f hf).2.2⟩
  unfold liveFiles
  split
  · split
    · rw [← List.append_assoc]
      apply walReadable_good
      intro f hf
      rcases List.mem_append.1 hf with (hf | hf)
      · exact hjg f hf
      · simp only [List.mem_singleton] at hf; subst hf; exact ⟨rfl, rfl⟩
    · rw [List.nil_append]
      exact walReadable_good _ hjg _
  · rw [List.append_nil]
    exact walReadable_good' _ hjg

theorem QW.diskOk {d : Disk} {v : Vol} {junk : List WalFile} {ro rc : List Mutation} {tn : Bool}
    (h : QW d v junk ro rc tn) : DiskOk d := by
  apply diskOk_plain d h.comps
  · rw [h.tables]; exact keys_encT_sorted h.inv
  · intro p hp
    rw [h.tables] at hp
    have := encT_complete _ p hp
    cases hp2 : p.2 with
    | part b => rw [hp2] at this; cases this
    | complete c => rfl
  · exact h.walSorted
  · intro hwd
    cases hu : usable v.s with
    | true => rw [(h.live hu).1] at hwd; cases hwd
    | false => exact (h.idle hu).2.2 hwd
  · rw [h.wal]; exact liveFiles_readable junk h.jk v ro rc tn
  · intro m hm
    rw [h.wal, walMuts_append, junk_muts h.jk, List.nil_append] at hm
    rcases List.mem_append.1 (liveFiles_muts v ro rc tn m hm) with (hm | hm)
    · exact h.rok m hm
    · exact h.cok m hm

/-- reading through validated records: a stored value is never empty, so `rd` is `vis` of the stack -/
theorem rd_eq_vis (mem : Layer) (tbls : List Tbl) (hok : ∀ k v, Layer.get mem k = some (some v) → v ≠ []) (k : Key) :
    rd mem tbls k = vis ((Layer.get mem k).or (tablesGet tbls k)) := by
  unfold rd
  cases hm : Layer.get mem k with
  | none => simp
  | some x =>
    cases x with
    | none => rfl
    | some v => simp only [Option.some_or]; exact (vis_nonempty v (hok k v hm)).symm

/-- what a disk without compaction directories serves, as a stack -/
theorem logical_plain (x : Disk) (hc : x.comps = []) (junk live : List WalFile) (hw : x.wal = junk ++ live)
    (hj : Junk junk) (hok : ∀ m ∈ walMuts live, m.ok = true) (k : Key) :
    logical x k = vis ((Layer.get (applyMuts [] (walMuts live)) k).or (tablesGet (tblsOf x.tables) k)) := by
  rw [logical_eq, effTables_nocomp x hc, hw, walMuts_append, junk_muts hj, List.nil_append]
  exact rd_eq_vis _ _ (fun k v h => applyMuts_val_ok _ hok k v h) k

/-- the content behind the current WAL file: handed-over store and tables -/
def base (s : State) (k : Key) : Option GoBytes := (Layer.get s.r k).or (tablesGet s.tables k)

theorem vis_or_cov (s : State) (h : Inv s) (hp : s.flushPending = false) (a : Option GoBytes) (k : Key) :
    vis (a.or (tablesGet s.tables k)) = vis (a.or (base s k)) := by
  unfold base
  cases a with
  | some x => rfl
  | none =>
    simp only [Option.none_or]
    cases hr : Layer.get s.r k with
    | none => rfl
    | some v => simp only [Option.some_or]; exact h.cov hp k v hr

/-- at an operation boundary the disk serves: the records that reached the current file, over the handed-over
store, over the tables -/
theorem QW.serves {d : Disk} {v : Vol} {junk : List WalFile} {ro rc : List Mutation} {tn : Bool}
    (h : QW d v junk ro rc tn) (k : Key) :
    logical d k = vis ((Layer.get (applyMuts [] rc) k).or (base v.s k)) := by
  have hl := logical_plain d h.comps junk _ h.wal h.jk
    (fun m hm => by
      rcases List.mem_append.1 (liveFiles_muts v ro rc tn m hm) with (hm | hm)
      · exact h.rok m hm
      · exact h.cok m hm) k
  rw [hl, h.tables, tblsOf_encT]
  cases hu : usable v.s with
  | false =>
    have hi := h.inv.idle (by rw [← usable_eq]; exact hu)
    have hrc := (h.idle hu).2.1
    simp only [liveFiles, hu, Bool.false_eq_true, if_false, walMuts_nil, hrc]
    exact vis_or_cov v.s h.inv hi.2 _ k
  | true =>
    cases hp : v.s.flushPending with
    | false =>
      simp only [liveFiles, hu, hp, if_true, Bool.false_eq_true, if_false, List.nil_append, walMuts, List.flatMap_cons,
        List.flatMap_nil, fileMuts, List.append_nil]
      exact vis_or_cov v.s h.inv hp _ k
    | true =>
      have hro := ((h.live hu).2.2 hp).1
      simp only [liveFiles, hu, hp, if_true, walMuts, List.flatMap_cons, List.flatMap_nil, fileMuts, List.append_nil,
        List.cons_append, List.nil_append]
      rw [get_applyMuts_append, hro, base, Option.or_assoc]

/-- synchronous WAL (empty buffer): the disk serves exactly what the process serves -/
theorem QW.serves_sync {d : Disk} {v : Vol} {junk : List WalFile} {ro rc : List Mutation} {tn : Bool}
    (h : QW d v junk ro rc tn) (hq : v.queue = []) : logical d = abs v.s := by
  funext k
  rw [h.serves k, abs_eq_stack _ h.inv, stack, base, Option.or_assoc]
  cases hu : usable v.s with
  | false =>
    have hi := h.inv.idle (by rw [← usable_eq]; exact hu)
    rw [(h.idle hu).2.1, hi.1]
    rfl
  | true =>
    have := (h.live hu).2.1
    rw [hq, List.append_nil] at this
    rw [this]

/-! ## `Open` establishes the relation (from ANY well-formed disk, in particular from any crash image) -/

theorem encT_tblsOf (ts : List (Nat × TableDir)) (h : ∀ p ∈ ts, isComplete p.2 = true) : encT (tblsOf ts) = ts := by
  induction ts with
  | nil => rfl
  | cons p r ih =>
    obtain ⟨g, t⟩ := p
    have hp := h (g, t) List.mem_cons_self
    cases t with
    | part b => cases hp
    | complete c =>
      rw [tblsOf_cons_complete]
      show (g, TableDir.complete c) :: encT (tblsOf r) = _
      rw [ih (fun q hq => h q (List.mem_cons_of_mem _ hq))]

theorem gens_sorted_of_clean {d : Disk} (h : Clean d) : ((tblsOf d.tables).map (·.gen)).Pairwise (· < ·) :=
  List.Pairwise.sublist (keys_tblsOf_sub d.tables) h.ok.tblSorted

/-- the volatile state right after `Open` -/
def openedVol (s : State) : Vol := { s := s, walCur := 0, walOld := none, queue := [] }

theorem phase3_QW (d : Disk) (h : Clean d) (o : Opts) (d' : Disk) (s : State) (h3 : phase3 d o = .ok (d', s)) :
    QW d' (openedVol s) [] [] [] false := by
  have hread : walReadable d.wal = true := h.ok.walRead
  have hsorted := gens_sorted_of_clean h
  unfold phase3 at h3
  rw [hread] at h3
  simp only [Bool.not_true, Bool.false_eq_true, if_false] at h3
  split at h3
  · -- nothing to replay
    cases h3
    exact {
      inv := {
        wOk := by intro k v hk; simp [openedVol, layerGet_nil] at hk
        rOk := by intro k v hk; simp [openedVol, layerGet_nil] at hk
        cov := by intro _ k v hk; simp [openedVol, layerGet_nil] at hk
        idle := by intro hn; simp [openedVol] at hn
        gens := ⟨hsorted, fun t ht => le_maxGen _ t ht⟩ }
      tables := (encT_tblsOf _ h.allc).symm
      comps := h.nocomp
      walSorted := by simp [freshWal]
      qok := by intro m hm; cases hm
      jk := by intro f hf; cases hf
      wal := rfl
      rok := by intro m hm; cases hm
      cok := by intro m hm; cases hm
      tnq := by intro hf; cases hf
      live := by intro _; exact ⟨rfl, rfl, by intro hf; cases hf⟩
      idle := by intro hf; simp [openedVol, usable] at hf }
  · -- the replayed records became the newest table
    cases h3
    have hlt := keys_lt_of_clean h
    exact {
      inv := {
        wOk := by intro k v hk; simp [openedVol, layerGet_nil] at hk
        rOk := by
          intro k v hk
          exact applyMuts_val_ok _ h.ok.putsOk k v hk
        cov := by
          intro _ k v hk
          show vis (tablesGet (tblsOf d.tables ++ [_]) k) = _
          rw [tablesGet_append, tablesGet_single]
          have hk' : Layer.get (applyMuts [] (walMuts d.wal)) k = some v := hk
          rw [hk']; rfl
        idle := by intro hn; simp [openedVol] at hn
        gens := by
          constructor
          · show ((tblsOf d.tables ++ [_]).map Tbl.gen).Pairwise (· < ·)
            rw [List.map_append, List.pairwise_append]
            refine ⟨hsorted, by simp, ?_⟩
            intro a ha b hb
            obtain ⟨t, ht, rfl⟩ := List.mem_map.1 ha
            simp only [List.map_cons, List.map_nil, List.mem_singleton] at hb
            subst hb
            have := le_maxGen _ t ht
            omega
          · intro t ht
            have ht : t ∈ tblsOf d.tables ++ [_] := ht
            rcases List.mem_append.1 ht with (ht | ht)
            · have := le_maxGen _ t ht
              show t.gen ≤ maxGen (tblsOf d.tables) + 1
              omega
            · simp only [List.mem_singleton] at ht
              subst ht
              exact Nat.le_refl _ }
      tables := by
        show insertT _ _ d.tables = encT (tblsOf d.tables ++ [_])
        rw [insertT_last _ _ _ hlt, encT_append, encT_tblsOf _ h.allc]
        rfl
      comps := h.nocomp
      walSorted := by simp [freshWal]
      qok := by intro m hm; cases hm
      jk := by intro f hf; cases hf
      wal := rfl
      rok := by intro m hm; cases hm
      cok := by intro m hm; cases hm
      tnq := by intro hf; cases hf
      live := by intro _; exact ⟨rfl, rfl, by intro hf; cases hf⟩
      idle := by intro hf; simp [openedVol, usable] at hf }

/-- after `Open` of any well-formed disk, disk and process are in the operation-boundary relation -/
theorem recover_QW (d : Disk) (h : DiskOk d) (o : Opts) (d' : Disk) (s : State) (hr : recover d o = .ok (d', s)) :
    QW d' (openedVol s) [] [] [] false := by
  rw [recover_eq d h] at hr
  exact phase3_QW (norm d) (norm_clean d h) o d' s hr

/-- `Open` as a segment: every prefix is a good disk, and the relation holds at the end -/
theorem reopen_seg (d : Disk) (h : DiskOk d) (o : Opts) (d' : Disk) (s : State) (hr : recover d o = .ok (d', s))
    (junks : List (Nat × Layer) := []) :
    Seg (Good3 d) (fun x => x = d) (recoverEvents d junks) (fun x => QW x (openedVol s) [] [] [] false) := by
  intro x hx
  subst hx
  refine ⟨fun n => recover_prefix x h n junks, ?_⟩
  rw [recover_events x h o d' s hr junks]
  exact recover_QW x h o d' s hr

/-! ## the flusher -/

theorem flushStep_not_pending (s : State) (h : s.flushPending = false) : flushStep s = s := by
  unfold flushStep; simp [h]

theorem flushEvs_s (v : Vol) : (flushEvs v).2.s = flushStep v.s := by
  unfold flushEvs
  split
  · rename_i h
    rw [flushStep_not_pending v.s (by simpa using h)]
  · split <;> rfl

theorem flushEvs_queue (v : Vol) : (flushEvs v).2.queue = v.queue := by
  unfold flushEvs
  split
  · rfl
  · split <;> rfl

theorem flushEvs_cur (v : Vol) : (flushEvs v).2.walCur = v.walCur := by
  unfold flushEvs
  split
  · rfl
  · split <;> rfl

theorem pending_usable {s : State} (h : Inv s) (hp : s.flushPending = true) : usable s = true := by
  cases hu : usable s with
  | true => rfl
  | false =>
    have := (h.idle (by rw [← usable_eq]; exact hu)).2
    rw [hp] at this; cases this

theorem vis_or_dup (a b c : Option GoBytes) : vis ((a.or b).or (b.or c)) = vis (a.or (b.or c)) := by
  cases a <;> cases b <;> rfl

/-- a layer that binds only keys the layer above it binds is invisible -/
theorem vis_or_junk (a b j c : Option GoBytes) (hj : j ≠ none → b ≠ none) :
    vis ((a.or b).or (j.or c)) = vis (a.or (b.or c)) := by
  cases a with
  | some x => rfl
  | none =>
    cases b with
    | some y => rfl
    | none =>
      have : j = none := by
        cases j with
        | none => rfl
        | some z => exact absurd rfl (hj (by simp))
      rw [this]; rfl

/-- `executeFlush`, at every call boundary: directory created, files written, metadata written (now the table
counts — it holds exactly what the handed-over WAL file holds), WAL file removed (which therefore changes nothing) -/
theorem flush_seg (d : Disk) (v : Vol) (junk : List WalFile) (ro rc : List Mutation) (tn : Bool)
    (h : QW d v junk ro rc tn) :
    ∃ junk', Seg (Good3 d) (fun x => x = d) (flushEvs v).1 (fun x => QW x (flushEvs v).2 junk' ro rc tn) := by
  cases hp : v.s.flushPending with
  | false =>
    have he : flushEvs v = ([], v) := by unfold flushEvs; simp [hp]
    rw [he]
    refine ⟨junk, Seg.nil ?_⟩
    intro x hx; subst hx
    exact ⟨⟨h.diskOk, rfl⟩, h⟩
  | true =>
    have hu := pending_usable h.inv hp
    obtain ⟨hwd, hw, hpend⟩ := h.live hu
    obtain ⟨hro, hold⟩ := hpend hp
    obtain ⟨on, hon⟩ := Option.isSome_iff_exists.1 hold
    have hlive : liveFiles v ro rc tn = [{ num := on, recs := ro }, { num := v.walCur, recs := rc, torn := tn }] := by
      simp [liveFiles, hu, hp, hon]
    have hwal : d.wal = junk ++ [{ num := on, recs := ro }] ++ [{ num := v.walCur, recs := rc, torn := tn }] := by
      rw [h.wal, hlive]; simp
    cases hr : v.s.r with
    | nil =>
      -- skipped flush: the (record-less) WAL file stays behind
      have he : flushEvs v = ([], { v with s := flushStep v.s, walOld := none }) := by
        unfold flushEvs; simp [hp, hr]
      have hfs : flushStep v.s = { v.s with flushPending := false } := by
        unfold flushStep; simp [hp, hr]
      rw [he]
      refine ⟨junk ++ [{ num := on, recs := ro }], Seg.nil ?_⟩
      intro x hx; subst hx
      refine ⟨⟨h.diskOk, rfl⟩, ?_⟩
      have hro0 : ro = [] := applyMuts_eq_nil (by rw [hro, hr])
      have hu' : usable (flushStep v.s) = true := by rw [hfs]; exact hu
      exact {
        inv := flushStep_inv _ h.inv
        tables := by rw [h.tables, hfs]
        comps := h.comps
        walSorted := h.walSorted
        qok := h.qok
        jk := junk_append h.jk (by
          intro f hf
          simp only [List.mem_singleton] at hf
          subst hf
          exact ⟨rfl, hro0, rfl⟩)
        wal := by
          rw [hwal]
          simp [liveFiles, hu', flushStep_pending]
        rok := h.rok
        cok := h.cok
        tnq := h.tnq
        live := by
          intro _
          refine ⟨hwd, ?_, ?_⟩
          · show _ = (flushStep v.s).w
            rw [flushStep_w]; exact hw
          · intro hpf
            have : (flushStep v.s).flushPending = true := hpf
            rw [flushStep_pending] at this; cases this
        idle := by
          intro hf
          have : usable (flushStep v.s) = false := hf
          rw [hu'] at this; cases this }
    | cons p0 r0 =>
      have hrne : v.s.r ≠ [] := by rw [hr]; simp
      have he : flushEvs v = ([.tblMkdir (v.s.gen + 1), .tblLoadable (v.s.gen + 1) [], .tblMetaCreate (v.s.gen + 1),
          .tblProgress (v.s.gen + 1), .tblComplete (v.s.gen + 1) v.s.r] ++ [.walUnlink on], { v with s := flushStep v.s, walOld := none }) := by
        unfold flushEvs; simp [hp, hr, hon]
      have hfs : flushStep v.s =
          { v.s with flushPending := false, gen := v.s.gen + 1, tables := v.s.tables ++ [{ gen := v.s.gen + 1, cells := v.s.r }] } := by
        unfold flushStep; simp [hp, hr]
      rw [he]
      refine ⟨junk, ?_⟩
      -- names
      have hlt : ∀ p ∈ encT v.s.tables, p.1 < v.s.gen + 1 := by
        intro p hp'
        obtain ⟨t, ht, rfl⟩ := List.mem_map.1 hp'
        have := h.inv.gens.2 t ht
        show t.gen < _
        omega
      have habs : ∀ p ∈ encT v.s.tables, p.1 ≠ v.s.gen + 1 := fun p hp' => by have := hlt p hp'; omega
      have hsortT : ∀ t : TableDir, ((encT v.s.tables ++ [(v.s.gen + 1, t)]).map (·.1)).Pairwise (· < ·) := by
        intro t
        rw [List.map_append, List.pairwise_append]
        refine ⟨keys_encT_sorted h.inv, by simp, ?_⟩
        intro a ha b hb
        obtain ⟨p, hp', rfl⟩ := List.mem_map.1 ha
        simp only [List.map_cons, List.map_nil, List.mem_singleton] at hb
        subst hb
        exact hlt p hp'
      have hnums := h.walSorted
      rw [hwal, List.map_append, List.map_append, List.pairwise_append] at hnums
      have hjne : ∀ y ∈ junk, y.num ≠ on := by
        intro y hy
        have := (List.pairwise_append.1 hnums.1).2.2 y.num (List.mem_map.2 ⟨y, hy, rfl⟩) on (by simp)
        omega
      have hcne : v.walCur ≠ on := by
        have := hnums.2.2 on (by simp) v.walCur (by simp)
        omega
      have hokm : ∀ m ∈ walMuts d.wal, m.ok = true := h.diskOk.putsOk
      -- the intermediate disks
      have hgoodPart : Good3 d { d with tables := encT v.s.tables ++ [(v.s.gen + 1, .part false)] } := by
        refine ⟨?_, ?_⟩
        · refine diskOk_plain _ ?_ ?_ ?_ ?_ ?_ ?_ ?_
          · exact h.comps
          · exact hsortT _
          rotate_left
          · exact h.walSorted
          · exact h.diskOk.walDirOk
          · exact h.diskOk.walRead
          · exact hokm
          intro p hp'
          rcases List.mem_append.1 hp' with (hp' | hp')
          · have := encT_complete _ p hp'
            cases hp2 : p.2 with
            | part b => rw [hp2] at this; cases this
            | complete c => rfl
          · simp only [List.mem_singleton] at hp'; subst hp'; rfl
        · funext k
          simp only [logical_eq, effTables, phase1, h.comps, List.foldl_nil, tblsOf_append, tblsOf_cons_part, tblsOf_nil,
            List.append_nil, h.tables]
      have hgoodLoad : ∀ J : Layer, (∀ k, Layer.get J k ≠ none → Layer.get v.s.r k ≠ none) →
          Good3 d { d with tables := encT v.s.tables ++ [(v.s.gen + 1, .complete J)] } := by
        intro J hJ
        refine ⟨?_, ?_⟩
        · refine diskOk_plain _ ?_ ?_ ?_ ?_ ?_ ?_ ?_
          · exact h.comps
          · exact hsortT _
          rotate_left
          · exact h.walSorted
          · exact h.diskOk.walDirOk
          · exact h.diskOk.walRead
          · exact hokm
          intro p hp'
          rcases List.mem_append.1 hp' with (hp' | hp')
          · have := encT_complete _ p hp'
            cases hp2 : p.2 with
            | part b => rw [hp2] at this; cases this
            | complete c => rfl
          · simp only [List.mem_singleton] at hp'; subst hp'; rfl
        · funext k
          rw [h.serves k]
          have hl := logical_plain { d with tables := encT v.s.tables ++ [(v.s.gen + 1, .complete J)] } h.comps junk
            [{ num := on, recs := ro }, { num := v.walCur, recs := rc, torn := tn }] (by rw [hwal]; simp) h.jk
            (by
              intro m hm
              simp only [walMuts, List.flatMap_cons, List.flatMap_nil, fileMuts, if_true, List.append_nil] at hm
              rcases List.mem_append.1 hm with (hm | hm)
              · exact h.rok m hm
              · exact h.cok m hm) k
          rw [hl]
          simp only [walMuts, List.flatMap_cons, List.flatMap_nil, fileMuts, if_true, List.append_nil]
          rw [tblsOf_append, tblsOf_encT, tblsOf_cons_complete, tblsOf_nil, tablesGet_append, tablesGet_single,
            get_applyMuts_append, hro, base]
          exact vis_or_junk _ _ _ _ (hJ k)
      have hgoodComplete : Good3 d { d with tables := encT v.s.tables ++ [(v.s.gen + 1, .complete v.s.r)] } :=
        hgoodLoad v.s.r (fun _ hk => hk)
      have hgoodDone : Good3 d { d with tables := encT v.s.tables ++ [(v.s.gen + 1, .complete v.s.r)], wal := junk ++ [{ num := v.walCur, recs := rc, torn := tn }] } := by
        have hsw : ((junk ++ [({ num := v.walCur, recs := rc, torn := tn } : WalFile)]).map (·.num)).Pairwise (· < ·) := by
          refine List.Pairwise.sublist ?_ h.walSorted
          rw [hwal]
          apply List.Sublist.map
          simp
        refine ⟨?_, ?_⟩
        · refine diskOk_plain _ ?_ ?_ ?_ ?_ ?_ ?_ ?_
          · exact h.comps
          · exact hsortT _
          rotate_left
          · exact hsw
          · intro hf; have hf : d.walDir = false := hf; rw [hwd] at hf; cases hf
          · exact walReadable_good _ (fun f hf => ⟨(h.jk f hf).1, (h.jk f hf).2.2⟩) _
          · intro m hm
            apply hokm
            rw [hwal]
            simp only [walMuts_append] at hm ⊢
            rcases List.mem_append.1 hm with (hm | hm)
            · exact List.mem_append_left _ (List.mem_append_left _ hm)
            · exact List.mem_append_right _ hm
          · intro p hp'
            rcases List.mem_append.1 hp' with (hp' | hp')
            · have := encT_complete _ p hp'
              cases hp2 : p.2 with
              | part b => rw [hp2] at this; cases this
              | complete c => rfl
            · simp only [List.mem_singleton] at hp'; subst hp'; rfl
        · funext k
          rw [h.serves k]
          have hl := logical_plain { d with tables := encT v.s.tables ++ [(v.s.gen + 1, .complete v.s.r)], wal := junk ++ [{ num := v.walCur, recs := rc, torn := tn }] } h.comps junk
            [{ num := v.walCur, recs := rc, torn := tn }] rfl h.jk
            (by
              intro m hm
              simp only [walMuts, List.flatMap_cons, List.flatMap_nil, fileMuts, if_true, List.append_nil] at hm
              exact h.cok m hm) k
          rw [hl]
          simp only [walMuts, List.flatMap_cons, List.flatMap_nil, fileMuts, if_true, List.append_nil]
          rw [tblsOf_append, tblsOf_encT, tblsOf_cons_complete, tblsOf_nil, tablesGet_append, tablesGet_single, base]
      have hu' : usable (flushStep v.s) = true := by rw [hfs]; exact hu
      have hupd : ∀ (t t' : TableDir),
          updT (v.s.gen + 1) (fun _ => t') (encT v.s.tables ++ [(v.s.gen + 1, t)]) =
            encT v.s.tables ++ [(v.s.gen + 1, t')] := by
        intro t t'
        rw [updT_append, updT_id_of_absent _ _ _ habs]
        simp [updT]
      have hgoodEmpty := hgoodLoad [] (fun k hk => absurd (layerGet_nil k) hk)
      have s5 : Seg (Good3 d) (fun x => x = d)
          [Ev.tblMkdir (v.s.gen + 1), Ev.tblLoadable (v.s.gen + 1) [], Ev.tblMetaCreate (v.s.gen + 1),
            Ev.tblProgress (v.s.gen + 1), Ev.tblComplete (v.s.gen + 1) v.s.r]
          (fun x => x = { d with tables := encT v.s.tables ++ [(v.s.gen + 1, .complete v.s.r)] }) := by
        refine Seg.cons (Q := fun x => x = { d with tables := encT v.s.tables ++ [(v.s.gen + 1, .part false)] }) ?_
          (Seg.cons (Q := fun x => x = { d with tables := encT v.s.tables ++ [(v.s.gen + 1, .complete [])] }) ?_
            (Seg.cons (Q := fun x => x = { d with tables := encT v.s.tables ++ [(v.s.gen + 1, .part false)] }) ?_
              (Seg.cons (Q := fun x => x = { d with tables := encT v.s.tables ++ [(v.s.gen + 1, .part false)] }) ?_
                (Seg.cons (Q := fun x => x = { d with tables := encT v.s.tables ++ [(v.s.gen + 1, .complete v.s.r)] }) ?_ (Seg.nil ?_)))))
        · intro x hx; subst hx
          refine ⟨⟨h.diskOk, rfl⟩, ?_⟩
          simp only [applyEv]
          rw [h.tables, insertT_last _ _ _ hlt]
        · intro x hx
          refine ⟨hx ▸ hgoodPart, ?_⟩
          subst hx
          simp only [applyEv]
          rw [hupd]
        · intro x hx
          refine ⟨hx ▸ hgoodEmpty, ?_⟩
          subst hx
          simp only [applyEv]
          rw [hupd]
        · intro x hx
          exact ⟨hx ▸ hgoodPart, by subst hx; rfl⟩
        · intro x hx
          refine ⟨hx ▸ hgoodPart, ?_⟩
          subst hx
          simp only [applyEv]
          rw [hupd]
        · intro x hx
          exact ⟨hx ▸ hgoodComplete, hx⟩
      refine Seg.append s5 ?_
      refine (Seg.cons (Q := fun x => x = { d with tables := encT v.s.tables ++ [(v.s.gen + 1, .complete v.s.r)], wal := junk ++ [{ num := v.walCur, recs := rc, torn := tn }] }) ?_ (Seg.nil ?_))
      · intro x hx
        refine ⟨hx ▸ hgoodComplete, ?_⟩
        subst hx
        simp only [applyEv]
        rw [hwal, eraseW_mid on junk _ _ hjne (by intro y hy; simp only [List.mem_singleton] at hy; subst hy; exact hcne) rfl]
      · intro x hx
        refine ⟨hx ▸ hgoodDone, ?_⟩
        subst hx
        exact {
          inv := flushStep_inv _ h.inv
          tables := by
            show _ = encT (flushStep v.s).tables
            rw [hfs, encT_append]; rfl
          comps := h.comps
          walSorted := hgoodDone.1.walSorted
          qok := h.qok
          jk := h.jk
          wal := by
            show junk ++ _ = junk ++ liveFiles { v with s := flushStep v.s, walOld := none } ro rc tn
            simp [liveFiles, hu', flushStep_pending]
          rok := h.rok
          cok := h.cok
          tnq := h.tnq
          live := by
            intro _
            refine ⟨hwd, ?_, ?_⟩
            · show _ = (flushStep v.s).w
              rw [flushStep_w]; exact hw
            · intro hpf
              have : (flushStep v.s).flushPending = true := hpf
              rw [flushStep_pending] at this; cases this
          idle := by
            intro hf
            have : usable (flushStep v.s) = false := hf
            rw [hu'] at this; cases this }

/-! ## the WAL appender -/

/-- the files in front of the current one: leftovers and the one handed to the flusher -/
def frontFiles (v : Vol) (junk : List WalFile) (ro : List Mutation) : List WalFile :=
  junk ++ (if v.s.flushPending then [{ num := v.walOld.getD 0, recs := ro }] else [])

theorem wal_front {d : Disk} {v : Vol} {junk : List WalFile} {ro rc : List Mutation} {tn : Bool}
    (h : QW d v junk ro rc tn) (hu : usable v.s = true) :
    d.wal = frontFiles v junk ro ++ [{ num := v.walCur, recs := rc, torn := tn }] := by
  rw [h.wal]
  simp [liveFiles, hu, frontFiles]

theorem front_good {d : Disk} {v : Vol} {junk : List WalFile} {ro rc : List Mutation} {tn : Bool}
    (h : QW d v junk ro rc tn) : ∀ f ∈ frontFiles v junk ro, f.header = true ∧ f.torn = false := by
  intro f hf
  unfold frontFiles at hf
  rcases List.mem_append.1 hf with (hf | hf)
  · exact ⟨(h.jk f hf).1, (h.jk f hf).2.2⟩
  · split at hf
    · simp only [List.mem_singleton] at hf; subst hf; exact ⟨rfl, rfl⟩
    · cases hf

theorem front_ne {d : Disk} {v : Vol} {junk : List WalFile} {ro rc : List Mutation} {tn : Bool}
    (h : QW d v junk ro rc tn) (hu : usable v.s = true) : ∀ f ∈ frontFiles v junk ro, f.num < v.walCur := by
  have hs := h.walSorted
  rw [wal_front h hu] at hs
  exact sorted_last hs

/-- changing only the last WAL file, without changing its number or its complete records -/
theorem last_file_good (d : Disk) (hd : DiskOk d) (pre : List WalFile) (x y : WalFile) (hw : d.wal = pre ++ [x])
    (hpre : ∀ f ∈ pre, f.header = true ∧ f.torn = false) (hn : y.num = x.num) (hm : fileMuts y = fileMuts x) :
    Good3 d { d with wal := pre ++ [y] } := by
  refine ⟨?_, ?_⟩
  · refine { hd with walSorted := ?_, walDirOk := ?_, walRead := walReadable_good pre hpre y, putsOk := ?_ }
    · have := hd.walSorted
      rw [hw] at this
      show ((pre ++ [y]).map (·.num)).Pairwise (· < ·)
      simpa [hn] using this
    · intro hf
      have := hd.walDirOk hf
      rw [hw] at this
      simp at this
    · have := hd.putsOk
      rw [hw] at this
      show ∀ m ∈ walMuts (pre ++ [y]), m.ok = true
      simpa [walMuts, hm] using this
  · funext k
    simp only [logical_eq, effTables, phase1, hw, walMuts_append, walMuts_cons, walMuts_nil, hm]

/-- closing the current file, creating the next one and writing its header (the memstore has been handed to
the flusher, the buffer is empty): a new empty file changes nothing -/
theorem rotTail_seg (d : Disk) (v : Vol) (junk : List WalFile) (ro rc : List Mutation) (tn : Bool)
    (h : QW d v junk ro rc tn) (hu : usable v.s = true) (hp : v.s.flushPending = false) (hq : v.queue = []) :
    Seg (Good3 d) (fun x => x = d) [.walClose v.walCur, .walCreate (v.walCur + 1), .walHeader (v.walCur + 1)]
      (fun x => QW x { s := rotate v.s, walCur := v.walCur + 1, walOld := some v.walCur, queue := [] } junk rc [] false) := by
  have htn : tn = false := by
    cases tn with
    | false => rfl
    | true => exact absurd hq (h.tnq rfl)
  subst htn
  obtain ⟨hwd, hw, _⟩ := h.live hu
  rw [hq, List.append_nil] at hw
  have hwal : d.wal = junk ++ [{ num := v.walCur, recs := rc }] := by
    rw [h.wal]; simp [liveFiles, hu, hp]
  have hlt : ∀ y ∈ d.wal, y.num < v.walCur + 1 := by
    intro y hy
    rw [hwal] at hy
    rcases List.mem_append.1 hy with (hy | hy)
    · have hs := h.walSorted
      rw [hwal] at hs
      have := sorted_last hs y hy
      simp only at this; omega
    · simp only [List.mem_singleton] at hy; subst hy; simp
  have hgoodall : ∀ f ∈ d.wal, f.header = true ∧ f.torn = false := by
    intro f hf
    rw [hwal] at hf
    rcases List.mem_append.1 hf with (hf | hf)
    · exact ⟨(h.jk f hf).1, (h.jk f hf).2.2⟩
    · simp only [List.mem_singleton] at hf; subst hf; exact ⟨rfl, rfl⟩
  have hd := h.diskOk
  -- a header-less / empty new file
  have hnew : ∀ hb : Bool, Good3 d { d with wal := d.wal ++ [{ num := v.walCur + 1, header := hb }] } := by
    intro hb
    refine ⟨?_, ?_⟩
    · refine { hd with walSorted := ?_, walDirOk := ?_, walRead := walReadable_good d.wal hgoodall _, putsOk := ?_ }
      · show ((d.wal ++ [_]).map WalFile.num).Pairwise (· < ·)
        rw [List.map_append, List.pairwise_append]
        refine ⟨hd.walSorted, by simp, ?_⟩
        intro a ha b hb'
        obtain ⟨y, hy, rfl⟩ := List.mem_map.1 ha
        simp only [List.map_cons, List.map_nil, List.mem_singleton] at hb'
        subst hb'
        exact hlt y hy
      · intro hf; have hf : d.walDir = false := hf; rw [hwd] at hf; cases hf
      · show ∀ m ∈ walMuts (d.wal ++ [_]), m.ok = true
        rw [walMuts_append]
        have : walMuts [({ num := v.walCur + 1, header := hb } : WalFile)] = [] := by
          cases hb <;> simp [walMuts, fileMuts]
        rw [this, List.append_nil]
        exact hd.putsOk
    · funext k
      have : walMuts [({ num := v.walCur + 1, header := hb } : WalFile)] = [] := by
        cases hb <;> simp [walMuts, fileMuts]
      simp only [logical_eq, effTables, phase1, walMuts_append, this, List.append_nil]
  refine Seg.cons (Q := fun x => x = d) ?_
    (Seg.cons (Q := fun x => x = { d with wal := d.wal ++ [{ num := v.walCur + 1, header := false }] }) ?_
      (Seg.cons (Q := fun x => x = { d with wal := d.wal ++ [{ num := v.walCur + 1, header := true }] }) ?_ (Seg.nil ?_)))
  · intro x hx; subst hx
    exact ⟨⟨hd, rfl⟩, rfl⟩
  · intro x hx; subst hx
    refine ⟨⟨hd, rfl⟩, ?_⟩
    simp only [applyEv, hwd, if_true]
    rw [insertW_last _ _ hlt]
  · intro x hx
    refine ⟨hx ▸ hnew false, ?_⟩
    subst hx
    simp only [applyEv]
    rw [updW_last (v.walCur + 1) _ d.wal _ (fun y hy => by have := hlt y hy; omega) rfl]
  · intro x hx
    refine ⟨hx ▸ hnew true, ?_⟩
    subst hx
    have hfs : flushStep v.s = v.s := flushStep_not_pending _ hp
    have hrot : rotate v.s = { v.s with r := v.s.w, w := [], flushPending := true } := by
      rw [rotate_eq, hfs]
    have hu' : usable (rotate v.s) = true := by rw [hrot]; exact hu
    have hpr : (rotate v.s).flushPending = true := by rw [hrot]
    exact {
      inv := rotate_inv _ h.inv (by rw [← usable_eq]; exact hu)
      tables := by
        show d.tables = encT (rotate v.s).tables
        rw [hrot]; exact h.tables
      comps := h.comps
      walSorted := (hnew true).1.walSorted
      qok := by intro m hm; cases hm
      jk := h.jk
      wal := by
        show d.wal ++ _ = _
        rw [hwal]
        simp [liveFiles, hu', hpr]
      rok := h.cok
      cok := by intro m hm; cases hm
      tnq := by intro hf; cases hf
      live := by
        intro _
        refine ⟨hwd, ?_, ?_⟩
        · show applyMuts [] ([] ++ []) = (rotate v.s).w
          rw [hrot]; rfl
        · intro _
          refine ⟨?_, rfl⟩
          show applyMuts [] rc = (rotate v.s).r
          rw [hrot]; exact hw
      idle := by
        intro hf
        have : usable (rotate v.s) = false := hf
        rw [hu'] at this; cases this }

/-- the process state after an accepted write -/
def wrote (v : Vol) (m : Mutation) : Vol := { v with s := { v.s with w := m.apply v.s.w } }

theorem wrote_inv {v : Vol} (h : Inv v.s) (hu : usable v.s = true) (m : Mutation) (hm : m.ok = true) :
    Inv (wrote v m).s := by
  show Inv { v.s with w := m.apply v.s.w }
  rw [apply_eq_set]
  apply setW_inv v.s h (by rw [← usable_eq]; exact hu)
  intro b hb
  cases m with
  | put k x =>
    simp only [Mutation.val, Option.some.injEq] at hb
    subst hb
    intro he; subst he
    simp [Mutation.ok] at hm
  | del k => simp [Mutation.val] at hb

/-- synchronous append: the record reaches the file (possibly in two writes) before the call returns -/
theorem writeSync_seg (d : Disk) (v : Vol) (junk : List WalFile) (ro rc : List Mutation) (tn : Bool)
    (h : QW d v junk ro rc tn) (hu : usable v.s = true) (hq : v.queue = []) (m : Mutation) (hm : m.ok = true) :
    Seg (fun x => DiskOk x ∧ (logical x = abs v.s ∨ logical x = abs (wrote v m).s)) (fun x => x = d)
      [.walTorn v.walCur, .walAppend v.walCur m] (fun x => QW x (wrote v m) junk ro (rc ++ [m]) false) := by
  have htn : tn = false := by
    cases tn with
    | false => rfl
    | true => exact absurd hq (h.tnq rfl)
  subst htn
  have hwal := wal_front h hu
  have hgood := front_good h
  have hne : ∀ y ∈ frontFiles v junk ro, y.num ≠ v.walCur := fun y hy => by have := front_ne h hu y hy; omega
  have hd := h.diskOk
  have hlog := h.serves_sync hq
  obtain ⟨hwd, hw, hpend⟩ := h.live hu
  have hQ2 : QW { d with wal := frontFiles v junk ro ++ [{ num := v.walCur, recs := rc ++ [m] }] } (wrote v m) junk ro
      (rc ++ [m]) false := {
    inv := wrote_inv h.inv hu m hm
    tables := h.tables
    comps := h.comps
    walSorted := by
      have := h.walSorted
      rw [hwal] at this
      show ((frontFiles v junk ro ++ [_]).map WalFile.num).Pairwise (· < ·)
      simpa using this
    qok := h.qok
    jk := h.jk
    wal := by
      show frontFiles v junk ro ++ _ = junk ++ liveFiles (wrote v m) ro (rc ++ [m]) false
      have : usable ({ v.s with w := Mutation.apply v.s.w m } : State) = true := hu
      simp [liveFiles, this, frontFiles, wrote]
      rfl
    rok := h.rok
    cok := by
      intro x hx
      rcases List.mem_append.1 hx with (hx | hx)
      · exact h.cok x hx
      · simp only [List.mem_singleton] at hx; subst hx; exact hm
    tnq := by intro hf; cases hf
    live := by
      intro _
      refine ⟨hwd, ?_, hpend⟩
      show applyMuts [] (rc ++ [m] ++ v.queue) = m.apply v.s.w
      rw [hq, List.append_nil] at hw ⊢
      rw [applyMuts_append, hw]; rfl
    idle := by
      intro hf
      have : usable v.s = false := hf
      rw [hu] at this; cases this }
  refine Seg.cons (Q := fun x => x = { d with wal := frontFiles v junk ro ++ [{ num := v.walCur, recs := rc, torn := true }] }) ?_
    (Seg.cons (Q := fun x => x = { d with wal := frontFiles v junk ro ++ [{ num := v.walCur, recs := rc ++ [m] }] }) ?_ (Seg.nil ?_))
  · intro x hx; subst hx
    refine ⟨⟨hd, Or.inl hlog⟩, ?_⟩
    simp only [applyEv]
    rw [hwal, updW_last _ _ _ _ hne rfl]
  · intro x hx
    have hg := last_file_good d hd _ _ { num := v.walCur, recs := rc, torn := true } hwal hgood rfl rfl
    refine ⟨⟨hx ▸ hg.1, Or.inl (by rw [hx, hg.2]; exact hlog)⟩, ?_⟩
    subst hx
    simp only [applyEv]
    rw [updW_last _ _ _ _ hne rfl]
    rfl
  · intro x hx
    subst hx
    exact ⟨⟨hQ2.diskOk, Or.inr (hQ2.serves_sync hq)⟩, hQ2⟩

end SST.Proofs.FS
