/-
C07 proofs, part 1: file names and their order, the replayer on complete and cut files.
-/
import SST.Spec.Wal
import SST.Proofs.Varint
import SST.Proofs.RecordIODamage
namespace SST.Proofs
open SST Generated

/-! ## `%06d.wal` names sort like their numbers (below the one-million guard) -/

def digitsCmp : List Nat → List Nat → Ordering
  | [], [] => .eq
  | [], _ :: _ => .lt
  | _ :: _, [] => .gt
  | a :: as, b :: bs => if a < b then .lt else if b < a then .gt else digitsCmp as bs

theorem asciiDigit_toNat (d : Nat) (h : d < 10) : (asciiDigit d).toNat = 48 + d := by
  unfold asciiDigit; exact toNat_ofNat_lt _ (by omega)

theorem asciiDigit_lt (x y : Nat) (hx : x < 10) (hy : y < 10) : asciiDigit x < asciiDigit y ↔ x < y := by
  rw [UInt8.lt_iff_toNat_lt, asciiDigit_toNat x hx, asciiDigit_toNat y hy]; omega

theorem bytesCmp_refl (s : Bytes) : bytesCmp s s = .eq := by
  induction s with
  | nil => rfl
  | cons a s ih => simp [bytesCmp, ih]

theorem bytesCmp_digits (xs ys : List Nat) (s : Bytes) (hx : ∀ x ∈ xs, x < 10) (hy : ∀ y ∈ ys, y < 10)
    (hl : xs.length = ys.length) :
    bytesCmp (xs.map asciiDigit ++ s) (ys.map asciiDigit ++ s) = digitsCmp xs ys := by
  induction xs generalizing ys with
  | nil =>
    cases ys with
    | nil => simp [digitsCmp, bytesCmp_refl]
    | cons y ys => simp at hl
  | cons x xs ih =>
    cases ys with
    | nil => simp at hl
    | cons y ys =>
      have hx0 := hx x (by simp)
      have hy0 := hy y (by simp)
      simp only [List.map_cons, List.cons_append, bytesCmp, digitsCmp,
        asciiDigit_lt x y hx0 hy0, asciiDigit_lt y x hy0 hx0]
      rw [ih ys (fun a ha => hx a (by simp [ha])) (fun a ha => hy a (by simp [ha])) (by simpa using hl)]

theorem walDigits_small (n : Nat) (h : n < 1000000) :
    walDigits n = [n / 100000 % 10, n / 10000 % 10, n / 1000 % 10, n / 100 % 10, n / 10 % 10, n % 10] := by
  simp [walDigits, h]

theorem digitsCmp_cons (x y : Nat) (xs ys : List Nat) :
    digitsCmp (x :: xs) (y :: ys) = if x < y then .lt else if y < x then .gt else digitsCmp xs ys := rfl

theorem digitsCmp6 (a5 a4 a3 a2 a1 a0 b5 b4 b3 b2 b1 b0 : Nat)
    (h : a5 < 10 ∧ a4 < 10 ∧ a3 < 10 ∧ a2 < 10 ∧ a1 < 10 ∧ a0 < 10 ∧ b5 < 10 ∧ b4 < 10 ∧ b3 < 10 ∧ b2 < 10 ∧ b1 < 10 ∧ b0 < 10) :
    (digitsCmp [a5, a4, a3, a2, a1, a0] [b5, b4, b3, b2, b1, b0] == .lt) =
      decide (100000 * a5 + 10000 * a4 + 1000 * a3 + 100 * a2 + 10 * a1 + a0 <
              100000 * b5 + 10000 * b4 + 1000 * b3 + 100 * b2 + 10 * b1 + b0) := by
  rcases Nat.lt_trichotomy a5 b5 with h5 | h5 | h5
  · rw [digitsCmp_cons, if_pos h5]
    have e : (Ordering.lt == Ordering.lt) = true := rfl
    rw [e, eq_comm, decide_eq_true_eq]; omega
  · rw [digitsCmp_cons, if_neg (by omega), if_neg (by omega)]
    rcases Nat.lt_trichotomy a4 b4 with h4 | h4 | h4
    · rw [digitsCmp_cons, if_pos h4]
      have e : (Ordering.lt == Ordering.lt) = true := rfl
      rw [e, eq_comm, decide_eq_true_eq]; omega
    · rw [digitsCmp_cons, if_neg (by omega), if_neg (by omega)]
      rcases Nat.lt_trichotomy a3 b3 with h3 | h3 | h3
      · rw [digitsCmp_cons, if_pos h3]
        have e : (Ordering.lt == Ordering.lt) = true := rfl
        rw [e, eq_comm, decide_eq_true_eq]; omega
      · rw [digitsCmp_cons, if_neg (by omega), if_neg (by omega)]
        rcases Nat.lt_trichotomy a2 b2 with h2 | h2 | h2
        · rw [digitsCmp_cons, if_pos h2]
          have e : (Ordering.lt == Ordering.lt) = true := rfl
          rw [e, eq_comm, decide_eq_true_eq]; omega
        · rw [digitsCmp_cons, if_neg (by omega), if_neg (by omega)]
          rcases Nat.lt_trichotomy a1 b1 with h1 | h1 | h1
          · rw [digitsCmp_cons, if_pos h1]
            have e : (Ordering.lt == Ordering.lt) = true := rfl
            rw [e, eq_comm, decide_eq_true_eq]; omega
          · rw [digitsCmp_cons, if_neg (by omega), if_neg (by omega)]
            rcases Nat.lt_trichotomy a0 b0 with h0 | h0 | h0
            · rw [digitsCmp_cons, if_pos h0]
              have e : (Ordering.lt == Ordering.lt) = true := rfl
              rw [e, eq_comm, decide_eq_true_eq]; omega
            · rw [digitsCmp_cons, if_neg (by omega), if_neg (by omega)]
              have e : (digitsCmp [] [] == Ordering.lt) = false := rfl
              rw [e, eq_comm, decide_eq_false_iff_not]; omega
            · rw [digitsCmp_cons, if_neg (by omega), if_pos h0]
              have e : (Ordering.gt == Ordering.lt) = false := rfl
              rw [e, eq_comm, decide_eq_false_iff_not]; omega
          · rw [digitsCmp_cons, if_neg (by omega), if_pos h1]
            have e : (Ordering.gt == Ordering.lt) = false := rfl
            rw [e, eq_comm, decide_eq_false_iff_not]; omega
        · rw [digitsCmp_cons, if_neg (by omega), if_pos h2]
          have e : (Ordering.gt == Ordering.lt) = false := rfl
          rw [e, eq_comm, decide_eq_false_iff_not]; omega
      · rw [digitsCmp_cons, if_neg (by omega), if_pos h3]
        have e : (Ordering.gt == Ordering.lt) = false := rfl
        rw [e, eq_comm, decide_eq_false_iff_not]; omega
    · rw [digitsCmp_cons, if_neg (by omega), if_pos h4]
      have e : (Ordering.gt == Ordering.lt) = false := rfl
      rw [e, eq_comm, decide_eq_false_iff_not]; omega
  · rw [digitsCmp_cons, if_neg (by omega), if_pos h5]
    have e : (Ordering.gt == Ordering.lt) = false := rfl
    rw [e, eq_comm, decide_eq_false_iff_not]; omega

/-- Go's string order on the names of two files below the guard is the order of their numbers -/
theorem walName_lt (a b : Nat) (ha : a < maxWalFiles) (hb : b < maxWalFiles) :
    bytesLt (walName a) (walName b) = decide (a < b) := by
  unfold maxWalFiles at ha hb
  unfold bytesLt walName
  rw [walDigits_small a ha, walDigits_small b hb]
  rw [bytesCmp_digits [a / 100000 % 10, a / 10000 % 10, a / 1000 % 10, a / 100 % 10, a / 10 % 10, a % 10]
    [b / 100000 % 10, b / 10000 % 10, b / 1000 % 10, b / 100 % 10, b / 10 % 10, b % 10] walSuffix
    (by intro x hx; simp at hx; omega) (by intro x hx; simp at hx; omega) (by simp)]
  rw [digitsCmp6 _ _ _ _ _ _ _ _ _ _ _ _ (by omega)]
  congr 1
  apply propext
  omega

/-! ## suffix filter and sort are the identity on an appender's directory -/

theorem hasWalSuffix_walName (n : Nat) : hasWalSuffix (walName n) = true := by
  unfold hasWalSuffix walName
  have : ((walDigits n).map asciiDigit ++ walSuffix).length - walSuffix.length = ((walDigits n).map asciiDigit).length := by
    simp
  rw [this, List.drop_left']
  · simp
  · rfl

theorem filter_named (d : DirN) : d.named.filter (fun e => hasWalSuffix e.1) = d.named := by
  apply List.filter_eq_self.mpr
  intro e he
  simp only [DirN.named, List.mem_map] at he
  obtain ⟨x, _, rfl⟩ := he
  exact hasWalSuffix_walName x.1

/-- numbers strictly ascending and below the one-million guard -/
def AscN (d : DirN) : Prop := d.Pairwise (fun x y => x.1 < y.1) ∧ ∀ x ∈ d, x.1 < maxWalFiles

theorem sortByName_named (d : DirN) (h : AscN d) : sortByName d.named = d.named := by
  induction d with
  | nil => rfl
  | cons x xs ih =>
    obtain ⟨hp, hb⟩ := h
    rw [List.pairwise_cons] at hp
    have ih' := ih ⟨hp.2, fun y hy => hb y (by simp [hy])⟩
    show insertByName (walName x.1, x.2) (sortByName (DirN.named xs)) = _
    rw [ih']
    cases xs with
    | nil => rfl
    | cons y ys =>
      have hxy : x.1 < y.1 := hp.1 y (by simp)
      have := walName_lt x.1 y.1 (hb x (by simp)) (hb y (by simp))
      simp only [DirN.named, List.map_cons, insertByName, this, hxy, decide_true, if_true]

theorem replay_named (cOf : Nat → Compression) (d : DirN) (h : AscN d) :
    replay cOf d.named = replayFiles cOf d.named := by
  unfold replay; rw [filter_named, sortByName_named d h]

theorem ascN_img (F : Nat → Bytes) (j : Nat) (b : Bytes) (hj : j < maxWalFiles) :
    AscN (completeDir F j ++ [(j, b)]) := by
  constructor
  · rw [List.pairwise_append]
    refine ⟨?_, by simp, ?_⟩
    · unfold completeDir
      rw [List.pairwise_map]
      exact List.Pairwise.imp (fun h => h) List.pairwise_lt_range
    · intro x hx y hy
      simp only [completeDir, List.mem_map, List.mem_range] at hx
      obtain ⟨i, hi, rfl⟩ := hx
      simp only [List.mem_singleton] at hy; subst hy; exact hi
  · intro x hx
    simp only [List.mem_append, completeDir, List.mem_map, List.mem_range, List.mem_singleton] at hx
    rcases hx with ⟨i, hi, rfl⟩ | rfl
    · show i < maxWalFiles; omega
    · exact hj

/-! ## the replayer's file loop on complete and cut files -/

theorem parseFileHeader_ok_len (f : Bytes) (p : Nat × Nat) (h : parseFileHeader f = .ok p) :
    fileHeaderSize ≤ f.length := by
  unfold parseFileHeader at h
  by_cases hlen : f.length < fileHeaderSize
  · rw [if_pos hlen] at h; split at h <;> simp at h
  · omega

theorem parseFileHeader_fileBytes_take (c : Compression) (ct : Nat) (rs : List GoBytes) (n : Nat)
    (hct : ct ≤ maxCompression) (hn : fileHeaderSize ≤ n) :
    parseFileHeader ((fileBytes c ct rs).take n) = .ok (currentVersion, ct) := by
  have h8 : (fileHeader currentVersion ct).length = 8 := rfl
  have hfs : fileHeaderSize = 8 := rfl
  unfold fileBytes
  rw [List.take_append, List.take_of_length_le (by omega)]
  exact file_header_accepted currentVersion ct _ (by decide) hct

theorem parseFileHeader_fileBytes (c : Compression) (ct : Nat) (rs : List GoBytes)
    (hct : ct ≤ maxCompression) : parseFileHeader (fileBytes c ct rs) = .ok (currentVersion, ct) :=
  file_header_accepted currentVersion ct _ (by decide) hct

theorem replayFiles_last (cOf : Nat → Compression) (c : Compression) (ct : Nat) (hc : cOf ct = c)
    (rs : List GoBytes) (hl : LawfulC c) (hf : ∀ r ∈ rs, FitsRec c r) (hct : ct ≤ maxCompression)
    (n : Nat) (nm : Bytes) :
    replayFiles cOf [(nm, (fileBytes c ct rs).take n)] = (rs.take (wholeIn c rs n), none) := by
  obtain ⟨e, he, h⟩ := truncate_prefix_err c ct rs hl hf hct n
  have hk : isEofKind e = true := by rcases he with rfl | rfl <;> rfl
  unfold openReadAll at h
  simp only [replayFiles]
  cases hp : parseFileHeader ((fileBytes c ct rs).take n) with
  | error e0 =>
    rw [show fileHeader currentVersion ct ++ encAll c rs = fileBytes c ct rs from rfl, hp] at h
    simp only [Prod.mk.injEq] at h
    rw [h.2]; simp only [hk, if_true, ← h.1]
  | ok p =>
    have hlen := parseFileHeader_ok_len _ p hp
    have hn : fileHeaderSize ≤ n := by
      have := List.length_take_le n (fileBytes c ct rs); omega
    rw [parseFileHeader_fileBytes_take c ct rs n hct hn] at hp
    rw [show fileHeader currentVersion ct ++ encAll c rs = fileBytes c ct rs from rfl,
      parseFileHeader_fileBytes_take c ct rs n hct hn] at h
    simp only [Except.ok.injEq] at hp
    subst hp
    simp only [hc, h, hk, if_true]

theorem replayFiles_cons_complete (cOf : Nat → Compression) (c : Compression) (ct : Nat) (hc : cOf ct = c)
    (rs : List GoBytes) (hl : LawfulC c) (hf : ∀ r ∈ rs, FitsRec c r) (hct : ct ≤ maxCompression)
    (nm : Bytes) (g : Bytes × Bytes) (rest : Dir) :
    replayFiles cOf ((nm, fileBytes c ct rs) :: g :: rest) =
      (rs ++ (replayFiles cOf (g :: rest)).1, (replayFiles cOf (g :: rest)).2) := by
  have h1 := parseFileHeader_fileBytes c ct rs hct
  have h2 : readAll c (fileBytes c ct rs) = (rs, .eof) := seq_roundtrip c ct rs hl hf
  rw [replayFiles.eq_3]
  rw [h1]
  simp only [hc, h2]
  rfl

/-- every record of every file fits the 64-bit header fields -/
def FitsAll (c : Compression) (full : List (List GoBytes)) : Prop := ∀ rs ∈ full, ∀ r ∈ rs, FitsRec c r

theorem fits_getD (c : Compression) (full : List (List GoBytes)) (hf : FitsAll c full) (i : Nat) :
    ∀ r ∈ full.getD i [], FitsRec c r := by
  intro r hr
  by_cases hi : i < full.length
  · rw [List.getD_eq_getElem?_getD, List.getElem?_eq_getElem hi] at hr
    exact hf _ (List.getElem_mem hi) r hr
  · rw [List.getD_eq_getElem?_getD, List.getElem?_eq_none (by omega)] at hr; simp at hr

theorem replayFiles_ks (cOf : Nat → Compression) (c : Compression) (ct : Nat) (hc : cOf ct = c)
    (hl : LawfulC c) (hct : ct ≤ maxCompression) (full : List (List GoBytes)) (hf : FitsAll c full)
    (ks : List Nat) (j : Nat) (b : Bytes) (hb : b <+: fileOf c ct full j) :
    replayFiles cOf (DirN.named (ks.map (fun i => (i, fileOf c ct full i)) ++ [(j, b)])) =
      ((ks.map (fun i => full.getD i [])).flatten ++
        (full.getD j []).take (wholeIn c (full.getD j []) b.length), none) := by
  induction ks with
  | nil =>
    have hb' : b = (fileBytes c ct (full.getD j [])).take b.length := List.prefix_iff_eq_take.mp hb
    simp only [List.map_nil, List.nil_append, DirN.named, List.map_cons, List.flatten_nil]
    rw [hb']
    rw [replayFiles_last cOf c ct hc _ hl (fits_getD c full hf j) hct]
    rw [← hb']
  | cons k ks ih =>
    have hne : DirN.named (ks.map (fun i => (i, fileOf c ct full i)) ++ [(j, b)]) ≠ [] := by
      simp [DirN.named]
    obtain ⟨g, rest, hg⟩ := List.exists_cons_of_ne_nil hne
    have : DirN.named ((k :: ks).map (fun i => (i, fileOf c ct full i)) ++ [(j, b)]) =
        (walName k, fileBytes c ct (full.getD k [])) :: g :: rest := by
      rw [← hg]; simp [DirN.named, fileOf]
    rw [this, replayFiles_cons_complete cOf c ct hc _ hl (fits_getD c full hf k) hct, ← hg, ih]
    simp

theorem range_map_getD (full : List (List GoBytes)) (j : Nat) (hj : j ≤ full.length) :
    (List.range j).map (fun i => full.getD i []) = full.take j := by
  apply List.ext_getElem
  · simp; omega
  · intro i h1 h2
    simp only [List.length_map, List.length_range] at h1
    have : i < full.length := by omega
    simp [List.getElem?_eq_getElem this]

/-- the replayer on a crash image returns exactly the records the image holds, without error -/
theorem replay_img (cOf : Nat → Compression) (c : Compression) (ct : Nat) (hc : cOf ct = c)
    (hl : LawfulC c) (hct : ct ≤ maxCompression) (full : List (List GoBytes)) (hf : FitsAll c full)
    (hm : full.length ≤ maxWalFiles) (d : DirN) (hd : Img (fileOf c ct full) full.length d) :
    replay cOf d.named = (imgRecords c full d, none) := by
  rcases hd with rfl | ⟨j, b, hj, hb, rfl⟩
  · rfl
  · rw [replay_named cOf _ (ascN_img _ j b (by omega))]
    unfold completeDir
    rw [replayFiles_ks cOf c ct hc hl hct full hf _ j b hb, range_map_getD full j (by omega)]
    simp [imgRecords]

end SST.Proofs
