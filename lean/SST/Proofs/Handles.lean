/-
Proofs for the handle bookkeeping (C19): every step of the handle model leaves exactly the steady multiset
(current WAL file, one data mapping per live table, the goroutines), `Close` leaves nothing, a table reader's
`Close` releases every scanner.  All by counting occurrences: for every handle `h`,
`count h (closeAll l hs) = count h l - count h hs` (truncated), `count h (hs ++ l) = count h hs + count h l`.
-/
import SST.Spec.Handles
import SST.Proofs.DBCompact
namespace SST.Proofs.Handles
open SST SST.DBM SST.HM

/-! ## phases and counts -/

theorem count_closeAll (h : Handle) (l hs : List Handle) :
    (closeAll l hs).count h = l.count h - hs.count h := by
  induction hs generalizing l with
  | nil => simp [closeAll]
  | cons a hs ih =>
    simp only [closeAll, ih, List.count_erase, List.count_cons]
    omega

theorem length_closeAll_le (l hs : List Handle) : (closeAll l hs).length ≤ l.length := by
  induction hs generalizing l with
  | nil => simp [closeAll]
  | cons a hs ih => exact Nat.le_trans (ih _) List.length_erase_le

theorem runPhases_nil (l : List Handle) : runPhases l [] = l := rfl

theorem runPhases_cons (l : List Handle) (p : Phase) (ps : List Phase) :
    runPhases l (p :: ps) = runPhases (applyPhase l p) ps := rfl

theorem runPhases_append (l : List Handle) (a b : List Phase) :
    runPhases l (a ++ b) = runPhases (runPhases l a) b := by
  simp [runPhases, List.foldl_append]

theorem count_opn (h : Handle) (l hs : List Handle) :
    (applyPhase l (.opn hs)).count h = l.count h + hs.count h := by
  simp [applyPhase, List.count_append]; omega

theorem count_cls (h : Handle) (l hs : List Handle) :
    (applyPhase l (.cls hs)).count h = l.count h - hs.count h := by
  simp [applyPhase, count_closeAll]

theorem count_cls1 (h : Handle) (l hs : List Handle) :
    (runPhases l [.cls hs]).count h = l.count h - hs.count h := count_cls h l hs

theorem count_opn1 (h : Handle) (l hs : List Handle) :
    (runPhases l [.opn hs]).count h = l.count h + hs.count h := count_opn h l hs

/-- a transient: opened and closed again -/
theorem count_bracket (h : Handle) (l hs : List Handle) :
    (runPhases l [.opn hs, .cls hs]).count h = l.count h := by
  simp only [runPhases_cons, runPhases_nil, count_cls, count_opn]; omega

/-! ## building blocks -/

theorem run_readerOpen (l : List Handle) (g : Nat) :
    runPhases l (readerOpen g) = .tableMmap g :: l := by
  simp [readerOpen, runPhases, applyPhase, closeAll]

theorem run_writer (l : List Handle) (g : Option Nat) :
    runPhases l (writerOpen g ++ writerClose g) = l := by
  simp [writerOpen, writerClose, runPhases, applyPhase, closeAll]

theorem count_writerOpen (h : Handle) (l : List Handle) (g : Option Nat) :
    (runPhases l (writerOpen g)).count h
      = l.count h + ([.writerFd g .index, .writerFd g .data].count h + [Handle.writerFd g .metadata].count h) := by
  simp only [writerOpen, runPhases_cons, runPhases_nil, count_opn, List.count_cons, List.count_nil]; omega

theorem count_writerClose (h : Handle) (l : List Handle) (g : Option Nat) :
    (runPhases l (writerClose g)).count h
      = l.count h - [.writerFd g .index, .writerFd g .data].count h - [Handle.writerFd g .metadata].count h := by
  simp only [writerClose, runPhases_cons, runPhases_nil, count_opn, count_cls]; omega

/-- table numbers the pending flush adds -/
def flushNew (d : State) : List Nat := if d.flushPending && !d.r.isEmpty then [d.gen + 1] else []

theorem run_flushPhases (l : List Handle) (d : State) :
    runPhases l (flushPhases d) = (flushNew d).map Handle.tableMmap ++ l := by
  unfold flushPhases flushNew
  split
  · rw [runPhases_append, run_writer, run_readerOpen]; rfl
  · rfl

theorem tabGens_flushStep (d : State) : tabGens (flushStep d) = tabGens d ++ flushNew d := by
  unfold flushStep flushNew tabGens
  cases hp : d.flushPending <;> cases hr : d.r.isEmpty <;> simp

theorem tabGens_rotate (d : State) : tabGens (rotate d) = tabGens d ++ flushNew d := by
  rw [← tabGens_flushStep]; rfl

theorem count_flatMap_readerOpen (h : Handle) (l : List Handle) (gs : List Nat) :
    (runPhases l (gs.flatMap readerOpen)).count h = l.count h + (gs.map Handle.tableMmap).count h := by
  induction gs generalizing l with
  | nil => simp [runPhases]
  | cons g gs ih =>
    rw [List.flatMap_cons, runPhases_append, run_readerOpen, ih]
    simp only [List.map_cons, List.count_cons]; omega

/-- the handles one compaction input holds while the merge runs -/
def inputHandles (sel : List Nat) : List Handle := sel.flatMap fun g => [.scanner g 0, .tableMmap g]

theorem count_inputs (h : Handle) (l : List Handle) (sel : List Nat) :
    (runPhases l (sel.flatMap (fun g => readerOpen g ++ [.opn [.scanner g 0]]))).count h
      = l.count h + (inputHandles sel).count h := by
  induction sel generalizing l with
  | nil => simp [runPhases, inputHandles]
  | cons g gs ih =>
    rw [List.flatMap_cons, runPhases_append, runPhases_append, run_readerOpen, ih]
    simp only [inputHandles, List.flatMap_cons, runPhases_cons, runPhases_nil, applyPhase, List.count_append,
      List.count_cons, List.count_nil]
    omega

theorem count_inputHandles_ge (h : Handle) (sel : List Nat) :
    (sel.map Handle.tableMmap).count h ≤ (inputHandles sel).count h := by
  induction sel with
  | nil => simp [inputHandles]
  | cons g gs ih =>
    simp only [inputHandles, List.flatMap_cons, List.map_cons, List.count_append, List.count_cons,
      List.count_nil] at ih ⊢
    omega

/-- net effect of one compaction cycle on the selected tables `first :: rest`: the live mappings of the inputs
go away, the mapping of the result (at the first input's directory) appears; everything else was transient -/
theorem count_compactPhases (h : Handle) (l : List Handle) (first : Nat) (rest : List Nat)
    (hl : ((first :: rest).map Handle.tableMmap).count h ≤ l.count h) :
    (runPhases l (compactPhases (first :: rest))).count h
      = l.count h - ((first :: rest).map Handle.tableMmap).count h + [Handle.tableMmap first].count h := by
  have hge := count_inputHandles_ge h (first :: rest)
  have hshape : compactPhases (first :: rest)
      = writerOpen none ++ (first :: rest).flatMap (fun g => readerOpen g ++ [.opn [.scanner g 0]]) ++ writerClose none
        ++ ([.opn [.writerFd none .flag], .cls [.writerFd none .flag]]
        ++ ([.cls (inputHandles (first :: rest))] ++ ([.cls ((first :: rest).map Handle.tableMmap)] ++ readerOpen first))) := by
    simp [compactPhases, inputHandles]
  rw [hshape]
  simp only [runPhases_append]
  rw [run_readerOpen, List.count_cons, count_cls1, count_cls1, count_bracket, count_writerClose, count_inputs,
    count_writerOpen]
  generalize ([Handle.writerFd none .index, Handle.writerFd none .data].count h) = a
  generalize ([Handle.writerFd none .metadata].count h) = m
  generalize ((inputHandles (first :: rest)).count h) = x at hge ⊢
  generalize (((first :: rest).map Handle.tableMmap).count h) = mm at hge hl ⊢
  simp only [List.count_cons, List.count_nil]
  omega

/-! ## the layer model: which tables a step adds and removes -/

open SST.Proofs.DB in
/-- `compactStep` with its second component: nothing selected and nothing changed, or a gap-free run
`t0 :: sel'` is replaced by one table at `t0`'s number and exactly the run's numbers are reported -/
theorem compactStep_spec2 (s : State) (sizes : List Nat) :
    compactStep s sizes = (s, []) ∨
    ∃ pre t0 sel' post, s.tables = pre ++ (t0 :: sel') ++ post ∧
      compactStep s sizes = ({ s with tables :=
        pre ++ [{ gen := t0.gen, cells := mergeRun (t0 :: sel') (pre.length == 0) }] ++ post },
        (t0 :: sel').map (·.gen)) := by
  unfold compactStep
  extract_lets flags idx sel
  have hcont : Contiguous flags := floodFill_contiguous _
  have hidx : idx = (List.range s.tables.length).filter (fun i => flags.getD i false) := rfl
  have hsel : sel = idx.filterMap (fun i => s.tables[i]?) := rfl
  clear_value sel idx flags
  by_cases hth : (idx.length : Int) ≤ s.opts.threshold
  · left; rw [if_pos hth]
  · simp only [if_neg hth]
    cases idx with
    | nil => left; rfl
    | cons first rest =>
      have hpw : (first :: rest).Pairwise (· < ·) := by
        rw [hidx]; exact List.Pairwise.sublist List.filter_sublist List.pairwise_lt_range
      have hmem : ∀ x, x ∈ first :: rest ↔ x < s.tables.length ∧ flags.getD x false = true := by
        intro x; rw [hidx, List.mem_filter, List.mem_range]
      have hr := eq_range'_of_closed rest first hpw (by
        intro x y z hx hz hxy hyz
        rw [hmem] at hx hz ⊢
        exact ⟨by omega, hcont x y z hxy hyz hx.2 hz.2⟩)
      have hlast : first + rest.length < s.tables.length := by
        have : first + rest.length ∈ first :: rest := by rw [hr, List.mem_range'_1]; omega
        exact ((hmem _).1 this).1
      obtain ⟨pre, mid, post, htab, hpl, hml⟩ := split_interval s.tables first (rest.length + 1) (by omega)
      subst hpl
      have hsel' : sel = mid := by
        rw [hsel, hr, htab, ← hml]; exact filterMap_getElem?_mid pre mid post
      subst hsel'
      cases sel with
      | nil => simp at hml
      | cons t0 sel' =>
        right
        refine ⟨pre, t0, sel', post, htab, ?_⟩
        have hrl : rest.length = sel'.length := by simpa using hml.symm
        rw [hrl] at hr
        have := reflect_interval' pre t0 sel' post
          { gen := t0.gen, cells := mergeRun (t0 :: sel') (pre.length == 0) } s.tables (pre.length :: rest) htab hr
        simp only [this]

theorem usable_flushStep (d : State) : usable (flushStep d) = usable d := by
  unfold flushStep usable
  cases d.flushPending <;> cases d.r.isEmpty <;> rfl

theorem pending_flushStep (d : State) : (flushStep d).flushPending = false := by
  unfold flushStep
  cases hp : d.flushPending <;> cases hr : d.r.isEmpty <;> simp [hp]

theorem usable_rotate (d : State) : usable (rotate d) = usable d := by
  show usable { flushStep d with r := (flushStep d).w, w := [], flushPending := true } = usable d
  rw [← usable_flushStep d]; rfl

/-- two layer states that differ at most in the write store -/
structure Same (d0 d : State) : Prop where
  r : d0.r = d.r
  pend : d0.flushPending = d.flushPending
  tables : d0.tables = d.tables
  gen : d0.gen = d.gen
  isOpen : d0.isOpen = d.isOpen
  closed : d0.closed = d.closed

theorem Same.rfl' (d : State) : Same d d := ⟨rfl, rfl, rfl, rfl, rfl, rfl⟩

theorem Same.usable {d0 d : State} (h : Same d0 d) : usable d0 = usable d := by
  unfold HM.usable; rw [h.isOpen, h.closed]

theorem Same.tabGens {d0 d : State} (h : Same d0 d) : tabGens d0 = tabGens d := by
  unfold HM.tabGens; rw [h.tables]

theorem Same.flushNew {d0 d : State} (h : Same d0 d) : flushNew d0 = flushNew d := by
  unfold Handles.flushNew; rw [h.pend, h.r, h.gen]

theorem Same.flushPhases {d0 d : State} (h : Same d0 d) : flushPhases d0 = flushPhases d := by
  unfold HM.flushPhases; rw [h.pend, h.r, h.gen]

/-! ## the invariant -/

structure Inv (s : HState) : Prop where
  /-- the open handles are exactly the steady multiset -/
  cnt : ∀ h, s.handles.count h = (steady s).count h
  /-- outside a session the flusher has nothing pending -/
  idle : usable s.db = false → s.db.flushPending = false

theorem inv_init : Inv {} := ⟨fun _ => rfl, fun _ => rfl⟩

theorem count_goroutines (h : Handle) (t : Bool) :
    (goroutines t).count h
      = [Handle.goroutine .flusher].count h + (if t then [Handle.goroutine .ticker] else []).count h := by
  cases t <;> simp [goroutines, List.count_cons] <;> omega

/-- rotation of a usable database (from a client call that first changed the write store, or directly) -/
theorem inv_rotate (s : HState) (hi : Inv s) (hu : usable s.db = true) (d0 : State) (hs : Same d0 s.db) :
    Inv { rotateCore s (rotate d0) with handles := runPhases s.handles (rotatePhases s) } := by
  have hu' : usable (rotate d0) = true := by rw [usable_rotate, hs.usable, hu]
  constructor
  · intro h
    have hc := hi.cnt h
    simp only [steady, hu, if_true] at hc
    simp only [steady, rotateCore, hu', if_true, rotatePhases, runPhases_append, run_flushPhases, walRotate,
      runPhases_cons, runPhases_nil, tabGens_rotate, hs.tabGens, hs.flushNew, List.map_append,
      List.count_append, List.count_cons, count_cls, count_opn, List.count_nil] at hc ⊢
    omega
  · intro hn; simp [rotateCore, hu'] at hn

/-- the tail of `Close` after the rotation: last flush, goroutines joined, WAL writer and all table readers closed -/
theorem count_shutdown (s : HState) (hi : Inv s) (hu : usable s.db = true) (h : Handle) :
    (runPhases s.handles (flushPhases s.db ++ [.cls [.goroutine .flusher]] ++
      (if s.ticker then [.cls [.goroutine .ticker]] else []) ++
      [.cls [.walFile s.walNo], .cls ((tabGens (flushStep s.db)).map Handle.tableMmap)])).count h = 0 := by
  have hc := hi.cnt h
  simp only [steady, hu, if_true, List.count_cons, List.count_append, count_goroutines] at hc
  simp only [runPhases_append, run_flushPhases, tabGens_flushStep, List.map_append]
  cases ht : s.ticker <;>
    simp only [ht, if_true, if_false, Bool.false_eq_true, runPhases_cons, runPhases_nil, count_cls, List.count_append,
      List.count_cons, List.count_nil] at hc ⊢ <;> omega

theorem inv_open (s : HState) (hi : Inv s) (hn : (s.db.closed || !s.db.isOpen) = true) (o : Opts) (t : Bool) :
    Inv { s with db := reopen s.db o, walNo := 0, ticker := t, leftover := [],
                 handles := runPhases s.handles (openPhases s t) } := by
  have hu : usable s.db = false := by
    unfold usable; cases h1 : s.db.closed <;> cases h2 : s.db.isOpen <;> simp_all
  constructor
  · intro h
    have hc := hi.cnt h
    simp only [steady, hu, Bool.false_eq_true, if_false, List.count_nil] at hc
    have hu' : usable (reopen s.db o) = true := rfl
    have hg : tabGens (reopen s.db o) = tabGens s.db := rfl
    simp only [steady, hu', if_true, hg, openPhases, runPhases_append, count_flatMap_readerOpen, runPhases_cons,
      runPhases_nil, count_cls, count_opn, List.count_cons, List.count_append, List.count_nil, hc]
    omega
  · intro hf; exact absurd hf (by simp [usable, reopen])

theorem inv_same (s : HState) (hi : Inv s) (d' : State) (hs : Same d' s.db) (lo : List Nat) :
    Inv { s with db := d', leftover := lo, handles := runPhases s.handles [] } := by
  constructor
  · intro h
    have hc := hi.cnt h
    simp only [steady, hs.usable, hs.tabGens, runPhases_nil] at hc ⊢
    exact hc
  · intro hf
    rw [hs.pend]; exact hi.idle (by rw [← hs.usable]; exact hf)

theorem inv_flush (s : HState) (hi : Inv s) (lo : List Nat) :
    Inv { s with db := flushStep s.db, leftover := lo, handles := runPhases s.handles (flushPhases s.db) } := by
  constructor
  · intro h
    have hc := hi.cnt h
    cases hu : usable s.db
    · have hp := hi.idle hu
      have hn : flushNew s.db = [] := by simp [flushNew, hp]
      simp only [steady, hu, usable_flushStep, run_flushPhases, hn, Bool.false_eq_true, if_false] at hc ⊢
      simpa using hc
    · simp only [steady, hu, usable_flushStep, run_flushPhases, tabGens_flushStep, if_true, List.map_append,
        List.count_append, List.count_cons] at hc ⊢
      omega
  · intro _; exact pending_flushStep _

theorem inv_compact (s : HState) (hi : Inv s) (hu : usable s.db = true) (sizes : List Nat) :
    Inv { s with db := (compactStep s.db sizes).1,
                 handles := runPhases s.handles (compactPhases (compactStep s.db sizes).2) } := by
  rcases compactStep_spec2 s.db sizes with (h0 | ⟨pre, t0, sel', post, htab, hc⟩)
  · rw [h0]; exact inv_same s hi s.db (Same.rfl' _) s.leftover
  · rw [hc]
    constructor
    · intro h
      have hcnt := hi.cnt h
      have hg : tabGens s.db = pre.map (·.gen) ++ (t0.gen :: sel'.map (·.gen)) ++ post.map (·.gen) := by
        simp [tabGens, htab]
      have hu' : usable ({ s.db with tables := pre ++ [{ gen := t0.gen, cells := mergeRun (t0 :: sel') (pre.length == 0) }] ++ post } : State) = true := hu
      have hg' : tabGens ({ s.db with tables := pre ++ [{ gen := t0.gen, cells := mergeRun (t0 :: sel') (pre.length == 0) }] ++ post } : State)
          = pre.map (·.gen) ++ [t0.gen] ++ post.map (·.gen) := by simp [tabGens]
      simp only [steady, hu, hu', hg, hg', if_true, List.map_append, List.count_append, List.count_cons (b := Handle.walFile s.walNo)] at hcnt ⊢
      have hl : ((t0.gen :: sel'.map (·.gen)).map Handle.tableMmap).count h ≤ s.handles.count h := by omega
      rw [show (List.map (fun x => x.gen) (t0 :: sel')) = t0.gen :: sel'.map (·.gen) from rfl,
        count_compactPhases h s.handles t0.gen (sel'.map (·.gen)) hl]
      simp only [List.map_cons, List.map_nil] at hcnt ⊢
      omega
    · intro hf; exact hi.idle hf

theorem inv_close (s : HState) (hi : Inv s) (hu : usable s.db = true) (lo : List Nat) :
    Inv { (rotateCore s (rotate s.db)) with
          db := (DBM.close s.db).1, leftover := lo,
          handles := runPhases s.handles (closePhases s) } := by
  have h1 := inv_rotate s hi hu s.db (Same.rfl' _)
  have hu1 : usable (rotate s.db) = true := by rw [usable_rotate, hu]
  have hcl : (close s.db).1 = { flushStep (rotate s.db) with closed := true } := by
    have : (!s.db.isOpen || s.db.closed) = false := by
      unfold usable at hu; cases h1 : s.db.isOpen <;> cases h2 : s.db.closed <;> simp_all
    simp [close, this]
  have hun : usable (close s.db).1 = false := by rw [hcl]; simp [usable]
  constructor
  · intro h
    have hs := count_shutdown _ h1 hu1 h
    simp only [steady, hun, Bool.false_eq_true, if_false, List.count_nil]
    simp only [closePhases, runPhases_append] at hs ⊢
    exact hs
  · intro _; rw [hcl]; exact pending_flushStep _

/-! ## client calls -/

theorem putBytes_cases (d : State) (k v : GoBytes) (rot : Bool) :
    ((rot && (putBytes d k v rot).2 == .ok) = true ∧ usable d = true ∧
        ∃ d0, Same d0 d ∧ (putBytes d k v rot).1 = rotate d0) ∨
    ((rot && (putBytes d k v rot).2 == .ok) = false ∧ Same (putBytes d k v rot).1 d) := by
  unfold putBytes
  cases k with
  | none => right; simp [Same.rfl']
  | some kb =>
    cases v with
    | none => right; simp [Same.rfl']
    | some vb =>
      simp only
      by_cases h1 : (kb.isEmpty || vb.isEmpty) = true
      · right; simp [h1, Same.rfl']
      · by_cases h2 : (!d.isOpen || d.closed) = true
        · right; simp [h1, h2, Same.rfl']
        · have hu : usable d = true := by
            unfold usable; cases h3 : d.isOpen <;> cases h4 : d.closed <;> simp_all
          cases rot
          · right
            simp only [h1, h2, Bool.false_eq_true, if_false, Bool.false_and, true_and]
            exact ⟨rfl, rfl, rfl, rfl, rfl, rfl⟩
          · left
            simp only [h1, h2, Bool.false_eq_true, if_false, if_true, Bool.true_and]
            exact ⟨by decide, hu, { d with w := d.w.set kb (some vb) }, ⟨rfl, rfl, rfl, rfl, rfl, rfl⟩, rfl⟩

theorem putStr_cases (d : State) (k v : Bytes) (rot : Bool) :
    ((rot && (putStr d k v rot).2 == .ok) = true ∧ usable d = true ∧
        ∃ d0, Same d0 d ∧ (putStr d k v rot).1 = rotate d0) ∨
    ((rot && (putStr d k v rot).2 == .ok) = false ∧ Same (putStr d k v rot).1 d) := by
  unfold putStr
  by_cases h : (k.isEmpty || v.isEmpty) = true
  · right; simp [h, Same.rfl']
  · simp only [h, Bool.false_eq_true, if_false]
    exact putBytes_cases d (some k) (some v) rot

theorem deleteBytes_same (d : State) (k : GoBytes) : Same (deleteBytes d k).1 d := by
  unfold deleteBytes
  split
  · exact Same.rfl' _
  · exact ⟨rfl, rfl, rfl, rfl, rfl, rfl⟩

theorem hstep_nil_phases (s : HState) : ({ s with handles := runPhases s.handles [] } : HState) = s := rfl

/-- every step preserves the invariant -/
theorem inv_step (s : HState) (hi : Inv s) (st : HStep) : Inv (hstep s st) := by
  cases st with
  | openTicker o =>
    simp only [hstep, nextCore, phasesOf]
    split
    · rename_i hn; exact inv_open s hi hn o true
    · exact hi
  | op d =>
    cases d with
    | reopen o =>
      simp only [hstep, nextCore, phasesOf, step]
      split
      · rename_i hn
        have hn' : (s.db.closed || !s.db.isOpen) = true := hn
        exact inv_open s hi hn' o false
      · exact hi
    | putB k v rot =>
      simp only [hstep, nextCore, phasesOf, step, putRotates]
      rcases putBytes_cases s.db k v rot with (⟨hr, hu, d0, hs, he⟩ | ⟨hr, hs⟩)
      · simp only [hr, if_true, he]; exact inv_rotate s hi hu d0 hs
      · simp only [hr, Bool.false_eq_true, if_false]; exact inv_same s hi _ hs s.leftover
    | putS k v rot =>
      simp only [hstep, nextCore, phasesOf, step, putRotates]
      rcases putStr_cases s.db k v rot with (⟨hr, hu, d0, hs, he⟩ | ⟨hr, hs⟩)
      · simp only [hr, if_true, he]; exact inv_rotate s hi hu d0 hs
      · simp only [hr, Bool.false_eq_true, if_false]; exact inv_same s hi _ hs s.leftover
    | delB k =>
      simp only [hstep, nextCore, phasesOf, step]
      exact inv_same s hi _ (deleteBytes_same s.db k) s.leftover
    | delS k =>
      simp only [hstep, nextCore, phasesOf, step, deleteStr]
      exact inv_same s hi _ (deleteBytes_same s.db (some k)) s.leftover
    | get k =>
      simp only [hstep, nextCore, phasesOf, step]
      exact inv_same s hi _ (Same.rfl' _) s.leftover
    | rotate =>
      simp only [hstep, nextCore, phasesOf, step]
      cases hu : usable s.db
      · have hu' : (s.db.isOpen && !s.db.closed) = false := hu
        simp only [hu', Bool.false_eq_true, if_false]; exact hi
      · have hu' : (s.db.isOpen && !s.db.closed) = true := hu
        simp only [hu', if_true]; exact inv_rotate s hi hu s.db (Same.rfl' _)
    | flush =>
      simp only [hstep, nextCore, phasesOf, step]
      exact inv_flush s hi _
    | compact sizes =>
      simp only [hstep, nextCore, phasesOf, step]
      cases hu : usable s.db
      · have hu' : (s.db.isOpen && !s.db.closed) = false := hu
        simp only [hu', Bool.false_eq_true, if_false]; exact inv_same s hi _ (Same.rfl' _) s.leftover
      · have hu' : (s.db.isOpen && !s.db.closed) = true := hu
        simp only [hu', if_true]; exact inv_compact s hi hu sizes
    | close =>
      simp only [hstep, nextCore, phasesOf, step]
      cases hu : usable s.db
      · simp only [Bool.false_eq_true, if_false]; exact hi
      · simp only [if_true]; exact inv_close s hi hu _

theorem inv_run (steps : List HStep) (s : HState) (hi : Inv s) : Inv (hrun s steps) := by
  induction steps generalizing s with
  | nil => exact hi
  | cons st rest ih => exact ih _ (inv_step s hi st)

theorem reach_inv (steps : List HStep) : Inv (hrun {} steps) := inv_run steps {} inv_init

/-! ## the property statements -/

/-- in every reachable state the open handles are a permutation of the steady multiset -/
theorem handles_perm_steady (steps : List HStep) :
    (hrun {} steps).handles.Perm (steady (hrun {} steps)) :=
  List.perm_iff_count.2 (reach_inv steps).cnt

theorem steady_length_le (s : HState) : (steady s).length ≤ s.db.tables.length + 3 := by
  unfold steady goroutines tabGens
  split
  · cases s.ticker <;> simp <;> omega
  · simp

theorem steady_files_le (s : HState) :
    ((steady s).filter (fun h => !isGoroutine h)).length ≤ s.db.tables.length + 1 := by
  unfold steady tabGens
  split
  · have hG : (goroutines s.ticker).filter (fun h => !isGoroutine h) = [] := by
      cases s.ticker <;> rfl
    have hW : [Handle.walFile s.walNo].filter (fun h => !isGoroutine h) = [Handle.walFile s.walNo] := rfl
    rw [show Handle.walFile s.walNo :: (s.db.tables.map (·.gen)).map Handle.tableMmap ++ goroutines s.ticker
          = [Handle.walFile s.walNo] ++ ((s.db.tables.map (·.gen)).map Handle.tableMmap ++ goroutines s.ticker) from rfl,
      List.filter_append, List.filter_append, hG, hW]
    have := List.length_filter_le (fun h => !isGoroutine h) ((s.db.tables.map (·.gen)).map Handle.tableMmap)
    simp only [List.length_append, List.length_map, List.length_cons, List.length_nil] at this ⊢
    omega
  · simp

theorem steady_mem (s : HState) (h : Handle) (hm : h ∈ steady s) :
    h = .walFile s.walNo ∨ (∃ t ∈ s.db.tables, h = .tableMmap t.gen) ∨ h = .goroutine .flusher ∨
      (s.ticker = true ∧ h = .goroutine .ticker) := by
  unfold steady goroutines tabGens at hm
  split at hm
  · simp only [List.cons_append, List.mem_cons, List.mem_append, List.mem_map] at hm
    rcases hm with (h1 | ⟨g, ⟨t, ht, rfl⟩, rfl⟩ | h3 | h4)
    · exact Or.inl h1
    · exact Or.inr (Or.inl ⟨t, ht, rfl⟩)
    · exact Or.inr (Or.inr (Or.inl h3))
    · cases hk : s.ticker
      · simp [hk] at h4
      · simp [hk] at h4; exact Or.inr (Or.inr (Or.inr ⟨rfl, h4⟩))
  · simp at hm

/-- after `close` (whatever came before) no state is usable, so nothing is open -/
theorem not_usable_handles_nil (steps : List HStep) (hn : usable (hrun {} steps).db = false) :
    (hrun {} steps).handles = [] := by
  have hp := handles_perm_steady steps
  simp only [steady, hn, Bool.false_eq_true, if_false] at hp
  exact List.Perm.eq_nil hp

theorem hrun_append (s : HState) (a b : List HStep) : hrun s (a ++ b) = hrun (hrun s a) b := by
  induction a generalizing s with
  | nil => rfl
  | cons x xs ih => exact ih _

theorem close_not_usable (s : HState) : usable (hstep s (.op .close)).db = false := by
  simp only [hstep, nextCore, step]
  cases hu : usable s.db
  · simp only [Bool.false_eq_true, if_false]; exact hu
  · have : (!s.db.isOpen || s.db.closed) = false := by
      unfold usable at hu; cases h1 : s.db.isOpen <;> cases h2 : s.db.closed <;> simp_all
    simp [close, this, usable]

/-! ## peak during a step -/

theorem peak_le_opens (l : List Handle) (ps : List Phase) : peak l ps ≤ l.length + opens ps := by
  induction ps generalizing l with
  | nil => simp [peak, opens]
  | cons p ps ih =>
    cases p with
    | opn hs =>
      have := ih (hs ++ l)
      simp only [peak, opens, applyPhase, List.length_append] at this ⊢
      omega
    | cls hs =>
      have := ih (closeAll l hs)
      have := length_closeAll_le l hs
      simp only [peak, opens, applyPhase] at *
      omega

theorem opens_append (a b : List Phase) : opens (a ++ b) = opens a + opens b := by
  induction a with
  | nil => simp [opens]
  | cons p ps ih => cases p <;> simp [opens, ih] <;> omega

theorem opens_flushPhases (d : State) : opens (flushPhases d) ≤ 8 := by
  unfold flushPhases; split <;> simp [opens, writerOpen, writerClose, readerOpen]

theorem opens_inputs (sel : List Nat) :
    opens (sel.flatMap (fun g => readerOpen g ++ [.opn [.scanner g 0]])) = 5 * sel.length := by
  induction sel with
  | nil => rfl
  | cons g gs ih =>
    rw [List.flatMap_cons, opens_append, ih, opens_append]
    simp only [readerOpen, opens, List.length_cons, List.length_nil]
    omega

theorem opens_compactPhases (sel : List Nat) : opens (compactPhases sel) ≤ 5 * sel.length + 9 := by
  cases sel with
  | nil => simp [compactPhases, opens]
  | cons first rest =>
    simp only [compactPhases, opens_append, opens_inputs]
    simp [opens, writerOpen, writerClose, readerOpen]
    omega

/-! ## a stand-alone table reader -/

structure RInv (s : RState) : Prop where
  fresh : s.created = false → s.handles = []
  sub : ∀ h, s.handles.count h ≤ (closable s).count h

theorem rinv_step (s : RState) (hi : RInv s) (st : RStep) : RInv (rstep s st) ∧ (rstep s st).gen = s.gen := by
  cases st with
  | newReader =>
    cases hc : s.created
    · have hn := hi.fresh hc
      refine ⟨⟨by simp [rstep], ?_⟩, rfl⟩
      intro h
      simp [rstep, rPhases, hc, run_readerOpen, hn, closable, List.count_append]
    · exact ⟨⟨by simp [rstep], by intro h; simpa [rstep, rPhases, hc, runPhases, closable] using hi.sub h⟩, rfl⟩
  | scan =>
    cases hc : s.created
    · exact ⟨⟨by intro _; simpa [rstep, rPhases, hc, runPhases] using hi.fresh hc,
        by intro h; simpa [rstep, rPhases, hc, runPhases, closable] using hi.sub h⟩, by simp [rstep, hc]⟩
    · refine ⟨⟨by simp [rstep, hc], ?_⟩, by simp [rstep, hc]⟩
      intro h
      have := hi.sub h
      simp only [rstep, rPhases, hc, if_true, closable, runPhases_cons, runPhases_nil, count_opn, List.range_succ,
        List.map_append, List.count_append, List.map_cons, List.map_nil] at this ⊢
      omega
  | scanAt => exact ⟨⟨hi.fresh, hi.sub⟩, rfl⟩
  | finishScan => exact ⟨⟨hi.fresh, hi.sub⟩, rfl⟩
  | abandonScan => exact ⟨⟨hi.fresh, hi.sub⟩, rfl⟩
  | closeReader =>
    refine ⟨⟨?_, ?_⟩, rfl⟩
    · intro hc
      have hc' : s.created = false := hc
      simpa [rstep, rPhases, hc', runPhases] using hi.fresh hc'
    · intro h
      have := hi.sub h
      cases hc : s.created
      · simpa [rstep, rPhases, hc, runPhases, closable] using this
      · simp only [rstep, rPhases, hc, if_true, closable, runPhases_cons, runPhases_nil, count_cls,
          List.count_append] at this ⊢
        omega

theorem rinv_run (steps : List RStep) (s : RState) (hi : RInv s) :
    RInv (rrun s steps) ∧ (rrun s steps).gen = s.gen := by
  induction steps generalizing s with
  | nil => exact ⟨hi, rfl⟩
  | cons st rest ih =>
    obtain ⟨h1, g1⟩ := rinv_step s hi st
    obtain ⟨h2, g2⟩ := ih _ h1
    exact ⟨h2, g2.trans g1⟩

theorem rrun_append (s : RState) (a b : List RStep) : rrun s (a ++ b) = rrun (rrun s a) b := by
  induction a generalizing s with
  | nil => rfl
  | cons x xs ih => exact ih _

theorem close_reader_nil (s : RState) (hi : RInv s) : (rstep s .closeReader).handles = [] := by
  cases hc : s.created
  · simpa [rstep, rPhases, hc, runPhases] using hi.fresh hc
  · apply List.eq_nil_iff_forall_not_mem.2
    intro h hm
    have hpos := List.count_pos_iff.2 hm
    have := hi.sub h
    simp only [rstep, rPhases, hc, if_true, closable, runPhases_cons, runPhases_nil, count_cls,
      List.count_append] at this hpos
    omega

/-- `Close` followed by `Open` (compactions off or on): a fresh WAL file 0, one mapping per table, the goroutines -/
theorem reopen_steady (s : HState) (hn : usable s.db = false) (o : Opts) (t : Bool) :
    steady (hstep s (if t then .openTicker o else .op (.reopen o)))
      = .walFile 0 :: (tabGens s.db).map Handle.tableMmap ++ goroutines t := by
  have hc : (s.db.closed || !s.db.isOpen) = true := by
    unfold usable at hn; cases h1 : s.db.closed <;> cases h2 : s.db.isOpen <;> simp_all
  cases t <;> simp [hstep, nextCore, step, hc, steady, usable, reopen, tabGens]

theorem length_le_of_perm_steady (steps : List HStep) :
    (hrun {} steps).handles.length ≤ (hrun {} steps).db.tables.length + 3 := by
  rw [(handles_perm_steady steps).length_eq]; exact steady_length_le _

/-! ## a sharper peak for the compaction cycle: 2k + 4 above the handles before it -/

theorem peak_ge_length (l : List Handle) (ps : List Phase) : l.length ≤ peak l ps := by
  cases ps <;> simp [peak]; omega

theorem peak_append (l : List Handle) (a b : List Phase) :
    peak l (a ++ b) = max (peak l a) (peak (runPhases l a) b) := by
  induction a generalizing l with
  | nil =>
    have := peak_ge_length l b
    simp only [List.nil_append, peak, runPhases_nil]; omega
  | cons p ps ih =>
    simp only [List.cons_append, peak, ih, runPhases_cons]; omega

theorem length_run_le (l : List Handle) (ps : List Phase) : (runPhases l ps).length ≤ l.length + opens ps := by
  induction ps generalizing l with
  | nil => simp [runPhases, opens]
  | cons p ps ih =>
    cases p with
    | opn hs =>
      have := ih (hs ++ l)
      simp only [runPhases_cons, applyPhase, opens, List.length_append] at this ⊢; omega
    | cls hs =>
      have := ih (closeAll l hs)
      have := length_closeAll_le l hs
      simp only [runPhases_cons, applyPhase, opens] at *; omega

theorem peak_readerOpen (l : List Handle) (g : Nat) : peak l (readerOpen g) = l.length + 1 := by
  simp [readerOpen, peak, applyPhase, closeAll]

theorem inputs_peak (l : List Handle) (sel : List Nat) :
    peak l (sel.flatMap (fun g => readerOpen g ++ [.opn [.scanner g 0]])) ≤ l.length + 2 * sel.length ∧
    (runPhases l (sel.flatMap (fun g => readerOpen g ++ [.opn [.scanner g 0]]))).length = l.length + 2 * sel.length := by
  induction sel generalizing l with
  | nil => simp [peak, runPhases]
  | cons g gs ih =>
    obtain ⟨h1, h2⟩ := ih (.scanner g 0 :: .tableMmap g :: l)
    have hrun : runPhases l (readerOpen g ++ [.opn [.scanner g 0]]) = .scanner g 0 :: .tableMmap g :: l := by
      rw [runPhases_append, run_readerOpen]; rfl
    rw [List.flatMap_cons, peak_append, hrun, runPhases_append, hrun, peak_append, run_readerOpen, peak_readerOpen]
    simp only [peak, applyPhase, List.length_cons, List.length_append, List.length_nil] at h1 h2 ⊢
    omega

theorem length_writerClose_le (l : List Handle) (g : Option Nat) :
    (runPhases l (writerClose g)).length ≤ l.length ∧ peak l (writerClose g) ≤ l.length + 1 := by
  have h1 := length_closeAll_le l [.writerFd g .index, .writerFd g .data]
  have h2 := length_closeAll_le (closeAll l [.writerFd g .index, .writerFd g .data]) [.writerFd g .metadata]
  simp only [writerClose, runPhases_cons, runPhases_nil, applyPhase, peak, closeAll, List.cons_append, List.nil_append,
    List.erase_cons_head, List.length_cons] at h1 h2 ⊢
  omega

/-- while a compaction cycle over `k ≥ 1` tables runs, at most `2k + 4` handles more than before it are open -/
theorem peak_compactPhases (l : List Handle) (first : Nat) (rest : List Nat) :
    peak l (compactPhases (first :: rest)) ≤ l.length + 2 * (rest.length + 1) + 4 := by
  have hshape : compactPhases (first :: rest)
      = writerOpen none ++ ((first :: rest).flatMap (fun g => readerOpen g ++ [.opn [.scanner g 0]]) ++ (writerClose none
        ++ ([.opn [.writerFd none .flag], .cls [.writerFd none .flag]]
        ++ ([.cls (inputHandles (first :: rest)), .cls ((first :: rest).map Handle.tableMmap)] ++ readerOpen first)))) := by
    simp [compactPhases, inputHandles]
  rw [hshape]
  simp only [peak_append]
  generalize hl1 : runPhases l (writerOpen none) = l1
  have hlen1 : l1.length = l.length + 3 := by rw [← hl1]; simp [writerOpen, runPhases, applyPhase]
  have hp1 : peak l (writerOpen none) = l.length + 3 := by simp [writerOpen, peak, applyPhase]; omega
  obtain ⟨hp2, hlen2⟩ := inputs_peak l1 (first :: rest)
  generalize runPhases l1 ((first :: rest).flatMap (fun g => readerOpen g ++ [.opn [.scanner g 0]])) = l2 at hlen2 ⊢
  obtain ⟨hlen3, hp3⟩ := length_writerClose_le l2 none
  generalize runPhases l2 (writerClose none) = l3 at hlen3 ⊢
  have hp4 : peak l3 [.opn [.writerFd none .flag], .cls [.writerFd none .flag]] = l3.length + 1 := by
    simp [peak, applyPhase, closeAll]
  have hl4 : runPhases l3 [.opn [.writerFd none .flag], .cls [.writerFd none .flag]] = l3 := by
    simp [runPhases, applyPhase, closeAll]
  rw [hl4, hp4, peak_readerOpen]
  have hp5 := peak_le_opens l3 [.cls (inputHandles (first :: rest)), .cls ((first :: rest).map Handle.tableMmap)]
  have hlen5 := length_run_le l3 [.cls (inputHandles (first :: rest)), .cls ((first :: rest).map Handle.tableMmap)]
  simp only [opens, List.length_cons] at hp2 hlen2 hp5 hlen5
  simp only [Nat.max_le]
  omega

end SST.Proofs.Handles
