/-
`bytes.Compare` (`bytesCmp`) is a consistent comparator whose `.eq` is equality; the same for its lift to
Go slices where nil = empty (`goCmp`).
-/
import SST.Model.Merge
import SST.Spec.Sorted
namespace SST.Proofs.MergeOrd
open SST SST.Merge

theorem u8_eq_of {a b : UInt8} (h1 : ¬ a < b) (h2 : ¬ b < a) : a = b := by
  apply UInt8.le_antisymm <;> simp_all [UInt8.not_lt]

theorem bytesCmp_refl (a : Bytes) : bytesCmp a a = .eq := by
  induction a with
  | nil => rfl
  | cons x xs ih => simp [bytesCmp, ih]

theorem bytesCmp_eq_iff {a b : Bytes} : bytesCmp a b = .eq ↔ a = b := by
  constructor
  · intro h
    induction a generalizing b with
    | nil => cases b with
      | nil => rfl
      | cons y ys => simp [bytesCmp] at h
    | cons x xs ih => cases b with
      | nil => simp [bytesCmp] at h
      | cons y ys =>
        simp only [bytesCmp] at h
        split at h
        · cases h
        · split at h
          · cases h
          · rename_i h1 h2
            rw [u8_eq_of h1 h2, ih h]
  · rintro rfl; exact bytesCmp_refl a

theorem bytesCmp_swap (a b : Bytes) : bytesCmp a b = (bytesCmp b a).swap := by
  induction a generalizing b with
  | nil => cases b <;> rfl
  | cons x xs ih => cases b with
    | nil => rfl
    | cons y ys =>
      simp only [bytesCmp]
      by_cases h1 : x < y
      · have h2 : ¬ y < x := UInt8.lt_asymm h1
        simp [h1, h2]
      · by_cases h2 : y < x
        · simp [h1, h2]
        · simp [h1, h2, ih ys]

theorem bytesCmp_trans_lt (a b c : Bytes) (h1 : bytesCmp a b = .lt) (h2 : bytesCmp b c = .lt) :
    bytesCmp a c = .lt := by
  induction a generalizing b c with
  | nil => cases b with
    | nil => simp [bytesCmp] at h1
    | cons y ys => cases c with
      | nil => simp [bytesCmp] at h2
      | cons z zs => rfl
  | cons x xs ih => cases b with
    | nil => simp [bytesCmp] at h1
    | cons y ys => cases c with
      | nil => simp [bytesCmp] at h2
      | cons z zs =>
        simp only [bytesCmp] at h1 h2 ⊢
        by_cases hxy : x < y
        · by_cases hyz : y < z
          · simp [UInt8.lt_trans hxy hyz]
          · by_cases hzy : z < y
            · simp [hyz, hzy] at h2
            · have : y = z := u8_eq_of hyz hzy
              subst this; simp [hxy]
        · by_cases hyx : y < x
          · simp [hxy, hyx] at h1
          · have : x = y := u8_eq_of hxy hyx
            subst this
            by_cases hyz : x < z
            · simp [hyz]
            · by_cases hzy : z < x
              · simp [hyz, hzy] at h2
              · simp only [hxy, if_false] at h1
                simp only [hyz, hzy, if_false] at h2 ⊢
                exact ih ys zs h1 h2

theorem bytesCmp_lawful : LawfulCmp bytesCmp where
  refl := bytesCmp_refl
  swap := bytesCmp_swap
  trans_lt := bytesCmp_trans_lt
  eq_left := by
    intro a b c h
    rw [bytesCmp_eq_iff.mp h]

theorem goCmp_lawful : LawfulCmp goCmp where
  refl := fun a => bytesCmp_refl _
  swap := fun a b => bytesCmp_swap _ _
  trans_lt := fun a b c => bytesCmp_trans_lt _ _ _
  eq_left := by
    intro a b c h
    simp only [goCmp] at h ⊢
    rw [bytesCmp_eq_iff.mp h]

theorem bytesCmp_lt_irrefl (a : Bytes) : bytesCmp a a ≠ .lt := by
  rw [bytesCmp_refl]; simp

theorem bytesCmp_gt_iff {a b : Bytes} : bytesCmp a b = .gt ↔ bytesCmp b a = .lt := by
  rw [bytesCmp_swap a b]
  cases bytesCmp b a <;> simp [Ordering.swap]

/-- `a ≤ b` and `a ≠ b` is `a < b` -/
theorem bytesCmp_lt_of_le_ne {a b : Bytes} (h1 : bytesCmp a b ≠ .gt) (h2 : a ≠ b) : bytesCmp a b = .lt := by
  cases h : bytesCmp a b with
  | lt => rfl
  | eq => exact absurd (bytesCmp_eq_iff.mp h) h2
  | gt => exact absurd h h1

end SST.Proofs.MergeOrd
