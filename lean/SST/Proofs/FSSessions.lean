/-
L6-fs, sessions: the invariants of the interleaved session (`S`, `G` of Proofs/FSInterleave*.lean) are preserved by
the moves of `Close` (Model/FSSessions.lean), plus the bookkeeping invariant `W` of `Close`'s phases; what a completed
`Close` leaves behind.
-/
import SST.Model.FSSessions
import SST.Proofs.FSInterleaveTies
namespace SST.Proofs.FSS
open SST SST.DBM SST.FS SST.FSI SST.FSS SST.Proofs.DB SST.Proofs.FS SST.Proofs.FSI

/-! ## the invariants do not look at the program -/

theorem S_prog {c : Cfg} (P : List Op) (h : S c) : S { c with prog := P } :=
  ⟨h.tbl, h.comps, h.walDir, h.wal, h.gensS, h.gensLe, h.fwf, h.jk, h.nums, h.rcOk, h.qOk, h.wq, h.tnq, h.pcq, h.kwf⟩

theorem G_prog {async : Bool} {E : Key → Option Bytes} {c : Cfg} (P : List Op) (h : G async E c) :
    G async E { c with prog := P } := ⟨h.ex, h.a1, h.a2, h.a3⟩

theorem reflecting_false {c : Cfg} (h : reflecting c = false) : ∀ a b cl j s J, c.kj ≠ .reflecting a b cl j s J := by
  intro a b cl j s J hk
  unfold reflecting at h
  rw [hk] at h
  cases h

/-- taking the db lock for a rotation is the first move of a forced rotation -/
theorem begin_rotate (async : Bool) (c : Cfg) (hpc : c.pc = .idle) (hr : reflecting c = false) :
    move async { c with prog := [.rotate] } .begin = some (none, { c with prog := [], pc := .rot0 }) := by
  have hnr := reflecting_false hr
  simp only [move]
  rw [hpc]
  cases hk : c.kj with
  | idle => rfl
  | merging a b cl st => rfl
  | reflecting a b cl j s J => exact absurd hk (hnr _ _ _ _ _ _)

theorem S_lock (async : Bool) {c : Cfg} (h : S c) (hpc : c.pc = .idle) (hr : reflecting c = false) :
    S { c with pc := .rot0 } :=
  S_prog c.prog (S_move async _ _ none .begin (S_prog [.rotate] h) (begin_rotate async c hpc hr))

theorem G_lock (async : Bool) (E : Key → Option Bytes) {c : Cfg} (hS : S c) (h : G async E c) (hpc : c.pc = .idle)
    (hr : reflecting c = false) : G async E { c with pc := .rot0 } :=
  G_prog c.prog (G_move async E _ _ none .begin (S_prog [.rotate] hS) (G_prog [.rotate] h) (begin_rotate async c hpc hr))

/-- `Appender.Close` has closed the file: the client thread is done -/
theorem S_finish {c : Cfg} (h : S c) (hpc : c.pc = .rot1) : S { c with pc := .idle } := by
  have hn : nextFile c = [] := nextFile_client (Or.inr (Or.inr (Or.inr hpc)))
  refine ⟨h.tbl, h.comps, h.walDir, ?_, h.gensS, h.gensLe, h.fwf, h.jk, h.nums, h.rcOk, h.qOk, h.wq, h.tnq, ?_, ?_⟩
  · have := h.wal
    rw [hn] at this
    exact this
  · intro hx
    rcases hx with (hx | hx | hx) <;> cases hx
  · exact KWf_congr (c := c) rfl rfl (fun _ => rfl) h.kwf

theorem G_finish {async : Bool} {E : Key → Option Bytes} {c : Cfg} (h : G async E c) (ha : c.acked = c.hist.length) :
    G async E { c with pc := .idle } := ⟨h.ex, h.a1, h.a2, fun _ => ha⟩


/-! ## what the moves of the open database do to the fields `Close` looks at -/

/-- the client / flusher side of a configuration -/
def CF (c c' : Cfg) : Prop :=
  c'.pc = c.pc ∧ c'.queue = c.queue ∧ c'.rc = c.rc ∧ c'.w = c.w ∧ c'.tn = c.tn ∧ c'.fl = c.fl ∧ c'.hist = c.hist ∧
    c'.acked = c.acked

def isK : Mv → Bool
  | .kstart .. => true
  | .kstep _ => true
  | .kreflect => true
  | _ => false

/-- only the compactor's moves touch the compactor -/
theorem nonk_kj (async : Bool) (c c' : Cfg) (e : Option Ev) (mv : Mv) (hm : move async c mv = some (e, c'))
    (hk : isK mv = false) : c'.kj = c.kj := by
  cases mv <;> simp only [isK, Bool.true_eq_false] at hk <;> simp only [move] at hm <;> (repeat' split at hm) <;>
    first
    | (cases hm; done)
    | (simp only [Option.some.injEq, Prod.mk.injEq] at hm; obtain ⟨_, rfl⟩ := hm; rfl)

/-- the compactor's moves touch nothing else; `kstart` needs an idle compactor, the others a busy one -/
theorem k_frame (async : Bool) (c c' : Cfg) (e : Option Ev) (mv : Mv) (hm : move async c mv = some (e, c'))
    (hk : isK mv = true) : CF c c' ∧ (kIdle c = true → ∃ sizes th o, mv = .kstart sizes th o) := by
  cases mv <;> simp only [isK, Bool.false_eq_true] at hk <;> simp only [move] at hm <;> (repeat' split at hm) <;>
    first
    | (cases hm; done)
    | (simp only [Option.some.injEq, Prod.mk.injEq] at hm; obtain ⟨_, rfl⟩ := hm
       refine ⟨⟨rfl, rfl, rfl, rfl, rfl, rfl, rfl, rfl⟩, ?_⟩
       intro hi
       first
       | exact ⟨_, _, _, rfl⟩
       | (unfold kIdle at hi; simp_all))


/-- everything `Close` looks at except the client's position -/
def SameQ (c c' : Cfg) : Prop :=
  c'.queue = c.queue ∧ c'.rc = c.rc ∧ c'.w = c.w ∧ c'.tn = c.tn ∧ c'.fl = c.fl ∧ c'.hist = c.hist ∧ c'.acked = c.acked

theorem eff_torn (async : Bool) (c c' : Cfg) (e : Option Ev) (hm : move async c .torn = some (e, c')) :
    c.queue ≠ [] ∧ c.pc.logging = true ∧ c'.pc = c.pc := by
  simp only [move] at hm
  split at hm
  · simp only [Option.some.injEq, Prod.mk.injEq] at hm; obtain ⟨_, rfl⟩ := hm
    simp_all
  · cases hm

theorem eff_append (async : Bool) (c c' : Cfg) (e : Option Ev) (hm : move async c .append = some (e, c')) :
    c.queue ≠ [] ∧ c.pc.logging = true ∧ c'.pc = c.pc := by
  simp only [move] at hm
  (repeat' split at hm) <;>
    first
    | (cases hm; done)
    | (simp only [Option.some.injEq, Prod.mk.injEq] at hm; obtain ⟨_, rfl⟩ := hm; simp_all)

theorem eff_done (async : Bool) (c c' : Cfg) (e : Option Ev) (hm : move async c .done = some (e, c')) :
    ∃ r, c.pc = .app r := by
  simp only [move] at hm
  split at hm
  · exact ⟨_, by assumption⟩
  · cases hm

theorem eff_close (async : Bool) (c c' : Cfg) (e : Option Ev) (hm : move async c .close = some (e, c')) :
    c.pc = .rot0 ∧ c' = { c with pc := .rot1 } := by
  simp only [move] at hm
  split at hm
  · simp only [Option.some.injEq, Prod.mk.injEq] at hm; obtain ⟨_, rfl⟩ := hm
    simp_all
  · cases hm

theorem eff_create (async : Bool) (c c' : Cfg) (e : Option Ev) (hm : move async c .create = some (e, c')) :
    c.pc = .rot1 ∧ c'.pc = .rot2 ∧ SameQ c c' := by
  simp only [move] at hm
  split at hm
  · simp only [Option.some.injEq, Prod.mk.injEq] at hm; obtain ⟨_, rfl⟩ := hm
    refine ⟨by simp_all, rfl, rfl, rfl, rfl, rfl, rfl, rfl, rfl⟩
  · cases hm

theorem eff_header (async : Bool) (c c' : Cfg) (e : Option Ev) (hm : move async c .header = some (e, c')) :
    c.pc = .rot2 ∧ c'.pc = .rot3 ∧ SameQ c c' := by
  simp only [move] at hm
  split at hm
  · simp only [Option.some.injEq, Prod.mk.injEq] at hm; obtain ⟨_, rfl⟩ := hm
    refine ⟨by simp_all, rfl, rfl, rfl, rfl, rfl, rfl, rfl, rfl⟩
  · cases hm

theorem eff_handoff (async : Bool) (c c' : Cfg) (e : Option Ev) (hm : move async c .handoff = some (e, c')) :
    c.pc = .rot3 ∧ c.fl = none ∧ c'.pc = .idle ∧ c'.rc = [] ∧ c'.w = [] ∧ c'.queue = c.queue ∧ c'.tn = c.tn ∧
      c'.hist = c.hist ∧ c'.acked = c.hist.length ∧ c'.mark = c.hist.length := by
  simp only [move] at hm
  (repeat' split at hm) <;>
    first
    | (cases hm; done)
    | (simp only [Option.some.injEq, Prod.mk.injEq] at hm; obtain ⟨_, rfl⟩ := hm; simp_all)

theorem eff_f (async : Bool) (c c' : Cfg) (e : Option Ev) (mv : Mv) (hmv : mv = .fstep ∨ mv = .fadd)
    (hm : move async c mv = some (e, c')) :
    c.fl ≠ none ∧ c'.pc = c.pc ∧ c'.queue = c.queue ∧ c'.rc = c.rc ∧ c'.w = c.w ∧ c'.tn = c.tn ∧ c'.hist = c.hist ∧
      c'.acked = c.acked := by
  rcases hmv with (rfl | rfl) <;> simp only [move] at hm <;> (repeat' split at hm) <;>
    first
    | (cases hm; done)
    | (simp only [Option.some.injEq, Prod.mk.injEq] at hm; obtain ⟨_, rfl⟩ := hm; simp_all)


/-! ## the phases of `Close` -/

/-- nothing sits in the appender, the current WAL file holds no record, the write store is empty -/
def Drained (c : Cfg) : Prop := c.queue = [] ∧ c.rc = [] ∧ c.w = [] ∧ c.tn = false

structure W (sc : SCfg) : Prop where
  kst : (sc.comp = false ∨ sc.kstop = true) → kIdle sc.c = true
  wk : sc.ph = .walclosing ∨ sc.ph = .closed → (sc.comp = false ∨ sc.kstop = true)
  lk : sc.ph = .locked → (∀ r, sc.c.pc ≠ .app r) ∧ (sc.c.pc = .idle → Drained sc.c)
  rej : sc.ph.rejecting = true → sc.c.fl = none ∧ Drained sc.c ∧ sc.c.acked = sc.c.hist.length
  pcU : sc.ph = .unlocked ∨ sc.ph = .closed → sc.c.pc = .idle
  pcW : sc.ph = .walclosing → sc.c.pc = .rot0 ∨ sc.c.pc = .rot1

theorem pass_some {async : Bool} {sc sc' : SCfg} {mv : Mv} {e : Option Ev} (h : pass async sc mv = some (e, sc')) :
    ∃ c', move async sc.c mv = some (e, c') ∧ sc' = { sc with c := c' } := by
  unfold pass at h
  split at h
  · rename_i e' c' hmv
    simp only [Option.some.injEq, Prod.mk.injEq] at h
    obtain ⟨rfl, rfl⟩ := h
    exact ⟨c', hmv, rfl⟩
  · cases h

/-- a compactor move under `W` -/
theorem W_k {async : Bool} {sc : SCfg} {c' : Cfg} {e : Option Ev} {mv : Mv} (hW : W sc)
    (hm : move async sc.c mv = some (e, c')) (hk : isK mv = true)
    (hg : (sc.comp = false ∨ sc.kstop = true) → ∀ sizes th o, mv ≠ .kstart sizes th o) : W { sc with c := c' } := by
  obtain ⟨⟨f1, f2, f3, f4, f5, f6, f7, f8⟩, hi⟩ := k_frame async sc.c c' e mv hm hk
  refine ⟨?_, hW.wk, ?_, ?_, ?_, ?_⟩
  · intro hc
    obtain ⟨sizes, th, o, rfl⟩ := hi (hW.kst hc)
    exact absurd rfl (hg hc sizes th o)
  · intro hp
    obtain ⟨a, b⟩ := hW.lk hp
    refine ⟨fun r => by show c'.pc ≠ _; rw [f1]; exact a r, fun hx => ?_⟩
    have hx' : c'.pc = .idle := hx
    rw [f1] at hx'
    obtain ⟨b1, b2, b3, b4⟩ := b hx'
    exact ⟨f2.trans b1, f3.trans b2, f4.trans b3, f5.trans b4⟩
  · intro hp
    obtain ⟨a, ⟨b1, b2, b3, b4⟩, d⟩ := hW.rej hp
    exact ⟨f6.trans a, ⟨f2.trans b1, f3.trans b2, f4.trans b3, f5.trans b4⟩, by show c'.acked = c'.hist.length; rw [f8, f7]; exact d⟩
  · intro hp; show c'.pc = _; rw [f1]; exact hW.pcU hp
  · intro hp; show c'.pc = _ ∨ c'.pc = _; rw [f1]; exact hW.pcW hp

/-- a client / flusher move while `Close` has not been called -/
theorem W_running {async : Bool} {sc : SCfg} {c' : Cfg} {e : Option Ev} {mv : Mv} (hW : W sc) (hph : sc.ph = .running)
    (hm : move async sc.c mv = some (e, c')) (hk : isK mv = false) : W { sc with c := c' } := by
  have hkj := nonk_kj async sc.c c' e mv hm hk
  refine ⟨?_, hW.wk, ?_, ?_, ?_, ?_⟩
  · intro hc; have := hW.kst hc; unfold kIdle at this ⊢; show (match c'.kj with | .idle => true | _ => false) = true
    rw [hkj]; exact this
  · intro hp; have : sc.ph = .locked := hp; rw [hph] at this; cases this
  · intro hp; have : sc.ph.rejecting = true := hp; rw [hph] at this; cases this
  · intro hp; have : sc.ph = .unlocked ∨ sc.ph = .closed := hp; rw [hph] at this; rcases this with (h | h) <;> cases h
  · intro hp; have : sc.ph = .walclosing := hp; rw [hph] at this; cases this


/-- a client / flusher move while `Close` holds the lock: it is a move of the rotation or of the flusher -/
theorem locked_step {async : Bool} {sc : SCfg} {c' : Cfg} {e : Option Ev} {mv : Mv} (hS : S sc.c) (hW : W sc)
    (hp : sc.ph = .locked) (hm : move async sc.c mv = some (e, c')) (hk : isK mv = false) (hb : mv ≠ .begin) :
    (∀ r, c'.pc ≠ .app r) ∧ (c'.pc = .idle → Drained c') := by
  obtain ⟨hna, hdr⟩ := hW.lk hp
  cases mv with
  | begin => exact absurd rfl hb
  | torn =>
    obtain ⟨_, hl, hpc⟩ := eff_torn async _ _ _ hm
    refine ⟨fun r => by rw [hpc]; exact hna r, fun hx => ?_⟩
    rw [hpc] at hx; rw [hx] at hl; cases hl
  | append =>
    obtain ⟨_, hl, hpc⟩ := eff_append async _ _ _ hm
    refine ⟨fun r => by rw [hpc]; exact hna r, fun hx => ?_⟩
    rw [hpc] at hx; rw [hx] at hl; cases hl
  | done =>
    obtain ⟨r, hr⟩ := eff_done async _ _ _ hm
    exact absurd hr (hna r)
  | close =>
    obtain ⟨_, rfl⟩ := eff_close async _ _ _ hm
    exact ⟨fun r hx => (by cases hx), fun hx => (by cases hx)⟩
  | create =>
    obtain ⟨_, hpc, _⟩ := eff_create async _ _ _ hm
    exact ⟨fun r hx => (by rw [hpc] at hx; cases hx), fun hx => (by rw [hpc] at hx; cases hx)⟩
  | header =>
    obtain ⟨_, hpc, _⟩ := eff_header async _ _ _ hm
    exact ⟨fun r hx => (by rw [hpc] at hx; cases hx), fun hx => (by rw [hpc] at hx; cases hx)⟩
  | handoff =>
    obtain ⟨h3, _, hpc, hrc, hw, hq, htn, _, _, _⟩ := eff_handoff async _ _ _ hm
    obtain ⟨q0, t0⟩ := hS.pcq (Or.inr (Or.inr h3))
    exact ⟨fun r hx => (by rw [hpc] at hx; cases hx), fun _ => ⟨hq.trans q0, hrc, hw, htn.trans t0⟩⟩
  | fstep =>
    obtain ⟨_, hpc, hq, hrc, hw, htn, _, _⟩ := eff_f async _ _ _ _ (Or.inl rfl) hm
    refine ⟨fun r => by rw [hpc]; exact hna r, fun hx => ?_⟩
    rw [hpc] at hx
    obtain ⟨b1, b2, b3, b4⟩ := hdr hx
    exact ⟨hq.trans b1, hrc.trans b2, hw.trans b3, htn.trans b4⟩
  | fadd =>
    obtain ⟨_, hpc, hq, hrc, hw, htn, _, _⟩ := eff_f async _ _ _ _ (Or.inr rfl) hm
    refine ⟨fun r => by rw [hpc]; exact hna r, fun hx => ?_⟩
    rw [hpc] at hx
    obtain ⟨b1, b2, b3, b4⟩ := hdr hx
    exact ⟨hq.trans b1, hrc.trans b2, hw.trans b3, htn.trans b4⟩
  | kstart sizes th o => cases hk
  | kstep jk => cases hk
  | kreflect => cases hk

theorem rejecting_pc {sc : SCfg} (hW : W sc) (hp : sc.ph.rejecting = true) :
    (sc.c.pc = .idle ∧ (sc.ph = .unlocked ∨ sc.ph = .closed)) ∨
      ((sc.c.pc = .rot0 ∨ sc.c.pc = .rot1) ∧ sc.ph = .walclosing) := by
  cases hph : sc.ph with
  | running => rw [hph] at hp; cases hp
  | locked => rw [hph] at hp; cases hp
  | unlocked => exact Or.inl ⟨hW.pcU (Or.inl hph), Or.inl rfl⟩
  | walclosing => exact Or.inr ⟨hW.pcW hph, rfl⟩
  | closed => exact Or.inl ⟨hW.pcU (Or.inr hph), Or.inr rfl⟩

/-- once `Close` has released the lock the only client / flusher move left is the closing of the last WAL file -/
theorem rej_only_close {async : Bool} {sc : SCfg} {c' : Cfg} {e : Option Ev} {mv : Mv} (hW : W sc)
    (hp : sc.ph.rejecting = true) (hm : move async sc.c mv = some (e, c')) (hk : isK mv = false) (hb : mv ≠ .begin)
    (hg : sc.ph = .walclosing → mv ≠ .create) :
    mv = .close ∧ sc.ph = .walclosing ∧ c' = { sc.c with pc := .rot1 } := by
  obtain ⟨hfl, ⟨hq, _, _, _⟩, _⟩ := hW.rej hp
  have hpc := rejecting_pc hW hp
  cases mv with
  | begin => exact absurd rfl hb
  | torn => exact absurd hq (eff_torn async _ _ _ hm).1
  | append => exact absurd hq (eff_append async _ _ _ hm).1
  | done =>
    obtain ⟨r, hr⟩ := eff_done async _ _ _ hm
    rw [hr] at hpc
    rcases hpc with (⟨h, _⟩ | ⟨h | h, _⟩) <;> cases h
  | close =>
    obtain ⟨h0, rfl⟩ := eff_close async _ _ _ hm
    rw [h0] at hpc
    rcases hpc with (⟨h, _⟩ | ⟨_, h⟩)
    · cases h
    · exact ⟨rfl, h, rfl⟩
  | create =>
    obtain ⟨h1, _, _⟩ := eff_create async _ _ _ hm
    rw [h1] at hpc
    rcases hpc with (⟨h, _⟩ | ⟨_, h⟩)
    · cases h
    · exact absurd rfl (hg h)
  | header =>
    obtain ⟨h2, _, _⟩ := eff_header async _ _ _ hm
    rw [h2] at hpc
    rcases hpc with (⟨h, _⟩ | ⟨h | h, _⟩) <;> cases h
  | handoff =>
    obtain ⟨h3, _⟩ := eff_handoff async _ _ _ hm
    rw [h3] at hpc
    rcases hpc with (⟨h, _⟩ | ⟨h | h, _⟩) <;> cases h
  | fstep => exact absurd hfl (eff_f async _ _ _ _ (Or.inl rfl) hm).1
  | fadd => exact absurd hfl (eff_f async _ _ _ _ (Or.inr rfl) hm).1
  | kstart sizes th o => cases hk
  | kstep jk => cases hk
  | kreflect => cases hk

theorem ph_cases (p : Ph) : p = .running ∨ p = .locked ∨ p = .unlocked ∨ p = .walclosing ∨ p = .closed := by
  cases p <;> simp

/-- a client / flusher move (not the beginning of a call) under `W` -/
theorem W_nonk {async : Bool} {sc : SCfg} {c' : Cfg} {e : Option Ev} {mv : Mv} (hS : S sc.c) (hW : W sc)
    (hm : move async sc.c mv = some (e, c')) (hk : isK mv = false) (hb : mv ≠ .begin)
    (hg : sc.ph = .walclosing → mv ≠ .create) : W { sc with c := c' } := by
  rcases ph_cases sc.ph with (hph | hph | hph | hph | hph)
  · exact W_running hW hph hm hk
  · have hkj := nonk_kj async sc.c c' e mv hm hk
    have hl := locked_step hS hW hph hm hk hb
    refine ⟨?_, hW.wk, fun _ => hl, ?_, ?_, ?_⟩
    · intro hc; have := hW.kst hc; unfold kIdle at this ⊢; show (match c'.kj with | .idle => true | _ => false) = true
      rw [hkj]; exact this
    · intro hp; have : sc.ph.rejecting = true := hp; rw [hph] at this; cases this
    · intro hp; have : sc.ph = .unlocked ∨ sc.ph = .closed := hp; rw [hph] at this; rcases this with (h | h) <;> cases h
    · intro hp; have : sc.ph = .walclosing := hp; rw [hph] at this; cases this
  · have hp : sc.ph.rejecting = true := by rw [hph]; rfl
    obtain ⟨_, h, _⟩ := rej_only_close hW hp hm hk hb hg
    rw [hph] at h; cases h
  · have hp : sc.ph.rejecting = true := by rw [hph]; rfl
    obtain ⟨_, _, rfl⟩ := rej_only_close hW hp hm hk hb hg
    refine ⟨hW.kst, hW.wk, ?_, hW.rej, ?_, fun _ => Or.inr rfl⟩
    · intro hx; have : sc.ph = .locked := hx; rw [hph] at this; cases this
    · intro hx; have : sc.ph = .unlocked ∨ sc.ph = .closed := hx; rw [hph] at this; rcases this with (h | h) <;> cases h
  · have hp : sc.ph.rejecting = true := by rw [hph]; rfl
    obtain ⟨_, h, _⟩ := rej_only_close hW hp hm hk hb hg
    rw [hph] at h; cases h


/-! ## every move of a session preserves the invariants -/

structure Inv (async : Bool) (E : Key → Option Bytes) (sc : SCfg) : Prop where
  s : S sc.c
  g : G async E sc.c
  w : W sc

theorem Inv_pass_nonk {async : Bool} {E : Key → Option Bytes} {sc sc' : SCfg} {e : Option Ev} {mv : Mv}
    (h : Inv async E sc) (hm : pass async sc mv = some (e, sc')) (hk : isK mv = false) (hb : mv ≠ .begin)
    (hg : sc.ph = .walclosing → mv ≠ .create) : Inv async E sc' := by
  obtain ⟨c', hmv, rfl⟩ := pass_some hm
  exact ⟨S_move async _ _ e mv h.s hmv, G_move async E _ _ e mv h.s h.g hmv, W_nonk h.s h.w hmv hk hb hg⟩

theorem Inv_pass_k {async : Bool} {E : Key → Option Bytes} {sc sc' : SCfg} {e : Option Ev} {mv : Mv}
    (h : Inv async E sc) (hm : pass async sc mv = some (e, sc')) (hk : isK mv = true)
    (hg : (sc.comp = false ∨ sc.kstop = true) → ∀ sizes th o, mv ≠ .kstart sizes th o) : Inv async E sc' := by
  obtain ⟨c', hmv, rfl⟩ := pass_some hm
  exact ⟨S_move async _ _ e mv h.s hmv, G_move async E _ _ e mv h.s h.g hmv, W_k h.w hmv hk hg⟩

theorem Inv_step (async : Bool) (E : Key → Option Bytes) (sc sc' : SCfg) (e : Option Ev) (mv : SMv)
    (h : Inv async E sc) (hm : smove async sc mv = some (e, sc')) : Inv async E sc' := by
  have hW := h.w
  cases mv with
  | sys m =>
    cases m with
    | begin =>
      simp only [smove] at hm
      split at hm
      · rename_i hph
        obtain ⟨c', hmv, rfl⟩ := pass_some hm
        exact ⟨S_move async _ _ e _ h.s hmv, G_move async E _ _ e _ h.s h.g hmv, W_running hW hph hmv rfl⟩
      · cases hm
      · split at hm
        · split at hm
          · cases hm
          · simp only [Option.some.injEq, Prod.mk.injEq] at hm
            obtain ⟨_, rfl⟩ := hm
            exact ⟨S_prog _ h.s, G_prog _ h.g, ⟨hW.kst, hW.wk, hW.lk, hW.rej, hW.pcU, hW.pcW⟩⟩
        · cases hm
    | torn => simp only [smove] at hm; exact Inv_pass_nonk h hm rfl (by intro hx; cases hx) (fun _ => by intro hx; cases hx)
    | append => simp only [smove] at hm; exact Inv_pass_nonk h hm rfl (by intro hx; cases hx) (fun _ => by intro hx; cases hx)
    | done => simp only [smove] at hm; exact Inv_pass_nonk h hm rfl (by intro hx; cases hx) (fun _ => by intro hx; cases hx)
    | close => simp only [smove] at hm; exact Inv_pass_nonk h hm rfl (by intro hx; cases hx) (fun _ => by intro hx; cases hx)
    | create =>
      simp only [smove] at hm
      split at hm
      · cases hm
      · rename_i hg
        exact Inv_pass_nonk h hm rfl (by intro hx; cases hx) (fun hp => by rw [hp] at hg; exact absurd rfl hg)
    | header =>
      simp only [smove] at hm
      split at hm
      · cases hm
      · exact Inv_pass_nonk h hm rfl (by intro hx; cases hx) (fun _ => by intro hx; cases hx)
    | handoff =>
      simp only [smove] at hm
      split at hm
      · cases hm
      · exact Inv_pass_nonk h hm rfl (by intro hx; cases hx) (fun _ => by intro hx; cases hx)
    | fstep => simp only [smove] at hm; exact Inv_pass_nonk h hm rfl (by intro hx; cases hx) (fun _ => by intro hx; cases hx)
    | fadd => simp only [smove] at hm; exact Inv_pass_nonk h hm rfl (by intro hx; cases hx) (fun _ => by intro hx; cases hx)
    | kstart sizes th o =>
      simp only [smove] at hm
      split at hm
      · rename_i hg
        refine Inv_pass_k h hm rfl ?_
        intro hc
        rcases hc with (hc | hc) <;> rw [hc] at hg <;> simp at hg
      · cases hm
    | kstep jk =>
      simp only [smove] at hm
      exact Inv_pass_k h hm rfl (fun _ _ _ _ => by intro hx; cases hx)
    | kreflect =>
      simp only [smove] at hm
      split at hm
      · cases hm
      · exact Inv_pass_k h hm rfl (fun _ _ _ _ => by intro hx; cases hx)
  | cbegin =>
    simp only [smove] at hm
    split at hm
    · rename_i hc
      simp only [Bool.and_eq_true, beq_iff_eq, Bool.not_eq_true'] at hc
      obtain ⟨⟨hph, hpc⟩, hr⟩ := hc
      simp only [Option.some.injEq, Prod.mk.injEq] at hm
      obtain ⟨_, rfl⟩ := hm
      refine ⟨S_lock async h.s hpc hr, G_lock async E h.s h.g hpc hr, ⟨hW.kst, ?_, ?_, ?_, ?_, ?_⟩⟩
      · intro hx; rcases hx with (hx | hx) <;> cases hx
      · intro _; exact ⟨fun r hx => (by cases hx), fun hx => (by cases hx)⟩
      · intro hx; cases hx
      · intro hx; rcases hx with (hx | hx) <;> cases hx
      · intro hx; cases hx
    · cases hm
  | cunlock =>
    simp only [smove] at hm
    split at hm
    · rename_i hc
      simp only [Bool.and_eq_true, beq_iff_eq, Option.isNone_iff_eq_none] at hc
      obtain ⟨⟨hph, hpc⟩, hfl⟩ := hc
      simp only [Option.some.injEq, Prod.mk.injEq] at hm
      obtain ⟨_, rfl⟩ := hm
      refine ⟨h.s, h.g, ⟨hW.kst, ?_, ?_, ?_, ?_, ?_⟩⟩
      · intro hx; rcases hx with (hx | hx) <;> cases hx
      · intro hx; cases hx
      · intro _; exact ⟨hfl, (hW.lk hph).2 hpc, h.g.a3 hpc⟩
      · intro _; exact hpc
      · intro hx; cases hx
    · cases hm
  | kexit =>
    simp only [smove] at hm
    split at hm
    · rename_i hc
      simp only [Bool.and_eq_true, beq_iff_eq] at hc
      obtain ⟨_, hki⟩ := hc
      simp only [Option.some.injEq, Prod.mk.injEq] at hm
      obtain ⟨_, rfl⟩ := hm
      exact ⟨h.s, h.g, ⟨fun _ => hki, fun _ => Or.inr rfl, hW.lk, hW.rej, hW.pcU, hW.pcW⟩⟩
    · cases hm
  | cwal =>
    simp only [smove] at hm
    split at hm
    · rename_i hc
      simp only [Bool.and_eq_true, beq_iff_eq, Bool.or_eq_true, Bool.not_eq_true'] at hc
      obtain ⟨hph, hks⟩ := hc
      simp only [Option.some.injEq, Prod.mk.injEq] at hm
      obtain ⟨_, rfl⟩ := hm
      have hp : sc.ph.rejecting = true := by rw [hph]; rfl
      have hpc : sc.c.pc = .idle := hW.pcU (Or.inl hph)
      have hr : reflecting sc.c = false := by
        have := hW.kst hks
        unfold kIdle at this
        unfold reflecting
        split <;> simp_all
      refine ⟨S_lock async h.s hpc hr, G_lock async E h.s h.g hpc hr, ⟨hW.kst, fun _ => hks, ?_, fun _ => hW.rej hp, ?_, ?_⟩⟩
      · intro hx; cases hx
      · intro hx; rcases hx with (hx | hx) <;> cases hx
      · intro _; exact Or.inl rfl
    · cases hm
  | cfinish =>
    simp only [smove] at hm
    split at hm
    · rename_i hc
      simp only [Bool.and_eq_true, beq_iff_eq] at hc
      obtain ⟨hph, hpc⟩ := hc
      simp only [Option.some.injEq, Prod.mk.injEq] at hm
      obtain ⟨_, rfl⟩ := hm
      have hp : sc.ph.rejecting = true := by rw [hph]; rfl
      obtain ⟨hfl, hdr, hacked⟩ := hW.rej hp
      refine ⟨S_finish h.s hpc, G_finish h.g hacked, ⟨hW.kst, fun _ => hW.wk (Or.inl hph), ?_, fun _ => ⟨hfl, hdr, hacked⟩, ?_, ?_⟩⟩
      · intro hx; cases hx
      · intro _; rfl
      · intro hx; cases hx
    · cases hm

theorem Inv_run (async : Bool) (E : Key → Option Bytes) (sched : List SMv) :
    ∀ sc, Inv async E sc → Inv async E (runS async sc sched) := by
  induction sched with
  | nil => intro sc h; exact h
  | cons mv rest ih =>
    intro sc h
    simp only [runS]
    cases hm : smove async sc mv with
    | none => exact ih sc h
    | some r =>
      obtain ⟨e, sc'⟩ := r
      exact ih sc' (Inv_step async E sc sc' e mv h hm)

end SST.Proofs.FSS
