/-
L6-fs: one compaction cycle (executeCompaction + reflectCompactionResult) at event granularity.
Until the success flag is readable the compaction directory is invisible; from then on recovery would finish the
compaction — and the merged table reads like the tables it replaces (`vis_tablesGet_merge`), so neither
deleting the inputs nor the final rename changes what the disk serves.
-/
import SST.Proofs.FSSession
namespace SST.Proofs.FS
open SST SST.DBM SST.FS SST.Proofs.DB

/-! ## the shape of a compaction cycle, with the selected table numbers -/

theorem compactStep_spec2 (s : State) (sizes : List Nat) :
    compactStep s sizes = (s, []) ∨
    ∃ pre t0 sel' post, s.tables = pre ++ (t0 :: sel') ++ post ∧
      compactStep s sizes = ({ s with tables :=
        pre ++ [{ gen := t0.gen, cells := mergeRun (t0 :: sel') (pre.length == 0) }] ++ post },
        (t0 :: sel').map (·.gen)) := by
  unfold compactStep
  extract_lets flags idx sel
  have hcont : Contiguous flags := floodFill_contiguous _
  have hidx : idx = (List.range s.tables.length).filter (fun i => flags.getD i false) := rfl
  have hsel : sel = idx.filterMap (fun i => s.tables[i]?) := rfl
  clear_value sel idx flags
  by_cases hth : (idx.length : Int) ≤ s.opts.threshold
  · left; rw [if_pos hth]
  · simp only [if_neg hth]
    cases idx with
    | nil => left; rfl
    | cons first rest =>
      have hpw : (first :: rest).Pairwise (· < ·) := by
        rw [hidx]; exact List.Pairwise.sublist List.filter_sublist List.pairwise_lt_range
      have hmem : ∀ x, x ∈ first :: rest ↔ x < s.tables.length ∧ flags.getD x false = true := by
        intro x; rw [hidx, List.mem_filter, List.mem_range]
      have hr := eq_range'_of_closed rest first hpw (by
        intro x y z hx hz hxy hyz
        rw [hmem] at hx hz ⊢
        exact ⟨by omega, hcont x y z hxy hyz hx.2 hz.2⟩)
      have hlast : first + rest.length < s.tables.length := by
        have : first + rest.length ∈ first :: rest := by rw [hr, List.mem_range'_1]; omega
        exact ((hmem _).1 this).1
      obtain ⟨pre, mid, post, htab, hpl, hml⟩ := split_interval s.tables first (rest.length + 1) (by omega)
      subst hpl
      have hsel' : sel = mid := by
        rw [hsel, hr, htab, ← hml]; exact filterMap_getElem?_mid pre mid post
      subst hsel'
      cases sel with
      | nil => simp at hml
      | cons t0 sel' =>
        right
        refine ⟨pre, t0, sel', post, htab, ?_⟩
        have hrl : rest.length = sel'.length := by simpa using hml.symm
        rw [hrl] at hr
        exact congrArg (fun T => (({ s with tables := T } : State), (t0 :: sel').map (·.gen)))
          (reflect_interval' pre t0 sel' post _ s.tables (pre.length :: rest) htab hr)

/-! ## listings -/

theorem eraseT_updT (g : Nat) (f : TableDir → TableDir) (ts : List (Nat × TableDir)) :
    eraseT g (updT g f ts) = eraseT g ts := by
  have := filter_updT (fun n => n != g) g f ts (by simp)
  exact this

theorem insertT_mid (g : Nat) (t : TableDir) (a b : List (Nat × TableDir)) (ha : ∀ p ∈ a, p.1 < g)
    (hb : ∀ p ∈ b, g < p.1) : insertT g t (a ++ b) = a ++ (g, t) :: b := by
  induction a with
  | nil =>
    cases b with
    | nil => rfl
    | cons q r =>
      have := hb q List.mem_cons_self
      simp only [List.nil_append, insertT]
      rw [if_pos this]
  | cons q r ih =>
    have hq := ha q List.mem_cons_self
    simp only [List.cons_append, insertT]
    rw [if_neg (by omega), if_neg (by omega), ih (fun p hp => ha p (List.mem_cons_of_mem _ hp))]

theorem applyEvs_rmAll (x : Disk) (jf : Nat → Option Layer) (gs : List Nat) :
    applyEvs x (gs.flatMap fun g => rmAll g (jf g)) = { x with tables := x.tables.filter (fun p => !gs.contains p.1) } := by
  induction gs generalizing x with
  | nil =>
    cases x
    simp only [List.flatMap_nil, applyEvs_nil, List.contains_nil, Bool.not_false]
    rw [List.filter_eq_self.2 (fun _ _ => rfl)]
  | cons g gs ih =>
    rw [List.flatMap_cons, applyEvs_append]
    have h1 : applyEvs x (rmAll g (jf g)) = { x with tables := eraseT g x.tables } := by
      unfold rmAll
      cases jf g with
      | none =>
        simp only [List.nil_append, applyEvs_cons, applyEvs_nil, applyEv]
        rw [eraseT_updT, eraseT_updT]
      | some j =>
        simp only [List.singleton_append, applyEvs_cons, applyEvs_nil, applyEv]
        rw [eraseT_updT, eraseT_updT, eraseT_updT]
    rw [h1, ih]
    simp only [eraseT, List.filter_filter]
    congr 1
    apply List.filter_congr
    intro p _
    by_cases hp : p.1 = g <;> simp [hp]

/-- deleting a run of tables from the listing of a table list with strictly increasing numbers -/
theorem filter_run (pre sel post : List Tbl) (hs : ((pre ++ sel ++ post).map (·.gen)).Pairwise (· < ·)) :
    (encT (pre ++ sel ++ post)).filter (fun p => !(sel.map (·.gen)).contains p.1) = encT (pre ++ post) := by
  rw [encT_append, encT_append, encT_append, List.filter_append, List.filter_append]
  rw [List.map_append, List.map_append, List.pairwise_append] at hs
  obtain ⟨h1, h2, h3⟩ := hs
  rw [List.pairwise_append] at h1
  obtain ⟨h4, h5, h6⟩ := h1
  have e1 : (encT pre).filter (fun p => !(sel.map (·.gen)).contains p.1) = encT pre := by
    rw [List.filter_eq_self]
    intro p hp
    obtain ⟨t, ht, rfl⟩ := List.mem_map.1 hp
    simp only [Bool.not_eq_true', List.contains_eq_mem, decide_eq_false_iff_not]
    intro hin
    have := h6 t.gen (List.mem_map.2 ⟨t, ht, rfl⟩) t.gen hin
    omega
  have e2 : (encT sel).filter (fun p => !(sel.map (·.gen)).contains p.1) = [] := by
    rw [List.filter_eq_nil_iff]
    intro p hp
    obtain ⟨t, ht, rfl⟩ := List.mem_map.1 hp
    simp only [Bool.not_eq_true, Bool.not_eq_false', List.contains_eq_mem, decide_eq_true_eq]
    exact List.mem_map.2 ⟨t, ht, rfl⟩
  have e3 : (encT post).filter (fun p => !(sel.map (·.gen)).contains p.1) = encT post := by
    rw [List.filter_eq_self]
    intro p hp
    obtain ⟨t, ht, rfl⟩ := List.mem_map.1 hp
    simp only [Bool.not_eq_true', List.contains_eq_mem, decide_eq_false_iff_not]
    intro hin
    have := h3 t.gen (List.mem_append_right _ hin) t.gen (List.mem_map.2 ⟨t, ht, rfl⟩)
    omega
  rw [e1, e2, e3, List.append_nil]

/-! ## interrupted deletion of the inputs of a flagged compaction -/

theorem input_events_good (c : CompDir) (m : CompMeta) (hf : c.flag = some m) (es : List Ev)
    (hes : ∀ e ∈ es, ∃ g, (g ∈ m.inputs ∨ g = m.replacement) ∧ ((∃ keep, e = .tblUnlinkPart g keep) ∨ e = .tblRmdir g ∨ (∃ j, e = .tblLoadable g j))) :
    ∀ x, DiskOk x → x.comps = [c] → ∀ n,
      DiskOk (applyEvs x (es.take n)) ∧ norm (applyEvs x (es.take n)) = norm x := by
  induction es with
  | nil => intro x hx _ n; simp only [List.take_nil, applyEvs_nil]; exact ⟨hx, trivial⟩
  | cons e es ih =>
    intro x hx hc n
    cases n with
    | zero => simp only [List.take_zero, applyEvs_nil]; exact ⟨hx, trivial⟩
    | succ n =>
      rw [List.take_succ_cons, applyEvs_cons]
      obtain ⟨g, hg, he⟩ := hes e List.mem_cons_self
      obtain ⟨h1, h2⟩ := input_event_ok x hx c m hc hf g hg e he
      have hc' : (applyEv x e).comps = [c] := by
        rcases he with (⟨keep, rfl⟩ | rfl | ⟨j, rfl⟩) <;> exact hc
      obtain ⟨h3, h4⟩ := ih (fun e' he' => hes e' (List.mem_cons_of_mem _ he')) (applyEv x e) h1 hc' n
      exact ⟨h3, h4.trans h2⟩

/-! ## the cycle -/

theorem rd_congr_vis (mem : Layer) (a b : List Tbl) (k : Key) (h : vis (tablesGet a k) = vis (tablesGet b k)) :
    rd mem a k = rd mem b k := by
  unfold rd; rw [h]

theorem compact_seg (d : Disk) (v : Vol) (junk : List WalFile) (ro rc : List Mutation) (tn : Bool)
    (h : QW d v junk ro rc tn) (sizes : List Nat) (jk : List (Nat × Layer) := []) :
    Seg (Good3 d) (fun x => x = d) (compactEvs d v sizes jk).1
      (fun x => QW x (compactEvs d v sizes jk).2 junk ro rc tn) := by
  have hd := h.diskOk
  rcases compactStep_spec2 v.s sizes with (he | ⟨pre, t0, sel', post, htab, he⟩)
  · have : compactEvs d v sizes jk = ([], v) := by simp [compactEvs, he]
    rw [this]
    apply Seg.nil
    intro x hx; subst hx
    exact ⟨⟨hd, rfl⟩, h⟩
  · -- names
    have hgens := h.inv.gens.1
    rw [htab, List.map_append, List.map_append, List.pairwise_append] at hgens
    obtain ⟨hg1, hg2, hg3⟩ := hgens
    rw [List.pairwise_append] at hg1
    obtain ⟨hg4, hg5, hg6⟩ := hg1
    have hpre_lt : ∀ t ∈ pre, t.gen < t0.gen := fun t ht =>
      hg6 t.gen (List.mem_map.2 ⟨t, ht, rfl⟩) t0.gen (by simp)
    have hpost_gt : ∀ t ∈ post, t0.gen < t.gen := fun t ht =>
      hg3 t0.gen (by simp) t.gen (List.mem_map.2 ⟨t, ht, rfl⟩)
    let cells := mergeRun (t0 :: sel') (pre.length == 0)
    let merged : Tbl := { gen := t0.gen, cells := cells }
    let s' : State := { v.s with tables := pre ++ [merged] ++ post }
    let m : CompMeta := { inputs := (t0 :: sel').map (·.gen), replacement := t0.gen }
    have hfind : s'.tables.find? (·.gen == t0.gen) = some merged := by
      show (pre ++ [merged] ++ post).find? _ = _
      rw [List.append_assoc, List.find?_append]
      have : pre.find? (·.gen == t0.gen) = none := by
        rw [List.find?_eq_none]
        intro t ht
        have := hpre_lt t ht
        simp; omega
      rw [this]
      simp [merged]
    have hfresh : freshId d = 1 := by simp [freshId, h.comps]
    have hevs : compactEvs d v sizes jk =
        ([.compMkdir 1, .compProgress 1, .compComplete 1 cells, .compProgress 1, .compFlag 1 m] ++
          ((t0 :: sel').map (·.gen)).flatMap (fun g => rmAll g (lookupJ jk g)) ++ [.compRename 1 t0.gen], { v with s := s' }) := by
      unfold compactEvs
      rw [he]
      simp only [List.map_cons, hfresh]
      rw [show (({ v.s with tables := pre ++ [{ gen := t0.gen, cells := mergeRun (t0 :: sel') (pre.length == 0) }] ++ post } : State).tables.find?
        (fun x => x.gen == t0.gen)) = some merged from hfind]
      rfl
    rw [hevs]
    -- the disks on the way
    have hnopm : ∀ p ∈ d.tables, isPartMeta p.2 = false := by
      intro p hp
      rw [h.tables] at hp
      have := encT_complete _ p hp
      cases hp2 : p.2 with
      | part b => rw [hp2] at this; cases this
      | complete c => rfl
    have hunfl : ∀ c : CompDir, c.flag = none → Good3 d { d with comps := [c] } := by
      intro c hc
      refine ⟨?_, ?_⟩
      · refine { hd with compIds := by simp, oneFlag := ?_, flagOut := ?_, covered := ?_ }
        · show ([c].filter isFlagged).length ≤ 1
          simp [isFlagged, hc]
        · intro c' hc' hfl
          have hc' : c' ∈ [c] := hc'
          simp only [List.mem_singleton] at hc'
          subst hc'
          simp [isFlagged, hc] at hfl
        · intro p hp hpm
          rw [hnopm p hp] at hpm; cases hpm
      · funext k
        simp only [logical_eq, effTables, phase1, List.foldl_cons, List.foldl_nil, finishComp, hc, h.comps]
    let c5 : CompDir := { id := 1, out := .complete cells, flag := some m }
    have hY5ok : DiskOk { d with comps := [c5] } := by
      refine { hd with compIds := by simp, oneFlag := Nat.le_trans (List.length_filter_le _ _) (by simp), flagOut := ?_, covered := ?_ }
      · intro c' hc' _
        have hc' : c' ∈ [c5] := hc'
        simp only [List.mem_singleton] at hc'
        subst hc'
        rfl
      · intro p hp hpm
        rw [hnopm p hp] at hpm; cases hpm
    have hrm : rmInputs m d.tables = encT (pre ++ post) := by
      unfold rmInputs
      rw [h.tables, htab]
      rw [← filter_run pre (t0 :: sel') post (by rw [← htab]; exact h.inv.gens.1)]
      apply List.filter_congr
      intro p _
      by_cases hp : p.1 = t0.gen <;> simp [m, hp]
    have hins : insertT t0.gen (.complete cells) (encT (pre ++ post)) = encT (pre ++ [merged] ++ post) := by
      rw [encT_append, insertT_mid _ _ _ _ ?_ ?_, encT_append, encT_append]
      · simp [encT, merged]
      · intro p hp
        obtain ⟨t, ht, rfl⟩ := List.mem_map.1 hp
        exact hpre_lt t ht
      · intro p hp
        obtain ⟨t, ht, rfl⟩ := List.mem_map.1 hp
        exact hpost_gt t ht
    have hnormY5 : normT { d with comps := [c5] } = encT (pre ++ [merged] ++ post) := by
      show (List.foldl finishComp d.tables [c5]).filter _ = _
      simp only [List.foldl_cons, List.foldl_nil, finishComp, c5]
      rw [hrm, hins]
      exact List.filter_eq_self.2 (encT_complete _)
    have hlogY5 : logical { d with comps := [c5] } = logical d := by
      funext k
      rw [logical_eq, logical_eq, effTables_eq, effTables_nocomp d h.comps]
      have e1 : (norm { d with comps := [c5] }).tables = encT (pre ++ [merged] ++ post) := hnormY5
      rw [e1, tblsOf_encT, h.tables, tblsOf_encT, htab]
      apply rd_congr_vis
      exact vis_tablesGet_merge pre (t0 :: sel') post t0.gen (pre.length == 0)
        (by intro hd0; exact List.eq_nil_of_length_eq_zero (by simpa using hd0)) k
    -- segment 1: up to the flag
    have hS1 : Seg (Good3 d) (fun x => x = d)
        [.compMkdir 1, .compProgress 1, .compComplete 1 cells, .compProgress 1, .compFlag 1 m]
        (fun x => x = { d with comps := [c5] }) := by
      refine Seg.cons (Q := fun x => x = { d with comps := [{ id := 1 }] }) ?_
        (Seg.cons (Q := fun x => x = { d with comps := [{ id := 1 }] }) ?_
          (Seg.cons (Q := fun x => x = { d with comps := [{ id := 1, out := .complete cells }] }) ?_
            (Seg.cons (Q := fun x => x = { d with comps := [{ id := 1, out := .complete cells }] }) ?_
              (Seg.cons (Q := fun x => x = { d with comps := [c5] }) ?_ (Seg.nil ?_)))))
      · intro x hx; subst hx
        refine ⟨⟨hd, rfl⟩, ?_⟩
        simp [applyEv, h.comps]
      · intro x hx
        exact ⟨hx ▸ hunfl _ rfl, by subst hx; rfl⟩
      · intro x hx
        refine ⟨hx ▸ hunfl _ rfl, ?_⟩
        subst hx; simp [applyEv, updC]
      · intro x hx
        exact ⟨hx ▸ hunfl _ rfl, by subst hx; rfl⟩
      · intro x hx
        refine ⟨hx ▸ hunfl _ rfl, ?_⟩
        subst hx; simp [applyEv, updC, c5]
      · intro x hx
        exact ⟨hx ▸ ⟨hY5ok, hlogY5⟩, hx⟩
    -- segment 2: the inputs are deleted
    have hS2 : Seg (Good3 d) (fun x => x = { d with comps := [c5] }) (((t0 :: sel').map (·.gen)).flatMap (fun g => rmAll g (lookupJ jk g)))
        (fun x => x = { d with comps := [c5], tables := encT (pre ++ post) }) := by
      intro x hx
      subst hx
      refine ⟨?_, ?_⟩
      · intro n
        obtain ⟨g1, g2⟩ := input_events_good c5 m rfl (((t0 :: sel').map (·.gen)).flatMap (fun g => rmAll g (lookupJ jk g))) (by
          intro e he
          obtain ⟨g, hg, heg⟩ := List.mem_flatMap.1 he
          refine ⟨g, Or.inl hg, ?_⟩
          unfold rmAll at heg
          rcases List.mem_append.1 heg with (heg | heg)
          · cases hj : lookupJ jk g with
            | none => rw [hj] at heg; cases heg
            | some j =>
              rw [hj] at heg
              simp only [List.mem_singleton] at heg
              exact Or.inr (Or.inr ⟨j, heg⟩)
          · simp only [List.mem_cons, List.not_mem_nil, or_false] at heg
            rcases heg with (rfl | rfl | rfl)
            · exact Or.inl ⟨true, rfl⟩
            · exact Or.inl ⟨false, rfl⟩
            · exact Or.inr (Or.inl rfl)) { d with comps := [c5] } hY5ok rfl n
        exact ⟨g1, (logical_of_norm g2).trans hlogY5⟩
      · rw [applyEvs_rmAll _ (fun g => lookupJ jk g)]
        show ({ d with comps := [c5], tables := d.tables.filter _ } : Disk) = _
        rw [h.tables, htab, filter_run pre (t0 :: sel') post (by rw [← htab]; exact h.inv.gens.1)]
    -- segment 3: the rename
    obtain ⟨hci, hcs, hco, hcc⟩ := compact_inv_stack v.s h.inv sizes
    rw [he] at hci hcs hco hcc
    have hS3 : Seg (Good3 d) (fun x => x = { d with comps := [c5], tables := encT (pre ++ post) })
        [.compRename 1 t0.gen] (fun x => QW x { v with s := s' } junk ro rc tn) := by
      have hY6ok : DiskOk { d with comps := [c5], tables := encT (pre ++ post) } ∧
          logical { d with comps := [c5], tables := encT (pre ++ post) } = logical d := by
        have := (hS2 _ rfl).1 ((((t0 :: sel').map (·.gen)).flatMap (fun g => rmAll g (lookupJ jk g))).length)
        rw [List.take_length, (hS2 _ rfl).2] at this
        exact this
      have hgone : ∀ p ∈ encT (pre ++ post), p.1 ∉ m.inputs ∧ p.1 ≠ m.replacement := by
        intro p hp
        have : p ∈ (encT (pre ++ (t0 :: sel') ++ post)).filter (fun p => !((t0 :: sel').map (·.gen)).contains p.1) := by
          rw [filter_run pre (t0 :: sel') post (by rw [← htab]; exact h.inv.gens.1)]; exact hp
        have h2 := (List.mem_filter.1 this).2
        have h3 : p.1 ∉ (t0 :: sel').map (·.gen) := by simpa using h2
        refine ⟨h3, ?_⟩
        intro heq
        apply h3
        rw [heq]; simp [m]
      obtain ⟨r1, r2⟩ := rename_event_ok { d with comps := [c5], tables := encT (pre ++ post) } hY6ok.1 c5 m rfl rfl hgone
      have hfin : applyEv { d with comps := [c5], tables := encT (pre ++ post) } (.compRename 1 t0.gen) =
          { d with comps := [], tables := encT (pre ++ [merged] ++ post) } := by
        have hl : lookupT t0.gen (encT (pre ++ post)) = none := lookupT_none.2 (fun p hp => (hgone p hp).2)
        simp only [applyEv, List.find?_cons, c5, beq_self_eq_true, hl, Option.isSome_none, Bool.false_eq_true, if_false]
        rw [hins]
        simp [eraseC]
      refine Seg.cons (Q := fun x => x = { d with comps := [], tables := encT (pre ++ [merged] ++ post) }) ?_ (Seg.nil ?_)
      · intro x hx
        exact ⟨hx ▸ hY6ok, by subst hx; exact hfin⟩
      · intro x hx
        have hgood : Good3 d x := by
          rw [hx, ← hfin]
          exact ⟨r1, (logical_of_norm r2).trans hY6ok.2⟩
        refine ⟨hgood, ?_⟩
        subst hx
        have hu_eq : usable s' = usable v.s := rfl
        exact {
          inv := hci
          tables := rfl
          comps := rfl
          walSorted := h.walSorted
          qok := h.qok
          jk := h.jk
          wal := by
            show d.wal = junk ++ liveFiles { v with s := s' } ro rc tn
            rw [h.wal]; rfl
          rok := h.rok
          cok := h.cok
          tnq := h.tnq
          live := h.live
          idle := h.idle }
    exact Seg.append (Seg.append hS1 hS2) hS3

end SST.Proofs.FS
