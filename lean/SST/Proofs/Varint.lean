import SST.Model.Bytes
namespace SST

theorem uvarintEnc_lt (n : Nat) (h : n < 128) : uvarintEnc n = [UInt8.ofNat n] := by
  rw [uvarintEnc]; simp [h]

theorem uvarintEnc_ge (n : Nat) (h : ¬ n < 128) :
    uvarintEnc n = UInt8.ofNat (n % 128 + 128) :: uvarintEnc (n / 128) := by
  rw [uvarintEnc]; simp [h]

theorem uvarintEnc_ne_nil (n : Nat) : uvarintEnc n ≠ [] := by
  by_cases h : n < 128
  · rw [uvarintEnc_lt n h]; simp
  · rw [uvarintEnc_ge n h]; simp

theorem toNat_ofNat_lt (k : Nat) (h : k < 256) : (UInt8.ofNat k).toNat = k := by
  simp [UInt8.toNat_ofNat', Nat.mod_eq_of_lt h]

theorem pow_split (i : Nat) (h : i ≤ 8) : 2 ^ (64 - 7 * i) = 128 * 2 ^ (64 - 7 * (i + 1)) := by
  have : 64 - 7 * i = (64 - 7 * (i + 1)) + 7 := by omega
  rw [this, Nat.pow_add]; omega

theorem uvarintDecAux_enc (n : Nat) : ∀ (rest : Bytes) (i x s : Nat), i ≤ 9 → n < 2 ^ (64 - 7 * i) →
    uvarintDecAux (uvarintEnc n ++ rest) i x s = .ok (x + n * 2 ^ s, i + (uvarintEnc n).length) := by
  induction n using Nat.strongRecOn with
  | _ n ih =>
    intro rest i x s hi hn
    by_cases h : n < 128
    · rw [uvarintEnc_lt n h]
      have hb : (UInt8.ofNat n).toNat = n := toNat_ofNat_lt n (by omega)
      simp only [List.cons_append, List.nil_append, uvarintDecAux, hb, List.length_cons, List.length_nil]
      have h1 : ¬ i ≥ 10 := by omega
      simp only [h1, if_false, h, if_true]
      by_cases h9 : i = 9
      · subst h9
        have : n < 2 := by simpa using hn
        have : ¬ (n > 1) := by omega
        simp [this]
      · simp [h9]
    · rw [uvarintEnc_ge n h]
      have hb : (UInt8.ofNat (n % 128 + 128)).toNat = n % 128 + 128 := toNat_ofNat_lt _ (by omega)
      have hi8 : i ≤ 8 := by
        rcases Nat.lt_or_ge i 9 with h' | h'
        · omega
        · have : i = 9 := by omega
          subst this
          have : n < 2 := by simpa using hn
          omega
      have hsplit := pow_split i hi8
      have hdiv : n / 128 < 2 ^ (64 - 7 * (i + 1)) := by
        apply Nat.div_lt_of_lt_mul; omega
      have hlt : n / 128 < n := Nat.div_lt_self (by omega) (by omega)
      simp only [List.cons_append, uvarintDecAux, hb, List.length_cons]
      have h1 : ¬ i ≥ 10 := by omega
      have h2 : ¬ (n % 128 + 128 < 128) := by omega
      simp only [h1, if_false, h2]
      rw [ih (n / 128) hlt rest (i + 1) _ (s + 7) (by omega) hdiv]
      have hval : x + (n % 128 + 128 - 128) * 2 ^ s + n / 128 * 2 ^ (s + 7) = x + n * 2 ^ s := by
        have e1 : n % 128 + 128 - 128 = n % 128 := by omega
        have e2 : n % 128 + 128 * (n / 128) = n := Nat.mod_add_div n 128
        rw [e1, Nat.pow_add]
        generalize 2 ^ s = p
        generalize n / 128 = q at e2
        generalize n % 128 = r at e2
        subst e2
        grind
      rw [hval]
      have : i + 1 + (uvarintEnc (n / 128)).length = i + ((uvarintEnc (n / 128)).length + 1) := by omega
      rw [this]

/-- `binary.ReadUvarint ∘ binary.PutUvarint = id` for every 64-bit value, whatever follows -/
theorem uvarintDec_enc (n : Nat) (rest : Bytes) (hn : n < 2 ^ 64) :
    uvarintDec (uvarintEnc n ++ rest) = .ok (n, (uvarintEnc n).length) := by
  have := uvarintDecAux_enc n rest 0 0 0 (by omega) (by simpa using hn)
  simpa [uvarintDec] using this

end SST
