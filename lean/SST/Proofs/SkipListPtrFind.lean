/-
Pointer-level skip list: the representation relation `Rep` / `WF` and the descent
`findGreaterOrEqual` (returned node and `prevTable`).
-/
import SST.Proofs.SkipListPtrBasic
namespace SST.SkipListPtr
open SST SST.Proofs

variable {K V : Type}

/-! ### The representation relation -/

/-- "linked into level `l`" -/
def lvl (l : Nat) (e : Nat × SNode K V) : Bool := decide (l < e.2.height)

/-- addresses of the entries linked into level `l` -/
def idxAt (o : List (Nat × SNode K V)) (l : Nat) : List Nat := (o.filter (lvl l)).map (·.1)

theorem idxAt_append (a b : List (Nat × SNode K V)) (l : Nat) :
    idxAt (a ++ b) l = idxAt a l ++ idxAt b l := by
  simp [idxAt]

/-- `order` = the (address, abstract node) pairs in level-0 order.  Every level-`l` chain from the head
visits exactly the addresses of the entries of height > `l`, in order. -/
structure Rep (cmp : K → K → Ordering) (pl : PList K V) (order : List (Nat × SNode K V)) : Prop where
  nodup : (order.map (·.1)).Nodup
  node : ∀ e ∈ order, ∃ n : PNode K V, pl.arena[e.1]? = some n ∧ e.2 = toS n
  headLen : pl.head.length = pl.maxHeight
  mh : 1 ≤ pl.maxHeight
  hts : ∀ e ∈ order, 1 ≤ e.2.height ∧ e.2.height ≤ pl.maxHeight
  chain : ∀ l, l < pl.maxHeight →
    ∃ p, pl.head[l]? = some p ∧ Seg pl.arena l p (idxAt order l) none
  size : pl.size = order.length
  sorted : Sorted cmp (order.map (·.2))

/-- well-formed pointer structure -/
def WF (cmp : K → K → Ordering) (pl : PList K V) : Prop := ∃ order, Rep cmp pl order

/-- per-level predecessor of the position after the entries `o`: the last entry of `o` linked into
level `l`, or the head -/
def predRef (o : List (Nat × SNode K V)) (l : Nat) : Ref := lastRef (idxAt o l).getLast?

/-- `x` is the last node of `done` (the head if `done` is empty) and is linked into `level` -/
def XInv (done : List (Nat × SNode K V)) (x : Ref) (level : Nat) : Prop :=
  (done = [] ∧ x = .head) ∨ ∃ d e, done = d ++ [e] ∧ x = .node e.1 ∧ level < e.2.height

theorem predRef_of_xinv {done : List (Nat × SNode K V)} {x : Ref} {level l : Nat}
    (hx : XInv done x level) (hl : l ≤ level) : predRef done l = x := by
  rcases hx with ⟨rfl, rfl⟩ | ⟨d, e, rfl, rfl, hlt⟩
  · rfl
  · have : lvl l e = true := by simp [lvl]; omega
    simp [predRef, idxAt, List.filter_append, this, lastRef]

theorem predRef_append_low {done more : List (Nat × SNode K V)} {l : Nat}
    (hlow : ∀ e ∈ more, e.2.height ≤ l) : predRef (done ++ more) l = predRef done l := by
  have : idxAt more l = [] := by
    simp only [idxAt, List.map_eq_nil_iff, List.filter_eq_nil_iff]
    intro e he
    have := hlow e he
    simp [lvl]; omega
  simp [predRef, idxAt_append, this]

theorem XInv.mono {done : List (Nat × SNode K V)} {x : Ref} {level l : Nat}
    (hx : XInv done x level) (hl : l ≤ level) : XInv done x l := by
  rcases hx with h | ⟨d, e, h1, h2, h3⟩
  · exact Or.inl h
  · exact Or.inr ⟨d, e, h1, h2, by omega⟩

/-- `x.Next(level)` = the first entry after `x` that is linked into `level` -/
theorem nextOf_zip {cmp : K → K → Ordering} {pl : PList K V} {order done todo : List (Nat × SNode K V)}
    {x : Ref} {level : Nat} (hrep : Rep cmp pl order) (ho : order = done ++ todo)
    (hx : XInv done x level) (hlv : level < pl.maxHeight) :
    nextOf pl x level = some ((todo.find? (lvl level)).map (·.1)) := by
  obtain ⟨p, hp, hs⟩ := hrep.chain level hlv
  rw [ho, idxAt_append] at hs
  have := nextOf_pred hp hs
  have hpr : lastRef (idxAt done level).getLast? = x := predRef_of_xinv hx (Nat.le_refl _)
  rw [hpr] at this
  rw [this, idxAt, List.head?_map, List.head?_filter]

/-! ### One iteration of the descent -/

theorem next_level0 {cmp : K → K → Ordering} {pl : PList K V} {order o1 o2 more : List (Nat × SNode K V)}
    (hrep : Rep cmp pl order) (ho : order = o1 ++ o2) (hsub : ∀ e ∈ more, e ∈ o1)
    (hlow : ∀ e ∈ more, e.2.height ≤ 0) :
    ((more ++ o2).find? (lvl 0)).map (·.1) = o2.head?.map (·.1) := by
  have hm : more = [] := by
    cases more with
    | nil => rfl
    | cons e t =>
      have h1 := (hrep.hts e (by rw [ho]; exact List.mem_append_left _ (hsub e List.mem_cons_self))).1
      have h2 := hlow e List.mem_cons_self
      omega
  subst hm
  cases o2 with
  | nil => rfl
  | cons e t =>
    have h1 := (hrep.hts e (by rw [ho]; exact List.mem_append_right _ List.mem_cons_self)).1
    have : lvl 0 e = true := by simp [lvl]; omega
    simp [this]

theorem step_cases {cmp : K → K → Ordering} {pl : PList K V}
    {order o1 o2 done more : List (Nat × SNode K V)} {key : K}
    (hrep : Rep cmp pl order) (ho : order = o1 ++ o2)
    (hlo : ∀ e ∈ o1, cmp key e.2.key = .gt) (hge : ∀ e ∈ o2, cmp key e.2.key ≠ .gt)
    (h1 : o1 = done ++ more) (level : Nat) :
    (∃ mid e' more', more = mid ++ e' :: more' ∧ level < e'.2.height ∧
        advance? cmp pl key (((more ++ o2).find? (lvl level)).map (·.1)) = some (some e'.1)) ∨
    (advance? cmp pl key (((more ++ o2).find? (lvl level)).map (·.1)) = some none ∧
      (∀ e ∈ more, e.2.height ≤ level) ∧
      (level = 0 → ((more ++ o2).find? (lvl level)).map (·.1) = o2.head?.map (·.1))) := by
  have hsub : ∀ e ∈ more, e ∈ o1 := fun e he => by rw [h1]; exact List.mem_append_right _ he
  cases hfind : (more ++ o2).find? (lvl level) with
  | none =>
    right
    have hall := List.find?_eq_none.1 hfind
    have hlow : ∀ e ∈ more, e.2.height ≤ level := by
      intro e he
      have := hall e (List.mem_append_left _ he)
      simp [lvl] at this; omega
    refine ⟨rfl, hlow, ?_⟩
    intro h0
    subst h0
    rw [← hfind]
    exact next_level0 hrep ho hsub hlow
  | some e' =>
    obtain ⟨hp, as, bs, heq, has⟩ := List.find?_eq_some_iff_append.1 hfind
    have hlt : level < e'.2.height := by simpa [lvl] using hp
    have hmem : e' ∈ order := by
      rw [ho, h1, List.append_assoc, heq]; simp
    obtain ⟨n, hn, hs⟩ := hrep.node e' hmem
    have hkey : n.key = e'.2.key := by rw [hs]; rfl
    have hadv : advance? cmp pl key (some e'.1)
        = if cmp key e'.2.key == .gt then some (some e'.1) else some none := by
      simp only [advance?, hn, hkey]
    have hlowas : ∀ a ∈ as, a.2.height ≤ level := by
      intro a ha
      have := has a ha
      simp [lvl] at this; omega
    rcases List.append_eq_append_iff.1 heq with ⟨a', ha1, ha2⟩ | ⟨b', hb1, hb2⟩
    · -- `e'` lies in `o2`
      have he2 : e' ∈ o2 := by rw [ha2]; simp
      right
      have hng := hge e' he2
      have hlow : ∀ e ∈ more, e.2.height ≤ level := fun e he =>
        hlowas e (by rw [ha1]; exact List.mem_append_left _ he)
      refine ⟨?_, hlow, ?_⟩
      · simp only [Option.map_some, hadv]
        simp [hng]
      · intro h0; subst h0
        rw [← hfind]; exact next_level0 hrep ho hsub hlow
    · rcases List.cons_eq_append_iff.1 hb2 with ⟨hb', ho2⟩ | ⟨b'', hb', _⟩
      · -- `more = as`, `e'` is the head of `o2`
        have he2 : e' ∈ o2 := by rw [ho2]; simp
        right
        have hng := hge e' he2
        have hlow : ∀ e ∈ more, e.2.height ≤ level := fun e he =>
          hlowas e (by rw [hb1, hb'] at he; simpa using he)
        refine ⟨?_, hlow, ?_⟩
        · simp only [Option.map_some, hadv]
          simp [hng]
        · intro h0; subst h0
          rw [← hfind]; exact next_level0 hrep ho hsub hlow
      · -- `e'` lies in `more`: it is smaller than the key, move right
        left
        have hem : e' ∈ more := by rw [hb1, hb']; simp
        have hgt := hlo e' (hsub e' hem)
        refine ⟨as, e', b'', by rw [hb1, hb'], hlt, ?_⟩
        simp only [Option.map_some, hadv]
        simp [hgt]

/-! ### `prevTable` bookkeeping -/

/-- slots below `n` hold the per-level predecessors of the position after `o1`, the others are untouched -/
def PtRel (o1 : List (Nat × SNode K V)) (n : Nat) (pt pt' : Option (List (Option Ref))) : Prop :=
  (pt = none → pt' = none) ∧
  ∀ t, pt = some t → ∃ t', pt' = some t' ∧ t'.length = t.length ∧
    (∀ l, l < n → t'[l]? = some (some (predRef o1 l))) ∧ (∀ l, n ≤ l → t'[l]? = t[l]?)

theorem PtRel.refl (o1 : List (Nat × SNode K V)) (pt : Option (List (Option Ref))) :
    PtRel o1 0 pt pt :=
  ⟨fun h => h, fun t ht => ⟨t, ht, rfl, fun _ h => absurd h (Nat.not_lt_zero _), fun _ _ => rfl⟩⟩

theorem recordPrev_spec {pt : Option (List (Option Ref))} {level mh : Nat} (x : Ref)
    (hpt : ∀ t, pt = some t → t.length = mh) (hlv : level < mh) :
    ∃ pt1, recordPrev pt level x = some pt1 ∧ (pt = none → pt1 = none) ∧
      (∀ t, pt = some t → pt1 = some (t.set level (some x))) := by
  cases pt with
  | none => exact ⟨none, rfl, fun _ => rfl, nofun⟩
  | some t =>
    have := hpt t rfl
    refine ⟨some (t.set level (some x)), ?_, nofun, ?_⟩
    · simp only [recordPrev]; rw [if_pos (by omega)]
    · intro t' ht'; cases ht'; rfl

theorem ptrel_record {o1 : List (Nat × SNode K V)} {level mh : Nat} {x : Ref}
    {pt pt1 pt2 : Option (List (Option Ref))}
    (hpt : ∀ t, pt = some t → t.length = mh) (hlv : level < mh)
    (h1n : pt = none → pt1 = none) (h1s : ∀ t, pt = some t → pt1 = some (t.set level (some x)))
    (hx : predRef o1 level = x) (hrel : PtRel o1 level pt1 pt2) : PtRel o1 (level + 1) pt pt2 := by
  refine ⟨fun h => hrel.1 (h1n h), ?_⟩
  intro t ht
  have hlen := hpt t ht
  obtain ⟨t', ht', hl', hlow, hhigh⟩ := hrel.2 _ (h1s t ht)
  refine ⟨t', ht', by rw [hl']; simp, ?_, ?_⟩
  · intro l hl
    by_cases hll : l < level
    · exact hlow l hll
    · have : l = level := by omega
      subst this
      rw [hhigh l (Nat.le_refl _), List.getElem?_set_self (by omega), hx]
  · intro l hl
    rw [hhigh l (by omega), List.getElem?_set_ne (by omega)]

/-! ### The descent -/

theorem findGEAux_spec {cmp : K → K → Ordering} {pl : PList K V}
    {order o1 o2 : List (Nat × SNode K V)} {key : K}
    (hrep : Rep cmp pl order) (ho : order = o1 ++ o2)
    (hlo : ∀ e ∈ o1, cmp key e.2.key = .gt) (hge : ∀ e ∈ o2, cmp key e.2.key ≠ .gt) :
    ∀ (fuel : Nat) (done more : List (Nat × SNode K V)) (x : Ref) (level : Nat)
      (pt : Option (List (Option Ref))),
      o1 = done ++ more → XInv done x level → level < pl.maxHeight →
      more.length + level + 1 ≤ fuel → (∀ t, pt = some t → t.length = pl.maxHeight) →
      ∃ pt', findGEAux cmp pl key fuel x level pt = some (o2.head?.map (·.1), pt') ∧
        PtRel o1 (level + 1) pt pt' := by
  intro fuel
  induction fuel with
  | zero => intro done more x level pt _ _ _ hf _; omega
  | succ fuel ih =>
    intro done more x level pt h1 hx hlv hf hpt
    have ho' : order = done ++ (more ++ o2) := by rw [ho, h1, List.append_assoc]
    simp only [findGEAux, nextOf_zip hrep ho' hx hlv]
    rcases step_cases hrep ho hlo hge h1 level with
      ⟨mid, e', more', hm, hlt, hadv⟩ | ⟨hadv, hlow, h0⟩
    · simp only [hadv]
      refine ih (done ++ mid ++ [e']) more' (.node e'.1) level pt ?_ ?_ hlv ?_ hpt
      · rw [h1, hm]; simp
      · exact Or.inr ⟨done ++ mid, e', rfl, rfl, hlt⟩
      · have : more.length = mid.length + (more'.length + 1) := by rw [hm]; simp
        omega
    · simp only [hadv]
      obtain ⟨pt1, hrec, h1n, h1s⟩ := recordPrev_spec x hpt hlv
      simp only [hrec]
      have hpred : predRef o1 level = x := by
        rw [h1, predRef_append_low hlow]; exact predRef_of_xinv hx (Nat.le_refl _)
      by_cases hl0 : level = 0
      · subst hl0
        simp only [if_true]
        exact ⟨pt1, by rw [h0 rfl], ptrel_record hpt hlv h1n h1s hpred (PtRel.refl o1 pt1)⟩
      · simp only [hl0, if_false]
        have hpt1 : ∀ t, pt1 = some t → t.length = pl.maxHeight := by
          intro t ht
          cases pt with
          | none => rw [h1n rfl] at ht; cases ht
          | some t0 =>
            rw [h1s t0 rfl] at ht; cases ht
            simp [hpt t0 rfl]
        obtain ⟨pt2, hres, hrel⟩ := ih done more x (level - 1) pt1 h1 (hx.mono (by omega))
          (by omega) (by omega) hpt1
        refine ⟨pt2, hres, ?_⟩
        have : level - 1 + 1 = level := by omega
        rw [this] at hrel
        exact ptrel_record hpt hlv h1n h1s hpred hrel

/-- `findGreaterOrEqual` on a well-formed structure: with `order = o1 ++ o2`, `o1` = the entries smaller
than `key`: the returned node is the first entry of `o2` (nil if none), never a panic, the fuel
suffices, and every `prevTable` slot holds the level's predecessor. -/
theorem findGE_spec {cmp : K → K → Ordering} {pl : PList K V}
    {order o1 o2 : List (Nat × SNode K V)} {key : K}
    (hrep : Rep cmp pl order) (ho : order = o1 ++ o2)
    (hlo : ∀ e ∈ o1, cmp key e.2.key = .gt) (hge : ∀ e ∈ o2, cmp key e.2.key ≠ .gt)
    (pt : Option (List (Option Ref))) (hpt : ∀ t, pt = some t → t.length = pl.maxHeight) :
    ∃ pt', findGE cmp pl key pt = some (o2.head?.map (·.1), pt') ∧ PtRel o1 pl.maxHeight pt pt' := by
  have hmh := hrep.mh
  have hsz : pl.size = o1.length + o2.length := by rw [hrep.size, ho]; simp
  obtain ⟨pt', h1, h2⟩ := findGEAux_spec hrep ho hlo hge (pl.size + pl.maxHeight + 1) [] o1 .head
    (pl.maxHeight - 1) pt rfl (Or.inl ⟨rfl, rfl⟩) (by omega) (by omega) hpt
  have : pl.maxHeight - 1 + 1 = pl.maxHeight := by omega
  rw [this] at h2
  exact ⟨pt', h1, h2⟩

end SST.SkipListPtr
