/-
L7 with I/O faults, the compaction cycle: faults are reported and nothing is installed; a successful
generalised cycle is the fault-free cycle.
-/
import SST.Proofs.StackFault
namespace SST.Proofs.Stack
open SST SST.Stack SST.DBM Generated

theorem compactF_read_fault (P : Params) (cf : CompactFaults) (c : Stack.State) (si : SelInfo)
    (hsel : compactSel P c = .ok (some si))
    (h : ∃ i ∈ attachReads si.scans cf.reads, i.endErr ≠ none) :
    ∃ f, compactStepF P cf c = .error f := by
  obtain ⟨f, hf⟩ := planOf_read_fault cf.reads si h
  unfold compactStepF compactPlanF
  simp only [hsel, hf]
  exact ⟨_, rfl⟩

theorem compactF_write_close_fault (P : Params) (cf : CompactFaults) (c : Stack.State) (pl : Plan)
    (hpl : compactPlanF P cf.reads c = .ok (some pl))
    (h : (∃ i, i < pl.out.length ∧ cf.writes.getD i .none ≠ .none) ∨ closeErrs cf.close ≠ []) :
    ∃ f, compactStepF P cf c = .error f := by
  have : ∃ f, writeAndOpenF P pl.gen (pl.out.map fun p => ({ key := p.1, value := p.2, fault := .none } : Call))
      cf.writes cf.close .compactWrite .compactClose .compactLoad = .error f := by
    rcases h with ⟨i, hi, hf⟩ | hc
    · exact wF_write_fault _ _ _ _ _ _ _ _ ⟨i, by simpa using hi, hf⟩
    · exact wF_close_fault _ _ _ _ _ _ _ _ hc
  obtain ⟨f, hf⟩ := this
  unfold compactStepF
  simp only [hpl, hf]
  exact ⟨_, rfl⟩

theorem compactF_nofault (P : Params) (c : Stack.State) :
    compactStepF P {} c = liftFail (Stack.compactStep P c) := by
  unfold compactStepF Stack.compactStep
  rw [compactPlanF_nil]
  cases compactPlan P c with
  | error f => rfl
  | ok o =>
    cases o with
    | none => rfl
    | some pl =>
      simp only [wF_nofault]
      cases writeAndOpen P pl.gen _ .compactWrite .compactLoad <;> rfl

/-- a generalised cycle that reports success consumed no fault: it is the fault-free cycle, result included -/
theorem compactF_ok_eq {P : Params} {c : Stack.State} {s : DBM.State} (h : Rel P c s) (cf : CompactFaults)
    (r : Stack.State × List Nat) (hok : compactStepF P cf c = .ok r) : Stack.compactStep P c = .ok r := by
  unfold compactStepF at hok
  unfold Stack.compactStep
  rw [← compactPlanF_nil]
  unfold compactPlanF at hok ⊢
  cases hsel : compactSel P c with
  | error f => rw [hsel] at hok; cases hok
  | ok o =>
    rw [hsel] at hok
    cases o with
    | none => simp only at hok ⊢; cases hok; rfl
    | some si =>
      simp only at hok ⊢
      cases hF : planOf cf.reads si with
      | error f => rw [hF] at hok; cases hok
      | ok plF =>
        rw [hF] at hok
        simp only at hok
        -- the fault-free plan exists in related states
        have h0 : ∃ pl, planOf [] si = .ok pl := by
          have hspec := compactPlan_spec h
          rw [← compactPlanF_nil] at hspec
          unfold compactPlanF at hspec
          rw [hsel] at hspec
          simp only at hspec
          cases hp : planOf [] si with
          | ok pl => exact ⟨pl, rfl⟩
          | error f =>
            rw [hp] at hspec
            rcases hspec with ⟨h1, _⟩ | ⟨_, _, _, h1, _⟩ <;> cases h1
        obtain ⟨pl, hp⟩ := h0
        have heq := planOf_ok_eq cf.reads si plF pl hF hp
        subst heq
        rw [hp]
        simp only
        cases hw : writeAndOpenF P plF.gen
            (plF.out.map fun p => ({ key := p.1, value := p.2, fault := .none } : Call))
            cf.writes cf.close .compactWrite .compactClose .compactLoad with
        | error f => rw [hw] at hok; cases hok
        | ok merged =>
          rw [hw] at hok
          obtain ⟨_, _, h3⟩ := wF_ok _ _ _ _ _ _ _ _ merged (kvCall_fault plF.out) hw
          rw [h3]
          cases hok; rfl

end SST.Proofs.Stack
