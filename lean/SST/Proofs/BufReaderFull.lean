/-
Layer A, continued: the counting wrapper, `io.ReadFull`, `io.ReadAll` and call sequences refine the raw stream.
-/
import SST.Proofs.BufReader
namespace SST.Buf
open SST Generated

/-- the counting reader `c` stands for the raw stream `s` with `k` bytes consumed so far.
The count is only claimed for underlying readers that never return data together with an error (`ed = false`). -/
structure CRd.Rep (cap : Nat) (ed : Bool) (c : CRd) (s : Bytes) (k : Nat) : Prop where
  inv : c.rd.Inv cap ed
  stream : c.rd.stream = s
  count : ed = false → c.count = k

def CRd.schedLen (c : CRd) : Nat := c.rd.under.sched.length

theorem crd_readByte_cons {cap : Nat} {ed : Bool} {c : CRd} {x : UInt8} {t : Bytes} {k : Nat}
    (h : c.Rep cap ed (x :: t) k) :
    ∃ c', c.readByte = (.ok x, c') ∧ c'.Rep cap ed t (k + 1) ∧ c'.schedLen ≤ c.schedLen := by
  obtain ⟨b', h1, h2, h3, h4⟩ := rd_readByte_cons cap ed c.rd x t h.inv h.stream
  refine ⟨{ rd := b', count := c.count + 1 }, by simp [CRd.readByte, h1], ⟨h2, h3, ?_⟩, h4⟩
  intro he; simp [h.count he]

theorem crd_readByte_nil {cap : Nat} {ed : Bool} {c : CRd} {k : Nat} (h : c.Rep cap ed [] k) :
    ∃ c', c.readByte = (.error (.e .eof), c') ∧ c'.Rep cap ed [] k ∧ c'.schedLen ≤ c.schedLen := by
  obtain ⟨b', h1, h2, h3, h4⟩ := rd_readByte_nil cap ed c.rd h.inv h.stream
  exact ⟨{ rd := b', count := c.count }, by simp [CRd.readByte, h1], ⟨h2, h3, h.count⟩, h4⟩

theorem crd_read_spec {cap : Nat} {ed : Bool} {c : CRd} {s : Bytes} {k : Nat} (n : Nat) (hn : 0 < n)
    (h : c.Rep cap ed s k) :
    ∃ d e c' s', c.read n = ⟨d, e, c'⟩ ∧ s = d ++ s' ∧ c'.Rep cap ed s' (k + d.length) ∧ d.length ≤ n ∧
      (e = none ∨ (e = some (.e .eof) ∧ s' = [])) ∧ c'.schedLen ≤ c.schedLen ∧
      (d ≠ [] ∨ e = some (.e .eof) ∨ c'.schedLen < c.schedLen) := by
  obtain ⟨d, e, b', h1, h2, h3, h4, h5, h6, h7⟩ := rd_read_spec cap ed c.rd n hn h.inv
  refine ⟨d, e, { rd := b', count := if e.isNone then c.count + d.length else c.count }, b'.stream, ?_, ?_,
    ⟨h2, rfl, ?_⟩, h4, ?_, h6, h7⟩
  · simp [CRd.read, h1]
  · rw [← h.stream, h3]
  · intro hed
    rcases h5 with rfl | ⟨rfl, _, hd | hd⟩
    · simp [h.count hed]
    · subst hd; simp [h.count hed]
    · rw [hed] at hd; cases hd
  · rcases h5 with rfl | ⟨rfl, hs, _⟩
    · exact Or.inl rfl
    · exact Or.inr ⟨rfl, hs⟩

/-! ## io.ReadFull -/

/-- what `ReadFull(n)` yields when `acc` has been read already and `s` is what is left -/
def fullOut (n : Nat) (acc s : Bytes) : Bytes × Option XErr × Bytes :=
  if n - acc.length ≤ s.length then (acc ++ s.take (n - acc.length), none, s.drop (n - acc.length))
  else (acc ++ s, some (if (acc ++ s).length = 0 then .e .eof else .e .unexpectedEof), [])

theorem fullOut_step (n : Nat) (acc d s : Bytes) (hd : d.length ≤ n - acc.length) :
    fullOut n acc (d ++ s) = fullOut n (acc ++ d) s := by
  unfold fullOut
  have h1 : n - (acc ++ d).length = n - acc.length - d.length := by simp; omega
  by_cases hc : n - acc.length ≤ (d ++ s).length
  · have hc' : n - (acc ++ d).length ≤ s.length := by
      rw [h1]; simp at hc; omega
    rw [if_pos hc, if_pos hc', h1]
    have ht : (d ++ s).take (n - acc.length) = d ++ s.take (n - acc.length - d.length) := by
      rw [List.take_append, List.take_of_length_le hd]
    have hdr : (d ++ s).drop (n - acc.length) = s.drop (n - acc.length - d.length) := by
      rw [List.drop_append, List.drop_of_length_le hd]; simp
    rw [ht, hdr, List.append_assoc]
  · have hc' : ¬ n - (acc ++ d).length ≤ s.length := by
      rw [h1]; simp at hc; omega
    rw [if_neg hc, if_neg hc', List.append_assoc]

theorem fullOut_len (n : Nat) (acc s : Bytes) : acc.length ≤ (fullOut n acc s).1.length := by
  unfold fullOut; split <;> simp

theorem fullOut_nil (n : Nat) (s : Bytes) : fullOut n [] s = specFull s n := by
  unfold fullOut specFull
  by_cases h : n ≤ s.length
  · simp [h]
  · have h' : ¬ n - ([] : Bytes).length ≤ s.length := by simpa using h
    rw [if_neg h', if_neg h]
    by_cases h0 : s.length = 0
    · have : s = [] := List.eq_nil_of_length_eq_zero h0
      subst this; simp
    · simp [h0]

theorem readFullLoop_spec (cap : Nat) (ed : Bool) (n : Nat) : ∀ (f : Nat) (c : CRd) (s : Bytes) (k : Nat)
    (acc : Bytes), c.Rep cap ed s k → acc.length ≤ n → (n - acc.length) + c.schedLen + 1 ≤ f →
    ∃ c', c.readFullLoop f n acc = ⟨(fullOut n acc s).1, (fullOut n acc s).2.1, c'⟩ ∧
      c'.Rep cap ed (fullOut n acc s).2.2 (k + ((fullOut n acc s).1.length - acc.length)) ∧
      c'.schedLen ≤ c.schedLen := by
  intro f
  induction f with
  | zero => intro c s k acc _ _ h; omega
  | succ f ih =>
    intro c s k acc hrep hacc hf
    by_cases hlt : acc.length < n
    · obtain ⟨d, e, c', s', h1, h2, h3, h4, h5, h6, h7⟩ := crd_read_spec (n - acc.length) (by omega) hrep
      subst h2
      rcases h5 with rfl | ⟨rfl, hs'⟩
      · -- no error: go round again
        have hfuel : (n - (acc ++ d).length) + c'.schedLen + 1 ≤ f := by
          rcases h7 with h | h | h
          · have := List.length_pos_iff.mpr h; simp; omega
          · cases h
          · simp; omega
        obtain ⟨c'', g1, g2, g3⟩ := ih c' s' (k + d.length) (acc ++ d) h3 (by simp; omega) hfuel
        rw [← fullOut_step n acc d s' h4] at g1 g2
        refine ⟨c'', ?_, ?_, by omega⟩
        · simp only [CRd.readFullLoop, if_pos hlt, h1]; exact g1
        · have hl := fullOut_len n (acc ++ d) s'
          rw [← fullOut_step n acc d s' h4] at hl
          have : k + d.length + ((fullOut n acc (d ++ s')).1.length - (acc ++ d).length) =
              k + ((fullOut n acc (d ++ s')).1.length - acc.length) := by
            simp at hl ⊢; omega
          rw [← this]; exact g2
      · -- EOF from the reader: the loop ends
        subst hs'
        refine ⟨c', ?_, ?_, h6⟩
        · simp only [CRd.readFullLoop, if_pos hlt, h1, finishFull, List.append_nil]
          unfold fullOut
          by_cases hge : (acc ++ d).length ≥ n
          · have hd : d.length = n - acc.length := by simp at hge; omega
            rw [if_pos hge, if_pos (by omega), ← hd]; simp
          · have hnot : ¬ n - acc.length ≤ d.length := by simp at hge; omega
            rw [if_neg hge, if_neg hnot]
            by_cases h0 : (acc ++ d).length > 0
            · rw [if_pos ⟨h0, trivial⟩, if_neg (by omega)]
            · rw [if_neg (by intro hh; exact h0 hh.1), if_pos (by omega)]
        · have : (fullOut n acc (d ++ [])).2.2 = [] ∧
              (fullOut n acc (d ++ [])).1.length - acc.length = d.length := by
            unfold fullOut
            split
            · rename_i hc
              simp at hc
              have hd : d.length = n - acc.length := by omega
              simp [← hd]
            · simp
          rw [this.1, this.2]; exact h3
    · have hacc' : acc.length = n := by omega
      refine ⟨c, ?_, ?_, Nat.le_refl _⟩
      · simp only [CRd.readFullLoop, if_neg hlt, finishFull, ge_iff_le]
        rw [if_pos (by omega)]
        simp [fullOut, hacc']
      · have : (fullOut n acc s).2.2 = s ∧ (fullOut n acc s).1.length - acc.length = 0 := by
          simp [fullOut, hacc']
        rw [this.1, this.2]; exact hrep

/-- `io.ReadFull` over the stack = the next `n` bytes of the raw stream -/
theorem readFull_spec {cap : Nat} {ed : Bool} {c : CRd} {s : Bytes} {k : Nat} (n : Nat) (h : c.Rep cap ed s k) :
    ∃ c', c.readFull n = ⟨(specFull s n).1, (specFull s n).2.1, c'⟩ ∧
      c'.Rep cap ed (specFull s n).2.2 (k + (specFull s n).1.length) ∧ c'.schedLen ≤ c.schedLen := by
  obtain ⟨c', h1, h2, h3⟩ := readFullLoop_spec cap ed n (n + c.rd.under.sched.length + 1) c s k [] h
    (by simp) (by simp [CRd.schedLen])
  rw [fullOut_nil] at h1 h2
  exact ⟨c', h1, by simpa using h2, h3⟩

/-! ## io.ReadAll -/

theorem readAllLoop_spec (cap : Nat) (ed : Bool) (grow : Nat → Nat) (hg : ∀ x, x < grow x) :
    ∀ (f : Nat) (c : CRd) (s : Bytes) (k : Nat) (bcap : Nat) (acc : Bytes), c.Rep cap ed s k →
    acc.length < bcap → s.length + c.schedLen + 1 ≤ f →
    ∃ c', c.readAllLoop grow f bcap acc = ⟨acc ++ s, none, c'⟩ ∧ c'.Rep cap ed [] (k + s.length) ∧
      c'.schedLen ≤ c.schedLen := by
  intro f
  induction f with
  | zero => intro c s k bcap acc _ _ h; omega
  | succ f ih =>
    intro c s k bcap acc hrep hacc hf
    obtain ⟨d, e, c', s', h1, h2, h3, h4, h5, h6, h7⟩ := crd_read_spec (bcap - acc.length) (by omega) hrep
    subst h2
    rcases h5 with rfl | ⟨rfl, hs'⟩
    · have hfuel : s'.length + c'.schedLen + 1 ≤ f := by
        rcases h7 with h | h | h
        · have := List.length_pos_iff.mpr h; simp at hf; omega
        · cases h
        · simp at hf; omega
      have hacc' : (acc ++ d).length < (if (acc ++ d).length = bcap then grow bcap else bcap) := by
        split
        · rename_i heq; rw [heq]; exact hg bcap
        · rename_i hne; simp at hne ⊢; omega
      obtain ⟨c'', g1, g2, g3⟩ := ih c' s' (k + d.length) _ (acc ++ d) h3 hacc' hfuel
      refine ⟨c'', ?_, ?_, by omega⟩
      · simp only [CRd.readAllLoop, h1]; rw [g1]; simp
      · have : k + d.length + s'.length = k + (d ++ s').length := by simp; omega
        rw [← this]; exact g2
    · subst hs'
      refine ⟨c', ?_, ?_, h6⟩
      · simp only [CRd.readAllLoop, h1, if_true, List.append_nil]
      · simpa using h3

/-- `io.ReadAll` over the stack = everything that is left, no error -/
theorem readAll_spec {cap : Nat} {ed : Bool} {c : CRd} {s : Bytes} {k : Nat} (grow : Nat → Nat)
    (hg : ∀ x, x < grow x) (h : c.Rep cap ed s k) :
    ∃ c', c.readAll grow = ⟨s, none, c'⟩ ∧ c'.Rep cap ed [] (k + s.length) := by
  have hlen : s.length = c.rd.pend.length + c.rd.under.rem.length := by
    rw [← h.stream]; simp [Rd.stream]
  obtain ⟨c', h1, h2, _⟩ := readAllLoop_spec cap ed grow hg
    (c.rd.pend.length + c.rd.under.rem.length + c.rd.under.sched.length + 2) c s k 512 [] h (by simp)
    (by simp [CRd.schedLen]; omega)
  exact ⟨c', by simpa [CRd.readAll] using h1, h2⟩

/-! ## sequences of calls -/

theorem calls_refine_aux (cap : Nat) (ed : Bool) : ∀ (calls : List Call) (c : CRd) (s : Bytes) (k : Nat),
    c.Rep cap ed s k →
    (runCalls c calls).map CallRes.erase = (specCalls s k calls).map CallRes.erase ∧
    (ed = false → runCalls c calls = specCalls s k calls) := by
  intro calls
  induction calls with
  | nil => intro c s k _; simp [runCalls, specCalls]
  | cons call calls ih =>
    intro c s k hrep
    cases call with
    | readByte =>
      cases s with
      | nil =>
        obtain ⟨c', h1, h2, _⟩ := crd_readByte_nil hrep
        have := ih c' [] k h2
        refine ⟨?_, fun hed => ?_⟩
        · simp only [runCalls, h1, specCalls, specByte, List.map_cons, this.1, CallRes.erase]
        · simp only [runCalls, h1, specCalls, specByte, this.2 hed, h2.count hed]
      | cons x t =>
        obtain ⟨c', h1, h2, _⟩ := crd_readByte_cons hrep
        have := ih c' t (k + 1) h2
        refine ⟨?_, fun hed => ?_⟩
        · simp only [runCalls, h1, specCalls, specByte, List.map_cons, this.1, CallRes.erase]
        · simp only [runCalls, h1, specCalls, specByte, this.2 hed, h2.count hed]
    | readFull n =>
      obtain ⟨c', h1, h2, _⟩ := readFull_spec n hrep
      have := ih c' _ _ h2
      refine ⟨?_, fun hed => ?_⟩
      · simp only [runCalls, h1, specCalls, List.map_cons, this.1, CallRes.erase]
      · simp only [runCalls, h1, specCalls, this.2 hed, h2.count hed]

end SST.Buf
