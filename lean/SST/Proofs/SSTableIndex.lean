import SST.Model.SSTable
import SST.Spec.SSTable
import SST.Proofs.SkipList
namespace SST.Proofs.Sst
open SST SkipList

/-! ## `bytes.Compare` is a lawful comparator -/

theorem bytesCmp_refl : ∀ a : Bytes, bytesCmp a a = .eq := by
  intro a
  induction a with
  | nil => rfl
  | cons x xs ih => simp [bytesCmp, ih]

theorem bytesCmp_swap : ∀ a b : Bytes, bytesCmp a b = (bytesCmp b a).swap := by
  intro a
  induction a with
  | nil => intro b; cases b <;> rfl
  | cons x xs ih =>
    intro b
    cases b with
    | nil => rfl
    | cons y ys =>
      simp only [bytesCmp]
      by_cases h1 : x < y
      · have h2 : ¬ y < x := by
          rw [UInt8.lt_iff_toNat_lt] at h1 ⊢; omega
        simp [h1, h2]
      · by_cases h2 : y < x
        · simp [h1, h2]
        · simp [h1, h2, ih ys]

theorem bytesCmp_eq_iff (a b : Bytes) : bytesCmp a b = .eq ↔ a = b := by
  induction a generalizing b with
  | nil => cases b <;> simp [bytesCmp]
  | cons x xs ih =>
    cases b with
    | nil => simp [bytesCmp]
    | cons y ys =>
      simp only [bytesCmp]
      by_cases h1 : x < y
      · have : x ≠ y := by
          intro e; subst e
          rw [UInt8.lt_iff_toNat_lt] at h1; omega
        simp [h1, this]
      · by_cases h2 : y < x
        · have : x ≠ y := by
            intro e; subst e
            rw [UInt8.lt_iff_toNat_lt] at h2; omega
          simp [h1, h2, this]
        · have : x = y := by
            apply UInt8.toNat_inj.1
            rw [UInt8.lt_iff_toNat_lt] at h1 h2; omega
          simp [this, ih ys]

theorem bytesCmp_trans_lt : ∀ a b c : Bytes, bytesCmp a b = .lt → bytesCmp b c = .lt → bytesCmp a c = .lt := by
  intro a
  induction a with
  | nil =>
    intro b c h1 h2
    cases b with
    | nil => cases c <;> simp_all [bytesCmp]
    | cons y ys =>
      cases c with
      | nil => simp [bytesCmp] at h2
      | cons z zs => rfl
  | cons x xs ih =>
    intro b c h1 h2
    cases b with
    | nil => simp [bytesCmp] at h1
    | cons y ys =>
      cases c with
      | nil => simp [bytesCmp] at h2
      | cons z zs =>
        simp only [bytesCmp] at h1 h2 ⊢
        by_cases hxy : x < y
        · by_cases hyz : y < z
          · have : x < z := by
              rw [UInt8.lt_iff_toNat_lt] at *; omega
            simp [this]
          · by_cases hzy : z < y
            · simp [hyz, hzy] at h2
            · have : y = z := by
                apply UInt8.toNat_inj.1
                rw [UInt8.lt_iff_toNat_lt] at hyz hzy; omega
              subst this
              simp [hxy]
        · by_cases hyx : y < x
          · simp [hxy, hyx] at h1
          · have : x = y := by
              apply UInt8.toNat_inj.1
              rw [UInt8.lt_iff_toNat_lt] at hxy hyx; omega
            subst this
            simp only [hxy, if_false] at h1
            by_cases hyz : x < z
            · simp [hyz]
            · by_cases hzy : z < x
              · simp [hyz, hzy] at h2
              · simp only [hyz, hzy, if_false] at h2 ⊢
                exact ih ys zs h1 h2

theorem bytesCmp_lawful : LawfulCmp bytesCmp where
  refl := bytesCmp_refl
  swap := bytesCmp_swap
  trans_lt := bytesCmp_trans_lt
  eq_left := by
    intro a b c h
    rw [(bytesCmp_eq_iff a b).1 h]

theorem keyCmp_lawful : LawfulCmp keyCmp where
  refl := fun _ => bytesCmp_refl _
  swap := fun _ _ => bytesCmp_swap _ _
  trans_lt := fun _ _ _ => bytesCmp_trans_lt _ _ _
  eq_left := fun _ _ _ h => bytesCmp_lawful.eq_left _ _ _ h

/-! ## `slices.BinarySearchFunc` -/

theorem binSearchAux_inv (lt : Nat → Bool) (n : Nat)
    (hmono : ∀ a b, a ≤ b → b < n → lt b = true → lt a = true) :
    ∀ fuel i j, i ≤ j → j ≤ n → j - i ≤ fuel →
      (∀ x, x < i → lt x = true) → (∀ x, j ≤ x → x < n → lt x = false) →
      binSearchAux lt fuel i j ≤ n ∧
      (∀ x, x < binSearchAux lt fuel i j → lt x = true) ∧
      (∀ x, binSearchAux lt fuel i j ≤ x → x < n → lt x = false) := by
  intro fuel
  induction fuel with
  | zero =>
    intro i j hij hjn hf hlo hhi
    have : i = j := by omega
    subst this
    exact ⟨hjn, hlo, hhi⟩
  | succ fuel ih =>
    intro i j hij hjn hf hlo hhi
    unfold binSearchAux
    by_cases hlt : i < j
    · simp only [hlt, if_true]
      have h1 : i ≤ (i + j) / 2 := by omega
      have h2 : (i + j) / 2 < j := by omega
      by_cases hc : lt ((i + j) / 2) = true
      · simp only [hc, if_true]
        apply ih ((i + j) / 2 + 1) j (by omega) hjn (by omega)
        · intro x hx
          exact hmono x ((i + j) / 2) (by omega) (by omega) hc
        · exact hhi
      · simp only [hc]
        apply ih i ((i + j) / 2) h1 (by omega) (by omega) hlo
        intro x hx hxn
        cases hx' : lt x with
        | false => rfl
        | true => exact absurd (hmono _ x hx hxn hx') hc
    · simp only [hlt, if_false]
      have : i = j := by omega
      subst this
      exact ⟨hjn, hlo, hhi⟩

/-- `slices.BinarySearchFunc` (external code, written out as coded): on input partitioned as
"lt … lt, ≥ … ≥" it returns the first index whose element is not below the target -/
theorem binSearchAux_spec (lt : Nat → Bool) (n : Nat)
    (hmono : ∀ a b, a ≤ b → b < n → lt b = true → lt a = true) :
    binSearchAux lt n 0 n ≤ n ∧
    (∀ x, x < binSearchAux lt n 0 n → lt x = true) ∧
    (∀ x, binSearchAux lt n 0 n ≤ x → x < n → lt x = false) :=
  binSearchAux_inv lt n hmono n 0 n (Nat.zero_le _) (Nat.le_refl _) (by omega)
    (fun x hx => absurd hx (Nat.not_lt_zero x)) (fun x h1 h2 => by omega)

/-! ## a sorted association list cut at an index -/

section Cut
variable {K V : Type}

theorem filter_eq_drop {l : List (K × V)} {q : K × V → Bool} (r : Nat)
    (h1 : ∀ e ∈ l.take r, q e = false) (h2 : ∀ e ∈ l.drop r, q e = true) :
    l.filter q = l.drop r := by
  have hA : (l.take r).filter q = [] := by
    rw [List.filter_eq_nil_iff]; intro a ha; simp [h1 a ha]
  have hB : (l.drop r).filter q = l.drop r := List.filter_eq_self.2 h2
  conv => lhs; rw [← List.take_append_drop r l]
  rw [List.filter_append, hA, hB]; rfl

theorem filter_eq_take {l : List (K × V)} {q : K × V → Bool} (r : Nat)
    (h1 : ∀ e ∈ l.take r, q e = true) (h2 : ∀ e ∈ l.drop r, q e = false) :
    l.filter q = l.take r := by
  have hA : (l.drop r).filter q = [] := by
    rw [List.filter_eq_nil_iff]; intro a ha; simp [h2 a ha]
  have hB : (l.take r).filter q = l.take r := List.filter_eq_self.2 h1
  conv => lhs; rw [← List.take_append_drop r l]
  rw [List.filter_append, hA, hB]; simp

/-- `r` cuts `l` at `k`: everything before `r` is below `k`, everything from `r` on is not -/
structure Cut (cmp : K → K → Ordering) (l : List (K × V)) (k : K) (r : Nat) : Prop where
  lo : ∀ e ∈ l.take r, cmp k e.1 = .gt
  ge : ∀ e ∈ l.drop r, cmp k e.1 ≠ .gt

theorem Cut.specFrom {cmp : K → K → Ordering} {l : List (K × V)} {k : K} {r : Nat}
    (c : Cut cmp l k r) : specFrom cmp l k = l.drop r := by
  unfold SST.specFrom
  apply filter_eq_drop r
  · intro e he; simp [c.lo e he]
  · intro e he; simpa using c.ge e he

/-- beyond the head of the upper part everything is strictly above `k` -/
theorem Cut.tail_lt {cmp : K → K → Ordering} (hl : LawfulCmp cmp) {l : List (K × V)} {k : K} {r : Nat}
    (hs : StrictAsc cmp l) (c : Cut cmp l k r) : ∀ e ∈ l.drop (r + 1), cmp k e.1 = .lt := by
  intro e he
  by_cases hr : r < l.length
  · have hd := List.drop_eq_getElem_cons hr
    have hs2 : StrictAsc cmp (l.drop r) := by
      have := hs
      unfold StrictAsc at this
      rw [← List.take_append_drop r l, List.pairwise_append] at this
      exact this.2.1
    unfold StrictAsc at hs2
    rw [hd, List.pairwise_cons] at hs2
    have h1 := c.ge l[r] (by rw [hd]; exact List.mem_cons_self)
    exact cmp_le_lt hl h1 (hs2.1 e he)
  · rw [List.drop_eq_nil_of_le (by omega)] at he
    cases he

theorem Cut.specGet {cmp : K → K → Ordering} (hl : LawfulCmp cmp) {l : List (K × V)} {k : K} {r : Nat}
    (hs : StrictAsc cmp l) (c : Cut cmp l k r) :
    specGet cmp l k = match l[r]? with
      | some p => if cmp k p.1 == .eq then some p.2 else none
      | none => none := by
  unfold SST.specGet
  conv => lhs; rw [← List.take_append_drop r l]
  rw [List.find?_append]
  have h1 : List.find? (fun p : K × V => cmp k p.1 == Ordering.eq) (l.take r) = none := by
    rw [List.find?_eq_none]; intro e he; simp [c.lo e he]
  rw [h1]
  by_cases hr : r < l.length
  · rw [List.drop_eq_getElem_cons hr, List.getElem?_eq_getElem hr]
    rw [List.find?_cons]
    by_cases hc : cmp k l[r].1 = .eq
    · simp only [hc, beq_self_eq_true, if_true]; rfl
    · have h2 : List.find? (fun p : K × V => cmp k p.1 == Ordering.eq) (l.drop (r + 1)) = none := by
        rw [List.find?_eq_none]; intro e he; simp [c.tail_lt hl hs e he]
      have hc' : (cmp k l[r].1 == Ordering.eq) = false := by simpa using hc
      simp only [hc', h2]; rfl
  · rw [List.drop_eq_nil_of_le (by omega), List.getElem?_eq_none (by omega)]
    rfl

/-- the `endIdx` adjustment of `IteratorBetween` -/
theorem Cut.filter_le {cmp : K → K → Ordering} (hl : LawfulCmp cmp) {l : List (K × V)} {k : K} {r : Nat}
    (hs : StrictAsc cmp l) (c : Cut cmp l k r) :
    l.filter (fun p => cmp p.1 k != .gt) = l.take (match l[r]? with
      | some p => if cmp p.1 k != .gt then r + 1 else r
      | none => r) := by
  have hlo : ∀ e ∈ l.take r, (cmp e.1 k != .gt) = true := by
    intro e he
    rw [cmp_flip_gt hl (c.lo e he)]; rfl
  have htl : ∀ e ∈ l.drop (r + 1), (cmp e.1 k != .gt) = false := by
    intro e he
    rw [cmp_flip_lt hl (c.tail_lt hl hs e he)]; rfl
  by_cases hr : r < l.length
  · rw [List.getElem?_eq_getElem hr]
    by_cases hc : (cmp l[r].1 k != .gt) = true
    · simp only [hc, if_true]
      apply filter_eq_take (r + 1) _ htl
      intro e he
      rw [← List.take_append_getElem hr] at he
      rcases List.mem_append.1 he with he | he
      · exact hlo e he
      · rw [List.mem_singleton.1 he]; exact hc
    · simp only [hc]
      apply filter_eq_take r hlo
      intro e he
      rw [List.drop_eq_getElem_cons hr] at he
      rcases List.mem_cons.1 he with rfl | he
      · simpa using hc
      · exact htl e he
  · rw [List.getElem?_eq_none (by omega)]
    apply filter_eq_take r hlo
    intro e he
    rw [List.drop_eq_nil_of_le (by omega)] at he
    cases he

theorem Cut.specBetween {cmp : K → K → Ordering} (hl : LawfulCmp cmp) {l : List (K × V)} {lo hi : K}
    {r1 r2 : Nat} (hs : StrictAsc cmp l) (c1 : Cut cmp l lo r1) (c2 : Cut cmp l hi r2) :
    specBetween cmp l lo hi = if cmp lo hi == .gt then none else
      some ((l.take (match l[r2]? with
        | some p => if cmp p.1 hi != .gt then r2 + 1 else r2
        | none => r2)).drop r1) := by
  unfold SST.specBetween
  split
  · rfl
  · congr 1
    rw [← List.filter_filter, c2.filter_le hl hs]
    apply filter_eq_drop r1
    · intro e he
      rw [List.take_take, Nat.min_comm, ← List.take_take] at he
      have := c1.lo e (List.mem_of_mem_take he)
      simp [this]
    · intro e he
      rw [List.drop_take] at he
      simpa using c1.ge e (List.mem_of_mem_take he)

end Cut

/-! ## slice index -/

theorem keyCmp_some (k : Bytes) (g : GoBytes) : keyCmp (some k) g = bytesCmp k (g.getD []) := rfl

theorem keyCmp_some' (g : GoBytes) (k : Bytes) : keyCmp g (some k) = bytesCmp (g.getD []) k := rfl

theorem bytesCmp_lt_iff_gt (a b : Bytes) : bytesCmp a b = .lt ↔ bytesCmp b a = .gt := by
  rw [bytesCmp_swap a b]; cases bytesCmp b a <;> simp [Ordering.swap]

theorem bytesCmp_beq_eq_comm (a b : Bytes) : (bytesCmp a b == .eq) = (bytesCmp b a == .eq) := by
  rw [bytesCmp_swap a b]; cases bytesCmp b a <;> rfl

theorem entryLt_eq {es : List IEntry} {i : Nat} (k : Bytes) (hi : i < es.length) :
    entryLt es k i = (bytesCmp (es[i].1.getD []) k == .lt) := by
  unfold entryLt; rw [List.getElem?_eq_getElem hi]

theorem entryLt_mono (es : List IEntry) (hs : StrictAsc keyCmp es) (k : Bytes) :
    ∀ a b, a ≤ b → b < es.length → entryLt es k b = true → entryLt es k a = true := by
  intro a b hab hb hlt
  rcases Nat.eq_or_lt_of_le hab with rfl | hab
  · exact hlt
  · rw [entryLt_eq k hb] at hlt
    rw [entryLt_eq k (by omega)]
    have h1 : bytesCmp (es[a].1.getD []) (es[b].1.getD []) = .lt :=
      (List.pairwise_iff_getElem.1 hs) a b (by omega) hb hab
    have h2 : bytesCmp (es[b].1.getD []) k = .lt := by simpa using hlt
    simp [bytesCmp_trans_lt _ _ _ h1 h2]

/-- the index `search` returns cuts the entries at the key -/
theorem slice_cut (es : List IEntry) (hs : StrictAsc keyCmp es) (k : Bytes) :
    Cut keyCmp es (some k) (sliceSearch es k).1 := by
  obtain ⟨_, hlo, hhi⟩ := binSearchAux_spec (entryLt es k) es.length (entryLt_mono es hs k)
  simp only [sliceSearch]
  generalize binSearchAux (entryLt es k) es.length 0 es.length = r at hlo hhi ⊢
  constructor
  · intro e he
    obtain ⟨j, hj, rfl⟩ := List.mem_take_iff_getElem.1 he
    have hjl : j < es.length := by omega
    have := hlo j (by omega)
    rw [entryLt_eq k hjl] at this
    rw [keyCmp_some, ← bytesCmp_lt_iff_gt]
    simpa using this
  · intro e he
    obtain ⟨j, hj, rfl⟩ := List.mem_drop_iff_getElem.1 he
    have hjl : r + j < es.length := by omega
    have := hhi _ (Nat.le_add_right r j) hjl
    rw [entryLt_eq k hjl] at this
    rw [keyCmp_some, Ne, ← bytesCmp_lt_iff_gt]
    simpa using this

/-- the shape in which the reader API reports index answers -/
def getRes (o : Option IndexVal) : Except Err IndexVal :=
  match o with | some iv => .ok iv | none => .error .notFound
def betweenRes (o : Option (List IEntry)) : Except Err Iter :=
  match o with | some l => .ok (l, .done) | none => .error .rejected

theorem slice_refines (es : List IEntry) (hs : StrictAsc keyCmp es) :
    (∀ k : Bytes, sliceGet es k = getRes (specGet keyCmp es (some k))) ∧
    (∀ k : Bytes, sliceContains es k = (specGet keyCmp es (some k)).isSome) ∧
    sliceAll es = (es, .done) ∧
    (∀ k : Bytes, sliceFrom es k = (specFrom keyCmp es (some k), .done)) ∧
    (∀ lo hi : Bytes, sliceBetween es lo hi = betweenRes (specBetween keyCmp es (some lo) (some hi))) := by
  refine ⟨?_, ?_, ?_, ?_, ?_⟩
  · intro k
    have c := slice_cut es hs k
    rw [c.specGet keyCmp_lawful hs]
    unfold sliceGet
    show (if (sliceSearch es k).2 = true then _ else _) = _
    cases h : es[(sliceSearch es k).1]? with
    | none =>
      have h' : es[binSearchAux (entryLt es k) es.length 0 es.length]? = none := h
      simp only [sliceSearch, h']; rfl
    | some e =>
      have h' : es[binSearchAux (entryLt es k) es.length 0 es.length]? = some e := h
      simp only [sliceSearch, h', keyCmp_some, bytesCmp_beq_eq_comm (e.1.getD []) k]
      by_cases hb : (bytesCmp k (e.1.getD []) == .eq) = true
      · simp only [hb, if_true]; rfl
      · simp only [hb]; rfl
  · intro k
    have c := slice_cut es hs k
    rw [c.specGet keyCmp_lawful hs]
    unfold sliceContains
    cases h : es[(sliceSearch es k).1]? with
    | none =>
      have h' : es[binSearchAux (entryLt es k) es.length 0 es.length]? = none := h
      simp only [sliceSearch, h']; rfl
    | some e =>
      have h' : es[binSearchAux (entryLt es k) es.length 0 es.length]? = some e := h
      simp only [sliceSearch, h', keyCmp_some, bytesCmp_beq_eq_comm (e.1.getD []) k]
      by_cases hb : (bytesCmp k (e.1.getD []) == .eq) = true
      · simp only [hb, if_true]; rfl
      · simp only [hb]; simp
  · simp [sliceAll, sliceIter]
  · intro k
    have c := slice_cut es hs k
    rw [c.specFrom]
    simp [sliceFrom, sliceIter]
  · intro lo hi
    have c1 := slice_cut es hs lo
    have c2 := slice_cut es hs hi
    rw [Cut.specBetween keyCmp_lawful hs c1 c2]
    unfold sliceBetween
    by_cases h : (bytesCmp lo hi == Ordering.gt) = true
    · have h' : (keyCmp (some lo) (some hi) == Ordering.gt) = true := h
      rw [if_pos h, if_pos h']; rfl
    · have h' : ¬ (keyCmp (some lo) (some hi) == Ordering.gt) = true := h
      rw [if_neg h, if_neg h']
      simp only [sliceIter, betweenRes, keyCmp_some']
      cases es[(sliceSearch es hi).1]? <;> rfl

/-! ## skip-list index -/

section SortedOf
variable {K V : Type}

theorem sortedInsert_append {cmp : K → K → Ordering} (k : K) (v : V) :
    ∀ acc : List (K × V), (∀ p ∈ acc, cmp k p.1 = .gt) → sortedInsert cmp k v acc = acc ++ [(k, v)] := by
  intro acc
  induction acc with
  | nil => intro _; rfl
  | cons p rest ih =>
    intro h
    obtain ⟨k', v'⟩ := p
    have h1 : cmp k k' = .gt := h (k', v') List.mem_cons_self
    have h2 := ih (fun p hp => h p (List.mem_cons_of_mem _ hp))
    simp only [sortedInsert, h1, beq_self_eq_true, if_true, h2, List.cons_append]

theorem foldl_sortedInsert_asc {cmp : K → K → Ordering} (hl : LawfulCmp cmp) :
    ∀ (rest acc : List (K × V)), StrictAsc cmp (acc ++ rest) →
      rest.foldl (fun acc p => sortedInsert cmp p.1 p.2 acc) acc = acc ++ rest := by
  intro rest
  induction rest with
  | nil => intro acc _; simp
  | cons p t ih =>
    intro acc hs
    have hs' := hs
    unfold StrictAsc at hs'
    rw [List.pairwise_append] at hs'
    have h1 : sortedInsert cmp p.1 p.2 acc = acc ++ [p] :=
      sortedInsert_append p.1 p.2 acc
        (fun a ha => cmp_flip_lt hl (hs'.2.2 a ha p List.mem_cons_self))
    have hassoc : acc ++ p :: t = (acc ++ [p]) ++ t := by simp
    rw [List.foldl_cons, h1, hassoc]
    apply ih
    rw [← hassoc]; exact hs

/-- the sorted map of an already strictly ascending list is the list -/
theorem sortedOf_asc {cmp : K → K → Ordering} (hl : LawfulCmp cmp) (l : List (K × V))
    (hs : StrictAsc cmp l) : sortedOf cmp l = l := by
  have := foldl_sortedInsert_asc hl l [] (by simpa using hs)
  simpa [sortedOf] using this

end SortedOf

theorem skipLoad_eq (es : List IEntry) (heights : List Nat) :
    skipLoad es heights =
      match SkipList.insertAll keyCmp SkipList.empty
          (es.zipIdx.map fun p => (p.1.1, p.1.2, heights.getD p.2 1)) with
      | some s => .ok s
      | none => .error .other := rfl

theorem skip_refines (es : List IEntry) (hs : StrictAsc keyCmp es) (heights : List Nat)
    (hh : ∀ h ∈ heights, 1 ≤ h) :
    ∃ s, skipLoad es heights = .ok s ∧
    (∀ k : Bytes, skipGet s k = getRes (specGet keyCmp es (some k))) ∧
    (∀ k : Bytes, skipContains s k = (specGet keyCmp es (some k)).isSome) ∧
    skipAll s = (es, .done) ∧
    (∀ k : Bytes, skipFrom s k = (specFrom keyCmp es (some k), .done)) ∧
    (∀ lo hi : Bytes, skipBetween s lo hi = betweenRes (specBetween keyCmp es (some lo) (some hi))) := by
  have hmap : ((es.zipIdx.map fun p => (p.1.1, p.1.2, heights.getD p.2 1)).map
      fun x : GoBytes × IndexVal × Nat => (x.1, x.2.1)) = es := by
    rw [List.map_map]
    exact List.zipIdx_map_fst 0 es
  have hkeys : ((es.zipIdx.map fun p => (p.1.1, p.1.2, heights.getD p.2 1)).map
      fun x : GoBytes × IndexVal × Nat => x.1) = es.map (·.1) := by
    conv => rhs; rw [← hmap]
    rw [List.map_map, List.map_map, List.map_map]
    rfl
  have hd : DistinctKeys keyCmp ((es.zipIdx.map fun p => (p.1.1, p.1.2, heights.getD p.2 1)).map (·.1)) := by
    rw [hkeys]
    unfold DistinctKeys
    apply List.Pairwise.map _ _ hs
    intro a b hab; rw [hab]; decide
  have hhs : ∀ x ∈ es.zipIdx.map (fun p => (p.1.1, p.1.2, heights.getD p.2 1)), 1 ≤ x.2.2 := by
    intro x hx
    obtain ⟨p, _, rfl⟩ := List.mem_map.1 hx
    show 1 ≤ heights.getD p.2 1
    rw [List.getD_eq_getElem?_getD]
    cases hg : heights[p.2]? with
    | none => exact Nat.le_refl 1
    | some h => exact hh h (List.mem_of_getElem? hg)
  obtain ⟨s, hall, hspec⟩ := skiplist_refines keyCmp keyCmp_lawful _ hd hhs
  rw [hmap, sortedOf_asc keyCmp_lawful es hs] at hspec
  obtain ⟨_, hiter, hget, hcont, hfrom, hbetw⟩ := hspec
  refine ⟨s, ?_, ?_, ?_, ?_, ?_, ?_⟩
  · rw [skipLoad_eq, hall]
  · intro k
    unfold skipGet
    rw [hget]
    cases specGet keyCmp es (some k) <;> rfl
  · intro k
    unfold skipContains
    rw [hcont]
  · unfold skipAll
    rw [hiter]
  · intro k
    unfold skipFrom
    rw [hfrom]
  · intro lo hi
    unfold skipBetween
    rw [hbetw]
    cases specBetween keyCmp es (some lo) (some hi) <;> rfl

/-! ## map index -/

theorem find?_congr_mem {α : Type} {p q : α → Bool} :
    ∀ l : List α, (∀ a ∈ l, p a = q a) → l.find? p = l.find? q := by
  intro l
  induction l with
  | nil => intro _; rfl
  | cons a t ih =>
    intro h
    rw [List.find?_cons, List.find?_cons, h a List.mem_cons_self,
      ih (fun b hb => h b (List.mem_cons_of_mem _ hb))]

/-- when at most one element matches, searching from the back finds the same element -/
theorem find?_reverse_unique {α : Type} {q : α → Bool} :
    ∀ l : List α, l.Pairwise (fun a b => ¬ (q a = true ∧ q b = true)) →
      l.reverse.find? q = l.find? q := by
  intro l
  induction l with
  | nil => intro _; rfl
  | cons a t ih =>
    intro h
    have h' := List.pairwise_cons.1 h
    rw [List.reverse_cons, List.find?_append, ih h'.2, List.find?_cons]
    by_cases hq : q a = true
    · have : t.find? q = none := by
        rw [List.find?_eq_none]
        intro b hb hqb
        exact h'.1 b hb ⟨hq, hqb⟩
      simp [hq, this]
    · simp [hq]

theorem map_refines (n : Nat) (es : List IEntry) (hs : StrictAsc keyCmp es) (k : Bytes)
    (hp : PadInjective n (es.map fun e => e.1.getD []) k) :
    mapLoadOk n es = true ∧
    mapGet n es k = some (getRes (specGet keyCmp es (some k))) ∧
    mapContains n es k = some (specGet keyCmp es (some k)).isSome := by
  obtain ⟨hlen, hinj⟩ := hp
  have hmem : ∀ e ∈ es, e.1.getD [] ∈ k :: es.map (fun e => e.1.getD []) := by
    intro e he
    exact List.mem_cons_of_mem _ (List.mem_map_of_mem (f := fun e : IEntry => e.1.getD []) he)
  have hk : mapKey n k = some (k ++ List.replicate (n - k.length) 0) := by
    unfold mapKey
    rw [if_neg]
    have := hlen k List.mem_cons_self
    omega
  have hq : ∀ e ∈ es, (mapKey n (e.1.getD []) == mapKey n k) = (keyCmp (some k) e.1 == .eq) := by
    intro e he
    by_cases heq : e.1.getD [] = k
    · rw [keyCmp_some, heq, bytesCmp_refl]; simp
    · have h1 : (mapKey n (e.1.getD []) == mapKey n k) = false := by
        cases hb : (mapKey n (e.1.getD []) == mapKey n k) with
        | false => rfl
        | true => exact absurd (hinj _ (hmem e he) _ List.mem_cons_self (eq_of_beq hb)) heq
      have h2 : (keyCmp (some k) e.1 == Ordering.eq) = false := by
        cases hb : (keyCmp (some k) e.1 == Ordering.eq) with
        | false => rfl
        | true =>
          have := (bytesCmp_eq_iff _ _).1 (eq_of_beq hb : bytesCmp k (e.1.getD []) = .eq)
          exact absurd this.symm heq
      rw [h1, h2]
  have huniq : es.Pairwise (fun a b => ¬ ((keyCmp (some k) a.1 == .eq) = true ∧
      (keyCmp (some k) b.1 == .eq) = true)) := by
    apply List.Pairwise.imp _ hs
    intro a b hab ⟨ha, hb⟩
    have ha' := (bytesCmp_eq_iff _ _).1 (eq_of_beq ha : bytesCmp k (a.1.getD []) = .eq)
    have hb' := (bytesCmp_eq_iff _ _).1 (eq_of_beq hb : bytesCmp k (b.1.getD []) = .eq)
    have : keyCmp a.1 b.1 = .eq := by
      show bytesCmp (a.1.getD []) (b.1.getD []) = .eq
      rw [← ha', ← hb']; exact bytesCmp_refl k
    rw [this] at hab; cases hab
  have hlook : mapLookup n es k = specGet keyCmp es (some k) := by
    unfold mapLookup specGet
    rw [find?_congr_mem es.reverse (q := fun e => keyCmp (some k) e.1 == .eq)
      (fun e he => hq e (List.mem_reverse.1 he)), find?_reverse_unique es huniq]
  refine ⟨?_, ?_, ?_⟩
  · unfold mapLoadOk
    rw [List.all_eq_true]
    intro e he
    exact decide_eq_true (hlen _ (hmem e he))
  · unfold mapGet
    rw [hk, hlook]
    cases specGet keyCmp es (some k) <;> rfl
  · unfold mapContains
    rw [hk, hlook]

end SST.Proofs.Sst
