/-
L3 assembled: the stacked reader, `Merge` and `MergeCompact` against the overlay spec (C08) and the fault
theorems (C11).
-/
import SST.Proofs.MergeGroup
import SST.Proofs.MergeLoops
namespace SST.Proofs.Merge
open SST SST.Merge PQ SST.Proofs.FH SST.Proofs.PQB SST.Proofs.MergeOrd SST.Proofs.MergeSpec
open SST.Proofs.MergeGroup SST.Proofs.MergeLoops

/-! ### the tagged union of the inputs -/

theorem mem_taggedFrom {K V : Type} (ins : List (List (K × V))) : ∀ (n : Nat) (x : K × V × Nat),
    x ∈ taggedFrom n ins ↔ n ≤ x.2.2 ∧ ∃ l, ins[x.2.2 - n]? = some l ∧ (x.1, x.2.1) ∈ l := by
  induction ins with
  | nil => intro n x; simp [taggedFrom]
  | cons l ins ih =>
    intro n x
    obtain ⟨k, v, c⟩ := x
    rw [taggedFrom_cons, List.mem_append, ih]
    simp only
    constructor
    · rintro (h | ⟨hle, l', hl', hm⟩)
      · obtain ⟨y, hy, heq⟩ := List.mem_map.mp h
        simp only [Prod.mk.injEq] at heq
        obtain ⟨rfl, rfl, rfl⟩ := heq
        exact ⟨Nat.le_refl _, l, by simp, hy⟩
      · refine ⟨by omega, l', ?_, hm⟩
        have : c - n = (c - (n + 1)) + 1 := by omega
        rw [this]; simpa using hl'
    · rintro ⟨hle, l', hl', hm⟩
      by_cases hc : c = n
      · subst hc
        left
        simp only [Nat.sub_self, List.getElem?_cons_zero, Option.some.injEq] at hl'
        subst hl'
        exact List.mem_map.mpr ⟨(k, v), hm, rfl⟩
      · right
        have : c - n = (c - (n + 1)) + 1 := by omega
        rw [this] at hl'
        exact ⟨by omega, l', by simpa using hl', hm⟩

theorem toItems_nonDesc {t : Table} (ha : Asc t) : NonDesc goCmp (toItems t) := by
  unfold NonDesc toItems
  rw [List.pairwise_map]
  apply List.Pairwise.imp _ ha
  intro a b hab
  simp only [goCmp_nk, nk_pbKey]
  rw [hab]; simp

theorem scans_nonDesc {Ss : List Table} (hts : ∀ t ∈ Ss, Asc t) : ∀ l ∈ Ss.map toItems, NonDesc goCmp l := by
  intro l hl
  obtain ⟨t, ht, rfl⟩ := List.mem_map.mp hl
  exact toItems_nonDesc (hts t ht)

theorem mem_toItems {t : Table} {gk gv : GoBytes} :
    (gk, gv) ∈ toItems t ↔ ∃ k, gk = pbKey k ∧ (k, gv) ∈ t := by
  unfold toItems
  rw [List.mem_map]
  constructor
  · rintro ⟨⟨k, v⟩, hm, heq⟩
    simp only [Prod.mk.injEq] at heq
    obtain ⟨rfl, rfl⟩ := heq
    exact ⟨k, rfl, hm⟩
  · rintro ⟨k, rfl, hm⟩
    exact ⟨(k, gv), hm, rfl⟩

/-- the complete merge of the tables' scans, keys normalised, is a sorted sequence holding exactly the
tables' records with the table positions (from `pq_sorted_merge`) -/
theorem mergedFrom_drain (Ss : List Table) (hts : ∀ t ∈ Ss, Asc t) :
    MergedFrom Ss (normAll (PQ.drain goCmp (Ss.map toItems))) := by
  obtain ⟨hsorted, hperm⟩ := pq_sorted_merge goCmp goCmp_lawful (Ss.map toItems) (scans_nonDesc hts)
  constructor
  · unfold normAll
    rw [List.pairwise_map]
    exact hsorted
  · intro k v c
    unfold normAll
    rw [List.mem_map]
    constructor
    · rintro ⟨o, ho, heq⟩
      simp only [Prod.mk.injEq] at heq
      obtain ⟨hk, hv, hc⟩ := heq
      have ht := hperm.mem_iff.mp ho
      rw [tagged_eq, mem_taggedFrom] at ht
      obtain ⟨_, l, hl, hm⟩ := ht
      simp only [Nat.sub_zero, List.getElem?_map] at hl
      cases hS : Ss[o.2.2]? with
      | none => rw [hS] at hl; cases hl
      | some S =>
        rw [hS] at hl
        simp only [Option.map_some, Option.some.injEq] at hl
        subst hl
        obtain ⟨k0, hk0, hm0⟩ := mem_toItems.mp hm
        refine ⟨S, by rw [← hc]; exact hS, ?_⟩
        rw [← hk, hk0, nk_pbKey, ← hv]
        exact hm0
    · rintro ⟨S, hS, hm⟩
      refine ⟨(pbKey k, v, c), ?_, by simp [nk_pbKey]⟩
      apply hperm.mem_iff.mpr
      rw [tagged_eq, mem_taggedFrom]
      refine ⟨Nat.zero_le _, toItems S, by simp [hS], ?_⟩
      exact mem_toItems.mpr ⟨k, rfl, hm⟩

/-! ### Get / Contains of the stacked reader -/

theorem newestValue_append_single (xs : List Table) (t : Table) (k : Bytes) :
    newestValue (xs ++ [t]) k = (match tget t k with | some v => some v | none => newestValue xs k) := by
  induction xs with
  | nil => simp [newestValue]; cases tget t k <;> rfl
  | cons x xs ih =>
    simp only [List.cons_append, newestValue, ih]
    cases tget t k <;> rfl

theorem superGetAux_eq (l : List Table) (k : Bytes) :
    superGetAux l k = (match newestValue l.reverse k with | some v => .ok v | none => .error .notFound) := by
  induction l with
  | nil => simp [superGetAux, newestValue]
  | cons t older ih =>
    simp only [superGetAux, List.reverse_cons, newestValue_append_single, tableGet]
    cases tget t k with
    | some v => rfl
    | none => simp [ih]

theorem superContainsAux_eq (l : List Table) (k : Bytes) :
    superContainsAux l k = .ok (newestValue l.reverse k).isSome := by
  induction l with
  | nil => simp [superContainsAux, newestValue]
  | cons t older ih =>
    simp only [superContainsAux, List.reverse_cons, newestValue_append_single, tableContains]
    cases tget t k with
    | some v => rfl
    | none => simp [ih]

theorem super_get (ts : List Table) (hts : ∀ t ∈ ts, Asc t) (k : Bytes) :
    superGet ts k = (match tget (overlay ts) k with | some v => .ok v | none => .error .notFound) := by
  unfold superGet
  rw [superGetAux_eq, List.reverse_reverse, tget_overlay hts]

theorem super_contains (ts : List Table) (hts : ∀ t ∈ ts, Asc t) (k : Bytes) :
    superContains ts k = .ok (tget (overlay ts) k).isSome := by
  unfold superContains
  rw [superContainsAux_eq, List.reverse_reverse, tget_overlay hts]

/-! ### the compaction iterator over infallible scans -/

theorem inputOf_clean (scans : List (List Item)) : ∀ i ∈ scans.map inputOf, i.endErr = none := by
  intro i hi
  obtain ⟨s, _, rfl⟩ := List.mem_map.mp hi
  rfl

theorem inputOf_items (scans : List (List Item)) : (scans.map inputOf).map FInput.items = scans := by
  rw [List.map_map]
  conv => rhs; rw [← List.map_id scans]
  apply List.map_congr_left
  intro s _; rfl

/-- over infallible inputs the iterator, called until Done, returns the compaction of the complete merge -/
theorem collect_clean (reduce : ReduceFn) (scans : List (List Item)) :
    ∃ s, mcNew (scans.map inputOf) = .ok s ∧
      mcCollect (PQF.endErrOf (scans.map inputOf)) reduce (PQF.pendingCount s.heap + 2) s
        = (compactOf reduce (PQ.drain goCmp scans), .done) := by
  obtain ⟨hinit, _, ho, hy⟩ := init_clean goCmp_lawful (scans.map inputOf) (inputOf_clean scans)
  rw [inputOf_items] at hinit ho hy
  refine ⟨⟨PQ.init goCmp scans, none, [], []⟩, by simp [mcNew, hinit], ?_⟩
  have hlen := yields_length goCmp_lawful ho hy
  rw [mcCollect_eq goCmp_lawful reduce hy ho none [] [] _ (Nat.add_le_add_right hlen 2), groupRunT_done]
  rfl

theorem superIterate_eq (Ss : List Table) (hts : ∀ t ∈ Ss, Asc t) :
    superIterate (Ss.map toItems) = .ok (asItems (live (overlay Ss))) := by
  obtain ⟨s, hnew, hcol⟩ := collect_clean scanReduceLatestWins (Ss.map toItems)
  unfold superIterate
  simp only [hnew, hcol]
  have hm := mergedFrom_drain Ss hts
  rw [compactOf_sorted lw_valReducer _
    (pq_sorted_merge goCmp goCmp_lawful (Ss.map toItems) (scans_nonDesc hts)).1, groupTbl_lw hts hm]

theorem mapM_ok {α β : Type} (f : α → Except Err β) (g : α → β) (h : ∀ a, f a = .ok (g a)) :
    ∀ l : List α, l.mapM f = .ok (l.map g) := by
  intro l
  induction l with
  | nil => rfl
  | cons a l ih =>
    rw [List.mapM_cons, h a, ih]
    rfl

theorem super_scan (ts : List Table) (hts : ∀ t ∈ ts, Asc t) :
    superScan ts = .ok (asItems (live (overlay ts))) := by
  unfold superScan
  rw [mapM_ok tableScan toItems (fun _ => rfl)]
  exact superIterate_eq ts hts

theorem filtered_asc {ts : List Table} (hts : ∀ t ∈ ts, Asc t) (f : Bytes → Bool) :
    ∀ t ∈ ts.map (fun t => t.filter fun p => f p.1), Asc t := by
  intro t ht
  obtain ⟨t0, ht0, rfl⟩ := List.mem_map.mp ht
  exact filter_asc _ (hts t0 ht0)

theorem super_scanFrom (ts : List Table) (hts : ∀ t ∈ ts, Asc t) (k : Bytes) :
    superScanFrom ts k = .ok (asItems (fromKey (live (overlay ts)) k)) := by
  unfold superScanFrom
  rw [mapM_ok (tableScanFrom · k) (fun t => toItems (t.filter fun p => bytesCmp k p.1 != .gt)) (fun _ => rfl)]
  let F : Bytes → Bool := fun x => bytesCmp k x != .gt
  have e := superIterate_eq _ (filtered_asc hts F)
  rw [overlay_map_filter hts F, filter_comm_live] at e
  have hmap : ts.map (fun t => toItems (t.filter fun p => bytesCmp k p.1 != .gt)) =
      (ts.map fun t => t.filter fun p => F p.1).map toItems := by
    rw [List.map_map]; rfl
  show superIterate _ = _
  rw [hmap]
  exact e

theorem super_scanRange (ts : List Table) (hts : ∀ t ∈ ts, Asc t) (lo hi : Bytes) :
    superScanRange ts lo hi =
      if bytesCmp lo hi = .gt ∧ ts ≠ [] then .error .rejected
      else .ok (asItems (between (live (overlay ts)) lo hi)) := by
  unfold superScanRange
  by_cases hgt : bytesCmp lo hi = .gt
  · cases ts with
    | nil =>
      simp only [List.mapM_nil, ne_eq, not_true_eq_false, and_false, if_false]
      show superIterate [] = _
      have := superIterate_eq [] (by simp)
      simp only [List.map_nil] at this
      rw [this]
      simp [overlay, live, between, asItems]
    | cons t r =>
      have : tableScanRange t lo hi = .error .rejected := by simp [tableScanRange, hgt]
      rw [List.mapM_cons, this]
      simp [hgt]
      rfl
  · have hf : ∀ t : Table, tableScanRange t lo hi =
        .ok (toItems (t.filter fun p => bytesCmp lo p.1 != .gt && bytesCmp p.1 hi != .gt)) := by
      intro t; simp [tableScanRange, hgt]
    rw [mapM_ok _ _ hf]
    let F : Bytes → Bool := fun x => bytesCmp lo x != .gt && bytesCmp x hi != .gt
    have e := superIterate_eq _ (filtered_asc hts F)
    rw [overlay_map_filter hts F, filter_comm_live] at e
    have hmap : ts.map (fun t => toItems (t.filter fun p => bytesCmp lo p.1 != .gt && bytesCmp p.1 hi != .gt)) =
        (ts.map fun t => t.filter fun p => F p.1).map toItems := by
      rw [List.map_map]; rfl
    show superIterate _ = _
    rw [hmap, e]
    simp only [hgt, false_and, if_false]
    rfl

/-! ### MergeCompact with the provided reducers into a fresh writer -/

theorem recordsOf_asItems (m : Table) : recordsOf (asItems m) = m := by
  unfold recordsOf asItems
  rw [List.map_map]
  conv => rhs; rw [← List.map_id m]
  apply List.map_congr_left
  intro p _; rfl

theorem keysOf_asItems (m : Table) : keysOf (asItems m) = m.map (·.1) := by
  unfold keysOf asItems
  rw [List.map_map]
  apply List.map_congr_left
  intro p _; rfl

theorem chainOk_of_asc {m : Table} (ha : Asc m) : ChainOk none (keysOf (asItems m)) := by
  rw [chainOk_none_iff, keysOf_asItems, List.pairwise_map]
  exact ha

theorem mergeCompact_clean_eq (reduce : ReduceFn) (scans : List (List Item)) (w : Merge.WState) :
    mergeCompact (scans.map inputOf) w reduce =
      feedItems (compactOf reduce (PQ.drain goCmp scans)) .done w := by
  obtain ⟨s, hnew, hcol⟩ := collect_clean reduce scans
  unfold mergeCompact
  simp only [hnew]
  rw [mergeCompactLoop_eq, hcol]

/-- fresh writer, no faults: the written table is exactly `m` when the compaction yields `asItems m` -/
theorem feed_fresh {m : Table} (ha : Asc m) :
    feedItems (asItems m) .done {} = (none, (feedItems (asItems m) .done {}).2) ∧
    (feedItems (asItems m) .done {}).2.out = m := by
  have hs := feedItems_succeeds (asItems m) {} (by intro n _ _; simp) (chainOk_of_asc ha)
  have heq : feedItems (asItems m) .done {} = (none, (feedItems (asItems m) .done {}).2) :=
    Prod.ext hs rfl
  refine ⟨heq, ?_⟩
  obtain ⟨_, hout, _⟩ := feedItems_ok _ _ _ _ heq
  rw [hout, recordsOf_asItems]
  rfl

theorem mergeCompact_lw (ts : List Table) (hts : ∀ t ∈ ts, Asc t) :
    (mergeCompact ((ts.map toItems).map inputOf) {} scanReduceLatestWins).1 = none ∧
    (mergeCompact ((ts.map toItems).map inputOf) {} scanReduceLatestWins).2.out = live (overlay ts) := by
  rw [mergeCompact_clean_eq, compactOf_sorted lw_valReducer _
    (pq_sorted_merge goCmp goCmp_lawful (ts.map toItems) (scans_nonDesc hts)).1,
    groupTbl_lw hts (mergedFrom_drain ts hts)]
  obtain ⟨h1, h2⟩ := feed_fresh (m := live (overlay ts)) (filter_asc (fun p => p.2.isSome) (overlay_asc ts))
  exact ⟨by rw [h1], h2⟩

theorem mergeCompact_skip (ts : List Table) (hts : ∀ t ∈ ts, Asc t) :
    (mergeCompact ((ts.map toItems).map inputOf) {} scanReduceLatestWinsSkipTombstones).1 = none ∧
    (mergeCompact ((ts.map toItems).map inputOf) {} scanReduceLatestWinsSkipTombstones).2.out
      = liveNonEmpty (overlay ts) := by
  rw [mergeCompact_clean_eq, compactOf_sorted skip_valReducer _
    (pq_sorted_merge goCmp goCmp_lawful (ts.map toItems) (scans_nonDesc hts)).1,
    groupTbl_skip hts (mergedFrom_drain ts hts)]
  obtain ⟨h1, h2⟩ := feed_fresh (m := liveNonEmpty (overlay ts))
    (filter_asc (fun p => (p.2.getD []).length != 0) (overlay_asc ts))
  exact ⟨by rw [h1], h2⟩

/-! ### plain Merge -/

theorem merge_clean_eq (scans : List (List Item)) (w : Merge.WState) :
    merge (scans.map inputOf) w = feedItems (untag (PQ.drain goCmp scans)) .done w := by
  obtain ⟨hinit, _, ho, hy⟩ := init_clean goCmp_lawful (scans.map inputOf) (inputOf_clean scans)
  rw [inputOf_items] at hinit ho hy
  have hlen := yields_length goCmp_lawful ho hy
  unfold merge
  simp only [hinit]
  exact mergeLoop_eq hy _ (by omega) w

theorem keysOf_untag (D : List (GoBytes × GoBytes × Nat)) : keysOf (untag D) = (normAll D).map (·.1) := by
  unfold keysOf untag normAll
  rw [List.map_map, List.map_map]
  rfl

theorem recordsOf_untag (D : List (GoBytes × GoBytes × Nat)) :
    recordsOf (untag D) = (normAll D).map fun x => (x.1, x.2.1) := by
  unfold recordsOf untag normAll
  rw [List.map_map, List.map_map]
  rfl

/-- no key in two tables ⇔ the keys of the tagged union are pairwise different -/
theorem disjoint_iff_tagged (Ss : List Table) (hts : ∀ t ∈ Ss, Asc t) : ∀ n : Nat,
    PairwiseDisjoint Ss ↔
      (taggedFrom n (Ss.map toItems)).Pairwise (fun a b => nk a.1 ≠ nk b.1) := by
  induction Ss with
  | nil => intro n; simp [PairwiseDisjoint, taggedFrom]
  | cons t r ih =>
    intro n
    have hr : ∀ t ∈ r, Asc t := fun t h => hts t (List.mem_cons_of_mem _ h)
    have ht := hts t List.mem_cons_self
    simp only [List.map_cons]
    rw [taggedFrom_cons, List.pairwise_append]
    unfold PairwiseDisjoint at ih ⊢
    rw [List.pairwise_cons, ih hr (n + 1)]
    have hown : ((toItems t).map fun (x : GoBytes × GoBytes) => (x.1, x.2, n)).Pairwise
        (fun a b => nk a.1 ≠ nk b.1) := by
      unfold toItems
      rw [List.pairwise_map, List.pairwise_map]
      apply List.Pairwise.imp _ ht
      intro a b hab
      simp only [nk_pbKey]
      exact ne_of_lt hab
    constructor
    · rintro ⟨hcross, hrest⟩
      refine ⟨hown, hrest, ?_⟩
      intro a ha b hb
      obtain ⟨⟨gk, gv⟩, hya, rfl⟩ := List.mem_map.mp ha
      obtain ⟨ka, rfl, hka⟩ := mem_toItems.mp hya
      obtain ⟨_, l, hl, hm⟩ := (mem_taggedFrom _ _ _).mp hb
      rw [List.getElem?_map] at hl
      cases hS : r[b.2.2 - (n + 1)]? with
      | none => rw [hS] at hl; cases hl
      | some S =>
        rw [hS] at hl
        simp only [Option.map_some, Option.some.injEq] at hl
        subst hl
        obtain ⟨kb, hkb, hmb⟩ := mem_toItems.mp hm
        simp only [nk_pbKey]
        rw [hkb, nk_pbKey]
        exact hcross S (List.mem_of_getElem? hS) (ka, gv) hka (kb, b.2.1) hmb
    · rintro ⟨_, hrest, hcross⟩
      refine ⟨?_, hrest⟩
      intro S hS p hp q hq
      obtain ⟨j, hj, hjS⟩ := List.getElem_of_mem hS
      have ha : (pbKey p.1, p.2, n) ∈ (toItems t).map fun (x : GoBytes × GoBytes) => (x.1, x.2, n) :=
        List.mem_map.mpr ⟨(pbKey p.1, p.2), mem_toItems.mpr ⟨p.1, rfl, hp⟩, rfl⟩
      have hb : (pbKey q.1, q.2, n + 1 + j) ∈ taggedFrom (n + 1) (r.map toItems) := by
        rw [mem_taggedFrom]
        refine ⟨by simp, toItems S, ?_, mem_toItems.mpr ⟨q.1, rfl, hq⟩⟩
        simp [List.getElem?_eq_getElem hj, hjS]
      have := hcross _ ha _ hb
      simpa [nk_pbKey] using this

theorem disjoint_iff_drain (Ss : List Table) (hts : ∀ t ∈ Ss, Asc t) :
    PairwiseDisjoint Ss ↔
      (normAll (PQ.drain goCmp (Ss.map toItems))).Pairwise (fun a b => a.1 ≠ b.1) := by
  obtain ⟨_, hperm⟩ := pq_sorted_merge goCmp goCmp_lawful (Ss.map toItems) (scans_nonDesc hts)
  rw [disjoint_iff_tagged Ss hts 0, ← tagged_eq]
  unfold normAll
  rw [List.pairwise_map]
  exact (hperm.pairwise_iff (fun h => Ne.symm h)).symm

theorem taggedFrom_records (Ss : List Table) : ∀ n : Nat,
    (taggedFrom n (Ss.map toItems)).map (fun o => (nk o.1, o.2.1)) = Ss.flatten := by
  induction Ss with
  | nil => intro n; simp [taggedFrom]
  | cons t r ih =>
    intro n
    simp only [List.map_cons, List.flatten_cons]
    rw [taggedFrom_cons, List.map_append, ih]
    congr 1
    unfold toItems
    rw [List.map_map, List.map_map]
    conv => rhs; rw [← List.map_id t]
    apply List.map_congr_left
    intro p _
    simp [nk_pbKey]

/-- plain `Merge` of pairwise disjoint tables into a fresh writer succeeds and writes the overlay, which is
then the sorted union of all records -/
theorem merge_disjoint (ts : List Table) (hts : ∀ t ∈ ts, Asc t) (hd : PairwiseDisjoint ts) :
    (merge ((ts.map toItems).map inputOf) {}).1 = none ∧
    (merge ((ts.map toItems).map inputOf) {}).2.out = overlay ts ∧
    (overlay ts).Perm ts.flatten := by
  have hm := mergedFrom_drain ts hts
  obtain ⟨_, hperm⟩ := pq_sorted_merge goCmp goCmp_lawful (ts.map toItems) (scans_nonDesc hts)
  have hne := (disjoint_iff_drain ts hts).mp hd
  -- the merged keys are strictly ascending
  have hstrict : (normAll (PQ.drain goCmp (ts.map toItems))).Pairwise (fun a b => bytesCmp a.1 b.1 = .lt) :=
    (hm.sorted.and hne).imp fun h => bytesCmp_lt_of_le_ne h.1 h.2
  rw [merge_clean_eq]
  have hchain : ChainOk none (keysOf (untag (PQ.drain goCmp (ts.map toItems)))) := by
    rw [chainOk_none_iff, keysOf_untag, List.pairwise_map]; exact hstrict
  have hs := feedItems_succeeds _ ({} : Merge.WState) (by intro n _ _; simp) hchain
  have heq : feedItems (untag (PQ.drain goCmp (ts.map toItems))) .done {} =
      (none, (feedItems (untag (PQ.drain goCmp (ts.map toItems))) .done {}).2) := Prod.ext hs rfl
  obtain ⟨_, hout, _⟩ := feedItems_ok _ _ _ _ heq
  -- the written records
  have hR : (feedItems (untag (PQ.drain goCmp (ts.map toItems))) .done {}).2.out =
      (normAll (PQ.drain goCmp (ts.map toItems))).map fun x => (x.1, x.2.1) := by
    rw [hout, recordsOf_untag]; rfl
  have hRasc : Asc ((normAll (PQ.drain goCmp (ts.map toItems))).map fun x => (x.1, x.2.1)) := by
    unfold Asc StrictAsc
    rw [List.pairwise_map]; exact hstrict
  have hRperm : ((normAll (PQ.drain goCmp (ts.map toItems))).map fun x => (x.1, x.2.1)).Perm ts.flatten := by
    have := hperm.map (fun o => (nk o.1, o.2.1))
    rw [tagged_eq, taggedFrom_records] at this
    unfold normAll
    rw [List.map_map]
    exact this
  have hRov : ((normAll (PQ.drain goCmp (ts.map toItems))).map fun x => (x.1, x.2.1)) = overlay ts := by
    apply asc_ext_mem hRasc (overlay_asc ts)
    intro k v
    rw [← tget_some_iff (overlay_asc ts), tget_overlay hts, newestValue_some_iff, List.mem_map]
    constructor
    · rintro ⟨⟨k', v', c⟩, hx, heq⟩
      simp only [Prod.mk.injEq] at heq
      obtain ⟨rfl, rfl⟩ := heq
      obtain ⟨S, hS, hmS⟩ := (hm.mem k' v' c).mp hx
      refine ⟨c, S, hS, mem_tget (hts S (List.mem_of_getElem? hS)) hmS, ?_⟩
      intro c' t' hcc ht'
      rw [tget_eq_none_iff]
      intro q hq hqk
      have hlt : c < ts.length := (List.getElem?_eq_some_iff.mp hS).1
      have hlt' : c' < ts.length := (List.getElem?_eq_some_iff.mp ht').1
      have := (List.pairwise_iff_getElem.mp hd) c c' hlt hlt' hcc
      rw [(List.getElem?_eq_some_iff.mp hS).2, (List.getElem?_eq_some_iff.mp ht').2] at this
      exact this (k', v') hmS q hq hqk.symm
    · rintro ⟨c, t, hc, hg, _⟩
      exact ⟨(k, v, c), (hm.mem k v c).mpr ⟨t, hc, tget_mem hg⟩, rfl⟩
  refine ⟨hs, by rw [hR, hRov], ?_⟩
  rw [← hRov]; exact hRperm

/-- plain `Merge` of tables that share a key: the writer rejects the duplicate and `Merge` returns that error -/
theorem merge_overlap (ts : List Table) (hts : ∀ t ∈ ts, Asc t) (hd : ¬ PairwiseDisjoint ts) :
    (merge ((ts.map toItems).map inputOf) {}).1 = some .rejected := by
  rw [merge_clean_eq]
  rcases feedItems_noFault (untag (PQ.drain goCmp (ts.map toItems))) ({} : Merge.WState)
    (by intro n _ _; simp) with hnone | hrej
  · exfalso
    apply hd
    have heq : feedItems (untag (PQ.drain goCmp (ts.map toItems))) .done {} =
        (none, (feedItems (untag (PQ.drain goCmp (ts.map toItems))) .done {}).2) := Prod.ext hnone rfl
    obtain ⟨_, _, _, _, _, hchain⟩ := feedItems_ok _ _ _ _ heq
    have hchain' : ChainOk none (keysOf (untag (PQ.drain goCmp (ts.map toItems)))) := hchain
    rw [chainOk_none_iff, keysOf_untag, List.pairwise_map] at hchain'
    exact (disjoint_iff_drain ts hts).mpr (hchain'.imp fun h => ne_of_lt h)
  · exact hrej

/-! ### C11: faults -/

/-- `Merge` reports success only if no input has a reachable fault, no executed write hit a fault, and every
item of the complete merge was written, in order. -/
theorem merge_success (ins : List Input) (w : Merge.WState) (h : (merge ins w).1 = none) :
    (∀ i ∈ ins, i.endErr = none) ∧
    (merge ins w).2.out = w.out ++ recordsOf (untag (mergedOf ins)) ∧
    (merge ins w).2.calls = w.calls + (mergedOf ins).length ∧
    (∀ n, w.calls ≤ n → n < w.calls + (mergedOf ins).length → n ∉ w.failAt) := by
  unfold merge at h ⊢
  cases hi : PQF.init goCmp ins with
  | error e => rw [hi] at h; simp at h
  | ok hp =>
    rw [hi] at h
    simp only [] at h ⊢
    obtain ⟨ho, _, xs, t, hy, hlen, hdone, _⟩ := init_ok goCmp_lawful ins hp hi
    rw [mergeLoop_eq hy _ (by omega) w] at h ⊢
    have heq : feedItems (untag xs) t w = (none, (feedItems (untag xs) t w).2) := Prod.ext h rfl
    obtain ⟨ht, hout, hcalls, _, hrange, _⟩ := feedItems_ok _ _ _ _ heq
    obtain ⟨hclean, hxs⟩ := hdone ht
    have hxs' : xs = mergedOf ins := hxs
    subst hxs'
    refine ⟨hclean, hout, ?_, ?_⟩
    · rw [hcalls]; simp [untag]
    · intro n h1 h2
      exact hrange n h1 (by simpa [untag] using h2)

/-- with no reachable fault at all, `Merge` does not invent an I/O error: it succeeds or the writer
rejected a non-ascending key -/
theorem merge_noFault (ins : List Input) (w : Merge.WState) (hc : ∀ i ∈ ins, i.endErr = none)
    (hw : ∀ n, w.calls ≤ n → n < w.calls + (mergedOf ins).length → n ∉ w.failAt) :
    (merge ins w).1 = none ∨ (merge ins w).1 = some .rejected := by
  obtain ⟨hinit, _, ho, hy⟩ := init_clean goCmp_lawful ins hc
  have hlen := yields_length goCmp_lawful ho hy
  unfold merge
  simp only [hinit]
  rw [mergeLoop_eq hy _ (by omega) w]
  apply feedItems_noFault
  intro n h1 h2
  exact hw n h1 (by simpa [untag, mergedOf] using h2)

/-- the same for `MergeCompact` with ANY reduce function -/
theorem mergeCompact_success (ins : List Input) (w : Merge.WState) (reduce : ReduceFn)
    (h : (mergeCompact ins w reduce).1 = none) :
    (∀ i ∈ ins, i.endErr = none) ∧
    (mergeCompact ins w reduce).2.out = w.out ++ recordsOf (compactOf reduce (mergedOf ins)) ∧
    (mergeCompact ins w reduce).2.calls = w.calls + (compactOf reduce (mergedOf ins)).length ∧
    (∀ n, w.calls ≤ n → n < w.calls + (compactOf reduce (mergedOf ins)).length → n ∉ w.failAt) := by
  unfold mergeCompact mcNew at h ⊢
  cases hi : PQF.init goCmp ins with
  | error e => rw [hi] at h; simp at h
  | ok hp =>
    rw [hi] at h
    simp only [] at h ⊢
    obtain ⟨ho, _, xs, t, hy, hlen, hdone, _⟩ := init_ok goCmp_lawful ins hp hi
    rw [mergeCompactLoop_eq,
      mcCollect_eq goCmp_lawful reduce hy ho none [] [] _ (Nat.add_le_add_right hlen 2)] at h ⊢
    have heq : feedItems (groupRunT reduce none [] [] xs t).1 (groupRunT reduce none [] [] xs t).2 w =
        (none, (feedItems (groupRunT reduce none [] [] xs t).1 (groupRunT reduce none [] [] xs t).2 w).2) :=
      Prod.ext h rfl
    obtain ⟨ht, hout, hcalls, _, hrange, _⟩ := feedItems_ok _ _ _ _ heq
    rw [groupRunT_term] at ht
    obtain ⟨hclean, hxs⟩ := hdone ht
    have hxs' : xs = mergedOf ins := hxs
    subst hxs' ht
    rw [groupRunT_done] at hout hcalls hrange ⊢
    exact ⟨hclean, hout, hcalls, hrange⟩

theorem mergeCompact_noFault (ins : List Input) (w : Merge.WState) (reduce : ReduceFn)
    (hc : ∀ i ∈ ins, i.endErr = none)
    (hw : ∀ n, w.calls ≤ n → n < w.calls + (compactOf reduce (mergedOf ins)).length → n ∉ w.failAt) :
    (mergeCompact ins w reduce).1 = none ∨ (mergeCompact ins w reduce).1 = some .rejected := by
  obtain ⟨hinit, _, ho, hy⟩ := init_clean goCmp_lawful ins hc
  have hlen := yields_length goCmp_lawful ho hy
  unfold mergeCompact mcNew
  simp only [hinit]
  rw [mergeCompactLoop_eq,
    mcCollect_eq goCmp_lawful reduce hy ho none [] [] _ (Nat.add_le_add_right hlen 2), groupRunT_done]
  exact feedItems_noFault _ w hw

end SST.Proofs.Merge
