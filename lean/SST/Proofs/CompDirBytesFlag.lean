/-
Proofs for SST/Model/CompDirBytes.lean, part 1: the flag file — protobuf round trip, the file read back, every cut,
every prefix of `saveCompactionMetadata`'s calls.
-/
import SST.Proofs.CompDirBytesDefs
import SST.Proofs.RecordIODamage
import SST.Proofs.Proto
namespace SST.Proofs.CompDir
open SST SST.CompDir Generated SST.Proofs SST.Proofs.Pb

/-! ## the repeated field -/

theorem dec_rep {sch : Nat → Option PbKind} {num : Nat} {b rest : Bytes} {acc : PbFields}
    {r : PbFields × Option Err}
    (hs : sch num = some .bytes) (h1 : 1 ≤ num) (h2 : num ≤ 536870911) (hb : b.length < 2 ^ 64)
    (h : Dec sch rest (acc ++ [(num, .bytes b)]) r) : Dec sch (pbRepField num b ++ rest) acc r := by
  intro fuel hf
  simp only [pbRepField] at hf ⊢
  cases fuel with
  | zero => omega
  | succ f =>
    rw [aux_bytes sch num b rest acc f hs h1 h2 hb]
    apply h
    have := encLen_pos b.length
    simp only [List.length_append] at hf; omega

def repFields (num : Nat) (ps : List Bytes) : PbFields := ps.map fun b => (num, .bytes b)

theorem dec_reps {sch : Nat → Option PbKind} {num : Nat} {rest : Bytes} {r : PbFields × Option Err}
    (hs : sch num = some .bytes) (h1 : 1 ≤ num) (h2 : num ≤ 536870911) :
    ∀ (ps : List Bytes) (acc : PbFields), (∀ p ∈ ps, p.length < 2 ^ 64) →
      Dec sch rest (acc ++ repFields num ps) r → Dec sch ((ps.map (pbRepField num)).flatten ++ rest) acc r := by
  intro ps
  induction ps with
  | nil => intro acc _ h; simpa [repFields] using h
  | cons p ps ih =>
    intro acc hb h
    rw [List.map_cons, List.flatten_cons, List.append_assoc]
    apply dec_rep hs h1 h2 (hb p (List.mem_cons_self))
    apply ih _ (fun q hq => hb q (List.mem_cons_of_mem _ hq))
    simpa [repFields, List.append_assoc] using h

theorem pbBytesField_len (num : Nat) (b : Bytes) : b.length ≤ (pbBytesField num b).length := by
  unfold pbBytesField
  split
  · omega
  · simp only [List.length_append]; omega

theorem reps_len (num : Nat) : ∀ (ps : List Bytes), ∀ p ∈ ps, p.length ≤ ((ps.map (pbRepField num)).flatten).length := by
  intro ps
  induction ps with
  | nil => intro p hp; cases hp
  | cons q ps ih =>
    intro p hp
    rw [List.map_cons, List.flatten_cons, List.length_append]
    rcases List.mem_cons.mp hp with rfl | hp
    · simp only [pbRepField, List.length_append]; omega
    · have := ih p hp; omega

def compFields (m : RawMeta) : PbFields :=
  [] ++ optB 1 m.writePath ++ optB 2 m.replacementPath ++ repFields 3 m.sstablePaths

theorem dec_encCompMeta (m : RawMeta) (hf : (encCompMeta m).length < 2 ^ 64) :
    Dec compMetaSchema (encCompMeta m) [] (compFields m, none) := by
  have hl : (encCompMeta m).length = (pbBytesField 1 m.writePath).length + (pbBytesField 2 m.replacementPath).length +
      ((m.sstablePaths.map (pbRepField 3)).flatten).length := by
    simp only [encCompMeta, List.length_append]
  have h1 := pbBytesField_len 1 m.writePath
  have h2 := pbBytesField_len 2 m.replacementPath
  have h3 : ∀ p ∈ m.sstablePaths, p.length < 2 ^ 64 := by
    intro p hp
    have := reps_len 3 m.sstablePaths p hp
    omega
  have e : encCompMeta m = pbBytesField 1 m.writePath ++ (pbBytesField 2 m.replacementPath ++
      ((m.sstablePaths.map (pbRepField 3)).flatten ++ [])) := by
    simp [encCompMeta]
  rw [e]
  apply dec_bytes rfl (by omega) (by omega) (by omega)
  apply dec_bytes rfl (by omega) (by omega) (by omega)
  apply dec_reps rfl (by omega) (by omega) _ _ h3
  exact dec_nil _ _

theorem find_reps (num k : Nat) (hk : num ≠ k) (ps : List Bytes) :
    (repFields num ps).reverse.find? (·.1 == k) = none := by
  rw [List.find?_eq_none]
  intro x hx
  rw [List.mem_reverse] at hx
  simp only [repFields, List.mem_map] at hx
  obtain ⟨b, _, rfl⟩ := hx
  simp [hk]

theorem repOf_reps (num : Nat) (ps : List Bytes) : repOf (repFields num ps) num = ps := by
  induction ps with
  | nil => rfl
  | cons p ps ih =>
    simp only [repOf, repFields, List.map_cons, List.filterMap_cons] at ih ⊢
    simp [ih]

theorem repOf_append (a b : PbFields) (k : Nat) : repOf (a ++ b) k = repOf a k ++ repOf b k := by
  simp [repOf, List.filterMap_append]

theorem repOf_optB (num : Nat) (b : Bytes) (k : Nat) (hk : num ≠ k) : repOf (optB num b) k = [] := by
  by_cases h0 : b.length = 0 <;> simp [optB, repOf, h0, hk]

theorem utf8_optB (num : Nat) (b : Bytes) (h : utf8Valid b = true) : fieldsUtf8 (optB num b) = true := by
  by_cases h0 : b.length = 0 <;> simp [optB, fieldsUtf8, h0, h]

theorem utf8_reps (num : Nat) (ps : List Bytes) (h : ps.all utf8Valid = true) :
    fieldsUtf8 (repFields num ps) = true := by
  simp only [fieldsUtf8, repFields, List.all_eq_true, List.mem_map] at h ⊢
  rintro x ⟨b, hb, rfl⟩
  exact h b hb

theorem fieldsUtf8_append (a b : PbFields) : fieldsUtf8 (a ++ b) = (fieldsUtf8 a && fieldsUtf8 b) := by
  simp [fieldsUtf8, List.all_append]

/-- `proto.Unmarshal(proto.Marshal(m)) = m` for every metadata value `Marshal` accepts: empty strings, an empty path
list, empty paths inside the list, any lengths -/
theorem decCompMeta_enc (m : RawMeta) (h : MetaOk m) : decCompMeta (encCompMeta m) = some m := by
  obtain ⟨hv, hf⟩ := h
  simp only [RawMeta.valid, Bool.and_eq_true] at hv
  obtain ⟨⟨hv1, hv2⟩, hv3⟩ := hv
  have g1 : strOf (compFields m) 1 = m.writePath := by
    simp only [strOf, pbGetBytes, compFields, List.reverse_append, List.find?_append, find_optB,
      find_reps 3 1 (by decide)]
    by_cases h : m.writePath.length = 0
    · have : m.writePath = [] := List.eq_nil_of_length_eq_zero h
      simp [this]
    · simp [h]
  have g2 : strOf (compFields m) 2 = m.replacementPath := by
    simp only [strOf, pbGetBytes, compFields, List.reverse_append, List.find?_append, find_optB,
      find_reps 3 2 (by decide)]
    by_cases h : m.replacementPath.length = 0
    · have : m.replacementPath = [] := List.eq_nil_of_length_eq_zero h
      simp [this]
    · simp [h]
  have g3 : repOf (compFields m) 3 = m.sstablePaths := by
    simp only [compFields, repOf_append, repOf_optB 1 _ 3 (by decide), repOf_optB 2 _ 3 (by decide), repOf_reps]
    simp [repOf]
  have gu : fieldsUtf8 (compFields m) = true := by
    simp only [compFields, fieldsUtf8_append, utf8_optB _ _ hv1, utf8_optB _ _ hv2, utf8_reps _ _ hv3]
    simp [fieldsUtf8]
  simp only [decCompMeta, dec_pbDecode (dec_encCompMeta m hf), gu, if_true, g1, g2, g3]

/-! ## reading the flag file -/

theorem readFlag_short (comps : Nat → Compression) (file : Bytes) (h : file.length < fileHeaderSize) :
    readFlag comps (some file) = none := by
  have hp : ∃ e, parseFileHeader file = .error e := by
    unfold parseFileHeader
    rw [if_pos h]
    split
    · exact ⟨_, rfl⟩
    · exact ⟨_, rfl⟩
  obtain ⟨e, he⟩ := hp
  unfold readFlag openSeq
  simp only [he]

theorem flag_openSeq (comps : Nat → Compression) (rest : Bytes) :
    openSeq comps (fileHeader currentVersion 0 ++ rest) = .ok (comps 0, rest) := by
  have hp : parseFileHeader (fileHeader currentVersion 0 ++ rest) = .ok (currentVersion, 0) := by
    unfold fileHeader
    exact file_header_accepted currentVersion 0 rest ⟨by decide, by decide⟩ (by decide)
  have hd : (fileHeader currentVersion 0 ++ rest).drop fileHeaderSize = rest :=
    List.drop_left' (fileHeader_length _ _)
  generalize fileHeader currentVersion 0 ++ rest = file at hp hd
  unfold openSeq
  rw [hp]
  simp [hd]

theorem readFlag_of_open_ok (comps : Nat → Compression) (file s : Bytes) (c : Compression) (r : GoBytes) (n : Nat)
    (ho : openSeq comps file = .ok (c, s)) (hr : readNextS c s = .ok (r, n)) :
    readFlag comps (some file) = decCompMeta (r.getD []) := by
  unfold readFlag
  simp only [ho, hr]

theorem readFlag_of_read_err (comps : Nat → Compression) (file s : Bytes) (c : Compression) (e : Err)
    (ho : openSeq comps file = .ok (c, s)) (hr : readNextS c s = .error e) :
    readFlag comps (some file) = none := by
  unfold readFlag
  simp only [ho, hr]

theorem fits_flag (m : RawMeta) (h : MetaOk m) : FitsRec none (some (encCompMeta m)) :=
  ⟨h.fits, by simp [clenOf]⟩

/-- the complete flag file reads back as exactly the metadata written (whatever follows the record) -/
theorem flag_roundtrip (comps : Nat → Compression) (hc : comps 0 = none) (m : RawMeta) (h : MetaOk m) (t : Bytes) :
    readFlag comps (some (flagBytes m ++ t)) = some m := by
  have ho : openSeq comps (flagBytes m ++ t) = .ok (none, flagRecord m ++ t) := by
    rw [flagBytes, List.append_assoc, flag_openSeq, hc]
  have hr := readNextS_enc none (some (encCompMeta m)) t trivial (fits_flag m h)
  rw [readFlag_of_open_ok comps _ _ _ _ _ ho hr]
  exact decCompMeta_enc m h

/-- every PROPER prefix of the flag file does not read -/
theorem flag_cut_none (comps : Nat → Compression) (hc : comps 0 = none) (m : RawMeta) (h : MetaOk m) (k : Nat)
    (hk : k < (flagBytes m).length) : readFlag comps (some ((flagBytes m).take k)) = none := by
  by_cases h8 : k < fileHeaderSize
  · apply readFlag_short
    rw [List.length_take]; omega
  · have h8' : 8 ≤ k := by
      have : fileHeaderSize = 8 := rfl
      omega
    have hlen : (flagBytes m).length = 8 + (flagRecord m).length := by
      rw [flagBytes, List.length_append, fileHeader_length]
    have e : (flagBytes m).take k = fileHeader currentVersion 0 ++ (flagRecord m).take (k - 8) := by
      rw [flagBytes, List.take_append, fileHeader_length, List.take_of_length_le (by rw [fileHeader_length]; exact h8')]
    have ho : openSeq comps ((flagBytes m).take k) = .ok (none, (flagRecord m).take (k - 8)) := by
      rw [e, flag_openSeq, hc]
    rcases readNextS_trunc_err none (some (encCompMeta m)) (fits_flag m h) (k - 8)
      (by unfold flagRecord at hlen; omega) with hr | hr
    · exact readFlag_of_read_err comps _ _ _ _ ho hr
    · exact readFlag_of_read_err comps _ _ _ _ ho hr

/-! ## the calls -/

/-- the bytes a call appends -/
def payloadOf : FlagCall → Bytes
  | .write bs => bs
  | _ => []

def payload (cs : List FlagCall) : Bytes := (cs.map payloadOf).flatten

theorem payload_append (a b : List FlagCall) : payload (a ++ b) = payload a ++ payload b := by
  simp [payload]

theorem payload_cons (c : FlagCall) (cs : List FlagCall) : payload (c :: cs) = payloadOf c ++ payload cs := by
  simp [payload]

theorem applyFlagCalls_cons (f : FlagImage) (c : FlagCall) (cs : List FlagCall) :
    applyFlagCalls f (c :: cs) = applyFlagCalls (applyFlagCall f c) cs := rfl

theorem apply_some : ∀ (cs : List FlagCall) (x : Bytes), (∀ c ∈ cs, c ≠ .unlink) →
    applyFlagCalls (some x) cs = some (x ++ payload cs) := by
  intro cs
  induction cs with
  | nil => intro x _; simp [applyFlagCalls, payload]
  | cons c cs ih =>
    intro x hu
    have hc := hu c List.mem_cons_self
    have hcs : ∀ d ∈ cs, d ≠ .unlink := fun d hd => hu d (List.mem_cons_of_mem _ hd)
    rw [applyFlagCalls_cons, payload_cons]
    cases c with
    | create => simp only [applyFlagCall, Option.getD_some, payloadOf, List.nil_append]; exact ih x hcs
    | write bs => simp only [applyFlagCall, Option.map_some, payloadOf]; rw [ih _ hcs, List.append_assoc]
    | close => simp only [applyFlagCall, payloadOf, List.nil_append]; exact ih x hcs
    | unlink => exact absurd rfl hc

theorem any_write_iff : ∀ (cs : List FlagCall), (∀ bs, FlagCall.write bs ∈ cs → bs ≠ []) →
    (cs.any FlagCall.isWrite = false ↔ payload cs = []) := by
  intro cs
  induction cs with
  | nil => intro _; simp [payload]
  | cons c cs ih =>
    intro hw
    have ih' := ih (fun bs hb => hw bs (List.mem_cons_of_mem _ hb))
    rw [List.any_cons, payload_cons]
    cases c with
    | write bs =>
      have := hw bs List.mem_cons_self
      simp [FlagCall.isWrite, payloadOf, this]
    | create => simpa [FlagCall.isWrite, payloadOf] using ih'
    | close => simpa [FlagCall.isWrite, payloadOf] using ih'
    | unlink => simpa [FlagCall.isWrite, payloadOf] using ih'

/-- a call list that a writer issues: a `create` first, no `unlink`, every `write` carries bytes -/
structure WriterCalls (fcs : List FlagCall) : Prop where
  first : ∃ rest, fcs = .create :: rest
  nounlink : ∀ c ∈ fcs, c ≠ .unlink
  nonempty : ∀ bs, FlagCall.write bs ∈ fcs → bs ≠ []

theorem writer_image (fcs : List FlagCall) (h : WriterCalls fcs) (n : Nat) :
    applyFlagCalls none (fcs.take n) = (if n = 0 then none else some (payload (fcs.take n))) := by
  obtain ⟨rest, rfl⟩ := h.first
  cases n with
  | zero => rfl
  | succ k =>
    rw [if_neg (by omega), List.take_succ_cons, applyFlagCalls_cons]
    have : applyFlagCall none .create = some [] := rfl
    rw [this, apply_some _ _ (fun c hc => h.nounlink c (List.mem_cons_of_mem _ (List.mem_of_mem_take hc)))]
    rw [payload_cons]
    rfl

theorem writer_done (fcs : List FlagCall) (h : WriterCalls fcs) (n : Nat) :
    flagDone fcs n = true ↔ payload (fcs.drop n) = [] := by
  unfold flagDone
  rw [← any_write_iff _ (fun bs hb => h.nonempty bs (List.mem_of_mem_drop hb))]
  simp

theorem writer_split (fcs : List FlagCall) (n : Nat) : payload (fcs.take n) ++ payload (fcs.drop n) = payload fcs := by
  rw [← payload_append, List.take_append_drop]

/-- every prefix of a writer's calls, in terms of the bytes `F` all its writes add up to -/
theorem writer_prefix (fcs : List FlagCall) (h : WriterCalls fcs) (F : Bytes) (hF : payload fcs = F) (hpos : F ≠ [])
    (n : Nat) :
    ∃ w, w ≤ F.length ∧
      applyFlagCalls none (fcs.take n) = (if n = 0 then none else some (F.take w)) ∧
      (flagDone fcs n = true ↔ (n ≠ 0 ∧ w = F.length)) := by
  have hs := writer_split fcs n
  rw [hF] at hs
  have hl : (payload (fcs.take n)).length + (payload (fcs.drop n)).length = F.length := by
    rw [← hs, List.length_append]
  have ht : F.take (payload (fcs.take n)).length = payload (fcs.take n) := by
    rw [← hs, List.take_left' rfl]
  refine ⟨(payload (fcs.take n)).length, by omega, ?_, ?_⟩
  · rw [writer_image fcs h n, ht]
  · rw [writer_done fcs h n]
    constructor
    · intro h0
      rw [h0] at hl
      simp only [List.length_nil, Nat.add_zero] at hl
      refine ⟨?_, hl⟩
      intro hn
      subst hn
      rw [List.take_zero] at hl
      have : F.length = 0 := by rw [← hl]; rfl
      exact hpos (List.eq_nil_of_length_eq_zero this)
    · rintro ⟨_, hw⟩
      exact List.eq_nil_of_length_eq_zero (by omega)

/-! ## `emitF` -/

theorem emitF_payload (stream : Bytes) (avail : Nat) : ∀ (ns : List Nat) (w : Nat),
    stream.take w ++ payload (emitF stream avail ns w).1 = stream.take (emitF stream avail ns w).2 := by
  intro ns
  induction ns with
  | nil => intro w; simp [emitF, payload]
  | cons n ns ih =>
    intro w
    simp only [emitF]
    by_cases hm : min n (avail - w) = 0
    · rw [if_pos hm, hm, Nat.add_zero]; exact ih w
    · rw [if_neg hm, payload_cons]
      simp only [payloadOf]
      rw [← List.append_assoc, ← List.take_add, ih]

theorem emitF_mem (stream : Bytes) (avail : Nat) (ha : avail ≤ stream.length) : ∀ (ns : List Nat) (w : Nat),
    ∀ c ∈ (emitF stream avail ns w).1, ∃ bs, c = .write bs ∧ bs ≠ [] := by
  intro ns
  induction ns with
  | nil => intro w c hc; simp [emitF] at hc
  | cons n ns ih =>
    intro w c hc
    simp only [emitF] at hc
    split at hc
    · exact ih _ c hc
    · rename_i hm
      rcases List.mem_cons.mp hc with rfl | hc
      · refine ⟨_, rfl, ?_⟩
        intro h0
        have := congrArg List.length h0
        simp only [List.length_take, List.length_drop, List.length_nil] at this
        omega
      · exact ih _ c hc

/-! ## `flagCalls` -/

theorem flagBytes_length (m : RawMeta) : (flagBytes m).length = 8 + (flagRecord m).length := by
  rw [flagBytes, List.length_append, fileHeader_length]

theorem flagBytes_ne (m : RawMeta) : flagBytes m ≠ [] := by
  intro h
  have := flagBytes_length m
  rw [h, List.length_nil] at this
  omega

def flagTail (sizes : List Nat) (m : RawMeta) : List FlagCall :=
  (emitF (flagBytes m) (flagBytes m).length sizes fileHeaderSize).1 ++
    (if ((flagBytes m).drop (emitF (flagBytes m) (flagBytes m).length sizes fileHeaderSize).2).isEmpty then []
     else [.write ((flagBytes m).drop (emitF (flagBytes m) (flagBytes m).length sizes fileHeaderSize).2)]) ++ [.close]

theorem flagCalls_valid (sizes : List Nat) (m : RawMeta) (hv : m.valid = true) :
    flagCalls sizes m = flagOpenCalls ++ flagTail sizes m := by
  unfold flagCalls flagTail
  rw [if_pos hv]
  simp only [List.append_assoc]

theorem flagTail_mem (sizes : List Nat) (m : RawMeta) :
    ∀ c ∈ flagTail sizes m, c = .close ∨ ∃ bs, c = .write bs ∧ bs ≠ [] := by
  intro c hc
  unfold flagTail at hc
  rcases List.mem_append.mp hc with hc | hc
  · rcases List.mem_append.mp hc with hc | hc
    · exact .inr (emitF_mem _ _ (Nat.le_refl _) _ _ c hc)
    · split at hc
      · cases hc
      · rename_i hne
        rcases List.mem_singleton.mp hc with rfl
        refine .inr ⟨_, rfl, ?_⟩
        intro h0
        rw [h0] at hne
        exact hne rfl
  · exact .inl (List.mem_singleton.mp hc)

theorem flagTail_payload (sizes : List Nat) (m : RawMeta) :
    fileHeader currentVersion 0 ++ payload (flagTail sizes m) = flagBytes m := by
  have h8 : fileHeader currentVersion 0 = (flagBytes m).take fileHeaderSize := by
    rw [flagBytes]
    exact (List.take_left' (fileHeader_length _ _)).symm
  unfold flagTail
  rw [payload_append, payload_append, ← List.append_assoc, ← List.append_assoc, h8, emitF_payload]
  generalize (emitF (flagBytes m) (flagBytes m).length sizes fileHeaderSize).2 = e
  split
  · rename_i he
    have : (flagBytes m).drop e = [] := by simpa using he
    have h2 := List.take_append_drop e (flagBytes m)
    rw [this] at h2
    simp only [payload, List.map_nil, List.flatten_nil, List.map_cons, payloadOf, List.flatten_cons, List.append_nil]
      at h2 ⊢
    exact h2
  · simp only [payload, List.map_nil, List.flatten_nil, List.map_cons, payloadOf, List.flatten_cons, List.append_nil]
    rw [List.take_append_drop]

theorem flagOpen_writer (tl : List FlagCall) (ht : ∀ c ∈ tl, c = .close ∨ ∃ bs, c = .write bs ∧ bs ≠ []) :
    WriterCalls (flagOpenCalls ++ tl) := by
  have hh : fileHeader currentVersion 0 ≠ [] := by
    intro h0
    have := fileHeader_length currentVersion 0
    rw [h0] at this
    cases this
  refine ⟨⟨_, rfl⟩, ?_, ?_⟩
  · intro c hc
    rcases List.mem_append.mp hc with hc | hc
    · unfold flagOpenCalls at hc
      simp only [List.mem_cons, List.not_mem_nil, or_false] at hc
      rcases hc with rfl | rfl | rfl | rfl <;> intro h <;> cases h
    · rcases ht c hc with rfl | ⟨bs, rfl, _⟩ <;> intro h <;> cases h
  · intro bs hb
    rcases List.mem_append.mp hb with hb | hb
    · unfold flagOpenCalls at hb
      simp only [List.mem_cons, List.not_mem_nil, or_false] at hb
      rcases hb with h | h | h | h
      · cases h
      · cases h
      · cases h
      · injection h with h; rw [h]; exact hh
    · rcases ht _ hb with h | ⟨bs', h, hne⟩
      · cases h
      · injection h with h; rw [h]; exact hne

theorem flagOpen_payload (tl : List FlagCall) :
    payload (flagOpenCalls ++ tl) = fileHeader currentVersion 0 ++ payload tl := by
  rw [payload_append]
  rfl

/-- the flag file after `n` calls of `saveCompactionMetadata`: absent, or a prefix of the final file, which is complete
exactly when no `write` call remains -/
theorem flag_prefix_image (sizes : List Nat) (m : RawMeta) (hv : m.valid = true) (n : Nat) :
    ∃ w, w ≤ (flagBytes m).length ∧
      applyFlagCalls none ((flagCalls sizes m).take n) = (if n = 0 then none else some ((flagBytes m).take w)) ∧
      (flagDone (flagCalls sizes m) n = true ↔ (n ≠ 0 ∧ w = (flagBytes m).length)) := by
  rw [flagCalls_valid sizes m hv]
  exact writer_prefix _ (flagOpen_writer _ (flagTail_mem sizes m)) (flagBytes m)
    (by rw [flagOpen_payload, flagTail_payload]) (flagBytes_ne m) n

theorem flag_calls_complete (sizes : List Nat) (m : RawMeta) (hv : m.valid = true) :
    applyFlagCalls none (flagCalls sizes m) = some (flagBytes m) := by
  rw [flagCalls_valid sizes m hv]
  have hw := flagOpen_writer _ (flagTail_mem sizes m)
  have h := writer_image _ hw (flagOpenCalls ++ flagTail sizes m).length
  rw [List.take_length, flagOpen_payload, flagTail_payload] at h
  rw [h, if_neg]
  simp [flagOpenCalls]

/-- `flagDone` is monotone in the number of calls -/
theorem flagDone_mono (fcs : List FlagCall) {j j' : Nat} (hj : j ≤ j') (h : flagDone fcs j = true) :
    flagDone fcs j' = true := by
  unfold flagDone at h ⊢
  cases hany : (fcs.drop j').any FlagCall.isWrite with
  | false => rfl
  | true =>
    exfalso
    rw [List.any_eq_true] at hany
    obtain ⟨x, hx, hxw⟩ := hany
    have hd : fcs.drop j' = (fcs.drop j).drop (j' - j) := by
      rw [List.drop_drop]; congr 1; omega
    rw [hd] at hx
    have : (fcs.drop j).any FlagCall.isWrite = true :=
      List.any_eq_true.mpr ⟨x, List.mem_of_mem_drop hx, hxw⟩
    rw [this] at h
    cases h

/-- the classification of every prefix: unreadable until the last `write` has completed, then exactly `m` -/
theorem flag_prefix (comps : Nat → Compression) (hc : comps 0 = none) (m : RawMeta) (h : MetaOk m) (sizes : List Nat)
    (n : Nat) :
    readFlag comps (applyFlagCalls none ((flagCalls sizes m).take n)) =
      if flagDone (flagCalls sizes m) n then some m else none := by
  obtain ⟨w, hw, himg, hdone⟩ := flag_prefix_image sizes m h.valid n
  rw [himg]
  by_cases hn : n = 0
  · have hd : ¬ flagDone (flagCalls sizes m) n = true := fun hd => (hdone.mp hd).1 hn
    rw [if_pos hn, if_neg hd]
    rfl
  · rw [if_neg hn]
    by_cases hfull : w = (flagBytes m).length
    · rw [if_pos (hdone.mpr ⟨hn, hfull⟩), List.take_of_length_le (by omega)]
      have := flag_roundtrip comps hc m h []
      rw [List.append_nil] at this
      exact this
    · have hd : ¬ flagDone (flagCalls sizes m) n = true := fun hd => hfull (hdone.mp hd).2
      rw [if_neg hd]
      exact flag_cut_none comps hc m h w (by omega)

theorem flagCalls_invalid (sizes : List Nat) (m : RawMeta) (hv : m.valid = false) :
    flagCalls sizes m = flagOpenCalls ++ [.close] := by
  unfold flagCalls
  rw [if_neg (by rw [hv]; exact Bool.false_ne_true)]

/-- metadata that `proto.Marshal` rejects never produces a readable flag -/
theorem flag_invalid_never_reads (comps : Nat → Compression) (hc : comps 0 = none) (m : RawMeta)
    (hv : m.valid = false) (sizes : List Nat) (n : Nat) :
    readFlag comps (applyFlagCalls none ((flagCalls sizes m).take n)) = none := by
  have _ := hc
  rw [flagCalls_invalid sizes m hv]
  have hW : WriterCalls (flagOpenCalls ++ [.close]) :=
    flagOpen_writer _ (fun c hc => .inl (List.mem_singleton.mp hc))
  have hP : payload (flagOpenCalls ++ [FlagCall.close]) = fileHeader currentVersion 0 := by
    rw [flagOpen_payload]; simp [payload, payloadOf]
  have hne : fileHeader currentVersion 0 ≠ [] := by
    intro h0
    have := fileHeader_length currentVersion 0
    rw [h0] at this
    cases this
  obtain ⟨w, hw, himg, _⟩ := writer_prefix _ hW _ hP hne n
  rw [himg]
  by_cases hn : n = 0
  · rw [if_pos hn]; rfl
  · rw [if_neg hn]
    rw [fileHeader_length] at hw
    by_cases h8 : w < 8
    · apply readFlag_short
      rw [List.length_take]
      show min w _ < 8
      omega
    · rw [List.take_of_length_le (by rw [fileHeader_length]; omega)]
      have ho := flag_openSeq comps []
      rw [List.append_nil] at ho
      exact readFlag_of_read_err comps _ _ _ _ ho (readNextS_nil _)

end SST.Proofs.CompDir
