/-
L7, the write path and Close: `PutBytes` / `Put` / `DeleteBytes` / `Delete` / `Close` of the byte-level stack
against `DBM`.  The memstore steps go through `Proofs.MemP.step_sim` (C14): the memstore model never panics,
answers as its reference map and keeps its invariant; `RWMemstore.Delete` (Delete, then Tombstone on
KeyNotFound) is the layer's "bind the key to a tombstone".
-/
import SST.Proofs.StackFlush
namespace SST.Proofs.Stack
open SST SST.Stack SST.DBM Generated

/-- binding a key in the reference map is `Layer.set` on the layer -/
theorem memRel_put {m m' : Mem.MemStore} {l : Layer} (h : MemRel m l) (hw : Proofs.MemP.WF m') (k : Bytes)
    (cell : Mem.Cell) (hv : Proofs.MemP.view m' = Mem.RefMap.put k cell (Proofs.MemP.view m)) :
    MemRel m' (Layer.set l k cell.toGo) := by
  refine ⟨hw, nodup_layer_set h.nodup k _, ?_⟩
  intro k'
  rw [Proofs.DB.layerGet_set, hv, Proofs.MemP.ref_get_put, h.get k']
  by_cases hk : k' = k <;> simp [hk]

theorem upsert_step {m : Mem.MemStore} (hw : Proofs.MemP.WF m) (kb vb : Bytes) (ht : Nat) (hh : 1 ≤ ht) :
    ∃ m', Mem.step m (.upsert (some kb) (some vb)) ht = (.err none, m') ∧ Proofs.MemP.WF m' ∧
      Proofs.MemP.view m' = Mem.RefMap.put kb (.val vb) (Proofs.MemP.view m) := by
  obtain ⟨h1, h2, h3⟩ := Proofs.MemP.step_sim hw (.upsert (some kb) (some vb)) ht hh
  exact ⟨_, Prod.ext h1 rfl, h2, h3⟩

theorem put_sim {P : Params} (hP : ParamsOk P) {c : Stack.State} {s : DBM.State} (h : Rel P c s)
    (k v : GoBytes) (rot : Bool) (ht : Nat) (hh : 1 ≤ ht) (hf : rot = true → FitsMem P c.r) :
    ∃ c', Stack.putBytes P c k v rot ht = .ok (c', .db (DBM.putBytes s k v rot).2) ∧
      Rel P c' (DBM.putBytes s k v rot).1 := by
  unfold Stack.putBytes DBM.putBytes
  cases k with
  | none => exact ⟨c, rfl, h⟩
  | some kb =>
    cases v with
    | none => exact ⟨c, by simp, h⟩
    | some vb =>
      simp only [Option.getD_some]
      by_cases he : (kb.isEmpty || vb.isEmpty) = true
      · simp only [he, if_true]; exact ⟨c, rfl, h⟩
      · simp only [he, Bool.false_eq_true, if_false]
        rw [show (!c.isOpen || c.closed) = (!s.isOpen || s.closed) by rw [h.isOpen, h.closed]]
        by_cases hu : (!s.isOpen || s.closed) = true
        · simp only [hu, if_true]; exact ⟨c, rfl, h⟩
        · simp only [hu, Bool.false_eq_true, if_false]
          obtain ⟨w', hs, hw', hv'⟩ := upsert_step h.w.wf kb vb ht hh
          rw [hs]
          have hrel : Rel P { c with w := w' } { s with w := s.w.set kb (some vb) } :=
            { h with w := memRel_put h.w hw' kb (.val vb) hv' }
          cases rot with
          | false => exact ⟨_, rfl, hrel⟩
          | true =>
            obtain ⟨c'', hr, hrel'⟩ := rotate_sim hP hrel (hf rfl)
            simp only [if_true, hr]
            exact ⟨_, rfl, hrel'⟩

theorem putStr_sim {P : Params} (hP : ParamsOk P) {c : Stack.State} {s : DBM.State} (h : Rel P c s)
    (k v : Bytes) (rot : Bool) (ht : Nat) (hh : 1 ≤ ht) (hf : rot = true → FitsMem P c.r) :
    ∃ c', Stack.putStr P c k v rot ht = .ok (c', .db (DBM.putStr s k v rot).2) ∧
      Rel P c' (DBM.putStr s k v rot).1 := by
  unfold Stack.putStr DBM.putStr
  by_cases he : (k.isEmpty || v.isEmpty) = true
  · simp only [he, if_true]; exact ⟨c, rfl, h⟩
  · simp only [he, Bool.false_eq_true, if_false]
    exact put_sim hP h (some k) (some v) rot ht hh hf

/-- `RWMemstore.Delete` on the write store: whatever the store held for the key, it now holds a tombstone -/
theorem delete_steps {m : Mem.MemStore} (hw : Proofs.MemP.WF m) (k : GoBytes) (ht : Nat) (hh : 1 ≤ ht) :
    ∃ m', Proofs.MemP.WF m' ∧
      Proofs.MemP.view m' = Mem.RefMap.put (k.getD []) .tomb (Proofs.MemP.view m) ∧
      (Mem.step m (.delete k) ht = (.err none, m') ∨
        ∃ m1, Mem.step m (.delete k) ht = (.err (some .keyNotFound), m1) ∧
          Mem.step m1 (.tombstone k) ht = (.err none, m')) := by
  obtain ⟨h1, h2, h3⟩ := Proofs.MemP.step_sim hw (.delete k) ht hh
  simp only [Mem.refStep] at h1 h3
  cases hg : Mem.RefMap.get (k.getD []) (Proofs.MemP.view m) with
  | some cell =>
    rw [hg] at h1 h3
    exact ⟨_, h2, h3, Or.inl (Prod.ext h1 rfl)⟩
  | none =>
    rw [hg] at h1 h3
    simp only at h1 h3
    obtain ⟨i1, i2, i3⟩ := Proofs.MemP.step_sim h2 (.tombstone k) ht hh
    simp only [Mem.refStep] at i1 i3
    rw [h3] at i3
    exact ⟨_, i2, i3, Or.inr ⟨_, Prod.ext h1 rfl, Prod.ext i1 rfl⟩⟩

theorem del_sim {P : Params} {c : Stack.State} {s : DBM.State} (h : Rel P c s)
    (k : GoBytes) (ht : Nat) (hh : 1 ≤ ht) :
    (Stack.deleteBytes c k ht).2 = .db (DBM.deleteBytes s k).2 ∧
      Rel P (Stack.deleteBytes c k ht).1 (DBM.deleteBytes s k).1 := by
  unfold Stack.deleteBytes DBM.deleteBytes
  rw [show (!c.isOpen || c.closed) = (!s.isOpen || s.closed) by rw [h.isOpen, h.closed]]
  by_cases hu : (!s.isOpen || s.closed) = true
  · simp only [hu, if_true]; exact ⟨trivial, h⟩
  · simp only [hu, Bool.false_eq_true, if_false]
    obtain ⟨m', hw', hv', hst⟩ := delete_steps h.w.wf k ht hh
    have hrel : Rel P { c with w := m' } { s with w := s.w.set (k.getD []) none } :=
      { h with w := memRel_put h.w hw' (k.getD []) .tomb hv' }
    rcases hst with hs | ⟨m1, hs1, hs2⟩
    · rw [hs]; exact ⟨rfl, hrel⟩
    · rw [hs1]; simp only [hs2]; exact ⟨trivial, hrel⟩

theorem rotate_r {P : Params} {c c1 : Stack.State} (h : Stack.rotate P c = .ok c1) : c1.r = c.w := by
  unfold Stack.rotate at h
  cases hf : Stack.flushStep P c with
  | error f => rw [hf] at h; cases h
  | ok c0 =>
    rw [hf] at h
    cases h
    exact (flush_w hf).1

theorem close_sim {P : Params} (hP : ParamsOk P) {c : Stack.State} {s : DBM.State} (h : Rel P c s)
    (hf : FitsMem P c.r ∧ FitsMem P c.w) :
    ∃ c', Stack.close P c = .ok (c', .db (DBM.close s).2) ∧ Rel P c' (DBM.close s).1 := by
  unfold Stack.close DBM.close
  rw [show (!c.isOpen || c.closed) = (!s.isOpen || s.closed) by rw [h.isOpen, h.closed]]
  by_cases hu : (!s.isOpen || s.closed) = true
  · simp only [hu, if_true]; exact ⟨c, rfl, h⟩
  · simp only [hu, Bool.false_eq_true, if_false]
    obtain ⟨c1, h1, r1⟩ := rotate_sim hP h hf.1
    have hr : c1.r = c.w := rotate_r h1
    obtain ⟨c2, h2, r2⟩ := flush_sim hP r1 (by rw [hr]; exact hf.2)
    rw [h1]
    simp only [h2]
    exact ⟨_, rfl, { r2 with closed := rfl }⟩

end SST.Proofs.Stack
