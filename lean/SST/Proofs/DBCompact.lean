/-
Helper lemmas for L6: the shape of one compaction cycle — a contiguous run of tables is replaced by its merge.
-/
import SST.Proofs.DBLayers
import SST.Proofs.DBFlood
namespace SST.Proofs.DB
open SST SST.DBM

/-- a strictly increasing list of numbers without gaps is an interval -/
theorem eq_range'_of_closed (l : List Nat) (a : Nat) (hp : (a :: l).Pairwise (· < ·))
    (hc : ∀ x y z, x ∈ a :: l → z ∈ a :: l → x < y → y < z → y ∈ a :: l) :
    a :: l = List.range' a (l.length + 1) := by
  induction l generalizing a with
  | nil => simp [List.range'_succ]
  | cons b l ih =>
    rw [List.pairwise_cons] at hp
    obtain ⟨hab, hp'⟩ := hp
    have hlt : a < b := hab b (by simp)
    have hb : b = a + 1 := by
      by_cases h : a + 1 < b
      · have hm := hc a (a + 1) b (by simp) (by simp) (by omega) h
        simp only [List.mem_cons] at hm
        rcases hm with (hm | hm | hm)
        · omega
        · omega
        · rw [List.pairwise_cons] at hp'
          have := hp'.1 _ hm
          omega
      · omega
    have := ih b hp' (by
      intro x y z hx hz hxy hyz
      have hm := hc x y z (List.mem_cons_of_mem _ hx) (List.mem_cons_of_mem _ hz) hxy hyz
      rcases List.mem_cons.1 hm with (hm | hm)
      · have hbx : b ≤ x := by
          rcases List.mem_cons.1 hx with (e | e)
          · omega
          · rw [List.pairwise_cons] at hp'
            exact Nat.le_of_lt (hp'.1 _ e)
        omega
      · exact hm)
    rw [List.range'_succ, List.length_cons, ← hb, ← this]

theorem filterMap_getElem?_mid (pre mid post : List Tbl) :
    (List.range' pre.length mid.length).filterMap (fun i => (pre ++ mid ++ post)[i]?) = mid := by
  induction mid generalizing pre with
  | nil => simp
  | cons m mid ih =>
    rw [List.length_cons, List.range'_succ, List.filterMap_cons]
    have h0 : (pre ++ m :: mid ++ post)[pre.length]? = some m := by simp
    rw [h0]
    have := ih (pre ++ [m])
    simp only [List.length_append, List.length_cons, List.length_nil, List.append_assoc,
      List.cons_append, List.nil_append] at this
    simp only [List.append_assoc, List.cons_append]
    rw [this]

theorem zip_flatMap_keep (g : Nat × Tbl → List Tbl) (is : List Nat) (ts : List Tbl)
    (hl : is.length = ts.length) (h : ∀ i ∈ is, ∀ t, g (i, t) = [t]) : (is.zip ts).flatMap g = ts := by
  induction is generalizing ts with
  | nil => cases ts with
    | nil => rfl
    | cons _ _ => simp at hl
  | cons i is ih =>
    cases ts with
    | nil => simp at hl
    | cons t ts =>
      rw [List.zip_cons_cons, List.flatMap_cons, h i (by simp),
        ih ts (by simpa using hl) (fun j hj => h j (List.mem_cons_of_mem _ hj))]
      rfl

theorem zip_flatMap_drop (g : Nat × Tbl → List Tbl) (is : List Nat) (ts : List Tbl)
    (h : ∀ i ∈ is, ∀ t, g (i, t) = []) : (is.zip ts).flatMap g = [] := by
  induction is generalizing ts with
  | nil => simp
  | cons i is ih =>
    cases ts with
    | nil => simp
    | cons t ts =>
      rw [List.zip_cons_cons, List.flatMap_cons, h i (by simp),
        ih ts (fun j hj => h j (List.mem_cons_of_mem _ hj))]
      rfl

/-- `reflectCompactionResult` on an interval of indices -/
theorem reflect_interval (pre : List Tbl) (t0 : Tbl) (sel' post : List Tbl) (merged : Tbl) :
    ((List.range (pre ++ (t0 :: sel') ++ post).length).zip (pre ++ (t0 :: sel') ++ post)).flatMap
      (fun (p : Nat × Tbl) => if p.1 == pre.length then [merged]
        else if (List.range' pre.length (sel'.length + 1)).contains p.1 then [] else [p.2])
    = pre ++ [merged] ++ post := by
  have hr : List.range (pre ++ (t0 :: sel') ++ post).length =
      List.range' 0 pre.length ++ (pre.length :: List.range' (pre.length + 1) sel'.length) ++
        List.range' (pre.length + (sel'.length + 1)) post.length := by
    rw [List.range_eq_range', ← List.range'_succ]
    have := @List.range'_append 0 pre.length (sel'.length + 1) 1
    simp only [Nat.zero_add, Nat.one_mul] at this
    rw [this]
    have := @List.range'_append 0 (pre.length + (sel'.length + 1)) post.length 1
    simp only [Nat.zero_add, Nat.one_mul] at this
    rw [this]
    congr 1
    simp only [List.length_append, List.length_cons]
  rw [hr, List.zip_append (by simp), List.zip_append (by simp), List.flatMap_append, List.flatMap_append,
    List.zip_cons_cons, List.flatMap_cons]
  rw [zip_flatMap_keep _ _ pre (by simp), zip_flatMap_drop, zip_flatMap_keep _ _ post (by simp)]
  · simp
  · intro i hi t
    rw [List.mem_range'_1] at hi
    have h1 : ¬ i = pre.length := by omega
    have h2 : ¬ (pre.length ≤ i ∧ i < pre.length + (sel'.length + 1)) := by omega
    simp [h1, List.mem_range'_1, h2]
  · intro i hi t
    rw [List.mem_range'_1] at hi
    have h1 : ¬ i = pre.length := by omega
    have h2 : pre.length ≤ i ∧ i < pre.length + (sel'.length + 1) := by omega
    simp [h1, List.mem_range'_1, h2]
  · intro i hi t
    rw [List.mem_range'_1] at hi
    have h1 : ¬ i = pre.length := by omega
    have h2 : ¬ (pre.length ≤ i ∧ i < pre.length + (sel'.length + 1)) := by omega
    simp [h1, List.mem_range'_1, h2]

theorem split_interval (ts : List Tbl) (a m : Nat) (h : a + m ≤ ts.length) :
    ∃ pre mid post, ts = pre ++ mid ++ post ∧ pre.length = a ∧ mid.length = m := by
  refine ⟨ts.take a, (ts.drop a).take m, ts.drop (a + m), ?_, ?_, ?_⟩
  · rw [List.append_assoc, ← List.drop_drop, List.take_append_drop, List.take_append_drop]
  · simp; omega
  · simp; omega

theorem reflect_interval' (pre : List Tbl) (t0 : Tbl) (sel' post : List Tbl) (merged : Tbl)
    (ts : List Tbl) (idx : List Nat) (hts : ts = pre ++ (t0 :: sel') ++ post)
    (hidx : idx = List.range' pre.length (sel'.length + 1)) :
    ((List.range ts.length).zip ts).flatMap
      (fun (x : Nat × Tbl) => match x with
        | (i, t) => if i == pre.length then [merged] else if idx.contains i then [] else [t])
    = pre ++ [merged] ++ post := by
  subst hts hidx
  exact reflect_interval pre t0 sel' post merged

theorem compactStep_spec (s : State) (sizes : List Nat) :
    (compactStep s sizes).1 = s ∨
    ∃ pre t0 sel' post, s.tables = pre ++ (t0 :: sel') ++ post ∧
      (compactStep s sizes).1 = { s with tables :=
        pre ++ [{ gen := t0.gen, cells := mergeRun (t0 :: sel') (pre.length == 0) }] ++ post } := by
  unfold compactStep
  extract_lets flags idx sel
  have hcont : Contiguous flags := floodFill_contiguous _
  have hidx : idx = (List.range s.tables.length).filter (fun i => flags.getD i false) := rfl
  have hsel : sel = idx.filterMap (fun i => s.tables[i]?) := rfl
  clear_value sel idx flags
  by_cases hth : (idx.length : Int) ≤ s.opts.threshold
  · left; rw [if_pos hth]
  · simp only [if_neg hth]
    cases idx with
    | nil => left; rfl
    | cons first rest =>
      have hpw : (first :: rest).Pairwise (· < ·) := by
        rw [hidx]; exact List.Pairwise.sublist List.filter_sublist List.pairwise_lt_range
      have hmem : ∀ x, x ∈ first :: rest ↔ x < s.tables.length ∧ flags.getD x false = true := by
        intro x; rw [hidx, List.mem_filter, List.mem_range]
      have hr := eq_range'_of_closed rest first hpw (by
        intro x y z hx hz hxy hyz
        rw [hmem] at hx hz ⊢
        exact ⟨by omega, hcont x y z hxy hyz hx.2 hz.2⟩)
      have hlast : first + rest.length < s.tables.length := by
        have : first + rest.length ∈ first :: rest := by rw [hr, List.mem_range'_1]; omega
        exact ((hmem _).1 this).1
      obtain ⟨pre, mid, post, htab, hpl, hml⟩ := split_interval s.tables first (rest.length + 1) (by omega)
      subst hpl
      have hsel' : sel = mid := by
        rw [hsel, hr, htab, ← hml]; exact filterMap_getElem?_mid pre mid post
      subst hsel'
      cases sel with
      | nil => simp at hml
      | cons t0 sel' =>
        right
        refine ⟨pre, t0, sel', post, htab, ?_⟩
        have hrl : rest.length = sel'.length := by simpa using hml.symm
        rw [hrl] at hr
        exact congrArg (fun T => ({ s with tables := T } : State))
          (reflect_interval' pre t0 sel' post _ s.tables (pre.length :: rest) htab hr)

/-- one compaction cycle only replaces the table list, by one that reads the same everywhere and whose table
numbers are a sub-sequence of the old ones -/
theorem compactStep_tables (s : State) (sizes : List Nat) :
    ∃ T, (compactStep s sizes).1 = { s with tables := T } ∧
      (∀ k, vis (tablesGet T k) = vis (tablesGet s.tables k)) ∧
      (GensOk s → GensOk { s with tables := T }) := by
  rcases compactStep_spec s sizes with (h | ⟨pre, t0, sel', post, htab, h⟩)
  · exact ⟨s.tables, by rw [h], fun _ => rfl, fun hg => hg⟩
  · refine ⟨_, h, ?_, ?_⟩
    · intro k
      rw [htab]
      exact vis_tablesGet_merge pre (t0 :: sel') post t0.gen (pre.length == 0)
        (by intro hd; exact List.eq_nil_of_length_eq_zero (by simpa using hd)) k
    · rintro ⟨hp, hm⟩
      rw [htab] at hp hm
      constructor
      · refine List.Pairwise.sublist ?_ hp
        simp
      · intro t ht
        simp only [List.mem_append, List.mem_cons, List.not_mem_nil, or_false] at ht
        rcases ht with ((ht | ht) | ht)
        · exact hm t (by simp [ht])
        · subst ht; exact hm t0 (by simp)
        · exact hm t (by simp [ht])

end SST.Proofs.DB
