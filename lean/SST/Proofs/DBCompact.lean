/-
Helper lemmas for L6: the shape of one compaction cycle — a contiguous run of tables is replaced by its merge.
-/
import SST.Proofs.DBLayers
import SST.Proofs.DBFlood
namespace SST.Proofs.DB
open SST SST.DBM

/-- a strictly increasing list of numbers without gaps is an interval -/
theorem eq_range'_of_closed (l : List Nat) (a : Nat) (hp : (a :: l).Pairwise (· < ·))
    (hc : ∀ x y z, x ∈ a :: l → z ∈ a :: l → x < y → y < z → y ∈ a :: l) :
    a :: l = List.range' a (l.length + 1) := by
  induction l generalizing a with
  | nil => simp [List.range'_succ]
  | cons b l ih =>
    rw [List.pairwise_cons] at hp
    obtain ⟨hab, hp'⟩ := hp
    have hlt : a < b := hab b (by simp)
    have hb : b = a + 1 := by
      by_cases h : a + 1 < b
      · have hm := hc a (a + 1) b (by simp) (by simp) (by omega) h
        simp only [List.mem_cons] at hm
        rcases hm with (hm | hm | hm)
        · omega
        · omega
        · rw [List.pairwise_cons] at hp'
          have := hp'.1 _ hm
          omega
      · omega
    have := ih b hp' (by
      intro x y z hx hz hxy hyz
      have hm := hc x y z (List.mem_cons_of_mem _ hx) (List.mem_cons_of_mem _ hz) hxy hyz
      rcases List.mem_cons.1 hm with (hm | hm)
      · have hbx : b ≤ x := by
          rcases List.mem_cons.1 hx with (e | e)
          · omega
          · rw [List.pairwise_cons] at hp'
            exact Nat.le_of_lt (hp'.1 _ e)
        omega
      · exact hm)
    rw [List.range'_succ, List.length_cons, ← hb, ← this]

theorem filterMap_getElem?_mid (pre mid post : List Tbl) :
    (List.range' pre.length mid.length).filterMap (fun i => (pre ++ mid ++ post)[i]?) = mid := by
  induction mid generalizing pre with
  | nil => simp
  | cons m mid ih =>
    rw [List.length_cons, List.range'_succ, List.filterMap_cons]
    have h0 : (pre ++ m :: mid ++ post)[pre.length]? = some m := by simp
    rw [h0]
    have := ih (pre ++ [m])
    simp only [List.length_append, List.length_cons, List.length_nil, List.append_assoc,
      List.cons_append, List.nil_append] at this
    simp only [List.append_assoc, List.cons_append]
    rw [this]

theorem zip_flatMap_keep (g : Nat × Tbl → List Tbl) (is : List Nat) (ts : List Tbl)
    (hl : is.length = ts.length) (h : ∀ i ∈ is, ∀ t, g (i, t) = [t]) : (is.zip ts).flatMap g = ts := by
  induction is generalizing ts with
  | nil => cases ts with
    | nil => rfl
    | cons _ _ => simp at hl
  | cons i is ih =>
    cases ts with
    | nil => simp at hl
    | cons t ts =>
      rw [List.zip_cons_cons, List.flatMap_cons, h i (by simp),
        ih ts (by simpa using hl) (fun j hj => h j (List.mem_cons_of_mem _ hj))]
      rfl

theorem zip_flatMap_drop (g : Nat × Tbl → List Tbl) (is : List Nat) (ts : List Tbl)
    (h : ∀ i ∈ is, ∀ t, g (i, t) = []) : (is.zip ts).flatMap g = [] := by
  induction is generalizing ts with
  | nil => simp
  | cons i is ih =>
    cases ts with
    | nil => simp
    | cons t ts =>
      rw [List.zip_cons_cons, List.flatMap_cons, h i (by simp),
        ih ts (fun j hj => h j (List.mem_cons_of_mem _ hj))]
      rfl

/-- `reflectCompactionResult` on an interval of indices -/
theorem reflect_interval (pre : List Tbl) (t0 : Tbl) (sel' post : List Tbl) (merged : Tbl) :
    ((List.range (pre ++ (t0 :: sel') ++ post).length).zip (pre ++ (t0 :: sel') ++ post)).flatMap
      (fun (p : Nat × Tbl) => if p.1 == pre.length then [merged]
        else if (List.range' pre.length (sel'.length + 1)).contains p.1 then [] else [p.2])
    = pre ++ [merged] ++ post := by
  have hr : List.range (pre ++ (t0 :: sel') ++ post).length =
      List.range' 0 pre.length ++ (pre.length :: List.range' (pre.length + 1) sel'.length) ++
        List.range' (pre.length + (sel'.length + 1)) post.length := by
    rw [List.range_eq_range', ← List.range'_succ]
    have := @List.range'_append 0 pre.length (sel'.length + 1) 1
    simp only [Nat.zero_add, Nat.one_mul] at this
    rw [this]
    have := @List.range'_append 0 (pre.length + (sel'.length + 1)) post.length 1
    simp only [Nat.zero_add, Nat.one_mul] at this
    rw [this]
    congr 1
    simp only [List.length_append, List.length_cons]
  rw [hr, List.zip_append (by simp), List.zip_append (by simp), List.flatMap_append, List.flatMap_append,
    List.zip_cons_cons, List.flatMap_cons]
  rw [zip_flatMap_keep _ _ pre (by simp), zip_flatMap_drop, zip_flatMap_keep _ _ post (by simp)]
  · simp
  · intro i hi t
    rw [List.mem_range'_1] at hi
    have h1 : ¬ i = pre.length := by omega
    have h2 : ¬ (pre.length ≤ i ∧ i < pre.length + (sel'.length + 1)) := by omega
    simp [h1, List.mem_range'_1, h2]
  · intro i hi t
    rw [List.mem_range'_1] at hi
    have h1 : ¬ i = pre.length := by omega
    have h2 : pre.length ≤ i ∧ i < pre.length + (sel'.length + 1) := by omega
    simp [h1, List.mem_range'_1, h2]
  · intro i hi t
    rw [List.mem_range'_1] at hi
    have h1 : ¬ i = pre.length := by omega
    have h2 : ¬ (pre.length ≤ i ∧ i < pre.length + (sel'.length + 1)) := by omega
    simp [h1, List.mem_range'_1, h2]

end SST.Proofs.DB
