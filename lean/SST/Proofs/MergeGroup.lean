/-
The accumulate/emit loop of the compaction iterator over a SORTED merged sequence: it reduces, for every key,
ALL items with that key (equal keys arrive adjacently), and with the provided latest-wins reducers the result
is the overlay of the tables the items came from.
-/
import SST.Proofs.MergeSpec
namespace SST.Proofs.MergeGroup
open SST SST.Merge SST.Proofs.MergeOrd SST.Proofs.MergeSpec

/-- a merged item with its key normalised to bytes (nil = empty) -/
abbrev TItem := Bytes × GoBytes × Nat

def nk (k : GoBytes) : Bytes := k.getD []

def normAll (D : List (GoBytes × GoBytes × Nat)) : List TItem := D.map fun o => (nk o.1, o.2.1, o.2.2)

theorem normKey_eq (k : GoBytes) : normKey k = some (nk k) := by cases k <;> rfl

theorem nk_pbKey (k : Bytes) : nk (pbKey k) = k := by cases k <;> rfl

theorem goCmp_nk (a b : GoBytes) : goCmp a b = bytesCmp (nk a) (nk b) := rfl

/-- the value (if any) a reducer emits for a group -/
abbrev ValFn := List GoBytes → List Nat → Option Bytes

/-- `reduce` keeps the key it is given and emits `f values contexts` (nothing when that is `none`) -/
def ValReducer (reduce : ReduceFn) (f : ValFn) : Prop :=
  ∀ (k : Bytes) (vs : List GoBytes) (cs : List Nat),
    emitOf (reduce (some k) vs cs) = (match f vs cs with | some b => [(some k, some b)] | none => [])

def sameKey (k : Bytes) (L : List TItem) : List TItem := L.filter fun x => x.1 == k
def otherKey (k : Bytes) (L : List TItem) : List TItem := L.filter fun x => !(x.1 == k)
def valsOf (L : List TItem) : List GoBytes := L.map (·.2.1)
def ctxsOf (L : List TItem) : List Nat := L.map (·.2.2)

def headOf (f : ValFn) (k : Bytes) (vs : List GoBytes) (cs : List Nat) : Table :=
  match f vs cs with
  | some b => [(k, some b)]
  | none => []

/-- per key: reduce ALL items with that key (wherever they are) -/
def groupTbl (f : ValFn) : List TItem → Table
  | [] => []
  | (k, v, c) :: rest =>
    headOf f k (v :: valsOf (sameKey k rest)) (c :: ctxsOf (sameKey k rest)) ++ groupTbl f (otherKey k rest)
termination_by l => l.length
decreasing_by
  simp only [otherKey, List.length_cons]
  exact Nat.lt_succ_of_le (List.length_filter_le _ _)

theorem asItems_headOf {reduce : ReduceFn} {f : ValFn} (hr : ValReducer reduce f) (k : Bytes)
    (vs : List GoBytes) (cs : List Nat) : asItems (headOf f k vs cs) = emitOf (reduce (some k) vs cs) := by
  rw [hr k vs cs]
  unfold headOf
  cases f vs cs <;> rfl

theorem le_antisymm' {a b : Bytes} (h1 : bytesCmp a b ≠ .gt) (h2 : bytesCmp b a ≠ .gt) : a = b := by
  cases h : bytesCmp a b with
  | eq => exact bytesCmp_eq_iff.mp h
  | gt => exact absurd h h1
  | lt => exact absurd (bytesCmp_gt_iff.mpr h) h2

/-- the loop with a group in progress, over the rest of a sorted sequence -/
theorem groupRun_some {reduce : ReduceFn} {f : ValFn} (hr : ValReducer reduce f) :
    ∀ (D : List (GoBytes × GoBytes × Nat)) (p : Bytes) (vb : List GoBytes) (cb : List Nat), vb.length > 0 →
      (∀ x ∈ D, bytesCmp p (nk x.1) ≠ .gt) → D.Pairwise (fun a b => goCmp a.1 b.1 ≠ .gt) →
      groupRun reduce (some p) vb cb D =
        asItems (headOf f p (vb ++ valsOf (sameKey p (normAll D))) (cb ++ ctxsOf (sameKey p (normAll D)))
          ++ groupTbl f (otherKey p (normAll D))) := by
  intro D
  induction D with
  | nil =>
    intro p vb cb hvb _ _
    simp only [groupRun, hvb, if_true, normAll, List.map_nil, sameKey, otherKey, List.filter_nil, valsOf,
      ctxsOf, List.append_nil, groupTbl]
    exact (asItems_headOf hr p vb cb).symm
  | cons x rest ih =>
    intro p vb cb hvb hge hsorted
    obtain ⟨k, v, c⟩ := x
    obtain ⟨hhead, hrest⟩ := List.pairwise_cons.mp hsorted
    have hge_rest : ∀ x ∈ rest, bytesCmp p (nk x.1) ≠ .gt := fun x hx => hge x (List.mem_cons_of_mem _ hx)
    have hpk : bytesCmp p (nk k) ≠ .gt := hge (k, v, c) List.mem_cons_self
    simp only [groupRun, normKey_eq, Option.isSome_some, Bool.true_and]
    have hgo : goCmp (some (nk k)) (some p) = bytesCmp (nk k) p := rfl
    rw [hgo]
    by_cases hkp : nk k = p
    · -- same key: the group grows
      have : (bytesCmp (nk k) p != .eq) = false := by
        rw [hkp, bytesCmp_refl]; rfl
      simp only [this, Bool.false_eq_true, if_false]
      rw [hkp, ih p (vb ++ [v]) (cb ++ [c]) (by simp) hge_rest hrest]
      have hn : normAll ((k, v, c) :: rest) = (p, v, c) :: normAll rest := by
        simp [normAll, hkp]
      rw [hn]
      simp [sameKey, otherKey, valsOf, ctxsOf]
    · -- key change: reduce the group, start the next one
      have hne : (bytesCmp (nk k) p != .eq) = true := by
        cases hc : bytesCmp (nk k) p with
        | eq => exact absurd (bytesCmp_eq_iff.mp hc) hkp
        | lt => rfl
        | gt => rfl
      simp only [hne, if_true]
      have hge' : ∀ x ∈ rest, bytesCmp (nk k) (nk x.1) ≠ .gt := fun x hx => hhead x hx
      rw [ih (nk k) [v] [c] (by simp) hge' hrest]
      -- nothing in the whole sequence has key p
      have hnone : ∀ y ∈ normAll ((k, v, c) :: rest), y.1 ≠ p := by
        intro y hy
        simp only [normAll, List.map_cons, List.mem_cons, List.mem_map] at hy
        rcases hy with rfl | ⟨x, hx, rfl⟩
        · exact hkp
        · intro hxp
          simp only at hxp
          have h1 : bytesCmp (nk k) (nk x.1) ≠ .gt := hhead x hx
          rw [hxp] at h1
          exact hkp (le_antisymm' h1 hpk)
      have hsame : sameKey p (normAll ((k, v, c) :: rest)) = [] := by
        unfold sameKey
        rw [List.filter_eq_nil_iff]
        intro y hy
        simpa using hnone y hy
      have hother : otherKey p (normAll ((k, v, c) :: rest)) = normAll ((k, v, c) :: rest) := by
        unfold otherKey
        rw [List.filter_eq_self]
        intro y hy
        simpa using hnone y hy
      rw [hsame, hother]
      have hn : normAll ((k, v, c) :: rest) = (nk k, v, c) :: normAll rest := by simp [normAll]
      rw [hn, groupTbl]
      simp only [valsOf, ctxsOf, List.map_nil, List.append_nil, asItems, List.map_append, List.singleton_append]
      congr 1
      have := asItems_headOf hr p vb cb
      simp only [asItems] at this
      exact this.symm

/-- the compaction of a sorted merged sequence reduces, per key, all items with that key -/
theorem compactOf_sorted {reduce : ReduceFn} {f : ValFn} (hr : ValReducer reduce f)
    (D : List (GoBytes × GoBytes × Nat)) (hsorted : D.Pairwise (fun a b => goCmp a.1 b.1 ≠ .gt)) :
    compactOf reduce D = asItems (groupTbl f (normAll D)) := by
  unfold compactOf
  cases D with
  | nil => simp [groupRun, normAll, groupTbl, asItems]
  | cons x rest =>
    obtain ⟨k, v, c⟩ := x
    obtain ⟨hhead, hrest⟩ := List.pairwise_cons.mp hsorted
    simp only [groupRun, Option.isSome_none, Bool.false_and, Bool.false_eq_true, if_false, normKey_eq,
      List.nil_append]
    rw [groupRun_some hr rest (nk k) [v] [c] (by simp) (fun x hx => hhead x hx) hrest]
    have hn : normAll ((k, v, c) :: rest) = (nk k, v, c) :: normAll rest := by simp [normAll]
    rw [hn, groupTbl]
    simp

/-! ### what `groupTbl` contains -/

theorem filter_same_other (k k' : Bytes) (h : k' ≠ k) (L : List TItem) :
    sameKey k' (otherKey k L) = sameKey k' L := by
  unfold sameKey otherKey
  rw [List.filter_filter]
  apply List.filter_congr
  intro x _
  by_cases hx : x.1 = k'
  · simp [hx, h]
  · simp [hx]

theorem groupTbl_mem (f : ValFn) : ∀ (L : List TItem) (k : Bytes) (gv : GoBytes),
    (k, gv) ∈ groupTbl f L ↔
      ∃ b, gv = some b ∧ (∃ x ∈ L, x.1 = k) ∧ f (valsOf (sameKey k L)) (ctxsOf (sameKey k L)) = some b := by
  intro L
  induction L using groupTbl.induct with
  | case1 => intro k gv; simp [groupTbl]
  | case2 k0 v0 c0 rest ih =>
    intro k gv
    rw [groupTbl, List.mem_append]
    have hsame0 : sameKey k0 ((k0, v0, c0) :: rest) = (k0, v0, c0) :: sameKey k0 rest := by
      simp [sameKey]
    constructor
    · rintro (hh | ht)
      · unfold headOf at hh
        cases hf : f (v0 :: valsOf (sameKey k0 rest)) (c0 :: ctxsOf (sameKey k0 rest)) with
        | none => rw [hf] at hh; cases hh
        | some b =>
          rw [hf] at hh
          simp only [List.mem_singleton, Prod.mk.injEq] at hh
          obtain ⟨rfl, rfl⟩ := hh
          refine ⟨b, rfl, ⟨(k, v0, c0), List.mem_cons_self, rfl⟩, ?_⟩
          rw [hsame0]
          simpa [valsOf, ctxsOf] using hf
      · obtain ⟨b, hb, ⟨x, hx, hxk⟩, hfv⟩ := (ih k gv).mp ht
        have hxo := List.mem_filter.mp hx
        have hne : k ≠ k0 := by
          intro hkk
          have := hxo.2
          rw [hxk, hkk] at this
          simp at this
        refine ⟨b, hb, ⟨x, List.mem_cons_of_mem _ hxo.1, hxk⟩, ?_⟩
        rw [filter_same_other k0 k hne] at hfv
        have : sameKey k ((k0, v0, c0) :: rest) = sameKey k rest := by
          simp [sameKey, Ne.symm hne]
        rw [this]; exact hfv
    · rintro ⟨b, rfl, ⟨x, hx, hxk⟩, hfv⟩
      by_cases hkk : k = k0
      · subst hkk
        left
        rw [hsame0] at hfv
        unfold headOf
        have : f (v0 :: valsOf (sameKey k rest)) (c0 :: ctxsOf (sameKey k rest)) = some b := by
          simpa [valsOf, ctxsOf] using hfv
        rw [this]
        simp
      · right
        apply (ih k (some b)).mpr
        have hxr : x ∈ rest := by
          rcases List.mem_cons.mp hx with rfl | hm
          · exact absurd hxk.symm hkk
          · exact hm
        have hsame : sameKey k ((k0, v0, c0) :: rest) = sameKey k rest := by
          simp [sameKey, Ne.symm hkk]
        refine ⟨b, rfl, ⟨x, List.mem_filter.mpr ⟨hxr, by simp [hxk, hkk]⟩, hxk⟩, ?_⟩
        rw [filter_same_other k0 k hkk, ← hsame]
        exact hfv

theorem groupTbl_asc (f : ValFn) : ∀ (L : List TItem),
    L.Pairwise (fun a b => bytesCmp a.1 b.1 ≠ .gt) → Asc (groupTbl f L) := by
  intro L
  induction L using groupTbl.induct with
  | case1 => intro _; rw [groupTbl]; exact asc_nil
  | case2 k0 v0 c0 rest ih =>
    intro hs
    obtain ⟨hhead, hrest⟩ := List.pairwise_cons.mp hs
    rw [groupTbl]
    have hfilt : (otherKey k0 rest).Pairwise (fun a b => bytesCmp a.1 b.1 ≠ .gt) := hrest.filter _
    apply List.pairwise_append.mpr
    refine ⟨?_, ih hfilt, ?_⟩
    · unfold headOf
      cases f (v0 :: valsOf (sameKey k0 rest)) (c0 :: ctxsOf (sameKey k0 rest)) <;> simp
    · intro a ha b hb
      have hak : a.1 = k0 := by
        unfold headOf at ha
        cases hf : f (v0 :: valsOf (sameKey k0 rest)) (c0 :: ctxsOf (sameKey k0 rest)) with
        | none => rw [hf] at ha; cases ha
        | some bb => rw [hf] at ha; simp at ha; rw [ha]
      obtain ⟨kb, gvb⟩ := b
      obtain ⟨_, _, ⟨x, hx, hxk⟩, _⟩ := (groupTbl_mem f _ kb gvb).mp hb
      have hxo := List.mem_filter.mp hx
      have h1 : bytesCmp k0 x.1 ≠ .gt := hhead x hxo.1
      have h2 : k0 ≠ x.1 := by
        intro hh
        have := hxo.2
        rw [← hh] at this
        simp at this
      rw [hak]
      simp only
      rw [← hxk]
      exact bytesCmp_lt_of_le_ne h1 h2

/-! ### the provided reducers -/

/-- `ScanReduceLatestWins` as a value function: the value at the first index of the largest context -/
def lwVal : ValFn := fun vs cs => vs.getD (maxCtxIndex cs 0 0 0) none

/-- `…SkipTombstones`: additionally nothing for an empty value -/
def skipVal : ValFn := fun vs cs =>
  match lwVal vs cs with
  | some (b :: bs) => some (b :: bs)
  | _ => none

theorem emitOf_some (k : Bytes) (x : GoBytes) :
    emitOf (some k, x) = (match x with | some b => [(some k, some b)] | none => []) := by
  cases x <;> simp [emitOf, bothNonNil]

theorem emitOf_skip (k : Bytes) (x : GoBytes) :
    emitOf (if (x.getD []).length = 0 then ((none, none) : GoBytes × GoBytes) else (some k, x)) =
      (match (match x with | some (b :: bs) => some (b :: bs) | _ => none : Option Bytes) with
        | some b => [(some k, some b)]
        | none => []) := by
  cases x with
  | none => simp [emitOf, bothNonNil]
  | some b => cases b <;> simp [emitOf, bothNonNil]

theorem lw_valReducer : ValReducer scanReduceLatestWins lwVal := by
  intro k vs cs
  exact emitOf_some k _

theorem skip_valReducer : ValReducer scanReduceLatestWinsSkipTombstones skipVal := by
  intro k vs cs
  exact emitOf_skip k _

/-- the loop of `ScanReduceLatestWins` finds an index of a largest context -/
theorem maxCtxIndex_spec : ∀ (xs pre : List Nat) (m mi : Nat), (∀ c ∈ pre, c ≤ m) →
    ((mi < pre.length ∧ (pre ++ xs)[mi]? = some m) ∨ (m = 0 ∧ mi = 0)) →
    ∃ M, (∀ c ∈ pre ++ xs, c ≤ M) ∧
      ((maxCtxIndex xs m mi pre.length < (pre ++ xs).length ∧
          (pre ++ xs)[maxCtxIndex xs m mi pre.length]? = some M) ∨
        (M = 0 ∧ maxCtxIndex xs m mi pre.length = 0)) := by
  intro xs
  induction xs with
  | nil =>
    intro pre m mi hle hinv
    refine ⟨m, by simpa using hle, ?_⟩
    simp only [maxCtxIndex, List.append_nil] at hinv ⊢
    rcases hinv with ⟨h1, h2⟩ | h
    · exact Or.inl ⟨h1, h2⟩
    · exact Or.inr h
  | cons x xs ih =>
    intro pre m mi hle hinv
    have happ : pre ++ x :: xs = (pre ++ [x]) ++ xs := by simp
    have hlen : (pre ++ [x]).length = pre.length + 1 := by simp
    simp only [maxCtxIndex]
    by_cases hx : x > m
    · simp only [hx, if_true]
      have := ih (pre ++ [x]) x pre.length
        (by
          intro c hc
          rcases List.mem_append.mp hc with hc | hc
          · have := hle c hc; omega
          · simp at hc; omega)
        (Or.inl ⟨by simp, by simp⟩)
      rw [hlen, ← happ] at this
      exact this
    · simp only [hx, if_false]
      have := ih (pre ++ [x]) m mi
        (by
          intro c hc
          rcases List.mem_append.mp hc with hc | hc
          · exact hle c hc
          · simp at hc; omega)
        (by
          rcases hinv with ⟨h1, h2⟩ | h
          · exact Or.inl ⟨by simp; omega, by rw [← happ]; exact h2⟩
          · exact Or.inr h)
      rw [hlen, ← happ] at this
      exact this

/-- on a non-empty group the latest-wins value is the value of an item whose context is largest -/
theorem lwVal_spec (E : List TItem) (hne : E ≠ []) :
    ∃ x ∈ E, lwVal (valsOf E) (ctxsOf E) = x.2.1 ∧ ∀ y ∈ E, y.2.2 ≤ x.2.2 := by
  obtain ⟨M, hmax, hidx⟩ := maxCtxIndex_spec (ctxsOf E) [] 0 0 (by simp) (Or.inr ⟨rfl, rfl⟩)
  simp only [List.nil_append, List.length_nil] at hmax hidx
  -- in both cases the index is in range and holds the maximum
  have hj : ∃ j, maxCtxIndex (ctxsOf E) 0 0 0 = j ∧ j < E.length ∧ (ctxsOf E)[j]? = some M := by
    rcases hidx with ⟨h1, h2⟩ | ⟨hM, h0⟩
    · exact ⟨_, rfl, by simpa [ctxsOf] using h1, h2⟩
    · cases E with
      | nil => exact absurd rfl hne
      | cons e rest =>
        refine ⟨0, h0, by simp, ?_⟩
        have : e.2.2 ≤ M := hmax e.2.2 (by simp [ctxsOf])
        simp [ctxsOf]; omega
  obtain ⟨j, hjeq, hjlt, hjM⟩ := hj
  refine ⟨E[j], List.getElem_mem hjlt, ?_, ?_⟩
  · simp only [lwVal, hjeq, valsOf]
    rw [List.getD_eq_getElem?_getD, List.getElem?_map, List.getElem?_eq_getElem hjlt]
    rfl
  · intro y hy
    have hyM : y.2.2 ≤ M := hmax y.2.2 (by simp only [ctxsOf]; exact List.mem_map_of_mem hy)
    have : E[j].2.2 = M := by
      simp only [ctxsOf, List.getElem?_map, List.getElem?_eq_getElem hjlt, Option.map_some,
        Option.some.injEq] at hjM
      exact hjM
    omega

/-- the index computed by the reducer is always in range for the groups the iterator builds
(`values[maxCtxIndex]` does not panic) -/
theorem maxCtxIndex_lt (cs : List Nat) (hne : cs ≠ []) : maxCtxIndex cs 0 0 0 < cs.length := by
  obtain ⟨M, hmax, hidx⟩ := maxCtxIndex_spec cs [] 0 0 (by simp) (Or.inr ⟨rfl, rfl⟩)
  simp only [List.nil_append, List.length_nil] at hidx
  rcases hidx with ⟨h1, _⟩ | ⟨_, h0⟩
  · exact h1
  · rw [h0]; cases cs with
    | nil => exact absurd rfl hne
    | cons _ _ => simp

/-! ### tying the merged sequence to the tables it came from -/

/-- `L` is a sorted sequence holding exactly the records of the tables `Ss`, each tagged with the position
of its table -/
structure MergedFrom (Ss : List Table) (L : List TItem) : Prop where
  sorted : L.Pairwise (fun a b => bytesCmp a.1 b.1 ≠ .gt)
  mem : ∀ (k : Bytes) (v : GoBytes) (c : Nat), (k, v, c) ∈ L ↔ ∃ S, Ss[c]? = some S ∧ (k, v) ∈ S

theorem lw_newest {Ss : List Table} {L : List TItem} (hts : ∀ t ∈ Ss, Asc t) (hm : MergedFrom Ss L)
    (k : Bytes) (hne : sameKey k L ≠ []) :
    newestValue Ss k = some (lwVal (valsOf (sameKey k L)) (ctxsOf (sameKey k L))) := by
  obtain ⟨x, hx, hval, hmaxc⟩ := lwVal_spec (sameKey k L) hne
  obtain ⟨kx, vx, cx⟩ := x
  have hxf := List.mem_filter.mp hx
  have hkx : kx = k := by simpa using hxf.2
  subst hkx
  obtain ⟨S, hS, hmemS⟩ := (hm.mem kx vx cx).mp hxf.1
  rw [hval]
  apply newestValue_some_iff.mpr
  refine ⟨cx, S, hS, mem_tget (hts S (List.mem_of_getElem? hS)) hmemS, ?_⟩
  intro c' t' hcc ht'
  cases hg : tget t' kx with
  | none => rfl
  | some v' =>
    have hin : (kx, v', c') ∈ L := (hm.mem kx v' c').mpr ⟨t', ht', tget_mem hg⟩
    have hin' : (kx, v', c') ∈ sameKey kx L := List.mem_filter.mpr ⟨hin, by simp⟩
    have := hmaxc _ hin'
    simp only at this
    omega

theorem sameKey_ne_nil_iff {L : List TItem} {k : Bytes} : sameKey k L ≠ [] ↔ ∃ x ∈ L, x.1 = k := by
  unfold sameKey
  rw [Ne, List.filter_eq_nil_iff]
  simp

/-- latest wins over a complete sorted merge = the live part of the overlay -/
theorem groupTbl_lw {Ss : List Table} {L : List TItem} (hts : ∀ t ∈ Ss, Asc t) (hm : MergedFrom Ss L) :
    groupTbl lwVal L = live (overlay Ss) := by
  apply asc_ext_mem (groupTbl_asc lwVal L hm.sorted) (filter_asc _ (overlay_asc Ss))
  intro k gv
  rw [groupTbl_mem]
  rw [List.mem_filter, ← tget_some_iff (overlay_asc Ss), tget_overlay hts]
  constructor
  · rintro ⟨b, rfl, hex, hf⟩
    have := lw_newest hts hm k (sameKey_ne_nil_iff.mpr hex)
    rw [hf] at this
    exact ⟨this, rfl⟩
  · rintro ⟨hnv, hsome⟩
    obtain ⟨c, t, hc, hg, _⟩ := newestValue_some_iff.mp hnv
    have hin : (k, gv, c) ∈ L := (hm.mem k gv c).mpr ⟨t, hc, tget_mem hg⟩
    have hex : ∃ x ∈ L, x.1 = k := ⟨_, hin, rfl⟩
    have := lw_newest hts hm k (sameKey_ne_nil_iff.mpr hex)
    rw [hnv] at this
    cases gv with
    | none => cases hsome
    | some b => exact ⟨b, rfl, hex, (Option.some.inj this).symm⟩

/-- latest wins, skipping tombstones (nil AND empty newest values) -/
theorem groupTbl_skip {Ss : List Table} {L : List TItem} (hts : ∀ t ∈ Ss, Asc t) (hm : MergedFrom Ss L) :
    groupTbl skipVal L = liveNonEmpty (overlay Ss) := by
  apply asc_ext_mem (groupTbl_asc skipVal L hm.sorted) (filter_asc _ (overlay_asc Ss))
  intro k gv
  rw [groupTbl_mem]
  rw [List.mem_filter, ← tget_some_iff (overlay_asc Ss), tget_overlay hts]
  constructor
  · rintro ⟨b, rfl, hex, hf⟩
    have := lw_newest hts hm k (sameKey_ne_nil_iff.mpr hex)
    unfold skipVal at hf
    cases hl : lwVal (valsOf (sameKey k L)) (ctxsOf (sameKey k L)) with
    | none => rw [hl] at hf; cases hf
    | some bb =>
      rw [hl] at hf this
      cases bb with
      | nil => cases hf
      | cons b0 bs =>
        simp only [Option.some.injEq] at hf
        subst hf
        exact ⟨this, by simp⟩
  · rintro ⟨hnv, hlen⟩
    obtain ⟨c, t, hc, hg, _⟩ := newestValue_some_iff.mp hnv
    have hin : (k, gv, c) ∈ L := (hm.mem k gv c).mpr ⟨t, hc, tget_mem hg⟩
    have hex : ∃ x ∈ L, x.1 = k := ⟨_, hin, rfl⟩
    have := lw_newest hts hm k (sameKey_ne_nil_iff.mpr hex)
    rw [hnv] at this
    have hl := (Option.some.inj this).symm
    cases gv with
    | none => simp at hlen
    | some b =>
      cases b with
      | nil => simp at hlen
      | cons b0 bs =>
        refine ⟨b0 :: bs, rfl, hex, ?_⟩
        unfold skipVal
        rw [hl]

end SST.Proofs.MergeGroup
