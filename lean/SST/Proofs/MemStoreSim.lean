/-
Simulation between the memstore model and the reference map: the well-formedness invariant of the model
state (skip list invariant, every stored pointer allocated, no pointer shared by two nodes, size estimate =
byte sum), its preservation by every call, and equality of every result.
-/
import SST.Proofs.MemStore
namespace SST.Proofs.MemP
open SST SST.Mem SkipList

/-- the (key, pointer) pairs of the skip list in level-0 order -/
def kv (m : MemStore) : List (GoBytes × Nat) := m.sl.nodes.map fun n => (n.key, n.val)

/-- the cell a pointer denotes -/
def cellAt (heap : List GoBytes) (p : Nat) : Cell := cellOf ((heap[p]?).getD none)

/-- abstraction function: the reference map a model state denotes -/
def view (m : MemStore) : RefMap := viewL (cellAt m.heap) (kv m)

structure WF (m : MemStore) : Prop where
  inv : Inv goCmp m.sl.nodes
  valid : ∀ e ∈ kv m, e.2 < m.heap.length
  nodup : ((kv m).map (·.2)).Nodup
  est : m.est = ((RefMap.bytes (view m) : Nat) : Int)

theorem wf_empty : WF MemStore.empty :=
  ⟨inv_empty goCmp, nofun, List.nodup_nil, rfl⟩

theorem view_empty : view MemStore.empty = [] := rfl

theorem kv_sorted {m : MemStore} (hw : WF m) : (kv m).Pairwise fun a b => goCmp a.1 b.1 = .lt := by
  unfold kv
  rw [List.pairwise_map]
  exact hw.inv.sorted

theorem viewL_sorted (f : Nat → Cell) (l : List (GoBytes × Nat))
    (h : l.Pairwise fun a b => goCmp a.1 b.1 = .lt) : RSorted (viewL f l) := by
  unfold RSorted viewL
  rw [List.pairwise_map]
  exact h

theorem view_sorted {m : MemStore} (hw : WF m) : RSorted (view m) := viewL_sorted _ _ (kv_sorted hw)

theorem view_length (m : MemStore) : (view m).length = m.sl.size := by
  simp [view, viewL, kv, SkipList.size]

theorem get_kv {m : MemStore} (hw : WF m) (k : GoBytes) :
    SkipList.get goCmp m.sl k = ((kv m).find? fun e => goCmp k e.1 == .eq).map (·.2) :=
  get_spec goCmp_lawful m.sl hw.inv k

theorem cellOf_len (v : GoBytes) : ((cellOf v).len : Int) = goLen v := by
  cases v <;> rfl

theorem toGo_cellOf (v : GoBytes) : (cellOf v).toGo = v := by
  cases v <;> rfl

/-- what `find` returns, in terms of the reference map -/
theorem find_spec {m : MemStore} (hw : WF m) (k : GoBytes) :
    match find m k with
    | .absent => RefMap.get (k.getD []) (view m) = none ∧ SkipList.get goCmp m.sl k = none
    | .cell p cur => RefMap.get (k.getD []) (view m) = some (cellOf cur) ∧
        (∃ kk, (kk, p) ∈ kv m ∧ kk.getD [] = k.getD []) ∧ m.heap[p]? = some cur ∧
        SkipList.get goCmp m.sl k = some p
    | .wild => False := by
  have hg := get_kv hw k
  have hv : RefMap.get (k.getD []) (view m) = _ := get_viewL (cellAt m.heap) k (kv m)
  unfold find
  cases hf : (kv m).find? fun e => goCmp k e.1 == .eq with
  | none =>
    rw [hf] at hg hv
    simp only [Option.map_none] at hg hv
    rw [hg]
    exact ⟨hv, by first | rfl | trivial⟩
  | some e =>
    rw [hf] at hg hv
    simp only [Option.map_some] at hg hv
    have hmem : e ∈ kv m := List.mem_of_find?_eq_some hf
    have heq : goCmp k e.1 = .eq := by simpa using List.find?_some hf
    have hlt := hw.valid e hmem
    have hcur : m.heap[e.2]? = some m.heap[e.2] := List.getElem?_eq_getElem hlt
    rw [hg]
    simp only [hcur]
    refine ⟨?_, ⟨e.1, hmem, ((goCmp_eq_iff _ _).1 heq).symm⟩, by first | rfl | trivial, by first | rfl | trivial⟩
    rw [hv]
    simp [cellAt, hcur]

/-- `skipListMap.Contains` agrees with `Get` -/
theorem contains_eq {m : MemStore} (k : GoBytes) :
    SkipList.contains goCmp m.sl k = (SkipList.get goCmp m.sl k).isSome := rfl

/-- inserting a fresh key with a freshly allocated pointer = `put` on the reference map -/
theorem sim_alloc {m : MemStore} (hw : WF m) (k v : GoBytes) (h : Nat) (hh : 1 ≤ h) (delta : Int)
    (hab : SkipList.get goCmp m.sl k = none) (hd : delta = goLen k + goLen v) :
    ∃ m', alloc m k v h delta = some m' ∧ WF m' ∧
      view m' = RefMap.put (k.getD []) (cellOf v) (view m) := by
  have hfind : (kv m).find? (fun e => goCmp k e.1 == .eq) = none := by
    have := get_kv hw k
    rw [hab] at this
    cases hf : (kv m).find? (fun e => goCmp k e.1 == .eq) with
    | none => rfl
    | some e => rw [hf] at this; cases this
  have hnekv : ∀ e ∈ kv m, goCmp k e.1 ≠ .eq := by
    intro e he
    have := List.find?_eq_none.1 hfind e he
    simpa using this
  have hne : ∀ n ∈ m.sl.nodes, goCmp k n.key ≠ .eq := by
    intro n hn
    exact hnekv (n.key, n.val) (List.mem_map_of_mem hn)
  obtain ⟨sl', hins, hi', hmap, _, _⟩ :=
    insert_spec goCmp_lawful m.sl hw.inv k m.heap.length h hh hne
  let m' : MemStore := { sl := sl', heap := m.heap ++ [v], est := m.est + delta }
  have hkv : kv m' = sortedInsert goCmp k m.heap.length (kv m) := hmap
  have hperm := sortedInsert_perm goCmp k m.heap.length (kv m)
  have hvalid : ∀ e ∈ kv m', e.2 < m'.heap.length := by
    intro e he
    rw [hkv] at he
    have he' := hperm.mem_iff.1 he
    show e.2 < (m.heap ++ [v]).length
    rw [List.length_append]
    rcases List.mem_cons.1 he' with rfl | he'
    · simp
    · have := hw.valid e he'; simp; omega
  have hold : viewL (cellAt m'.heap) (kv m) = viewL (cellAt m.heap) (kv m) := by
    apply viewL_congr
    intro e he
    have hlt := hw.valid e he
    show cellAt (m.heap ++ [v]) e.2 = cellAt m.heap e.2
    unfold cellAt
    rw [List.getElem?_append_left hlt]
  have hnew : cellAt m'.heap m.heap.length = cellOf v := by
    show cellAt (m.heap ++ [v]) m.heap.length = cellOf v
    unfold cellAt
    simp
  have hview : view m' = RefMap.put (k.getD []) (cellOf v) (view m) := by
    show viewL (cellAt m'.heap) (kv m') = _
    rw [hkv, viewL_sortedInsert _ _ _ _ hnekv, hnew, hold]
    rfl
  refine ⟨m', ?_, ⟨hi', hvalid, ?_, ?_⟩, hview⟩
  · simp only [alloc, hins]; rfl
  · rw [hkv]
    have hp2 : ((sortedInsert goCmp k m.heap.length (kv m)).map (·.2)).Perm
        (m.heap.length :: (kv m).map (·.2)) := by
      simpa using hperm.map (·.2)
    rw [hp2.nodup_iff, List.nodup_cons]
    refine ⟨?_, hw.nodup⟩
    intro hmem
    obtain ⟨e, he, hep⟩ := List.mem_map.1 hmem
    have := hw.valid e he
    omega
  · have hget : RefMap.get (k.getD []) (view m) = none := by
      show RefMap.get (k.getD []) (viewL _ _) = none
      rw [get_viewL, hfind]; rfl
    have hb := bytes_put (k.getD []) (cellOf v) (view m) (view_sorted hw)
    rw [hget] at hb
    simp only at hb
    show m.est + delta = _
    rw [hview, hw.est, hd, ← cellOf_len v]
    have hk : goLen k = (((k.getD []).length : Nat) : Int) := rfl
    rw [hk]
    omega

/-- assigning through the pointer of a present key = `put` on the reference map -/
theorem sim_store {m : MemStore} (hw : WF m) (k : GoBytes) (p : Nat) (cur v : GoBytes) (delta : Int)
    (hget : RefMap.get (k.getD []) (view m) = some (cellOf cur))
    (hmem : ∃ kk, (kk, p) ∈ kv m ∧ kk.getD [] = k.getD [])
    (hd : delta = - goLen cur + goLen v) :
    WF (store m p v delta) ∧ view (store m p v delta) = RefMap.put (k.getD []) (cellOf v) (view m) := by
  obtain ⟨kk, hkk, hkeq⟩ := hmem
  have hlt : p < m.heap.length := hw.valid _ hkk
  have hcell : cellAt (m.heap.set p v) = fun q => if q = p then cellOf v else cellAt m.heap q := by
    funext q
    unfold cellAt
    by_cases hq : q = p
    · subst hq; simp [hlt]
    · have : p ≠ q := fun h => hq h.symm
      simp [hq, List.getElem?_set_ne this]
  have hview : view (store m p v delta) = RefMap.put (k.getD []) (cellOf v) (view m) := by
    show viewL (cellAt (m.heap.set p v)) (kv m) = _
    rw [hcell, viewL_update _ p _ kk (kv m) (kv_sorted hw) hw.nodup hkk, hkeq]
    rfl
  refine ⟨⟨hw.inv, ?_, hw.nodup, ?_⟩, hview⟩
  · intro e he
    show e.2 < (m.heap.set p v).length
    rw [List.length_set]
    exact hw.valid e he
  · have hb := bytes_put (k.getD []) (cellOf v) (view m) (view_sorted hw)
    rw [hget] at hb
    simp only at hb
    show m.est + delta = _
    rw [hview, hw.est, hd, ← cellOf_len v, ← cellOf_len cur]
    omega

/-- one call: same result, invariant kept, abstraction commutes -/
theorem step_sim {m : MemStore} (hw : WF m) (op : Op) (h : Nat) (hh : 1 ≤ h) :
    (step m op h).1 = (refStep (view m) op).1 ∧ WF (step m op h).2 ∧
      view (step m op h).2 = (refStep (view m) op).2 := by
  cases op with
  | add k v =>
    cases k with
    | none => exact ⟨by first | rfl | trivial, hw, by first | rfl | trivial⟩
    | some kb =>
      cases v with
      | none => exact ⟨by first | rfl | trivial, hw, by first | rfl | trivial⟩
      | some vb =>
        have hf := find_spec hw (some kb)
        simp only [step, upsertInternal, refStep]
        cases hfind : find m (some kb) with
        | absent =>
          rw [hfind] at hf
          obtain ⟨m', ha, hw', hv'⟩ := sim_alloc hw (some kb) (some vb) h hh _ hf.2 rfl
          simp only [ha]
          have hg : RefMap.get kb (view m) = none := hf.1
          rw [hg]
          exact ⟨by first | rfl | trivial, hw', hv'⟩
        | cell p cur =>
          rw [hfind] at hf
          have hg : RefMap.get kb (view m) = some (cellOf cur) := hf.1
          rw [hg]
          cases cur with
          | none =>
            have := sim_store hw (some kb) p none (some vb) _ hf.1 hf.2.1 rfl
            exact ⟨by first | rfl | trivial, this.1, this.2⟩
          | some c => exact ⟨by first | rfl | trivial, hw, by first | rfl | trivial⟩
        | wild => rw [hfind] at hf; exact hf.elim
  | upsert k v =>
    cases k with
    | none => exact ⟨by first | rfl | trivial, hw, by first | rfl | trivial⟩
    | some kb =>
      cases v with
      | none => exact ⟨by first | rfl | trivial, hw, by first | rfl | trivial⟩
      | some vb =>
        have hf := find_spec hw (some kb)
        simp only [step, upsertInternal, refStep]
        cases hfind : find m (some kb) with
        | absent =>
          rw [hfind] at hf
          obtain ⟨m', ha, hw', hv'⟩ := sim_alloc hw (some kb) (some vb) h hh _ hf.2 rfl
          simp only [ha]
          exact ⟨by first | rfl | trivial, hw', hv'⟩
        | cell p cur =>
          rw [hfind] at hf
          have := sim_store hw (some kb) p cur (some vb) _ hf.1 hf.2.1 rfl
          simp only [Bool.and_false]
          exact ⟨by first | rfl | trivial, this.1, this.2⟩
        | wild => rw [hfind] at hf; exact hf.elim
  | delete k =>
    have hf := find_spec hw k
    simp only [step, deleteInternal, refStep]
    cases hfind : find m k with
    | absent =>
      rw [hfind] at hf
      rw [hf.1]
      exact ⟨by first | rfl | trivial, hw, by first | rfl | trivial⟩
    | cell p cur =>
      rw [hfind] at hf
      rw [hf.1]
      have := sim_store hw k p cur none (- goLen cur) hf.1 hf.2.1 (by simp [goLen])
      exact ⟨by first | rfl | trivial, this.1, this.2⟩
    | wild => rw [hfind] at hf; exact hf.elim
  | deleteIfExists k =>
    have hf := find_spec hw k
    simp only [step, deleteInternal, refStep]
    cases hfind : find m k with
    | absent =>
      rw [hfind] at hf
      rw [hf.1]
      exact ⟨by first | rfl | trivial, hw, by first | rfl | trivial⟩
    | cell p cur =>
      rw [hfind] at hf
      rw [hf.1]
      have := sim_store hw k p cur none (- goLen cur) hf.1 hf.2.1 (by simp [goLen])
      exact ⟨by first | rfl | trivial, this.1, this.2⟩
    | wild => rw [hfind] at hf; exact hf.elim
  | tombstone k =>
    have hf := find_spec hw k
    simp only [step, tombstone, refStep]
    cases hfind : find m k with
    | absent =>
      rw [hfind] at hf
      obtain ⟨m', ha, hw', hv'⟩ := sim_alloc hw k none h hh (goLen k) hf.2 (by simp [goLen])
      simp only [ha]
      exact ⟨by first | rfl | trivial, hw', hv'⟩
    | cell p cur =>
      rw [hfind] at hf
      have := sim_store hw k p cur none (- goLen cur) hf.1 hf.2.1 (by simp [goLen])
      exact ⟨by first | rfl | trivial, this.1, this.2⟩
    | wild => rw [hfind] at hf; exact hf.elim
  | get k =>
    have hf := find_spec hw k
    simp only [step, Mem.get, refStep]
    cases hfind : find m k with
    | absent => rw [hfind] at hf; rw [hf.1]; exact ⟨by first | rfl | trivial, hw, by first | rfl | trivial⟩
    | cell p cur =>
      rw [hfind] at hf; rw [hf.1]
      cases cur <;> exact ⟨by first | rfl | trivial, hw, by first | rfl | trivial⟩
    | wild => rw [hfind] at hf; exact hf.elim
  | contains k =>
    have hf := find_spec hw k
    simp only [step, Mem.contains, refStep]
    cases hfind : find m k with
    | absent => rw [hfind] at hf; rw [hf.1]; exact ⟨by first | rfl | trivial, hw, by first | rfl | trivial⟩
    | cell p cur =>
      rw [hfind] at hf; rw [hf.1]
      cases cur <;> exact ⟨by first | rfl | trivial, hw, by first | rfl | trivial⟩
    | wild => rw [hfind] at hf; exact hf.elim
  | isTombstoned k =>
    have hf := find_spec hw k
    simp only [step, Mem.isTombstoned, refStep, contains_eq]
    cases hfind : find m k with
    | absent =>
      rw [hfind] at hf; simp only [hf.1, hf.2]
      exact ⟨by first | rfl | trivial, hw, by first | rfl | trivial⟩
    | cell p cur =>
      rw [hfind] at hf; simp only [hf.1, hf.2.2.2]
      cases cur <;> exact ⟨by first | rfl | trivial, hw, by first | rfl | trivial⟩
    | wild => rw [hfind] at hf; exact hf.elim
  | size =>
    simp only [step, refStep]
    exact ⟨by rw [view_length], hw, by first | rfl | trivial⟩

/-- whole programs -/
theorem run_sim : ∀ (prog : List (Op × Nat)) (m : MemStore), WF m → (∀ x ∈ prog, 1 ≤ x.2) →
    (run m prog).1 = (refRun (view m) (prog.map (·.1))).1 ∧ WF (run m prog).2 ∧
      view (run m prog).2 = (refRun (view m) (prog.map (·.1))).2
  | [], m, hw, _ => ⟨rfl, hw, rfl⟩
  | (op, h) :: rest, m, hw, hh => by
    obtain ⟨h1, h2, h3⟩ := step_sim hw op h (hh _ List.mem_cons_self)
    obtain ⟨i1, i2, i3⟩ := run_sim rest (step m op h).2 h2 fun x hx => hh x (List.mem_cons_of_mem _ hx)
    simp only [run, List.map_cons, refRun]
    rw [h3] at i1 i3
    refine ⟨?_, i2, i3⟩
    rw [h1, i1]

end SST.Proofs.MemP
